/-
C04 — the 64-bit keys of the sample sort as big-endian digit strings.

`packNat w` is the value of the byte list `w` read as a base-256 number; `pad l k` are the
first `k` bytes of `l`, filled with zeros.  `getKey? s depth` is the number
`packNat (pad (s.drop depth) 8)`; order on keys is lexicographic order on the windows,
`clz(a ^ b) / 8` is the length of their common prefix, `(a & 0xFF)` the last byte and
`8 - ctz(a) / 8` the window without its trailing zero bytes.
-/
import TlxVerif.Model.C04Key
namespace TlxVerif.C04

def packNat : List UInt8 → Nat
  | [] => 0
  | b :: bs => b.toNat * 256 ^ bs.length + packNat bs

def pad (l : List UInt8) (k : Nat) : List UInt8 := l.take k ++ List.replicate (k - (l.take k).length) 0

theorem pad_length (l : List UInt8) (k : Nat) : (pad l k).length = k := by
  simp only [pad, List.length_append, List.length_take, List.length_replicate]; omega

theorem pad_nil (k : Nat) : pad [] k = List.replicate k 0 := by simp [pad]
theorem pad_zero (l : List UInt8) : pad l 0 = [] := by simp [pad]
theorem pad_cons (c : UInt8) (cs : List UInt8) (k : Nat) : pad (c :: cs) (k + 1) = c :: pad cs k := by
  simp [pad]

theorem packNat_replicate_zero (k : Nat) : packNat (List.replicate k 0) = 0 := by
  induction k with
  | zero => rfl
  | succ k ih => simp [List.replicate_succ, packNat, ih]

theorem packNat_lt (l : List UInt8) : packNat l < 256 ^ l.length := by
  induction l with
  | nil => simp [packNat]
  | cons b bs ih =>
    simp only [packNat, List.length_cons, Nat.pow_succ]
    have hb : b.toNat < 256 := UInt8.toNat_lt b
    have : b.toNat * 256 ^ bs.length ≤ 255 * 256 ^ bs.length := Nat.mul_le_mul_right _ (by omega)
    omega

theorem packNat_append (l1 l2 : List UInt8) : packNat (l1 ++ l2) = packNat l1 * 256 ^ l2.length + packNat l2 := by
  induction l1 with
  | nil => simp [packNat]
  | cons b bs ih =>
    simp only [List.cons_append, packNat, List.length_append, ih, Nat.pow_add]
    rw [Nat.add_mul, Nat.mul_assoc]
    omega

/-- the leading `j` digits -/
theorem packNat_div (l : List UInt8) (j : Nat) (hj : j ≤ l.length) :
    packNat l / 256 ^ (l.length - j) = packNat (l.take j) := by
  have h := packNat_append (l.take j) (l.drop j)
  rw [List.take_append_drop] at h
  have hlen : (l.drop j).length = l.length - j := by simp
  rw [h, hlen]
  have hlt := packNat_lt (l.drop j)
  rw [hlen] at hlt
  have hpos : 0 < 256 ^ (l.length - j) := Nat.pow_pos (by omega)
  rw [Nat.mul_comm, Nat.mul_add_div hpos, Nat.div_eq_of_lt hlt]; omega

theorem packNat_inj : ∀ (l1 l2 : List UInt8), l1.length = l2.length → packNat l1 = packNat l2 → l1 = l2
  | [], [], _, _ => rfl
  | [], _ :: _, h, _ => by simp at h
  | _ :: _, [], h, _ => by simp at h
  | a :: as, b :: bs, hl, hp => by
    simp only [List.length_cons, Nat.add_right_cancel_iff] at hl
    simp only [packNat] at hp
    have h1 := packNat_lt as
    have h2 := packNat_lt bs
    rw [hl] at hp h1
    have hpos : 0 < 256 ^ bs.length := Nat.pow_pos (by omega)
    have hab : a.toNat = b.toNat := by
      have e1 : (a.toNat * 256 ^ bs.length + packNat as) / 256 ^ bs.length = a.toNat := by
        rw [Nat.mul_comm, Nat.mul_add_div hpos, Nat.div_eq_of_lt h1]; omega
      have e2 : (b.toNat * 256 ^ bs.length + packNat bs) / 256 ^ bs.length = b.toNat := by
        rw [Nat.mul_comm, Nat.mul_add_div hpos, Nat.div_eq_of_lt h2]; omega
      rw [← e1, ← e2, hp]
    have hrest : packNat as = packNat bs := by rw [hab] at hp; omega
    rw [UInt8.toNat_inj.1 hab, packNat_inj as bs hl hrest]

/-! ### lexicographic order -/

/-- strict lexicographic order on byte lists (for equal lengths) -/
def lexLt : List UInt8 → List UInt8 → Bool
  | a :: as, b :: bs => if a < b then true else if b < a then false else lexLt as bs
  | _, _ => false

theorem packNat_lt_iff : ∀ (l1 l2 : List UInt8), l1.length = l2.length → (packNat l1 < packNat l2 ↔ lexLt l1 l2 = true)
  | [], [], _ => by simp [packNat, lexLt]
  | [], _ :: _, h => by simp at h
  | _ :: _, [], h => by simp at h
  | a :: as, b :: bs, hl => by
    simp only [List.length_cons, Nat.add_right_cancel_iff] at hl
    have h1 := packNat_lt as
    have h2 := packNat_lt bs
    rw [hl] at h1
    have ih := packNat_lt_iff as bs hl
    simp only [packNat, lexLt, hl]
    have hpos : 0 < 256 ^ bs.length := Nat.pow_pos (by omega)
    by_cases hab : a < b
    · simp only [hab, if_true, iff_true]
      have : a.toNat + 1 ≤ b.toNat := UInt8.lt_iff_toNat_lt.1 hab
      have : (a.toNat + 1) * 256 ^ bs.length ≤ b.toNat * 256 ^ bs.length := Nat.mul_le_mul_right _ this
      rw [Nat.add_mul] at this
      omega
    · by_cases hba : b < a
      · simp only [hab, hba, if_true, if_false, Bool.false_eq_true, iff_false, Nat.not_lt]
        have : b.toNat + 1 ≤ a.toNat := UInt8.lt_iff_toNat_lt.1 hba
        have : (b.toNat + 1) * 256 ^ bs.length ≤ a.toNat * 256 ^ bs.length := Nat.mul_le_mul_right _ this
        rw [Nat.add_mul] at this
        omega
      · have hEq : a.toNat = b.toNat := by
          have h3 : ¬ a.toNat < b.toNat := fun h => hab (UInt8.lt_iff_toNat_lt.2 h)
          have h4 : ¬ b.toNat < a.toNat := fun h => hba (UInt8.lt_iff_toNat_lt.2 h)
          omega
        simp only [hab, hba, if_false, hEq]
        rw [← ih]; omega

/-! ### the key of a string -/

theorem getKeyAux_toNat : ∀ (l : List UInt8) (k : Nat) (v : Key), k ≤ 8 → v.toNat % 2 ^ (8 * k) = 0 →
    (getKeyAux l k v).toNat = v.toNat + packNat (pad l k)
  | [], k, v, _, _ => by simp [getKeyAux, pad_nil, packNat_replicate_zero]
  | _ :: _, 0, v, _, _ => by simp [getKeyAux, pad_zero, packNat]
  | c :: cs, k + 1, v, hk, hv => by
    simp only [getKeyAux, pad_cons, packNat, pad_length]
    have hc : c.toNat < 256 := UInt8.toNat_lt c
    have hx : ((c.toBitVec.setWidth 64) <<< (8 * k)).toNat = c.toNat * 2 ^ (8 * k) := by
      rw [BitVec.toNat_shiftLeft, BitVec.toNat_setWidth, UInt8.toNat_toBitVec, Nat.shiftLeft_eq]
      have h1 : c.toNat % 2 ^ 64 = c.toNat := Nat.mod_eq_of_lt (by omega)
      rw [h1]
      apply Nat.mod_eq_of_lt
      have : 2 ^ (8 * k) ≤ 2 ^ 56 := Nat.pow_le_pow_right (by omega) (by omega)
      calc c.toNat * 2 ^ (8 * k) ≤ 255 * 2 ^ 56 := Nat.mul_le_mul (by omega) this
        _ < 2 ^ 64 := by decide
    have hlt : c.toNat * 2 ^ (8 * k) < 2 ^ (8 * (k + 1)) := by
      have : 2 ^ (8 * (k + 1)) = 256 * 2 ^ (8 * k) := by rw [Nat.mul_add, Nat.pow_add]; simp [Nat.mul_comm]
      rw [this]; exact Nat.mul_lt_mul_of_pos_right hc (Nat.pow_pos (by omega))
    have hor : (v ||| ((c.toBitVec.setWidth 64) <<< (8 * k))).toNat = v.toNat + c.toNat * 2 ^ (8 * k) := by
      rw [BitVec.toNat_or, hx]
      obtain ⟨q, hq⟩ := Nat.dvd_of_mod_eq_zero hv
      have : v.toNat = q <<< (8 * (k + 1)) := by rw [Nat.shiftLeft_eq, hq, Nat.mul_comm]
      rw [this, ← Nat.shiftLeft_add_eq_or_of_lt hlt]
    have hmod : (v ||| ((c.toBitVec.setWidth 64) <<< (8 * k))).toNat % 2 ^ (8 * k) = 0 := by
      rw [hor]
      obtain ⟨q, hq⟩ := Nat.dvd_of_mod_eq_zero hv
      have e : 2 ^ (8 * (k + 1)) = 2 ^ (8 * k) * 256 := by rw [Nat.mul_add, Nat.pow_add]
      rw [hq, e, Nat.mul_assoc, Nat.mul_comm c.toNat, ← Nat.mul_add, Nat.mul_mod_right]
    rw [getKeyAux_toNat cs k _ (by omega) hmod, hor]
    have : (256 : Nat) ^ k = 2 ^ (8 * k) := by rw [Nat.pow_mul]
    rw [this]; omega

/-- the key is the value of the 8-byte window at `depth` -/
theorem getKey_toNat {s : Str} {depth : Nat} {k : Key} (h : getKey? s depth = some k) :
    k.toNat = packNat (pad (s.drop depth) 8) := by
  unfold getKey? at h
  split at h
  · cases h
    have := getKeyAux_toNat (s.drop depth) 8 0 (by omega) (by simp)
    simpa using this
  · cases h

/-- reading the key inside the string (or at its terminator) never leaves the allocation -/
theorem getKey_isSome {s : Str} {depth : Nat} (h : depth ≤ s.length) : (getKey? s depth).isSome = true := by
  simp [getKey?, h]

/-! ### `clz(a ^ b) / 8` is the common prefix of the windows -/

theorem clz_ge_iff (x : Key) (m : Nat) (hm : m ≤ 64) : m ≤ x.clz.toNat ↔ x.toNat < 2 ^ (64 - m) := by
  constructor
  · intro h
    have h1 := BitVec.toNat_lt_two_pow_sub_clz (x := x)
    have : 2 ^ (64 - x.clz.toNat) ≤ 2 ^ (64 - m) := Nat.pow_le_pow_right (by omega) (by omega)
    omega
  · intro h
    by_cases hx : x = 0#64
    · subst hx
      have : (0#64 : Key).clz = BitVec.ofNat 64 64 := BitVec.clz_eq_iff_eq_zero.2 rfl
      rw [this]; simp; omega
    · have h2 := BitVec.two_pow_sub_clz_le_toNat_of_ne_zero (x := x) (by omega) hx
      have hlt : 2 ^ (64 - 1 - x.clz.toNat) < 2 ^ (64 - m) := by omega
      have := (Nat.pow_lt_pow_iff_right (a := 2) (by omega)).1 hlt
      have hc : x.clz.toNat ≤ 64 := by
        have := BitVec.clz_le (x := x)
        simpa [BitVec.le_def] using this
      omega

theorem u8_of_lt {n : Nat} (h : n < 256) : u8 n = n := Nat.mod_eq_of_lt h

theorem u16_of_lt {n : Nat} (h : n < 65536) : u16 n = n := Nat.mod_eq_of_lt h

theorem lcpT_of_lt {n : Nat} (h : n < 4294967296) : lcpT n = n := Nat.mod_eq_of_lt h

/-- the `unsigned char` return type of `lcpKeyType` loses nothing -/
theorem lcpKeyType_def (a b : Key) : lcpKeyType a b = (a ^^^ b).clz.toNat / 8 := by
  unfold lcpKeyType
  have hc : (a ^^^ b).clz.toNat ≤ 64 := by
    have := BitVec.clz_le (x := a ^^^ b)
    simpa [BitVec.le_def] using this
  exact u8_of_lt (by omega)

/-- the `unsigned char` return type of `lcpKeyDepth` loses nothing -/
theorem lcpKeyDepth_def (a : Key) : lcpKeyDepth a = 8 - a.ctz.toNat / 8 := by
  unfold lcpKeyDepth
  exact u8_of_lt (by omega)

theorem lcpKeyType_le (a b : Key) : lcpKeyType a b ≤ 8 := by
  rw [lcpKeyType_def]
  have hc : (a ^^^ b).clz.toNat ≤ 64 := by
    have := BitVec.clz_le (x := a ^^^ b)
    simpa [BitVec.le_def] using this
  omega

theorem lcpKeyDepth_le (a : Key) : lcpKeyDepth a ≤ 8 := by rw [lcpKeyDepth_def]; omega

/-- storing the key-relative values into the `std::uint8_t` fields of `MKQSStep` loses nothing -/
theorem u8_lcpKeyType (a b : Key) : u8 (lcpKeyType a b) = lcpKeyType a b :=
  u8_of_lt (by have := lcpKeyType_le a b; omega)

theorem u8_lcpKeyDepth (a : Key) : u8 (lcpKeyDepth a) = lcpKeyDepth a :=
  u8_of_lt (by have := lcpKeyDepth_le a; omega)

theorem lcpKeyType_ge_iff (a b : Key) (j : Nat) (hj : j ≤ 8) :
    j ≤ lcpKeyType a b ↔ a.toNat / 2 ^ (64 - 8 * j) = b.toNat / 2 ^ (64 - 8 * j) := by
  rw [lcpKeyType_def]
  rw [Nat.le_div_iff_mul_le (by omega), Nat.mul_comm, clz_ge_iff _ _ (by omega)]
  have hpos : 0 < 2 ^ (64 - 8 * j) := Nat.pow_pos (by omega)
  rw [← Nat.div_eq_zero_iff_lt hpos, ← Nat.shiftRight_eq_div_pow, ← BitVec.toNat_ushiftRight,
    BitVec.ushiftRight_xor_distrib]
  rw [← Nat.shiftRight_eq_div_pow, ← Nat.shiftRight_eq_div_pow, ← BitVec.toNat_ushiftRight, ← BitVec.toNat_ushiftRight]
  constructor
  · intro h
    have : (a >>> (64 - 8 * j)) ^^^ (b >>> (64 - 8 * j)) = 0#64 := BitVec.eq_of_toNat_eq (by simpa using h)
    rw [BitVec.xor_eq_zero_iff] at this
    rw [this]
  · intro h
    have : a >>> (64 - 8 * j) = b >>> (64 - 8 * j) := BitVec.eq_of_toNat_eq h
    rw [this]; simp

theorem lcp_ge_iff_take : ∀ (l1 l2 : List UInt8) (j : Nat), j ≤ l1.length → j ≤ l2.length →
    (j ≤ lcp l1 l2 ↔ l1.take j = l2.take j)
  | _, _, 0, _, _ => by simp
  | [], _, j + 1, h, _ => by simp at h
  | _ :: _, [], j + 1, _, h => by simp at h
  | a :: as, b :: bs, j + 1, h1, h2 => by
    simp only [List.length_cons, Nat.add_le_add_iff_right] at h1 h2
    simp only [lcp, List.take_succ_cons, List.cons.injEq]
    by_cases hab : a = b
    · simp only [hab, if_true, true_and, Nat.add_le_add_iff_right]
      exact lcp_ge_iff_take as bs j h1 h2
    · simp [hab]

/-- `lcpKeyType` of two keys is the length of the common prefix of their windows -/
theorem lcpKeyType_eq_lcp {a b : Key} {wa wb : List UInt8} (ha : a.toNat = packNat wa) (hb : b.toNat = packNat wb)
    (la : wa.length = 8) (lb : wb.length = 8) : lcpKeyType a b = lcp wa wb := by
  have hle1 := lcpKeyType_le a b
  have hle2 : lcp wa wb ≤ 8 := by
    have : ∀ (l1 l2 : List UInt8), lcp l1 l2 ≤ l1.length := by
      intro l1
      induction l1 with
      | nil => intro l2; simp [lcp]
      | cons x xs ih =>
        intro l2
        cases l2 with
        | nil => simp [lcp]
        | cons y ys => simp only [lcp]; split <;> simp [ih ys]
    have := this wa wb; omega
  have key : ∀ j, j ≤ 8 → (j ≤ lcpKeyType a b ↔ j ≤ lcp wa wb) := by
    intro j hj
    rw [lcpKeyType_ge_iff a b j hj, lcp_ge_iff_take wa wb j (by omega) (by omega), ha, hb]
    have e : (2 : Nat) ^ (64 - 8 * j) = 256 ^ (8 - j) := by
      have : 64 - 8 * j = 8 * (8 - j) := by omega
      rw [this, Nat.pow_mul]
    have e1 := packNat_div wa j (by omega)
    have e2 := packNat_div wb j (by omega)
    rw [la] at e1; rw [lb] at e2
    rw [e, e1, e2]
    constructor
    · intro h
      exact packNat_inj _ _ (by simp [la, lb]) h
    · intro h; rw [h]
  have h1 := (key (lcpKeyType a b) hle1).1 (Nat.le_refl _)
  have h2 := (key (lcp wa wb) hle2).2 (Nat.le_refl _)
  omega

/-! ### the last byte and the number of significant bytes -/

theorem lowByte_eq {a : Key} {wa : List UInt8} (ha : a.toNat = packNat wa) (la : wa.length = 8) :
    lowByte a = (wa.getD 7 0).toNat := by
  unfold lowByte
  have : (a &&& 0xFF#64).toNat = a.toNat % 256 := by
    rw [BitVec.toNat_and]
    exact Nat.and_two_pow_sub_one_eq_mod a.toNat 8
  rw [this, ha]
  have h := packNat_append (wa.take 7) (wa.drop 7)
  rw [List.take_append_drop] at h
  match wa, la with
  | [b0, b1, b2, b3, b4, b5, b6, b7], _ =>
    simp only [packNat, List.length_cons, List.length_nil, List.getD_eq_getElem?_getD]
    have := UInt8.toNat_lt b7
    simp
    omega

/-! ### `8 - ctz(a) / 8`: the window without its trailing zero bytes -/

theorem ctz_le (x : Key) : x.ctz.toNat ≤ 64 := by
  rw [BitVec.ctz_eq_reverse_clz]
  have := BitVec.clz_le (x := x.reverse)
  simpa [BitVec.le_def] using this

theorem ctz_ge_iff (x : Key) (m : Nat) (hm : m ≤ 64) : m ≤ x.ctz.toNat ↔ x.toNat % 2 ^ m = 0 := by
  constructor
  · intro h
    apply Nat.eq_of_testBit_eq
    intro i
    rw [Nat.testBit_mod_two_pow, Nat.zero_testBit]
    by_cases hi : i < m
    · have : x.getLsbD i = false := BitVec.getLsbD_false_of_lt_ctz (by omega)
      simp [hi, BitVec.testBit_toNat, this]
    · simp [hi]
  · intro h
    by_cases hx : x = 0#64
    · subst hx
      have : ¬ ((0#64 : Key).ctz < BitVec.ofNat 64 64) := fun hlt => (BitVec.ctz_lt_iff_ne_zero.1 hlt) rfl
      have h2 := ctz_le (0#64)
      simp only [BitVec.lt_def, BitVec.toNat_ofNat] at this
      omega
    · rcases Nat.lt_or_ge x.ctz.toNat m with hlt | hge
      · exfalso
        have hb := BitVec.getLsbD_true_ctz_of_ne_zero hx
        have : (x.toNat % 2 ^ m).testBit x.ctz.toNat = true := by
          rw [Nat.testBit_mod_two_pow, BitVec.testBit_toNat, hb]; simp [hlt]
        rw [h, Nat.zero_testBit] at this; cases this
      · exact hge

theorem packNat_eq_zero_iff (l : List UInt8) : packNat l = 0 ↔ l = List.replicate l.length 0 := by
  constructor
  · intro h
    exact packNat_inj _ _ (by simp) (by rw [h, packNat_replicate_zero])
  · intro h; rw [h, packNat_replicate_zero]

/-- a NUL-free string that ends inside the window: `lcpKeyDepth` is its length -/
theorem lcpKeyDepth_eq {a : Key} {s : List UInt8} (ha : a.toNat = packNat (pad s 8)) (hs : ∀ c ∈ s, c ≠ 0)
    (hl : s.length < 8) : lcpKeyDepth a = s.length := by
  rw [lcpKeyDepth_def]
  have hpad : pad s 8 = s ++ List.replicate (8 - s.length) 0 := by
    simp [pad, List.take_of_length_le (by omega : s.length ≤ 8)]
  have key : ∀ j, j ≤ 8 → (j ≤ a.ctz.toNat / 8 ↔ j ≤ 8 - s.length) := by
    intro j hj
    rw [Nat.le_div_iff_mul_le (by omega), Nat.mul_comm, ctz_ge_iff _ _ (by omega), ha]
    have e : (2 : Nat) ^ (8 * j) = 256 ^ j := by rw [Nat.pow_mul]
    rw [e]
    -- the last j bytes of the window
    have hsplit := packNat_append ((pad s 8).take (8 - j)) ((pad s 8).drop (8 - j))
    rw [List.take_append_drop] at hsplit
    have hdl : ((pad s 8).drop (8 - j)).length = j := by simp [pad_length]; omega
    rw [hsplit, hdl, Nat.mul_add_mod_self_right, Nat.mod_eq_of_lt (by have := packNat_lt ((pad s 8).drop (8 - j)); rwa [hdl] at this)]
    rw [packNat_eq_zero_iff, hdl]
    constructor
    · intro hz
      -- the byte at position 8 - j is zero, hence lies behind the string
      rcases Nat.lt_or_ge (8 - j) s.length with hlt | hge
      · exfalso
        have h1 : ((pad s 8).drop (8 - j))[0]? = some s[8 - j] := by
          rw [List.getElem?_drop, hpad, List.getElem?_append_left (by omega)]
          simp [hlt]
        rw [hz] at h1
        have hj0 : 0 < j := by omega
        simp [hj0] at h1
        exact hs _ (List.getElem_mem hlt) h1.symm
      · omega
    · intro hj2
      rw [hpad, List.drop_append, List.drop_eq_nil_of_le (by omega : s.length ≤ 8 - j)]
      simp only [List.nil_append, List.drop_replicate]
      congr 1; omega
  have h1 : a.ctz.toNat / 8 ≤ 8 := by have := ctz_le a; omega
  have h2 := (key (a.ctz.toNat / 8) h1).1 (Nat.le_refl _)
  have h3 := (key (8 - s.length) (by omega)).2 (Nat.le_refl _)
  omega

end TlxVerif.C04
