import TlxVerif.Model.C16Machine
import TlxVerif.Proofs.C16Whole
/-! One step of the concrete machine refines one step of the bounded-deque machine. -/
namespace TlxVerif.C16

inductive ObjRep : Option RB → Option AObj → Prop
  | none : ObjRep none none
  | shell {r : RB} {m : Nat} : Shell r → r.maxSize = m → ObjRep (some r) (some (.shell m))
  | buf {k : Nat} {r : RB} {m : Nat} {xs : List Elem} : Rep k r xs → r.maxSize = m → ObjRep (some r) (some (.buf m xs))

/-- register files correspond pointwise -/
def RegsRep (rs : Regs) (as : ARegs) : Prop :=
  rs.length = as.length ∧ ∀ i, ObjRep (getObj rs i) (agetObj as i)

theorem RegsRep.set {rs : Regs} {as : ARegs} (h : RegsRep rs as) (i : Nat) {a : Option RB} {b : Option AObj}
    (hab : ObjRep a b) : RegsRep (rs.set i a) (as.set i b) := by
  refine ⟨by simp [h.1], fun j => ?_⟩
  unfold getObj agetObj
  rw [List.getElem?_set, List.getElem?_set]
  by_cases hij : i = j
  · subst hij
    by_cases hl : i < rs.length
    · have hl' : i < as.length := h.1 ▸ hl
      simp [hl, hl']; exact hab
    · have hl' : ¬ i < as.length := h.1 ▸ hl
      simp [hl, hl']; exact .none
  · simp [hij]; exact h.2 j

theorem RegsRep.free {rs : Regs} {as : ARegs} (h : RegsRep rs as) {i : Nat} (hf : aisFree as i = true) :
    isFree rs i = true := by
  unfold aisFree at hf; unfold isFree
  have hi : i < as.length := by
    rcases Nat.lt_or_ge i as.length with h' | h'
    · exact h'
    · rw [List.getElem?_eq_none h'] at hf; simp at hf
  have hi' : i < rs.length := h.1 ▸ hi
  have := h.2 i
  unfold getObj agetObj at this
  rw [List.getElem?_eq_getElem hi] at hf this
  rw [List.getElem?_eq_getElem hi'] at this ⊢
  simp at hf; rw [hf] at this
  simp at this
  generalize rs[i] = o at *
  cases this; simp

theorem RegsRep.buf {rs : Regs} {as : ARegs} (h : RegsRep rs as) {i m : Nat} {xs : List Elem}
    (ha : agetObj as i = some (.buf m xs)) : ∃ k x, getObj rs i = some x ∧ Rep k x xs ∧ x.maxSize = m := by
  have := h.2 i
  rw [ha] at this
  generalize hg : getObj rs i = o at this
  cases this with
  | buf hr hm => exact ⟨_, _, rfl, hr, hm⟩

theorem RegsRep.shell {rs : Regs} {as : ARegs} (h : RegsRep rs as) {i m : Nat}
    (ha : agetObj as i = some (.shell m)) : ∃ x, getObj rs i = some x ∧ Shell x ∧ x.maxSize = m := by
  have := h.2 i
  rw [ha] at this
  generalize hg : getObj rs i = o at this
  cases this with
  | shell hr hm => exact ⟨_, rfl, hr, hm⟩

theorem RegsRep.some {rs : Regs} {as : ARegs} (h : RegsRep rs as) {i : Nat} {a : AObj}
    (ha : agetObj as i = some a) : ∃ x, getObj rs i = some x ∧ ObjRep (some x) (some a) := by
  have := h.2 i
  rw [ha] at this
  generalize hg : getObj rs i = o at this
  cases this with
  | shell hr hm => exact ⟨_, rfl, .shell hr hm⟩
  | buf hr hm => exact ⟨_, rfl, .buf hr hm⟩


theorem dropLast_snoc {xs : List Elem} (h : xs ≠ []) : xs.dropLast ++ [xs.getLast h] = xs :=
  List.dropLast_concat_getLast h

theorem step_new {rs : Regs} {as as' : ARegs} {out : Out} (r : Nat) (max : Nat)
    (h : RegsRep rs as) (hs : specStep as (.new r max) = some (as', out)) :
    ∃ rs', stepOp rs (.new r max) = some (rs', out) ∧ RegsRep rs' as' := by
  simp only [specStep] at hs
  split at hs
  · rename_i hc
    obtain ⟨hf, hmax⟩ := hc
    simp at hs; obtain ⟨rfl, rfl⟩ := hs
    obtain ⟨k, hk⟩ := Rep.new hmax
    refine ⟨_, by simp [stepOp, h.free hf], h.set r (.buf hk ?_)⟩
    simp [RB.new, RB.allocate]
  · simp at hs

theorem step_pushB {rs : Regs} {as as' : ARegs} {out : Out} (r : Nat) (v : Elem)
    (h : RegsRep rs as) (hs : specStep as (.pushB r v) = some (as', out)) :
    ∃ rs', stepOp rs (.pushB r v) = some (rs', out) ∧ RegsRep rs' as' := by
  simp only [specStep] at hs
  split at hs
  · rename_i m xs ha
    split at hs
    · rename_i hlt
      simp at hs; obtain ⟨rfl, rfl⟩ := hs
      obtain ⟨k, x, hx, hr, hm⟩ := h.buf ha
      obtain ⟨x', hp, hr', hm'⟩ := hr.pushBack v (by omega)
      exact ⟨_, by simp [stepOp, hx, hp], h.set r (.buf hr' (hm'.trans hm))⟩
    · simp at hs
  · simp at hs

theorem step_pushF {rs : Regs} {as as' : ARegs} {out : Out} (r : Nat) (v : Elem)
    (h : RegsRep rs as) (hs : specStep as (.pushF r v) = some (as', out)) :
    ∃ rs', stepOp rs (.pushF r v) = some (rs', out) ∧ RegsRep rs' as' := by
  simp only [specStep] at hs
  split at hs
  · rename_i m xs ha
    split at hs
    · rename_i hlt
      simp at hs; obtain ⟨rfl, rfl⟩ := hs
      obtain ⟨k, x, hx, hr, hm⟩ := h.buf ha
      obtain ⟨x', hp, hr', hm'⟩ := hr.pushFront v (by omega)
      exact ⟨_, by simp [stepOp, hx, hp], h.set r (.buf hr' (hm'.trans hm))⟩
    · simp at hs
  · simp at hs

theorem step_popF {rs : Regs} {as as' : ARegs} {out : Out} (r : Nat)
    (h : RegsRep rs as) (hs : specStep as (.popF r) = some (as', out)) :
    ∃ rs', stepOp rs (.popF r) = some (rs', out) ∧ RegsRep rs' as' := by
  simp only [specStep] at hs
  split at hs
  · rename_i m y xs ha
    simp at hs; obtain ⟨rfl, rfl⟩ := hs
    obtain ⟨k, x, hx, hr, hm⟩ := h.buf ha
    obtain ⟨x', hp, hr', hm'⟩ := hr.popFront
    exact ⟨_, by simp [stepOp, hx, hp], h.set r (.buf hr' (hm'.trans hm))⟩
  · simp at hs

theorem step_popB {rs : Regs} {as as' : ARegs} {out : Out} (r : Nat)
    (h : RegsRep rs as) (hs : specStep as (.popB r) = some (as', out)) :
    ∃ rs', stepOp rs (.popB r) = some (rs', out) ∧ RegsRep rs' as' := by
  simp only [specStep] at hs
  split at hs
  · rename_i m xs ha
    split at hs
    · rename_i hne
      simp at hs; obtain ⟨rfl, rfl⟩ := hs
      obtain ⟨k, x, hx, hr, hm⟩ := h.buf ha
      rw [← dropLast_snoc hne] at hr
      obtain ⟨x', hp, hr', hm'⟩ := hr.popBack
      exact ⟨_, by simp [stepOp, hx, hp], h.set r (.buf hr' (hm'.trans hm))⟩
    · simp at hs
  · simp at hs

theorem step_clear {rs : Regs} {as as' : ARegs} {out : Out} (r : Nat)
    (h : RegsRep rs as) (hs : specStep as (.clear r) = some (as', out)) :
    ∃ rs', stepOp rs (.clear r) = some (rs', out) ∧ RegsRep rs' as' := by
  simp only [specStep] at hs
  split at hs
  · rename_i m xs ha
    simp at hs; obtain ⟨rfl, rfl⟩ := hs
    obtain ⟨k, x, hx, hr, hm⟩ := h.buf ha
    obtain ⟨x', hp, hr', hm'⟩ := hr.clear
    exact ⟨_, by simp [stepOp, hx, hp], h.set r (.buf hr' (hm'.trans hm))⟩
  · rename_i m ha
    simp at hs; obtain ⟨rfl, rfl⟩ := hs
    obtain ⟨x, hx, hr, hm⟩ := h.shell ha
    exact ⟨_, by simp [stepOp, hx, hr.clear], h.set r (.shell hr hm)⟩
  · simp at hs

theorem step_front {rs : Regs} {as as' : ARegs} {out : Out} (r : Nat)
    (h : RegsRep rs as) (hs : specStep as (.front r) = some (as', out)) :
    ∃ rs', stepOp rs (.front r) = some (rs', out) ∧ RegsRep rs' as' := by
  simp only [specStep] at hs
  split at hs
  · rename_i m y xs ha
    simp at hs; obtain ⟨rfl, rfl⟩ := hs
    obtain ⟨k, x, hx, hr, hm⟩ := h.buf ha
    exact ⟨_, by simp [stepOp, hx, hr.front (by simp)], h⟩
  · simp at hs

theorem step_back {rs : Regs} {as as' : ARegs} {out : Out} (r : Nat)
    (h : RegsRep rs as) (hs : specStep as (.back r) = some (as', out)) :
    ∃ rs', stepOp rs (.back r) = some (rs', out) ∧ RegsRep rs' as' := by
  simp only [specStep] at hs
  split at hs
  · rename_i m xs ha
    split at hs
    · rename_i hne
      simp at hs; obtain ⟨rfl, rfl⟩ := hs
      obtain ⟨k, x, hx, hr, hm⟩ := h.buf ha
      exact ⟨_, by simp [stepOp, hx, hr.back hne], h⟩
    · simp at hs
  · simp at hs

theorem step_at {rs : Regs} {as as' : ARegs} {out : Out} (r : Nat) (i : Nat)
    (h : RegsRep rs as) (hs : specStep as (.«at» r i) = some (as', out)) :
    ∃ rs', stepOp rs (.«at» r i) = some (rs', out) ∧ RegsRep rs' as' := by
  simp only [specStep] at hs
  split at hs
  · rename_i m xs ha
    split at hs
    · rename_i hlt
      simp at hs; obtain ⟨rfl, rfl⟩ := hs
      obtain ⟨k, x, hx, hr, hm⟩ := h.buf ha
      exact ⟨_, by simp [stepOp, hx, hr.at hlt], h⟩
    · simp at hs
  · simp at hs

theorem step_size {rs : Regs} {as as' : ARegs} {out : Out} (r : Nat)
    (h : RegsRep rs as) (hs : specStep as (.size r) = some (as', out)) :
    ∃ rs', stepOp rs (.size r) = some (rs', out) ∧ RegsRep rs' as' := by
  simp only [specStep] at hs
  split at hs
  · rename_i m xs ha
    simp at hs; obtain ⟨rfl, rfl⟩ := hs
    obtain ⟨k, x, hx, hr, hm⟩ := h.buf ha
    exact ⟨_, by simp [stepOp, hx, hr.size], h⟩
  · rename_i m ha
    simp at hs; obtain ⟨rfl, rfl⟩ := hs
    obtain ⟨x, hx, hr, hm⟩ := h.shell ha
    exact ⟨_, by simp [stepOp, hx, hr.size], h⟩
  · simp at hs

theorem step_empty {rs : Regs} {as as' : ARegs} {out : Out} (r : Nat)
    (h : RegsRep rs as) (hs : specStep as (.empty r) = some (as', out)) :
    ∃ rs', stepOp rs (.empty r) = some (rs', out) ∧ RegsRep rs' as' := by
  simp only [specStep] at hs
  split at hs
  · rename_i m xs ha
    simp at hs; obtain ⟨rfl, rfl⟩ := hs
    obtain ⟨k, x, hx, hr, hm⟩ := h.buf ha
    exact ⟨_, by simp [stepOp, hx, hr.empty], h⟩
  · rename_i m ha
    simp at hs; obtain ⟨rfl, rfl⟩ := hs
    obtain ⟨x, hx, hr, hm⟩ := h.shell ha
    exact ⟨_, by simp [stepOp, hx, RB.empty, hr.size], h⟩
  · simp at hs

theorem step_copyTo {rs : Regs} {as as' : ARegs} {out : Out} (r : Nat)
    (h : RegsRep rs as) (hs : specStep as (.copyTo r) = some (as', out)) :
    ∃ rs', stepOp rs (.copyTo r) = some (rs', out) ∧ RegsRep rs' as' := by
  simp only [specStep] at hs
  split at hs
  · rename_i m xs ha
    simp at hs; obtain ⟨rfl, rfl⟩ := hs
    obtain ⟨k, x, hx, hr, hm⟩ := h.buf ha
    refine ⟨rs, ?_, h⟩
    show ((getObj rs r).bind fun x => x.toList?.bind fun l => some (rs, Out.list l)) = _
    rw [hx, Option.bind_some, hr.toList, Option.bind_some]
  · rename_i m ha
    simp at hs; obtain ⟨rfl, rfl⟩ := hs
    obtain ⟨x, hx, hr, hm⟩ := h.shell ha
    refine ⟨rs, ?_, h⟩
    show ((getObj rs r).bind fun x => x.toList?.bind fun l => some (rs, Out.list l)) = _
    rw [hx, Option.bind_some, hr.toList, Option.bind_some]
  · simp at hs

theorem step_moveTo {rs : Regs} {as as' : ARegs} {out : Out} (r : Nat)
    (h : RegsRep rs as) (hs : specStep as (.moveTo r) = some (as', out)) :
    ∃ rs', stepOp rs (.moveTo r) = some (rs', out) ∧ RegsRep rs' as' := by
  simp only [specStep] at hs
  split at hs
  · rename_i m xs ha
    simp at hs; obtain ⟨rfl, rfl⟩ := hs
    obtain ⟨k, x, hx, hr, hm⟩ := h.buf ha
    obtain ⟨x', hp, hr', hm'⟩ := hr.clear
    refine ⟨rs.set r (some x'), ?_, h.set r (.buf hr' (hm'.trans hm))⟩
    show ((getObj rs r).bind fun x => x.toList?.bind fun l => x.clear.bind fun x' =>
      some (rs.set r (some x'), Out.list l)) = _
    rw [hx, Option.bind_some, hr.toList, Option.bind_some, hp, Option.bind_some]
  · rename_i m ha
    simp at hs; obtain ⟨rfl, rfl⟩ := hs
    obtain ⟨x, hx, hr, hm⟩ := h.shell ha
    refine ⟨rs.set r (some x), ?_, h.set r (.shell hr hm)⟩
    show ((getObj rs r).bind fun x => x.toList?.bind fun l => x.clear.bind fun x' =>
      some (rs.set r (some x'), Out.list l)) = _
    rw [hx, Option.bind_some, hr.toList, Option.bind_some, hr.clear, Option.bind_some]
  · simp at hs

theorem step_alloc {rs : Regs} {as as' : ARegs} {out : Out} (r : Nat) (max : Nat)
    (h : RegsRep rs as) (hs : specStep as (.alloc r max) = some (as', out)) :
    ∃ rs', stepOp rs (.alloc r max) = some (rs', out) ∧ RegsRep rs' as' := by
  simp only [specStep] at hs
  split at hs
  · rename_i m ha
    split at hs
    · rename_i hmax
      simp at hs; obtain ⟨rfl, rfl⟩ := hs
      obtain ⟨x, hx, hr, hm⟩ := h.shell ha
      obtain ⟨k, hk⟩ := hr.allocate hmax
      exact ⟨_, by simp [stepOp, hx], h.set r (.buf hk (by simp [RB.allocate]))⟩
    · simp at hs
  · simp at hs

theorem step_dealloc {rs : Regs} {as as' : ARegs} {out : Out} (r : Nat)
    (h : RegsRep rs as) (hs : specStep as (.dealloc r) = some (as', out)) :
    ∃ rs', stepOp rs (.dealloc r) = some (rs', out) ∧ RegsRep rs' as' := by
  simp only [specStep] at hs
  split at hs
  · rename_i m xs ha
    simp at hs; obtain ⟨rfl, rfl⟩ := hs
    obtain ⟨k, x, hx, hr, hm⟩ := h.buf ha
    obtain ⟨x', hp, hr', hm'⟩ := hr.deallocate
    exact ⟨_, by simp [stepOp, hx, hp], h.set r (.shell hr' (hm'.trans hm))⟩
  · rename_i m ha
    simp at hs; obtain ⟨rfl, rfl⟩ := hs
    obtain ⟨x, hx, hr, hm⟩ := h.shell ha
    exact ⟨_, by simp [stepOp, hx, hr.deallocate], h.set r (.shell hr hm)⟩
  · simp at hs

theorem step_copyCtor {rs : Regs} {as as' : ARegs} {out : Out} (r : Nat) (s : Nat)
    (h : RegsRep rs as) (hs : specStep as (.copyCtor r s) = some (as', out)) :
    ∃ rs', stepOp rs (.copyCtor r s) = some (rs', out) ∧ RegsRep rs' as' := by
  simp only [specStep] at hs
  split at hs
  · rename_i m xs ha
    split at hs
    · rename_i hf
      simp at hs; obtain ⟨rfl, rfl⟩ := hs
      obtain ⟨k, x, hx, hr, hm⟩ := h.buf ha
      obtain ⟨x', hp, hr', hm'⟩ := hr.copyCtor
      refine ⟨rs.set r (some x'), ?_, h.set r (.buf hr' (hm'.trans hm))⟩
      simp only [stepOp, h.free hf]
      show ((getObj rs s).bind fun x => x.copyCtor.bind fun y => some (rs.set r (some y), Out.ok)) = _
      rw [hx, Option.bind_some, hp, Option.bind_some]
    · simp at hs
  · simp at hs

theorem step_moveCtor {rs : Regs} {as as' : ARegs} {out : Out} (r : Nat) (s : Nat)
    (h : RegsRep rs as) (hs : specStep as (.moveCtor r s) = some (as', out)) :
    ∃ rs', stepOp rs (.moveCtor r s) = some (rs', out) ∧ RegsRep rs' as' := by
  simp only [specStep] at hs
  split at hs
  · rename_i m xs ha
    split at hs
    · rename_i hf
      simp at hs; obtain ⟨rfl, rfl⟩ := hs
      obtain ⟨k, x, hx, hr, hm⟩ := h.buf ha
      exact ⟨_, by simp [stepOp, h.free hf, hx, RB.moveCtor],
        (h.set r (.buf hr hm)).set s (.shell (shell_movedFrom x) (by simpa [RB.movedFrom] using hm))⟩
    · simp at hs
  · rename_i m ha
    split at hs
    · rename_i hf
      simp at hs; obtain ⟨rfl, rfl⟩ := hs
      obtain ⟨x, hx, hr, hm⟩ := h.shell ha
      exact ⟨_, by simp [stepOp, h.free hf, hx, RB.moveCtor],
        (h.set r (.shell hr hm)).set s (.shell (shell_movedFrom x) (by simpa [RB.movedFrom] using hm))⟩
    · simp at hs
  · simp at hs

theorem step_assign {rs : Regs} {as as' : ARegs} {out : Out} (r : Nat) (s : Nat)
    (h : RegsRep rs as) (hs : specStep as (.assign r s) = some (as', out)) :
    ∃ rs', stepOp rs (.assign r s) = some (rs', out) ∧ RegsRep rs' as' := by
  simp only [specStep] at hs
  split at hs
  · rename_i m xs a ha hd
    obtain ⟨k, x, hx, hr, hm⟩ := h.buf ha
    obtain ⟨d, hdx, hdr⟩ := h.some hd
    split at hs
    · rename_i hsr
      simp at hs; obtain ⟨rfl, rfl⟩ := hs
      exact ⟨_, by simp [stepOp, hx, hdx, hsr], h⟩
    · rename_i hsr
      simp at hs; obtain ⟨rfl, rfl⟩ := hs
      cases hdr with
      | shell hsh _ =>
        obtain ⟨d', hp, hr', hm'⟩ := hsh.copyAssign hr
        exact ⟨_, by simp [stepOp, hx, hdx, hsr, hp], h.set r (.buf hr' (hm'.trans hm))⟩
      | buf hrd _ =>
        obtain ⟨d', hp, hr', hm'⟩ := hrd.copyAssign hr
        exact ⟨_, by simp [stepOp, hx, hdx, hsr, hp], h.set r (.buf hr' (hm'.trans hm))⟩
  · simp at hs

theorem step_moveAssign {rs : Regs} {as as' : ARegs} {out : Out} (r : Nat) (s : Nat)
    (h : RegsRep rs as) (hs : specStep as (.moveAssign r s) = some (as', out)) :
    ∃ rs', stepOp rs (.moveAssign r s) = some (rs', out) ∧ RegsRep rs' as' := by
  simp only [specStep] at hs
  split at hs
  · rename_i m xs a ha hd
    obtain ⟨k, x, hx, hr, hm⟩ := h.buf ha
    obtain ⟨d, hdx, hdr⟩ := h.some hd
    split at hs
    · rename_i hsr
      simp at hs; obtain ⟨rfl, rfl⟩ := hs
      exact ⟨_, by simp [stepOp, hx, hdx, hsr], h⟩
    · rename_i hsr
      simp at hs; obtain ⟨rfl, rfl⟩ := hs
      have hclear : ∃ d1, d.clear = some d1 := by
        cases hdr with
        | shell hsh _ => exact ⟨_, hsh.clear⟩
        | buf hrd _ => obtain ⟨d1, h1, _⟩ := hrd.clear; exact ⟨d1, h1⟩
      obtain ⟨d1, h1⟩ := hclear
      exact ⟨_, by simp [stepOp, hx, hdx, hsr, RB.moveAssign, h1],
        (h.set r (.buf hr hm)).set s (.shell (shell_movedFrom x) (by simpa [RB.movedFrom] using hm))⟩
  · rename_i m a ha hd
    obtain ⟨x, hx, hr, hm⟩ := h.shell ha
    obtain ⟨d, hdx, hdr⟩ := h.some hd
    split at hs
    · rename_i hsr
      simp at hs; obtain ⟨rfl, rfl⟩ := hs
      exact ⟨_, by simp [stepOp, hx, hdx, hsr], h⟩
    · rename_i hsr
      simp at hs; obtain ⟨rfl, rfl⟩ := hs
      have hclear : ∃ d1, d.clear = some d1 := by
        cases hdr with
        | shell hsh _ => exact ⟨_, hsh.clear⟩
        | buf hrd _ => obtain ⟨d1, h1, _⟩ := hrd.clear; exact ⟨d1, h1⟩
      obtain ⟨d1, h1⟩ := hclear
      exact ⟨_, by simp [stepOp, hx, hdx, hsr, RB.moveAssign, h1],
        (h.set r (.shell hr hm)).set s (.shell (shell_movedFrom x) (by simpa [RB.movedFrom] using hm))⟩
  · simp at hs

theorem step_dtor {rs : Regs} {as as' : ARegs} {out : Out} (r : Nat)
    (h : RegsRep rs as) (hs : specStep as (.dtor r) = some (as', out)) :
    ∃ rs', stepOp rs (.dtor r) = some (rs', out) ∧ RegsRep rs' as' := by
  simp only [specStep] at hs
  split at hs
  · rename_i a ha
    simp at hs; obtain ⟨rfl, rfl⟩ := hs
    obtain ⟨x, hx, hxr⟩ := h.some ha
    have hd : x.dtor = some 0 := by
      cases hxr with
      | shell hsh _ => exact hsh.dtor
      | buf hr _ => exact hr.dtor
    exact ⟨_, by simp [stepOp, hx, hd], h.set r .none⟩
  · simp at hs

/-- **Single-step refinement.**  Whenever the bounded-deque machine permits an
operation, the ring-buffer machine executes it without breaking any lifetime
rule, returns the same answer, and the resulting states correspond again. -/
theorem step_refines {rs : Regs} {as as' : ARegs} {op : Op} {out : Out}
    (h : RegsRep rs as) (hs : specStep as op = some (as', out)) :
    ∃ rs', stepOp rs op = some (rs', out) ∧ RegsRep rs' as' := by
  cases op with
  | new r max => exact step_new r max h hs
  | pushB r v => exact step_pushB r v h hs
  | pushF r v => exact step_pushF r v h hs
  | popF r => exact step_popF r h hs
  | popB r => exact step_popB r h hs
  | clear r => exact step_clear r h hs
  | front r => exact step_front r h hs
  | back r => exact step_back r h hs
  | «at» r i => exact step_at r i h hs
  | size r => exact step_size r h hs
  | empty r => exact step_empty r h hs
  | copyTo r => exact step_copyTo r h hs
  | moveTo r => exact step_moveTo r h hs
  | alloc r max => exact step_alloc r max h hs
  | dealloc r => exact step_dealloc r h hs
  | copyCtor r s => exact step_copyCtor r s h hs
  | moveCtor r s => exact step_moveCtor r s h hs
  | assign r s => exact step_assign r s h hs
  | moveAssign r s => exact step_moveAssign r s h hs
  | dtor r => exact step_dtor r h hs

end TlxVerif.C16
