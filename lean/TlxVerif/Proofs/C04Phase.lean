/-
C04 — every phase transition of a `PS5BigSortStep` runs exactly once.

`sample()` arms `pwork_ = parts_` and creates the count jobs, the count job that brings `pwork_`
to zero runs `count_finished()`, which arms `pwork_` again and creates the distribute jobs, and
the distribute job that brings it to zero runs `distribute_finished()`.  In the transition system
(Model/C04Proto.lean) the arming is the event `store id parts`, the completion of a phase the
event `dec id 0` (in the fixed code the decrement and the test are one atomic operation,
`if (--pwork_ == 0)`).  Along every run of the fixed system, for every step object, the pair
(number of `store` events, number of `dec · 0` events) moves through
(0,0) → (1,0) → (1,1) → (2,1) → (2,2) and the pending instructions match the stage: at most one
pending `startLoop`, part jobs of exactly one phase, none after the second completion.
-/
import TlxVerif.Proofs.C04ProtoInv
namespace TlxVerif.C04
open Proto

/-- a run of the system together with the events it emits -/
inductive Run (cfg : Cfg) : State → List Event → Prop
  | init (k : Kind) (parts : Nat) : Run cfg (init k parts) []
  | step {s : State} {evs : List Event} (pre : List (List Instr)) (i : Instr) (rest : List Instr)
      (post : List (List Instr)) (ch : Choice) :
      Run cfg s evs → s.tasks = pre ++ (i :: rest) :: post → s.err = none →
      Run cfg
        (let e := execHead cfg s.objs s.owed ch i
         { objs := e.objs, tasks := pre ++ (e.blk ++ rest) :: post ++ e.nt, owed := e.owed, err := e.err })
        (evs ++ (execHead cfg s.objs s.owed ch i).evs)

theorem Run.reachable {cfg : Cfg} {s : State} {evs : List Event} (h : Run cfg s evs) : Reachable cfg s := by
  induction h with
  | init k parts => exact Reachable.init k parts
  | step pre i rest post ch _ ht he ih => exact Reachable.step ih ⟨pre, i, rest, post, ch, ht, he, rfl⟩

/-! ### counting by phase -/

def isStartPh (id : Nat) (ph : Phase) : Instr → Bool
  | .startLoop j p => j == id && p == ph
  | _ => false

def isPendPh (id : Nat) (ph : Phase) : Instr → Bool
  | .enq j p => j == id && p == ph
  | .decPwork j p => j == id && p == ph
  | _ => false

def isStoreEv (id : Nat) : Event → Bool
  | .store j _ => j == id
  | _ => false

/-- number of `pwork_ = parts_` executed on step `id` -/
def nStore (id : Nat) (evs : List Event) : Nat := evs.countP (isStoreEv id)
/-- number of times `pwork_` of step `id` reached zero (a phase completed, its `*_finished()` starts) -/
def nZero (id : Nat) (evs : List Event) : Nat := evs.count (.dec id 0)

theorem nStore_append (id : Nat) (a b : List Event) : nStore id (a ++ b) = nStore id a + nStore id b := by
  simp [nStore, List.countP_append]

theorem nZero_append (id : Nat) (a b : List Event) : nZero id (a ++ b) = nZero id a + nZero id b := by
  simp [nZero, List.count_append]

theorem start_split_pt (id : Nat) (i : Instr) :
    (if isStart id i = true then 1 else 0) =
      (if isStartPh id .count i = true then 1 else 0) + (if isStartPh id .dist i = true then 1 else 0) := by
  cases i <;> simp [isStart, isStartPh]
  rename_i j p
  cases p <;> by_cases h : j = id <;> simp [h]

theorem pend_split_pt (id : Nat) (i : Instr) :
    (if isPend id i = true then 1 else 0) =
      (if isPendPh id .count i = true then 1 else 0) + (if isPendPh id .dist i = true then 1 else 0) := by
  cases i <;> simp [isPend, isPendPh] <;>
  · rename_i j p
    cases p <;> by_cases h : j = id <;> simp [h]

theorem countP_split {q q1 q2 : Instr → Bool}
    (h : ∀ i, (if q i = true then 1 else 0) = (if q1 i = true then 1 else 0) + (if q2 i = true then 1 else 0)) :
    ∀ l : List Instr, l.countP q = l.countP q1 + l.countP q2
  | [] => rfl
  | i :: l => by
    simp only [List.countP_cons]
    have := h i
    have := countP_split h l
    omega

theorem NT_start_split (id : Nat) (tasks : List (List Instr)) :
    NT (isStart id) tasks = NT (isStartPh id .count) tasks + NT (isStartPh id .dist) tasks :=
  countP_split (start_split_pt id) _

theorem NT_pend_split (id : Nat) (tasks : List (List Instr)) :
    NT (isPend id) tasks = NT (isPendPh id .count) tasks + NT (isPendPh id .dist) tasks :=
  countP_split (pend_split_pt id) _

/-- executing the head `i` of a task: `i` is popped, `blk` pushed, the tasks `nt` added -/
theorem NT_next (q : Instr → Bool) (pre post nt : List (List Instr)) (i : Instr) (blk rest : List Instr) :
    NT q (pre ++ (blk ++ rest) :: post ++ nt) + (if q i = true then 1 else 0) =
      NT q (pre ++ (i :: rest) :: post) + blk.countP q + nt.flatten.countP q := by
  rw [NT_push, NT_pop]; omega

/-! ### the stage of a step -/

/-- pending `startLoop`s (count / distribute), pending part jobs (count / distribute), stores, zeros -/
def PhaseOk (sC sD pC pD st z : Nat) : Prop :=
  (st = 0 ∧ z = 0 ∧ sC ≤ 1 ∧ sD = 0 ∧ pC = 0 ∧ pD = 0) ∨
  (st = 1 ∧ z = 0 ∧ sC = 0 ∧ sD = 0 ∧ 1 ≤ pC ∧ pD = 0) ∨
  (st = 1 ∧ z = 1 ∧ sC = 0 ∧ sD = 1 ∧ pC = 0 ∧ pD = 0) ∨
  (st = 2 ∧ z = 1 ∧ sC = 0 ∧ sD = 0 ∧ pC = 0 ∧ 1 ≤ pD) ∨
  (st = 2 ∧ z = 2 ∧ sC = 0 ∧ sD = 0 ∧ pC = 0 ∧ pD = 0)

def PhaseOkAt (tasks : List (List Instr)) (evs : List Event) (id : Nat) : Prop :=
  PhaseOk (NT (isStartPh id .count) tasks) (NT (isStartPh id .dist) tasks)
    (NT (isPendPh id .count) tasks) (NT (isPendPh id .dist) tasks) (nStore id evs) (nZero id evs)

structure PhInv (s : State) (evs : List Event) : Prop where
  ok : ∀ id, PhaseOkAt s.tasks evs id
  fresh : ∀ id, s.objs.length ≤ id → nStore id evs = 0 ∧ nZero id evs = 0

theorem startPh_subj (id : Nat) (ph : Phase) (i : Instr) : isStartPh id ph i = true → i.subj = id := by
  cases i <;> simp [isStartPh, Instr.subj]
  intro h _; exact h

theorem pendPh_subj (id : Nat) (ph : Phase) (i : Instr) : isPendPh id ph i = true → i.subj = id := by
  cases i <;> simp [isPendPh, Instr.subj] <;> (intro h _; exact h)

/-- the frame: a transition whose instruction, pushed block and new tasks contain no `startLoop` /
part-job instruction on `id` and that emits no `store` / `dec · 0` event of `id` keeps the stage -/
theorem phase_frame {tasks : List (List Instr)} {evs : List Event} {id : Nat}
    {pre post nt : List (List Instr)} {i : Instr} {blk rest : List Instr} {ev : List Event}
    (ht : tasks = pre ++ (i :: rest) :: post) (h : PhaseOkAt tasks evs id)
    (hi : ∀ ph, isStartPh id ph i = false ∧ isPendPh id ph i = false)
    (hb : ∀ ph, blk.countP (isStartPh id ph) = 0 ∧ blk.countP (isPendPh id ph) = 0)
    (hn : ∀ ph, nt.flatten.countP (isStartPh id ph) = 0 ∧ nt.flatten.countP (isPendPh id ph) = 0)
    (he : nStore id ev = 0 ∧ nZero id ev = 0) :
    PhaseOkAt (pre ++ (blk ++ rest) :: post ++ nt) (evs ++ ev) id := by
  unfold PhaseOkAt at h ⊢
  have k1 := NT_next (isStartPh id .count) pre post nt i blk rest
  have k2 := NT_next (isStartPh id .dist) pre post nt i blk rest
  have k3 := NT_next (isPendPh id .count) pre post nt i blk rest
  have k4 := NT_next (isPendPh id .dist) pre post nt i blk rest
  rw [← ht] at k1 k2 k3 k4
  rw [(hi .count).1, (hb .count).1, (hn .count).1] at k1
  rw [(hi .dist).1, (hb .dist).1, (hn .dist).1] at k2
  rw [(hi .count).2, (hb .count).2, (hn .count).2] at k3
  rw [(hi .dist).2, (hb .dist).2, (hn .dist).2] at k4
  simp only [Bool.false_eq_true, if_false, Nat.add_zero] at k1 k2 k3 k4
  rw [k1, k2, k3, k4, nStore_append, nZero_append, he.1, he.2]
  exact h

theorem phInv_init (k : Kind) (parts : Nat) : PhInv (init k parts) [] := by
  refine ⟨fun id => ?_, fun id _ => ⟨rfl, rfl⟩⟩
  unfold PhaseOkAt PhaseOk
  cases k <;>
    simp [init, firstProg, sampleProg, smallProg, NT_cons, NT_nil, isStartPh, isPendPh, nStore, nZero]
  split <;> simp

/-- what the transitions of the fixed code push, enqueue and emit -/
theorem exec_proj (objs : List Obj) (owed : List (Nat × Nat)) (ch : Choice) (i : Instr) (o : Obj)
    (hal : aliveAt objs i.subj = true) (ho : objs[i.subj]? = some o) :
    let e := execHead Cfg.fixed objs owed ch i
    match i with
    | .acc _ => e.blk = [] ∧ e.nt = [] ∧ e.evs = []
    | .startLoop id ph => e.blk = List.replicate o.parts (.enq id ph) ∧ e.nt = [] ∧ e.evs = [.store id o.parts]
    | .enq id ph => e.blk = [] ∧ e.nt = [partJob id ph] ∧ e.evs = []
    | .decPwork id ph => o.pwork ≠ 0 →
        e.blk = (if o.pwork - 1 = 0 then finishedBlk ph id else []) ∧ e.nt = [] ∧ e.evs = [.dec id (o.pwork - 1)]
    | .incrH id big => e.blk = afterHandle Cfg.fixed id big ∧ e.nt = [] ∧ e.evs = [.add id (o.cnt + 1)]
    | .incrC id k parts => e.blk = [.newChild id k parts] ∧ e.nt = [] ∧ e.evs = [.add id (o.cnt + 1)]
    | .loop id => (e.blk = [] ∨ ∃ k parts, e.blk = spawnIter id k parts) ∧ e.nt = [] ∧ e.evs = []
    | .newChild _ k _ => e.blk = [] ∧ e.nt = [firstProg k objs.length] ∧ e.evs = [.init objs.length]
    | .notify id => o.cnt ≠ 0 →
        e.blk = (if o.cnt - 1 = 0 then allDone id else []) ∧ e.nt = [] ∧ e.evs = [.sub id (o.cnt - 1)]
    | .rpn _ => (e.blk = [] ∨ ∃ p, e.blk = [.notify p]) ∧ e.nt = [] ∧ e.evs = []
    | .del id => e.blk = [] ∧ e.nt = [] ∧ (e.evs = [] ∨ e.evs = [.destroy id]) := by
  intro e
  cases i <;> simp only [Instr.subj] at hal ho <;> simp only [e, execHead, hal, ho, Instr.subj, not_true_eq_false, if_false]
  case acc => simp
  case startLoop id ph => simp [enqLoop, Cfg.fixed]
  case enq => simp
  case decPwork id ph => intro h; simp [h]
  case incrH => simp
  case incrC => simp
  case loop id =>
    cases ch with
    | spawn k parts => exact ⟨Or.inr ⟨k, parts, rfl⟩, rfl, rfl⟩
    | none => simp
    | exit => simp
  case newChild => simp
  case notify id => intro h; simp [h]
  case rpn id => cases o.parent <;> simp
  case del id => split <;> simp

theorem execHead_length_le (cfg : Cfg) (objs : List Obj) (owed : List (Nat × Nat)) (ch : Choice) (i : Instr) :
    objs.length ≤ (execHead cfg objs owed ch i).objs.length := by
  unfold execHead
  split
  · simp
  · split
    · simp
    · cases i <;> simp only [] <;> (try split) <;> (try split) <;> simp [modObj_length]

/-- a pending instruction is counted -/
theorem NT_head_pos (q : Instr → Bool) {tasks pre post : List (List Instr)} {i : Instr} {rest : List Instr}
    (ht : tasks = pre ++ (i :: rest) :: post) (hq : q i = true) : 1 ≤ NT q tasks := by
  rw [ht, NT_pop, hq]; simp

macro "phase_frame_tac" ht:ident hok:ident : tactic =>
  `(tactic| (refine phase_frame $ht $hok ?_ ?_ ?_ ?_ <;>
      simp_all [isStartPh, isPendPh, nStore, nZero, isStoreEv, afterHandle, Cfg.fixed, spawnIter, allDone,
        finishedBlk, countFinished, distFinished, partJob, firstProg, sampleProg, smallProg, List.countP_replicate]))

/-! ### the four transitions that move the stage -/

/-- case split over the stage before the transition; the stage after it is found by trial -/
macro "phase_cases" hok:ident : tactic =>
  `(tactic| (rcases $hok:ident with h | h | h | h | h <;>
      first
        | (exfalso; omega)
        | (left; omega)
        | (right; left; omega)
        | (right; right; left; omega)
        | (right; right; right; left; omega)
        | (right; right; right; right; omega)))

theorem phase_startLoop {tasks pre post : List (List Instr)} {evs : List Event} {a n : Nat} {ph : Phase}
    {rest : List Instr} (ht : tasks = pre ++ (.startLoop a ph :: rest) :: post) (hok : PhaseOkAt tasks evs a)
    (hparts : 1 ≤ n) :
    PhaseOkAt (pre ++ (List.replicate n (.enq a ph) ++ rest) :: post ++ []) (evs ++ [.store a n]) a := by
  have hpos := NT_head_pos (isStartPh a ph) ht (by simp [isStartPh])
  have k1 := NT_next (isStartPh a .count) pre post [] (.startLoop a ph) (List.replicate n (.enq a ph)) rest
  have k2 := NT_next (isStartPh a .dist) pre post [] (.startLoop a ph) (List.replicate n (.enq a ph)) rest
  have k3 := NT_next (isPendPh a .count) pre post [] (.startLoop a ph) (List.replicate n (.enq a ph)) rest
  have k4 := NT_next (isPendPh a .dist) pre post [] (.startLoop a ph) (List.replicate n (.enq a ph)) rest
  rw [← ht] at k1 k2 k3 k4
  have e1 : nStore a [Event.store a n] = 1 := by simp [nStore, isStoreEv]
  have e2 : nZero a [Event.store a n] = 0 := by simp [nZero]
  unfold PhaseOkAt PhaseOk at hok ⊢
  rw [nStore_append, nZero_append, e1, e2]
  generalize pre ++ (List.replicate n (Instr.enq a ph) ++ rest) :: post ++ [] = T at k1 k2 k3 k4 ⊢
  cases ph <;> simp [isStartPh, isPendPh, List.countP_replicate] at k1 k2 k3 k4 hpos <;> phase_cases hok

theorem phase_enq {tasks pre post : List (List Instr)} {evs : List Event} {a : Nat} {ph : Phase}
    {rest : List Instr} (ht : tasks = pre ++ (.enq a ph :: rest) :: post) (hok : PhaseOkAt tasks evs a) :
    PhaseOkAt (pre ++ ([] ++ rest) :: post ++ [partJob a ph]) (evs ++ []) a := by
  have k1 := NT_next (isStartPh a .count) pre post [partJob a ph] (.enq a ph) [] rest
  have k2 := NT_next (isStartPh a .dist) pre post [partJob a ph] (.enq a ph) [] rest
  have k3 := NT_next (isPendPh a .count) pre post [partJob a ph] (.enq a ph) [] rest
  have k4 := NT_next (isPendPh a .dist) pre post [partJob a ph] (.enq a ph) [] rest
  rw [← ht] at k1 k2 k3 k4
  unfold PhaseOkAt PhaseOk at hok ⊢
  rw [List.append_nil]
  generalize pre ++ ([] ++ rest) :: post ++ [partJob a ph] = T at k1 k2 k3 k4 ⊢
  cases ph <;> simp [isStartPh, isPendPh, partJob] at k1 k2 k3 k4 <;> phase_cases hok

theorem phase_decPwork {tasks pre post : List (List Instr)} {evs : List Event} {a pw : Nat} {ph : Phase}
    {rest : List Instr} (ht : tasks = pre ++ (.decPwork a ph :: rest) :: post) (hok : PhaseOkAt tasks evs a)
    (hst : NT (isStart a) tasks = 0 → pw = NT (isPend a) tasks) (hs1 : NT (isStart a) tasks = 1 → NT (isPend a) tasks = 0) 
    (hs2 : NT (isStart a) tasks ≤ 1) :
    PhaseOkAt (pre ++ ((if pw - 1 = 0 then finishedBlk ph a else []) ++ rest) :: post ++ [])
      (evs ++ [.dec a (pw - 1)]) a := by
  rw [NT_start_split, NT_pend_split] at hst hs1
  rw [NT_start_split] at hs2
  have hpos := NT_head_pos (isPendPh a ph) ht (by simp [isPendPh])
  have k1 := NT_next (isStartPh a .count) pre post [] (.decPwork a ph) (if pw - 1 = 0 then finishedBlk ph a else []) rest
  have k2 := NT_next (isStartPh a .dist) pre post [] (.decPwork a ph) (if pw - 1 = 0 then finishedBlk ph a else []) rest
  have k3 := NT_next (isPendPh a .count) pre post [] (.decPwork a ph) (if pw - 1 = 0 then finishedBlk ph a else []) rest
  have k4 := NT_next (isPendPh a .dist) pre post [] (.decPwork a ph) (if pw - 1 = 0 then finishedBlk ph a else []) rest
  rw [← ht] at k1 k2 k3 k4
  have e1 : nStore a [Event.dec a (pw - 1)] = 0 := by simp [nStore, isStoreEv]
  unfold PhaseOkAt PhaseOk at hok ⊢
  rw [nStore_append, nZero_append, e1]
  by_cases hz : pw - 1 = 0
  · have e2 : nZero a [Event.dec a (pw - 1)] = 1 := by simp [nZero, hz]
    rw [e2]
    generalize pre ++ ((if pw - 1 = 0 then finishedBlk ph a else []) ++ rest) :: post ++ [] = T at k1 k2 k3 k4 ⊢
    cases ph <;>
      simp [hz, isStartPh, isPendPh, finishedBlk, countFinished, distFinished] at k1 k2 k3 k4 hpos <;>
      phase_cases hok
  · have e2 : nZero a [Event.dec a (pw - 1)] = 0 := by simp [nZero, hz]
    rw [e2]
    generalize pre ++ ((if pw - 1 = 0 then finishedBlk ph a else []) ++ rest) :: post ++ [] = T at k1 k2 k3 k4 ⊢
    cases ph <;>
      simp [hz, isStartPh, isPendPh] at k1 k2 k3 k4 hpos <;>
      phase_cases hok

theorem phase_newChild {s : State} (hinv : Proto.Inv s) {pre post : List (List Instr)} {evs : List Event} {a parts : Nat}
    {k : Kind} {rest : List Instr} (ht : s.tasks = pre ++ (.newChild a k parts :: rest) :: post)
    (f1 : nStore s.objs.length evs = 0) (f2 : nZero s.objs.length evs = 0) :
    PhaseOkAt (pre ++ ([] ++ rest) :: post ++ [firstProg k s.objs.length]) (evs ++ [.init s.objs.length]) s.objs.length := by
  have z1 := NT_fresh hinv (isStartPh s.objs.length .count) (startPh_subj _ _)
  have z2 := NT_fresh hinv (isStartPh s.objs.length .dist) (startPh_subj _ _)
  have z3 := NT_fresh hinv (isPendPh s.objs.length .count) (pendPh_subj _ _)
  have z4 := NT_fresh hinv (isPendPh s.objs.length .dist) (pendPh_subj _ _)
  have k1 := NT_next (isStartPh s.objs.length .count) pre post [firstProg k s.objs.length] (.newChild a k parts) [] rest
  have k2 := NT_next (isStartPh s.objs.length .dist) pre post [firstProg k s.objs.length] (.newChild a k parts) [] rest
  have k3 := NT_next (isPendPh s.objs.length .count) pre post [firstProg k s.objs.length] (.newChild a k parts) [] rest
  have k4 := NT_next (isPendPh s.objs.length .dist) pre post [firstProg k s.objs.length] (.newChild a k parts) [] rest
  rw [← ht, z1] at k1; rw [← ht, z2] at k2; rw [← ht, z3] at k3; rw [← ht, z4] at k4
  have e1 : nStore s.objs.length [Event.init s.objs.length] = 0 := by simp [nStore, isStoreEv]
  have e2 : nZero s.objs.length [Event.init s.objs.length] = 0 := by simp [nZero]
  unfold PhaseOkAt PhaseOk
  rw [nStore_append, nZero_append, f1, f2, e1, e2]
  generalize pre ++ ([] ++ rest) :: post ++ [firstProg k s.objs.length] = T at k1 k2 k3 k4 ⊢
  cases k <;> simp [isStartPh, isPendPh, firstProg, sampleProg, smallProg] at k1 k2 k3 k4 <;>
    first | (left; omega) | (right; left; omega)

/-- the stage of every step after one transition -/
theorem phase_ok_step {s : State} {evs : List Event} (hr : Run Cfg.fixed s evs) (ih : PhInv s evs)
    {pre post : List (List Instr)} {i : Instr} {rest : List Instr} (ch : Choice)
    (ht : s.tasks = pre ++ (i :: rest) :: post) (id : Nat) :
    PhaseOkAt (pre ++ ((execHead Cfg.fixed s.objs s.owed ch i).blk ++ rest) :: post ++
      (execHead Cfg.fixed s.objs s.owed ch i).nt) (evs ++ (execHead Cfg.fixed s.objs s.owed ch i).evs) id := by
  have hinv := inv_reachable hr.reachable
  have hia : aliveAt s.objs i.subj = true := hinv.refsAlive (i :: rest) (by simp [ht]) i (by simp)
  obtain ⟨oi, hoi, hai⟩ := aliveAt_iff.1 hia
  have hloc := hinv.loc i.subj oi hoi hai
  have hproj := exec_proj s.objs s.owed ch i oi hia hoi
  have hok := ih.ok id
  cases i with
  | acc a =>
    obtain ⟨hb, hn, hev⟩ := hproj
    rw [hb, hn, hev]
    phase_frame_tac ht hok
  | startLoop a ph =>
    obtain ⟨hb, hn, hev⟩ := hproj
    rw [hb, hn, hev]
    by_cases haid : a = id
    · subst haid
      simp only [Instr.subj] at hloc
      exact phase_startLoop ht hok hloc.2.2.2.2.2.2.2.2.2.2
    · phase_frame_tac ht hok
  | enq a ph =>
    obtain ⟨hb, hn, hev⟩ := hproj
    rw [hb, hn, hev]
    by_cases haid : a = id
    · subst haid
      exact phase_enq ht hok
    · phase_frame_tac ht hok
  | decPwork a ph =>
    simp only [Instr.subj] at hoi hai hloc
    have hpw := (inv_decPwork hinv ht hoi hai).1
    obtain ⟨hb, hn, hev⟩ := hproj hpw
    rw [hb, hn, hev]
    by_cases haid : a = id
    · subst haid
      have hst := hloc.2.2.1
      simp only [countsOf] at hst
      exact phase_decPwork ht hok hst.2.2 (fun h => (hst.2.1 h).2) hst.1
    · cases ph <;> split <;> phase_frame_tac ht hok
  | incrH a big =>
    obtain ⟨hb, hn, hev⟩ := hproj
    rw [hb, hn, hev]
    cases big <;> phase_frame_tac ht hok
  | incrC a k parts =>
    obtain ⟨hb, hn, hev⟩ := hproj
    rw [hb, hn, hev]
    phase_frame_tac ht hok
  | loop a =>
    obtain ⟨hb, hn, hev⟩ := hproj
    rw [hn, hev]
    rcases hb with hb | ⟨k, parts, hb⟩ <;> rw [hb] <;> phase_frame_tac ht hok
  | newChild a k parts =>
    obtain ⟨hb, hn, hev⟩ := hproj
    rw [hb, hn, hev]
    by_cases hnew : id = s.objs.length
    · subst hnew
      have ⟨f1, f2⟩ := ih.fresh s.objs.length (Nat.le_refl _)
      exact phase_newChild hinv ht f1 f2
    · have hnew' : ¬ s.objs.length = id := fun e => hnew e.symm
      cases k <;> phase_frame_tac ht hok
  | notify a =>
    simp only [Instr.subj] at hoi hai hloc
    have hc := (inv_notify hinv ht hoi hai).1
    obtain ⟨hb, hn, hev⟩ := hproj hc
    rw [hb, hn, hev]
    split <;> phase_frame_tac ht hok
  | rpn a =>
    obtain ⟨hb, hn, hev⟩ := hproj
    rw [hn, hev]
    rcases hb with hb | ⟨p, hb⟩ <;> rw [hb] <;> phase_frame_tac ht hok
  | del a =>
    obtain ⟨hb, hn, hev⟩ := hproj
    rw [hb, hn]
    rcases hev with hev | hev <;> rw [hev] <;> phase_frame_tac ht hok

/-- events only mention the step the instruction works on, or the step it creates -/
theorem phase_fresh_step {s : State} {evs : List Event} (hr : Run Cfg.fixed s evs) (ih : PhInv s evs)
    {pre post : List (List Instr)} {i : Instr} {rest : List Instr} (ch : Choice)
    (ht : s.tasks = pre ++ (i :: rest) :: post) (id : Nat)
    (hid : (execHead Cfg.fixed s.objs s.owed ch i).objs.length ≤ id) :
    nStore id (evs ++ (execHead Cfg.fixed s.objs s.owed ch i).evs) = 0 ∧
      nZero id (evs ++ (execHead Cfg.fixed s.objs s.owed ch i).evs) = 0 := by
  have hinv := inv_reachable hr.reachable
  have hia : aliveAt s.objs i.subj = true := hinv.refsAlive (i :: rest) (by simp [ht]) i (by simp)
  obtain ⟨oi, hoi, hai⟩ := aliveAt_iff.1 hia
  have hlt := aliveAt_lt hia
  have hproj := exec_proj s.objs s.owed ch i oi hia hoi
  have hlen := execHead_length_le Cfg.fixed s.objs s.owed ch i
  have hid' : s.objs.length ≤ id := Nat.le_trans hlen hid
  obtain ⟨f1, f2⟩ := ih.fresh id hid'
  rw [nStore_append, nZero_append, f1, f2]
  have hne : ¬ i.subj = id := by omega
  cases i <;> simp only [Instr.subj] at hne hoi hai
  case decPwork a ph =>
    obtain ⟨_, _, hev⟩ := hproj (inv_decPwork hinv ht hoi hai).1
    rw [hev]; simp [nStore, nZero, isStoreEv, hne]
  case notify a =>
    obtain ⟨_, _, hev⟩ := hproj (inv_notify hinv ht hoi hai).1
    rw [hev]; simp [nStore, nZero, isStoreEv]
  case del a =>
    obtain ⟨_, _, hev⟩ := hproj
    rcases hev with hev | hev <;> rw [hev] <;> simp [nStore, nZero, isStoreEv]
  all_goals
    obtain ⟨_, _, hev⟩ := hproj
    rw [hev]; simp [nStore, nZero, isStoreEv, hne]

/-- **The stage invariant holds along every run of the fixed code.** -/
theorem phInv_run {s : State} {evs : List Event} (h : Run Cfg.fixed s evs) : PhInv s evs := by
  induction h with
  | init k parts => exact phInv_init k parts
  | step pre i rest post ch hr ht he ih =>
    exact ⟨fun id => phase_ok_step hr ih ch ht id, fun id hid => phase_fresh_step hr ih ch ht id hid⟩

end TlxVerif.C04
