/-
C01/C02 — characterisation of the inner part of `insert_descend`: whatever branch of
`split_inner_node` / "insert slot is the split place" / "insert slot is in the split sibling" is
taken, the result is the combined sequence (keys with the new key put at `slot`, children with
the new child put behind `slot`), either kept whole or cut at one position `m` whose key moves up.
-/
import TlxVerif.Model.C01Tree
import TlxVerif.Proofs.C01Inv
import TlxVerif.Proofs.C01Flatten
namespace TlxVerif.C01

variable {K V : Type}

theorem take_insertAt_le {α : Type} (l : List α) (i m : Nat) (x : α) (h1 : i < m) (h2 : i ≤ l.length) :
    (insertAt l i x).take m = insertAt (l.take (m - 1)) i x := by
  unfold insertAt
  have hl : (List.take i l).length = i := by simp; omega
  have hm : m = (List.take i l).length + (m - i) := by omega
  conv => lhs; rw [hm, List.take_length_add_append]
  have h3 : m - i = (m - 1 - i) + 1 := by omega
  rw [h3, List.take_succ_cons, List.take_take, List.drop_take]
  have : min i (m - 1) = i := by omega
  rw [this]

theorem drop_insertAt_le {α : Type} (l : List α) (i m : Nat) (x : α) (h1 : i < m) (h2 : i ≤ l.length) :
    (insertAt l i x).drop m = l.drop (m - 1) := by
  unfold insertAt
  have hl : (List.take i l).length = i := by simp; omega
  have hm : m = (List.take i l).length + (m - i) := by omega
  conv => lhs; rw [hm, List.drop_length_add_append]
  have h3 : m - i = (m - 1 - i) + 1 := by omega
  rw [h3, List.drop_succ_cons, List.drop_drop]
  congr 1; omega

theorem take_insertAt_ge {α : Type} (l : List α) (i m : Nat) (x : α) (h1 : m ≤ i) (h2 : i ≤ l.length) :
    (insertAt l i x).take m = l.take m := by
  unfold insertAt
  have hl : (List.take i l).length = i := by simp; omega
  rw [List.take_append_of_le_length (by omega), List.take_take]
  have : min m i = m := by omega
  rw [this]

theorem drop_insertAt_ge {α : Type} (l : List α) (i m : Nat) (x : α) (h1 : m ≤ i) (h2 : i ≤ l.length) :
    (insertAt l i x).drop m = insertAt (l.drop m) (i - m) x := by
  unfold insertAt
  have hl : (List.take i l).length = i := by simp; omega
  rw [List.drop_append_of_le_length (by omega), List.drop_take, List.drop_drop]
  have : m + (i - m) = i := by omega
  rw [this]

theorem getElem?_insertAt {α : Type} (l : List α) (i j : Nat) (x : α) (h : i ≤ l.length) :
    (insertAt l i x)[j]? = if j < i then l[j]? else if j = i then some x else l[j - 1]? := by
  unfold insertAt
  have hl : (List.take i l).length = i := by simp; omega
  rw [List.getElem?_append, hl]
  by_cases h1 : j < i
  · simp only [h1, if_true, List.getElem?_take]
  · simp only [h1, if_false]
    by_cases h2 : j = i
    · subst h2; simp
    · simp only [h2, if_false]
      have : j - i = (j - i - 1) + 1 := by omega
      rw [this, List.getElem?_cons_succ, List.getElem?_drop]
      congr 1; omega

/-- the outcome of `innerAbsorb` in terms of the combined key / child sequences -/
theorem innerAbsorb_char (p : Params K) (l : Nat) (keys : List K) (kids : List (BNode K V)) (slot : Nat) (nk : K)
    (nc : BNode K V) (hk : kids.length = keys.length + 1) (hslot : slot ≤ keys.length)
    (node : BNode K V) (split : Option (K × BNode K V)) (ni : Nat)
    (hr : innerAbsorb p l keys kids slot nk nc = some (node, split, ni)) :
    (split = none ∧ node = .inner l (insertAt keys slot nk) (insertAt kids (slot + 1) nc)) ∨
    (∃ m up, (insertAt keys slot nk)[m]? = some up ∧
      node = .inner l ((insertAt keys slot nk).take m) ((insertAt kids (slot + 1) nc).take (m + 1)) ∧
      split = some (up, .inner l ((insertAt keys slot nk).drop (m + 1)) ((insertAt kids (slot + 1) nc).drop (m + 1)))) := by
  unfold innerAbsorb at hr
  split at hr
  · right
    unfold splitInnerAbsorb at hr
    generalize splitMid keys.length slot = mid at hr
    split at hr
    · cases hr
    · rename_i upKey hup
      have hmid : mid < keys.length := (List.getElem?_eq_some_iff.mp hup).1
      simp only at hr
      split at hr
      · rename_i hsp
        split at hr
        · cases hr
        · rename_i c0 rest hrk
          cases hr
          obtain ⟨hs1, _⟩ := hsp
          subst hs1
          have hlt : mid + 1 < kids.length := by omega
          have h1 := List.drop_eq_getElem_cons hlt
          rw [hrk] at h1
          injection h1 with h1a h1b
          have htk : List.take (mid + 1) keys = List.take mid keys ++ [upKey] := by
            rw [List.take_add_one, hup]; rfl
          have htc : List.take (mid + 1 + 1) kids = List.take (mid + 1) kids ++ [c0] := by
            rw [List.take_add_one, List.getElem?_eq_getElem hlt, ← h1a]; rfl
          -- cut at m = mid + 1, the new key moves up
          refine ⟨mid + 1, nk, ?_, ?_, ?_⟩
          · rw [getElem?_insertAt _ _ _ _ hslot]; simp
          · rw [take_insertAt_ge _ _ _ _ (Nat.le_refl _) hslot, take_insertAt_ge _ _ _ _ (Nat.le_refl _) (by omega),
              htk, htc]
          · rw [drop_insertAt_le _ _ _ _ (by omega) hslot, drop_insertAt_ge _ _ _ _ (Nat.le_refl _) (by omega)]
            simp only [Nat.add_sub_cancel, Nat.sub_self]
            rw [← h1b]
            simp [insertAt]
      · rename_i hsp
        split at hr
        · rename_i hge
          cases hr
          -- cut at m = mid, the insertion is in the right part
          refine ⟨mid, upKey, ?_, ?_, ?_⟩
          · rw [getElem?_insertAt _ _ _ _ hslot, if_pos (by omega)]; exact hup
          · rw [take_insertAt_ge _ _ _ _ (by omega) hslot, take_insertAt_ge _ _ _ _ (by omega) (by omega)]
          · rw [drop_insertAt_ge _ _ _ _ (by omega) hslot, drop_insertAt_ge _ _ _ _ (by omega) (by omega)]
            have : slot + 1 - (mid + 1) = slot - (mid + 1) + 1 := by omega
            rw [this]
        · rename_i hlt
          cases hr
          -- cut at m = mid + 1, the insertion is in the left part
          refine ⟨mid + 1, upKey, ?_, ?_, ?_⟩
          · rw [getElem?_insertAt _ _ _ _ hslot, if_neg (by omega), if_neg (by omega)]
            simpa using hup
          · rw [take_insertAt_le _ _ _ _ (by omega) hslot, take_insertAt_le _ _ _ _ (by omega) (by omega)]
            simp
          · rw [drop_insertAt_le _ _ _ _ (by omega) hslot, drop_insertAt_le _ _ _ _ (by omega) (by omega)]
            simp
  · left
    cases hr
    exact ⟨rfl, rfl⟩

end TlxVerif.C01
