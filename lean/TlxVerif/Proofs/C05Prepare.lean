/-
`prepare_unguarded`: the set of elements that the unguarded phase of the combined variants
merges, and the invariant that keeps every sequence non-empty while elements of that set remain.

With `mn` = the minimum of the last elements and `ms` = the first sequence attaining it, an
element `y` of sequence `t` is *in the set* iff  (stable ∧ t ≤ ms ∧ ¬ mn < y) ∨ (otherwise y < mn),
i.e. iff it is not after `(mn, ms)` in the (stable) order.  `R L` counts the in-set elements
still at the front of the sequences; `P L n` = `n ≤ R L` + shape facts.
-/
import TlxVerif.Proofs.C05Basic
namespace TlxVerif.C05
open TlxVerif.C09 (SWO)

variable {α : Type}

section
variable (stb : Bool) (lt : α → α → Bool) (mn : α) (ms : Nat)

def inSet (t : Nat) (y : α) : Bool := if stb && decide (t ≤ ms) then !lt mn y else lt y mn

/-- length of the in-set prefix = `upper_bound` / `lower_bound` of `prepare_unguarded` -/
def cnt (t : Nat) (l : List α) : Nat := (l.takeWhile (inSet stb lt mn ms t)).length

def Rsum : Nat → List (List α) → Nat
  | _, [] => 0
  | t, l :: rest => cnt stb lt mn ms t l + Rsum (t + 1) rest

/-- number of elements the unguarded phase may merge -/
def R (L : List (List α)) : Nat := Rsum stb lt mn ms 0 L

structure Shape (L : List (List α)) : Prop where
  sorted : ∀ (t : Nat) (l : List α), L[t]? = some l → Sorted lt l
  /-- every sequence other than `ms` (every sequence, when unstable) ends with an element outside the set -/
  keep : ∀ (t : Nat) (l : List α), L[t]? = some l → (stb = true → t ≠ ms) →
    ∃ z, l.getLast? = some z ∧ inSet stb lt mn ms t z = false
  /-- stable: sequence `ms` lies in the set entirely and ends with an element equivalent to `mn` -/
  msAll : stb = true → ∀ (l : List α), L[ms]? = some l →
    (∀ z ∈ l, inSet stb lt mn ms ms z = true) ∧ (∀ z, l.getLast? = some z → lt z mn = false)
  /-- stable: once `ms` is used up nothing of the set is left -/
  msEmpty : stb = true → L[ms]? = some [] → R stb lt mn ms L = 0
  msIn : stb = true → ms < L.length

/-- the invariant of the unguarded phase with `n` elements still to be merged -/
def P (L : List (List α)) (n : Nat) : Prop := n ≤ R stb lt mn ms L ∧ Shape stb lt mn ms L
end

variable {stb : Bool} {lt : α → α → Bool} {mn : α} {ms : Nat}

theorem cnt_cons_in {t : Nat} {x : α} {q : List α} (h : inSet stb lt mn ms t x = true) :
    cnt stb lt mn ms t (x :: q) = cnt stb lt mn ms t q + 1 := by
  simp [cnt, h]

theorem cnt_cons_out {t : Nat} {x : α} {q : List α} (h : inSet stb lt mn ms t x = false) :
    cnt stb lt mn ms t (x :: q) = 0 := by
  simp [cnt, h]

theorem cnt_nil (t : Nat) : cnt stb lt mn ms t ([] : List α) = 0 := rfl

theorem cnt_le (t : Nat) (l : List α) : cnt stb lt mn ms t l ≤ l.length := by
  unfold cnt
  exact (List.takeWhile_sublist _).length_le

theorem Rsum_pos : ∀ {t0 : Nat} {L : List (List α)}, 0 < Rsum stb lt mn ms t0 L →
    ∃ (i : Nat) (y : α) (q : List α), L[i]? = some (y :: q) ∧ inSet stb lt mn ms (t0 + i) y = true
  | _, [], h => by simp [Rsum] at h
  | t0, l :: rest, h => by
    simp only [Rsum] at h
    by_cases c : 0 < cnt stb lt mn ms t0 l
    · cases l with
      | nil => simp [cnt_nil] at c
      | cons y q =>
        cases hy : inSet stb lt mn ms t0 y with
        | true => exact ⟨0, y, q, rfl, by simpa using hy⟩
        | false => rw [cnt_cons_out hy] at c; omega
    · obtain ⟨i, y, q, hi, hy⟩ := Rsum_pos (t0 := t0 + 1) (L := rest) (by omega)
      exact ⟨i + 1, y, q, by simpa using hi, by rw [← hy]; congr 1; omega⟩

theorem Rsum_set : ∀ {t0 : Nat} {L : List (List α)} {i : Nat} {x : α} {q : List α},
    L[i]? = some (x :: q) → inSet stb lt mn ms (t0 + i) x = true →
    Rsum stb lt mn ms t0 (L.set i q) + 1 = Rsum stb lt mn ms t0 L
  | _, [], i, x, q, h, _ => by simp at h
  | t0, l :: rest, 0, x, q, h, hx => by
    simp only [List.getElem?_cons_zero, Option.some.injEq] at h
    subst h
    simp only [List.set_cons_zero, Rsum]
    rw [cnt_cons_in (by simpa using hx)]; omega
  | t0, l :: rest, i + 1, x, q, h, hx => by
    have ih := Rsum_set (t0 := t0 + 1) (L := rest) (i := i) (x := x) (q := q) (by simpa using h)
      (by rw [← hx]; congr 1; omega)
    simp only [List.set_cons_succ, Rsum]; omega

theorem Rsum_zero : ∀ {t0 : Nat} {L : List (List α)}, Rsum stb lt mn ms t0 L = 0 →
    ∀ (i : Nat) (l : List α), L[i]? = some l → cnt stb lt mn ms (t0 + i) l = 0
  | _, [], _, i, l, hl => by simp at hl
  | t0, l0 :: rest, h, 0, l, hl => by
    simp only [Rsum] at h
    simp only [List.getElem?_cons_zero, Option.some.injEq] at hl
    subst hl; simpa using (by omega : cnt stb lt mn ms t0 l0 = 0)
  | t0, l0 :: rest, h, i + 1, l, hl => by
    simp only [Rsum] at h
    have := Rsum_zero (t0 := t0 + 1) (L := rest) (by omega) i l (by simpa using hl)
    rw [← this]; congr 1; omega

/-- the set is closed downwards in the (stable) order: a minimal head is in the set as soon as
some head is -/
theorem inSet_of_min (hlt : SWO lt) {L : List (List α)} {i t : Nat} {x y : α} {q q' : List α}
    (hm : IsMinS stb lt L i x q) (ht : L[t]? = some (y :: q')) (hy : inSet stb lt mn ms t y = true) :
    inSet stb lt mn ms i x = true := by
  have hyx : lt y x = false := hm.1.2 t y q' ht
  unfold inSet at hy ⊢
  cases hs : stb with
  | false =>
    simp only [hs, Bool.false_and, Bool.false_eq_true, if_false] at hy ⊢
    -- ¬ y < x, y < mn ⊢ x < mn
    cases hx : lt x mn with
    | true => rfl
    | false => have := hlt.ntrans y x mn hyx hx; rw [hy] at this; cases this
  | true =>
    subst hs
    simp only [Bool.true_and] at hy ⊢
    have hst := hm.2 rfl
    by_cases ct : t ≤ ms
    · simp only [ct, decide_true, if_true, Bool.not_eq_true'] at hy
      -- ¬ mn < y
      by_cases ci : i ≤ ms
      · simp only [ci, decide_true, if_true, Bool.not_eq_true']
        exact hlt.ntrans mn y x hy hyx
      · simp only [ci, decide_false, Bool.false_eq_true, if_false]
        -- t ≤ ms < i, so x < y strictly
        have hxy : lt x y = true := hst t y q' (by omega) ht
        cases hx : lt x mn with
        | true => rfl
        | false => have := hlt.ntrans x mn y hx hy; rw [hxy] at this; cases this
    · simp only [ct, decide_false, Bool.false_eq_true, if_false] at hy
      -- y < mn
      have hx : lt x mn = true := by
        cases hx : lt x mn with
        | true => rfl
        | false => have := hlt.ntrans y x mn hyx hx; rw [hy] at this; cases this
      by_cases ci : i ≤ ms
      · simp only [ci, decide_true, if_true, Bool.not_eq_true']
        exact hlt.asymm x mn hx
      · simp only [ci, decide_false, Bool.false_eq_true, if_false]
        exact hx

theorem getLast?_cons_cons {x y : α} {q : List α} : (x :: y :: q).getLast? = (y :: q).getLast? := by
  simp [List.getLast?_cons_cons]

/-- while elements of the set remain, no sequence is empty -/
theorem P.nonempty {L : List (List α)} {n : Nat} (h : P stb lt mn ms L (n + 1)) :
    ∀ l ∈ L, l ≠ [] := by
  intro l hl he
  subst he
  obtain ⟨t, htl, ht⟩ := List.getElem_of_mem hl
  have hget : L[t]? = some [] := by rw [List.getElem?_eq_getElem htl, ht]
  by_cases c : stb = true → t ≠ ms
  · obtain ⟨z, hz, _⟩ := h.2.keep t [] hget c
    simp at hz
  · have hs : stb = true := by
      cases hs : stb with
      | true => rfl
      | false => exact absurd (fun h => by rw [hs] at h; cases h) c
    have htm : t = ms := by
      by_cases e : t = ms
      · exact e
      · exact absurd (fun _ => e) c
    subst htm
    have := h.2.msEmpty hs hget
    have := h.1
    omega

/-- emitting a minimal head (the stable minimum when `stb`) keeps the invariant, with one element
less to go -/
theorem P.step (hlt : SWO lt) {L : List (List α)} {n i : Nat} {x : α} {q : List α}
    (h : P stb lt mn ms L (n + 1)) (hm : IsMinS stb lt L i x q) : P stb lt mn ms (L.set i q) n := by
  obtain ⟨hR, hS⟩ := h
  have hi := hm.1.1
  have hil : i < L.length := by
    by_cases c : i < L.length
    · exact c
    · rw [List.getElem?_eq_none (by omega)] at hi; cases hi
  -- the emitted element is in the set
  obtain ⟨t, y, q', ht, hy⟩ := Rsum_pos (by unfold R at hR; omega : 0 < Rsum stb lt mn ms 0 L)
  have hx : inSet stb lt mn ms i x = true := inSet_of_min hlt hm ht (by simpa using hy)
  have hRset : R stb lt mn ms (L.set i q) + 1 = R stb lt mn ms L := Rsum_set hi (by simpa using hx)
  have hget : ∀ (t : Nat) (l : List α), (L.set i q)[t]? = some l → (t = i ∧ l = q) ∨ (t ≠ i ∧ L[t]? = some l) := by
    intro t l hl
    by_cases c : t = i
    · subst c
      simp [hil] at hl
      exact Or.inl ⟨rfl, hl.symm⟩
    · rw [List.getElem?_set_ne (fun e => c e.symm)] at hl
      exact Or.inr ⟨c, hl⟩
  refine ⟨by omega, ?_⟩
  refine { sorted := fun t l hl => ?_, keep := fun t l hl hk => ?_, msAll := fun hs l hl => ?_,
           msEmpty := fun hs hl => ?_, msIn := fun hs => by rw [List.length_set]; exact hS.msIn hs }
  · rcases hget t l hl with ⟨rfl, rfl⟩ | ⟨_, h'⟩
    · exact sorted_tail (hS.sorted _ _ hi)
    · exact hS.sorted t l h'
  · rcases hget t l hl with ⟨rfl, rfl⟩ | ⟨_, h'⟩
    · obtain ⟨z, hz, hzo⟩ := hS.keep _ _ hi hk
      cases l with
      | nil =>
        simp at hz; subst hz
        rw [hx] at hzo; cases hzo
      | cons y q2 => exact ⟨z, by rw [← hz, getLast?_cons_cons], hzo⟩
    · exact hS.keep t l h' hk
  · rcases hget ms l hl with ⟨e, rfl⟩ | ⟨_, h'⟩
    · subst e
      obtain ⟨a1, a2⟩ := hS.msAll hs _ hi
      refine ⟨fun z hz => a1 z (List.mem_cons_of_mem _ hz), fun z hz => ?_⟩
      cases l with
      | nil => simp at hz
      | cons y q2 => exact a2 z (by rw [getLast?_cons_cons]; exact hz)
    · exact hS.msAll hs l h'
  · -- `ms` has just been used up: then nothing of the set is left
    rcases hget ms [] hl with ⟨e, hq⟩ | ⟨hne, h'⟩
    · subst e; subst hq
      -- x was the last element of sequence ms
      obtain ⟨_, a2⟩ := hS.msAll hs _ hi
      have hxm : lt x mn = false := a2 x (by simp)
      by_cases c : 0 < R stb lt mn ms (L.set ms [])
      · exfalso
        obtain ⟨t2, y2, q2, ht2, hy2⟩ := Rsum_pos (by unfold R at c; exact c)
        simp only [Nat.zero_add] at hy2
        have hne : t2 ≠ ms := by
          intro e; subst e
          simp [hil] at ht2
        rw [List.getElem?_set_ne (fun e => hne e.symm)] at ht2
        have hyx : lt y2 x = false := hm.1.2 t2 y2 q2 ht2
        subst hs
        unfold inSet at hy2
        simp only [Bool.true_and] at hy2
        by_cases ct : t2 ≤ ms
        · simp only [ct, decide_true, if_true, Bool.not_eq_true'] at hy2
          have hxy : lt x y2 = true := hm.2 rfl t2 y2 q2 (by omega) ht2
          have := hlt.ntrans x mn y2 hxm hy2
          rw [hxy] at this; cases this
        · simp only [ct, decide_false, Bool.false_eq_true, if_false] at hy2
          have := hlt.ntrans y2 x mn hyx hxm
          rw [hy2] at this; cases this
      · omega
    · have := hS.msEmpty hs h'
      omega

/-- stable: when nothing of the set is left, sequence `ms` is used up -/
theorem Shape.ms_exhausted {L : List (List α)} (hS : Shape stb lt mn ms L) (hs : stb = true)
    (hR : R stb lt mn ms L = 0) : L[ms]? = some [] := by
  have hl := hS.msIn hs
  have hget : L[ms]? = some L[ms] := List.getElem?_eq_getElem hl
  have hc := Rsum_zero (by unfold R at hR; exact hR) ms L[ms] hget
  simp only [Nat.zero_add] at hc
  obtain ⟨a1, _⟩ := hS.msAll hs _ hget
  cases hx : L[ms] with
  | nil => rw [hget, hx]
  | cons y q =>
    rw [hx] at hc a1
    rw [cnt_cons_in (a1 y List.mem_cons_self)] at hc
    omega

/-- emitting a minimal head takes exactly one element out of the set -/
theorem P.step_R (hlt : SWO lt) {L : List (List α)} {n i : Nat} {x : α} {q : List α}
    (h : P stb lt mn ms L (n + 1)) (hm : IsMinS stb lt L i x q) :
    R stb lt mn ms (L.set i q) + 1 = R stb lt mn ms L := by
  obtain ⟨hR, _⟩ := h
  obtain ⟨t, y, q', ht, hy⟩ := Rsum_pos (by unfold R at hR; omega : 0 < Rsum stb lt mn ms 0 L)
  have hx : inSet stb lt mn ms i x = true := inSet_of_min hlt hm ht (by simpa using hy)
  exact Rsum_set hm.1.1 (by simpa using hx)

/-! ### what `prepare_unguarded` computes -/

/-- `mn` is the last element of sequence `ms`, no last element is less, and the last elements of
the sequences before `ms` are greater -/
structure MinInv (lt : α → α → Bool) (L : List (List α)) (mn : α) (ms : Nat) : Prop where
  hms : ∃ l, L[ms]? = some l ∧ l.getLast? = some mn
  all : ∀ (t : Nat) (l : List α), L[t]? = some l →
    ∃ z, l.getLast? = some z ∧ lt z mn = false ∧ (t < ms → lt mn z = true)

theorem minOfLast_spec (hlt : SWO lt) : ∀ (rest : List (Seq α)) (Lp : List (List α)) (mn : α) (ms : Nat),
    MinInv lt Lp mn ms →
    (∃ m, minOfLast lt rest Lp.length mn ms = .inl m ∧ (Lp ++ xsOf rest)[m]? = some []) ∨
    (∃ mn' ms', minOfLast lt rest Lp.length mn ms = .inr (mn', ms') ∧ MinInv lt (Lp ++ xsOf rest) mn' ms')
  | [], Lp, mn, ms, h => Or.inr ⟨mn, ms, rfl, by simpa [xsOf] using h⟩
  | s :: rest, Lp, mn, ms, h => by
    have happ : Lp ++ xsOf (s :: rest) = (Lp ++ [s.xs]) ++ xsOf rest := by simp [xsOf]
    cases hv : s.xs.getLast? with
    | none =>
      left
      refine ⟨Lp.length, by simp [minOfLast, hv], ?_⟩
      have : s.xs = [] := by
        cases hx : s.xs with
        | nil => rfl
        | cons a l => rw [hx] at hv; simp at hv
      simp [xsOf, this]
    | some v =>
      have hms_lt : ms < Lp.length := by
        obtain ⟨l, hl, _⟩ := h.hms
        by_cases c : ms < Lp.length
        · exact c
        · rw [List.getElem?_eq_none (by omega)] at hl; cases hl
      have hlen : (Lp ++ [s.xs]).length = Lp.length + 1 := by simp
      have hget : ∀ (t : Nat) (l : List α), (Lp ++ [s.xs])[t]? = some l →
          (t < Lp.length ∧ Lp[t]? = some l) ∨ (t = Lp.length ∧ l = s.xs) := by
        intro t l hl
        by_cases c : t < Lp.length
        · rw [List.getElem?_append_left c] at hl; exact Or.inl ⟨c, hl⟩
        · rw [List.getElem?_append_right (by omega)] at hl
          have : t - Lp.length = 0 := by
            by_cases e : t - Lp.length = 0
            · exact e
            · rw [List.getElem?_eq_none (by simp; omega)] at hl; cases hl
          rw [this] at hl
          simp at hl
          exact Or.inr ⟨by omega, hl.symm⟩
      by_cases c : lt v mn = true
      · have inv' : MinInv lt (Lp ++ [s.xs]) v Lp.length := by
          refine ⟨⟨s.xs, by simp, hv⟩, fun t l hl => ?_⟩
          rcases hget t l hl with ⟨htl, h1⟩ | ⟨rfl, rfl⟩
          · obtain ⟨z, hz, hz1, _⟩ := h.all t l h1
            refine ⟨z, hz, ?_, fun _ => ?_⟩
            · -- v < mn ≤ z
              cases hzv : lt z v with
              | false => rfl
              | true => have := hlt.trans z v mn hzv c; rw [hz1] at this; cases this
            · cases hvz : lt v z with
              | true => rfl
              | false => have := hlt.ntrans v z mn hvz hz1; rw [c] at this; cases this
          · exact ⟨v, hv, hlt.irrefl v, fun hh => by omega⟩
        have ih := minOfLast_spec hlt rest (Lp ++ [s.xs]) v Lp.length inv'
        rw [hlen] at ih
        rw [happ]
        simpa [minOfLast, hv, c] using ih
      · have c' : lt v mn = false := by simpa using c
        have inv' : MinInv lt (Lp ++ [s.xs]) mn ms := by
          obtain ⟨l0, hl0, hl0'⟩ := h.hms
          refine ⟨⟨l0, by rw [List.getElem?_append_left hms_lt]; exact hl0, hl0'⟩, fun t l hl => ?_⟩
          rcases hget t l hl with ⟨htl, h1⟩ | ⟨rfl, rfl⟩
          · exact h.all t l h1
          · exact ⟨v, hv, c', fun hh => by omega⟩
        have ih := minOfLast_spec hlt rest (Lp ++ [s.xs]) mn ms inv'
        rw [hlen] at ih
        rw [happ]
        simpa [minOfLast, hv, c'] using ih

theorem sorted_last_max {l : List α} {m : α} (hs : Sorted lt l) (hirr : ∀ a, lt a a = false)
    (hl : l.getLast? = some m) : ∀ z ∈ l, lt m z = false := by
  induction l with
  | nil => intro z hz; cases hz
  | cons a q ih =>
    intro z hz
    cases q with
    | nil =>
      simp at hl hz; subst hl; subst hz; exact hirr _
    | cons b q2 =>
      rw [getLast?_cons_cons] at hl
      rcases List.mem_cons.1 hz with e | e
      · subst e
        have : m ∈ b :: q2 := List.mem_of_getLast? hl
        exact (List.pairwise_cons.1 hs).1 m this
      · exact ih (sorted_tail hs) hl z e

theorem split_eq_cnt (stb : Bool) (lt : α → α → Bool) (mn : α) (ms i : Nat) (xs : List α) :
    (if (decide (i ≤ ms) && stb) = true then upperBound lt xs mn else lowerBound lt xs mn) =
      cnt stb lt mn ms i xs := by
  unfold cnt upperBound lowerBound
  by_cases c : (decide (i ≤ ms) && stb) = true
  · have c2 : (stb && decide (i ≤ ms)) = true := by rw [Bool.and_comm]; exact c
    have : inSet stb lt mn ms i = fun x => !lt mn x := by funext y; simp [inSet, c2]
    simp [c, this]
  · have c2 : ¬ (stb && decide (i ≤ ms)) = true := by rw [Bool.and_comm]; exact c
    have : inSet stb lt mn ms i = fun x => lt x mn := by funext y; simp [inSet, c2]
    simp [c, this]

theorem overhang_sum (stb : Bool) (lt : α → α → Bool) (mn : α) (ms : Nat) : ∀ (seqs : List (Seq α)) (k : Nat),
    ((seqs.zipIdx k).map fun (x : Seq α × Nat) =>
        x.1.xs.length - (if (decide (x.2 ≤ ms) && stb) = true then upperBound lt x.1.xs mn else lowerBound lt x.1.xs mn)).sum
      + Rsum stb lt mn ms k (xsOf seqs) = totalSize seqs
  | [], k => by simp [Rsum, xsOf, totalSize]
  | s :: rest, k => by
    have ih := overhang_sum stb lt mn ms rest (k + 1)
    have hle := cnt_le (stb := stb) (lt := lt) (mn := mn) (ms := ms) k s.xs
    simp only [List.zipIdx_cons, List.map_cons, List.sum_cons, xsOf, Rsum, totalSize] at ih ⊢
    rw [split_eq_cnt]
    omega

/-- **prepare_unguarded.**  Either it reports an empty sequence, or it returns
`overhang = total − R` for `mn` = minimum of the last elements, `ms` = first sequence attaining
it, and the shape facts hold initially. -/
theorem prepareUnguarded_spec (hlt : SWO lt) (stb : Bool) (seqs : List (Seq α))
    (hs : ∀ l ∈ xsOf seqs, Sorted lt l) (hne : seqs ≠ []) :
    (∃ m, prepareUnguarded stb lt seqs = some (none, m) ∧ (xsOf seqs)[m]? = some []) ∨
    (∃ o mn ms, prepareUnguarded stb lt seqs = some (some o, ms) ∧ Shape stb lt mn ms (xsOf seqs) ∧
      o + R stb lt mn ms (xsOf seqs) = totalSize seqs ∧ MinInv lt (xsOf seqs) mn ms) := by
  cases seqs with
  | nil => exact absurd rfl hne
  | cons s0 rest =>
    cases hv0 : s0.xs.getLast? with
    | none =>
      left
      have : s0.xs = [] := by
        cases hx : s0.xs with
        | nil => rfl
        | cons a l => rw [hx] at hv0; simp at hv0
      exact ⟨0, by simp [prepareUnguarded, hv0], by simp [xsOf, this]⟩
    | some v0 =>
      have inv0 : MinInv lt [s0.xs] v0 0 := by
        refine ⟨⟨s0.xs, rfl, hv0⟩, fun t l hl => ?_⟩
        cases t with
        | zero => simp at hl; subst hl; exact ⟨v0, hv0, hlt.irrefl v0, fun h => by omega⟩
        | succ t => simp at hl
      have hx : [s0.xs] ++ xsOf rest = xsOf (s0 :: rest) := by simp [xsOf]
      rcases minOfLast_spec hlt rest [s0.xs] v0 0 inv0 with ⟨m, hm, hm2⟩ | ⟨mn, ms, hm, inv⟩
      · left
        rw [hx] at hm2
        exact ⟨m, by simpa [prepareUnguarded, hv0] using (by rw [show ([s0.xs] : List (List α)).length = 1 from rfl] at hm; simp [hm]), hm2⟩
      · right
        rw [hx] at inv
        rw [show ([s0.xs] : List (List α)).length = 1 from rfl] at hm
        refine ⟨_, mn, ms, by simp only [prepareUnguarded, hv0, hm]; rfl, ?_, ?_, inv⟩
        · obtain ⟨lm, hlm, hlm'⟩ := inv.hms
          have hmsl : ms < (xsOf (s0 :: rest)).length := by
            by_cases c : ms < (xsOf (s0 :: rest)).length
            · exact c
            · rw [List.getElem?_eq_none (by omega)] at hlm; cases hlm
          refine { sorted := fun t l hl => hs l (List.mem_of_getElem? hl),
                   keep := fun t l hl hk => ?_, msAll := fun hst l hl => ?_,
                   msEmpty := fun _ hl => ?_, msIn := fun _ => hmsl }
          · obtain ⟨z, hz, hz1, hz2⟩ := inv.all t l hl
            refine ⟨z, hz, ?_⟩
            unfold inSet
            cases hst : stb with
            | false => simpa using hz1
            | true =>
              have hne' := hk hst
              by_cases c : t ≤ ms
              · have := hz2 (by omega)
                simp [c, this]
              · simp [c, hz1]
          · rw [hlm] at hl; cases hl
            have hmax := sorted_last_max (hs _ (List.mem_of_getElem? hlm)) hlt.irrefl hlm'
            refine ⟨fun z hz => ?_, fun z hz => ?_⟩
            · unfold inSet; simp [hst, hmax z hz]
            · rw [hlm'] at hz; cases hz; exact hlt.irrefl _
          · rw [hlm] at hl; cases hl; simp at hlm'
        · have := overhang_sum stb lt mn ms (s0 :: rest) 0
          unfold R
          simpa [List.zipIdx] using this

end TlxVerif.C05
