/-
L2 for `multiway_merge_bubble`: the head array `pl`/`source` is kept sorted by
(key, source) [stable] or by key [unstable]; the inner loops emit `pl[0]` only while it is still
the (stable) minimum; hence the merge is a (stable) run.
-/
import TlxVerif.Proofs.C05Machine
namespace TlxVerif.C05
open TlxVerif.C09 (SWO)

variable {α : Type}

/-! ### the queue order -/

theorem lessQ_asymm {lt : α → α → Bool} (hlt : SWO lt) (stable : Bool) (a b : α × Nat) :
    lessQ stable lt a b = true → lessQ stable lt b a = false := by
  have a1 := hlt.asymm a.1 b.1
  have a2 := hlt.asymm b.1 a.1
  unfold lessQ
  cases stable <;> simp
  · exact a1
  · cases h1 : lt a.1 b.1 <;> cases h2 : lt b.1 a.1 <;> simp_all <;> omega

theorem lessQ_ntrans {lt : α → α → Bool} (hlt : SWO lt) (stable : Bool) (a b c : α × Nat) :
    lessQ stable lt a b = false → lessQ stable lt b c = false → lessQ stable lt a c = false := by
  have n1 := hlt.ntrans a.1 b.1 c.1
  have n2 := hlt.ntrans c.1 b.1 a.1
  have n3 := hlt.ntrans b.1 a.1 c.1
  have n4 := hlt.ntrans c.1 a.1 b.1
  have n5 := hlt.ntrans b.1 c.1 a.1
  have n6 := hlt.ntrans a.1 c.1 b.1
  unfold lessQ
  cases stable
  · simpa using n1
  · simp only [if_true, Bool.or_eq_false_iff, Bool.and_eq_false_iff, Bool.not_eq_false',
      decide_eq_false_iff_not]
    intro h1 h2
    refine ⟨n1 h1.1 h2.1, ?_⟩
    cases hca : lt c.1 a.1 with
    | true => exact Or.inl rfl
    | false =>
      right
      have hba : lt b.1 a.1 = false := n5 h2.1 hca
      have hcb : lt c.1 b.1 = false := n4 hca h1.1
      rcases h1.2 with h | h
      · rw [hba] at h; cases h
      · rcases h2.2 with h' | h'
        · rw [hcb] at h'; cases h'
        · omega

/-- sorted queue: no later entry is less than an earlier one -/
abbrev SortedQ (less : (α × Nat) → (α × Nat) → Bool) (q : List (α × Nat)) : Prop :=
  q.Pairwise (fun a b => less b a = false)

section sort
variable {less : (α × Nat) → (α × Nat) → Bool}
  (hasym : ∀ a b, less a b = true → less b a = false)
  (hnt : ∀ a b c, less a b = false → less b c = false → less a c = false)

include hasym hnt in
/-- one pass of the initial bubble sort brings a minimum to the front -/
theorem bubblePass_spec : ∀ (l : List (α × Nat)), l ≠ [] →
    ∃ m rest, bubblePass less l = m :: rest ∧ (m :: rest).Perm l ∧ ∀ b ∈ rest, less b m = false
  | [], h => absurd rfl h
  | [x], _ => ⟨x, [], rfl, List.Perm.refl _, fun b hb => by cases hb⟩
  | x :: y :: r, _ => by
    obtain ⟨m, rest, he, hp, hmin⟩ := bubblePass_spec (y :: r) (by simp)
    cases hc : less m x with
    | true =>
      refine ⟨m, x :: rest, by simp [bubblePass, he, hc], ?_, fun b hb => ?_⟩
      · exact (List.Perm.swap x m rest).trans (List.Perm.cons x hp)
      · rcases List.mem_cons.1 hb with e | e
        · rw [e]; exact hasym m x hc
        · exact hmin b e
    | false =>
      refine ⟨x, m :: rest, by simp [bubblePass, he, hc], List.Perm.cons x hp, fun b hb => ?_⟩
      rcases List.mem_cons.1 hb with e | e
      · rw [e]; exact hc
      · exact hnt b m x (hmin b e) hc

include hasym hnt in
theorem bubbleSort_spec : ∀ (n : Nat) (l : List (α × Nat)), l.length ≤ n + 1 →
    SortedQ less (bubbleSort less n l) ∧ (bubbleSort less n l).Perm l
  | 0, l, h => by
    simp only [bubbleSort]
    refine ⟨?_, List.Perm.refl _⟩
    match l, h with
    | [], _ => exact List.Pairwise.nil
    | [x], _ => exact List.pairwise_singleton _ _
  | n + 1, l, h => by
    cases l with
    | nil => simp [bubbleSort, bubblePass, SortedQ]
    | cons a l' =>
      obtain ⟨m, rest, he, hp, hmin⟩ := bubblePass_spec hasym hnt (a :: l') (by simp)
      have hlen : rest.length ≤ n + 1 := by
        have := hp.length_eq; simp at this h; omega
      obtain ⟨ih1, ih2⟩ := bubbleSort_spec n rest hlen
      simp only [bubbleSort, he]
      refine ⟨List.pairwise_cons.2 ⟨fun b hb => hmin b ((ih2.mem_iff).1 hb), ih1⟩, ?_⟩
      exact (List.Perm.cons m ih2).trans hp

include hasym hnt in
/-- "sink down" inserts the first entry into the sorted rest -/
theorem sinkDown_spec : ∀ (l : List (α × Nat)), SortedQ less l.tail →
    SortedQ less (sinkDown less l) ∧ (sinkDown less l).Perm l
  | [], _ => by simp [sinkDown]
  | [x], _ => by simp [sinkDown]
  | x :: y :: r, hs => by
    simp only [List.tail_cons] at hs
    have hy := List.pairwise_cons.1 hs
    cases hc : less y x with
    | true =>
      obtain ⟨ih1, ih2⟩ := sinkDown_spec (x :: r) (by simpa using hy.2)
      simp only [sinkDown, hc, if_true]
      refine ⟨List.pairwise_cons.2 ⟨fun b hb => ?_, ih1⟩, ?_⟩
      · rcases List.mem_cons.1 ((ih2.mem_iff).1 hb) with e | e
        · rw [e]; exact hasym y x hc
        · exact hy.1 b e
      · exact (List.Perm.cons y ih2).trans (List.Perm.swap x y r)
    | false =>
      simp only [sinkDown, hc, Bool.false_eq_true, if_false]
      refine ⟨List.pairwise_cons.2 ⟨fun b hb => ?_, hs⟩, List.Perm.refl _⟩
      rcases List.mem_cons.1 hb with e | e
      · rw [e]; exact hc
      · exact hnt b y x (hy.1 b e) hc
end sort

/-! ### the queue and the sequences -/

/-- the queue holds exactly the heads of the non-empty sequences, each once -/
structure QOK (q : List (α × Nat)) (L : List (List α)) : Prop where
  heads : ∀ p ∈ q, ∃ r, L[p.2]? = some (p.1 :: r)
  nodup : (q.map (·.2)).Nodup
  complete : ∀ (j : Nat) (y : α) (r : List α), L[j]? = some (y :: r) → (y, j) ∈ q

theorem QOK.perm {q q' : List (α × Nat)} {L : List (List α)} (h : QOK q L) (hp : q'.Perm q) : QOK q' L :=
  ⟨fun p hp' => h.heads p ((hp.mem_iff).1 hp'), (hp.map _).nodup_iff.2 h.nodup,
   fun j y r hj => (hp.mem_iff).2 (h.complete j y r hj)⟩

/-- the first entry of a sorted queue is the (stable) minimum -/
theorem head_isMinS {lt : α → α → Bool} (hlt : SWO lt) (stable : Bool) {x : α} {s : Nat} {rest : List (α × Nat)}
    {L : List (List α)} (hq : QOK ((x, s) :: rest) L) (hmin : ∀ b ∈ rest, lessQ stable lt b (x, s) = false) :
    ∃ r, L[s]? = some (x :: r) ∧ IsMinS stable lt L s x r := by
  obtain ⟨r, hr⟩ := hq.heads (x, s) List.mem_cons_self
  have key : ∀ (j : Nat) (y : α) (q' : List α), L[j]? = some (y :: q') → j ≠ s → lessQ stable lt (y, j) (x, s) = false := by
    intro j y q' hj hne
    rcases List.mem_cons.1 (hq.complete j y q' hj) with e | e
    · cases e; exact absurd rfl hne
    · exact hmin _ e
  refine ⟨r, hr, ⟨hr, fun j y q' hj => ?_⟩, fun hst j y q' hjs hj => ?_⟩
  · by_cases e : j = s
    · subst e; rw [hr] at hj; cases hj; exact hlt.irrefl _
    · have := key j y q' hj e
      unfold lessQ at this
      cases stable <;> simp at this
      · exact this
      · exact this.1
  · have := key j y q' hj (by omega)
    subst hst
    simp only [lessQ, if_true, Bool.or_eq_false_iff, Bool.and_eq_false_iff, Bool.not_eq_false',
      decide_eq_false_iff_not] at this
    rcases this.2 with h | h
    · exact h
    · exact absurd hjs h

theorem QOK.advance {x : α} {s : Nat} {rest : List (α × Nat)} {L : List (List α)} {nx : α} {r' : List α}
    (hq : QOK ((x, s) :: rest) L) (hr : L[s]? = some (x :: nx :: r')) :
    QOK ((nx, s) :: rest) (L.set s (nx :: r')) := by
  have hsl : s < L.length := by
    by_cases c : s < L.length
    · exact c
    · rw [List.getElem?_eq_none (by omega)] at hr; cases hr
  have hns : ∀ p ∈ rest, p.2 ≠ s := by
    intro p hp e
    have := hq.nodup
    simp only [List.map_cons, List.nodup_cons, List.mem_map] at this
    exact this.1 ⟨p, hp, e⟩
  refine ⟨fun p hp => ?_, ?_, fun j y r hj => ?_⟩
  · rcases List.mem_cons.1 hp with e | e
    · subst e; exact ⟨r', by simp [hsl]⟩
    · obtain ⟨r, hr'⟩ := hq.heads p (List.mem_cons_of_mem _ e)
      exact ⟨r, by rw [List.getElem?_set_ne (fun h => hns p e h.symm)]; exact hr'⟩
  · have := hq.nodup; simpa using this
  · by_cases e : j = s
    · subst e
      simp only [List.getElem?_set_self hsl, Option.some.injEq, List.cons.injEq] at hj
      rw [← hj.1]; exact List.mem_cons_self
    · rw [List.getElem?_set_ne (fun h => e h.symm)] at hj
      rcases List.mem_cons.1 (hq.complete j y r hj) with e' | e'
      · cases e'; exact absurd rfl e
      · exact List.mem_cons_of_mem _ e'

theorem QOK.exhaust {x : α} {s : Nat} {rest : List (α × Nat)} {L : List (List α)}
    (hq : QOK ((x, s) :: rest) L) (hr : L[s]? = some [x]) : QOK rest (L.set s []) := by
  have hsl : s < L.length := by
    by_cases c : s < L.length
    · exact c
    · rw [List.getElem?_eq_none (by omega)] at hr; cases hr
  have hns : ∀ p ∈ rest, p.2 ≠ s := by
    intro p hp e
    have := hq.nodup
    simp only [List.map_cons, List.nodup_cons, List.mem_map] at this
    exact this.1 ⟨p, hp, e⟩
  refine ⟨fun p hp => ?_, ?_, fun j y r hj => ?_⟩
  · obtain ⟨r, hr'⟩ := hq.heads p (List.mem_cons_of_mem _ hp)
    exact ⟨r, by rw [List.getElem?_set_ne (fun h => hns p hp h.symm)]; exact hr'⟩
  · have := hq.nodup; simp only [List.map_cons, List.nodup_cons] at this; exact this.2
  · by_cases e : j = s
    · subst e; simp [hsl] at hj
    · rw [List.getElem?_set_ne (fun h => e h.symm)] at hj
      rcases List.mem_cons.1 (hq.complete j y r hj) with e' | e'
      · cases e'; exact absurd rfl e
      · exact e'

/-! ### the loops -/

/-- the flag chosen by `if (source[0] < source[1])` -/
def StrictOK (stable strict : Bool) (s : Nat) (rest : List (α × Nat)) : Prop :=
  ∀ (y : α) (s1 : Nat) (rest' : List (α × Nat)), rest = (y, s1) :: rest' → strict = (stable && !decide (s < s1))

theorem go_min {lt : α → α → Bool} (hlt : SWO lt) {stable strict : Bool} {x : α} {s : Nat} {rest : List (α × Nat)}
    (hs : SortedQ (lessQ stable lt) rest) (hst : StrictOK stable strict s rest)
    (hne : ∀ p ∈ rest, p.2 ≠ s) (hgo : goCond lt strict x rest = true) :
    ∀ b ∈ rest, lessQ stable lt b (x, s) = false := by
  cases rest with
  | nil => intro b hb; cases hb
  | cons p rest' =>
    obtain ⟨y, s1⟩ := p
    have hstr := hst y s1 rest' rfl
    simp only [goCond] at hgo
    have hne1 : s1 ≠ s := hne (y, s1) List.mem_cons_self
    have hfirst : lessQ stable lt (y, s1) (x, s) = false := by
      have as := hlt.asymm x y
      unfold lessQ
      cases stable with
      | false =>
        simp only [Bool.false_and] at hstr
        subst hstr
        simpa using hgo
      | true =>
        simp only [Bool.true_and] at hstr
        subst hstr
        by_cases c : s < s1
        · simp only [c, decide_true, Bool.not_true, Bool.false_eq_true, if_false, Bool.not_eq_true'] at hgo
          have : ¬ s1 < s := by omega
          simp [hgo, this]
        · simp only [c, decide_false, Bool.not_false, if_true] at hgo
          simp [as hgo, hgo]
    intro b hb
    rcases List.mem_cons.1 hb with e | e
    · rw [e]; exact hfirst
    · have := (List.pairwise_cons.1 hs).1 b e
      exact lessQ_ntrans hlt stable b (y, s1) (x, s) this hfirst

theorem sortedQ_tail {less : (α × Nat) → (α × Nat) → Bool} {l : List (α × Nat)} (h : SortedQ less l) :
    SortedQ less l.tail := by
  cases l with
  | nil => exact List.Pairwise.nil
  | cons a b => exact (List.pairwise_cons.1 h).2

theorem bubbleInner_run {lt : α → α → Bool} (hlt : SWO lt) (stable strict : Bool) :
    ∀ (size : Nat) (x : α) (s : Nat) (rest : List (α × Nat)) (seqs : List (Seq α)),
      QOK ((x, s) :: rest) (xsOf seqs) → SortedQ (lessQ stable lt) rest → StrictOK stable strict s rest →
      ∃ q1 seqs1 size1 o1, bubbleInner lt strict size ((x, s) :: rest) seqs = some (q1, seqs1, size1, o1) ∧
        size1 ≤ size ∧ Run stable lt (xsOf seqs) (size - size1) o1 (xsOf seqs1) ∧
        guardsOf seqs1 = guardsOf seqs ∧ QOK q1 (xsOf seqs1) ∧ SortedQ (lessQ stable lt) q1.tail ∧
        (size1 = size → size ≠ 0 → goCond lt strict x rest = false)
  | 0, x, s, rest, seqs, hq, hs, _ =>
    ⟨_, seqs, 0, [], rfl, Nat.le_refl _, Run.done stable lt _, rfl, hq, hs, fun _ h => absurd rfl h⟩
  | size + 1, x, s, rest, seqs, hq, hs, hst => by
    cases hgo : goCond lt strict x rest with
    | true =>
      -- emit pl[0]
      have hns : ∀ p ∈ rest, p.2 ≠ s := by
        intro p hp e
        have := hq.nodup
        simp only [List.map_cons, List.nodup_cons, List.mem_map] at this
        exact this.1 ⟨p, hp, e⟩
      have hmin := go_min hlt hs hst hns hgo
      obtain ⟨r, hr, hmS⟩ := head_isMinS hlt stable hq hmin
      obtain ⟨sq, hsq, hxs⟩ := xsOf_get hr
      have hxs' := xsOf_set seqs s sq r
      cases r with
      | nil =>
        refine ⟨rest, seqs.set s { sq with xs := [] }, size, [x], ?_, by omega, ?_, guardsOf_set hsq [],
          by rw [hxs']; exact hq.exhaust hr, sortedQ_tail hs, fun h _ => by omega⟩
        · simp [bubbleInner, hgo, hsq, hxs]
        · rw [hxs', show size + 1 - size = 0 + 1 by omega]
          exact Run.emit hmS (Run.done stable lt _)
      | cons nx r' =>
        have hq' : QOK ((nx, s) :: rest) (xsOf (seqs.set s { sq with xs := nx :: r' })) := by
          rw [hxs']; exact hq.advance hr
        obtain ⟨q1, seqs1, size1, o1, he, hle, hrun, hg, hq1, hs1, _⟩ :=
          bubbleInner_run hlt stable strict size nx s rest (seqs.set s { sq with xs := nx :: r' }) hq' hs hst
        refine ⟨q1, seqs1, size1, x :: o1, ?_, by omega, ?_, by rw [hg, guardsOf_set hsq], hq1, hs1, fun h _ => by omega⟩
        · simp [bubbleInner, hgo, hsq, hxs, he]
        · rw [hxs'] at hrun
          rw [show size + 1 - size1 = (size - size1) + 1 by omega]
          exact Run.emit hmS hrun
    | false =>
      exact ⟨(x, s) :: rest, seqs, size + 1, [], by simp [bubbleInner, hgo], Nat.le_refl _,
        by simpa using Run.done stable lt _, rfl, hq, hs, fun _ _ => rfl⟩

theorem total_zero_of_empty_queue {L : List (List α)} (hq : QOK ([] : List (α × Nat)) L) : L.flatten.length = 0 := by
  by_cases c : 0 < L.flatten.length
  · obtain ⟨j, y, r, hj⟩ := exists_nonempty c
    have := hq.complete j y r hj
    cases this
  · omega

theorem bubbleOuter_run {lt : α → α → Bool} (hlt : SWO lt) (stable : Bool) :
    ∀ (fuel size : Nat) (q : List (α × Nat)) (seqs : List (Seq α)),
      size < fuel → QOK q (xsOf seqs) → SortedQ (lessQ stable lt) q → size ≤ (xsOf seqs).flatten.length →
      ∃ fin out, bubbleOuter stable lt fuel size q seqs = some (fin, out) ∧
        Run stable lt (xsOf seqs) size out (xsOf fin) ∧ guardsOf fin = guardsOf seqs
  | 0, size, q, seqs, h, _, _, _ => by omega
  | fuel + 1, size, q, seqs, hf, hq, hs, hsz => by
    by_cases h0 : size = 0
    · subst h0
      exact ⟨seqs, [], by simp [bubbleOuter], Run.done stable lt _, rfl⟩
    · cases q with
      | nil =>
        have := total_zero_of_empty_queue hq
        omega
      | cons p rest =>
        obtain ⟨x, s⟩ := p
        have hsr := (List.pairwise_cons.1 hs)
        have hstrict : StrictOK stable (strictFlag stable ((x, s) :: rest)) s rest := by
          intro y s1 rest' he
          subst he
          rfl
        obtain ⟨q1, seqs1, size1, o1, he, hle, hrun, hg, hq1, hs1, hprog⟩ :=
          bubbleInner_run hlt stable (strictFlag stable ((x, s) :: rest)) size x s rest seqs hq hsr.2 hstrict
        -- the first test of the inner loop succeeds on a sorted queue
        have hlt1 : size1 < size := by
          by_cases c : size1 = size
          · exfalso
            have hg0 := hprog c h0
            cases rest with
            | nil => simp [goCond] at hg0
            | cons p' rest' =>
              obtain ⟨y, s1⟩ := p'
              have hle' : lessQ stable lt (y, s1) (x, s) = false := hsr.1 (y, s1) List.mem_cons_self
              have hne : s1 ≠ s := by
                have := hq.nodup
                simp only [List.map_cons, List.nodup_cons, List.mem_cons, not_or] at this
                exact fun e => this.1.1 e.symm
              simp only [goCond, strictFlag] at hg0
              unfold lessQ at hle'
              cases stable with
              | false => simp at hle' hg0; rw [hle'] at hg0; cases hg0
              | true =>
                simp only [if_true, Bool.or_eq_false_iff, Bool.and_eq_false_iff, Bool.not_eq_false',
                  decide_eq_false_iff_not] at hle'
                by_cases c2 : s < s1
                · simp [c2, hle'.1] at hg0
                · have : s1 < s := by omega
                  rcases hle'.2 with h | h
                  · simp [c2, h] at hg0
                  · exact absurd this h
          · omega
        obtain ⟨hs2, hp2⟩ := sinkDown_spec (lessQ_asymm hlt stable) (lessQ_ntrans hlt stable) q1 hs1
        have htot : (xsOf seqs1).flatten.length + (size - size1) = (xsOf seqs).flatten.length := by
          have h1 := hrun.minRun.perm.length_eq
          simp only [List.length_append] at h1
          have h2 := hrun.minRun.length.1
          omega
        obtain ⟨fin, o2, he2, hrun2, hg2⟩ := bubbleOuter_run hlt stable fuel size1 (sinkDown (lessQ stable lt) q1) seqs1
          (by omega) (hq1.perm hp2) hs2 (by omega)
        refine ⟨fin, o1 ++ o2, ?_, ?_, by rw [hg2, hg]⟩
        · have hcond : (((x, s) :: rest).isEmpty || decide (size = 0)) = false := by simp [h0]
          simp only [bubbleOuter, hcond, Bool.false_eq_true, if_false, he, he2, Option.bind_eq_bind,
            Option.bind_some, Option.pure_def]
        · have := Run.append hrun hrun2
          rwa [show size - size1 + size1 = size by omega] at this

/-! ### the initial queue -/

def mkQ (k : Nat) (seqs : List (Seq α)) : List (α × Nat) :=
  (seqs.zipIdx k).filterMap fun (x : Seq α × Nat) => x.1.xs.head?.map (·, x.2)

theorem mkQ_cons (k : Nat) (s : Seq α) (rest : List (Seq α)) :
    mkQ k (s :: rest) = (match s.xs.head? with | some x => [(x, k)] | none => []) ++ mkQ (k + 1) rest := by
  simp only [mkQ, List.zipIdx_cons, List.filterMap_cons]
  cases s.xs.head? <;> simp

theorem mkQ_mem : ∀ (seqs : List (Seq α)) (k : Nat) (p : α × Nat), p ∈ mkQ k seqs →
    ∃ j r, p.2 = k + j ∧ (xsOf seqs)[j]? = some (p.1 :: r)
  | [], k, p, h => by simp [mkQ] at h
  | s :: rest, k, p, h => by
    rw [mkQ_cons] at h
    rcases List.mem_append.1 h with h1 | h1
    · cases hx : s.xs with
      | nil => simp [hx] at h1
      | cons a l =>
        simp [hx] at h1
        subst h1
        exact ⟨0, l, rfl, by simp [xsOf, hx]⟩
    · obtain ⟨j, r, h2, h3⟩ := mkQ_mem rest (k + 1) p h1
      exact ⟨j + 1, r, by omega, by simpa [xsOf] using h3⟩

theorem mkQ_complete : ∀ (seqs : List (Seq α)) (k j : Nat) (y : α) (r : List α),
    (xsOf seqs)[j]? = some (y :: r) → (y, k + j) ∈ mkQ k seqs
  | [], k, j, y, r, h => by simp [xsOf] at h
  | s :: rest, k, 0, y, r, h => by
    have : s.xs = y :: r := by simpa [xsOf] using h
    rw [mkQ_cons, this]
    simp
  | s :: rest, k, j + 1, y, r, h => by
    rw [mkQ_cons]
    apply List.mem_append_right
    have := mkQ_complete rest (k + 1) j y r (by simpa [xsOf] using h)
    rwa [show k + 1 + j = k + (j + 1) by omega] at this

theorem mkQ_sources : ∀ (seqs : List (Seq α)) (k : Nat),
    ((mkQ k seqs).map (·.2)).Pairwise (· < ·) ∧ ∀ t ∈ (mkQ k seqs).map (·.2), k ≤ t
  | [], k => by simp [mkQ]
  | s :: rest, k => by
    obtain ⟨ih1, ih2⟩ := mkQ_sources rest (k + 1)
    rw [mkQ_cons]
    cases hx : s.xs.head? with
    | none =>
      simp only [List.nil_append]
      exact ⟨ih1, fun t ht => by have := ih2 t ht; omega⟩
    | some a =>
      simp only [List.singleton_append, List.map_cons]
      refine ⟨List.pairwise_cons.2 ⟨fun t ht => by have := ih2 t ht; omega, ih1⟩, fun t ht => ?_⟩
      rcases List.mem_cons.1 ht with e | e
      · omega
      · have := ih2 t e; omega

theorem mkQ_ok (seqs : List (Seq α)) : QOK (mkQ 0 seqs) (xsOf seqs) := by
  refine ⟨fun p hp => ?_, ?_, fun j y r hj => ?_⟩
  · obtain ⟨j, r, h1, h2⟩ := mkQ_mem seqs 0 p hp
    exact ⟨r, by rw [h1, Nat.zero_add]; exact h2⟩
  · exact ((mkQ_sources seqs 0).1).imp (fun h => Nat.ne_of_lt h)
  · have := mkQ_complete seqs 0 j y r hj
    rwa [Nat.zero_add] at this

/-- **multiway_merge_bubble** (any number of sequences, stable and unstable): defined for every
`size ≤ total`; a stable run when `Stable`, a minimal-head run otherwise -/
theorem multiwayMergeBubble_run {lt : α → α → Bool} (hlt : SWO lt) (stable : Bool) (seqs : List (Seq α)) (size : Nat)
    (hsize : size ≤ (xsOf seqs).flatten.length) :
    ∃ fin out, multiwayMergeBubble stable lt seqs size = some (fin, out) ∧
      Run stable lt (xsOf seqs) size out (xsOf fin) ∧ guardsOf fin = guardsOf seqs := by
  unfold multiwayMergeBubble
  have hq0 : (seqs.zipIdx.filterMap fun (x : Seq α × Nat) => x.1.xs.head?.map (·, x.2)) = mkQ 0 seqs := rfl
  simp only [hq0]
  obtain ⟨hs, hp⟩ := bubbleSort_spec (lessQ_asymm hlt stable) (lessQ_ntrans hlt stable)
    ((mkQ 0 seqs).length - 1) (mkQ 0 seqs) (by omega)
  exact bubbleOuter_run hlt stable (2 * size + 2) size _ seqs (by omega) ((mkQ_ok seqs).perm hp) hs hsize

end TlxVerif.C05
