/-
C03 helper lemmas: longest common prefix, the unsigned-byte lexicographic order `≤` on
`List UInt8` (Lean's `List` order), and how the character comparisons of the code decide it.
-/
import TlxVerif.Model.C03Basic
namespace TlxVerif.C03

/-! ### lcp -/

@[simp] theorem lcp_nil_left (b : Str) : lcp [] b = 0 := by simp [lcp]
@[simp] theorem lcp_nil_right (a : Str) : lcp a [] = 0 := by cases a <;> simp [lcp]

theorem lcp_cons_cons (x y : UInt8) (xs ys : Str) :
    lcp (x :: xs) (y :: ys) = if x = y then lcp xs ys + 1 else 0 := by simp [lcp]

theorem lcp_comm (a b : Str) : lcp a b = lcp b a := by
  induction a generalizing b with
  | nil => simp
  | cons x xs ih =>
    cases b with
    | nil => simp
    | cons y ys =>
      simp only [lcp_cons_cons]
      by_cases h : x = y
      · subst h; simp [ih]
      · have h' : ¬ y = x := fun e => h e.symm
        simp [h, h']

theorem lcp_self (a : Str) : lcp a a = a.length := by
  induction a with
  | nil => simp
  | cons x xs ih => simp [lcp_cons_cons, ih]

theorem lcp_le_left (a b : Str) : lcp a b ≤ a.length := by
  induction a generalizing b with
  | nil => simp
  | cons x xs ih =>
    cases b with
    | nil => simp
    | cons y ys =>
      simp only [lcp_cons_cons]
      split
      · have := ih ys; simp; omega
      · simp

theorem lcp_le_right (a b : Str) : lcp a b ≤ b.length := by
  rw [lcp_comm]; exact lcp_le_left b a

/-- the first `lcp a b` characters agree -/
theorem take_lcp (a b : Str) : a.take (lcp a b) = b.take (lcp a b) := by
  induction a generalizing b with
  | nil => simp
  | cons x xs ih =>
    cases b with
    | nil => simp
    | cons y ys =>
      simp only [lcp_cons_cons]
      split
      · rename_i h; subst h; simp [ih ys]
      · simp

/-- ultrametric inequality -/
theorem lcp_ultra (a b c : Str) : min (lcp a b) (lcp b c) ≤ lcp a c := by
  induction a generalizing b c with
  | nil => simp
  | cons x xs ih =>
    cases b with
    | nil => simp
    | cons y ys =>
      cases c with
      | nil => simp
      | cons z zs =>
        simp only [lcp_cons_cons]
        by_cases h1 : x = y
        · by_cases h2 : y = z
          · subst h1; subst h2
            have := ih ys zs
            simp; omega
          · simp [h1, h2]
        · simp [h1]

/-- common prefix of length at least `d`, in terms of `take` -/
theorem le_lcp_iff (d : Nat) (a b : Str) :
    d ≤ lcp a b ↔ d ≤ a.length ∧ d ≤ b.length ∧ a.take d = b.take d := by
  induction a generalizing b d with
  | nil => cases d <;> simp
  | cons x xs ih =>
    cases b with
    | nil => cases d <;> simp
    | cons y ys =>
      cases d with
      | zero => simp
      | succ d =>
        simp only [lcp_cons_cons, List.length_cons, List.take_succ_cons, List.cons.injEq]
        by_cases h : x = y
        · subst h
          have := ih d ys
          simp; omega
        · simp [h]

theorem lcp_drop (d : Nat) (a b : Str) (h : d ≤ lcp a b) :
    lcp (a.drop d) (b.drop d) + d = lcp a b := by
  induction d generalizing a b with
  | zero => simp
  | succ d ih =>
    cases a with
    | nil => simp at h
    | cons x xs =>
      cases b with
      | nil => simp at h
      | cons y ys =>
        rw [lcp_cons_cons] at h ⊢
        by_cases e : x = y
        · simp only [e, if_true] at h ⊢
          have := ih xs ys (by omega)
          simp only [List.drop_succ_cons]
          omega
        · simp [e] at h

/-! ### characters -/

theorem charAt_nil (d : Nat) : charAt [] d = 0 := by simp [charAt]
theorem charAt_cons_zero (x : UInt8) (xs : Str) : charAt (x :: xs) 0 = x := by simp [charAt]
theorem charAt_cons_succ (x : UInt8) (xs : Str) (d : Nat) : charAt (x :: xs) (d + 1) = charAt xs d := by
  simp [charAt]

theorem charAt_eq_head_drop (s : Str) (d : Nat) : charAt s d = (s.drop d).headD 0 := by
  induction s generalizing d with
  | nil => simp [charAt]
  | cons x xs ih =>
    cases d with
    | zero => simp [charAt]
    | succ d => simp [charAt_cons_succ, ih]

/-- a NUL-free string has the character 0 exactly at and behind its end -/
theorem charAt_eq_zero_iff (s : Str) (hs : (0 : UInt8) ∉ s) (d : Nat) : charAt s d = 0 ↔ s.length ≤ d := by
  induction s generalizing d with
  | nil => simp [charAt]
  | cons x xs ih =>
    have hx : x ≠ 0 := fun e => hs (by simp [e])
    have hxs : (0 : UInt8) ∉ xs := fun m => hs (by simp [m])
    cases d with
    | zero => simp [charAt, hx]
    | succ d => simp [charAt_cons_succ, ih hxs]

/-! ### the order -/

theorem cons_le_cons (x y : UInt8) (l1 l2 : Str) : x :: l1 ≤ y :: l2 ↔ x < y ∨ x = y ∧ l1 ≤ l2 :=
  List.cons_le_cons_iff

theorem le_of_drop (d : Nat) (a b : Str) (h : d ≤ lcp a b) : a ≤ b ↔ a.drop d ≤ b.drop d := by
  induction d generalizing a b with
  | zero => simp
  | succ d ih =>
    cases a with
    | nil => simp at h
    | cons x xs =>
      cases b with
      | nil => simp at h
      | cons y ys =>
        rw [lcp_cons_cons] at h
        by_cases e : x = y
        · subst e
          simp only [if_true] at h
          rw [cons_le_cons, List.drop_succ_cons, List.drop_succ_cons, ← ih xs ys (by omega)]
          simp [UInt8.lt_irrefl]
        · simp [e] at h

/-- `is_leq` after the `is_equal` loop decides `≤` -/
theorem isLeq_drop_lcp (a b : Str) : isLeq (a.drop (lcp a b)) (b.drop (lcp a b)) = true ↔ a ≤ b := by
  induction a generalizing b with
  | nil => simp [isLeq, List.nil_le]
  | cons x xs ih =>
    cases b with
    | nil => simp [isLeq]
    | cons y ys =>
      rw [lcp_cons_cons, cons_le_cons]
      by_cases e : x = y
      · subst e
        simp only [if_true, List.drop_succ_cons, ih ys]
        simp [UInt8.lt_irrefl]
      · simp only [e, if_false, List.drop_zero, isLeq, false_and, or_false, decide_eq_true_eq]
        constructor
        · intro h
          exact UInt8.lt_of_le_of_ne h e
        · intro h
          exact UInt8.le_of_lt h

/-- `is_less` after the `is_equal` loop also decides `≤` (it answers true at two ends) -/
theorem isLess_drop_lcp (a b : Str) : isLess (a.drop (lcp a b)) (b.drop (lcp a b)) = true ↔ a ≤ b := by
  induction a generalizing b with
  | nil => simp [isLess, List.nil_le]
  | cons x xs ih =>
    cases b with
    | nil => simp [isLess]
    | cons y ys =>
      rw [lcp_cons_cons, cons_le_cons]
      by_cases e : x = y
      · subst e
        simp only [if_true, List.drop_succ_cons, ih ys]
        simp [UInt8.lt_irrefl]
      · simp [e, isLess]

theorem not_le_imp_le (a b : Str) (h : ¬ a ≤ b) : b ≤ a := by
  rcases List.le_total a b with h' | h'
  · exact absurd h' h
  · exact h'

/-- the three-string fact behind the LCP insertion sort: `c` and `n` are both below `x`,
their LCPs with `x` are known -/
theorem tri_lt (c n x : Str) (hc : c ≤ x) (h : lcp c x < lcp n x) :
    c ≤ n ∧ lcp c n = lcp c x := by
  induction c generalizing n x with
  | nil => simp [List.nil_le]
  | cons hc' cs ih =>
    cases x with
    | nil => simp at h
    | cons hx xs =>
      cases n with
      | nil => simp at h
      | cons hn ns =>
        rw [lcp_cons_cons, lcp_cons_cons] at h
        rw [cons_le_cons] at hc
        by_cases e2 : hn = hx
        · subst e2
          simp only [if_true] at h
          by_cases e1 : hc' = hn
          · subst e1
            simp only [if_true] at h
            have hc2 : cs ≤ xs := by
              rcases hc with hc | hc
              · exact absurd hc (UInt8.lt_irrefl _)
              · exact hc.2
            have := ih ns xs hc2 (by omega)
            rw [cons_le_cons, lcp_cons_cons, lcp_cons_cons]
            simp [this.1, this.2]
          · rw [cons_le_cons, lcp_cons_cons, lcp_cons_cons]
            simp only [e1, if_false, and_true]
            rcases hc with hc | hc
            · exact Or.inl hc
            · exact absurd hc.1 e1
        · simp [e2] at h

theorem tri_eq (c n x : Str) (h : lcp c x = lcp n x) : lcp n x ≤ lcp n c := by
  have := lcp_ultra n x c
  rw [lcp_comm x c] at this
  omega

/-! ### characters decide order and LCP below a common prefix -/

theorem charAt_lt_imp (d : Nat) (a b : Str) (hb : (0 : UInt8) ∉ b) (h : d ≤ lcp a b)
    (hlt : charAt a d < charAt b d) : a ≤ b ∧ lcp a b = d := by
  induction d generalizing a b with
  | zero =>
    cases b with
    | nil => simp [charAt] at hlt
    | cons y ys =>
      cases a with
      | nil => simp [List.nil_le]
      | cons x xs =>
        simp only [charAt_cons_zero] at hlt
        have e : ¬ x = y := fun e => by subst e; exact UInt8.lt_irrefl _ hlt
        rw [cons_le_cons, lcp_cons_cons]
        simp [e, hlt]
  | succ d ih =>
    cases a with
    | nil => simp at h
    | cons x xs =>
      cases b with
      | nil => simp at h
      | cons y ys =>
        rw [lcp_cons_cons] at h
        by_cases e : x = y
        · subst e
          simp only [if_true] at h
          simp only [charAt_cons_succ] at hlt
          have hys : (0 : UInt8) ∉ ys := fun m => hb (by simp [m])
          have := ih xs ys hys (by omega) hlt
          rw [cons_le_cons, lcp_cons_cons]
          simp [this.1, this.2]
        · simp [e] at h

theorem charAt_eq_imp (d : Nat) (a b : Str) (h : d ≤ lcp a b)
    (heq : charAt a d = charAt b d) (hne : charAt a d ≠ 0) (ha : (0 : UInt8) ∉ a) (hb : (0 : UInt8) ∉ b) :
    d + 1 ≤ lcp a b := by
  rw [le_lcp_iff] at h ⊢
  obtain ⟨h1, h2, h3⟩ := h
  have la : d < a.length := by
    apply Classical.byContradiction
    intro hh
    exact hne ((charAt_eq_zero_iff a ha d).mpr (by omega))
  have lb : d < b.length := by
    apply Classical.byContradiction
    intro hh
    exact hne (heq ▸ (charAt_eq_zero_iff b hb d).mpr (by omega))
  refine ⟨la, lb, ?_⟩
  rw [List.take_add_one, List.take_add_one, h3]
  congr 1
  simp only [charAt, List.getD_eq_getElem?_getD] at heq
  rw [List.getElem?_eq_getElem la, List.getElem?_eq_getElem lb] at heq ⊢
  simpa using heq

theorem charAt_zero_imp (d : Nat) (a b : Str) (h : d ≤ lcp a b)
    (h0a : charAt a d = 0) (h0b : charAt b d = 0) (ha : (0 : UInt8) ∉ a) (hb : (0 : UInt8) ∉ b) :
    a = b ∧ lcp a b = d := by
  have la := (charAt_eq_zero_iff a ha d).mp h0a
  have lb := (charAt_eq_zero_iff b hb d).mp h0b
  have h' := (le_lcp_iff d a b).mp h
  have e : a = b := by
    have := h'.2.2
    rwa [List.take_of_length_le la, List.take_of_length_le lb] at this
  refine ⟨e, ?_⟩
  have := lcp_le_left a b
  omega

end TlxVerif.C03
