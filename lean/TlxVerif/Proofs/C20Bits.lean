import TlxVerif.Proofs.C20Nat
/-!
BitVec-level lemmas for C20: the loop templates of clz/ctz/ffs compute the specification.
-/
set_option linter.unusedSimpArgs false
namespace TlxVerif.C20

theorem and_two_pow_eq_zero (n i : Nat) : n &&& 2 ^ i = 0 ↔ n.testBit i = false := by
  constructor
  · intro h
    have := congrArg (fun x => x.testBit i) h
    simpa [Nat.testBit_and, Nat.testBit_two_pow] using this
  · intro h
    apply Nat.eq_of_testBit_eq
    intro j
    simp only [Nat.testBit_and, Nat.testBit_two_pow, Nat.zero_testBit]
    by_cases e : i = j
    · subst e; simp [h]
    · simp [e]

theorem testBit_top {w n : Nat} (hw : 0 < w) (hlt : n < 2 ^ w) :
    n.testBit (w - 1) = decide (2 ^ (w - 1) ≤ n) := by
  rw [Nat.testBit_eq_decide_div_mod_eq]
  have hp : 2 ^ w = 2 * 2 ^ (w - 1) := by
    have : w = (w - 1) + 1 := by omega
    rw [this, Nat.pow_succ]; simp; omega
  have hpos : 0 < 2 ^ (w - 1) := Nat.pow_pos (by omega)
  have hq : n / 2 ^ (w - 1) < 2 := by
    apply Nat.div_lt_of_lt_mul; omega
  by_cases h : 2 ^ (w - 1) ≤ n
  · have : 1 ≤ n / 2 ^ (w - 1) := (Nat.one_le_div_iff hpos).mpr h
    simp [h]; omega
  · have : n / 2 ^ (w - 1) = 0 := Nat.div_eq_of_lt (by omega)
    simp [h, this]

/-- the test `(x & (Integral(1) << (w-1))) == 0` of clz_template -/
theorem topbit_clear_iff {w : Nat} (hw : 0 < w) (x : BitVec w) :
    x &&& (1#w <<< (w - 1)) = 0#w ↔ x.toNat < 2 ^ (w - 1) := by
  have hone : (1#w <<< (w - 1)).toNat = 2 ^ (w - 1) := by
    rw [BitVec.toNat_shiftLeft, Nat.shiftLeft_eq]
    have : (1#w).toNat = 1 := by simp [Nat.one_mod_two_pow hw]
    rw [this, Nat.one_mul]
    exact Nat.mod_eq_of_lt (Nat.pow_lt_pow_right (by omega) (by omega))
  rw [BitVec.toNat_eq, BitVec.toNat_and, hone]
  simp only [BitVec.toNat_ofNat, Nat.zero_mod]
  rw [and_two_pow_eq_zero, testBit_top hw x.isLt]
  simp

theorem clzLoop_spec {w : Nat} (fuel : Nat) (x : BitVec w) (r : Nat) (hx : x ≠ 0#w)
    (hf : w - bitLen w x.toNat < fuel) :
    clzLoop fuel x r = some (r + (w - bitLen w x.toNat)) := by
  have hw : 0 < w := by
    rcases Nat.eq_zero_or_pos w with h | h
    · subst h; exact absurd (BitVec.eq_nil x |>.trans (BitVec.eq_nil 0#0).symm) hx
    · exact h
  have hn : x.toNat ≠ 0 := by
    intro h; apply hx; apply BitVec.eq_of_toNat_eq; simpa using h
  induction fuel generalizing x r with
  | zero => omega
  | succ fuel ih =>
    simp only [clzLoop]
    by_cases ht : x &&& (1#w <<< (w - 1)) = 0#w
    · simp only [ht, if_true]
      have hlt := (topbit_clear_iff hw x).mp ht
      have hp : 2 ^ w = 2 * 2 ^ (w - 1) := by
        have : w = (w - 1) + 1 := by omega
        rw [this, Nat.pow_succ]; simp; omega
      have hsh : (x <<< 1).toNat = 2 * x.toNat := by
        rw [BitVec.toNat_shiftLeft, Nat.shiftLeft_eq]
        simp only [Nat.pow_one]
        rw [Nat.mod_eq_of_lt (by omega)]; omega
      have hd := bitLen_double (w := w) hn (by omega)
      have hle := bitLen_le w (2 * x.toNat)
      have hx' : x <<< 1 ≠ 0#w := by
        intro h; have := congrArg BitVec.toNat h; simp only [hsh] at this; simp at this; omega
      have hn' : (x <<< 1).toNat ≠ 0 := by rw [hsh]; omega
      rw [ih (x <<< 1) (r + 1) hx' (by rw [hsh, hd]; omega) hn', hsh, hd]
      congr 1; omega
    · simp only [ht, if_false]
      have hge : 2 ^ (w - 1) ≤ x.toNat := by
        rcases Nat.lt_or_ge x.toNat (2 ^ (w - 1)) with h | h
        · exact absurd ((topbit_clear_iff hw x).mpr h) ht
        · exact h
      rw [bitLen_top (by omega) hge x.isLt]; simp

/-- **clz_template** counts the leading zeros: `w − bitLen` (and `w` for 0) -/
theorem clzTemplate_eq {w : Nat} (x : BitVec w) : clzTemplate x = some (w - bitLen w x.toNat) := by
  unfold clzTemplate
  by_cases hx : x = 0#w
  · subst hx; simp
  · simp only [hx, if_false]
    have hw : 0 < w := by
      rcases Nat.eq_zero_or_pos w with h | h
      · subst h; exact absurd (BitVec.eq_nil x |>.trans (BitVec.eq_nil 0#0).symm) hx
      · exact h
    have hn : x.toNat ≠ 0 := by
      intro h; apply hx; apply BitVec.eq_of_toNat_eq; simpa using h
    have hp := bitLen_pos hn (by omega : w ≠ 0)
    rw [clzLoop_spec w x 0 hx (by omega)]; simp


/-! ### ctz / ffs -/

theorem pos_of_ne_zero {w : Nat} {x : BitVec w} (hx : x ≠ 0#w) : 0 < w ∧ x.toNat ≠ 0 := by
  constructor
  · rcases Nat.eq_zero_or_pos w with h | h
    · subst h; exact absurd (BitVec.eq_nil x |>.trans (BitVec.eq_nil 0#0).symm) hx
    · exact h
  · intro h; apply hx; apply BitVec.eq_of_toNat_eq; simpa using h

theorem two_pow_pred {w : Nat} (hw : 0 < w) : 2 ^ w = 2 * 2 ^ (w - 1) := by
  have : w = (w - 1) + 1 := by omega
  rw [this, Nat.pow_succ]; simp; omega

/-- the test `(x & 1) == 0` -/
theorem lowbit_clear_iff {w : Nat} (hw : 0 < w) (x : BitVec w) :
    x &&& 1#w = 0#w ↔ x.toNat % 2 = 0 := by
  rw [BitVec.toNat_eq, BitVec.toNat_and]
  have : (1#w).toNat = 1 := by simp [Nat.one_mod_two_pow hw]
  rw [this, Nat.and_one_is_mod]; simp

/-- one C++ right shift of an even pattern: the low `w-1` bits are those of `n/2`
    (the arithmetic shift of a signed type only adds the sign bit on top) -/
theorem shr_one_low {w : Nat} (hw : 0 < w) (sg : Bool) (x : BitVec w) (he : x.toNat % 2 = 0) :
    (shr sg x 1).toNat % 2 ^ (w - 1) = (x.toNat / 2) % 2 ^ (w - 1) ∧ x.toNat / 2 ≤ (shr sg x 1).toNat := by
  have hp := two_pow_pred hw
  have hlt := x.isLt
  unfold shr
  cases sg with
  | false =>
    simp [BitVec.toNat_ushiftRight, Nat.shiftRight_eq_div_pow]
  | true =>
    simp only [if_true, BitVec.toNat_sshiftRight, Nat.shiftRight_eq_div_pow, Nat.pow_one]
    split
    · have e : 2 ^ w - 1 - (2 ^ w - 1 - x.toNat) / 2 = x.toNat / 2 + 2 ^ (w - 1) := by omega
      rw [e]
      exact ⟨by simp, by omega⟩
    · exact ⟨rfl, Nat.le_refl _⟩

theorem ctzLoop_spec {w : Nat} (sg : Bool) (fuel : Nat) (x : BitVec w) (r : Nat) (hx : x ≠ 0#w)
    (hf : ctzB w x.toNat < fuel) :
    ctzLoop sg fuel x r = some (r + ctzB w x.toNat) := by
  have hw := (pos_of_ne_zero hx).1
  induction fuel generalizing x r with
  | zero => omega
  | succ fuel ih =>
    have hn := (pos_of_ne_zero hx).2
    obtain ⟨w0, rfl⟩ : ∃ w0, w = w0 + 1 := ⟨w - 1, by omega⟩
    simp only [ctzLoop]
    by_cases ht : x &&& 1#(w0 + 1) = 0#(w0 + 1)
    · simp only [ht, if_true]
      have he := (lowbit_clear_iff hw x).mp ht
      have hne1 : ¬ x.toNat % 2 = 1 := by omega
      have hc : ctzB (w0 + 1) x.toNat = 1 + ctzB w0 (x.toNat / 2) := by simp [ctzB, hne1]
      obtain ⟨hlow, hge⟩ := shr_one_low hw sg x he
      simp only [Nat.add_sub_cancel] at hlow
      have hhalf_lt : x.toNat / 2 < 2 ^ w0 := by
        have := x.isLt; rw [Nat.pow_succ] at this; omega
      have hhalf_ne : x.toNat / 2 ≠ 0 := by omega
      have hcong : ctzB (w0 + 1) (shr sg x 1).toNat = ctzB w0 (x.toNat / 2) :=
        ctzB_congr (k := w0) (by omega) (Nat.le_refl _) hlow (by
          rw [hlow, Nat.mod_eq_of_lt hhalf_lt]; exact hhalf_ne)
      have hx' : shr sg x 1 ≠ 0#(w0 + 1) := by
        intro h; have := congrArg BitVec.toNat h; simp at this; omega
      rw [ih (shr sg x 1) (r + 1) hx' (by rw [hcong]; omega), hcong, hc]
      congr 1; omega
    · simp only [ht, if_false]
      have ho : x.toNat % 2 = 1 := by
        rcases Nat.mod_two_eq_zero_or_one x.toNat with h | h
        · exact absurd ((lowbit_clear_iff hw x).mpr h) ht
        · exact h
      simp [ctzB, ho]

/-- **ctz_template** (signed and unsigned instantiations) counts the trailing zeros (`w` for 0) -/
theorem ctzTemplate_eq {w : Nat} (sg : Bool) (x : BitVec w) :
    ctzTemplate sg x = some (ctzB w x.toNat) := by
  unfold ctzTemplate
  by_cases hx : x = 0#w
  · subst hx; simp
  · simp only [hx, if_false]
    obtain ⟨hw, hn⟩ := pos_of_ne_zero hx
    have hlt : ctzB w x.toNat < w := by
      have h := (ctzB_spec hn x.isLt).1
      have hle := ctzB_le w x.toNat
      rcases Nat.lt_or_ge (ctzB w x.toNat) w with h' | h'
      · exact h'
      · have e : ctzB w x.toNat = w := by omega
        rw [e] at h
        have := Nat.le_of_dvd (by omega) h
        have := x.isLt; omega
    rw [ctzLoop_spec sg w x 0 hx hlt]; simp

/-- **ffs_template**: one plus the index of the least significant one bit, 0 for 0 -/
theorem ffsTemplate_eq {w : Nat} (sg : Bool) (x : BitVec w) : ffsTemplate sg x = some (specFfs x) := by
  unfold ffsTemplate specFfs
  by_cases hx : x = 0#w
  · subst hx; simp
  · simp only [hx, if_false]
    obtain ⟨hw, hn⟩ := pos_of_ne_zero hx
    have hlt : ctzB w x.toNat < w := by
      have h := (ctzB_spec hn x.isLt).1
      have hle := ctzB_le w x.toNat
      rcases Nat.lt_or_ge (ctzB w x.toNat) w with h' | h'
      · exact h'
      · have e : ctzB w x.toNat = w := by omega
        rw [e] at h
        have := Nat.le_of_dvd (by omega) h
        have := x.isLt; omega
    rw [ctzLoop_spec sg w x 1 hx hlt]; simp [hn]; omega


/-! ### round_up_to_power_of_two / round_down_to_power_of_two (bit smearing) -/

/-- the value is non-negative when the type is signed -/
def NonNeg (sg : Bool) (x : BitVec w) : Prop := sg = true → x.toNat < 2 ^ (w - 1)

theorem shr_toNat {w : Nat} (sg : Bool) (x : BitVec w) (k : Nat) (h : NonNeg sg x) :
    (shr sg x k).toNat = x.toNat >>> k := by
  unfold shr
  cases sg with
  | false => simp
  | true =>
    have hm : x.msb = false := by
      rw [BitVec.msb_eq_decide]; have := h rfl; simp; omega
    simp [BitVec.sshiftRight_eq_of_msb_false hm]

theorem smearLoop_spec {w : Nat} (m : Nat) (hw : w = 2 ^ m) (sg : Bool) (n0 : Nat)
    (hn0 : n0 < 2 ^ w) (hnn : sg = true → n0 < 2 ^ (w - 1)) (j fuel : Nat) (hj : j ≤ m)
    (hf : m - j < fuel) (x : BitVec w) (hx : x.toNat = orShifts n0 (2 ^ j)) :
    ∃ r, smearLoop sg fuel (2 ^ j) x = some r ∧ r.toNat = orShifts n0 w := by
  induction fuel generalizing j x with
  | zero => omega
  | succ fuel ih =>
    simp only [smearLoop]
    by_cases e : j = m
    · subst e; subst hw; simp only [if_true]; exact ⟨x, rfl, hx⟩
    · have hne : ¬ 2 ^ j = w := by
        subst hw
        intro h
        rcases Nat.lt_or_ge j m with h' | h'
        · have := Nat.pow_lt_pow_right (a := 2) (by omega) h'; omega
        · omega
      simp only [hne, if_false]
      have e1 : 2 ^ j <<< 1 = 2 ^ (j + 1) := by rw [Nat.shiftLeft_eq, Nat.pow_one, Nat.pow_succ]
      rw [e1]
      apply ih (j + 1) (by omega) (by omega)
      have hnnx : NonNeg sg x := by
        intro hs; rw [hx]; exact orShifts_lt (hnn hs) _
      rw [BitVec.toNat_or, shr_toNat sg x _ hnnx, hx, orShifts_double,
        show 2 * 2 ^ j = 2 ^ (j + 1) by rw [Nat.pow_succ]; omega]

theorem smearLoop_eq {w : Nat} (m : Nat) (hw : w = 2 ^ m) (sg : Bool) (x : BitVec w)
    (hnn : NonNeg sg x) :
    ∃ r, smearLoop sg (w + 1) 1 x = some r ∧ r.toNat = 2 ^ bitLen w x.toNat - 1 := by
  have hm : m < 2 ^ m := Nat.lt_two_pow_self
  obtain ⟨r, h1, h2⟩ := smearLoop_spec m hw sg x.toNat x.isLt hnn 0 (w + 1) (by omega) (by omega) x
    (by simp [orShifts_one])
  exact ⟨r, by simpa using h1, by rw [h2, orShifts_full x.isLt]⟩

/-- `r` is the largest power of two not exceeding `n` -/
def IsPow2Floor (r n : Nat) : Prop := (∃ k, r = 2 ^ k) ∧ r ≤ n ∧ n < 2 * r
/-- `r` is the smallest power of two not below `n` -/
def IsPow2Ceil (r n : Nat) : Prop := (∃ k, r = 2 ^ k) ∧ n ≤ r ∧ ∀ k, n ≤ 2 ^ k → r ≤ 2 ^ k

/-- **round_down_to_power_of_two** (repaired code), every width `2^m`, signed and unsigned:
    for every `n ≥ 1` of the type (non-negative if signed) the result is the largest power of
    two `≤ n`; `0 ↦ 0`. -/
theorem roundDownPow2Template_eq {w : Nat} (m : Nat) (hw : w = 2 ^ m) (sg : Bool) (n : BitVec w)
    (hnn : NonNeg sg n) :
    ∃ r, roundDownPow2Template sg n = some r ∧
      (n.toNat = 0 → r.toNat = 0) ∧ (n.toNat ≠ 0 → IsPow2Floor r.toNat n.toNat) := by
  obtain ⟨s, h1, h2⟩ := smearLoop_eq m hw sg n hnn
  have hw0 : 0 < w := by subst hw; exact Nat.pow_pos (by omega)
  have hb := bitLen_le w n.toNat
  have hslt : s.toNat < 2 ^ w := s.isLt
  have hnns : NonNeg sg s := by
    intro hs
    rw [h2]
    have hlt := hnn hs
    have : bitLen w n.toNat ≤ w - 1 := by
      by_cases hn : n.toNat = 0
      · rw [hn]; simp
      · have := (bitLen_spec hn n.isLt).1
        rcases Nat.lt_or_ge (bitLen w n.toNat) w with h | h
        · omega
        · have e : bitLen w n.toNat = w := by omega
          rw [e] at this; omega
    have := Nat.pow_le_pow_right (n := 2) (by omega) this
    have : 0 < 2 ^ bitLen w n.toNat := Nat.pow_pos (by omega)
    omega
  refine ⟨s - shr sg s 1, by simp [roundDownPow2Template, h1, bind, Option.bind], ?_, ?_⟩
  · intro hn
    rw [BitVec.toNat_sub, shr_toNat sg s 1 hnns, h2, hn]; simp
  · intro hn
    obtain ⟨s1, s2⟩ := bitLen_spec hn n.isLt
    have hp := bitLen_pos hn (by omega : w ≠ 0)
    have e : 2 ^ bitLen w n.toNat = 2 * 2 ^ (bitLen w n.toNat - 1) := two_pow_pred hp
    have hpos : 0 < 2 ^ (bitLen w n.toNat - 1) := Nat.pow_pos (by omega)
    have hr : (s - shr sg s 1).toNat = 2 ^ (bitLen w n.toNat - 1) := by
      rw [BitVec.toNat_sub, shr_toNat sg s 1 hnns, h2, Nat.shiftRight_eq_div_pow, Nat.pow_one]
      have hle : 2 ^ bitLen w n.toNat ≤ 2 ^ w := Nat.pow_le_pow_right (by omega) hb
      have : (2 ^ w - (2 ^ bitLen w n.toNat - 1) / 2 + (2 ^ bitLen w n.toNat - 1)) =
          2 ^ w + 2 ^ (bitLen w n.toNat - 1) := by omega
      rw [this, Nat.add_mod_left, Nat.mod_eq_of_lt (by omega)]
    rw [hr]
    exact ⟨⟨_, rfl⟩, s1, by omega⟩


/-- **round_up_to_power_of_two_template**, every width `2^m`, signed and unsigned: for
    `1 ≤ n ≤ 2^(w-1)` (non-negative if signed) the result is the smallest power of two `≥ n`. -/
theorem roundUpPow2Template_eq {w : Nat} (m : Nat) (hw : w = 2 ^ m) (sg : Bool) (n : BitVec w)
    (hnn : NonNeg sg n) (h1 : 1 ≤ n.toNat) (hrep : n.toNat ≤ 2 ^ (w - 1)) :
    ∃ r, roundUpPow2Template sg n = some r ∧ IsPow2Ceil r.toNat n.toNat := by
  have hw0 : 0 < w := by subst hw; exact Nat.pow_pos (by omega)
  have hpw := two_pow_pred hw0
  have hone : (1#w).toNat = 1 := by simp [Nat.one_mod_two_pow hw0]
  have hpred : (n - 1#w).toNat = n.toNat - 1 := by
    rw [BitVec.toNat_sub, hone]
    have := n.isLt
    have : 2 ^ w - 1 + n.toNat = 2 ^ w + (n.toNat - 1) := by omega
    rw [this, Nat.add_mod_left, Nat.mod_eq_of_lt (by omega)]
  have hnn' : NonNeg sg (n - 1#w) := by
    intro hs; rw [hpred]; have := hnn hs; omega
  obtain ⟨s, hs1, hs2⟩ := smearLoop_eq m hw sg (n - 1#w) hnn'
  rw [hpred] at hs2
  -- b = bitLen (n-1) < w because n-1 < 2^(w-1)
  have hb : bitLen w (n.toNat - 1) ≤ w - 1 := by
    by_cases h0 : n.toNat - 1 = 0
    · rw [h0]; simp
    · have hlt : n.toNat - 1 < 2 ^ w := by have := n.isLt; omega
      have := (bitLen_spec h0 hlt).1
      rcases Nat.lt_or_ge (bitLen w (n.toNat - 1)) w with h | h
      · omega
      · have e : bitLen w (n.toNat - 1) = w := by have := bitLen_le w (n.toNat - 1); omega
        rw [e] at this; omega
  have hpos : 0 < 2 ^ bitLen w (n.toNat - 1) := Nat.pow_pos (by omega)
  have hlt2 : 2 ^ bitLen w (n.toNat - 1) < 2 ^ w := by
    have := Nat.pow_le_pow_right (n := 2) (by omega) hb
    have : 0 < 2 ^ (w - 1) := Nat.pow_pos (by omega)
    omega
  have hr : (s + 1#w).toNat = 2 ^ bitLen w (n.toNat - 1) := by
    rw [BitVec.toNat_add, hone, hs2]
    have : 2 ^ bitLen w (n.toNat - 1) - 1 + 1 = 2 ^ bitLen w (n.toNat - 1) := by omega
    rw [this, Nat.mod_eq_of_lt hlt2]
  refine ⟨s + 1#w, by simp [roundUpPow2Template, hs1, bind, Option.bind], ?_⟩
  rw [hr]
  refine ⟨⟨_, rfl⟩, ?_, ?_⟩
  · have := lt_two_pow_bitLen (w := w) (n := n.toNat - 1) (by have := n.isLt; omega)
    omega
  · intro k hk
    apply Nat.pow_le_pow_right (by omega)
    by_cases h0 : n.toNat - 1 = 0
    · rw [h0]; simp
    · have hlt : n.toNat - 1 < 2 ^ w := by have := n.isLt; omega
      have h2 := (bitLen_spec h0 hlt).1
      have : 2 ^ (bitLen w (n.toNat - 1) - 1) < 2 ^ k := by omega
      have := (Nat.pow_lt_pow_iff_right (by omega : 1 < 2)).mp this
      omega


/-! ### div_ceil / round_up / abs_diff / sgn -/

theorem msb_false_of_nonneg {w : Nat} {x : BitVec w} (h : NonNeg true x) : x.msb = false := by
  rw [BitVec.msb_eq_decide]; have := h rfl; simp; omega

theorem cdiv_toNat {v : Nat} (s : Bool) (a b : BitVec v) (ha : NonNeg s a) (hb : NonNeg s b) :
    (cdiv s a b).toNat = a.toNat / b.toNat := by
  unfold cdiv
  cases s with
  | false => simp
  | true =>
    simp only [if_true, BitVec.sdiv_eq, msb_false_of_nonneg ha, msb_false_of_nonneg hb]
    simp

theorem cmod_toNat {v : Nat} (s : Bool) (a b : BitVec v) (ha : NonNeg s a) (hb : NonNeg s b) :
    (cmod s a b).toNat = a.toNat % b.toNat := by
  unfold cmod
  cases s with
  | false => simp
  | true =>
    simp only [if_true, BitVec.srem_eq, msb_false_of_nonneg ha, msb_false_of_nonneg hb]
    simp

theorem clt_zero {v : Nat} (s : Bool) (r : BitVec v) (hr : NonNeg s r) :
    clt s (0 : BitVec v) r = decide (0 < r.toNat) := by
  unfold clt
  cases s with
  | false => simp [BitVec.ult]
  | true =>
    simp only [if_true, BitVec.slt_eq_decide, BitVec.toInt_eq_toNat_of_msb (msb_false_of_nonneg hr)]
    simp

/-- `div_ceil` on already promoted operands -/
def divCeilCore {v : Nat} (s : Bool) (n k : BitVec v) : BitVec v :=
  cdiv s n k + (if clt s 0 (cmod s n k) then 1 else 0)

theorem divCeilCore_toNat {v : Nat} (hv : 0 < v) (s : Bool) (n k : BitVec v) (hn : NonNeg s n)
    (hk : NonNeg s k) (hk0 : k.toNat ≠ 0) :
    (divCeilCore s n k).toNat = n.toNat / k.toNat + (if 0 < n.toNat % k.toNat then 1 else 0) := by
  have hkpos : 0 < k.toNat := by omega
  have hmodlt := Nat.mod_lt n.toNat hkpos
  have hnnr : NonNeg s (cmod s n k) := by
    intro hs; rw [cmod_toNat s n k hn hk]; have := hk hs; omega
  have hle := ceil_le_self n.toNat k.toNat hkpos
  have hone : (1 : BitVec v).toNat = 1 := by simp [Nat.one_mod_two_pow hv]
  have hzero : (0 : BitVec v).toNat = 0 := by simp
  unfold divCeilCore
  rw [clt_zero s _ hnnr, cmod_toNat s n k hn hk, BitVec.toNat_add, cdiv_toNat s n k hn hk]
  by_cases hr : 0 < n.toNat % k.toNat
  · simp only [hr, decide_true, if_true] at hle ⊢
    rw [hone, Nat.mod_eq_of_lt (by have := n.isLt; omega)]
  · simp only [hr, decide_false, if_false] at hle ⊢
    simp only [Bool.false_eq_true, if_false]
    rw [hzero, Nat.add_zero]
    exact Nat.mod_eq_of_lt (by have := n.isLt; omega)

theorem promW_ge (w : Nat) : w ≤ promW w := by unfold promW; split <;> omega
theorem promW_pos (w : Nat) : 0 < promW w := by unfold promW; split <;> omega

/-- integral promotion keeps the value of a non-negative operand -/
theorem prom_toNat {w : Nat} (sg : Bool) (x : BitVec w) (h : NonNeg sg x) :
    (prom sg x).toNat = x.toNat := by
  have hge := promW_ge w
  have hlt : x.toNat < 2 ^ promW w :=
    Nat.lt_of_lt_of_le x.isLt (Nat.pow_le_pow_right (by omega) hge)
  unfold prom
  cases sg with
  | false => simp [BitVec.toNat_setWidth, Nat.mod_eq_of_lt hlt]
  | true =>
    simp only [if_true, BitVec.signExtend_eq_setWidth_of_msb_false (msb_false_of_nonneg h),
      BitVec.toNat_setWidth, Nat.mod_eq_of_lt hlt]

theorem prom_nonneg {w : Nat} (sg : Bool) (x : BitVec w) (h : NonNeg sg x) :
    NonNeg (promSg w sg) (prom sg x) := by
  intro hs
  rw [prom_toNat sg x h]
  unfold promSg at hs
  unfold promW
  by_cases hw : w < 32
  · simp only [hw, if_true]
    have : x.toNat < 2 ^ w := x.isLt
    have : 2 ^ w ≤ 2 ^ 31 := Nat.pow_le_pow_right (by omega) (by omega)
    omega
  · simp only [hw, if_false] at hs ⊢
    exact h hs

/-- **div_ceil** (repaired code): for every `n ≥ 0`, `k > 0` of every width and signedness the
    result is `⌈n/k⌉` — no overflow anywhere in the range. -/
theorem divCeil_eq {w : Nat} (sg : Bool) (n k : BitVec w) (hn : NonNeg sg n) (hk : NonNeg sg k)
    (hk0 : k.toNat ≠ 0) :
    IsCeilDiv (divCeil sg n k).toNat n.toNat k.toNat ∧ NonNeg (promSg w sg) (divCeil sg n k) := by
  have h := divCeilCore_toNat (promW_pos w) (promSg w sg) (prom sg n) (prom sg k)
    (prom_nonneg sg n hn) (prom_nonneg sg k hk) (by rw [prom_toNat sg k hk]; exact hk0)
  rw [prom_toNat sg n hn, prom_toNat sg k hk] at h
  have hd : divCeil sg n k = divCeilCore (promSg w sg) (prom sg n) (prom sg k) := rfl
  rw [hd, h]
  refine ⟨ceil_spec n.toNat k.toNat (by omega), ?_⟩
  intro hs
  rw [h]
  have := ceil_le_self n.toNat k.toNat (by omega)
  have := prom_nonneg sg n hn hs
  rw [prom_toNat sg n hn] at this
  omega


/-- **round_up** (repaired code): the least multiple of `k` that is `≥ n`, whenever it is
    representable in the result type -/
theorem roundUp_eq {w : Nat} (sg : Bool) (n k : BitVec w) (hn : NonNeg sg n) (hk : NonNeg sg k)
    (hk0 : k.toNat ≠ 0) (q : Nat) (hq : IsCeilDiv q n.toNat k.toNat)
    (hrep : q * k.toNat < 2 ^ promW w) : (roundUp sg n k).toNat = q * k.toNat := by
  obtain ⟨⟨h1, h2⟩, _⟩ := divCeil_eq sg n k hn hk hk0
  have e : (divCeil sg n k).toNat = q := Nat.le_antisymm (h2 q hq.1) (hq.2 _ h1)
  unfold roundUp
  rw [BitVec.toNat_mul, e, prom_toNat sg k hk, Nat.mod_eq_of_lt hrep]

/-- **abs_diff**, unsigned instantiations: `|a − b|` for all values -/
theorem absDiff_unsigned {w : Nat} (a b : BitVec w) :
    (absDiff false a b).toNat = if b.toNat < a.toNat then a.toNat - b.toNat else b.toNat - a.toNat := by
  unfold absDiff clt
  simp only [Bool.false_eq_true, if_false, BitVec.ult, decide_eq_true_eq]
  have ha := a.isLt
  have hb := b.isLt
  split
  · rw [BitVec.toNat_sub]
    have : 2 ^ w - b.toNat + a.toNat = 2 ^ w + (a.toNat - b.toNat) := by omega
    rw [this, Nat.add_mod_left, Nat.mod_eq_of_lt (by omega)]
  · rw [BitVec.toNat_sub]
    have : 2 ^ w - a.toNat + b.toNat = 2 ^ w + (b.toNat - a.toNat) := by omega
    rw [this, Nat.add_mod_left, Nat.mod_eq_of_lt (by omega)]

/-- **abs_diff**, signed instantiations: `|a − b|` whenever that is representable -/
theorem absDiff_signed {w : Nat} (hw : 0 < w) (a b : BitVec w)
    (hrep : (if b.toInt < a.toInt then a.toInt - b.toInt else b.toInt - a.toInt) < 2 ^ (w - 1)) :
    (absDiff true a b).toInt = if b.toInt < a.toInt then a.toInt - b.toInt else b.toInt - a.toInt := by
  unfold absDiff clt
  simp only [if_true, BitVec.slt_eq_decide, decide_eq_true_eq]
  have hp : ((2 ^ w : Nat) : Int) = 2 * 2 ^ (w - 1) := by
    have := two_pow_pred hw
    rw [this]; simp [Int.natCast_pow]
  have hpos : (0 : Int) < 2 ^ (w - 1) := Int.pow_pos (by omega)
  split
  · next h =>
    simp only [h, if_true] at hrep
    rw [BitVec.toInt_sub]
    apply Int.bmod_eq_of_le <;> omega
  · next h =>
    simp only [h, if_false] at hrep
    rw [BitVec.toInt_sub]
    apply Int.bmod_eq_of_le <;> omega

/-- **sgn**: −1, 0, +1 according to the sign of the mathematical value, for every value -/
theorem sgn_eq {w : Nat} (sg : Bool) (v : BitVec w) :
    sgn sg v = if val sg v > 0 then 1 else if val sg v < 0 then -1 else 0 := by
  unfold sgn clt val
  cases sg with
  | false =>
    simp only [Bool.false_eq_true, if_false, BitVec.ult, BitVec.toNat_ofNat, Nat.zero_mod]
    by_cases h : 0 < v.toNat <;> simp [h] <;> omega
  | true =>
    simp only [if_true, BitVec.slt_eq_decide, BitVec.toInt_zero, decide_eq_true_eq]
    by_cases h : 0 < v.toInt
    · have : ¬ v.toInt < 0 := by omega
      simp [h, this]
    · by_cases h' : v.toInt < 0 <;> simp [h, h']


/-! ### integer_log2_floor_template -/

theorem val_nonneg_eq {w : Nat} (sg : Bool) (x : BitVec w) (h : NonNeg sg x) :
    val sg x = (x.toNat : Int) := by
  unfold val
  cases sg with
  | false => simp
  | true => simp [BitVec.toInt_eq_toNat_of_msb (msb_false_of_nonneg h)]

theorem shr_nonneg {w : Nat} (sg : Bool) (x : BitVec w) (k : Nat) (h : NonNeg sg x) :
    NonNeg sg (shr sg x k) := by
  intro hs
  rw [shr_toNat sg x k h]
  exact Nat.lt_of_le_of_lt (Nat.shiftRight_le _ _) (h hs)

/-- the quantity both loops keep invariant: `p + ⌊log₂ i⌋` (just `p` for `i = 0`) -/
def logQ (w : Nat) (i : BitVec w) (p : Nat) : Nat := p + (bitLen w i.toNat - 1)

theorem log2LoopA_spec {w : Nat} (sg : Bool) (s : Nat) (hs : 1 ≤ s) (fuel : Nat) (i : BitVec w)
    (p : Nat) (hnn : NonNeg sg i) (hf : bitLen w i.toNat < fuel) :
    ∃ i' p', log2LoopA sg ((2 ^ s : Nat) : Int) s fuel i p = some (i', p') ∧ NonNeg sg i' ∧
      logQ w i' p' = logQ w i p := by
  induction fuel generalizing i p with
  | zero => omega
  | succ fuel ih =>
    simp only [log2LoopA, val_nonneg_eq sg i hnn]
    by_cases h : ((2 ^ s : Nat) : Int) ≤ (i.toNat : Int)
    · have h' : 2 ^ s ≤ i.toNat := by exact_mod_cast h
      have hge : (i.toNat : Int) ≥ ((2 ^ s : Nat) : Int) := h
      simp only [hge, if_true]
      have hb := bitLen_ge_of_le i.isLt h'
      have hsh : bitLen w (shr sg i s).toNat = bitLen w i.toNat - s := by
        rw [shr_toNat sg i s hnn, bitLen_shiftRight i.isLt]
      obtain ⟨i', p', e, hn', hq⟩ := ih (shr sg i s) (p + s) (shr_nonneg sg i s hnn) (by rw [hsh]; omega)
      refine ⟨i', p', e, hn', ?_⟩
      rw [hq]; unfold logQ; rw [hsh]; omega
    · have hge : ¬ (i.toNat : Int) ≥ ((2 ^ s : Nat) : Int) := h
      simp only [hge, if_false]
      exact ⟨i, p, rfl, hnn, rfl⟩

theorem log2LoopB_spec {w : Nat} (sg : Bool) (fuel : Nat) (i : BitVec w) (p : Nat)
    (hnn : NonNeg sg i) (hf : bitLen w i.toNat < fuel) :
    log2LoopB sg fuel i p = some (logQ w i p) := by
  induction fuel generalizing i p with
  | zero => omega
  | succ fuel ih =>
    simp only [log2LoopB]
    have hsh : (shr sg i 1).toNat = i.toNat / 2 := by
      rw [shr_toNat sg i 1 hnn, Nat.shiftRight_eq_div_pow, Nat.pow_one]
    have hbl := bitLen_half i.isLt
    by_cases h : shr sg i 1 = 0#w
    · simp only [h, ne_eq, not_true_eq_false, if_false]
      have : i.toNat / 2 = 0 := by rw [← hsh, h]; simp
      unfold logQ
      rw [this] at hbl; simp at hbl
      congr 1; omega
    · simp only [ne_eq, h, not_false_eq_true, if_true]
      have hne : i.toNat / 2 ≠ 0 := by
        intro h0; apply h; apply BitVec.eq_of_toNat_eq; rw [hsh, h0]; simp
      have hw : w ≠ 0 := by
        intro h0; subst h0; have := i.isLt; simp at this; omega
      have hpos := bitLen_pos (w := w) hne hw
      rw [ih (shr sg i 1) (p + 1) (shr_nonneg sg i 1 hnn) (by rw [hsh, hbl]; omega)]
      unfold logQ
      rw [hsh, hbl]; congr 1; omega

/-- **integer_log2_floor_template**, every width, signed and unsigned: for non-negative `i` the
    three loops terminate and return `bitLen i − 1`, which is `⌊log₂ i⌋` for `i ≥ 1` (and 0 for 0) -/
theorem log2FloorTemplate_eq {w : Nat} (sg : Bool) (i : BitVec w) (hnn : NonNeg sg i) :
    log2FloorTemplate sg i = some (bitLen w i.toNat - 1) := by
  have hb := bitLen_le w i.toNat
  obtain ⟨i1, p1, e1, hn1, q1⟩ := log2LoopA_spec sg 16 (by omega) (w + 1) i 0 hnn (by omega)
  obtain ⟨i2, p2, e2, hn2, q2⟩ := log2LoopA_spec sg 8 (by omega) (w + 1) i1 p1 hn1
    (by have := bitLen_le w i1.toNat; omega)
  have e3 := log2LoopB_spec sg (w + 1) i2 p2 hn2 (by have := bitLen_le w i2.toNat; omega)
  have c16 : ((2 ^ 16 : Nat) : Int) = 65536 := by decide
  have c8 : ((2 ^ 8 : Nat) : Int) = 256 := by decide
  rw [c16] at e1; rw [c8] at e2
  simp only [log2FloorTemplate, e1, e2, e3, bind, Option.bind]
  rw [q2, q1]; simp [logQ]

theorem log2FloorTemplate_log2 {w : Nat} (sg : Bool) (i : BitVec w) (hnn : NonNeg sg i)
    (h1 : i.toNat ≠ 0) : log2FloorTemplate sg i = some (Nat.log2 i.toNat) := by
  rw [log2FloorTemplate_eq sg i hnn, bitLen_eq_log2 h1 i.isLt]; simp


/-! ### is_power_of_two_template -/

/-- **is_power_of_two_template**, every width, signed and unsigned, every value (negative ones
    included): true exactly for the powers of two -/
theorem isPow2Template_iff {w : Nat} (sg : Bool) (i : BitVec w) :
    isPow2Template sg i = true ↔ ∃ k : Nat, val sg i = (2 : Int) ^ k := by
  unfold isPow2Template
  by_cases hle : val sg i ≤ 0
  · simp only [hle, if_true, Bool.false_eq_true, false_iff]
    rintro ⟨k, hk⟩
    have : (0 : Int) < 2 ^ k := Int.pow_pos (by omega)
    omega
  · simp only [hle, if_false, decide_eq_true_eq]
    -- the value is positive: the pattern is non-negative and non-zero
    have hnn : NonNeg sg i := by
      intro hs; subst hs
      unfold val at hle; simp only [if_true] at hle
      rcases Nat.lt_or_ge i.toNat (2 ^ (w - 1)) with h | h
      · exact h
      · have hm : i.msb = true := by rw [BitVec.msb_eq_decide]; simp [h]
        have := BitVec.toInt_neg_of_msb_true hm
        omega
    have hv := val_nonneg_eq sg i hnn
    rw [hv] at hle ⊢
    have hpos : 0 < i.toNat := by omega
    have hw : 0 < w := by
      rcases Nat.eq_zero_or_pos w with h | h
      · subst h; have := i.isLt; simp at this; omega
      · exact h
    have hone : (1#w).toNat = 1 := by simp [Nat.one_mod_two_pow hw]
    have hpred : (i - 1#w).toNat = i.toNat - 1 := by
      rw [BitVec.toNat_sub, hone]
      have := i.isLt
      have : 2 ^ w - 1 + i.toNat = 2 ^ w + (i.toNat - 1) := by omega
      rw [this, Nat.add_mod_left, Nat.mod_eq_of_lt (by omega)]
    rw [BitVec.toNat_eq, BitVec.toNat_and, hpred]
    simp only [BitVec.toNat_ofNat, Nat.zero_mod]
    rw [and_pred_eq_zero_iff _ hpos]
    constructor
    · rintro ⟨k, hk⟩; exact ⟨k, by rw [hk]; simp [Int.natCast_pow]⟩
    · rintro ⟨k, hk⟩; exact ⟨k, by
        have : ((i.toNat : Nat) : Int) = ((2 ^ k : Nat) : Int) := by rw [hk]; simp [Int.natCast_pow]
        exact_mod_cast this⟩


/-! ### rol / ror generic -/

/-- the two shift counts computed by `rol*_generic` / `ror*_generic` in `int` arithmetic:
    `i & (w-1)` and `(w - (i & (w-1))) & (w-1)` -/
theorem rot_counts {w : Nat} (m : Nat) (hw : w = 2 ^ m) (hm : m < 32) (i : BitVec 32) :
    let msk : BitVec 32 := BitVec.ofNat 32 (w - 1)
    (i &&& msk).toNat = i.toNat % w ∧
    ((BitVec.ofNat 32 w - (i &&& msk)) &&& msk).toNat = (w - i.toNat % w) % w := by
  intro msk
  have hwlt : w < 2 ^ 32 := by subst hw; exact Nat.pow_lt_pow_right (by omega) hm
  have hwpos : 0 < w := by subst hw; exact Nat.pow_pos (by omega)
  have hmsk : msk.toNat = 2 ^ m - 1 := by
    simp only [msk, BitVec.toNat_ofNat, hw]; exact Nat.mod_eq_of_lt (by omega)
  have h1 : (i &&& msk).toNat = i.toNat % w := by
    rw [BitVec.toNat_and, hmsk, Nat.and_two_pow_sub_one_eq_mod, hw]
  refine ⟨h1, ?_⟩
  have hs : i.toNat % w < w := Nat.mod_lt _ hwpos
  rw [BitVec.toNat_and, hmsk, Nat.and_two_pow_sub_one_eq_mod, BitVec.toNat_sub, h1,
    BitVec.toNat_ofNat, Nat.mod_eq_of_lt hwlt, ← hw]
  have : 2 ^ 32 - i.toNat % w + w = 2 ^ 32 + (w - i.toNat % w) := by omega
  rw [this, Nat.add_mod_left, Nat.mod_eq_of_lt (a := w - i.toNat % w) (b := 2 ^ 32) (by omega)]

/-- **rol32_generic / rol64_generic** equal the rotate-left instruction (count taken modulo the
    width) for every value and every shift count, negative ones included -/
theorem rolGeneric_eq {w : Nat} (m : Nat) (hw : w = 2 ^ m) (hm : m < 32) (x : BitVec w) (i : BitVec 32) :
    rolGeneric x i = specRol x i := by
  obtain ⟨h1, h2⟩ := rot_counts m hw hm i
  unfold rolGeneric specRol
  simp only [h1, h2, BitVec.rotateLeft_def, Nat.mod_mod]
  have hwpos : 0 < w := by subst hw; exact Nat.pow_pos (by omega)
  by_cases h0 : i.toNat % w = 0
  · simp [h0, BitVec.ushiftRight_eq_zero]
  · have hs : i.toNat % w < w := Nat.mod_lt _ hwpos
    rw [Nat.mod_eq_of_lt (by omega : w - i.toNat % w < w)]

theorem rorGeneric_eq {w : Nat} (m : Nat) (hw : w = 2 ^ m) (hm : m < 32) (x : BitVec w) (i : BitVec 32) :
    rorGeneric x i = specRor x i := by
  obtain ⟨h1, h2⟩ := rot_counts m hw hm i
  unfold rorGeneric specRor
  simp only [h1, h2, BitVec.rotateRight_def, Nat.mod_mod]
  have hwpos : 0 < w := by subst hw; exact Nat.pow_pos (by omega)
  by_cases h0 : i.toNat % w = 0
  · simp [h0, BitVec.shiftLeft_eq_zero]
  · have hs : i.toNat % w < w := Nat.mod_lt _ hwpos
    rw [Nat.mod_eq_of_lt (by omega : w - i.toNat % w < w)]

/-- what a rotation is: bit `j` of `rol(x, i)` is bit `(j − i) mod w` of `x` -/
theorem specRol_getLsbD {w : Nat} (x : BitVec w) (i : BitVec 32) (j : Nat) (hj : j < w) :
    (specRol x i).getLsbD j = x.getLsbD ((j + (w - i.toNat % w)) % w) := by
  unfold specRol
  have e : i.toNat % w % w = i.toNat % w := Nat.mod_mod _ _
  rw [BitVec.getLsbD_rotateLeft, e]
  have hs : i.toNat % w < w := Nat.mod_lt _ (by omega)
  by_cases h : j < i.toNat % w
  · simp only [h, decide_true, cond_true]
    congr 1
    rw [Nat.mod_eq_of_lt (a := j + (w - i.toNat % w)) (b := w) (by omega)]; omega
  · simp only [h, decide_false, cond_false, hj, decide_true, Bool.true_and]
    congr 1
    have : j + (w - i.toNat % w) = w + (j - i.toNat % w) := by omega
    rw [this, Nat.add_mod_left, Nat.mod_eq_of_lt (a := j - i.toNat % w) (b := w) (by omega)]


/-! ### bswap generic  (the argument is symbolic; only the bit *positions* are enumerated) -/

theorem specBswap16 (x : BitVec 16) :
    specBswap x = (((x >>> 0) &&& 0xFF#16) <<< 8) ||| (((x >>> 8) &&& 0xFF#16) <<< 0) := by
  simp [specBswap, List.range, List.range.loop]

theorem specBswap32 (x : BitVec 32) :
    specBswap x = (((x >>> 0) &&& 0xFF#32) <<< 24) ||| (((x >>> 8) &&& 0xFF#32) <<< 16) |||
      (((x >>> 16) &&& 0xFF#32) <<< 8) ||| (((x >>> 24) &&& 0xFF#32) <<< 0) := by
  simp [specBswap, List.range, List.range.loop]

theorem specBswap64 (x : BitVec 64) :
    specBswap x = (((x >>> 0) &&& 0xFF#64) <<< 56) ||| (((x >>> 8) &&& 0xFF#64) <<< 48) |||
      (((x >>> 16) &&& 0xFF#64) <<< 40) ||| (((x >>> 24) &&& 0xFF#64) <<< 32) |||
      (((x >>> 32) &&& 0xFF#64) <<< 24) ||| (((x >>> 40) &&& 0xFF#64) <<< 16) |||
      (((x >>> 48) &&& 0xFF#64) <<< 8) ||| (((x >>> 56) &&& 0xFF#64) <<< 0) := by
  simp [specBswap, List.range, List.range.loop]

/-- **bswap16_generic** reverses the bytes, for every value -/
theorem bswap16Generic_eq (x : BitVec 16) : bswap16Generic x = specBswap x := by
  rw [specBswap16]
  unfold bswap16Generic
  apply BitVec.eq_of_getLsbD_eq
  intro i hi
  simp only [BitVec.getLsbD_or, BitVec.getLsbD_and, BitVec.getLsbD_ushiftRight, BitVec.getLsbD_shiftLeft]
  iterate 16 (rcases i with _ | i; · simp (decide := true))
  omega

/-- **bswap32_generic** reverses the bytes, for every value -/
theorem bswap32Generic_eq (x : BitVec 32) : bswap32Generic x = specBswap x := by
  rw [specBswap32]
  unfold bswap32Generic
  apply BitVec.eq_of_getLsbD_eq
  intro i hi
  simp only [BitVec.getLsbD_or, BitVec.getLsbD_and, BitVec.getLsbD_ushiftRight, BitVec.getLsbD_shiftLeft]
  iterate 32 (rcases i with _ | i; · simp (decide := true))
  omega

/-- **bswap64_generic** reverses the bytes, for every value -/
theorem bswap64Generic_eq (x : BitVec 64) : bswap64Generic x = specBswap x := by
  rw [specBswap64]
  unfold bswap64Generic
  apply BitVec.eq_of_getLsbD_eq
  intro i hi
  simp only [BitVec.getLsbD_or, BitVec.getLsbD_and, BitVec.getLsbD_ushiftRight, BitVec.getLsbD_shiftLeft]
  iterate 64 (rcases i with _ | i; · simp (decide := true))
  omega

/-- what byte reversal means: byte `j` of the result is byte `n-1-j` of the argument
    (stated for the specification all three generics are proved equal to) -/
theorem specBswap32_bytes (x : BitVec 32) (j : Nat) (hj : j < 4) :
    (specBswap x >>> (8 * j)) &&& 0xFF#32 = (x >>> (8 * (3 - j))) &&& 0xFF#32 := by
  rw [specBswap32]
  apply BitVec.eq_of_getLsbD_eq
  intro i hi
  simp only [BitVec.getLsbD_or, BitVec.getLsbD_and, BitVec.getLsbD_ushiftRight, BitVec.getLsbD_shiftLeft]
  rcases j with _ | _ | _ | _ | j
  all_goals first
    | omega
    | (iterate 32 (rcases i with _ | i; · simp (decide := true))
       omega)


/-! ### mixed argument types (usual arithmetic conversions) -/

theorem commW_ge_left (wn wk : Nat) : wn ≤ commW wn wk :=
  Nat.le_trans (promW_ge wn) (Nat.le_max_left _ _)
theorem commW_ge_right (wn wk : Nat) : wk ≤ commW wn wk :=
  Nat.le_trans (promW_ge wk) (Nat.le_max_right _ _)
theorem commW_pos (wn wk : Nat) : 0 < commW wn wk :=
  Nat.lt_of_lt_of_le (promW_pos wn) (Nat.le_max_left _ _)

/-- conversion to a type at least as wide keeps the value of a non-negative operand -/
theorem conv_toNat {w : Nat} (sg : Bool) (x : BitVec w) (W : Nat) (hW : w ≤ W) (h : NonNeg sg x) :
    (conv sg x W).toNat = x.toNat := by
  have hlt : x.toNat < 2 ^ W := Nat.lt_of_lt_of_le x.isLt (Nat.pow_le_pow_right (by omega) hW)
  unfold conv
  cases sg with
  | false => simp [BitVec.toNat_setWidth, Nat.mod_eq_of_lt hlt]
  | true =>
    simp only [if_true, BitVec.signExtend_eq_setWidth_of_msb_false (msb_false_of_nonneg h),
      BitVec.toNat_setWidth, Nat.mod_eq_of_lt hlt]

/-- the converted operand is non-negative in the target type: either the target is strictly wider
    than the source, or it is the source's own (signed) type -/
theorem conv_nonneg {w : Nat} (S sg : Bool) (x : BitVec w) (W : Nat) (hW : w ≤ W) (h : NonNeg sg x)
    (hS : S = true → w < W ∨ (w = W ∧ sg = true)) : NonNeg S (conv sg x W) := by
  intro hs
  rw [conv_toNat sg x W hW h]
  rcases hS hs with hlt | ⟨he, hsg⟩
  · exact Nat.lt_of_lt_of_le x.isLt (Nat.pow_le_pow_right (by omega) (by omega))
  · subst he; exact h hsg

theorem commSg_left (wn : Nat) (sn : Bool) (wk : Nat) (sk : Bool) (h : commSg wn sn wk sk = true) :
    wn < commW wn wk ∨ (wn = commW wn wk ∧ sn = true) := by
  unfold commSg at h
  unfold commW
  unfold promW promSg at *
  rw [Nat.max_def]
  by_cases hn : wn < 32 <;> by_cases hk : wk < 32 <;> simp only [hn, hk, if_true, if_false] at h ⊢
  · left; simp; omega
  · left; split <;> omega
  · by_cases e : wn = 32
    · subst e; simp at h; right; simp [h]
    · simp only [e, if_false] at h
      have hlt : 32 < wn := by omega
      simp only [hlt, if_true] at h
      right; exact ⟨by split <;> omega, h⟩
  · by_cases e : wn = wk
    · subst e; simp at h; right; simp [h.1]
    · simp only [e, if_false] at h
      by_cases hlt : wk < wn
      · simp only [hlt, if_true] at h
        right; exact ⟨by split <;> omega, h⟩
      · left; split <;> omega

theorem commSg_right (wn : Nat) (sn : Bool) (wk : Nat) (sk : Bool) (h : commSg wn sn wk sk = true) :
    wk < commW wn wk ∨ (wk = commW wn wk ∧ sk = true) := by
  unfold commSg at h
  unfold commW
  unfold promW promSg at *
  rw [Nat.max_def]
  by_cases hn : wn < 32 <;> by_cases hk : wk < 32 <;> simp only [hn, hk, if_true, if_false] at h ⊢
  · left; simp; omega
  · by_cases e : 32 = wk
    · subst e; simp at h; right; simp [h]
    · simp only [e, if_false] at h
      right; exact ⟨by split <;> omega, by simpa [hk] using h⟩
  · left; split <;> omega
  · by_cases e : wn = wk
    · subst e; simp at h; right; simp [h.2]
    · simp only [e, if_false] at h
      by_cases hlt : wk < wn
      · left; split <;> omega
      · simp only [hlt, if_false] at h
        right; exact ⟨by split <;> omega, h⟩

/-- **div_ceil with mixed argument types**: computed in `decltype(n + k)` after the usual
    arithmetic conversions, the result is `⌈n/k⌉` for every `n ≥ 0`, `k > 0` of every pair of types -/
theorem divCeilMixed_eq {wn wk : Nat} (sn : Bool) (n : BitVec wn) (sk : Bool) (k : BitVec wk)
    (hn : NonNeg sn n) (hk : NonNeg sk k) (hk0 : k.toNat ≠ 0) :
    IsCeilDiv (divCeilMixed sn n sk k).toNat n.toNat k.toNat ∧
    NonNeg (commSg wn sn wk sk) (divCeilMixed sn n sk k) := by
  have cn := conv_nonneg (commSg wn sn wk sk) sn n (commW wn wk) (commW_ge_left wn wk) hn
    (commSg_left wn sn wk sk)
  have ck := conv_nonneg (commSg wn sn wk sk) sk k (commW wn wk) (commW_ge_right wn wk) hk
    (commSg_right wn sn wk sk)
  have tn := conv_toNat sn n (commW wn wk) (commW_ge_left wn wk) hn
  have tk := conv_toNat sk k (commW wn wk) (commW_ge_right wn wk) hk
  have h := divCeilCore_toNat (commW_pos wn wk) (commSg wn sn wk sk) _ _ cn ck (by rw [tk]; exact hk0)
  rw [tn, tk] at h
  have hd : divCeilMixed sn n sk k = divCeilCore (commSg wn sn wk sk) (conv sn n (commW wn wk))
      (conv sk k (commW wn wk)) := rfl
  rw [hd, h]
  refine ⟨ceil_spec n.toNat k.toNat (by omega), ?_⟩
  intro hs
  rw [h]
  have := ceil_le_self n.toNat k.toNat (by omega)
  have := cn hs
  rw [tn] at this
  omega

/-- **round_up with mixed argument types**: the least multiple of `k` that is `≥ n`, whenever it is
    representable in `decltype(n + k)` -/
theorem roundUpMixed_eq {wn wk : Nat} (sn : Bool) (n : BitVec wn) (sk : Bool) (k : BitVec wk)
    (hn : NonNeg sn n) (hk : NonNeg sk k) (hk0 : k.toNat ≠ 0) (q : Nat)
    (hq : IsCeilDiv q n.toNat k.toNat) (hrep : q * k.toNat < 2 ^ commW wn wk) :
    (roundUpMixed sn n sk k).toNat = q * k.toNat := by
  obtain ⟨⟨h1, h2⟩, _⟩ := divCeilMixed_eq sn n sk k hn hk hk0
  have e : (divCeilMixed sn n sk k).toNat = q := Nat.le_antisymm (h2 q hq.1) (hq.2 _ h1)
  unfold roundUpMixed
  rw [BitVec.toNat_mul, e, conv_toNat sk k (commW wn wk) (commW_ge_right wn wk) hk, Nat.mod_eq_of_lt hrep]

end TlxVerif.C20
