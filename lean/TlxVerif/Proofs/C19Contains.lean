/-
C19 — contains(): the StringView::find based test is "the pattern is an infix".
-/
import TlxVerif.Model.C19Helpers
import TlxVerif.Proofs.C18Search
namespace TlxVerif.C19
open TlxVerif.C18 (Bytes npos)
open TlxVerif.C18

theorem firstIdx_lt_iff (q : Bytes → Bool) : ∀ r : Bytes,
    firstIdx q r < r.length ↔ ∃ k, k < r.length ∧ q (r.drop k) = true
  | [] => by simp [firstIdx]
  | c :: t => by
    simp only [firstIdx, List.length_cons]
    by_cases hq : q (c :: t) = true
    · simp only [hq, if_true]
      constructor
      · intro _; exact ⟨0, by omega, by simpa using hq⟩
      · intro _; omega
    · have hq' : q (c :: t) = false := by simpa using hq
      simp only [hq', Bool.false_eq_true, if_false]
      rw [Nat.add_lt_add_iff_right, firstIdx_lt_iff q t]
      constructor
      · intro ⟨k, hk, hqk⟩
        exact ⟨k + 1, by omega, by simpa using hqk⟩
      · intro ⟨k, hk, hqk⟩
        cases k with
        | zero => simp at hqk; exact absurd hqk hq
        | succ k => exact ⟨k, by omega, by simpa using hqk⟩

theorem infix_iff_exists_drop (p str : Bytes) : p <:+: str ↔ ∃ k, k ≤ str.length ∧ p <+: str.drop k := by
  constructor
  · intro h
    obtain ⟨t, hpt, hts⟩ := List.infix_iff_prefix_suffix.mp h
    have := List.suffix_iff_eq_drop.mp hts
    exact ⟨str.length - t.length, by omega, by rw [← this]; exact hpt⟩
  · intro ⟨k, _, hp⟩
    exact List.infix_iff_prefix_suffix.mpr ⟨str.drop k, hp, List.drop_suffix k str⟩

theorem contains_iff_infix (str p : Bytes) (hsz : str.length < npos) : contains str p = true ↔ p <:+: str := by
  unfold contains Model.find
  have h0 : ¬ 0 > str.length := by omega
  simp only [h0, if_false, List.drop_zero, Nat.zero_add]
  cases p with
  | nil =>
    simp only [List.isEmpty_nil, if_true]
    constructor
    · intro _; exact List.nil_infix
    · intro _; decide
  | cons c t =>
    simp only [List.isEmpty_cons, Bool.false_eq_true, if_false]
    rw [stdSearch_eq_firstIdx]
    have hle := firstIdx_le (fun r => (c :: t).isPrefixOf r) str
    rw [infix_iff_exists_drop]
    constructor
    · intro h
      have hlt : firstIdx (fun r => (c :: t).isPrefixOf r) str < str.length := by
        by_cases he : firstIdx (fun r => (c :: t).isPrefixOf r) str = str.length
        · simp [he] at h
        · omega
      obtain ⟨k, hk, hq⟩ := (firstIdx_lt_iff _ str).mp hlt
      exact ⟨k, by omega, List.isPrefixOf_iff_prefix.mp hq⟩
    · intro ⟨k, hk, hp⟩
      have hk' : k < str.length := by
        by_cases he : k = str.length
        · subst he
          simp at hp
        · omega
      have hlt := (firstIdx_lt_iff (fun r => (c :: t).isPrefixOf r) str).mpr
        ⟨k, hk', List.isPrefixOf_iff_prefix.mpr hp⟩
      have hne : ¬ firstIdx (fun r => (c :: t).isPrefixOf r) str = str.length := by omega
      simp only [hne, if_false]
      apply bne_iff_ne.mpr
      omega

end TlxVerif.C19
