import TlxVerif.Model.C12Conc
/-!
Invariant of the concurrent CountingPtr model (all interleavings): helper lemmas.

A thread's *contribution* is the number of references to the shared object it is accountable
for: its local handles that point to it (already updated to the state after the operation in
progress) plus the `dec`s it still has to perform minus the `inc`s it still has to perform.  An
in-flight `unify()` keeps the contribution: before the `unique()` load the handle counts; when
the load sees a shared object the handle is handed over to the private copy and the pending
release (`dec`) takes its place.
-/
set_option linter.unusedSimpArgs false
namespace TlxVerif.C12

def b2i (b : Bool) : Int := if b then 1 else 0

def own (f : Fl) : Int := b2i f.l0 + b2i f.l1 + b2i f.d

def pendBal (p : List Micro) : Int := (p.count .dec : Int) - (p.count .inc : Int)

def contrib (t : Thr) : Int := own t.fl + pendBal t.pend

/-- does the list contain a step that reads or writes the shared object (other than its own
    destruction)? -/
def touches (p : List Micro) : Bool :=
  p.any fun m => match m with
    | .inc | .dec | .load | .uload _ | .copy => true
    | _ => false

def dels (p : List Micro) : Nat := p.count .del

/-- the shapes a thread's list of outstanding visible steps can have -/
def shapes : List (List Micro) :=
  [[], [.inc], [.inc, .load, .dec], [.inc, .dec], [.load, .dec], [.dec], [.load],
   [.del, .dload], [.dload], [.del],
   [.uload .l0], [.uload .l1], [.uload .d], [.copy, .load, .dec], [.copy, .dec]]

/-- a pending `unique()` test of `h.unify()`: the handle `h` still points to the shared object -/
def uloadOk (f : Fl) (p : List Micro) : Bool :=
  match p with
  | [.uload h] => f.get h
  | _ => true

/-- local well-formedness of a thread -/
def tOk (t : Thr) : Prop :=
  t.pend ∈ shapes ∧ 0 ≤ contrib t ∧ (touches t.pend = true → 1 ≤ contrib t) ∧ uloadOk t.fl t.pend = true

/-- starting an operation keeps the contribution, yields a legal shape without destructor steps -/
theorem expand_ok (asserts : Bool) (f : Fl) (c : Char) :
    let r := expand asserts f c
    r.1 ∈ shapes ∧ own r.2 + pendBal r.1 = own f ∧
      (touches r.1 = true → 1 ≤ own f) ∧ dels r.1 = 0 ∧ uloadOk r.2 r.1 = true := by
  obtain ⟨a, b, d⟩ := f
  unfold expand
  split <;> cases a <;> cases b <;> cases d <;> cases asserts <;> decide

theorem own_nonneg (f : Fl) : 0 ≤ own f := by
  obtain ⟨a, b, d⟩ := f
  cases a <;> cases b <;> cases d <;> decide

theorem settleAux_ok (asserts : Bool) (f : Fl) (prog : List Char) :
    let t := settleAux asserts f prog
    tOk t ∧ contrib t = own f ∧ dels t.pend = 0 := by
  induction prog generalizing f with
  | nil =>
    have := own_nonneg f
    simp [settleAux, tOk, contrib, shapes, pendBal, touches, dels, uloadOk, this]
  | cons c rest ih =>
    have h := expand_ok asserts f c
    simp only [settleAux]
    generalize expand asserts f c = r at h
    obtain ⟨ms, f'⟩ := r
    simp only at h
    obtain ⟨h1, h2, h3, h4, h5⟩ := h
    cases ms with
    | nil =>
      simp only
      have := ih f'
      simp only [pendBal, List.count_nil] at h2
      have e : own f' = own f := by simpa using h2
      rw [e] at this
      exact this
    | cons m ms' =>
      simp only
      have := own_nonneg f
      refine ⟨⟨h1, ?_, ?_, h5⟩, ?_, h4⟩
      · simp only [contrib]; rw [h2]; exact this
      · intro ht; simp only [contrib]; rw [h2]; exact h3 ht
      · simp only [contrib]; exact h2

/-! ### sums over the thread list -/

def total (f : Thr → Int) (l : List Thr) : Int := (l.map f).sum

theorem total_nil (f : Thr → Int) : total f [] = 0 := rfl
theorem total_cons (f : Thr → Int) (t : Thr) (l : List Thr) : total f (t :: l) = f t + total f l := by
  simp [total]

theorem total_set (f : Thr → Int) (l : List Thr) (i : Nat) (t' : Thr) (hi : i < l.length) :
    total f (l.set i t') = total f l - f l[i] + f t' := by
  induction l generalizing i with
  | nil => simp at hi
  | cons a l ih =>
    cases i with
    | zero => simp [total_cons]; omega
    | succ j =>
      have := ih j (by simpa using hi)
      simp [total_cons, this]; omega

theorem le_total (f : Thr → Int) (l : List Thr) (h0 : ∀ t ∈ l, 0 ≤ f t) (t : Thr) (ht : t ∈ l) :
    f t ≤ total f l := by
  induction l with
  | nil => simp at ht
  | cons a l ih =>
    have ha := h0 a (by simp)
    have hl : 0 ≤ total f l := by
      clear ih ht
      induction l with
      | nil => simp [total_nil]
      | cons b l ih2 =>
        have := h0 b (by simp)
        have := ih2 (fun t ht => h0 t (by
          rcases List.mem_cons.mp ht with h | h
          · simp [h]
          · simp [h]))
        rw [total_cons]; omega
    rw [total_cons]
    rcases List.mem_cons.mp ht with h | h
    · subst h; omega
    · have := ih (fun t ht => h0 t (by simp [ht])) h; omega

theorem total_map_const_one (f : Thr → Int) (l : List Thr) (h : ∀ t ∈ l, f t = 1) :
    total f l = l.length := by
  induction l with
  | nil => simp [total_nil]
  | cons a l ih =>
    rw [total_cons, h a (by simp), ih (fun t ht => h t (by simp [ht]))]
    simp; omega

theorem total_zero (f : Thr → Int) (l : List Thr) (h : ∀ t ∈ l, f t = 0) : total f l = 0 := by
  induction l with
  | nil => simp [total_nil]
  | cons a l ih =>
    rw [total_cons, h a (by simp), ih (fun t ht => h t (by simp [ht]))]; rfl



/-! ### the global invariant -/

def delsI (t : Thr) : Int := (dels t.pend : Int)

/-- the handles of a thread are destroyed at the end of its program (`Q`, `r`, `q`) -/
def progOkF (f : Fl) (prog : List Char) : Prop :=
  (∃ pre, prog = pre ++ ['Q', 'r', 'q']) ∨ (prog = ['r', 'q'] ∧ f.d = false) ∨
  (prog = ['q'] ∧ f.d = false ∧ f.l1 = false) ∨
  (prog = [] ∧ f.d = false ∧ f.l1 = false ∧ f.l0 = false)

def progOk (t : Thr) : Prop := progOkF t.fl t.prog

/-- `f'` has no more handles to the shared object than `f` -/
def FlLe (f' f : Fl) : Prop := (f'.l0 = true → f.l0 = true) ∧ (f'.l1 = true → f.l1 = true) ∧ (f'.d = true → f.d = true)

theorem FlLe.refl (f : Fl) : FlLe f f := ⟨id, id, id⟩

theorem progOkF_mono {f f' : Fl} {prog : List Char} (hle : FlLe f' f) (h : progOkF f prog) :
    progOkF f' prog := by
  obtain ⟨a, b, d⟩ := f
  obtain ⟨a', b', d'⟩ := f'
  obtain ⟨h0, h1, h2⟩ := hle
  simp only at h0 h1 h2
  rcases h with h | ⟨hp, hd⟩ | ⟨hp, hd, hl1⟩ | ⟨hp, hd, hl1, hl0⟩
  · exact .inl h
  · simp only at hd
    refine .inr (.inl ⟨hp, ?_⟩)
    cases d' <;> simp_all
  · simp only at hd hl1
    refine .inr (.inr (.inl ⟨hp, ?_, ?_⟩))
    · cases d' <;> simp_all
    · cases b' <;> simp_all
  · simp only at hd hl1 hl0
    refine .inr (.inr (.inr ⟨hp, ?_, ?_, ?_⟩))
    · cases d' <;> simp_all
    · cases b' <;> simp_all
    · cases a' <;> simp_all

structure CInv (s : CSt) : Prop where
  /-- no use-after-free, no underflow, no double destruction has happened -/
  noerr : s.err = none
  /-- the reference count is the number of references the threads account for -/
  cnt : (s.count : Int) = total contrib s.thr
  tok : ∀ t ∈ s.thr, tOk t
  pok : ∀ t ∈ s.thr, progOk t
  /-- a parked thread with nothing outstanding has finished its program -/
  stl : ∀ t ∈ s.thr, t.pend = [] → t.prog = []
  /-- the destructor has run or is about to run exactly when the count is zero — and only once -/
  once : (s.destroyed : Int) + total delsI s.thr = if s.count = 0 then 1 else 0

theorem settle_ok (asserts : Bool) (t : Thr) (h : t.pend ≠ [] → tOk t) :
    let t' := settle asserts t
    tOk t' ∧ contrib t' = contrib t ∧ delsI t' = delsI t := by
  unfold settle
  cases hp : t.pend with
  | nil =>
    simp only [List.isEmpty_nil, if_true]
    obtain ⟨h1, h2, h3⟩ := settleAux_ok asserts t.fl t.prog
    refine ⟨h1, ?_, ?_⟩
    · rw [h2]; simp [contrib, hp, pendBal]
    · simp only [delsI, h3, hp]; simp [dels]
  | cons m ms =>
    simp only [List.isEmpty_cons]
    exact ⟨h (by simp [hp]), rfl, rfl⟩

/-- the local state right after starting the next operation still promises the final destructors -/
theorem expand_progOk (asserts : Bool) (f : Fl) (c : Char) (rest : List Char)
    (h : progOkF f (c :: rest)) : progOkF (expand asserts f c).2 rest := by
  rcases h with ⟨pre, hpre⟩ | ⟨hp, hd⟩ | ⟨hp, hd, hl1⟩ | ⟨hp, _⟩
  · cases pre with
    | nil =>
      simp at hpre
      obtain ⟨hc, hr⟩ := hpre
      subst hc; subst hr
      exact .inr (.inl ⟨rfl, by simp [expand]⟩)
    | cons a pre' =>
      simp at hpre
      exact .inl ⟨pre', hpre.2⟩
  · simp at hp
    obtain ⟨hc, hr⟩ := hp
    subst hc; subst hr
    exact .inr (.inr (.inl ⟨rfl, by simpa [expand] using hd, by simp [expand]⟩))
  · simp at hp
    obtain ⟨hc, hr⟩ := hp
    subst hc; subst hr
    exact .inr (.inr (.inr ⟨rfl, by simpa [expand] using hd, by simpa [expand] using hl1, by simp [expand]⟩))
  · simp at hp

theorem settleAux_progOk (asserts : Bool) (f : Fl) (prog : List Char) (h : progOkF f prog) :
    progOk (settleAux asserts f prog) := by
  induction prog generalizing f with
  | nil => simpa [settleAux, progOk] using h
  | cons c rest ih =>
    simp only [settleAux]
    have key := expand_progOk asserts f c rest h
    generalize expand asserts f c = r at key
    obtain ⟨ms, f'⟩ := r
    cases ms with
    | nil => exact ih f' key
    | cons m ms' => exact key

theorem settle_progOk (asserts : Bool) (t : Thr) (h : progOk t) : progOk (settle asserts t) := by
  unfold settle
  split
  · exact settleAux_progOk asserts t.fl t.prog h
  · exact h

theorem delsI_nonneg (t : Thr) : 0 ≤ delsI t := by simp [delsI]

theorem own_clear (f : Fl) (h : Hd) (hh : f.get h = true) : own (f.clear h) = own f - 1 := by
  obtain ⟨a, b, d⟩ := f
  cases h <;> cases a <;> cases b <;> cases d <;> first | decide | (simp [Fl.get] at hh)

theorem flLe_clear (f : Fl) (h : Hd) : FlLe (f.clear h) f := by
  obtain ⟨a, b, d⟩ := f
  cases h <;> simp [FlLe, Fl.clear]


/-- effect of one visible step on the shared state and on the stepping thread, for a thread
    satisfying the invariant -/
theorem micro_ok (asserts : Bool) {s : CSt} (hI : CInv s) {t : Thr} (ht : t ∈ s.thr)
    {m : Micro} {rest : List Micro} (hp : t.pend = m :: rest) :
    let r := microStep asserts s t m rest
    let t1 : Thr := r.2.1
    r.1.err = none ∧ r.1.thr = s.thr ∧ (t1.pend ≠ [] → tOk t1) ∧ t1.prog = t.prog ∧ FlLe t1.fl t.fl ∧
    (r.1.count : Int) = s.count + contrib t1 - contrib t ∧
    (r.1.destroyed : Int) + delsI t1 + (total delsI s.thr - delsI t) = if r.1.count = 0 then 1 else 0 := by
  obtain ⟨hsh, hc0, hc1, hul⟩ := hI.tok t ht
  have hle : contrib t ≤ s.count := by
    rw [hI.cnt]; exact le_total contrib s.thr (fun t ht => (hI.tok t ht).2.1) t ht
  have hdle : delsI t ≤ total delsI s.thr := le_total delsI s.thr (fun t _ => delsI_nonneg t) t ht
  have hd0 := delsI_nonneg t
  have honce := hI.once
  have herr := hI.noerr
  have hfl := FlLe.refl t.fl
  rw [hp] at hsh hul
  simp only [contrib, hp] at hc0 hc1 hle
  simp only [delsI, hp] at hdle hd0
  -- enumerate the shapes
  simp [shapes] at hsh
  rcases hsh with ⟨hm, hr⟩ | ⟨hm, hr⟩ | ⟨hm, hr⟩ | ⟨hm, hr⟩ | ⟨hm, hr⟩ | ⟨hm, hr⟩ | ⟨hm, hr⟩ | ⟨hm, hr⟩ |
      ⟨hm, hr⟩ | ⟨hm, hr⟩ | ⟨hm, hr⟩ | ⟨hm, hr⟩ | ⟨hm, hr⟩ | ⟨hm, hr⟩ <;>
    subst hm <;> subst hr
  all_goals simp [touches, pendBal, dels] at hc0 hc1 hle hdle hd0
  -- [inc] [inc,load,dec] [inc,dec] [load,dec] [dec] [load]: the count is positive, nothing destroyed
  iterate 6
    · have hcz : ¬ s.count = 0 := by omega
      simp only [hcz, if_false] at honce
      have hdz : s.destroyed = 0 := by omega
      by_cases h1 : s.count - 1 = 0 <;> cases asserts <;>
        simp [microStep, uaf, hdz, herr, hcz, h1, tOk, contrib, pendBal, delsI, dels, touches, shapes, hp,
          uloadOk, hfl] <;>
        omega
  -- [del, dload]
  · have hdz : s.destroyed = 0 := by split at honce <;> omega
    have hcz : s.count = 0 := by
      rcases Nat.eq_zero_or_pos s.count with h | h
      · exact h
      · have : ¬ s.count = 0 := by omega
        simp only [this, if_false] at honce; omega
    simp [microStep, hdz, herr, hcz, tOk, contrib, pendBal, delsI, dels, touches, shapes, hp, uloadOk, hfl]
    simp [hcz] at honce
    omega
  -- [dload]
  · simp [microStep, herr, tOk, contrib, pendBal, delsI, dels, touches, shapes, hp, uloadOk, hfl]
    exact honce
  -- [del]
  · have hdz : s.destroyed = 0 := by split at honce <;> omega
    have hcz : s.count = 0 := by
      rcases Nat.eq_zero_or_pos s.count with h | h
      · exact h
      · have : ¬ s.count = 0 := by omega
        simp only [this, if_false] at honce; omega
    simp [microStep, hdz, herr, hcz, tOk, contrib, pendBal, delsI, dels, touches, shapes, hp, uloadOk, hfl]
    simp [hcz] at honce
    omega
  -- [uload h] for the three handles: the handle is handed over to the private copy
  iterate 3
    · have hcz : ¬ s.count = 0 := by omega
      simp only [hcz, if_false] at honce
      have hdz : s.destroyed = 0 := by omega
      simp only [uloadOk] at hul
      have hcl := own_clear t.fl _ hul
      have hfc := flLe_clear t.fl
      by_cases h1 : s.count = 1 <;> cases asserts <;>
        simp [microStep, uaf, hdz, herr, hcz, h1, tOk, contrib, pendBal, delsI, dels, touches, shapes, hp,
          uloadOk, hfl, hcl, hfc, decSteps] <;>
        omega
  -- [copy, load, dec] [copy, dec]
  iterate 2
    · have hcz : ¬ s.count = 0 := by omega
      simp only [hcz, if_false] at honce
      have hdz : s.destroyed = 0 := by omega
      simp [microStep, uaf, hdz, herr, hcz, tOk, contrib, pendBal, delsI, dels, touches, shapes, hp,
          uloadOk, hfl] <;>
        omega

theorem settleAux_settled (asserts : Bool) (f : Fl) (prog : List Char) :
    (settleAux asserts f prog).pend = [] → (settleAux asserts f prog).prog = [] := by
  induction prog generalizing f with
  | nil => simp [settleAux]
  | cons c rest ih =>
    simp only [settleAux]
    generalize expand asserts f c = r
    obtain ⟨ms, f'⟩ := r
    cases ms with
    | nil => exact ih f'
    | cons m ms' => simp

theorem settle_settled (asserts : Bool) (t : Thr) :
    (settle asserts t).pend = [] → (settle asserts t).prog = [] := by
  unfold settle
  split
  · exact settleAux_settled asserts t.fl t.prog
  · next h => intro h'; simp [h'] at h

/-- one visible step of any thread preserves the invariant -/
theorem cstep_inv (asserts : Bool) {s s' : CSt} {i : Nat} {ev : String} (hI : CInv s)
    (h : cstep asserts s i = some (s', ev)) : CInv s' := by
  unfold cstep at h
  split at h
  · cases h
  · next t hti =>
    split at h
    · cases h
    · next m rest hp =>
      have hi : i < s.thr.length := by
        rcases Nat.lt_or_ge i s.thr.length with h' | h'
        · exact h'
        · simp [List.getElem?_eq_none h'] at hti
      have hget : s.thr[i] = t := by
        have := List.getElem?_eq_getElem hi
        rw [this] at hti; injection hti
      have ht : t ∈ s.thr := hget ▸ List.getElem_mem hi
      obtain ⟨m1, m2, m3, mp, mf, m4, m5⟩ := micro_ok asserts hI ht hp
      generalize microStep asserts s t m rest = r at h m1 m2 m3 mp mf m4 m5
      obtain ⟨s1, t1, ev'⟩ := r
      simp only at h m1 m2 m3 mp mf m4 m5
      obtain ⟨k1, k2, k3⟩ := settle_ok asserts t1 m3
      injection h with h
      injection h with h _
      subst h
      have hmem : ∀ u ∈ (s1.thr.set i (settle asserts t1)), u = settle asserts t1 ∨ u ∈ s.thr := by
        intro u hu
        rcases List.mem_or_eq_of_mem_set hu with h | h
        · right; rw [← m2]; exact h
        · left; exact h
      have hpok1 : progOk t1 := by
        have := hI.pok t ht
        unfold progOk at this ⊢
        rw [mp]; exact progOkF_mono mf this
      refine ⟨m1, ?_, ?_, ?_, ?_, ?_⟩
      · show (s1.count : Int) = total contrib (s1.thr.set i _)
        rw [m2, total_set contrib s.thr i _ hi, hget, k2, m4, hI.cnt]; omega
      · intro u hu
        rcases hmem u hu with h | h
        · rw [h]; exact k1
        · exact hI.tok u h
      · intro u hu
        rcases hmem u hu with h | h
        · rw [h]; exact settle_progOk asserts _ hpok1
        · exact hI.pok u h
      · intro u hu
        rcases hmem u hu with h | h
        · rw [h]; exact settle_settled asserts _
        · exact hI.stl u h
      · show (s1.destroyed : Int) + total delsI (s1.thr.set i _) = if s1.count = 0 then 1 else 0
        rw [m2, total_set delsI s.thr i _ hi, hget, k3, ← m5]; omega

/-- the initial state (every thread holds two handles, the creator dropped its own) -/
theorem start_inv (asserts : Bool) (progs : List (List Char)) (hn : progs ≠ []) :
    CInv (CSt.start asserts progs) := by
  have hstart : ∀ t ∈ (progs.map (Thr.start asserts)),
      tOk t ∧ contrib t = 2 ∧ delsI t = 0 ∧ progOk t ∧ (t.pend = [] → t.prog = []) := by
    intro t ht
    obtain ⟨p, _, rfl⟩ := List.mem_map.mp ht
    have h1 := settle_ok asserts { fl := ⟨true, false, true⟩, pend := [], prog := p ++ ['Q', 'r', 'q'] } (by simp)
    have h2 := settle_progOk asserts { fl := ⟨true, false, true⟩, pend := [], prog := p ++ ['Q', 'r', 'q'] }
      (.inl ⟨p, rfl⟩)
    have h3 := settle_settled asserts { fl := ⟨true, false, true⟩, pend := [], prog := p ++ ['Q', 'r', 'q'] }
    refine ⟨h1.1, ?_, ?_, h2, h3⟩
    · rw [Thr.start, h1.2.1]; simp [contrib, own, b2i, pendBal]
    · rw [Thr.start, h1.2.2]; simp [delsI, dels]
  have hlen : progs.length ≠ 0 := by
    intro h; exact hn (List.eq_nil_of_length_eq_zero h)
  refine ⟨rfl, ?_, fun t ht => (hstart t ht).1, fun t ht => (hstart t ht).2.2.2.1,
    fun t ht => (hstart t ht).2.2.2.2, ?_⟩
  · show ((2 * progs.length : Nat) : Int) = total contrib (progs.map (Thr.start asserts))
    have : ∀ l : List Thr, (∀ t ∈ l, contrib t = 2) → total contrib l = 2 * (l.length : Int) := by
      intro l hl
      induction l with
      | nil => simp [total_nil]
      | cons a l ih =>
        rw [total_cons, hl a (by simp), ih (fun t ht => hl t (by simp [ht]))]
        simp; omega
    rw [this _ (fun t ht => (hstart t ht).2.1)]; simp
  · show ((0 : Nat) : Int) + total delsI (progs.map (Thr.start asserts)) = if 2 * progs.length = 0 then 1 else 0
    rw [total_zero delsI _ (fun t ht => (hstart t ht).2.2.1)]
    have : ¬ 2 * progs.length = 0 := by omega
    simp [this]

end TlxVerif.C12
