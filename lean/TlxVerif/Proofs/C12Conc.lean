import TlxVerif.Model.C12Conc
/-!
Invariant of the concurrent CountingPtr model (all interleavings): helper lemmas.

A thread's *contribution* is the number of references it is accountable for: its local handles
(already updated to the state after the operation in progress) plus the `dec`s it still has to
perform minus the `inc`s it still has to perform.
-/
namespace TlxVerif.C12

def own (l0 l1 : Bool) : Int := (if l0 then 1 else 0) + (if l1 then 1 else 0)

def pendBal (p : List Micro) : Int := (p.count .dec : Int) - (p.count .inc : Int)

def contrib (t : Thr) : Int := own t.l0 t.l1 + pendBal t.pend

def touches (p : List Micro) : Bool := p.any fun m => m == .inc || m == .dec || m == .load

def dels (p : List Micro) : Nat := p.count .del

/-- the shapes a thread's list of outstanding visible steps can have -/
def shapes : List (List Micro) :=
  [[], [.inc], [.inc, .load, .dec], [.inc, .dec], [.load, .dec], [.dec], [.load],
   [.del, .dload], [.dload], [.del]]

/-- local well-formedness of a thread -/
def tOk (t : Thr) : Prop :=
  t.pend ∈ shapes ∧ 0 ≤ contrib t ∧ (touches t.pend = true → 1 ≤ contrib t)

/-- starting an operation keeps the contribution, yields a legal shape without destructor steps -/
theorem expand_ok (asserts l0 l1 : Bool) (c : Char) :
    let r := expand asserts l0 l1 c
    r.1 ∈ shapes ∧ own r.2.1 r.2.2 + pendBal r.1 = own l0 l1 ∧
      (touches r.1 = true → 1 ≤ own l0 l1) ∧ dels r.1 = 0 := by
  unfold expand
  split <;> cases l0 <;> cases l1 <;> cases asserts <;> decide

theorem settleAux_ok (asserts : Bool) (l0 l1 : Bool) (prog : List Char) :
    let t := settleAux asserts l0 l1 prog
    tOk t ∧ contrib t = own l0 l1 ∧ dels t.pend = 0 := by
  induction prog generalizing l0 l1 with
  | nil => cases l0 <;> cases l1 <;> simp [settleAux, tOk, contrib, shapes, pendBal, touches, dels, own]
  | cons c rest ih =>
    have h := expand_ok asserts l0 l1 c
    simp only [settleAux]
    generalize expand asserts l0 l1 c = r at h
    obtain ⟨ms, l0', l1'⟩ := r
    simp only at h
    obtain ⟨h1, h2, h3, h4⟩ := h
    cases ms with
    | nil =>
      simp only
      have := ih l0' l1'
      simp only [pendBal, List.count_nil] at h2
      have e : own l0' l1' = own l0 l1 := by simpa using h2
      rw [e] at this
      exact this
    | cons m ms' =>
      simp only
      refine ⟨⟨h1, ?_, ?_⟩, ?_, h4⟩
      · simp only [contrib]; rw [h2]; unfold own; cases l0 <;> cases l1 <;> decide
      · intro ht; simp only [contrib]; rw [h2]; exact h3 ht
      · simp only [contrib]; exact h2


/-! ### sums over the thread list -/

def total (f : Thr → Int) (l : List Thr) : Int := (l.map f).sum

theorem total_nil (f : Thr → Int) : total f [] = 0 := rfl
theorem total_cons (f : Thr → Int) (t : Thr) (l : List Thr) : total f (t :: l) = f t + total f l := by
  simp [total]

theorem total_set (f : Thr → Int) (l : List Thr) (i : Nat) (t' : Thr) (hi : i < l.length) :
    total f (l.set i t') = total f l - f l[i] + f t' := by
  induction l generalizing i with
  | nil => simp at hi
  | cons a l ih =>
    cases i with
    | zero => simp [total_cons]; omega
    | succ j =>
      have := ih j (by simpa using hi)
      simp [total_cons, this]; omega

theorem le_total (f : Thr → Int) (l : List Thr) (h0 : ∀ t ∈ l, 0 ≤ f t) (t : Thr) (ht : t ∈ l) :
    f t ≤ total f l := by
  induction l with
  | nil => simp at ht
  | cons a l ih =>
    have ha := h0 a (by simp)
    have hl : 0 ≤ total f l := by
      clear ih ht
      induction l with
      | nil => simp [total_nil]
      | cons b l ih2 =>
        have := h0 b (by simp)
        have := ih2 (fun t ht => h0 t (by
          rcases List.mem_cons.mp ht with h | h
          · simp [h]
          · simp [h]))
        rw [total_cons]; omega
    rw [total_cons]
    rcases List.mem_cons.mp ht with h | h
    · subst h; omega
    · have := ih (fun t ht => h0 t (by simp [ht])) h; omega

theorem total_map_const_one (f : Thr → Int) (l : List Thr) (h : ∀ t ∈ l, f t = 1) :
    total f l = l.length := by
  induction l with
  | nil => simp [total_nil]
  | cons a l ih =>
    rw [total_cons, h a (by simp), ih (fun t ht => h t (by simp [ht]))]
    simp; omega

theorem total_zero (f : Thr → Int) (l : List Thr) (h : ∀ t ∈ l, f t = 0) : total f l = 0 := by
  induction l with
  | nil => simp [total_nil]
  | cons a l ih =>
    rw [total_cons, h a (by simp), ih (fun t ht => h t (by simp [ht]))]; rfl


/-! ### the global invariant -/

def delsI (t : Thr) : Int := (dels t.pend : Int)

/-- the handles of a thread are destroyed at the end of its program (`r` then `q`) -/
def progOk (t : Thr) : Prop :=
  (∃ pre, t.prog = pre ++ ['r', 'q']) ∨ (t.prog = ['q'] ∧ t.l1 = false) ∨
  (t.prog = [] ∧ t.l0 = false ∧ t.l1 = false)

structure CInv (s : CSt) : Prop where
  /-- no use-after-free, no underflow, no double destruction has happened -/
  noerr : s.err = none
  /-- the reference count is the number of references the threads account for -/
  cnt : (s.count : Int) = total contrib s.thr
  tok : ∀ t ∈ s.thr, tOk t
  pok : ∀ t ∈ s.thr, progOk t
  /-- a parked thread with nothing outstanding has finished its program -/
  stl : ∀ t ∈ s.thr, t.pend = [] → t.prog = []
  /-- the destructor has run or is about to run exactly when the count is zero — and only once -/
  once : (s.destroyed : Int) + total delsI s.thr = if s.count = 0 then 1 else 0

theorem tail_shape {m : Micro} {rest : List Micro} (h : (m :: rest) ∈ shapes) : rest ∈ shapes := by
  simp [shapes] at h
  rcases h with ⟨_, h⟩ | ⟨_, h⟩ | ⟨_, h⟩ | ⟨_, h⟩ | ⟨_, h⟩ | ⟨_, h⟩ | ⟨_, h⟩ | ⟨_, h⟩ | ⟨_, h⟩ <;>
    subst h <;> simp [shapes]

theorem settle_ok (asserts : Bool) (t : Thr) (h : t.pend ≠ [] → tOk t) :
    let t' := settle asserts t
    tOk t' ∧ contrib t' = contrib t ∧ delsI t' = delsI t := by
  unfold settle
  cases hp : t.pend with
  | nil =>
    simp only [List.isEmpty_nil, if_true]
    obtain ⟨h1, h2, h3⟩ := settleAux_ok asserts t.l0 t.l1 t.prog
    refine ⟨h1, ?_, ?_⟩
    · rw [h2]; simp [contrib, hp, pendBal]
    · simp only [delsI, h3, hp]; simp [dels]
  | cons m ms =>
    simp only [List.isEmpty_cons]
    exact ⟨h (by simp [hp]), rfl, rfl⟩

theorem settleAux_progOk (asserts : Bool) (l0 l1 : Bool) (prog : List Char)
    (h : progOk { l0 := l0, l1 := l1, pend := [], prog := prog }) :
    progOk (settleAux asserts l0 l1 prog) := by
  induction prog generalizing l0 l1 with
  | nil => simpa [settleAux] using h
  | cons c rest ih =>
    simp only [settleAux]
    -- the state right after starting operation `c`
    have key : progOk { l0 := (expand asserts l0 l1 c).2.1, l1 := (expand asserts l0 l1 c).2.2,
                        pend := [], prog := rest } := by
      rcases h with ⟨pre, hpre⟩ | ⟨hq, hl1⟩ | ⟨hn, _⟩
      · cases pre with
        | nil =>
          simp at hpre
          obtain ⟨hc, hr⟩ := hpre
          subst hc; subst hr
          right; left
          exact ⟨rfl, by simp [expand]⟩
        | cons a pre' =>
          simp at hpre
          exact .inl ⟨pre', hpre.2⟩
      · simp at hq
        obtain ⟨hc, hr⟩ := hq
        subst hc; subst hr
        right; right
        simp at hl1
        exact ⟨rfl, by simp [expand], by simp [expand, hl1]⟩
      · simp at hn
    generalize expand asserts l0 l1 c = r at key
    obtain ⟨ms, l0', l1'⟩ := r
    cases ms with
    | nil => exact ih l0' l1' key
    | cons m ms' =>
      rcases key with ⟨pre, hpre⟩ | ⟨hq, hl1⟩ | ⟨hn, h0, h1⟩
      · exact .inl ⟨pre, hpre⟩
      · exact .inr (.inl ⟨hq, hl1⟩)
      · exact .inr (.inr ⟨hn, h0, h1⟩)

theorem settle_progOk (asserts : Bool) (t : Thr) (h : progOk t) : progOk (settle asserts t) := by
  unfold settle
  split
  · exact settleAux_progOk asserts t.l0 t.l1 t.prog (by
      rcases h with ⟨pre, hpre⟩ | ⟨hq, hl1⟩ | ⟨hn, h0, h1⟩
      · exact .inl ⟨pre, hpre⟩
      · exact .inr (.inl ⟨hq, hl1⟩)
      · exact .inr (.inr ⟨hn, h0, h1⟩))
  · exact h


theorem delsI_nonneg (t : Thr) : 0 ≤ delsI t := by simp [delsI]

/-- effect of one visible step on the shared state, for a thread satisfying the invariant -/
theorem micro_ok (asserts : Bool) {s : CSt} (hI : CInv s) {t : Thr} (ht : t ∈ s.thr)
    {m : Micro} {rest : List Micro} (hp : t.pend = m :: rest) :
    let r := microStep asserts s m rest
    let t1 : Thr := { t with pend := r.2.1 }
    r.1.err = none ∧ r.1.thr = s.thr ∧ (r.2.1 ≠ [] → tOk t1) ∧
    (r.1.count : Int) = s.count + contrib t1 - contrib t ∧
    (r.1.destroyed : Int) + delsI t1 + (total delsI s.thr - delsI t) = if r.1.count = 0 then 1 else 0 := by
  obtain ⟨hsh, hc0, hc1⟩ := hI.tok t ht
  have hle : contrib t ≤ s.count := by
    rw [hI.cnt]; exact le_total contrib s.thr (fun t ht => (hI.tok t ht).2.1) t ht
  have hdle : delsI t ≤ total delsI s.thr := le_total delsI s.thr (fun t _ => delsI_nonneg t) t ht
  have hd0 := delsI_nonneg t
  have honce := hI.once
  have herr := hI.noerr
  rw [hp] at hsh
  simp only [contrib, hp] at hc0 hc1 hle
  simp only [delsI, hp] at hdle hd0
  -- enumerate the shapes
  simp [shapes] at hsh
  rcases hsh with ⟨hm, hr⟩ | ⟨hm, hr⟩ | ⟨hm, hr⟩ | ⟨hm, hr⟩ | ⟨hm, hr⟩ | ⟨hm, hr⟩ | ⟨hm, hr⟩ | ⟨hm, hr⟩ | ⟨hm, hr⟩ <;>
    subst hm <;> subst hr
  all_goals simp [touches, pendBal, dels] at hc0 hc1 hle hdle hd0
  -- shapes whose head touches the object: the count is positive, so nothing has been destroyed
  iterate 6
    · have hcz : ¬ s.count = 0 := by omega
      simp only [hcz, if_false] at honce
      have hdz : s.destroyed = 0 := by omega
      by_cases h1 : s.count - 1 = 0 <;> cases asserts <;>
        simp [microStep, uaf, hdz, herr, hcz, h1, tOk, contrib, pendBal, delsI, dels, touches, shapes, hp] <;>
        omega
  -- [del, dload]
  · have hdz : s.destroyed = 0 := by split at honce <;> omega
    have hcz : s.count = 0 := by
      rcases Nat.eq_zero_or_pos s.count with h | h
      · exact h
      · have : ¬ s.count = 0 := by omega
        simp only [this, if_false] at honce; omega
    simp [microStep, hdz, herr, hcz, tOk, contrib, pendBal, delsI, dels, touches, shapes, hp]
    simp [hcz] at honce
    omega
  -- [dload]
  · simp [microStep, herr, tOk, contrib, pendBal, delsI, dels, touches, shapes, hp]
    exact honce
  -- [del]
  · have hdz : s.destroyed = 0 := by split at honce <;> omega
    have hcz : s.count = 0 := by
      rcases Nat.eq_zero_or_pos s.count with h | h
      · exact h
      · have : ¬ s.count = 0 := by omega
        simp only [this, if_false] at honce; omega
    simp [microStep, hdz, herr, hcz, tOk, contrib, pendBal, delsI, dels, touches, shapes, hp]
    simp [hcz] at honce
    omega


theorem settleAux_settled (asserts : Bool) (l0 l1 : Bool) (prog : List Char) :
    (settleAux asserts l0 l1 prog).pend = [] → (settleAux asserts l0 l1 prog).prog = [] := by
  induction prog generalizing l0 l1 with
  | nil => simp [settleAux]
  | cons c rest ih =>
    simp only [settleAux]
    generalize expand asserts l0 l1 c = r
    obtain ⟨ms, l0', l1'⟩ := r
    cases ms with
    | nil => exact ih l0' l1'
    | cons m ms' => simp

theorem settle_settled (asserts : Bool) (t : Thr) :
    (settle asserts t).pend = [] → (settle asserts t).prog = [] := by
  unfold settle
  split
  · exact settleAux_settled asserts t.l0 t.l1 t.prog
  · next h => intro h'; simp [h'] at h

/-- one visible step of any thread preserves the invariant -/
theorem cstep_inv (asserts : Bool) {s s' : CSt} {i : Nat} {ev : String} (hI : CInv s)
    (h : cstep asserts s i = some (s', ev)) : CInv s' := by
  unfold cstep at h
  split at h
  · cases h
  · next t hti =>
    split at h
    · cases h
    · next m rest hp =>
      have hi : i < s.thr.length := by
        rcases Nat.lt_or_ge i s.thr.length with h' | h'
        · exact h'
        · simp [List.getElem?_eq_none h'] at hti
      have hget : s.thr[i] = t := by
        have := List.getElem?_eq_getElem hi
        rw [this] at hti; injection hti
      have ht : t ∈ s.thr := hget ▸ List.getElem_mem hi
      obtain ⟨m1, m2, m3, m4, m5⟩ := micro_ok asserts hI ht hp
      generalize microStep asserts s m rest = r at h m1 m2 m3 m4 m5
      obtain ⟨s1, pend', ev'⟩ := r
      simp only at h m1 m2 m3 m4 m5
      obtain ⟨k1, k2, k3⟩ := settle_ok asserts { t with pend := pend' } m3
      injection h with h
      injection h with h _
      subst h
      have hmem : ∀ u ∈ (s1.thr.set i (settle asserts { t with pend := pend' })),
          u = settle asserts { t with pend := pend' } ∨ u ∈ s.thr := by
        intro u hu
        rcases List.mem_or_eq_of_mem_set hu with h | h
        · right; rw [← m2]; exact h
        · left; exact h
      refine ⟨m1, ?_, ?_, ?_, ?_, ?_⟩
      · show (s1.count : Int) = total contrib (s1.thr.set i _)
        rw [m2, total_set contrib s.thr i _ hi, hget, k2, m4, hI.cnt]; omega
      · intro u hu
        rcases hmem u hu with h | h
        · rw [h]; exact k1
        · exact hI.tok u h
      · intro u hu
        rcases hmem u hu with h | h
        · rw [h]; exact settle_progOk asserts _ (hI.pok t ht)
        · exact hI.pok u h
      · intro u hu
        rcases hmem u hu with h | h
        · rw [h]; exact settle_settled asserts _
        · exact hI.stl u h
      · show (s1.destroyed : Int) + total delsI (s1.thr.set i _) = if s1.count = 0 then 1 else 0
        rw [m2, total_set delsI s.thr i _ hi, hget, k3, ← m5]; omega

/-- the initial state (every thread holds one handle, the creator dropped its own) -/
theorem start_inv (asserts : Bool) (progs : List (List Char)) (hn : progs ≠ []) :
    CInv (CSt.start asserts progs) := by
  have hstart : ∀ t ∈ (progs.map (Thr.start asserts)),
      tOk t ∧ contrib t = 1 ∧ delsI t = 0 ∧ progOk t ∧ (t.pend = [] → t.prog = []) := by
    intro t ht
    obtain ⟨p, _, rfl⟩ := List.mem_map.mp ht
    have h1 := settle_ok asserts { l0 := true, l1 := false, pend := [], prog := p ++ ['r', 'q'] } (by simp)
    have h2 := settle_progOk asserts { l0 := true, l1 := false, pend := [], prog := p ++ ['r', 'q'] }
      (.inl ⟨p, rfl⟩)
    have h3 := settle_settled asserts { l0 := true, l1 := false, pend := [], prog := p ++ ['r', 'q'] }
    refine ⟨h1.1, ?_, ?_, h2, h3⟩
    · rw [Thr.start, h1.2.1]; simp [contrib, own, pendBal]
    · rw [Thr.start, h1.2.2]; simp [delsI, dels]
  have hlen : progs.length ≠ 0 := by
    intro h; exact hn (List.eq_nil_of_length_eq_zero h)
  refine ⟨rfl, ?_, fun t ht => (hstart t ht).1, fun t ht => (hstart t ht).2.2.2.1,
    fun t ht => (hstart t ht).2.2.2.2, ?_⟩
  · show ((progs.length : Nat) : Int) = total contrib (progs.map (Thr.start asserts))
    rw [total_map_const_one contrib _ (fun t ht => (hstart t ht).2.1)]; simp
  · show ((0 : Nat) : Int) + total delsI (progs.map (Thr.start asserts)) = if progs.length = 0 then 1 else 0
    rw [total_zero delsI _ (fun t ht => (hstart t ht).2.2.1)]; simp [hlen]

end TlxVerif.C12
