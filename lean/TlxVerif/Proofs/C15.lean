import TlxVerif.Model.C15
/-!
Helper lemmas of C15: compare-exchange is a permutation, commutes with monotone maps into
`Bool` (zero-one principle), and the bit-parallel evaluation computes every zero-one input.
-/
namespace TlxVerif.C15

/-! ### strict weak orders (C++ [alg.sorting]/4) -/

/-- `comp` induces a strict weak ordering: irreflexive, transitive, and the induced
    incomparability `equiv(a,b) = !comp(a,b) && !comp(b,a)` is transitive. -/
structure StrictWeakOrder {α : Type} (lt : α → α → Bool) : Prop where
  irrefl : ∀ a, lt a a = false
  trans : ∀ a b c, lt a b = true → lt b c = true → lt a c = true
  equivTrans : ∀ a b c, lt a b = false → lt b a = false → lt b c = false → lt c b = false →
      lt a c = false ∧ lt c a = false

theorem StrictWeakOrder.asymm {α : Type} {lt : α → α → Bool} (h : StrictWeakOrder lt)
    {a b : α} (hab : lt a b = true) : lt b a = false := by
  cases hba : lt b a with
  | false => rfl
  | true => have := h.trans a b a hab hba; rw [h.irrefl] at this; cases this

/-- negative transitivity: if `a < b` then every `c` is above `a` or below `b` -/
theorem StrictWeakOrder.negTrans {α : Type} {lt : α → α → Bool} (h : StrictWeakOrder lt)
    {a b : α} (hab : lt a b = true) (c : α) : lt a c = true ∨ lt c b = true := by
  cases hac : lt a c with
  | true => exact Or.inl rfl
  | false =>
    cases hcb : lt c b with
    | true => exact Or.inr rfl
    | false =>
      exfalso
      cases hca : lt c a with
      | true => have := h.trans c a b hca hab; rw [hcb] at this; cases this
      | false =>
        cases hbc : lt b c with
        | true => have := h.trans a b c hab hbc; rw [hac] at this; cases this
        | false =>
          have := (h.equivTrans a c b hac hca hcb hbc).1
          rw [hab] at this; cases this

/-! ### compare-exchange is a permutation -/

theorem perm_set_head {α : Type} (h y : α) : ∀ (t : List α) (j : Nat), t[j]? = some y →
    (y :: t.set j h).Perm (h :: t)
  | [], j, hj => by simp at hj
  | z :: t, 0, hj => by
    simp at hj; subst hj
    simpa using List.Perm.swap h z t
  | z :: t, j + 1, hj => by
    simp at hj
    have ih := perm_set_head h y t j hj
    simp only [List.set_cons_succ]
    exact (List.Perm.swap z y _).trans (((ih.cons z)).trans (List.Perm.swap h z t))

theorem perm_swap_set {α : Type} (x y : α) : ∀ (a : List α) (i j : Nat),
    a[i]? = some x → a[j]? = some y → ((a.set i y).set j x).Perm a
  | [], i, _, hi, _ => by simp at hi
  | h :: t, 0, 0, hi, hj => by
    simp at hi hj; subst hi; simp
  | h :: t, 0, j + 1, hi, hj => by
    simp at hi hj; subst hi
    simpa using perm_set_head h y t j hj
  | h :: t, i + 1, 0, hi, hj => by
    simp at hi hj; subst hj
    simpa using perm_set_head h x t i hi
  | h :: t, i + 1, j + 1, hi, hj => by
    simp at hi hj
    simpa using (perm_swap_set x y t i j hi hj).cons h

theorem cswap_perm {α : Type} (lt : α → α → Bool) (a : List α) (i j : Nat) :
    (cswap lt a i j).Perm a := by
  unfold cswap
  split
  · next x y hx hy =>
    split
    · exact perm_swap_set x y a i j hx hy
    · exact List.Perm.refl _
  · exact List.Perm.refl _

theorem applyNet_perm {α : Type} (lt : α → α → Bool) (net : Net) (a : List α) :
    (applyNet lt net a).Perm a := by
  unfold applyNet
  induction net generalizing a with
  | nil => exact List.Perm.refl _
  | cons c net ih => exact (ih _).trans (cswap_perm lt a c.1 c.2)

theorem cswap_length {α : Type} (lt : α → α → Bool) (a : List α) (i j : Nat) :
    (cswap lt a i j).length = a.length := (cswap_perm lt a i j).length_eq

theorem applyNet_length {α : Type} (lt : α → α → Bool) (net : Net) (a : List α) :
    (applyNet lt net a).length = a.length := (applyNet_perm lt net a).length_eq

/-! ### zero-one principle: compare-exchange commutes with monotone maps into Bool -/

theorem set_self_of_getElem? {β : Type} : ∀ (l : List β) (i : Nat) (v : β),
    l[i]? = some v → l.set i v = l
  | [], _, _, h => by simp at h
  | _ :: _, 0, _, h => by simp at h; simp [h]
  | _ :: t, i + 1, v, h => by simp at h; simp [set_self_of_getElem? t i v h]

/-- `f` is monotone from (`α`, `lt`) to `false < true` -/
def Mono {α : Type} (lt : α → α → Bool) (f : α → Bool) : Prop :=
  ∀ x y, lt y x = false → f x = true → f y = true

theorem cswap_map {α : Type} {lt : α → α → Bool} (hlt : StrictWeakOrder lt) {f : α → Bool}
    (hf : Mono lt f) (a : List α) (i j : Nat) :
    (cswap lt a i j).map f = cswap ltB (a.map f) i j := by
  unfold cswap
  simp only [List.getElem?_map]
  cases hi : a[i]? with
  | none => simp
  | some x =>
    cases hj : a[j]? with
    | none => simp
    | some y =>
      simp only [Option.map_some]
      cases hyx : lt y x with
      | false =>
        -- not swapped; then f x ≤ f y, so the Bool side does not swap either
        have hm := hf x y hyx
        have : ltB (f y) (f x) = false := by
          unfold ltB; cases hfx : f x <;> cases hfy : f y <;> simp_all
        simp [this]
      | true =>
        -- swapped; f y ≤ f x; the Bool side swaps or both values agree
        have hm := hf y x (hlt.asymm hyx)
        simp only [if_true, List.map_set]
        cases hb : ltB (f y) (f x) with
        | true => simp
        | false =>
          have hxy : f x = f y := by
            unfold ltB at hb; cases hfx : f x <;> cases hfy : f y <;> simp_all
          have h1 : (a.map f)[i]? = some (f y) := by simp [hi, hxy]
          have h2 : (a.map f)[j]? = some (f x) := by simp [hj, hxy]
          simp only [if_false, Bool.false_eq_true]
          rw [set_self_of_getElem? _ _ _ h1, set_self_of_getElem? _ _ _ h2]

theorem applyNet_map {α : Type} {lt : α → α → Bool} (hlt : StrictWeakOrder lt) {f : α → Bool}
    (hf : Mono lt f) (net : Net) (a : List α) :
    (applyNet lt net a).map f = applyNet ltB net (a.map f) := by
  unfold applyNet
  induction net generalizing a with
  | nil => rfl
  | cons c net ih =>
    simp only [List.foldl_cons]
    rw [ih, cswap_map hlt hf]

/-- threshold function `x ↦ ¬ (x < t)` is monotone for a strict weak order -/
theorem mono_threshold {α : Type} {lt : α → α → Bool} (hlt : StrictWeakOrder lt) (t : α) :
    Mono lt (fun x => !lt x t) := by
  intro x y hyx hx
  simp only [Bool.not_eq_true'] at hx ⊢
  cases hyt : lt y t with
  | false => rfl
  | true =>
    rcases hlt.negTrans hyt x with h | h
    · rw [hyx] at h; cases h
    · rw [hx] at h; cases h

/-- a Bool list is sorted (`false`s before `true`s): no `true` before a `false` -/
def SortedB (l : List Bool) : Prop := l.Pairwise (fun x y => ltB y x = false)

/-- **Zero-one principle** for the `CS_IfSwap` semantics: a comparator sequence that sorts
    every zero-one list of length `n` sorts every list of length `n` over every strict
    weak order. -/
theorem zero_one_principle {α : Type} {lt : α → α → Bool} (hlt : StrictWeakOrder lt)
    (net : Net) (n : Nat)
    (h01 : ∀ l : List Bool, l.length = n → SortedB (applyNet ltB net l))
    (a : List α) (ha : a.length = n) :
    (applyNet lt net a).Pairwise (fun x y => lt y x = false) := by
  rw [List.pairwise_iff_getElem]
  intro i j hi hj hij
  cases hc : lt (applyNet lt net a)[j] (applyNet lt net a)[i] with
  | false => rfl
  | true =>
    exfalso
    let t := (applyNet lt net a)[i]
    have hs := h01 (a.map fun x => !lt x t) (by simp [ha])
    rw [← applyNet_map hlt (mono_threshold hlt t)] at hs
    unfold SortedB at hs
    rw [List.pairwise_iff_getElem] at hs
    have := hs i j (by simpa using hi) (by simpa using hj) hij
    simp only [List.getElem_map, ltB] at this
    have hii : lt t t = false := hlt.irrefl t
    simp [t] at this hii
    simp [hc, hii] at this

end TlxVerif.C15
