/-
C01/C02 — erase, part A: the five-way underflow table (`decideFix`) always asks for a rebalancing
that can be carried out inside the parent: a merge only with a sibling that is at most half full,
a shift only from a sibling that is more than half full, and only with a sibling under the same
parent.
-/
import TlxVerif.Model.C01Erase
import TlxVerif.Proofs.C01Main
namespace TlxVerif.C01

variable {K V : Type}

/-- the rebalancing `f` can be executed by the parent: the sibling it needs is a child of the same
parent (`lsame` / `rsame`) and has the required fill -/
inductive Applicable (m : Nat) (lu ru : Option Nat) (lsame rsame : Prop) : Fix → Prop
  | mergeL (u : Nat) : lsame → lu = some u → u ≤ m → Applicable m lu ru lsame rsame .mergeL
  | mergeR (u : Nat) : rsame → ru = some u → u ≤ m → Applicable m lu ru lsame rsame .mergeR
  | shiftL (u : Nat) : rsame → ru = some u → m < u → Applicable m lu ru lsame rsame .shiftL
  | shiftR (u : Nat) : lsame → lu = some u → m < u → Applicable m lu ru lsame rsame .shiftR

theorem decideFix_applicable (m : Nat) (lu ru : Option Nat) (lp rp par : Option Nat)
    (hl : lp = par → lu.isSome = true) (hr : rp = par → ru.isSome = true) (hone : lp = par ∨ rp = par)
    (heq : lp = rp → lp = par) :
    ∃ f, decideFix m lu ru lp rp par = some f ∧ Applicable m lu ru (lp = par) (rp = par) f := by
  unfold decideFix
  by_cases hlp : lp = par <;> by_cases hrp : rp = par
  · -- both siblings under the same parent
    obtain ⟨l, rfl⟩ := Option.isSome_iff_exists.mp (hl hlp)
    obtain ⟨r, rfl⟩ := Option.isSome_iff_exists.mp (hr hrp)
    have hlr : lp = rp := by rw [hlp, hrp]
    by_cases h1 : l ≤ m <;> by_cases h2 : r ≤ m
    · refine ⟨.mergeL, by simp [h1, h2, hlp], .mergeL l hlp rfl h1⟩
    · refine ⟨.shiftL, by simp [h1, h2, hrp], .shiftL r hrp rfl (by omega)⟩
    · refine ⟨.shiftR, by simp [h1, h2, hlp], .shiftR l hlp rfl (by omega)⟩
    · by_cases h3 : l ≤ r
      · refine ⟨.shiftL, by simp [h1, h2, hlr, h3], .shiftL r hrp rfl (by omega)⟩
      · refine ⟨.shiftR, by simp [h1, h2, hlr, h3], .shiftR l hlp rfl (by omega)⟩
  · -- only the left sibling is under the same parent
    obtain ⟨l, rfl⟩ := Option.isSome_iff_exists.mp (hl hlp)
    have hne : ¬ lp = rp := fun h => hrp (by rw [← h, hlp])
    have hne' : ¬ par = rp := fun h => hrp h.symm
    by_cases h1 : l ≤ m
    · cases ru with
      | none => refine ⟨.mergeL, by simp [h1, hlp], .mergeL l hlp rfl h1⟩
      | some r =>
        by_cases h2 : r ≤ m
        · refine ⟨.mergeL, by simp [h1, h2, hlp], .mergeL l hlp rfl h1⟩
        · refine ⟨.mergeL, by simp [h1, h2, hrp], .mergeL l hlp rfl h1⟩
    · cases ru with
      | none => refine ⟨.shiftR, by simp [h1, hne, hne', hlp], .shiftR l hlp rfl (by omega)⟩
      | some r =>
        by_cases h2 : r ≤ m
        · refine ⟨.shiftR, by simp [h1, h2, hlp], .shiftR l hlp rfl (by omega)⟩
        · refine ⟨.shiftR, by simp [h1, h2, hne, hne', hlp], .shiftR l hlp rfl (by omega)⟩
  · -- only the right sibling is under the same parent
    obtain ⟨r, rfl⟩ := Option.isSome_iff_exists.mp (hr hrp)
    have hne : ¬ lp = rp := fun h => hlp (by rw [h, hrp])
    by_cases h2 : r ≤ m
    · cases lu with
      | none => refine ⟨.mergeR, by simp [h2, hlp], .mergeR r hrp rfl h2⟩
      | some l =>
        by_cases h1 : l ≤ m
        · refine ⟨.mergeR, by simp [h1, h2, hlp], .mergeR r hrp rfl h2⟩
        · refine ⟨.mergeR, by simp [h1, h2, hlp], .mergeR r hrp rfl h2⟩
    · cases lu with
      | none => refine ⟨.shiftL, by simp [h2, hne, hlp], .shiftL r hrp rfl (by omega)⟩
      | some l =>
        by_cases h1 : l ≤ m
        · refine ⟨.shiftL, by simp [h1, h2, hrp], .shiftL r hrp rfl (by omega)⟩
        · refine ⟨.shiftL, by simp [h1, h2, hne, hlp], .shiftL r hrp rfl (by omega)⟩
  · exact absurd hone (by simp [hlp, hrp])

end TlxVerif.C01
