import TlxVerif.Proofs.C14Compress
/-!
C14 — from the class parameters to the standards: padding, initial values, output.
-/
namespace TlxVerif.C14

theorem mdDigest_congr {S : Type} (P : Params S) (g : S → Bytes → S) (I : S → Prop)
    (h0 : I P.init)
    (hc : ∀ s b, I s → b.length = P.blockSize → P.compress s b = g s b)
    (hI : ∀ s b, I s → b.length = P.blockSize → I (g s b)) (msg : Bytes) :
    mdDigest P msg = P.output ((toBlocks P.blockSize (mdPad P msg)).foldl g P.init) := by
  unfold mdDigest
  have hm := toBlocks_mem_length P.blockSize (mdPad P msg).length (mdPad P msg) (Nat.le_refl _)
  rw [(foldl_congr_inv I P.compress g _ P.init h0 (fun s b hs hb => hc s b hs (hm b hb))
    (fun s b hs hb => hI s b hs (hm b hb))).1]

theorem leBytes_length {w : Nat} (n : Nat) (x : BitVec w) : (leBytes n x).length = n := by simp [leBytes]
theorem beBytes_length {w : Nat} (n : Nat) (x : BitVec w) : (beBytes n x).length = n := by simp [beBytes, leBytes]

theorem zipWith_add_len {w : Nat} (a b : List (BitVec w)) (n : Nat) (ha : a.length = n) (hb : b.length = n) :
    (List.zipWith (· + ·) a b).length = n := by simp [ha, hb]

/-! ### well-formedness of the four parameter sets (constants read from the sources) -/

theorem storeLoop_length {w : Nat} (n : Nat) (sh : Nat → Nat) (x : BitVec w) : (Model.storeLoop n sh x).length = n := by
  simp [Model.storeLoop]

theorem md5_wf : Model.MD5.params.WF :=
  ⟨by decide, by decide, by decide, by decide, fun x => storeLoop_length 8 _ x⟩
theorem sha1_wf : Model.SHA1.params.WF :=
  ⟨by decide, by decide, by decide, by decide, fun x => storeLoop_length 8 _ x⟩
theorem sha256_wf : Model.SHA256.params.WF :=
  ⟨by decide, by decide, by decide, by decide, fun x => storeLoop_length 8 _ x⟩
theorem sha512_wf : Model.SHA512.params.WF :=
  ⟨by decide, by decide, by decide, by decide, fun x => storeLoop_length 8 _ x⟩

/-- the store helpers of the classes are the byte-order conversions of the standards -/
theorem md5_stores : Model.MD5.params.storeLen = leBytes 8 ∧
    Model.MD5.params.output = fun s => s.flatMap (leBytes 4) :=
  ⟨funext storeL8_eq, funext fun s => by
    show s.flatMap (Model.storeLoop 4 _) = _; congr 1; exact funext storeL4_eq⟩
theorem sha1_stores : Model.SHA1.params.storeLen = beBytes 8 ∧
    Model.SHA1.params.output = fun s => s.flatMap (beBytes 4) :=
  ⟨funext storeH8_eq, funext fun s => by
    show s.flatMap (Model.storeLoop 4 _) = _; congr 1; exact funext storeH4_eq⟩
theorem sha256_stores : Model.SHA256.params.storeLen = beBytes 8 ∧
    Model.SHA256.params.output = fun s => s.flatMap (beBytes 4) :=
  ⟨funext storeH8_eq, funext fun s => by
    show s.flatMap (Model.storeLoop 4 _) = _; congr 1; exact funext storeH4_eq⟩
theorem sha512_stores : Model.SHA512.params.storeLen = beBytes 8 ∧
    Model.SHA512.params.output = fun s => s.flatMap (beBytes 8) :=
  ⟨funext storeH8_eq, funext fun s => by
    show s.flatMap (Model.storeLoop 8 _) = _; congr 1; exact funext storeH8_eq⟩

/-! ### compress preserves the number of state words -/

theorem md5_rounds_len (X : List (BitVec 32)) : ∀ (l : List Nat) (S : List (BitVec 32)), S.length = 4 →
    (l.foldl (Spec.MD5.step X) S).length = 4
  | [], S, h => h
  | i :: l, S, h => md5_rounds_len X l _ (md5_step_len X S h i)

theorem sha256_rounds_len (W : List (BitVec 32)) : ∀ (l : List Nat) (S : List (BitVec 32)), S.length = 8 →
    (l.foldl (Spec.SHA256.round W) S).length = 8
  | [], S, h => h
  | i :: l, S, h => sha256_rounds_len W l _ (sha256_round_len W S h i)

theorem md5_compress_len (s : List (BitVec 32)) (b : Bytes) (h : s.length = 4) :
    (Spec.MD5.compress s b).length = 4 :=
  zipWith_add_len _ _ 4 h (md5_rounds_len _ _ s h)
theorem sha1_compress_len (s : List (BitVec 32)) (b : Bytes) (h : s.length = 5) :
    (Spec.SHA1.compress s b).length = 5 :=
  zipWith_add_len _ _ 5 h (sha1_rounds_len _ _ s h)
theorem sha256_compress_len (s : List (BitVec 32)) (b : Bytes) (h : s.length = 8) :
    (Spec.SHA256.compress s b).length = 8 :=
  zipWith_add_len _ _ 8 h (sha256_rounds_len _ _ s h)
theorem sha512_compress_len (s : List (BitVec 64)) (b : Bytes) (h : s.length = 8) :
    (Spec.SHA512.compress s b).length = 8 :=
  zipWith_add_len _ _ 8 h (sha512_rounds_len _ _ s h)

/-! ### the class-level digest is the digest of the standard -/

/-- MD5 / SHA-1 / SHA-256: block 64, length at 56: the class padding is the padding of the
    standards (with the class' own length encoding) -/
theorem mdPad_std {S : Type} (P : Params S) (hbs : P.blockSize = 64) (hpl : P.padLimit = 56) (hlp : P.lenPos = 56)
    (msg : Bytes) : mdPad P msg = Spec.pad 64 8 (fun n => P.storeLen (BitVec.ofNat 64 n)) msg := by
  unfold mdPad Spec.pad
  rw [hbs, hpl, hlp]
  simp

theorem md5_mdDigest (msg : Bytes) : mdDigest Model.MD5.params msg = Spec.MD5.hash msg := by
  rw [mdDigest_congr Model.MD5.params Spec.MD5.compress (fun s => s.length = 4) (by decide)
    (fun s b hs hb => md5_compress_eq s b hs hb) (fun s b hs _ => md5_compress_len s b hs)]
  rw [mdPad_std _ rfl rfl rfl]
  have hi : Model.MD5.params.init = Spec.MD5.A0 := md5_tables.2.1
  rw [hi, md5_stores.1, md5_stores.2]
  rfl

theorem sha1_mdDigest (msg : Bytes) : mdDigest Model.SHA1.params msg = Spec.SHA1.hash msg := by
  rw [mdDigest_congr Model.SHA1.params Spec.SHA1.compress (fun s => s.length = 5) (by decide)
    (fun s b hs hb => sha1_compress_eq s b hs hb) (fun s b hs _ => sha1_compress_len s b hs)]
  rw [mdPad_std _ rfl rfl rfl]
  have hi : Model.SHA1.params.init = Spec.SHA1.H0 := sha1_tables.1
  rw [hi, sha1_stores.1, sha1_stores.2]
  rfl

theorem sha256_mdDigest (msg : Bytes) : mdDigest Model.SHA256.params msg = Spec.SHA256.hash msg := by
  rw [mdDigest_congr Model.SHA256.params Spec.SHA256.compress (fun s => s.length = 8) (by decide)
    (fun s b hs hb => sha256_compress_eq s b hs hb) (fun s b hs _ => sha256_compress_len s b hs)]
  rw [mdPad_std _ rfl rfl rfl]
  have hi : Model.SHA256.params.init = Spec.SHA256.H0 := sha256_tables.2.1
  rw [hi, sha256_stores.1, sha256_stores.2]
  rfl

/-! ### SHA-512: 128-bit length field whose upper half the code fills with zero bytes -/

theorem byte_lo (n i : Nat) (hn : n < 2 ^ 64) :
    ((BitVec.ofNat 128 n) >>> (8 * i)).setWidth 8 = ((BitVec.ofNat 64 n) >>> (8 * i)).setWidth 8 := by
  apply BitVec.eq_of_toNat_eq
  simp only [BitVec.toNat_setWidth, BitVec.toNat_ushiftRight, BitVec.toNat_ofNat]
  rw [Nat.mod_eq_of_lt (a := n) (b := 2 ^ 128) (by omega), Nat.mod_eq_of_lt (a := n) (b := 2 ^ 64) hn]

theorem byte_hi (n i : Nat) (hn : n < 2 ^ 64) :
    ((BitVec.ofNat 128 n) >>> (8 * (8 + i))).setWidth 8 = 0#8 := by
  apply BitVec.eq_of_toNat_eq
  simp only [BitVec.toNat_setWidth, BitVec.toNat_ushiftRight, BitVec.toNat_ofNat]
  rw [Nat.mod_eq_of_lt (a := n) (b := 2 ^ 128) (by omega), Nat.shiftRight_eq_div_pow]
  have hp : 2 ^ 64 ≤ 2 ^ (8 * (8 + i)) := Nat.pow_le_pow_right (by omega) (by omega)
  rw [Nat.div_eq_of_lt (by omega)]

theorem beBytes16_of_lt (n : Nat) (hn : n < 2 ^ 64) :
    beBytes 16 (BitVec.ofNat 128 n) = List.replicate 8 0#8 ++ beBytes 8 (BitVec.ofNat 64 n) := by
  unfold beBytes leBytes
  have h16 : List.range 16 = List.range 8 ++ (List.range 8).map (fun x => 8 + x) := List.range_add (n := 8) (m := 8)
  rw [h16, List.map_append, List.reverse_append, List.map_map]
  congr 1
  · have : (List.map ((fun i => BitVec.setWidth 8 (BitVec.ofNat 128 n >>> (8 * i))) ∘ fun x => 8 + x) (List.range 8)) =
        (List.range 8).map (fun _ => 0#8) := by
      apply List.map_congr_left
      intro i _
      exact byte_hi n i hn
    rw [this]
    rfl
  · congr 1
    apply List.map_congr_left
    intro i _
    exact byte_lo n i hn

theorem sha512_mdPad (msg : Bytes) (hlen : 8 * msg.length < 2 ^ 64) :
    mdPad Model.SHA512.params msg = Spec.pad 128 16 (fun n => beBytes 16 (BitVec.ofNat 128 n)) msg := by
  unfold mdPad Spec.pad
  have hbs : Model.SHA512.params.blockSize = 128 := rfl
  have hpl : Model.SHA512.params.padLimit = 112 := rfl
  have hlp : Model.SHA512.params.lenPos = 120 := rfl
  rw [hbs, hpl, hlp, sha512_stores.1]
  show _ = msg ++ [128#8] ++ List.replicate (Spec.padZeros 128 16 (List.length msg)) 0#8 ++
      beBytes 16 (BitVec.ofNat 128 (8 * List.length msg))
  rw [beBytes16_of_lt _ hlen]
  simp only [List.append_assoc]

/-- for messages of fewer than 2^64 bits (the 64-bit `length_` counter; FIPS 180-4 allows 2^128) -/
theorem sha512_mdDigest (msg : Bytes) (hlen : 8 * msg.length < 2 ^ 64) :
    mdDigest Model.SHA512.params msg = Spec.SHA512.hash msg := by
  rw [mdDigest_congr Model.SHA512.params Spec.SHA512.compress (fun s => s.length = 8) (by decide)
    (fun s b hs hb => sha512_compress_eq s b hs hb) (fun s b hs _ => sha512_compress_len s b hs)]
  rw [sha512_mdPad msg hlen]
  have hi : Model.SHA512.params.init = Spec.SHA512.H0 := sha512_tables.2.1
  rw [hi, sha512_stores.2]
  rfl

end TlxVerif.C14
