import TlxVerif.Proofs.C16Arith
/-! Refinement relation between the ring-buffer state and a bounded deque, and
the step lemmas for every member function. -/
namespace TlxVerif.C16

/-- `Rep k r xs`: the buffer `r` (capacity `2^k`) represents the deque `xs`, and a slot of
`data_` holds a live element object **iff** it is one of the stored elements. -/
structure Rep (k : Nat) (r : RB) (xs : List Elem) : Prop where
  hk : k ≤ 63
  data : r.hasData = true
  cap : r.cap = 2 ^ k
  mask : r.mask = 2 ^ k - 1
  len : r.slots.length = 2 ^ k
  hb : r.b < 2 ^ k
  he : r.e = (r.b + xs.length) % 2 ^ k
  fits : xs.length ≤ r.maxSize
  room : r.maxSize < 2 ^ k
  slot : ∀ j, j < 2 ^ k → r.slots[(r.b + j) % 2 ^ k]? = some xs[j]?

section idx
variable {c b j j' : Nat}

theorem idx_lt (hc : 0 < c) : (b + j) % c < c := Nat.mod_lt _ hc

theorem idx_inj (hb : b < c) (hj : j < c) (hj' : j' < c) (h : (b + j) % c = (b + j') % c) : j = j' := by
  rw [mod_wrap (by omega), mod_wrap (by omega)] at h
  split at h <;> split at h <;> omega

theorem idx_succ : ((b + j) % c + 1) % c = (b + (j + 1)) % c := by
  rw [← Nat.add_assoc, Nat.add_mod (b + j) 1 c, Nat.add_mod ((b + j) % c) 1 c, Nat.mod_mod]

theorem idx_pred (hb : b < c) (hj : j < c) : ((b + c - 1) % c + (j + 1)) % c = (b + j) % c := by
  have hc : 0 < c := by omega
  rw [mod_wrap (show b + c - 1 < 2 * c by omega)]
  split
  · -- b = 0
    have : b = 0 := by omega
    subst this
    rw [mod_wrap (show 0 + c - 1 + (j + 1) < 2 * c by omega), mod_wrap (show 0 + j < 2 * c by omega)]
    split <;> split <;> omega
  · rw [mod_wrap (show b + c - 1 - c + (j + 1) < 2 * c by omega), mod_wrap (show b + j < 2 * c by omega)]
    split <;> split <;> omega

theorem idx_pred0 : ((b + c - 1) % c + 0) % c = (b + c - 1) % c := by
  simp
end idx

variable {k : Nat} {r : RB} {xs : List Elem}

theorem Rep.pos (_h : Rep k r xs) : 0 < 2 ^ k := Nat.pow_pos (by decide)

theorem Rep.len_lt (h : Rep k r xs) : xs.length < 2 ^ k := Nat.lt_of_le_of_lt h.fits h.room

theorem Rep.he_lt (h : Rep k r xs) : r.e < 2 ^ k := by rw [h.he]; exact Nat.mod_lt _ h.pos

/-- `size()` reports the length of the represented deque -/
theorem Rep.size (h : Rep k r xs) : r.size = xs.length := by
  unfold RB.size
  rw [h.mask, size_eq' h.hk h.hb h.he_lt, h.he]
  have hl := h.len_lt; have hb := h.hb
  rw [mod_wrap (show r.b + xs.length < 2 * 2 ^ k by omega)]
  split
  · rw [mod_wrap (by omega)]; split <;> omega
  · rw [mod_wrap (by omega)]; split <;> omega

theorem Rep.empty (h : Rep k r xs) : r.empty = xs.isEmpty := by
  unfold RB.empty; rw [h.size]; cases xs <;> simp

/-- indexing -/
theorem Rep.at (h : Rep k r xs) {i : Nat} (hi : i < xs.length) : r.at? i = xs[i]? := by
  unfold RB.at?
  rw [h.mask, and_mask, h.slot i (Nat.lt_trans hi h.len_lt)]
  simp

theorem Rep.front (h : Rep k r xs) (hne : xs ≠ []) : r.front? = xs.head? := by
  have h0 := h.slot 0 h.pos
  unfold RB.front?
  rw [Nat.add_zero, Nat.mod_eq_of_lt h.hb] at h0
  rw [h0]; cases xs <;> simp at *

theorem Rep.back (h : Rep k r xs) (hne : xs ≠ []) : r.back? = xs.getLast? := by
  unfold RB.back?
  have hd := decr_eq h.hk h.he_lt
  unfold decr at hd
  rw [h.mask, hd, h.he]
  have hl : 0 < xs.length := List.length_pos_iff.mpr hne
  have hlt := h.len_lt
  have : ((r.b + xs.length) % 2 ^ k + 2 ^ k - 1) % 2 ^ k = (r.b + (xs.length - 1)) % 2 ^ k := by
    have hb := h.hb
    rw [mod_wrap (show r.b + xs.length < 2 * 2 ^ k by omega)]
    split
    · rw [mod_wrap (by omega), mod_wrap (by omega)]; split <;> split <;> omega
    · rw [mod_wrap (by omega), mod_wrap (by omega)]; split <;> split <;> omega
  rw [this, h.slot _ (by omega)]
  simp [List.getLast?_eq_getElem?]

/-- a slot holds a live object iff it is one of the `xs.length` stored elements -/
theorem Rep.alive_iff (h : Rep k r xs) {j : Nat} (hj : j < 2 ^ k) :
    (r.slots[(r.b + j) % 2 ^ k]?).join.isSome = decide (j < xs.length) := by
  rw [h.slot j hj]
  by_cases hl : j < xs.length <;> simp [hl]

theorem Rep.new {max : Nat} (hmax : max < 2 ^ 63) : ∃ k, Rep k (RB.new max) [] := by
  unfold RB.new RB.allocate roundUpPow2
  simp only [Nat.add_sub_cancel]
  split
  · refine ⟨0, ?_⟩
    constructor <;> simp <;> omega
  · rename_i hgt
    refine ⟨Nat.log2 max + 1, ?_⟩
    have hlog : Nat.log2 max < 63 := (Nat.log2_lt (by omega)).mpr hmax
    have hlt := @Nat.lt_log2_self max
    have hp : 0 < 2 ^ (Nat.log2 max + 1) := Nat.pow_pos (by decide)
    constructor <;> simp
    · omega
    · exact hp
    · exact hlt
    · intro j _; simp [List.getElem?_replicate, Nat.mod_lt _ hp]

end TlxVerif.C16
