/-
C01/C02 — erase, part F: the rebalancing operations keep every separator equivalent to the
largest key below it (explicit forms of merge / shift on two adjacent children `X`, `Y` with
their separator `sep`).
-/
import TlxVerif.Model.C01Erase
import TlxVerif.Proofs.C01SepSeq
import TlxVerif.Proofs.C01Inv
namespace TlxVerif.C01

variable {K V : Type}

/-- splitting the separator relation around an adjacent pair -/
theorem sepSeq_pair (p : Params K) (h : Nat) (A B : List (BNode K V)) (KA KB : List K) (sep : K) (X Y : BNode K V)
    (hKA : KA.length = A.length) :
    SepSeq p h (KA ++ sep :: KB) (A ++ X :: Y :: B) ↔
      SepSeq p h KA A ∧ SepFits p h sep X ∧ SepSeq p h KB (Y :: B) := by
  rw [sepSeq_append p h KA (sep :: KB) A (X :: Y :: B) hKA, sepSeq_cons]

theorem sepSeq_head_congr (p : Params K) (h : Nat) (KB : List K) (Y Y' : BNode K V) (B : List (BNode K V))
    (hl : (flatten h Y').getLast? = (flatten h Y).getLast?) (hs : SepSeq p h KB (Y :: B)) :
    SepSeq p h KB (Y' :: B) := by
  cases KB with
  | nil => exact sepSeq_nil p h _
  | cons k0 KB' =>
    rw [sepSeq_cons] at hs ⊢
    obtain ⟨⟨e, he, hq⟩, hs'⟩ := hs
    exact ⟨⟨e, by rw [hl]; exact he, hq⟩, hs'⟩

/-- after a merge: the surviving node takes over the separator of the right node -/
theorem sep_after_merge (p : Params K) (h : Nat) (A B : List (BNode K V)) (KA KB : List K) (sep : K)
    (X Y M : BNode K V) (hKA : KA.length = A.length)
    (hl : (flatten h M).getLast? = (flatten h Y).getLast?)
    (hs : SepSeq p h (KA ++ sep :: KB) (A ++ X :: Y :: B)) :
    SepSeq p h (KA ++ KB) (A ++ M :: B) := by
  obtain ⟨h1, _, h3⟩ := (sepSeq_pair p h A B KA KB sep X Y hKA).mp hs
  rw [sepSeq_append p h KA KB A (M :: B) hKA]
  exact ⟨h1, sepSeq_head_congr p h KB Y M B hl h3⟩

/-- on level 1 the key of the surviving leaf is refreshed from its last entry -/
theorem sep_after_merge_refresh (p : Params K) (sw : StrictWeak p.lt) (h : Nat) (A B : List (BNode K V))
    (KA KB : List K) (M : BNode K V) (e : K × V) (hKA : KA.length = A.length)
    (he : (flatten h M).getLast? = some e)
    (hs : SepSeq p h (KA ++ KB) (A ++ M :: B)) :
    SepSeq p h ((KA ++ KB).set A.length e.1) (A ++ M :: B) := by
  rw [sepSeq_append p h KA KB A (M :: B) hKA] at hs
  have hset : (KA ++ KB).set A.length e.1 = KA ++ KB.set 0 e.1 := by
    rw [← hKA, List.set_append_right _ _ (Nat.le_refl _), Nat.sub_self]
  rw [hset, sepSeq_append p h KA _ A (M :: B) hKA]
  refine ⟨hs.1, ?_⟩
  cases KB with
  | nil => exact sepSeq_nil p h _
  | cons k0 KB' =>
    simp only [List.set_cons_zero]
    rw [sepSeq_cons] at hs ⊢
    exact ⟨sepFits_refl_last p sw h M e he, hs.2.2⟩

/-- after a shift: the separator of the pair is replaced by a key that fits the new left node,
the right node keeps its last entry -/
theorem sep_after_shift (p : Params K) (h : Nat) (A B : List (BNode K V)) (KA KB : List K) (sep up : K)
    (X Y X' Y' : BNode K V) (hKA : KA.length = A.length)
    (hup : SepFits p h up X') (hl : (flatten h Y').getLast? = (flatten h Y).getLast?)
    (hs : SepSeq p h (KA ++ sep :: KB) (A ++ X :: Y :: B)) :
    SepSeq p h ((KA ++ sep :: KB).set A.length up) (A ++ X' :: Y' :: B) := by
  obtain ⟨h1, _, h3⟩ := (sepSeq_pair p h A B KA KB sep X Y hKA).mp hs
  have hset : (KA ++ sep :: KB).set A.length up = KA ++ up :: KB := by
    rw [← hKA, List.set_append_right _ _ (Nat.le_refl _), Nat.sub_self]; rfl
  rw [hset, sepSeq_pair p h A B KA KB up X' Y' hKA]
  exact ⟨h1, hup, sepSeq_head_congr p h KB Y Y' B hl h3⟩

/-! ### separators inside merged / shifted inner nodes -/

/-- a node's last entry is the last entry of its last child -/
theorem inner_last (h l : Nat) (ks : List K) (cs' : List (BNode K V)) (cl : BNode K V) (hne : flatten h cl ≠ []) :
    (flatten (h + 1) (BNode.inner l ks (cs' ++ [cl]))).getLast? = (flatten h cl).getLast? := by
  simp only [flatten]
  exact getLast?_flatMap_concat (flatten h) cs' cl hne

theorem list_concat_of_length {α : Type} (l : List α) (n : Nat) (h : l.length = n + 1) :
    ∃ l' x, l = l' ++ [x] ∧ l'.length = n := by
  have hne : l ≠ [] := by intro h'; subst h'; simp at h
  refine ⟨l.dropLast, l.getLast hne, (List.dropLast_concat_getLast hne).symm, ?_⟩
  simp [List.length_dropLast]; omega

/-- separators of the concatenation `inner (xk ++ sep :: yk) (xc ++ yc)` used by merge_inner and both
inner shifts: the pulled-down separator `sep` sits over the last child of the left part -/
theorem sepSeq_glue (p : Params K) (h : Nat) (xk yk : List K) (xc yc : List (BNode K V)) (sep : K) (lx : Nat)
    (X : BNode K V) (hX : X = .inner lx xk xc) (hxa : xc.length = xk.length + 1)
    (hne : ∀ c ∈ xc, flatten h c ≠ [])
    (hsx : SepSeq p h xk xc) (hsep : SepFits p (h + 1) sep X) (hsy : SepSeq p h yk yc) :
    SepSeq p h (xk ++ sep :: yk) (xc ++ yc) := by
  obtain ⟨xc', xl, hxc, hxl⟩ := list_concat_of_length xc xk.length hxa
  subst hxc
  have hfit : SepFits p h sep xl := by
    obtain ⟨e, he, hq⟩ := hsep
    rw [hX, inner_last h lx xk xc' xl (hne xl (by simp))] at he
    exact ⟨e, he, hq⟩
  rw [List.append_assoc, List.singleton_append, sepSeq_append p h xk (sep :: yk) xc' (xl :: yc) hxl.symm, sepSeq_cons]
  refine ⟨?_, hfit, hsy⟩
  have := sepSeq_take p h xk (xc' ++ [xl]) xk.length xk.length hsx
  simpa [hxl] using this

theorem flatMap_flatten_ne_nil (p : Params K) (pv : p.Valid) (h : Nat) (cs : List (BNode K V))
    (hcs : ∀ c ∈ cs, Shape p h c) (hne : cs ≠ []) : cs.flatMap (flatten h) ≠ [] := by
  cases cs with
  | nil => exact absurd rfl hne
  | cons c cs' =>
    simp only [List.flatMap_cons]
    intro he
    exact flatten_ne_nil p pv h c (hcs c List.mem_cons_self) (List.append_eq_nil_iff.mp he).1

theorem last_flatMap_drop (p : Params K) (pv : p.Valid) (h : Nat) (cs : List (BNode K V)) (j : Nat)
    (hcs : ∀ c ∈ cs, Shape p h c) (hj : j < cs.length) :
    ((cs.drop j).flatMap (flatten h)).getLast? = (cs.flatMap (flatten h)).getLast? := by
  conv => rhs; rw [← List.take_append_drop j cs, List.flatMap_append]
  rw [getLast?_append_of_ne_nil]
  apply flatMap_flatten_ne_nil p pv h
  · intro c hc; exact hcs c (List.mem_of_mem_drop hc)
  · intro he
    have := congrArg List.length he
    simp only [List.length_drop, List.length_nil] at this
    omega

theorem last_flatMap_take_fits (p : Params K) (h : Nat) (ks : List K) (cs : List (BNode K V)) (m : Nat) (k : K)
    (hs : SepSeq p h ks cs) (hk : ks[m]? = some k) (hm : m < cs.length) (pre : List (K × V)) :
    ∃ e, (pre ++ (cs.take (m + 1)).flatMap (flatten h)).getLast? = some e ∧ p.eqv k e.1 = true := by
  obtain ⟨e, he, hq⟩ := hs m k cs[m] hk (List.getElem?_eq_getElem hm)
  refine ⟨e, ?_, hq⟩
  have h1 := getLast?_flatMap_take (flatten h) cs m cs[m] e (List.getElem?_eq_getElem hm) he
  rw [List.getLast?_append, h1]
  rfl

end TlxVerif.C01
