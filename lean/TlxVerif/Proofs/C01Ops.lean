/-
C01/C02 — every single-register operation of the machine (Model/C01Machine.lean) on a tree satisfying
the invariant: defined, keeps the invariant, has the abstract container's effect and answer, and its
ledger balances the change of the number of nodes (`Bal`).
-/
import TlxVerif.Model.C01Machine
import TlxVerif.Proofs.C01Walk
import TlxVerif.Proofs.C01InsValid
import TlxVerif.Proofs.C01EraseH
import TlxVerif.Proofs.C01StdOrder
import TlxVerif.Proofs.C01Bulk
import TlxVerif.Proofs.C01Copy
namespace TlxVerif.C01

/-! ### comparators of the harness -/

theorem orderLt_strictWeak (m : Nat) : StrictWeak (orderLt m) := by
  refine ⟨?_, ?_, ?_⟩
  · intro a; unfold orderLt; split <;> simp
  · intro a b c; unfold orderLt; split <;> simp <;> omega
  · intro a b c; unfold orderLt; split <;> simp <;> omega

theorem Cfg.params_valid (c : Cfg) (pv : c.p.Valid) (m : Nat) : (c.params m).Valid := ⟨pv.leaf4, pv.inner4⟩
theorem Cfg.params_sw (c : Cfg) (m : Nat) : StrictWeak (c.params m).lt := orderLt_strictWeak m

/-! ### ledger balance -/

/-- nodes before + allocated = nodes after + freed, for leaves and for inner nodes -/
def Bal (tb ta : T) (lg : Ledger) : Prop :=
  tb.nLeaves + lg.leafAlloc = ta.nLeaves + lg.leafFree ∧ tb.nInner + lg.innerAlloc = ta.nInner + lg.innerFree

theorem Bal.refl (t : T) : Bal t t {} := by simp [Bal]
theorem Bal.trans {a b c : T} {l1 l2 : Ledger} (h1 : Bal a b l1) (h2 : Bal b c l2) : Bal a c (l1.add l2) := by
  simp only [Bal, Ledger.add] at *; omega

theorem Ledger.add_assoc (a b c : Ledger) : (a.add b).add c = a.add (b.add c) := by
  simp [Ledger.add, Nat.add_assoc]
theorem Ledger.add_empty (a : Ledger) : a.add {} = a := by simp [Ledger.add]
theorem Ledger.empty_add (a : Ledger) : ({} : Ledger).add a = a := by simp [Ledger.add]

/-! ### bridges to the names used by the proofs -/

theorem lbOf_eq (p : Params Nat) (k : Nat) (l : List Ent) : lbOf p k l = lbIdx p.lt k l := rfl
theorem ubOf_eq (p : Params Nat) (k : Nat) (l : List Ent) : ubOf p k l = ubIdx p.lt k l := rfl
theorem hasKey_eq (p : Params Nat) (k : Nat) (l : List Ent) : hasKey p k l = presentOpt p k (l[lbIdx p.lt k l]?) := by
  unfold hasKey presentOpt lbOf lbIdx
  cases l[List.findIdx (fun e => !p.lt e.1 k) l]? <;> rfl
theorem specEr1_eq (p : Params Nat) (l : List Ent) (k : Nat) : specEr1 p l k = Spec.eraseOne p l k := by
  unfold specEr1 Spec.eraseOne
  rw [hasKey_eq]; rfl

/-! ### insert -/

theorem specIns_sorted (p : Params Nat) (sw : StrictWeak p.lt) (l : List Ent) (hs : SortedE p.lt l) (k v : Nat) :
    SortedE p.lt (specIns p l k v).1 := by
  unfold specIns
  split
  · exact hs
  · exact sortedE_insert_lb sw l hs k v

theorem ins_step (p : Params Nat) (pv : p.Valid) (sw : StrictWeak p.lt) (t : T) (ht : TreeInv p t) (k v : Nat) :
    ∃ res, insert p t k v = some res ∧ TreeInv p res.tree ∧ res.tree.toList = (specIns p t.toList k v).1 ∧
      res.inserted = (specIns p t.toList k v).2 ∧
      rankOf res.tree.leafChain (some res.pos) = lbOf p k t.toList ∧ ValidPos res.tree.leafChain res.pos ∧
      Bal t res.tree res.ledger := by
  obtain ⟨res, hres⟩ := insert_total p pv t ht.1 k v
  have h1 := insert_treeInv p pv sw t ht k v res hres
  have h2 := insert_toList p pv sw t ht k v res hres
  have h3 := insert_inserted p pv sw t ht k v res hres
  have h4 := insert_pos p pv sw t ht k v res hres
  have h5 := insert_valid p pv t ht k v res hres
  obtain ⟨_, b1, b2, b3, b4⟩ := insert_treeShape p pv t ht.1 k v res hres
  refine ⟨res, hres, h1, ?_, ?_, h4, h5, ?_⟩
  · rw [h2, h3]; unfold specIns; rw [hasKey_eq, lbOf_eq]
    cases (!p.dup && presentOpt p k (t.toList[lbIdx p.lt k t.toList]?)) <;> rfl
  · rw [h3]; unfold specIns; rw [hasKey_eq]
    cases (!p.dup && presentOpt p k (t.toList[lbIdx p.lt k t.toList]?)) <;> rfl
  · simp only [Bal]; omega

theorem insMany_step (p : Params Nat) (pv : p.Valid) (sw : StrictWeak p.lt) :
    ∀ (es : List Ent) (t : T) (lg0 : Ledger), TreeInv p t →
      ∃ t' d, insertMany p es t lg0 = some (t', lg0.add d) ∧ TreeInv p t' ∧
        t'.toList = specInsMany p es t.toList ∧ Bal t t' d := by
  intro es
  induction es with
  | nil => intro t lg0 ht; exact ⟨t, {}, by simp [insertMany, Ledger.add_empty], ht, rfl, Bal.refl t⟩
  | cons e es ih =>
    intro t lg0 ht
    obtain ⟨res, hres, h1, h2, _, _, _, hb⟩ := ins_step p pv sw t ht e.1 e.2
    obtain ⟨t', d, i1, i2, i3, i4⟩ := ih res.tree (lg0.add res.ledger) h1
    refine ⟨t', res.ledger.add d, ?_, i2, ?_, hb.trans i4⟩
    · simp only [insertMany, hres, i1, Ledger.add_assoc]
    · rw [i3, h2]; rfl

/-! ### erase -/

theorem er1_step (p : Params Nat) (pv : p.Valid) (sw : StrictWeak p.lt) (t : T) (ht : TreeInv p t) (k : Nat) :
    ∃ res, eraseOne p t k = some res ∧ TreeInv p res.tree ∧ (res.tree.toList, res.erased) = specEr1 p t.toList k ∧
      Bal t res.tree res.ledger := by
  obtain ⟨res, h1, h2, _, _, b1, b2, b3, b4⟩ := eraseOne_spec p pv sw t ht k
  obtain ⟨res', h3, h4⟩ := eraseTop_treeInv p pv sw (.key k) t ht
  have : res' = res := by unfold eraseOne at h1; rw [h1] at h3; cases h3; rfl
  subst this
  refine ⟨res', h1, h4, by rw [specEr1_eq]; exact h2, ?_⟩
  simp only [Bal]; omega

theorem filter_eraseIdx_pos {α : Type} (q : α → Bool) (l : List α) (i : Nat) (hi : i < l.length) (hq : q l[i] = true) :
    ((l.eraseIdx i).filter q).length + 1 = (l.filter q).length ∧
    (l.eraseIdx i).filter (fun e => !q e) = l.filter (fun e => !q e) := by
  have hsplit : l = l.take i ++ l[i] :: l.drop (i + 1) := by
    rw [← List.drop_eq_getElem_cons hi, List.take_append_drop]
  have herase : l.eraseIdx i = l.take i ++ l.drop (i + 1) := List.eraseIdx_eq_take_drop_succ l i
  constructor
  · rw [herase]; conv => rhs; rw [hsplit]
    simp only [List.filter_append, List.length_append, List.filter_cons, hq, if_true, List.length_cons]
    omega
  · rw [herase]; conv => rhs; rw [hsplit]
    simp only [List.filter_append, List.filter_cons, hq, Bool.not_true, Bool.false_eq_true, if_false]

theorem era_step_dup (p : Params Nat) (pv : p.Valid) (sw : StrictWeak p.lt) (hd : p.dup = true) (k : Nat) :
    ∀ (n fuel : Nat) (t : T) (c : Nat) (lg0 : Ledger), TreeInv p t →
      (t.toList.filter (fun e => p.eqv k e.1)).length = n → n < fuel →
      ∃ t' d, eraseAll p k fuel t c lg0 = some (t', c + n, lg0.add d) ∧ TreeInv p t' ∧
        t'.toList = t.toList.filter (fun e => !p.eqv k e.1) ∧ Bal t t' d := by
  intro n
  induction n with
  | zero =>
    intro fuel t c lg0 ht hn hf
    obtain ⟨f, rfl⟩ : ∃ f, fuel = f + 1 := ⟨fuel - 1, by omega⟩
    obtain ⟨res, h1, h2, h3, h4⟩ := er1_step p pv sw t ht k
    have hnone : t.toList.filter (fun e => p.eqv k e.1) = [] := List.eq_nil_of_length_eq_zero hn
    have hany : t.toList.any (fun e => p.eqv k e.1) = false := by
      rw [List.any_eq_false]; intro x hx
      have := List.filter_eq_nil_iff.mp hnone x hx
      simpa using this
    have hk : hasKey p k t.toList = false := by rw [hasKey_eq, present_iff_any p sw _ ht.2.1, hany]
    simp only [specEr1, hk, Bool.false_eq_true, if_false] at h3
    have he : res.erased = false := (Prod.mk.inj h3).2
    have htl : res.tree.toList = t.toList := (Prod.mk.inj h3).1
    refine ⟨res.tree, {}, by simp [eraseAll, h1, he, Ledger.add_empty], h2, ?_, ?_⟩
    · rw [htl]
      symm
      rw [List.filter_eq_self]
      intro a ha
      have := List.filter_eq_nil_iff.mp hnone a ha
      simpa using this
    · have hno := (eraseTop_ok p pv (.key k) t ht.1)
      obtain ⟨r2, e1, e2, _⟩ := hno
      have : r2 = res := by unfold eraseOne at h1; rw [h1] at e1; cases e1; rfl
      subst this
      rw [(e2 he).1]; exact Bal.refl t
  | succ n ih =>
    intro fuel t c lg0 ht hn hf
    obtain ⟨f, rfl⟩ : ∃ f, fuel = f + 1 := ⟨fuel - 1, by omega⟩
    obtain ⟨res, h1, h2, h3, h4⟩ := er1_step p pv sw t ht k
    have hany : t.toList.any (fun e => p.eqv k e.1) = true := by
      rw [List.any_eq_true]
      have : 0 < (t.toList.filter (fun e => p.eqv k e.1)).length := by omega
      obtain ⟨x, hx⟩ := List.exists_mem_of_length_pos this
      exact ⟨x, (List.mem_filter.mp hx).1, (List.mem_filter.mp hx).2⟩
    have hk : hasKey p k t.toList = true := by rw [hasKey_eq, present_iff_any p sw _ ht.2.1, hany]
    have hk' := hk
    unfold hasKey at hk'
    cases hg : t.toList[lbOf p k t.toList]? with
    | none => rw [hg] at hk'; cases hk'
    | some x =>
      rw [hg] at hk'
      simp only at hk'
      obtain ⟨hi, hgx⟩ := List.getElem?_eq_some_iff.mp hg
      simp only [specEr1, hk, if_true] at h3
      have he : res.erased = true := (Prod.mk.inj h3).2
      have htl : res.tree.toList = t.toList.eraseIdx (lbOf p k t.toList) := (Prod.mk.inj h3).1
      obtain ⟨f1, f2⟩ := filter_eraseIdx_pos (fun e => p.eqv k e.1) t.toList _ hi (by rw [hgx]; exact hk')
      obtain ⟨t', d, i1, i2, i3, i4⟩ := ih f res.tree (c + 1) (lg0.add res.ledger) h2 (by rw [htl]; omega) (by omega)
      refine ⟨t', res.ledger.add d, ?_, i2, by rw [i3, htl, f2], h4.trans i4⟩
      simp only [eraseAll, h1, he, if_true, hd, Bool.not_true, Bool.false_eq_true, if_false, i1, Ledger.add_assoc]
      congr 3; omega

theorem era_step (p : Params Nat) (pv : p.Valid) (sw : StrictWeak p.lt) (t : T) (ht : TreeInv p t) (k : Nat)
    (fuel : Nat) (hf : t.toList.length < fuel) :
    ∃ t' d, eraseAll p k fuel t 0 {} = some (t', (specEra p t.toList k).2, d) ∧ TreeInv p t' ∧
      t'.toList = (specEra p t.toList k).1 ∧ Bal t t' d := by
  cases hd : p.dup with
  | true =>
    have hle : (t.toList.filter (fun e => p.eqv k e.1)).length ≤ t.toList.length := List.length_filter_le _ _
    obtain ⟨t', d, h1, h2, h3, h4⟩ := era_step_dup p pv sw hd k _ fuel t 0 {} ht rfl (by omega)
    refine ⟨t', d, ?_, h2, by simp only [specEra, hd, if_true]; exact h3, h4⟩
    rw [h1]; simp [specEra, hd, Ledger.empty_add]
  | false =>
    obtain ⟨f, rfl⟩ : ∃ f, fuel = f + 1 := ⟨fuel - 1, by omega⟩
    obtain ⟨res, h1, h2, h3, h4⟩ := er1_step p pv sw t ht k
    have he : res.erased = (specEr1 p t.toList k).2 := by rw [← h3]
    have htl : res.tree.toList = (specEr1 p t.toList k).1 := by rw [← h3]
    cases hb : res.erased with
    | true =>
      refine ⟨res.tree, res.ledger, ?_, h2, by simp [specEra, hd, htl], h4⟩
      simp [eraseAll, h1, hb, hd, specEra, ← he, Ledger.empty_add]
    | false =>
      obtain ⟨r2, e1, e2, _⟩ := eraseTop_ok p pv (.key k) t ht.1
      have : r2 = res := by unfold eraseOne at h1; rw [h1] at e1; cases e1; rfl
      subst this
      refine ⟨r2.tree, {}, ?_, h2, by simp [specEra, hd, htl], by rw [(e2 hb).1]; exact Bal.refl t⟩
      simp [eraseAll, h1, hb, specEra, hd, ← he]

end TlxVerif.C01

namespace TlxVerif.C01

/-! ### erase(iterator) -/

theorem eri_step (p : Params Nat) (pv : p.Valid) (sw : StrictWeak p.lt) (t : T) (ht : TreeInv p t) (k : Nat)
    (hk : k < t.toList.length) :
    ∃ e res, t.toList[k]? = some e ∧ beginPos t.leafChain = some (0, 0) ∧
      deref t.leafChain (iterN (itInc t.leafChain) k (0, 0)) = some e ∧
      rankOf t.leafChain (some (iterN (itInc t.leafChain) k (0, 0))) = k ∧
      eraseIter p t (iterN (itInc t.leafChain) k (0, 0)).1 (iterN (itInc t.leafChain) k (0, 0)).2 = some res ∧
      TreeInv p res.tree ∧ res.tree.toList = t.toList.eraseIdx k ∧ Bal t res.tree res.ledger := by
  have hne := tree_chain_ne_nil p pv t ht
  have hcf := tree_chain_flatten t
  obtain ⟨hb, _, _⟩ := chain_border p pv t ht (by omega)
  obtain ⟨hv, hrk⟩ := iterate_fwd t.leafChain hne k (by rw [hcf]; exact hk)
  generalize iterN (itInc t.leafChain) k (0, 0) = it at hv hrk
  obtain ⟨li, sl⟩ := it
  have hder := deref_valid t.leafChain (li, sl) hv
  rw [hrk, hcf, List.getElem?_eq_getElem hk] at hder
  obtain ⟨res, h1, h2⟩ := eraseIter_erases p pv sw t ht li sl _ hder
  obtain ⟨res1, g1, _, hyes⟩ := eraseTop_ok p pv (.iter li sl (t.toList[k]).1) t ht.1
  have e1 : eraseIter p t li sl = some res1 := by simp only [eraseIter, hder, g1]
  rw [h1] at e1; cases e1
  obtain ⟨res2, g2, hinv⟩ := eraseTop_treeInv p pv sw (.iter li sl (t.toList[k]).1) t ht
  rw [g1] at g2; cases g2
  have hok := hyes h2
  obtain ⟨r, i, hr, hi, hfl, hhit⟩ := hok.flat
  simp only [HitAt, Nat.sub_zero] at hhit
  obtain ⟨_, lf, q1, q2, q3⟩ := hhit
  have hi' : i = k := by
    rw [q3]
    have : chain r.level r = t.leafChain := by simp [Tree.leafChain, hr]
    rw [this]; exact hrk
  refine ⟨t.toList[k], res, List.getElem?_eq_getElem hk, hb, hder, hrk, h1, hinv, by rw [hfl, hi'], ?_⟩
  have := hok.lcnt; have := hok.icnt; have := hok.noalloc
  simp only [Bal]; omega

/-! ### clear, bulk_load, copies -/

theorem root_none_toList (t : T) (h : t.root = none) : t.toList = [] ∧ t.nLeaves = 0 ∧ t.nInner = 0 := by
  simp [Tree.toList, Tree.nLeaves, Tree.nInner, h]

theorem clear_step (p : Params Nat) (t : T) (ht : TreeInv p t) :
    TreeInv p (clear t).1 ∧ (clear t).1.toList = [] ∧ (clear t).1.root = none ∧ Bal t (clear t).1 (clear t).2 := by
  unfold clear
  cases hroot : t.root with
  | none =>
    simp only
    exact ⟨ht, (root_none_toList t hroot).1, hroot, Bal.refl t⟩
  | some r =>
    exact ⟨treeInv_empty p, by simp [Tree.toList], by simp, by simp [Bal, Tree.nLeaves, Tree.nInner, hroot]⟩

theorem sortedFor_pairwise (p : Params Nat) (sw : StrictWeak p.lt) :
    ∀ es : List Ent, sortedFor p es = true →
      es.Pairwise (fun a b => if p.dup then p.lt b.1 a.1 = false else p.lt a.1 b.1 = true) := by
  intro es
  induction es with
  | nil => intro _; exact List.Pairwise.nil
  | cons a rest ih =>
    intro h
    cases rest with
    | nil => exact List.pairwise_singleton _ _
    | cons b rest' =>
      simp only [sortedFor, Bool.and_eq_true] at h
      obtain ⟨hab, hrest⟩ := h
      have hp := ih hrest
      refine List.Pairwise.cons ?_ hp
      have hb := (List.pairwise_cons.mp hp).1
      intro c hc
      cases hd : p.dup with
      | true =>
        simp only [hd, if_true] at hab hb ⊢
        have hab' : p.lt b.1 a.1 = false := by simpa using hab
        rcases List.mem_cons.mp hc with rfl | hc'
        · exact hab'
        · exact sw.le_trans _ _ _ hab' (hb c hc')
      | false =>
        simp only [hd, Bool.false_eq_true, if_false] at hab hb ⊢
        rcases List.mem_cons.mp hc with rfl | hc'
        · exact hab
        · exact sw.trans _ _ _ hab (hb c hc')

theorem sortedFor_sortedE (p : Params Nat) (sw : StrictWeak p.lt) (es : List Ent) (h : sortedFor p es = true) :
    SortedE p.lt es := by
  have := sortedFor_pairwise p sw es h
  unfold SortedE
  refine this.imp ?_
  intro a b hab
  cases hd : p.dup with
  | true => simpa [hd] using hab
  | false =>
    simp only [hd, Bool.false_eq_true, if_false] at hab
    cases hx : p.lt b.1 a.1 with
    | false => rfl
    | true => have := sw.trans _ _ _ hab hx; rw [sw.irrefl] at this; cases this

theorem bulk_step (p : Params Nat) (pv : p.Valid) (sw : StrictWeak p.lt) (t : T) (ht : TreeInv p t)
    (hempty : t.stats.size = 0) (es : List Ent) (hs : sortedFor p es = true) :
    ∃ t' l, bulkLoad p es = some (t', l) ∧ TreeInv p t' ∧ t'.toList = es ∧ Bal t t' l := by
  obtain ⟨t', l, h1, h2, h3, b1, b2, b3, b4⟩ := bulkLoad_ok p pv sw es (sortedFor_sortedE p sw es hs)
  have hroot : t.root = none := by
    have := (size_pos_iff_root p pv t ht).1
    cases hr : t.root with
    | none => rfl
    | some r => have := this.mpr (by rw [hr]; simp); omega
  obtain ⟨_, n1, n2⟩ := root_none_toList t hroot
  exact ⟨t', l, h1, h2, h3, by simp only [Bal]; omega⟩

theorem copy_root (p : Params Nat) (pv : p.Valid) (o : T) (ho : TreeInv p o) : (copyCtor o).1.root = o.root := by
  have hsz := size_pos_iff_root p pv o ho
  unfold copyCtor
  cases hroot : o.root with
  | none => have := hsz.2 hroot; simp [this]
  | some r => have := hsz.1.mpr (by rw [hroot]; simp); simp [this]

theorem nodes_of_root (a b : T) (h : a.root = b.root) : a.nLeaves = b.nLeaves ∧ a.nInner = b.nInner := by
  simp [Tree.nLeaves, Tree.nInner, h]

theorem copy_step (p : Params Nat) (pv : p.Valid) (o : T) (ho : TreeInv p o) :
    TreeInv p (copyCtor o).1 ∧ (copyCtor o).1.toList = o.toList ∧ (copyCtor o).1.nLeaves = o.nLeaves ∧
      (copyCtor o).1.nInner = o.nInner ∧ (copyCtor o).2 = { leafAlloc := o.nLeaves, innerAlloc := o.nInner } := by
  obtain ⟨h1, h2, h3, h4, h5, h6⟩ := copyCtor_spec p pv o ho
  obtain ⟨n1, n2⟩ := nodes_of_root _ _ (copy_root p pv o ho)
  refine ⟨h1, h2, n1, n2, ?_⟩
  cases hc : (copyCtor o).2 with
  | mk a b c d => rw [hc] at h3 h4 h5 h6; simp only at h3 h4 h5 h6; simp [h3, h4, h5, h6]

theorem assign_root (p : Params Nat) (pv : p.Valid) (t o : T) (ho : TreeInv p o) : (assign t o).1.root = o.root := by
  have hsz := size_pos_iff_root p pv o ho
  unfold assign
  cases hroot : o.root with
  | none =>
    have := hsz.2 hroot
    simp only [this, ne_eq, not_true_eq_false, if_false]
    unfold clear; cases htr : t.root <;> simp_all
  | some r => have := hsz.1.mpr (by rw [hroot]; simp); simp only; rw [if_pos (by omega)]

theorem assign_step (p : Params Nat) (pv : p.Valid) (t o : T) (ht : TreeInv p t) (ho : TreeInv p o) :
    TreeInv p (assign t o).1 ∧ (assign t o).1.toList = o.toList ∧ (assign t o).1.nLeaves = o.nLeaves ∧
      (assign t o).1.nInner = o.nInner ∧
      (assign t o).2 = { leafAlloc := o.nLeaves, innerAlloc := o.nInner, leafFree := t.nLeaves, innerFree := t.nInner } := by
  obtain ⟨h1, h2, h3, h4, h5, h6⟩ := assign_spec p pv t o ht ho
  obtain ⟨n1, n2⟩ := nodes_of_root _ _ (assign_root p pv t o ho)
  refine ⟨h1, h2, n1, n2, ?_⟩
  cases hc : (assign t o).2 with
  | mk a b c d => rw [hc] at h3 h4 h5 h6; simp only at h3 h4 h5 h6; simp [h3, h4, h5, h6]

end TlxVerif.C01

namespace TlxVerif.C01

/-! ### copies as values: the copy of a tree satisfying the invariant *is* that tree (same structure,
same bookkeeping); the ledger records the nodes allocated for it and freed from the overwritten one -/

theorem stats_of_root_none (p : Params Nat) (t : T) (ht : TreeInv p t) (h : t.root = none) : t = {} := by
  have := ht.1
  unfold TreeShape at this
  rw [h] at this
  cases t with
  | mk root stats => simp only at h this; subst h; subst this; rfl

theorem stats_eq_recount' (p : Params Nat) (t : T) (ht : TreeInv p t) :
    t.stats.leaves = t.nLeaves ∧ t.stats.inner = t.nInner ∧ t.stats.size = t.toList.length := by
  obtain ⟨hs, _, _⟩ := ht
  unfold TreeShape at hs
  cases hroot : t.root with
  | none => rw [hroot] at hs; simp [hs, Tree.nLeaves, Tree.nInner, Tree.toList, hroot]
  | some r => rw [hroot] at hs; simp [hs.2.1, hs.2.2.1, hs.2.2.2, Tree.nLeaves, Tree.nInner, Tree.toList, hroot]

theorem copy_eq (p : Params Nat) (pv : p.Valid) (o : T) (ho : TreeInv p o) :
    (copyCtor o).1 = o ∧ (copyCtor o).2 = { leafAlloc := o.nLeaves, innerAlloc := o.nInner } := by
  have hsz := size_pos_iff_root p pv o ho
  have hst := stats_eq_recount' p o ho
  cases hroot : o.root with
  | none =>
    have := stats_of_root_none p o ho hroot
    subst this
    simp [copyCtor, Tree.nLeaves, Tree.nInner]
  | some r =>
    have hpos := hsz.1.mpr (by rw [hroot]; simp)
    cases o with
    | mk root stats =>
      simp only at hroot hpos hst
      subst hroot
      cases stats with
      | mk size leaves inner =>
        simp only at hpos hst
        obtain ⟨s1, s2, _⟩ := hst
        simp [copyCtor, hpos, ← s1, ← s2]

theorem assign_eq (p p' : Params Nat) (pv : p.Valid) (t o : T) (ht : TreeInv p' t) (ho : TreeInv p o) :
    (assign t o).1 = o ∧
    (assign t o).2 = { leafAlloc := o.nLeaves, innerAlloc := o.nInner, leafFree := t.nLeaves, innerFree := t.nInner } := by
  have hsz := size_pos_iff_root p pv o ho
  have hcl : (clear t).1 = {} ∧ (clear t).2 = { leafFree := t.nLeaves, innerFree := t.nInner } := by
    cases htr : t.root with
    | none =>
      have := stats_of_root_none p' t ht htr
      subst this
      simp [clear, Tree.nLeaves, Tree.nInner]
    | some r => simp [clear, htr]
  cases hroot : o.root with
  | none =>
    have := stats_of_root_none p o ho hroot
    subst this
    simp [assign, hcl, Tree.nLeaves, Tree.nInner]
  | some r =>
    have hpos := hsz.1.mpr (by rw [hroot]; simp)
    cases o with
    | mk root stats =>
      simp only at hroot hpos
      subst hroot
      have hne : stats.size ≠ 0 := by omega
      simp [assign, hcl, hne, Ledger.add]

end TlxVerif.C01
