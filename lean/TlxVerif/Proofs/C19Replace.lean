/-
C19 — replace_first / replace_all against the recursive definitions.
-/
import TlxVerif.Model.C19Helpers
import TlxVerif.Model.C19Spec
import TlxVerif.Proofs.C18Find
namespace TlxVerif.C19
open TlxVerif.C18 (Bytes npos)
open TlxVerif.C18

/-- `std::string::find` through the forward scan -/
theorem strFind_eq (s needle : Bytes) (pos : Nat) (hn : needle ≠ []) (hpos : pos ≤ s.length) :
    strFind s needle pos =
      if firstIdx (fun r => needle.isPrefixOf r) (s.drop pos) < s.length - pos
      then some (pos + firstIdx (fun r => needle.isPrefixOf r) (s.drop pos)) else none := by
  unfold strFind
  rw [least_from_pos _ pos (s.length + 1) (by omega)]
  have hfuel : s.length + 1 - pos = (s.length - pos) + 1 := by omega
  rw [hfuel]
  have hlast : Spec.matchAt s needle (pos + (s.length - pos)) = false := by
    apply matchAt_false_of_gt
    have : 0 < needle.length := List.length_pos_iff.mpr hn
    omega
  rw [leastFrom_succ_false _ _ hlast]
  have hl : (s.drop pos).length = s.length - pos := by simp
  have hscan := leastFrom_firstIdx (fun r => needle.isPrefixOf r) (s.drop pos) pos (Spec.matchAt s needle)
    (fun x hx => by
      rw [List.drop_drop]
      simp only [List.length_drop] at hx
      exact matchAt_eq_isPrefixOf s needle (pos + x) (by omega))
  rw [hl] at hscan
  exact hscan

section
variable (needle instead : Bytes)

local notation "Q" => (fun r : Bytes => List.isPrefixOf needle r)

/-- the recursive definition of replace_first through the forward scan -/
theorem spec_replaceFirst_scan : ∀ s : Bytes,
    Spec.replaceFirst needle instead s =
      if firstIdx Q s < s.length
      then s.take (firstIdx Q s) ++ instead ++ s.drop (firstIdx Q s + needle.length) else s
  | [] => by simp [Spec.replaceFirst, firstIdx]
  | c :: t => by
    simp only [Spec.replaceFirst, firstIdx]
    by_cases hp : needle.isPrefixOf (c :: t) = true
    · simp [hp]
    · have hp' : needle.isPrefixOf (c :: t) = false := Bool.eq_false_iff.mpr hp
      simp only [hp', Bool.false_eq_true, if_false, spec_replaceFirst_scan t, List.length_cons,
        Nat.add_lt_add_iff_right]
      split
      · simp [Nat.add_right_comm]
      · rfl

theorem spec_replaceAll_nil (hn : needle ≠ []) : Spec.replaceAll needle instead [] = [] := by
  rw [Spec.replaceAll]; simp [hn]

theorem spec_replaceAll_cons (hn : needle ≠ []) (c : UInt8) (t : Bytes) :
    Spec.replaceAll needle instead (c :: t) =
      if needle.isPrefixOf (c :: t) then instead ++ Spec.replaceAll needle instead ((c :: t).drop needle.length)
      else c :: Spec.replaceAll needle instead t := by
  rw [Spec.replaceAll]; simp [hn]

/-- the recursive definition of replace_all through the forward scan: copy up to the leftmost
occurrence, emit the replacement, continue behind the occurrence -/
theorem spec_replaceAll_scan (hn : needle ≠ []) : ∀ s : Bytes,
    Spec.replaceAll needle instead s =
      if firstIdx Q s < s.length
      then s.take (firstIdx Q s) ++ instead ++ Spec.replaceAll needle instead (s.drop (firstIdx Q s + needle.length))
      else s
  | [] => by simp [spec_replaceAll_nil needle instead hn, firstIdx]
  | c :: t => by
    rw [spec_replaceAll_cons needle instead hn]
    simp only [firstIdx]
    by_cases hp : needle.isPrefixOf (c :: t) = true
    · simp [hp]
    · have hp' : needle.isPrefixOf (c :: t) = false := Bool.eq_false_iff.mpr hp
      simp only [hp', Bool.false_eq_true, if_false, List.length_cons, Nat.add_lt_add_iff_right]
      rw [spec_replaceAll_scan hn t]
      split
      · simp [Nat.add_right_comm]
      · rfl

/-- the loop of replace_all: `s = done ++ rest` with `lastpos = |done|` -/
theorem replaceAllLoop_eq (hn : needle ≠ []) : ∀ (fuel : Nat) (done rest : Bytes), rest.length < fuel →
    replaceAllLoop needle instead fuel (done ++ rest) done.length = done ++ Spec.replaceAll needle instead rest
  | 0, _, _, h => by omega
  | fuel + 1, done, rest, h => by
    have hnl : 0 < needle.length := List.length_pos_iff.mpr hn
    rw [replaceAllLoop, strFind_eq _ _ _ hn (by simp), spec_replaceAll_scan needle instead hn rest]
    simp only [List.drop_left, List.length_append, Nat.add_sub_cancel_left]
    by_cases hlt : firstIdx Q rest < rest.length
    · simp only [hlt, if_true]
      -- the string after the replacement and the new scan position
      have hstr : strReplace (done ++ rest) (done.length + firstIdx Q rest) needle.length instead =
          (done ++ rest.take (firstIdx Q rest) ++ instead) ++ rest.drop (firstIdx Q rest + needle.length) := by
        unfold strReplace
        rw [List.take_append, List.take_of_length_le (by omega : done.length ≤ done.length + firstIdx Q rest)]
        rw [List.drop_append, List.drop_eq_nil_of_le (by omega : done.length ≤ done.length + firstIdx Q rest + needle.length)]
        have h1 : done.length + firstIdx Q rest - done.length = firstIdx Q rest := by omega
        have h2 : done.length + firstIdx Q rest + needle.length - done.length = firstIdx Q rest + needle.length := by omega
        simp [h1, h2, List.append_assoc]
      have hpos : done.length + firstIdx Q rest + instead.length =
          (done ++ rest.take (firstIdx Q rest) ++ instead).length := by
        simp [List.length_take, Nat.min_eq_left (Nat.le_of_lt hlt), Nat.add_assoc]
      rw [hstr, hpos]
      rw [replaceAllLoop_eq hn fuel _ _ (by simp only [List.length_drop]; omega)]
      simp [List.append_assoc]
    · simp [hlt]

end

theorem replaceFirst_eq (s needle instead : Bytes) (hn : needle ≠ []) :
    replaceFirst s needle instead = Spec.replaceFirst needle instead s := by
  unfold replaceFirst
  rw [strFind_eq s needle 0 hn (by omega), spec_replaceFirst_scan]
  simp only [List.drop_zero, Nat.sub_zero, Nat.zero_add]
  by_cases hlt : firstIdx (fun r => needle.isPrefixOf r) s < s.length
  · simp [hlt, strReplace]
  · simp [hlt]

theorem replaceAll_eq (s needle instead : Bytes) (hn : needle ≠ []) :
    replaceAll s needle instead = Spec.replaceAll needle instead s := by
  unfold replaceAll
  have := replaceAllLoop_eq needle instead hn (s.length + 1) [] s (by omega)
  simpa using this

end TlxVerif.C19
