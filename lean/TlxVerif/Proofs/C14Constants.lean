import TlxVerif.Model.C14Spec
/-!
C14 — the SHA-2 constants of the specification file are the numbers FIPS 180-4 *defines*
(§4.2.2/§4.2.3: "the first 32 [64] bits of the fractional parts of the cube roots of the
first 64 [80] prime numbers", §5.3.3/§5.3.5: "… of the square roots of the first 8 prime
numbers"), checked by integer arithmetic in the kernel.  This makes the SHA-256/SHA-512
tables of `Model/C14Spec.lean` independent of any copied table.
-/
namespace TlxVerif.C14

def isPrime (n : Nat) : Bool := 2 ≤ n && (List.range n).all fun d => d < 2 || n % d != 0

/-- the first 80 primes -/
def primes80 : List Nat := ((List.range 410).filter isPrime)

/-- `k` = first `bits` bits of the fractional part of the `e`-th root of `p`:
    with `r = ⌊p^(1/e)⌋` and `c = r·2^bits + k`:  `c^e ≤ p·2^(e·bits) < (c+1)^e`, `k < 2^bits` -/
def isRootFrac (e bits p k : Nat) : Bool :=
  match (List.range 21).find? (fun r => r ^ e ≤ p && p < (r + 1) ^ e) with
  | some r =>
    let c := r * 2 ^ bits + k
    k < 2 ^ bits && c ^ e ≤ p * 2 ^ (e * bits) && p * 2 ^ (e * bits) < (c + 1) ^ e
  | none => false

theorem primes80_length : primes80.length = 80 := by decide +kernel

theorem sha256_K_is_cube_root_table :
    Spec.SHA256.K.length = 64 ∧
    ((primes80.take 64).zip Spec.SHA256.K).all (fun pk => isRootFrac 3 32 pk.1 pk.2.toNat) = true := by
  decide +kernel

theorem sha256_H0_is_square_root_table :
    Spec.SHA256.H0.length = 8 ∧
    ((primes80.take 8).zip Spec.SHA256.H0).all (fun pk => isRootFrac 2 32 pk.1 pk.2.toNat) = true := by
  decide +kernel

theorem sha512_K_is_cube_root_table :
    Spec.SHA512.K.length = 80 ∧
    (primes80.zip Spec.SHA512.K).all (fun pk => isRootFrac 3 64 pk.1 pk.2.toNat) = true := by
  decide +kernel

theorem sha512_H0_is_square_root_table :
    Spec.SHA512.H0.length = 8 ∧
    ((primes80.take 8).zip Spec.SHA512.H0).all (fun pk => isRootFrac 2 64 pk.1 pk.2.toNat) = true := by
  decide +kernel

end TlxVerif.C14
