import TlxVerif.Proofs.C16Rep
namespace TlxVerif.C16
variable {k : Nat} {r : RB} {xs : List Elem}

theorem Rep.pushBack (h : Rep k r xs) (v : Elem) (hroom : xs.length < r.maxSize) :
    ∃ r', r.pushBack v = some r' ∧ Rep k r' (xs ++ [v]) ∧ r'.maxSize = r.maxSize := by
  have hp := h.pos; have hb := h.hb; have hl := h.len_lt; have hel := h.he_lt
  have hs := h.slot xs.length hl
  rw [← h.he] at hs
  rw [List.getElem?_eq_none (l := xs) (Nat.le_refl _)] at hs
  refine ⟨{ r with slots := r.slots.set r.e (some v), e := incr r.e r.mask }, ?_, ?_, rfl⟩
  · unfold RB.pushBack construct; simp [hs]
  · constructor <;> (try dsimp only)
    · exact h.hk
    · exact h.data
    · exact h.cap
    · exact h.mask
    · simp [h.len]
    · exact hb
    · rw [h.mask, incr_eq h.hk hel, h.he, idx_succ]; simp [Nat.add_assoc]
    · simp; omega
    · exact h.room
    · intro j hj
      by_cases hjl : j = xs.length
      · subst hjl
        rw [← h.he, List.getElem?_set_self (by rw [h.len]; exact hel)]
        simp
      · have hne : r.e ≠ (r.b + j) % 2 ^ k := by
          rw [h.he]; intro heq; exact hjl (idx_inj hb hj hl heq.symm)
        rw [List.getElem?_set_ne hne, h.slot j hj]
        by_cases hlt : j < xs.length
        · rw [List.getElem?_append_left hlt]
        · rw [List.getElem?_eq_none (l := xs) (by omega), List.getElem?_eq_none (l := xs ++ [v]) (by simp; omega)]

theorem Rep.pushFront (h : Rep k r xs) (v : Elem) (hroom : xs.length < r.maxSize) :
    ∃ r', r.pushFront v = some r' ∧ Rep k r' (v :: xs) ∧ r'.maxSize = r.maxSize := by
  have hp := h.pos; have hb := h.hb; have hl := h.len_lt
  have hroom2 : xs.length + 1 < 2 ^ k := by have := h.room; omega
  have hd : decr r.b r.mask = (r.b + 2 ^ k - 1) % 2 ^ k := by rw [h.mask]; exact decr_eq h.hk hb
  -- the slot in front of begin_ is raw storage: it is the slot at offset 2^k - 1
  have hs := h.slot (2 ^ k - 1) (by omega)
  have hidx : (r.b + (2 ^ k - 1)) % 2 ^ k = (r.b + 2 ^ k - 1) % 2 ^ k := by congr 1; omega
  rw [hidx, List.getElem?_eq_none (l := xs) (by omega)] at hs
  refine ⟨{ r with slots := r.slots.set (decr r.b r.mask) (some v), b := decr r.b r.mask }, ?_, ?_, rfl⟩
  · unfold RB.pushFront construct; simp [hd, hs]
  · have hb' : (r.b + 2 ^ k - 1) % 2 ^ k < 2 ^ k := Nat.mod_lt _ hp
    constructor <;> (try dsimp only)
    · exact h.hk
    · exact h.data
    · exact h.cap
    · exact h.mask
    · simp [h.len]
    · rw [hd]; exact hb'
    · rw [hd, h.he, List.length_cons, idx_pred hb hl]
    · simp; omega
    · exact h.room
    · intro j hj
      rw [hd]
      cases j with
      | zero =>
        rw [idx_pred0, List.getElem?_set_self (by rw [h.len]; exact hb')]
        simp
      | succ j =>
        have hj' : j < 2 ^ k := by omega
        rw [idx_pred hb hj']
        have hne : (r.b + 2 ^ k - 1) % 2 ^ k ≠ (r.b + j) % 2 ^ k := by
          rw [← hidx]; intro heq
          have := idx_inj hb (by omega) hj' heq
          omega
        rw [List.getElem?_set_ne hne, h.slot j hj']
        simp

theorem Rep.popFront {x : Elem} (h : Rep k r (x :: xs)) :
    ∃ r', r.popFront = some r' ∧ Rep k r' xs ∧ r'.maxSize = r.maxSize := by
  have hp := h.pos; have hb := h.hb; have hl := h.len_lt
  simp only [List.length_cons] at hl
  have hs := h.slot 0 hp
  rw [Nat.add_zero, Nat.mod_eq_of_lt hb] at hs
  simp only [List.getElem?_cons_zero] at hs
  have hi : incr r.b r.mask = (r.b + 1) % 2 ^ k := by rw [h.mask]; exact incr_eq h.hk hb
  refine ⟨{ r with slots := r.slots.set r.b none, b := incr r.b r.mask }, ?_, ?_, rfl⟩
  · unfold RB.popFront destroy; simp [hs]
  · constructor <;> (try dsimp only)
    · exact h.hk
    · exact h.data
    · exact h.cap
    · exact h.mask
    · simp [h.len]
    · rw [hi]; exact Nat.mod_lt _ hp
    · rw [hi, h.he, List.length_cons]
      rw [Nat.add_mod ((r.b + 1) % 2 ^ k), Nat.mod_mod, ← Nat.add_mod]
      congr 1; omega
    · have := h.fits; simp at this; omega
    · exact h.room
    · intro j hj
      rw [hi, Nat.add_mod ((r.b + 1) % 2 ^ k), Nat.mod_mod, ← Nat.add_mod]
      by_cases hjl : j = 2 ^ k - 1
      · -- wraps onto the slot just destroyed
        subst hjl
        have : (r.b + 1 + (2 ^ k - 1)) % 2 ^ k = r.b := by
          have : r.b + 1 + (2 ^ k - 1) = r.b + 2 ^ k := by omega
          rw [this, Nat.add_mod_right, Nat.mod_eq_of_lt hb]
        rw [this, List.getElem?_set_self (by rw [h.len]; exact hb), List.getElem?_eq_none (l := xs) (by omega)]
      · have hj1 : j + 1 < 2 ^ k := by omega
        have hne : r.b ≠ (r.b + 1 + j) % 2 ^ k := by
          intro heq
          have e2 : (r.b + 1 + j) = r.b + (j + 1) := by omega
          rw [e2] at heq
          have h0 : (r.b + 0) % 2 ^ k = r.b := by rw [Nat.add_zero, Nat.mod_eq_of_lt hb]
          have := idx_inj hb hp hj1 (h0.trans heq)
          omega
        rw [List.getElem?_set_ne hne]
        have e2 : (r.b + 1 + j) = r.b + (j + 1) := by omega
        rw [e2, h.slot (j + 1) hj1]
        simp

theorem Rep.popBack {x : Elem} (h : Rep k r (xs ++ [x])) :
    ∃ r', r.popBack = some r' ∧ Rep k r' xs ∧ r'.maxSize = r.maxSize := by
  have hp := h.pos; have hb := h.hb; have hl := h.len_lt
  simp only [List.length_append, List.length_cons, List.length_nil] at hl
  have hel := h.he_lt
  have hd : decr r.e r.mask = (r.b + xs.length) % 2 ^ k := by
    rw [h.mask, decr_eq h.hk hel, h.he]
    simp only [List.length_append, List.length_cons, List.length_nil]
    rw [mod_wrap (show r.b + (xs.length + 0 + 1) < 2 * 2 ^ k by omega)]
    split
    · rw [mod_wrap (by omega), mod_wrap (by omega)]; split <;> split <;> omega
    · rw [mod_wrap (by omega), mod_wrap (by omega)]; split <;> split <;> omega
  have hs := h.slot xs.length (by omega)
  rw [List.getElem?_append_right (Nat.le_refl _)] at hs
  simp only [Nat.sub_self, List.getElem?_cons_zero] at hs
  refine ⟨{ r with slots := r.slots.set (decr r.e r.mask) none, e := decr r.e r.mask }, ?_, ?_, rfl⟩
  · unfold RB.popBack destroy; simp [hd, hs]
  · constructor <;> (try dsimp only)
    · exact h.hk
    · exact h.data
    · exact h.cap
    · exact h.mask
    · simp [h.len]
    · exact hb
    · exact hd
    · have := h.fits; simp at this; omega
    · exact h.room
    · intro j hj
      rw [hd]
      by_cases hjl : j = xs.length
      · subst hjl
        rw [List.getElem?_set_self (by rw [h.len]; exact Nat.mod_lt _ hp), List.getElem?_eq_none (l := xs) (Nat.le_refl _)]
      · have hne : (r.b + xs.length) % 2 ^ k ≠ (r.b + j) % 2 ^ k := by
          intro heq; exact hjl (idx_inj hb hj (by omega) heq.symm)
        rw [List.getElem?_set_ne hne, h.slot j hj]
        by_cases hlt : j < xs.length
        · rw [List.getElem?_append_left hlt]
        · rw [List.getElem?_eq_none (l := xs ++ [x]) (by simp; omega), List.getElem?_eq_none (l := xs) (by omega)]

end TlxVerif.C16
