/-
C04 — classification and distribution: every string lands in exactly one bucket, an equal
bucket holds exactly the strings whose key is its splitter, the bucket borders cover the range.
-/
import TlxVerif.Proofs.C04Step
namespace TlxVerif.C04

/-- `find_bkt` answers an odd (equal) bucket only for a key that is the splitter of that bucket -/
theorem findBkt_odd {c : Classifier} {useCalc : Bool} {k : Key} {b : Nat}
    (h : c.findBkt useCalc k = some b) (hb : b % 2 = 1) : splOf c useCalc (b / 2) = some k := by
  unfold Classifier.findBkt at h
  cases hd : descend c k c.treebits 1 with
  | none => simp [hd] at h
  | some i =>
    simp only [hd, Option.bind_eq_bind, Option.bind_some] at h
    split at h
    · rename_i hlt
      have hs' : ∀ (sp : Option Key), (sp.bind fun s => some (if s = k then 2 * (i - (numSplitters c.treebits + 1)) + 1
          else 2 * (i - (numSplitters c.treebits + 1)))) = some b → sp = some k ∧ b / 2 = i - (numSplitters c.treebits + 1) := by
        intro sp hsp
        cases sp with
        | none => simp at hsp
        | some s =>
          simp only [Option.bind_some, Option.some.injEq] at hsp
          by_cases hsk : s = k
          · subst hsk
            simp only [if_true] at hsp
            subst hsp
            exact ⟨rfl, by omega⟩
          · simp only [hsk, if_false] at hsp
            subst hsp; omega
      unfold splOf
      cases useCalc with
      | true =>
        simp only [if_true, Option.pure_def] at h ⊢
        obtain ⟨h1, h2⟩ := hs' _ h
        rw [h2]; exact h1
      | false =>
        simp only [Bool.false_eq_true, if_false, Option.pure_def] at h ⊢
        obtain ⟨h1, h2⟩ := hs' _ h
        rw [h2]; exact h1
    · simp only [Option.pure_def, Option.some.injEq] at h
      subst h; omega

theorem filter_lt_succ_perm (qs : List (Str × Nat)) (n : Nat) :
    (qs.filter (fun p => p.2 < n) ++ qs.filter (fun p => p.2 = n)).Perm (qs.filter fun p => p.2 < n + 1) := by
  induction qs with
  | nil => simp
  | cons q qs ihq =>
    simp only [List.filter_cons]
    by_cases h1 : q.2 < n
    · have e1 : decide (q.2 < n) = true := by simpa using h1
      have e2 : decide (q.2 = n) = false := by simp; omega
      have e3 : decide (q.2 < n + 1) = true := by simp; omega
      simp only [e1, e2, e3, if_true, if_false, Bool.false_eq_true, List.cons_append]
      exact List.Perm.cons _ ihq
    · by_cases h2 : q.2 = n
      · have e1 : decide (q.2 < n) = false := by simpa using h1
        have e2 : decide (q.2 = n) = true := by simpa using h2
        have e3 : decide (q.2 < n + 1) = true := by simp; omega
        simp only [e1, e2, e3, if_true, if_false, Bool.false_eq_true]
        exact List.perm_middle.trans (List.Perm.cons _ ihq)
      · have e1 : decide (q.2 < n) = false := by simpa using h1
        have e2 : decide (q.2 = n) = false := by simpa using h2
        have e3 : decide (q.2 < n + 1) = false := by simp; omega
        simp only [e1, e2, e3, if_false, Bool.false_eq_true]
        exact ihq

/-- the strings whose bucket id is below `n`, bucket by bucket, are a permutation of those strings -/
theorem bucketsOf_perm_aux (pairs : List (Str × Nat)) (n : Nat) :
    (((List.range n).map fun b => (pairs.filter fun p => p.2 = b).map (·.1)).flatten).Perm
      ((pairs.filter fun p => p.2 < n).map (·.1)) := by
  induction n with
  | zero => simp
  | succ n ih =>
    rw [List.range_succ, List.map_append, List.flatten_append]
    simp only [List.map_cons, List.map_nil, List.flatten_cons, List.flatten_nil, List.append_nil]
    refine (List.Perm.append_right _ ih).trans ?_
    rw [← List.map_append]
    exact List.Perm.map _ (filter_lt_succ_perm pairs n)

/-- **Distribution.**  If every bucket id is below `bktnum`, the buckets together hold exactly
the strings of the range (each string in exactly one bucket). -/
theorem bucketsOf_perm (strs : List Str) (ids : List Nat) (bktnum : Nat) (hlen : ids.length = strs.length)
    (hid : ∀ id ∈ ids, id < bktnum) : (bucketsOf strs ids bktnum).flatten.Perm strs := by
  unfold bucketsOf
  refine (bucketsOf_perm_aux (strs.zip ids) bktnum).trans ?_
  have : (strs.zip ids).filter (fun p => p.2 < bktnum) = strs.zip ids := by
    rw [List.filter_eq_self]
    intro p hp
    have := (List.of_mem_zip hp).2
    simpa using hid _ this
  rw [this, List.map_fst_zip (by omega)]

/-- every string of a bucket carries that bucket's id -/
theorem mem_bucketsOf {strs : List Str} {ids : List Nat} {bktnum b : Nat} {s : Str} (hb : b < bktnum)
    (hs : s ∈ ((bucketsOf strs ids bktnum)[b]?).getD []) : (s, b) ∈ strs.zip ids := by
  unfold bucketsOf at hs
  rw [List.getElem?_map, List.getElem?_range hb] at hs
  simp only [Option.map_some, Option.getD_some, List.mem_map, List.mem_filter] at hs
  obtain ⟨⟨s', id⟩, ⟨hm, hid⟩, rfl⟩ := hs
  simp only [decide_eq_true_eq] at hid
  subst hid; exact hm

/-- the bucket borders end at the size of the range: together with `layout_disjoint` the
buckets tile `[0, n)` -/
theorem boundsFrom_last (lo : Nat) (sizes : List Nat) : (boundsFrom lo sizes).getLast? = some (lo + sizes.sum) := by
  induction sizes generalizing lo with
  | nil => simp [boundsFrom]
  | cons s ss ih =>
    rw [boundsFrom, List.getLast?_cons_of_ne_nil (by cases ss <;> simp [boundsFrom]), ih]
    simp; omega

end TlxVerif.C04
