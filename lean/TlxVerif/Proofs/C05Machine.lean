/-
L2 for the 3- and 4-way merge machines: if the generated tables pass `tableOK`, then
`multiway_merge_{3,4}_variant` performs a stable run — with guarded iterators for every input,
with unguarded iterators when every sequence is followed by a sentinel greater than all real
elements (the `*_sentinels` entry points).
-/
import TlxVerif.Proofs.C05Order
namespace TlxVerif.C05
open TlxVerif.C09 (SWO)

variable {α : Type}

/-- every sequence is followed by an element greater than all real ones -/
def SentinelsP (lt : α → α → Bool) (seqs : List (Seq α)) : Prop :=
  ∀ s ∈ seqs, ∃ gd, s.guard = some gd ∧ ∀ s' ∈ seqs, ∀ y ∈ s'.xs, lt y gd = true

/-- what unguarded iterators need at a point where they are compared: every sequence still has a
real element, or is followed by a sentinel greater than all real elements -/
def ViewsOK (g : Bool) (lt : α → α → Bool) (seqs : List (Seq α)) : Prop :=
  g = false → ∀ s ∈ seqs, s.xs ≠ [] ∨ ∃ gd, s.guard = some gd ∧ ∀ s' ∈ seqs, ∀ y ∈ s'.xs, lt y gd = true

theorem SentinelsP.viewsOK {lt : α → α → Bool} {seqs : List (Seq α)} (h : SentinelsP lt seqs) (g : Bool) :
    ViewsOK g lt seqs := fun _ s hs => Or.inr (h s hs)

theorem ViewsOK.headU {g : Bool} {lt : α → α → Bool} {seqs : List (Seq α)} (h : ViewsOK g lt seqs)
    (hg : g = false) {s : Seq α} (hs : s ∈ seqs) : (headU s).isSome = true := by
  unfold C05.headU
  rcases h hg s hs with h1 | ⟨gd, hgd, _⟩
  · cases hx : s.xs with
    | nil => exact absurd hx h1
    | cons a l => simp
  · cases s.xs <;> simp [hgd]

theorem viewAt_eq (g : Bool) {seqs : List (Seq α)} {i : Nat} {s : Seq α} (h : seqs[i]? = some s) :
    viewAt g seqs i = view g s := by simp [viewAt, h]

/-! ### concrete evaluation = oracle evaluation -/

theorem evalBody_eq {lt : α → α → Bool} (hlt : SWO lt) (g : Bool) (seqs : List (Seq α))
    (hv : ViewsOK g lt seqs) (args : List Nat) (ops : List Op) (hargs : args.all (· < seqs.length) = true) :
    ∀ (tests : List Test) (dflt : List Nat), bodyRuleOK args ops tests = true →
      evalBody g lt seqs args ops tests dflt = evalBodyO (oracleC g lt seqs seqs.length) args tests dflt
  | [], dflt, _ => rfl
  | t :: ts, dflt, hr => by
    simp only [bodyRuleOK, List.all_cons, Bool.and_eq_true] at hr
    obtain ⟨ht, hts⟩ := hr
    have ih := evalBody_eq hlt g seqs hv args ops hargs ts dflt (by simpa [bodyRuleOK] using hts)
    cases hl : args[t.lhs]? with
    | none => simp [hl] at ht
    | some l =>
      cases hr' : args[t.rhs]? with
      | none => simp [hl, hr'] at ht
      | some r =>
        cases ho : opOf ops t.op with
        | none => simp [hl, hr', ho] at ht
        | some o =>
          simp only [hl, hr', ho] at ht
          have hll : l < seqs.length := by
            have := List.all_eq_true.1 hargs l (List.mem_of_getElem? hl); simpa using this
          have hrl : r < seqs.length := by
            have := List.all_eq_true.1 hargs r (List.mem_of_getElem? hr'); simpa using this
          have hne : l ≠ r := by
            simp only [ruleOK, Bool.and_eq_true, decide_eq_true_eq] at ht; exact ht.1
          have hsl : seqs[l]? = some seqs[l] := List.getElem?_eq_getElem hll
          have hsr : seqs[r]? = some seqs[r] := List.getElem?_eq_getElem hrl
          have hc := itCmp_before hlt g seqs[l] seqs[r] ht
            (fun hg => ⟨hv.headU hg (List.getElem_mem hll), hv.headU hg (List.getElem_mem hrl)⟩)
          rw [← viewAt_eq g hsl, ← viewAt_eq g hsr] at hc
          have hb : beforeV lt (viewAt g seqs l) (viewAt g seqs r) l r = oracleC g lt seqs seqs.length l r :=
            (oracleC_eq hlt g seqs hll hrl hne).symm
          rw [hb] at hc
          simp only [evalBody, evalBodyO, hl, hr', hsl, hsr, ho, hc, ih, Option.bind_eq_bind, Option.bind_some]

theorem evalTree_eq {lt : α → α → Bool} (hlt : SWO lt) (g : Bool) (M : Machine) (seqs : List (Seq α))
    (hn : seqs.length = M.n) (hv : ViewsOK g lt seqs) :
    ∀ (tr : DTree), treeRuleOK M tr = true →
      evalTree g lt M seqs tr = evalTreeO (oracleC g lt seqs seqs.length) M tr
  | .goto p, _ => rfl
  | .decision args, hr => by
    simp only [treeRuleOK, Bool.and_eq_true] at hr
    simp only [evalTree, evalTreeO]
    exact evalBody_eq hlt g seqs hv args [] (by rw [hn]; exact hr.1) _ _ hr.2
  | .ite l o r t e, hr => by
    simp only [treeRuleOK, Bool.and_eq_true, decide_eq_true_eq] at hr
    obtain ⟨⟨⟨⟨hl, hr'⟩, hrule⟩, ht⟩, he⟩ := hr
    have iht := evalTree_eq hlt g M seqs hn hv t ht
    have ihe := evalTree_eq hlt g M seqs hn hv e he
    have hll : l < seqs.length := by omega
    have hrl : r < seqs.length := by omega
    have hne : l ≠ r := by
      simp only [ruleOK, Bool.and_eq_true, decide_eq_true_eq] at hrule; exact hrule.1
    have hsl : seqs[l]? = some seqs[l] := List.getElem?_eq_getElem hll
    have hsr : seqs[r]? = some seqs[r] := List.getElem?_eq_getElem hrl
    have hc := itCmp_before hlt g seqs[l] seqs[r] hrule
      (fun hg => ⟨hv.headU hg (List.getElem_mem hll), hv.headU hg (List.getElem_mem hrl)⟩)
    rw [← viewAt_eq g hsl, ← viewAt_eq g hsr] at hc
    have hb : beforeV lt (viewAt g seqs l) (viewAt g seqs r) l r = oracleC g lt seqs seqs.length l r :=
      (oracleC_eq hlt g seqs hll hrl hne).symm
    rw [hb] at hc
    simp only [evalTree, evalTreeO, hsl, hsr, hc, iht, ihe, Option.bind_eq_bind, Option.bind_some]

/-! ### what `tableOK` provides -/

theorem all_congr_mem {p q : Nat → Bool} : ∀ (l : List Nat), (∀ j ∈ l, p j = q j) → l.all p = l.all q
  | [], _ => rfl
  | y :: l, h => by
    simp only [List.all_cons]
    rw [h y List.mem_cons_self, all_congr_mem l (fun j hj => h j (List.mem_cons_of_mem _ hj))]

theorem sortedO_congr {b b' : Nat → Nat → Bool} : ∀ {st : List Nat},
    (∀ i ∈ st, ∀ j ∈ st, b i j = b' i j) → sortedO b st = sortedO b' st
  | [], _ => rfl
  | x :: rest, h => by
    simp only [sortedO]
    rw [sortedO_congr (st := rest) (fun i hi j hj => h i (List.mem_cons_of_mem _ hi) j (List.mem_cons_of_mem _ hj))]
    rw [all_congr_mem rest (fun j hj => h x List.mem_cons_self j (List.mem_cons_of_mem _ hj))]

structure PermFacts (n : Nat) (st : List Nat) : Prop where
  len : st.length = n
  lt : ∀ i ∈ st, i < n
  nodup : st.Nodup
  all : ∀ i, i < n → i ∈ st

theorem isPerm_facts {n : Nat} {st : List Nat} (h : isPerm n st = true) : PermFacts n st := by
  simp only [isPerm, Bool.and_eq_true, beq_iff_eq, List.all_eq_true, decide_eq_true_eq, List.mem_range,
    List.contains_iff_mem] at h
  exact ⟨h.1.1.1, h.1.1.2, h.1.2, h.2⟩

theorem tableOK_parts {M : Machine} (h : tableOK M = true) :
    M.emitOK = true ∧ M.finishOK = true ∧ 1 ≤ M.n ∧ treeRuleOK M M.entry = true ∧
    (∀ row ∈ M.rows, isPerm M.n row.perm = true ∧ bodyRuleOK row.perm row.ops M.body.tests = true) ∧
    (∀ bits ∈ allBits (pairs M.n).length, isTransO M.n (oracleOf M.n bits) = true →
      (∃ st, evalTreeO (oracleOf M.n bits) M M.entry = some st ∧ goodState M (oracleOf M.n bits) st = true) ∧
      (∀ row ∈ M.rows, sortedO (oracleOf M.n bits) row.perm.tail = true →
        ∃ st, evalBodyO (oracleOf M.n bits) row.perm M.body.tests M.body.dflt = some st ∧
          goodState M (oracleOf M.n bits) st = true)) := by
  simp only [tableOK, Bool.and_eq_true, decide_eq_true_eq, List.all_eq_true, Bool.or_eq_true,
    Bool.not_eq_true'] at h
  obtain ⟨⟨⟨⟨⟨⟨h1, h2⟩, h3⟩, h4⟩, _⟩, h6⟩, h7⟩ := h
  refine ⟨h1, h2, h3, h4, h6, fun bits hb ht => ?_⟩
  rcases h7 bits hb with hf | ⟨he, hr⟩
  · rw [ht] at hf; cases hf
  · constructor
    · cases hev : evalTreeO (oracleOf M.n bits) M M.entry with
      | none => rw [hev] at he; cases he
      | some st => rw [hev] at he; exact ⟨st, rfl, he⟩
    · intro row hrow hs
      rcases hr row hrow with hf | hg
      · rw [hs] at hf; cases hf
      · cases hev : evalBodyO (oracleOf M.n bits) row.perm M.body.tests M.body.dflt with
        | none => rw [hev] at hg; cases hg
        | some st => rw [hev] at hg; exact ⟨st, rfl, hg⟩

theorem goodState_parts {M : Machine} {b : Nat → Nat → Bool} {st : List Nat} (h : goodState M b st = true) :
    isPerm M.n st = true ∧ sortedO b st = true ∧ ∃ row ∈ M.rows, row.perm = st := by
  simp only [goodState, Bool.and_eq_true, List.any_eq_true, beq_iff_eq] at h
  exact ⟨h.1.1, h.1.2, h.2⟩

theorem find_row {M : Machine} {st : List Nat} (h : ∃ row ∈ M.rows, row.perm = st) :
    ∃ row, M.rows.find? (fun r => r.perm == st) = some row ∧ row ∈ M.rows ∧ row.perm = st := by
  obtain ⟨r0, hr0, hp⟩ := h
  have : (M.rows.find? (fun r => r.perm == st)).isSome = true :=
    List.find?_isSome.2 ⟨r0, hr0, by simp [hp]⟩
  cases hf : M.rows.find? (fun r => r.perm == st) with
  | none => rw [hf] at this; cases this
  | some row =>
    refine ⟨row, rfl, List.mem_of_find?_eq_some hf, ?_⟩
    have := List.find?_some hf
    simpa using this

/-! ### the run -/

theorem SentinelsP.set {lt : α → α → Bool} {seqs : List (Seq α)} (h : SentinelsP lt seqs)
    {a : Nat} {s : Seq α} (hs : seqs[a]? = some s) {x : α} {rest : List α} (hx : s.xs = x :: rest) :
    SentinelsP lt (seqs.set a { s with xs := rest }) := by
  intro s1 hs1
  have sub : ∀ s' ∈ seqs.set a { s with xs := rest }, ∃ s0 ∈ seqs, s'.guard = s0.guard ∧ ∀ y ∈ s'.xs, y ∈ s0.xs := by
    intro s' hs'
    rcases List.mem_or_eq_of_mem_set hs' with h1 | h1
    · exact ⟨s', h1, rfl, fun y hy => hy⟩
    · refine ⟨s, List.mem_of_getElem? hs, by rw [h1], fun y hy => ?_⟩
      rw [h1] at hy
      rw [hx]; exact List.mem_cons_of_mem _ hy
  obtain ⟨s0, hs0, hg0, _⟩ := sub s1 hs1
  obtain ⟨gd, hgd, hall⟩ := h s0 hs0
  refine ⟨gd, by rw [hg0, hgd], fun s' hs' y hy => ?_⟩
  obtain ⟨s2, hs2, _, hsub⟩ := sub s' hs'
  exact hall s2 hs2 y (hsub y hy)

theorem xsOf_set (seqs : List (Seq α)) (a : Nat) (s : Seq α) (rest : List α) :
    xsOf (seqs.set a { s with xs := rest }) = (xsOf seqs).set a rest := by
  simp [xsOf, List.map_set]

theorem guardsOf_set {seqs : List (Seq α)} {a : Nat} {s : Seq α} (hs : seqs[a]? = some s) (rest : List α) :
    guardsOf (seqs.set a { s with xs := rest }) = guardsOf seqs := by
  have hal : a < seqs.length := by
    by_cases c : a < seqs.length
    · exact c
    · rw [List.getElem?_eq_none (by omega)] at hs; cases hs
  have : seqs[a] = s := by rw [List.getElem?_eq_getElem hal] at hs; exact Option.some.inj hs
  simp only [guardsOf, List.map_set]
  apply List.ext_getElem?
  intro j
  by_cases c : a = j
  · subst c; simp [hal, this]
  · simp [List.getElem?_set_ne c]

theorem exists_nonempty {L : List (List α)} (h : 0 < L.flatten.length) :
    ∃ (j : Nat) (y : α) (q : List α), L[j]? = some (y :: q) := by
  induction L with
  | nil => simp at h
  | cons l rest ih =>
    cases l with
    | nil =>
      obtain ⟨j, y, q, hj⟩ := ih (by simpa using h)
      exact ⟨j + 1, y, q, by simpa using hj⟩
    | cons a l' => exact ⟨0, a, l', rfl⟩

theorem xsOf_get {seqs : List (Seq α)} {j : Nat} {l : List α} (h : (xsOf seqs)[j]? = some l) :
    ∃ s, seqs[j]? = some s ∧ s.xs = l := by
  simp only [xsOf, List.getElem?_map] at h
  cases hs : seqs[j]? with
  | none => rw [hs] at h; cases h
  | some s => rw [hs] at h; exact ⟨s, rfl, by simpa using h⟩

/-- the first sequence of a label in `before`-order holds the stable minimum -/
theorem head_isStableMin {lt : α → α → Bool} (hlt : SWO lt) {g : Bool} {seqs : List (Seq α)} {n : Nat}
    (hn : seqs.length = n) (hv : ViewsOK g lt seqs) {a : Nat} {rest : List Nat}
    (hperm : PermFacts n (a :: rest)) (hsorted : sortedO (oracleC g lt seqs n) (a :: rest) = true)
    (hpos : 0 < (xsOf seqs).flatten.length) :
    ∃ s x q, seqs[a]? = some s ∧ s.xs = x :: q ∧ IsStableMin lt (xsOf seqs) a x q := by
  have ha : a < n := hperm.lt a List.mem_cons_self
  have hsa : seqs[a]? = some seqs[a] := List.getElem?_eq_getElem (by omega)
  -- `a` is before every other sequence
  have hbef : ∀ j, j < n → j ≠ a → before g lt seqs a j = true := by
    intro j hj hne
    have hmem : j ∈ rest := by
      rcases List.mem_cons.1 (hperm.all j hj) with h | h
      · exact absurd h hne
      · exact h
    simp only [sortedO, Bool.and_eq_true, List.all_eq_true] at hsorted
    rw [← oracleC_eq hlt g seqs ha hj (fun h => hne h.symm)]
    exact hsorted.1 j hmem
  -- views of sequences with a head
  have hview : ∀ {j : Nat} {s : Seq α} {y : α} {q : List α}, seqs[j]? = some s → s.xs = y :: q →
      viewAt g seqs j = some y := by
    intro j s y q hs hx
    rw [viewAt_eq g hs]
    cases g <;> simp [view, C05.headU, hx]
  obtain ⟨j0, y0, q0, hj0⟩ := exists_nonempty hpos
  obtain ⟨s0, hs0, hx0⟩ := xsOf_get hj0
  have hj0n : j0 < n := by
    by_cases c : j0 < n
    · exact c
    · rw [List.getElem?_eq_none (by omega)] at hs0; cases hs0
  -- the first sequence is not exhausted
  have hne : seqs[a].xs ≠ [] := by
    intro he
    have hja : j0 ≠ a := by
      intro h; subst h
      rw [hsa] at hs0; cases hs0
      rw [he] at hx0; cases hx0
    have hb := hbef j0 hj0n hja
    unfold before at hb
    rw [hview hs0 hx0] at hb
    cases hg : g with
    | true =>
      subst hg
      have : viewAt true seqs a = none := by rw [viewAt_eq true hsa]; simp [view, he]
      rw [this] at hb; simp [beforeV] at hb
    | false =>
      subst hg
      rcases hv rfl seqs[a] (List.getElem_mem (by omega)) with hc | ⟨gd, hgd, hall⟩
      · exact hc he
      have : viewAt false seqs a = some gd := by rw [viewAt_eq false hsa]; simp [view, C05.headU, he, hgd]
      rw [this] at hb
      have hy : lt y0 gd = true := hall s0 (List.mem_of_getElem? hs0) y0 (by rw [hx0]; exact List.mem_cons_self)
      have := hlt.asymm y0 gd hy
      simp [beforeV, hy, this] at hb
  cases hxa : seqs[a].xs with
  | nil => exact absurd hxa hne
  | cons x q =>
    refine ⟨seqs[a], x, q, hsa, hxa, ⟨by simp [xsOf, hsa, hxa], fun j y q' hj => ?_⟩, fun j y q' hja hj => ?_⟩
    · obtain ⟨sj, hsj, hxj⟩ := xsOf_get hj
      by_cases hja : j = a
      · subst hja
        rw [hsa] at hsj
        have e1 : seqs[j] = sj := Option.some.inj hsj
        rw [← e1, hxa] at hxj
        have e2 : x = y := (List.cons.inj hxj).1
        rw [e2]; exact hlt.irrefl y
      · have hjn : j < n := by
          by_cases c : j < n
          · exact c
          · rw [List.getElem?_eq_none (by omega)] at hsj; cases hsj
        have hb := hbef j hjn hja
        unfold before at hb
        rw [hview hsa hxa, hview hsj hxj] at hb
        simp only [beforeV, Bool.or_eq_true, Bool.and_eq_true, Bool.not_eq_true'] at hb
        rcases hb with h | h
        · exact hlt.asymm x y h
        · exact h.1
    · obtain ⟨sj, hsj, hxj⟩ := xsOf_get hj
      have hjn : j < n := by omega
      have hb := hbef j hjn (by omega)
      unfold before at hb
      rw [hview hsa hxa, hview hsj hxj] at hb
      have : ¬ a < j := by omega
      simpa [beforeV, this] using hb

theorem machineLoop_run {lt : α → α → Bool} (hlt : SWO lt) (g : Bool) {M : Machine} (hM : tableOK M = true)
    (Pinv : List (Seq α) → Nat → Prop)
    (hPv : ∀ seqs n, Pinv seqs (n + 1) → ViewsOK g lt seqs)
    (hPs : ∀ (seqs : List (Seq α)) (n a : Nat) (s : Seq α) (x : α) (q : List α), Pinv seqs (n + 1) → seqs[a]? = some s →
      s.xs = x :: q → IsStableMin lt (xsOf seqs) a x q → Pinv (seqs.set a { s with xs := q }) n) :
    ∀ (size : Nat) (st : List Nat) (seqs : List (Seq α)),
      seqs.length = M.n → Pinv seqs size → goodState M (oracleC g lt seqs M.n) st = true →
      size ≤ (xsOf seqs).flatten.length →
      ∃ fin out, machineLoop g lt M size st seqs = some (fin, out) ∧
        StableRun lt (xsOf seqs) size out (xsOf fin) ∧ guardsOf fin = guardsOf seqs ∧ Pinv fin 0
  | 0, st, seqs, _, hP, _, _ => ⟨seqs, [], rfl, StableRun.done _, rfl, hP⟩
  | size + 1, st, seqs, hn, hP, hgood, hsize => by
    have hv := hPv seqs size hP
    obtain ⟨_, _, _, _, hrows, horacle⟩ := tableOK_parts hM
    obtain ⟨hperm, hsorted, hrow⟩ := goodState_parts hgood
    obtain ⟨row, hfind, hrowmem, hrowperm⟩ := find_row hrow
    have pf := isPerm_facts hperm
    cases st with
    | nil => have := pf.len; have := (tableOK_parts hM).2.2.1; simp at *; omega
    | cons a rest =>
      obtain ⟨s, x, q, hsa, hxa, hmin⟩ := head_isStableMin hlt hn hv pf hsorted (by omega)
      have hP' := hPs seqs size a s x q hP hsa hxa hmin
      have hn' : (seqs.set a { s with xs := q }).length = M.n := by rw [List.length_set]; exact hn
      have hlen := length_flatten_set hmin.1.1
      have hxs' := xsOf_set seqs a s q
      by_cases h0 : size = 0
      · subst h0
        refine ⟨seqs.set a { s with xs := q }, [x], ?_, ?_, guardsOf_set hsa q, hP'⟩
        · simp [machineLoop, hfind, hsa, hxa]
        · rw [hxs']
          exact StableRun.emit hmin (StableRun.done _)
      · -- dispatch
        have hv' : ViewsOK g lt (seqs.set a { s with xs := q }) := by
          obtain ⟨m, hm⟩ : ∃ m, size = m + 1 := ⟨size - 1, by omega⟩
          rw [hm] at hP'
          exact hPv _ m hP'
        have hargs : (a :: rest).all (· < (seqs.set a { s with xs := q }).length) = true := by
          rw [hn']; exact List.all_eq_true.2 (fun i hi => by simpa using pf.lt i hi)
        have hbody := evalBody_eq hlt g (seqs.set a { s with xs := q }) hv' (a :: rest) row.ops hargs
          M.body.tests M.body.dflt (by rw [← hrowperm]; exact (hrows row hrowmem).2)
        rw [hn'] at hbody
        -- the tail of the label is still in order
        have ha : a < M.n := pf.lt a List.mem_cons_self
        have hnotin : a ∉ rest := (List.nodup_cons.1 pf.nodup).1
        have htail : sortedO (oracleC g lt (seqs.set a { s with xs := q }) M.n) rest = true := by
          have hs2 : sortedO (oracleC g lt seqs M.n) rest = true := by
            simp only [sortedO, Bool.and_eq_true] at hsorted; exact hsorted.2
          rw [← hs2]
          apply sortedO_congr
          intro i hi j hj
          have hin : i < M.n := pf.lt i (List.mem_cons_of_mem _ hi)
          have hjn : j < M.n := pf.lt j (List.mem_cons_of_mem _ hj)
          by_cases hij : i = j
          · subst hij; simp [oracleC, oracleOf_self]
          · rw [oracleC_eq hlt g _ hin hjn hij, oracleC_eq hlt g _ hin hjn hij]
            have hia : a ≠ i := fun h => hnotin (h ▸ hi)
            have hja : a ≠ j := fun h => hnotin (h ▸ hj)
            simp [before, viewAt, List.getElem?_set_ne hia, List.getElem?_set_ne hja]
        obtain ⟨_, hr⟩ := horacle _ (oracleC_mem g lt (seqs.set a { s with xs := q }) M.n)
          (oracleC_trans hlt g _ M.n)
        obtain ⟨st', hev, hgood'⟩ := hr row hrowmem (by rw [hrowperm]; exact htail)
        rw [hrowperm] at hev
        obtain ⟨fin, out, hrec, hrun, hgd, hPf⟩ := machineLoop_run hlt g hM Pinv hPv hPs size st' (seqs.set a { s with xs := q })
          hn' hP' hgood' (by rw [hxs']; omega)
        refine ⟨fin, x :: out, ?_, ?_, by rw [hgd, guardsOf_set hsa q], hPf⟩
        · have hb2 : evalBody g lt (seqs.set a { s with xs := q }) (a :: rest) row.ops M.body.tests M.body.dflt = some st' := by
            rw [hbody]; exact hev
          simp [machineLoop, hfind, hsa, hxa, h0, hb2, hrec]
        · rw [hxs'] at hrun
          exact StableRun.emit hmin hrun

/-- **multiway_merge_3_variant / multiway_merge_4_variant.**  If the generated tables pass
`tableOK`, the machine is defined for every `size ≤ total` and performs the stable run of that
length, provided an invariant `Pinv seqs remaining` is maintained by stable-minimum emissions
that makes the iterators comparable whenever elements remain to be merged (`ViewsOK`): nothing
for guarded iterators, sentinels behind every sequence (`SentinelsP`), or "no sequence is
exhausted while elements remain to be merged" (the unguarded phase of the combined variants). -/
theorem machineMerge_run {lt : α → α → Bool} (hlt : SWO lt) (g : Bool) {M : Machine} (hM : tableOK M = true)
    (Pinv : List (Seq α) → Nat → Prop)
    (hPv : ∀ seqs n, Pinv seqs (n + 1) → ViewsOK g lt seqs)
    (hPs : ∀ (seqs : List (Seq α)) (n a : Nat) (s : Seq α) (x : α) (q : List α), Pinv seqs (n + 1) → seqs[a]? = some s →
      s.xs = x :: q → IsStableMin lt (xsOf seqs) a x q → Pinv (seqs.set a { s with xs := q }) n)
    (seqs : List (Seq α)) (size : Nat) (hn : seqs.length = M.n) (hP : Pinv seqs size)
    (hsize : size ≤ (xsOf seqs).flatten.length) :
    ∃ fin out, machineMerge g lt M seqs size = some (fin, out) ∧
      StableRun lt (xsOf seqs) size out (xsOf fin) ∧ guardsOf fin = guardsOf seqs ∧ Pinv fin 0 := by
  obtain ⟨he, hf, _, htree, _, horacle⟩ := tableOK_parts hM
  unfold machineMerge
  have hcond : (seqs.length ≠ M.n || !M.emitOK || !M.finishOK) = false := by simp [hn, he, hf]
  simp only [hcond, Bool.false_eq_true, if_false]
  by_cases h0 : size = 0
  · subst h0
    exact ⟨seqs, [], by simp, StableRun.done _, rfl, hP⟩
  · simp only [h0, if_false]
    have hv : ViewsOK g lt seqs := by
      obtain ⟨m, rfl⟩ : ∃ m, size = m + 1 := ⟨size - 1, by omega⟩
      exact hPv seqs m hP
    have htr := evalTree_eq hlt g M seqs hn hv M.entry htree
    rw [hn] at htr
    obtain ⟨⟨st, hev, hgood⟩, _⟩ := horacle _ (oracleC_mem g lt seqs M.n) (oracleC_trans hlt g _ M.n)
    have : evalTree g lt M seqs M.entry = some st := by rw [htr]; exact hev
    obtain ⟨fin, out, hrec, hrun, hgd, hPf⟩ := machineLoop_run hlt g hM Pinv hPv hPs size st seqs hn hP hgood hsize
    exact ⟨fin, out, by simp [this, hrec], hrun, hgd, hPf⟩

end TlxVerif.C05
