/-
C04 — preservation of the protocol invariant `Inv` by every transition of the fixed
configuration.
-/
import TlxVerif.Proofs.C04Proto
namespace TlxVerif.C04.Proto

/-! ### task list bookkeeping -/

theorem mem_pop {α} {pre post : List (List α)} {rest t : List α} (i : α)
    (h : t ∈ pre ++ rest :: post) : t = rest ∨ t ∈ pre ++ (i :: rest) :: post := by
  simp only [List.mem_append, List.mem_cons] at h ⊢
  rcases h with h | h | h
  · exact Or.inr (Or.inl h)
  · exact Or.inl h
  · exact Or.inr (Or.inr (Or.inr h))

theorem mem_push {α} {pre post nt : List (List α)} {blk rest t : List α}
    (h : t ∈ pre ++ (blk ++ rest) :: post ++ nt) : t = blk ++ rest ∨ t ∈ nt ∨ t ∈ pre ++ rest :: post := by
  simp only [List.mem_append, List.mem_cons] at h ⊢
  rcases h with (h | h | h) | h
  · exact Or.inr (Or.inr (Or.inl h))
  · exact Or.inl h
  · exact Or.inr (Or.inr (Or.inr (Or.inr h)))
  · exact Or.inr (Or.inl h)

theorem all_pop {P : Instr → Prop} {pre post : List (List Instr)} {i : Instr} {rest : List Instr}
    (h : ∀ t ∈ pre ++ (i :: rest) :: post, ∀ x ∈ t, P x) : ∀ t ∈ pre ++ rest :: post, ∀ x ∈ t, P x := by
  intro t ht x hx
  rcases mem_pop i ht with rfl | h'
  · exact h (i :: t) (by simp) x (List.mem_cons_of_mem _ hx)
  · exact h t h' x hx

theorem all_push {P : Instr → Prop} {pre post nt : List (List Instr)} {blk rest : List Instr}
    (h0 : ∀ t ∈ pre ++ rest :: post, ∀ x ∈ t, P x) (hb : ∀ x ∈ blk, P x) (hn : ∀ t ∈ nt, ∀ x ∈ t, P x) :
    ∀ t ∈ pre ++ (blk ++ rest) :: post ++ nt, ∀ x ∈ t, P x := by
  intro t ht x hx
  rcases mem_push ht with rfl | h' | h'
  · rcases List.mem_append.1 hx with hx | hx
    · exact hb x hx
    · exact h0 rest (by simp) x hx
  · exact hn t h' x hx
  · exact h0 t h' x hx

theorem cov_push {pre post nt : List (List Instr)} {i : Instr} {blk rest : List Instr}
    (h : ∀ t ∈ pre ++ (i :: rest) :: post, covered t = true) (hb : covered (blk ++ rest) = true)
    (hn : ∀ t ∈ nt, covered t = true) : ∀ t ∈ pre ++ (blk ++ rest) :: post ++ nt, covered t = true := by
  intro t ht
  rcases mem_push ht with rfl | h' | h'
  · exact hb
  · exact hn t h'
  · rcases mem_pop i h' with rfl | h''
    · exact covered_tail (h (i :: t) (by simp))
    · exact h t h''

/-- the head instruction of a covered task that is not a keep-alive one is followed by a
reference to the same object -/
theorem ref_in_rest {i : Instr} {rest : List Instr} (pre post : List (List Instr))
    (hc : covered (i :: rest) = true) (hk : keepAlive i = false) :
    0 < NT (isRef i.subj) (pre ++ rest :: post) := by
  simp only [covered, hk, Bool.false_or, Bool.and_eq_true, List.any_eq_true, beq_iff_eq] at hc
  obtain ⟨⟨j, hj, hjs⟩, _⟩ := hc
  exact (NT_pos_iff _ _).2 ⟨rest, by simp, j, hj, by simp [isRef, hjs]⟩

theorem covered_cons_of_ref {i : Instr} {rest : List Instr} (hr : covered rest = true)
    (h : keepAlive i = true ∨ ∃ j ∈ rest, j.subj = i.subj) : covered (i :: rest) = true := by
  simp only [covered, Bool.and_eq_true, Bool.or_eq_true, List.any_eq_true, beq_iff_eq]
  exact ⟨h, hr⟩

/-! ### predicates only see their own object -/

theorem preds_of_subj_ne {x : Instr} {j : Nat} (h : x.subj ≠ j) :
    isTok j x = false ∧ isPend j x = false ∧ isStart j x = false ∧ isIncrH j x = false ∧ isOwn j x = false ∧
    isDel j x = false ∧ isRpn j x = false ∧ isRef j x = false ∧ isPostI j x = false := by
  cases x <;> simp_all [Instr.subj, isTok, isPend, isStart, isIncrH, isOwn, isDel, isRpn, isRef, isPostI]

theorem countP_zero_of_subj {l : List Instr} {id j : Nat} (hl : ∀ x ∈ l, x.subj = id) (hj : j ≠ id)
    (q : Nat → Instr → Bool) (hq : ∀ x, x.subj ≠ j → q j x = false) : l.countP (q j) = 0 := by
  rw [List.countP_eq_zero]
  intro x hx
  have := hq x (by rw [hl x hx]; exact Ne.symm hj)
  simp [this]

theorem countsOf_frame {pre post nt : List (List Instr)} {i : Instr} {blk rest : List Instr} {id j : Nat}
    (hi : i.subj = id) (hb : ∀ x ∈ blk, x.subj = id) (hn : ∀ t ∈ nt, ∀ x ∈ t, x.subj = id) (hj : j ≠ id) :
    countsOf (pre ++ (blk ++ rest) :: post ++ nt) j = countsOf (pre ++ (i :: rest) :: post) j := by
  have hnf : ∀ x ∈ nt.flatten, x.subj = id := by
    intro x hx
    obtain ⟨t, ht, hxt⟩ := List.mem_flatten.1 hx
    exact hn t ht x hxt
  have hi' : i.subj ≠ j := by rw [hi]; exact Ne.symm hj
  obtain ⟨h1, h2, h3, h4, h5, h6, h7, h8, h9⟩ := preds_of_subj_ne hi'
  simp only [countsOf, NT_push, NT_pop, h1, h2, h3, h4, h5, h6, h7, h8, h9]
  simp [countP_zero_of_subj hb hj isTok (fun x h => (preds_of_subj_ne h).1),
    countP_zero_of_subj hnf hj isTok (fun x h => (preds_of_subj_ne h).1),
    countP_zero_of_subj hb hj isPend (fun x h => (preds_of_subj_ne h).2.1),
    countP_zero_of_subj hnf hj isPend (fun x h => (preds_of_subj_ne h).2.1),
    countP_zero_of_subj hb hj isStart (fun x h => (preds_of_subj_ne h).2.2.1),
    countP_zero_of_subj hnf hj isStart (fun x h => (preds_of_subj_ne h).2.2.1),
    countP_zero_of_subj hb hj isIncrH (fun x h => (preds_of_subj_ne h).2.2.2.1),
    countP_zero_of_subj hnf hj isIncrH (fun x h => (preds_of_subj_ne h).2.2.2.1),
    countP_zero_of_subj hb hj isOwn (fun x h => (preds_of_subj_ne h).2.2.2.2.1),
    countP_zero_of_subj hnf hj isOwn (fun x h => (preds_of_subj_ne h).2.2.2.2.1),
    countP_zero_of_subj hb hj isDel (fun x h => (preds_of_subj_ne h).2.2.2.2.2.1),
    countP_zero_of_subj hnf hj isDel (fun x h => (preds_of_subj_ne h).2.2.2.2.2.1),
    countP_zero_of_subj hb hj isRpn (fun x h => (preds_of_subj_ne h).2.2.2.2.2.2.1),
    countP_zero_of_subj hnf hj isRpn (fun x h => (preds_of_subj_ne h).2.2.2.2.2.2.1),
    countP_zero_of_subj hb hj isRef (fun x h => (preds_of_subj_ne h).2.2.2.2.2.2.2.1),
    countP_zero_of_subj hnf hj isRef (fun x h => (preds_of_subj_ne h).2.2.2.2.2.2.2.1),
    countP_zero_of_subj hb hj isPostI (fun x h => (preds_of_subj_ne h).2.2.2.2.2.2.2.2),
    countP_zero_of_subj hnf hj isPostI (fun x h => (preds_of_subj_ne h).2.2.2.2.2.2.2.2)]

/-! ### object table -/

theorem aliveAt_modObj {objs : List Obj} {id : Nat} {f : Obj → Obj} (hf : ∀ o, (f o).alive = o.alive) (j : Nat) :
    aliveAt (modObj objs id f) j = aliveAt objs j := by
  unfold aliveAt
  rw [modObj_get]
  by_cases hj : j = id
  · subst hj; cases h : objs[j]? <;> simp [hf]
  · simp [hj]

/-- a transition on object `id` that keeps `alive` and `parent` of `id`, leaves `owed` alone and
only pushes instructions on `id` -/
theorem inv_same_obj {s : State} (h : Inv s) {pre post nt : List (List Instr)} {i : Instr} {rest blk : List Instr}
    {id : Nat} (ht : s.tasks = pre ++ (i :: rest) :: post) (hi : i.subj = id)
    (f : Obj → Obj) (hfa : ∀ o, (f o).alive = o.alive) (hfp : ∀ o, (f o).parent = o.parent)
    (hblk : ∀ x ∈ blk, x.subj = id) (hnt : ∀ t ∈ nt, ∀ x ∈ t, x.subj = id)
    (hcb : covered (blk ++ rest) = true) (hcn : ∀ t ∈ nt, covered t = true)
    (hor : ∀ p, (id, p) ∈ s.owed → 0 < NT (isDel id) (pre ++ (blk ++ rest) :: post ++ nt) →
      0 < NT (isRpn id) (pre ++ (blk ++ rest) :: post ++ nt))
    (hloc : ∀ o, s.objs[id]? = some o → o.alive = true →
      LocalP (f o) (countsOf (pre ++ (blk ++ rest) :: post ++ nt) id) (owedTo id s) (owesParent s.owed id (f o))) :
    Inv { objs := modObj s.objs id f, tasks := pre ++ (blk ++ rest) :: post ++ nt, owed := s.owed, err := none } := by
  have hia : aliveAt s.objs id = true := by
    have := h.refsAlive (i :: rest) (by simp [ht]) i (by simp)
    rwa [hi] at this
  refine ⟨rfl, ?_, ?_, h.owedNodup, ?_, ?_, ?_⟩
  · -- refsAlive
    have h0 : ∀ t ∈ pre ++ rest :: post, ∀ x ∈ t, aliveAt (modObj s.objs id f) x.subj = true := by
      have := all_pop (P := fun x => aliveAt s.objs x.subj = true) (by simpa [ht] using h.refsAlive)
      intro t ht' x hx
      rw [aliveAt_modObj hfa]; exact this t ht' x hx
    refine all_push h0 ?_ ?_
    · intro x hx; rw [aliveAt_modObj hfa, hblk x hx]; exact hia
    · intro t ht' x hx; rw [aliveAt_modObj hfa, hnt t ht' x hx]; exact hia
  · -- owedOk
    intro c p hcp
    obtain ⟨h1, h2, h3, o, ho, hop⟩ := h.owedOk c p hcp
    refine ⟨by rw [aliveAt_modObj hfa]; exact h1, by rw [aliveAt_modObj hfa]; exact h2, h3, ?_⟩
    by_cases hc : c = id
    · subst hc
      exact ⟨f o, by simp [modObj_get, ho], by rw [hfp]; exact hop⟩
    · exact ⟨o, by simp [modObj_get, hc, ho], hop⟩
  · exact cov_push (by simpa [ht] using h.cov) hcb hcn
  · -- owedRpn
    intro c p hcp hd
    by_cases hc : c = id
    · subst hc; exact hor p hcp hd
    · have hfr := countsOf_frame (pre := pre) (post := post) (rest := rest) hi hblk hnt hc
      have h1 : NT (isDel c) (pre ++ (blk ++ rest) :: post ++ nt) = NT (isDel c) (pre ++ (i :: rest) :: post) :=
        congrArg Counts.del hfr
      have h2 : NT (isRpn c) (pre ++ (blk ++ rest) :: post ++ nt) = NT (isRpn c) (pre ++ (i :: rest) :: post) :=
        congrArg Counts.rpn hfr
      have := h.owedRpn c p hcp
      simp only [N, ht] at this hd ⊢
      rw [h2]; rw [h1] at hd; exact this hd
  · -- loc
    intro j o' ho' ha'
    by_cases hj : j = id
    · subst hj
      rw [modObj_get] at ho'
      simp only [if_true] at ho'
      cases ho : s.objs[j]? with
      | none => simp [ho] at ho'
      | some o =>
        simp only [ho, Option.map_some, Option.some.injEq] at ho'
        subst ho'
        exact hloc o ho (by rw [← hfa]; exact ha')
    · rw [modObj_get] at ho'
      simp only [hj, if_false] at ho'
      have := h.loc j o' ho' ha'
      simp only [countsOf_frame (pre := pre) (post := post) (rest := rest) hi hblk hnt hj, owedTo, owesParent] at this ⊢
      rw [ht] at this
      exact this

theorem modObj_self (objs : List Obj) (id : Nat) : modObj objs id (fun o => o) = objs := by
  unfold modObj
  cases h : objs[id]? with
  | none => rfl
  | some o =>
    apply List.ext_getElem?
    intro j
    by_cases hj : j = id
    · subst hj
      have : j < objs.length := by
        rcases Nat.lt_or_ge j objs.length with h' | h'
        · exact h'
        · simp [List.getElem?_eq_none h'] at h
      simp only [List.getElem?_set, this, if_true]
      exact h.symm
    · simp [Ne.symm hj]

/-- the head of a covered task that is not keep-alive is followed by another reference -/
theorem exists_ref_rest {i : Instr} {rest : List Instr} (hc : covered (i :: rest) = true)
    (hk : keepAlive i = false) : ∃ j ∈ rest, j.subj = i.subj := by
  simp only [covered, hk, Bool.false_or, Bool.and_eq_true, List.any_eq_true, beq_iff_eq] at hc
  exact hc.1

macro "loc_simp" " at " h:ident : tactic =>
  `(tactic| (simp only [LocalP, countsOf, NT_append, NT_cons, NT_nil, isTok, isPend, isStart, isIncrH, isOwn, isDel,
      isRpn, isRef, isPostI, Instr.subj, owedTo, owesParent, List.countP_cons, List.countP_nil,
      List.append_nil, List.nil_append, List.countP_append, List.countP_replicate, spawnIter, partJob,
      countFinished, distFinished, finishedBlk, afterHandle, allDone, Cfg.fixed, beq_self_eq_true, ite_true, if_true,
      Bool.false_eq_true, if_false, ite_false, Nat.add_zero, Nat.zero_add, beq_iff_eq] at $h:ident ⊢))

/-- `acc`: the instruction is removed, nothing else changes -/
theorem inv_acc {s : State} (h : Inv s) {pre post : List (List Instr)} {id : Nat} {rest : List Instr}
    (ht : s.tasks = pre ++ (.acc id :: rest) :: post) :
    Inv { objs := s.objs, tasks := pre ++ ([] ++ rest) :: post ++ [], owed := s.owed, err := none } := by
  have hcov : covered (.acc id :: rest) = true := h.cov _ (by simp [ht])
  have hr := ref_in_rest pre post hcov rfl
  have key := inv_same_obj (id := id) (blk := []) (nt := []) h ht rfl (fun o => o) (fun _ => rfl) (fun _ => rfl)
    (by simp) (by simp) (by simpa using covered_tail hcov) (by simp)
    (by
      intro p hp hd
      have := h.owedRpn _ p hp
      simp only [N, ht] at this
      loc_simp at this
      loc_simp at hd
      exact this hd)
    (by
      intro o ho ha
      have hl := h.loc _ o ho ha
      rw [ht] at hl
      loc_simp at hl
      loc_simp at hr
      grind)
  simpa [modObj_self] using key

/-- leaving the spawn loop -/
theorem inv_loopExit {s : State} (h : Inv s) {pre post : List (List Instr)} {id : Nat} {rest : List Instr}
    (ht : s.tasks = pre ++ (.loop id :: rest) :: post) :
    Inv { objs := s.objs, tasks := pre ++ ([] ++ rest) :: post ++ [], owed := s.owed, err := none } := by
  have hcov : covered (.loop id :: rest) = true := h.cov _ (by simp [ht])
  have hr := ref_in_rest pre post hcov rfl
  have key := inv_same_obj (id := id) (blk := []) (nt := []) h ht rfl (fun o => o) (fun _ => rfl) (fun _ => rfl)
    (by simp) (by simp) (by simpa using covered_tail hcov) (by simp)
    (by
      intro p hp hd
      have := h.owedRpn _ p hp
      simp only [N, ht] at this
      loc_simp at this
      loc_simp at hd
      exact this hd)
    (by
      intro o ho ha
      have hl := h.loc _ o ho ha
      rw [ht] at hl
      loc_simp at hl
      loc_simp at hr
      grind)
  simpa [modObj_self] using key

/-- one more iteration of the spawn loop -/
theorem inv_spawn {s : State} (h : Inv s) {pre post : List (List Instr)} {id : Nat} {rest : List Instr}
    (k : Kind) (parts : Nat) (ht : s.tasks = pre ++ (.loop id :: rest) :: post) :
    Inv { objs := s.objs, tasks := pre ++ (spawnIter id k parts ++ rest) :: post ++ [], owed := s.owed, err := none } := by
  have hcov : covered (.loop id :: rest) = true := h.cov _ (by simp [ht])
  obtain ⟨j, hj, hjs⟩ := exists_ref_rest hcov rfl
  have key := inv_same_obj (id := id) (blk := spawnIter id k parts) (nt := []) h ht rfl (fun o => o) (fun _ => rfl) (fun _ => rfl)
    (by simp [spawnIter, Instr.subj]) (by simp)
    (by
      simp only [spawnIter, List.cons_append, List.nil_append]
      refine covered_cons_of_ref (covered_cons_of_ref (covered_cons_of_ref (covered_tail hcov) ?_) ?_) ?_
      · exact Or.inr ⟨j, hj, hjs⟩
      · exact Or.inr ⟨.loop id, by simp, rfl⟩
      · exact Or.inr ⟨.incrC id k parts, by simp, rfl⟩)
    (by simp)
    (by
      intro p hp hd
      have := h.owedRpn _ p hp
      simp only [N, ht] at this
      loc_simp at this
      loc_simp at hd
      exact this hd)
    (by
      intro o ho ha
      have hl := h.loc _ o ho ha
      rw [ht] at hl
      loc_simp at hl
      grind)
  simpa [modObj_self] using key

/-- `pwork_ = parts_` and entering the enqueue loop (fixed: the loop no longer reads members) -/
theorem inv_startLoop {s : State} (h : Inv s) {pre post : List (List Instr)} {id : Nat} {ph : Phase}
    {rest : List Instr} {o : Obj} (ht : s.tasks = pre ++ (.startLoop id ph :: rest) :: post)
    (ho : s.objs[id]? = some o) :
    Inv { objs := modObj s.objs id (fun o => { o with pwork := o.parts }),
          tasks := pre ++ (enqLoop Cfg.fixed id ph o.parts ++ rest) :: post ++ [], owed := s.owed, err := none } := by
  have hcov : covered (.startLoop id ph :: rest) = true := h.cov _ (by simp [ht])
  have henq : enqLoop Cfg.fixed id ph o.parts = List.replicate o.parts (.enq id ph) := by simp [enqLoop, Cfg.fixed]
  rw [henq]
  refine inv_same_obj (id := id) (blk := List.replicate o.parts (.enq id ph)) (nt := []) h ht rfl _ (fun _ => rfl) (fun _ => rfl)
    (by intro x hx; rw [List.eq_of_mem_replicate hx]; rfl) (by simp) ?_ (by simp) ?_ ?_
  · apply covered_append (covered_tail hcov)
    intro pre' i suf hb
    left
    have : i ∈ List.replicate o.parts (Instr.enq id ph) := by rw [hb]; simp
    rw [List.eq_of_mem_replicate this]; rfl
  · intro p hp hd
    have := h.owedRpn _ p hp
    simp only [N, ht] at this
    loc_simp at this
    loc_simp at hd
    exact this hd
  · intro o' ho' ha
    rw [ho] at ho'; cases ho'
    have hl := h.loc _ o ho ha
    rw [ht] at hl
    loc_simp at hl
    grind

/-- `ctx_.threads_.enqueue(…)`: a new count / distribute job -/
theorem inv_enq {s : State} (h : Inv s) {pre post : List (List Instr)} {id : Nat} {ph : Phase}
    {rest : List Instr} (ht : s.tasks = pre ++ (.enq id ph :: rest) :: post) :
    Inv { objs := s.objs, tasks := pre ++ ([] ++ rest) :: post ++ [partJob id ph], owed := s.owed, err := none } := by
  have hcov : covered (.enq id ph :: rest) = true := h.cov _ (by simp [ht])
  have key := inv_same_obj (id := id) (blk := []) (nt := [partJob id ph]) h ht rfl (fun o => o) (fun _ => rfl) (fun _ => rfl)
    (by simp) (by simp [partJob, Instr.subj]) (by simpa using covered_tail hcov)
    (by simp [partJob, covered, keepAlive, Instr.subj])
    (by
      intro p hp hd
      have := h.owedRpn _ p hp
      simp only [N, ht] at this
      loc_simp at this
      loc_simp at hd
      exact this hd)
    (by
      intro o ho ha
      have hl := h.loc _ o ho ha
      rw [ht] at hl
      loc_simp at hl
      grind)
  simpa [modObj_self] using key

/-- `if (--pwork_ == 0) count_finished() / distribute_finished()` -/
theorem inv_decPwork {s : State} (h : Inv s) {pre post : List (List Instr)} {id : Nat} {ph : Phase}
    {rest : List Instr} {o : Obj} (ht : s.tasks = pre ++ (.decPwork id ph :: rest) :: post)
    (ho : s.objs[id]? = some o) (ha : o.alive = true) :
    o.pwork ≠ 0 ∧
    Inv { objs := modObj s.objs id (fun o => { o with pwork := o.pwork - 1 }),
          tasks := pre ++ ((if o.pwork - 1 = 0 then finishedBlk ph id else []) ++ rest) :: post ++ [],
          owed := s.owed, err := none } := by
  have hcov : covered (.decPwork id ph :: rest) = true := h.cov _ (by simp [ht])
  have hl := h.loc _ o ho ha
  rw [ht] at hl
  have hpw : o.pwork ≠ 0 := by
    loc_simp at hl
    grind
  refine ⟨hpw, ?_⟩
  have m1 := NT_mono (pend_ref id) pre
  have m2 : rest.countP (isPend id) ≤ rest.countP (isRef id) := List.countP_mono_left (fun i _ => pend_ref id i)
  have m3 := NT_mono (pend_ref id) post
  by_cases hz : o.pwork - 1 = 0
  · simp only [hz, if_true]
    refine inv_same_obj (id := id) (nt := []) (blk := finishedBlk ph id)
      h ht rfl (fun o => { o with pwork := o.pwork - 1 }) (fun _ => rfl) (fun _ => rfl) ?_ (by simp) ?_ (by simp) ?_ ?_
    · intro x hx
      cases ph <;> simp [finishedBlk, countFinished, distFinished] at hx <;> rcases hx with rfl | rfl <;> rfl
    · cases ph <;> simp only [finishedBlk, countFinished, distFinished, List.cons_append, List.nil_append]
      · exact covered_cons_of_ref (covered_cons_of_ref (covered_tail hcov) (Or.inl rfl))
          (Or.inr ⟨.startLoop id .dist, by simp, rfl⟩)
      · exact covered_cons_of_ref (covered_cons_of_ref (covered_tail hcov) (Or.inl rfl))
          (Or.inr ⟨.incrH id true, by simp, rfl⟩)
    · intro p hp hd
      have := h.owedRpn _ p hp
      simp only [N, ht] at this
      loc_simp at this
      cases ph <;> loc_simp at hd <;> exact this hd
    · intro o' ho' _
      rw [ho] at ho'; cases ho'
      cases ph <;> loc_simp at hl <;> grind
  · simp only [hz, if_false]
    refine inv_same_obj (id := id) (nt := []) (blk := [])
      h ht rfl (fun o => { o with pwork := o.pwork - 1 }) (fun _ => rfl) (fun _ => rfl) (by simp) (by simp) ?_ (by simp) ?_ ?_
    · simpa using covered_tail hcov
    · intro p hp hd
      have := h.owedRpn _ p hp
      simp only [N, ht] at this
      loc_simp at this
      loc_simp at hd
      exact this hd
    · intro o' ho' _
      rw [ho] at ho'; cases ho'
      loc_simp at hl
      grind

/-- `substep_add()` for the anonymous handle; afterwards the spawn loop and the release -/
theorem inv_incrH {s : State} (h : Inv s) {pre post : List (List Instr)} {id : Nat} {big : Bool}
    {rest : List Instr} (ht : s.tasks = pre ++ (.incrH id big :: rest) :: post) :
    Inv { objs := modObj s.objs id (fun o => { o with cnt := o.cnt + 1, post := true }),
          tasks := pre ++ (afterHandle Cfg.fixed id big ++ rest) :: post ++ [], owed := s.owed, err := none } := by
  have hcov : covered (.incrH id big :: rest) = true := h.cov _ (by simp [ht])
  refine inv_same_obj (id := id) (nt := []) (blk := afterHandle Cfg.fixed id big)
    h ht rfl (fun o => { o with cnt := o.cnt + 1, post := true }) (fun _ => rfl) (fun _ => rfl) ?_ (by simp) ?_ (by simp) ?_ ?_
  · intro x hx
    cases big <;> simp [afterHandle, Cfg.fixed] at hx <;> rcases hx with rfl | rfl | rfl <;> rfl
  · cases big <;> simp only [afterHandle, Cfg.fixed, if_true, if_false, Bool.false_eq_true, List.cons_append, List.nil_append]
    · exact covered_cons_of_ref (covered_cons_of_ref (covered_tail hcov) (Or.inl rfl))
        (Or.inr ⟨.notify id, by simp, rfl⟩)
    · exact covered_cons_of_ref (covered_cons_of_ref (covered_cons_of_ref (covered_tail hcov) (Or.inl rfl))
        (Or.inr ⟨.notify id, by simp, rfl⟩)) (Or.inr ⟨.acc id, by simp, rfl⟩)
  · intro p hp hd
    have := h.owedRpn _ p hp
    simp only [N, ht] at this
    loc_simp at this
    cases big <;> loc_simp at hd <;> exact this hd
  · intro o ho ha
    have hl := h.loc _ o ho ha
    rw [ht] at hl
    cases big <;> loc_simp at hl <;> grind

/-- `substep_add()` for one more sub-step; afterwards `ctx_.enqueue(this, …)` -/
theorem inv_incrC {s : State} (h : Inv s) {pre post : List (List Instr)} {id : Nat} {k : Kind} {parts : Nat}
    {rest : List Instr} (ht : s.tasks = pre ++ (.incrC id k parts :: rest) :: post) :
    Inv { objs := modObj s.objs id (fun o => { o with cnt := o.cnt + 1 }),
          tasks := pre ++ ([Instr.newChild id k parts] ++ rest) :: post ++ [], owed := s.owed, err := none } := by
  have hcov : covered (.incrC id k parts :: rest) = true := h.cov _ (by simp [ht])
  refine inv_same_obj (id := id) (nt := []) (blk := [Instr.newChild id k parts])
    h ht rfl (fun o => { o with cnt := o.cnt + 1 }) (fun _ => rfl) (fun _ => rfl) ?_ (by simp) ?_ (by simp) ?_ ?_
  · intro x hx; simp at hx; rw [hx]; rfl
  · exact covered_cons_of_ref (covered_tail hcov) (Or.inl rfl)
  · intro p hp hd
    have := h.owedRpn _ p hp
    simp only [N, ht] at this
    loc_simp at this
    loc_simp at hd
    exact this hd
  · intro o ho ha
    have hl := h.loc _ o ho ha
    rw [ht] at hl
    loc_simp at hl
    grind

theorem cov_pop {pre post : List (List Instr)} {i : Instr} {rest : List Instr}
    (h : ∀ t ∈ pre ++ (i :: rest) :: post, covered t = true) : ∀ t ∈ pre ++ rest :: post, covered t = true := by
  intro t ht
  rcases mem_pop i ht with rfl | h'
  · exact covered_tail (h (i :: t) (by simp))
  · exact h t h'

/-- `substep_notify_done()`: at zero the thread continues with `substep_all_done()` -/
theorem inv_notify {s : State} (h : Inv s) {pre post : List (List Instr)} {id : Nat}
    {rest : List Instr} {o : Obj} (ht : s.tasks = pre ++ (.notify id :: rest) :: post)
    (ho : s.objs[id]? = some o) (ha : o.alive = true) :
    o.cnt ≠ 0 ∧
    Inv { objs := modObj s.objs id (fun o => { o with cnt := o.cnt - 1 }),
          tasks := pre ++ ((if o.cnt - 1 = 0 then allDone id else []) ++ rest) :: post ++ [],
          owed := s.owed, err := none } := by
  have hcov : covered (.notify id :: rest) = true := h.cov _ (by simp [ht])
  have hl := h.loc _ o ho ha
  rw [ht] at hl
  have hcnt : o.cnt ≠ 0 := by
    loc_simp at hl
    grind
  refine ⟨hcnt, ?_⟩
  have m1 := NT_mono (tok_ref id) pre
  have m2 : rest.countP (isTok id) ≤ rest.countP (isRef id) := List.countP_mono_left (fun i _ => tok_ref id i)
  have m3 := NT_mono (tok_ref id) post
  by_cases hz : o.cnt - 1 = 0
  · simp only [hz, if_true]
    -- nothing else refers to the object any more
    have hfacts : NT (isPend id) (pre ++ rest :: post) = 0 ∧ NT (isStart id) (pre ++ rest :: post) = 0 ∧
        NT (isIncrH id) (pre ++ rest :: post) = 0 ∧ NT (isTok id) (pre ++ rest :: post) = 0 ∧
        NT (isDel id) (pre ++ rest :: post) = 0 := by
      loc_simp at hl
      grind
    obtain ⟨f1, f2, f3, f4, f5⟩ := hfacts
    have href : NT (isRef id) (pre ++ rest :: post) = 0 :=
      noRefs_of_noKeep (cov_pop (by simpa [ht] using h.cov)) (noKeep_of_counts f1 f2 f3 f4 f5)
    have hown := NT_zero_of_noRefs href (isOwn id) (own_ref id)
    have hrpn := NT_zero_of_noRefs href (isRpn id) (rpn_ref id)
    have hpi := NT_zero_of_noRefs href (isPostI id) (postI_ref id)
    refine inv_same_obj (id := id) (nt := []) (blk := allDone id)
      h ht rfl (fun o => { o with cnt := o.cnt - 1 }) (fun _ => rfl) (fun _ => rfl) ?_ (by simp) ?_ (by simp) ?_ ?_
    · intro x hx
      simp [allDone] at hx; rcases hx with rfl | rfl | rfl <;> rfl
    · simp only [allDone, List.cons_append, List.nil_append]
      exact covered_cons_of_ref (covered_cons_of_ref (covered_cons_of_ref (covered_tail hcov) (Or.inl rfl))
        (Or.inr ⟨.del id, by simp, rfl⟩)) (Or.inr ⟨.rpn id, by simp, rfl⟩)
    · intro p hp hd
      loc_simp at hd
      omega
    · intro o' ho' _
      rw [ho] at ho'; cases ho'
      loc_simp at hl
      loc_simp at href
      loc_simp at hown
      loc_simp at hrpn
      loc_simp at hpi
      grind
  · simp only [hz, if_false]
    refine inv_same_obj (id := id) (nt := []) (blk := [])
      h ht rfl (fun o => { o with cnt := o.cnt - 1 }) (fun _ => rfl) (fun _ => rfl) (by simp) (by simp) ?_ (by simp) ?_ ?_
    · simpa using covered_tail hcov
    · intro p hp hd
      have := h.owedRpn _ p hp
      simp only [N, ht] at this
      loc_simp at this
      loc_simp at hd
      exact this hd
    · intro o' ho' _
      rw [ho] at ho'; cases ho'
      loc_simp at hl
      grind

/-! ### `delete this` -/

theorem aliveAt_lt {objs : List Obj} {j : Nat} (h : aliveAt objs j = true) : j < objs.length := by
  obtain ⟨o, ho, _⟩ := aliveAt_iff.1 h
  rcases Nat.lt_or_ge j objs.length with h' | h'
  · exact h'
  · simp [List.getElem?_eq_none h'] at ho

theorem aliveAt_kill {objs : List Obj} {id j : Nat} (hj : j ≠ id) :
    aliveAt (modObj objs id (fun o => { o with alive := false })) j = aliveAt objs j := by
  unfold aliveAt; rw [modObj_get]; simp [hj]

theorem countsOf_pop_ne {pre post : List (List Instr)} {i : Instr} {rest : List Instr} {j : Nat}
    (hj : i.subj ≠ j) : countsOf (pre ++ rest :: post) j = countsOf (pre ++ (i :: rest) :: post) j := by
  have := countsOf_frame (pre := pre) (post := post) (nt := []) (blk := []) (rest := rest) (i := i) (id := i.subj)
    (j := j) rfl (by simp) (by simp) (Ne.symm hj)
  simpa using this

theorem inv_del {s : State} (h : Inv s) {pre post : List (List Instr)} {id : Nat}
    {rest : List Instr} {o : Obj} (ht : s.tasks = pre ++ (.del id :: rest) :: post)
    (ho : s.objs[id]? = some o) (ha : o.alive = true) :
    o.cnt = 0 ∧
    Inv { objs := modObj s.objs id (fun o => { o with alive := false }),
          tasks := pre ++ ([] ++ rest) :: post ++ [], owed := s.owed, err := none } := by
  have hcov : covered (.del id :: rest) = true := h.cov _ (by simp [ht])
  have hl := h.loc _ o ho ha
  rw [ht] at hl
  have hfacts : o.cnt = 0 ∧ owedTo id s = 0 ∧
      NT (isPend id) (pre ++ rest :: post) = 0 ∧ NT (isStart id) (pre ++ rest :: post) = 0 ∧
      NT (isIncrH id) (pre ++ rest :: post) = 0 ∧ NT (isTok id) (pre ++ rest :: post) = 0 ∧
      NT (isDel id) (pre ++ rest :: post) = 0 := by
    loc_simp at hl
    grind
  obtain ⟨hc0, hw0, f1, f2, f3, f4, f5⟩ := hfacts
  refine ⟨hc0, ?_⟩
  have hcovs : ∀ t ∈ pre ++ rest :: post, covered t = true := cov_pop (by simpa [ht] using h.cov)
  have href : NT (isRef id) (pre ++ rest :: post) = 0 := noRefs_of_noKeep hcovs (noKeep_of_counts f1 f2 f3 f4 f5)
  have hrpn := NT_zero_of_noRefs href (isRpn id) (rpn_ref id)
  have hnoref : ∀ t ∈ pre ++ rest :: post, ∀ x ∈ t, x.subj ≠ id := by
    intro t htm x hx hs
    have : 0 < NT (isRef id) (pre ++ rest :: post) := (NT_pos_iff _ _).2 ⟨t, htm, x, hx, by simp [isRef, hs]⟩
    omega
  have hold : ∀ t ∈ pre ++ rest :: post, ∀ x ∈ t, aliveAt s.objs x.subj = true :=
    all_pop (P := fun x => aliveAt s.objs x.subj = true) (by simpa [ht] using h.refsAlive)
  -- no owed entry mentions the object
  have howed : ∀ c p, (c, p) ∈ s.owed → c ≠ id ∧ p ≠ id := by
    intro c p hcp
    constructor
    · rintro rfl
      have := h.owedRpn c p hcp (by simp only [N, ht, NT_append, NT_cons, isDel, List.countP_cons]; simp; omega)
      simp only [N, ht, NT_append, NT_cons, List.countP_cons, isRpn] at this
      simp only [NT_append, NT_cons] at hrpn
      simp at this
      omega
    · rintro rfl
      have : 0 < owedTo p s := by
        simp only [owedTo]
        exact List.countP_pos_iff.2 ⟨(c, p), hcp, by simp⟩
      omega
  simp only [List.nil_append, List.append_nil]
  refine ⟨rfl, ?_, ?_, h.owedNodup, hcovs, ?_, ?_⟩
  · intro t htm x hx
    rw [aliveAt_kill (hnoref t htm x hx)]
    exact hold t htm x hx
  · intro c p hcp
    obtain ⟨h1, h2, h3, oc, hoc, hop⟩ := h.owedOk c p hcp
    obtain ⟨hc, hp⟩ := howed c p hcp
    exact ⟨by rw [aliveAt_kill hc]; exact h1, by rw [aliveAt_kill hp]; exact h2, h3, oc,
      by simp [modObj_get, hc, hoc], hop⟩
  · intro c p hcp hd
    obtain ⟨hc, _⟩ := howed c p hcp
    have hfr := countsOf_pop_ne (pre := pre) (post := post) (rest := rest) (i := .del id) (j := c) (Ne.symm hc)
    have := h.owedRpn c p hcp
    simp only [N, ht] at this hd ⊢
    have h1 : NT (isDel c) (pre ++ rest :: post) = NT (isDel c) (pre ++ (.del id :: rest) :: post) := congrArg Counts.del hfr
    have h2 : NT (isRpn c) (pre ++ rest :: post) = NT (isRpn c) (pre ++ (.del id :: rest) :: post) := congrArg Counts.rpn hfr
    rw [h2]; rw [h1] at hd; exact this hd
  · intro j o' ho' ha'
    rw [modObj_get] at ho'
    by_cases hj : j = id
    · subst hj
      simp only [if_true, ho, Option.map_some, Option.some.injEq] at ho'
      subst ho'
      simp at ha'
    · simp only [hj, if_false] at ho'
      have := h.loc j o' ho' ha'
      rw [ht] at this
      rw [countsOf_pop_ne (i := .del id) (by simpa [Instr.subj] using Ne.symm hj)]
      exact this

/-! ### `if (pstep_ != nullptr) pstep_->substep_notify_done();` -/

theorem countP_erase_mem {α} [BEq α] [LawfulBEq α] {l : List α} {a : α} (q : α → Bool) (hm : a ∈ l) :
    (l.erase a).countP q + (if q a then 1 else 0) = l.countP q := by
  induction l with
  | nil => simp at hm
  | cons b l ih =>
    by_cases hb : b = a
    · subst hb; simp [List.countP_cons]
    · have hm' : a ∈ l := by
        rcases List.mem_cons.1 hm with h | h
        · exact absurd h.symm hb
        · exact h
      have hba : (b == a) = false := by simpa using hb
      rw [List.erase_cons_tail (by simp [hba])]
      have := ih hm'
      simp only [List.countP_cons]
      omega

/-- root step: no parent to notify -/
theorem inv_rpn_none {s : State} (h : Inv s) {pre post : List (List Instr)} {id : Nat}
    {rest : List Instr} {o : Obj} (ht : s.tasks = pre ++ (.rpn id :: rest) :: post)
    (ho : s.objs[id]? = some o) (hpar : o.parent = none) :
    Inv { objs := s.objs, tasks := pre ++ ([] ++ rest) :: post ++ [], owed := s.owed, err := none } := by
  have hcov : covered (.rpn id :: rest) = true := h.cov _ (by simp [ht])
  have hr := ref_in_rest pre post hcov rfl
  have key := inv_same_obj (id := id) (blk := []) (nt := []) h ht rfl (fun o => o) (fun _ => rfl) (fun _ => rfl)
    (by simp) (by simp) (by simpa using covered_tail hcov) (by simp)
    (by
      intro p hp hd
      obtain ⟨_, _, _, oc, hoc, hop⟩ := h.owedOk id p hp
      rw [ho] at hoc; cases hoc
      rw [hpar] at hop; cases hop)
    (by
      intro o' ho' ha
      have hl := h.loc _ o' ho' ha
      rw [ht] at hl
      loc_simp at hl
      loc_simp at hr
      grind)
  simpa [modObj_self] using key

/-- sub-step: the parent's `substep_notify_done()` comes next; the owed notification becomes a pending one -/
theorem inv_rpn_some {s : State} (h : Inv s) {pre post : List (List Instr)} {id p : Nat}
    {rest : List Instr} {o : Obj} (ht : s.tasks = pre ++ (.rpn id :: rest) :: post)
    (ho : s.objs[id]? = some o) (ha : o.alive = true) (hpar : o.parent = some p) :
    Inv { objs := s.objs, tasks := pre ++ ([Instr.notify p] ++ rest) :: post ++ [],
          owed := s.owed.erase (id, p), err := none } := by
  have hcov : covered (.rpn id :: rest) = true := h.cov _ (by simp [ht])
  have hr := ref_in_rest pre post hcov rfl
  have hl := h.loc _ o ho ha
  rw [ht] at hl
  have hmem : (id, p) ∈ s.owed := by
    loc_simp at hl
    have : ∀ q, o.parent = some q → (id, q) ∈ s.owed := by grind
    exact this p hpar
  obtain ⟨hia, hpa, hlt, _⟩ := h.owedOk id p hmem
  have hne : p ≠ id := by omega
  have hold : ∀ t ∈ pre ++ rest :: post, ∀ x ∈ t, aliveAt s.objs x.subj = true :=
    all_pop (P := fun x => aliveAt s.objs x.subj = true) (by simpa [ht] using h.refsAlive)
  refine ⟨rfl, ?_, ?_, h.owedNodup.erase _, ?_, ?_, ?_⟩
  · exact all_push hold (by intro x hx; simp at hx; rw [hx]; exact hpa) (by simp)
  · intro c q hcq
    exact h.owedOk c q (List.mem_of_mem_erase hcq)
  · exact cov_push (by simpa [ht] using h.cov) (covered_cons_of_ref (covered_tail hcov) (Or.inl rfl)) (by simp)
  · intro c q hcq hd
    have hcq' := (List.Nodup.mem_erase_iff h.owedNodup).1 hcq
    have hcne : c ≠ id := by
      rintro rfl
      obtain ⟨_, _, _, oc, hoc, hop⟩ := h.owedOk c q hcq'.2
      rw [ho] at hoc; cases hoc
      rw [hpar] at hop; cases hop
      exact hcq'.1 rfl
    have := h.owedRpn c q hcq'.2
    simp only [N, ht] at this hd ⊢
    loc_simp at this
    loc_simp at hd
    have hc' : ¬ id = c := fun e => hcne e.symm
    simp only [hc', if_false, Nat.add_zero] at this
    exact this hd
  · intro j o' ho' ha'
    have hlj := h.loc j o' ho' ha'
    rw [ht] at hlj
    have hw := countP_erase_mem (fun q : Nat × Nat => q.2 == j) hmem
    by_cases hj : j = id
    · subst hj
      rw [ho] at ho'; cases ho'
      loc_simp at hlj
      loc_simp at hr
      simp only [beq_iff_eq] at hw
      have hpj : ¬ p = j := hne
      simp only [hpj, if_false, Nat.add_zero] at hw ⊢
      rw [hw]
      grind
    · have hown : owesParent s.owed j o' → owesParent (s.owed.erase (id, p)) j o' := by
        intro hop q hq
        exact (List.Nodup.mem_erase_iff h.owedNodup).2 ⟨by intro e; cases e; exact hj rfl, hop q hq⟩
      have hij : ¬ id = j := fun e => hj e.symm
      by_cases hjp : j = p
      · subst hjp
        loc_simp at hlj
        simp only [beq_iff_eq, if_true] at hw
        simp only [hij, if_false, Nat.add_zero] at hlj ⊢
        generalize owesParent s.owed j o' = A at *
        generalize owesParent (s.owed.erase (id, j)) j o' = B at *
        grind
      · have hpj : ¬ p = j := fun e => hjp e.symm
        loc_simp at hlj
        simp only [beq_iff_eq, hpj, if_false, Nat.add_zero] at hw
        simp only [hij, hpj, if_false, Nat.add_zero] at hlj ⊢
        rw [hw]
        generalize owesParent s.owed j o' = A at *
        generalize owesParent (s.owed.erase (id, p)) j o' = B at *
        grind

/-! ### `ctx_.enqueue(this, …)`: a new sub-step object and its first job -/

theorem aliveAt_append {objs : List Obj} {o : Obj} {j : Nat} (h : aliveAt objs j = true) :
    aliveAt (objs ++ [o]) j = true := by
  have hlt := aliveAt_lt h
  unfold aliveAt at h ⊢
  rw [List.getElem?_append_left hlt]; exact h

theorem get_append_lt {objs : List Obj} {o : Obj} {j : Nat} (hlt : j < objs.length) :
    (objs ++ [o])[j]? = objs[j]? := List.getElem?_append_left hlt

/-- nothing refers to an object that does not exist yet -/
theorem NT_fresh {s : State} (h : Inv s) (q : Instr → Bool) (hq : ∀ i, q i = true → i.subj = s.objs.length) :
    NT q s.tasks = 0 := by
  rcases Nat.eq_zero_or_pos (NT q s.tasks) with h0 | hpos
  · exact h0
  · obtain ⟨t, ht, i, hi, hqi⟩ := (NT_pos_iff _ _).1 hpos
    have := aliveAt_lt (h.refsAlive t ht i hi)
    rw [hq i hqi] at this
    omega

theorem inv_newChild {s : State} (h : Inv s) {pre post : List (List Instr)} {a : Nat} {k : Kind} {parts : Nat}
    {rest : List Instr} (ht : s.tasks = pre ++ (.newChild a k parts :: rest) :: post) :
    Inv { objs := s.objs ++ [childObj a parts],
          tasks := pre ++ ([] ++ rest) :: post ++ [firstProg k s.objs.length],
          owed := s.owed ++ [(s.objs.length, a)], err := none } := by
  have hcov : covered (.newChild a k parts :: rest) = true := h.cov _ (by simp [ht])
  have hia : aliveAt s.objs a = true :=
    h.refsAlive (.newChild a k parts :: rest) (by simp [ht]) (.newChild a k parts) (by simp)
  have hidlt := aliveAt_lt hia
  have hold : ∀ t ∈ pre ++ rest :: post, ∀ x ∈ t, aliveAt s.objs x.subj = true :=
    all_pop (P := fun x => aliveAt s.objs x.subj = true) (by simpa [ht] using h.refsAlive)
  have hnewalive : aliveAt (s.objs ++ [childObj a parts]) s.objs.length = true := by
    unfold aliveAt; simp [childObj]
  have hfp : ∀ x ∈ firstProg k s.objs.length, x.subj = s.objs.length := by
    intro x hx
    cases k <;> simp [firstProg, sampleProg, smallProg] at hx <;> rcases hx with rfl | rfl <;> rfl
  -- fresh: no pending instruction and no owed entry mentions the new id
  have hfresh : ∀ (q : Nat → Instr → Bool), (∀ i, q s.objs.length i = true → isRef s.objs.length i = true) →
      NT (q s.objs.length) pre + (List.countP (q s.objs.length) rest + NT (q s.objs.length) post) = 0 := by
    intro q hq
    have := NT_fresh h (q s.objs.length) (fun i hi => ref_subj _ i (hq i hi))
    rw [ht] at this
    simp only [NT_append, NT_cons, List.countP_cons] at this
    omega
  have howedfresh : ∀ c p, (c, p) ∈ s.owed → c ≠ s.objs.length ∧ p ≠ s.objs.length := by
    intro c p hcp
    obtain ⟨h1, h2, _, _⟩ := h.owedOk c p hcp
    have := aliveAt_lt h1; have := aliveAt_lt h2
    omega
  simp only [List.nil_append]
  refine ⟨rfl, ?_, ?_, ?_, ?_, ?_, ?_⟩
  · refine all_push (blk := []) (rest := rest) ?_ (by simp) ?_
    · intro t htm x hx; exact aliveAt_append (hold t htm x hx)
    · intro t htm x hx
      simp at htm; subst htm
      rw [hfp x hx]; exact hnewalive
  · intro c p hcp
    rcases List.mem_append.1 hcp with hcp | hcp
    · obtain ⟨h1, h2, h3, oc, hoc, hop⟩ := h.owedOk c p hcp
      exact ⟨aliveAt_append h1, aliveAt_append h2, h3, oc, by rw [get_append_lt (aliveAt_lt h1)]; exact hoc, hop⟩
    · simp at hcp; obtain ⟨rfl, rfl⟩ := hcp
      exact ⟨hnewalive, aliveAt_append hia, hidlt, childObj p parts, by simp, rfl⟩
  · rw [List.nodup_append]
    refine ⟨h.owedNodup, by simp, ?_⟩
    intro x hx y hy
    simp at hy; subst hy
    intro e; subst e
    exact (howedfresh _ _ hx).1 rfl
  · refine cov_push (blk := []) (by simpa [ht] using h.cov) (by simpa using covered_tail hcov) ?_
    intro t htm; simp at htm; subst htm
    cases k <;> simp [firstProg, sampleProg, smallProg, covered, keepAlive, Instr.subj]
  · intro c p hcp hd
    simp only [N] at hd ⊢
    rcases List.mem_append.1 hcp with hcp | hcp
    · have hc := (howedfresh c p hcp).1
      have := h.owedRpn c p hcp
      simp only [N, ht] at this
      loc_simp at this
      have e1 := countP_zero_of_subj hfp hc isDel (fun x h => (preds_of_subj_ne h).2.2.2.2.2.1)
      have e2 := countP_zero_of_subj hfp hc isRpn (fun x h => (preds_of_subj_ne h).2.2.2.2.2.2.1)
      simp only [NT_append, NT_cons, NT_nil, e1, e2, Nat.add_zero] at hd ⊢
      exact this hd
    · simp at hcp; obtain ⟨rfl, rfl⟩ := hcp
      have e0 := hfresh isDel (del_ref _)
      have e1 : (firstProg k s.objs.length).countP (isDel s.objs.length) = 0 := by
        cases k <;> simp [firstProg, sampleProg, smallProg, isDel]
      simp only [NT_append, NT_cons, NT_nil, e1, Nat.add_zero] at hd
      omega
  · intro j o' ho' ha'
    rcases Nat.lt_trichotomy j s.objs.length with hjl | hjl | hjl
    · -- an existing object
      rw [get_append_lt hjl] at ho'
      have hlj := h.loc j o' ho' ha'
      rw [ht] at hlj
      have hjne : j ≠ s.objs.length := by omega
      have hown : owesParent s.owed j o' → owesParent (s.owed ++ [(s.objs.length, a)]) j o' := by
        intro hop q hq; exact List.mem_append_left _ (hop q hq)
      have e1 := countP_zero_of_subj hfp hjne isTok (fun i hi => (preds_of_subj_ne hi).1)
      have e2 := countP_zero_of_subj hfp hjne isPend (fun i hi => (preds_of_subj_ne hi).2.1)
      have e3 := countP_zero_of_subj hfp hjne isStart (fun i hi => (preds_of_subj_ne hi).2.2.1)
      have e4 := countP_zero_of_subj hfp hjne isIncrH (fun i hi => (preds_of_subj_ne hi).2.2.2.1)
      have e5 := countP_zero_of_subj hfp hjne isOwn (fun i hi => (preds_of_subj_ne hi).2.2.2.2.1)
      have e6 := countP_zero_of_subj hfp hjne isDel (fun i hi => (preds_of_subj_ne hi).2.2.2.2.2.1)
      have e7 := countP_zero_of_subj hfp hjne isRpn (fun i hi => (preds_of_subj_ne hi).2.2.2.2.2.2.1)
      have e8 := countP_zero_of_subj hfp hjne isRef (fun i hi => (preds_of_subj_ne hi).2.2.2.2.2.2.2.1)
      have e9 := countP_zero_of_subj hfp hjne isPostI (fun i hi => (preds_of_subj_ne hi).2.2.2.2.2.2.2.2)
      loc_simp at hlj
      simp only [e1, e2, e3, e4, e5, e6, e7, e8, e9, Nat.add_zero]
      generalize owesParent s.owed j o' = A at *
      generalize owesParent (s.owed ++ [(s.objs.length, a)]) j o' = B at *
      by_cases hji : a = j
      · subst hji
        simp only [if_true] at hlj ⊢
        grind
      · simp only [hji, if_false, Nat.add_zero] at hlj ⊢
        grind
    · -- the new object
      subst hjl
      simp at ho'; subst ho'
      have f1 := hfresh isTok (tok_ref _)
      have f2 := hfresh isPend (pend_ref _)
      have f3 := hfresh isStart (start_ref _)
      have f4 := hfresh isIncrH (incrH_ref _)
      have f5 := hfresh isOwn (own_ref _)
      have f6 := hfresh isDel (del_ref _)
      have f7 := hfresh isRpn (rpn_ref _)
      have f8 := hfresh isRef (fun _ hi => hi)
      have f9 := hfresh isPostI (postI_ref _)
      have hw : List.countP (fun p => p.2 == s.objs.length) s.owed = 0 := by
        rw [List.countP_eq_zero]; intro x hx
        have := (howedfresh x.1 x.2 hx).2
        simpa using this
      have hin : owesParent (s.owed ++ [(s.objs.length, a)]) s.objs.length (childObj a parts) := by
        intro q hq; simp [childObj] at hq; subst hq; simp
      have hidne : ¬ a = s.objs.length := by omega
      generalize owesParent (s.owed ++ [(s.objs.length, a)]) s.objs.length (childObj a parts) = B at hin ⊢
      cases k <;>
      · simp only [LocalP, countsOf, NT_append, NT_cons, NT_nil, owedTo, List.countP_append, List.countP_cons,
          List.countP_nil, firstProg, sampleProg, smallProg, isTok, isPend, isStart, isIncrH, isOwn, isDel, isRpn,
          isRef, isPostI, Instr.subj, beq_self_eq_true, if_true, Bool.false_eq_true, if_false, beq_iff_eq, hidne,
          Nat.add_zero, Nat.zero_add, childObj] at f1 f2 f3 f4 f5 f6 f7 f8 f9 hw ⊢
        split <;> grind
    · exfalso
      have : (s.objs ++ [childObj a parts])[j]? = none := by
        apply List.getElem?_eq_none; simp; omega
      rw [this] at ho'; cases ho'

end TlxVerif.C04.Proto
