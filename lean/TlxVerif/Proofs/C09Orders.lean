/-
The four concrete "beats-or-ties" relations of the loser tree classes and the
facts that tie them to the code: `StepOK` (the body of the `delete_min_insert`
loop decides according to the relation) and `InitOK` (so does `init_winner`).
-/
import TlxVerif.Proofs.C09Tournament
namespace TlxVerif.C09

variable {α : Type}

/-- strict weak order, as C++ requires of a comparator (Boolean valued) -/
structure SWO (lt : α → α → Bool) : Prop where
  irrefl : ∀ a, lt a a = false
  trans : ∀ a b c, lt a b = true → lt b c = true → lt a c = true
  /-- transitivity of "not less" (equivalently: of incomparability) -/
  ntrans : ∀ a b c, lt a b = false → lt b c = false → lt a c = false

theorem SWO.asymm {lt : α → α → Bool} (h : SWO lt) (a b : α) : lt a b = true → lt b a = false := by
  intro hab
  cases hba : lt b a with
  | false => rfl
  | true => have := h.trans a b a hab hba; rw [h.irrefl] at this; cases this

/-- guarded, unstable: supremum entries last, otherwise by key -/
def leGU (lt : α → α → Bool) (a b : Entry α) : Prop :=
  b.sup = true ∨ (a.sup = false ∧ lt b.key a.key = false)

/-- guarded, stable: (sup, key, source) lexicographically -/
def leGS (lt : α → α → Bool) (a b : Entry α) : Prop :=
  if a.sup = true then b.sup = true ∧ a.source ≤ b.source
  else b.sup = true ∨ lt a.key b.key = true ∨ (lt b.key a.key = false ∧ a.source ≤ b.source)

/-- unguarded, unstable: by key -/
def leUU (lt : α → α → Bool) (a b : Entry α) : Prop := lt b.key a.key = false

/-- unguarded, stable: (key, source) lexicographically -/
def leUS (lt : α → α → Bool) (a b : Entry α) : Prop :=
  lt a.key b.key = true ∨ (lt b.key a.key = false ∧ a.source ≤ b.source)

/-- the relation of a class -/
def leOf (v : Variant) (lt : α → α → Bool) : Entry α → Entry α → Prop :=
  match v.guarded, v.stable with
  | true, false => leGU lt
  | true, true => leGS lt
  | false, false => leUU lt
  | false, true => leUS lt

variable {lt : α → α → Bool}

theorem leOf_refl (hlt : SWO lt) (v : Variant) (x : Entry α) : leOf v lt x x := by
  have := hlt.irrefl x.key
  obtain ⟨cp, g, s⟩ := v
  cases g <;> cases s <;> simp only [leOf] <;> simp [leGU, leGS, leUU, leUS, this]

theorem leOf_trans (hlt : SWO lt) (v : Variant) (x y z : Entry α) :
    leOf v lt x y → leOf v lt y z → leOf v lt x z := by
  have t := hlt.trans x.key y.key z.key
  have n1 := hlt.ntrans z.key y.key x.key
  have n2 := hlt.ntrans x.key z.key y.key
  have n3 := hlt.ntrans y.key x.key z.key
  obtain ⟨cp, g, s⟩ := v
  cases g <;> cases s <;> simp only [leOf]
  · simp only [leUU]; grind
  · simp only [leUS]; grind
  · simp only [leGU]
    rcases z.sup <;> rcases y.sup <;> rcases x.sup <;> simp <;> grind
  · simp only [leGS]
    rcases z.sup <;> rcases y.sup <;> rcases x.sup <;> simp <;> grind

theorem stepOK (hlt : SWO lt) (v : Variant) : StepOK (leOf v lt) v lt := by
  intro L c
  have a1 := hlt.asymm L.key c.key
  have a2 := hlt.asymm c.key L.key
  obtain ⟨cp, g, s⟩ := v
  obtain ⟨Ls, Lsrc, Lk⟩ := L
  obtain ⟨cs, csrc, ck⟩ := c
  simp only at a1 a2
  cases g <;> cases s <;> simp only [step, leOf]
  · -- unguarded unstable
    cases h : lt Lk ck <;> simp [leUU, h] <;> grind
  · -- unguarded stable
    cases h : lt Lk ck <;> cases h' : lt ck Lk <;> simp [leUS, h, h'] <;> grind
  · -- guarded unstable
    cases cs <;> cases Ls <;> simp [leGU]
    cases h : lt Lk ck <;> simp <;> grind
  · -- guarded stable
    cases cs <;> cases Ls <;> simp [leGS]
    · cases h : lt Lk ck <;> cases h' : lt ck Lk <;> simp <;> grind
    · by_cases hs : Lsrc < csrc <;> simp [hs] <;> omega

theorem initOK (hlt : SWO lt) (v : Variant) : InitOK (leOf v lt) v.guarded lt := by
  intro L R hsrc
  have a1 := hlt.asymm L.key R.key
  have a2 := hlt.asymm R.key L.key
  obtain ⟨cp, g, s⟩ := v
  obtain ⟨Ls, Lsrc, Lk⟩ := L
  obtain ⟨Rs, Rsrc, Rk⟩ := R
  simp only at a1 a2 hsrc
  cases g <;> cases s <;> simp only [leftWins, leOf]
  · cases h : lt Rk Lk <;> simp [leUU, h]; grind
  · cases h : lt Rk Lk <;> cases h' : lt Lk Rk <;> simp [leUS, h, h'] <;> grind
  · cases Rs <;> cases Ls <;> simp [leGU]
    cases h : lt Rk Lk <;> simp; grind
  · cases Rs <;> cases Ls <;> simp [leGS, hsrc]
    cases h : lt Rk Lk <;> cases h' : lt Lk Rk <;> simp <;> grind

end TlxVerif.C09
