/-
C04 — one `MKQSStep` of `PS5SmallsortJob` (three-way split by the 8-byte key of the pivot)
with the handling of its parts in `sort_mkqs_cache` is correct, given correct recursive calls.
-/
import TlxVerif.Proofs.C04Glue
namespace TlxVerif.C04
variable {af : Bool}

/-- side conditions on the parameters and choosers: thresholds are positive, the big/small
decision never sends an empty range into a parallel step, the sampler draws `count` indices
below `n` (`rng() % n`), the tree depth is one the classifier classes support
(`switch (treebits)` of `pre_to_levelorder` has cases 1..15; bucket ids must fit `std::uint16_t`) -/
structure EnvOk (env : Env) : Prop where
  ins : 1 ≤ env.p.inssort
  small : 1 ≤ env.p.smallsort
  big : ∀ n, env.isBig n = true → 1 ≤ n
  tb1 : 1 ≤ env.p.treebits
  tb15 : env.p.treebits ≤ 15
  samplerLen : ∀ n cnt, (env.sampler n cnt).length = cnt
  samplerLt : ∀ n cnt, 0 < n → ∀ i ∈ env.sampler n cnt, i < n

/-- what a step may assume about the range it is called on -/
def ModePre : Mode → List Str → Prop
  | .mkqs, strs => strs ≠ []
  | .big, strs => strs ≠ []
  | .seqss, strs => strs ≠ []
  | _, _ => True

/-! ### the measure of the recursion

`msize strs d`: the characters (and terminators) of the range that lie behind the common
prefix of length `d`.  A sub-range of a step either misses a string of the range (the one a
splitter / the pivot was taken from) or lies 8 characters deeper.  `mu` adds the position of the
mode in the chain of calls that keep the range (`enqueue` → step, `sort_mkqs_cache` → `MKQSStep`). -/

def Mode.rank : Mode → Nat
  | .enq => 3
  | .big => 2
  | .seqss => 2
  | .mkqsTop => 2
  | .mkqs => 1
  | .inscache => 1

def mu (mode : Mode) (strs : List Str) (d : Nat) : Nat := 3 * msize strs d + mode.rank

theorem msize_nil (d : Nat) : msize [] d = 0 := rfl

theorem msize_cons (s : Str) (l : List Str) (d : Nat) : msize (s :: l) d = (s.length + 1 - d) + msize l d := by
  simp [msize]

theorem msize_sublist {l' l : List Str} (h : l'.Sublist l) (d : Nat) : msize l' d ≤ msize l d := by
  induction h with
  | slnil => exact Nat.le_refl _
  | cons a _ ih => rw [msize_cons]; omega
  | cons_cons a _ ih => rw [msize_cons, msize_cons]; omega

/-- a sub-range that misses a string of the range -/
theorem msize_sublist_lt {l' l : List Str} (h : l'.Sublist l) {u : Str} (hu : u ∈ l) (hn : u ∉ l') (d : Nat) :
    msize l' d + (u.length + 1 - d) ≤ msize l d := by
  induction h with
  | slnil => simp at hu
  | @cons l1 l2 a hs ih =>
    rw [msize_cons]
    rcases List.mem_cons.1 hu with rfl | hu'
    · have := msize_sublist hs d; omega
    · have := ih hu' hn; omega
  | @cons_cons l1 l2 a hs ih =>
    rw [msize_cons, msize_cons]
    have hne : u ≠ a := fun e => hn (by rw [e]; simp)
    have hu' : u ∈ l2 := by
      rcases List.mem_cons.1 hu with h | h
      · exact absurd h hne
      · exact h
    have := ih hu' (fun h' => hn (List.mem_cons_of_mem _ h'))
    omega

theorem msize_mono (l : List Str) {d d' : Nat} (h : d ≤ d') : msize l d' ≤ msize l d := by
  induction l with
  | nil => exact Nat.le_refl _
  | cons s l ih => rw [msize_cons, msize_cons]; omega

/-- a non-empty sub-range `k` characters deeper -/
theorem msize_deeper {l : List Str} {d k : Nat} (h : ∀ s ∈ l, d + k ≤ s.length) (hne : l ≠ []) :
    msize l (d + k) + k ≤ msize l d := by
  obtain ⟨s, rest, rfl⟩ := List.exists_cons_of_ne_nil hne
  rw [msize_cons, msize_cons]
  have := h s (by simp)
  have := msize_mono rest (d := d) (d' := d + k) (by omega)
  omega

theorem RangeOk.len {p : Str} {l : List Str} (h : RangeOk p l) : ∀ s ∈ l, p.length ≤ s.length := by
  intro s hs
  obtain ⟨_, a, rfl⟩ := h s hs
  simp

/-- a part selected by a condition on the attached values is a sub-list -/
theorem part_sublist {β} (strs : List Str) (vals : List β) (hl : strs.length ≤ vals.length) (q : Str × β → Bool) :
    (((strs.zip vals).filter q).map (·.1)).Sublist strs := by
  have := (List.filter_sublist (l := strs.zip vals) (p := q)).map (·.1)
  rwa [List.map_fst_zip hl] at this

/-- the sub-range misses a string of the range (and is not shallower) -/
theorem msize_miss {p : Str} {strs bk : List Str} (hr : RangeOk p strs) (hsub : bk.Sublist strs) {u : Str}
    (hu : u ∈ strs) (hn : u ∉ bk) {d : Nat} (hd : p.length ≤ d) : msize bk d + 1 ≤ msize strs p.length := by
  have h1 := msize_sublist_lt hsub hu hn p.length
  have h2 := msize_mono bk hd
  have := hr.len u hu
  omega

/-- the recursive calls are correct; with `af = false` (no fuel error allowed) only the calls
below the measure `m` are -/
def RecOk (af : Bool) (m : Nat) (rec : Rec) : Prop :=
  ∀ (mode : Mode) (strs : List Str) (p : Str), RangeOk p strs → ModePre mode strs →
    (af = false → mu mode strs p.length < m) →
    Safe af (rec mode strs p.length) (SortedLcp strs)

theorem RecOk.mono {rec : Rec} {m m' : Nat} (h : RecOk af m rec) (hle : af = false → m' ≤ m) : RecOk af m' rec :=
  fun mode strs p hr hpre hlt => h mode strs p hr hpre (fun e => Nat.lt_of_lt_of_le (hlt e) (hle e))

theorem mu_pos (mode : Mode) (strs : List Str) (d : Nat) : 1 ≤ mu mode strs d := by
  unfold mu; cases mode <;> simp [Mode.rank] <;> omega

/-! ### list facts -/

theorem filter3_perm {α} (l : List α) (p1 p2 p3 : α → Bool)
    (h : ∀ x ∈ l, (p1 x && !p2 x && !p3 x) || (!p1 x && p2 x && !p3 x) || (!p1 x && !p2 x && p3 x) = true) :
    (l.filter p1 ++ l.filter p2 ++ l.filter p3).Perm l := by
  induction l with
  | nil => simp
  | cons x xs ih =>
    have hx := h x (by simp)
    have ih' := ih (fun y hy => h y (List.mem_cons_of_mem _ hy))
    simp only [List.filter_cons]
    have ih'' : (xs.filter p1 ++ (xs.filter p2 ++ xs.filter p3)).Perm xs := by simpa using ih'
    cases h1 : p1 x <;> cases h2 : p2 x <;> cases h3 : p3 x <;> simp [h1, h2, h3] at hx ⊢
    · -- only p3
      have e : xs.filter p1 ++ (xs.filter p2 ++ x :: xs.filter p3) = (xs.filter p1 ++ xs.filter p2) ++ x :: xs.filter p3 := by simp
      rw [e]
      exact List.perm_middle.trans (List.Perm.cons x (by simpa using ih''))
    · -- only p2
      exact List.perm_middle.trans (List.Perm.cons x ih'')
    · exact ih''

theorem set_mid {α} (A B C : List α) (v : α) (hB : B ≠ []) :
    (A ++ B ++ C).set A.length v = A ++ B.set 0 v ++ C := by
  rw [List.append_assoc, List.set_append_right _ _ (Nat.le_refl _), Nat.sub_self,
    List.set_append_left _ _ (List.length_pos_iff.2 hB), List.append_assoc]

theorem set_head_self (l : List Nat) : l.set 0 ((l.head?).getD 0) = l := by cases l <;> simp

/-- the maximum of a non-empty list by `foldl` -/
theorem foldl_max_spec (l : List Key) (init : Key) :
    (∀ k ∈ l, k ≤ l.foldl (fun a b => if a < b then b else a) init) ∧ init ≤ l.foldl (fun a b => if a < b then b else a) init ∧
    (l.foldl (fun a b => if a < b then b else a) init = init ∨ l.foldl (fun a b => if a < b then b else a) init ∈ l) := by
  induction l generalizing init with
  | nil => simp [BitVec.le_def]
  | cons x xs ih =>
    simp only [List.foldl_cons]
    obtain ⟨h1, h2, h3⟩ := ih (if init < x then x else init)
    refine ⟨?_, ?_, ?_⟩
    · intro k hk
      rcases List.mem_cons.1 hk with rfl | hk
      · refine BitVec.le_trans ?_ h2
        split
        · exact BitVec.le_refl _
        · rename_i hn; rw [BitVec.lt_def] at hn; rw [BitVec.le_def]; omega
      · exact h1 k hk
    · refine BitVec.le_trans ?_ h2
      split
      · rename_i hn; rw [BitVec.lt_def] at hn; rw [BitVec.le_def]; omega
      · exact BitVec.le_refl _
    · rcases h3 with h3 | h3
      · rw [h3]
        split
        · right; simp
        · left; rfl
      · right; exact List.mem_cons_of_mem _ h3

theorem foldl_min_spec (l : List Key) (init : Key) :
    (∀ k ∈ l, l.foldl (fun a b => if b < a then b else a) init ≤ k) ∧ l.foldl (fun a b => if b < a then b else a) init ≤ init ∧
    (l.foldl (fun a b => if b < a then b else a) init = init ∨ l.foldl (fun a b => if b < a then b else a) init ∈ l) := by
  induction l generalizing init with
  | nil => simp [BitVec.le_def]
  | cons x xs ih =>
    simp only [List.foldl_cons]
    obtain ⟨h1, h2, h3⟩ := ih (if x < init then x else init)
    refine ⟨?_, ?_, ?_⟩
    · intro k hk
      rcases List.mem_cons.1 hk with rfl | hk
      · refine BitVec.le_trans h2 ?_
        split
        · exact BitVec.le_refl _
        · rename_i hn; rw [BitVec.lt_def] at hn; rw [BitVec.le_def]; omega
      · exact h1 k hk
    · refine BitVec.le_trans h2 ?_
      split
      · rename_i hn; rw [BitVec.lt_def] at hn; rw [BitVec.le_def]; omega
      · exact BitVec.le_refl _
    · rcases h3 with h3 | h3
      · rw [h3]
        split
        · right; simp
        · left; rfl
      · right; exact List.mem_cons_of_mem _ h3

theorem All2.zip_mem {α β} {P : α → β → Prop} {l : List α} {bs : List β} (h : All2 P l bs) :
    ∀ q ∈ l.zip bs, P q.1 q.2 := by
  induction h with
  | nil => intro q hq; simp at hq
  | cons hp _ ih =>
    intro q hq
    simp only [List.zip_cons_cons, List.mem_cons] at hq
    rcases hq with rfl | hq
    · exact hp
    · exact ih q hq

/-- members of a part of the three-way split: strings of the range whose key satisfies the condition -/
theorem mem_part {p : Str} {strs : List Str} {keys : List Key} (hk : All2 (fun s k => getKey? s p.length = some k) strs keys)
    (q : Key → Bool) {s : Str} (hs : s ∈ ((strs.zip keys).filter fun x => q x.2).map (·.1)) :
    s ∈ strs ∧ ∃ k, getKey? s p.length = some k ∧ q k = true := by
  simp only [List.mem_map, List.mem_filter] at hs
  obtain ⟨⟨s', k⟩, ⟨hm, hq⟩, rfl⟩ := hs
  exact ⟨(List.of_mem_zip hm).1, k, hk.zip_mem _ hm, hq⟩

/-- the range `p ++ (8 more bytes)` of the strings whose key is `k` with a non-zero last byte -/
theorem deeper_range {p : Str} {strs : List Str} {k : Key} (hr : RangeOk p strs)
    (hkey : ∀ s ∈ strs, getKey? s p.length = some k) (hlow : lowByte k ≠ 0) (hne : strs ≠ []) :
    ∃ p', p'.length = p.length + 8 ∧ RangeOk p' strs := by
  obtain ⟨s0, rest, rfl⟩ := List.exists_cons_of_ne_nil hne
  obtain ⟨n0, a0, e0⟩ := hr s0 (by simp)
  refine ⟨p ++ a0.take 8, ?_, ?_⟩
  · have := key_eq_deeper (p := p) (a := a0) (b := a0) (by rw [← e0]; exact n0) (by rw [← e0]; exact n0)
      (by rw [← e0]; exact hkey s0 (by simp)) (by rw [← e0]; exact hkey s0 (by simp)) hlow
    simp [List.length_take]; omega
  · intro s hs
    obtain ⟨ns, a, e⟩ := hr s hs
    refine ⟨ns, a.drop 8, ?_⟩
    have := key_eq_deeper (p := p) (a := a0) (b := a) (by rw [← e0]; exact n0) (by rw [← e]; exact ns)
      (by rw [← e0]; exact hkey s0 (by simp)) (by rw [← e]; exact hkey s hs) hlow
    rw [e, this.1, List.append_assoc, List.take_append_drop]

/-- **One MKQS step is correct** (given correct recursive calls): three-way split by the key of the
pivot, recursion / cached insertion sort / finished equal part, LCPs at the two borders from
`max_lt`, the pivot and `min_gt`. -/
theorem mkqsBody_safe {env : Env} (henv : EnvOk env) {rec : Rec} {p : Str} {strs : List Str}
    (hrec : RecOk af (mu .mkqs strs p.length) rec) (hr : RangeOk p strs) (hne : strs ≠ []) : Safe af (mkqsBody env rec strs p.length) (SortedLcp strs) := by
  unfold mkqsBody
  have hn : ¬ strs.length = 0 := fun e => hne (List.length_eq_zero_iff.1 e)
  simp only [hn, if_false]
  refine Safe.bind (keysOf_safe hr) (fun keys hk => ?_)
  have hlen : strs.length = keys.length := hk.length_eq
  have hnpos : 0 < strs.length := Nat.pos_of_ne_zero hn
  -- the pivot
  have hpl : env.pivot keys % strs.length < keys.length := by rw [← hlen]; exact Nat.mod_lt _ hnpos
  refine Safe.bind (P := fun pv => pv ∈ keys) (Safe.liftO ⟨keys[env.pivot keys % strs.length], List.getElem?_eq_getElem hpl,
    List.getElem_mem hpl⟩) (fun pivot hpm => ?_)
  -- the three parts
  have hmem := fun (q : Key → Bool) (s : Str) hs => mem_part (strs := strs) hk q (s := s) hs
  have hperm : (((strs.zip keys).filter fun x => x.2 < pivot).map (·.1) ++ ((strs.zip keys).filter fun x => x.2 = pivot).map (·.1) ++
      ((strs.zip keys).filter fun x => pivot < x.2).map (·.1)).Perm strs := by
    have h3 := filter3_perm (strs.zip keys) (fun x => decide (x.2 < pivot)) (fun x => decide (x.2 = pivot))
      (fun x => decide (pivot < x.2)) (by
        intro x _
        rcases Nat.lt_trichotomy x.2.toNat pivot.toNat with h | h | h
        · have h1 : x.2 < pivot := BitVec.lt_def.2 h
          have h2 : ¬ x.2 = pivot := by intro e; rw [e] at h; omega
          have h3 : ¬ pivot < x.2 := by rw [BitVec.lt_def]; omega
          simp [h1, h2, h3]
        · have h2 : x.2 = pivot := BitVec.eq_of_toNat_eq h
          have h1 : ¬ x.2 < pivot := by rw [BitVec.lt_def]; omega
          have h3 : ¬ pivot < x.2 := by rw [BitVec.lt_def]; omega
          simp [h1, h2, h3]
        · have h3 : pivot < x.2 := BitVec.lt_def.2 h
          have h2 : ¬ x.2 = pivot := by intro e; rw [e] at h; omega
          have h1 : ¬ x.2 < pivot := by rw [BitVec.lt_def]; omega
          simp [h1, h2, h3])
    have := h3.map (·.1)
    simp only [List.map_append] at this
    refine this.trans ?_
    rw [List.map_fst_zip (by omega)]
  generalize hlt : ((strs.zip keys).filter fun x => x.2 < pivot).map (·.1) = lt at hperm ⊢
  generalize heq : ((strs.zip keys).filter fun x => x.2 = pivot).map (·.1) = eq at hperm ⊢
  generalize hgt : ((strs.zip keys).filter fun x => pivot < x.2).map (·.1) = gt at hperm ⊢
  have mlt : ∀ s ∈ lt, s ∈ strs ∧ ∃ k, getKey? s p.length = some k ∧ k < pivot := by
    intro s hs; rw [← hlt] at hs
    obtain ⟨h1, k, h2, h3⟩ := hmem (fun k => decide (k < pivot)) s hs
    exact ⟨h1, k, h2, by simpa using h3⟩
  have meq : ∀ s ∈ eq, s ∈ strs ∧ getKey? s p.length = some pivot := by
    intro s hs; rw [← heq] at hs
    obtain ⟨h1, k, h2, h3⟩ := hmem (fun k => decide (k = pivot)) s hs
    have : k = pivot := by simpa using h3
    subst this; exact ⟨h1, h2⟩
  have mgt : ∀ s ∈ gt, s ∈ strs ∧ ∃ k, getKey? s p.length = some k ∧ pivot < k := by
    intro s hs; rw [← hgt] at hs
    obtain ⟨h1, k, h2, h3⟩ := hmem (fun k => decide (pivot < k)) s hs
    exact ⟨h1, k, h2, by simpa using h3⟩
  have hrlt : RangeOk p lt := hr.sub (fun s hs => (mlt s hs).1)
  have hreq : RangeOk p eq := hr.sub (fun s hs => (meq s hs).1)
  have hrgt : RangeOk p gt := hr.sub (fun s hs => (mgt s hs).1)
  -- the pivot's string is in the equal part
  have hpiv : ∃ u, u ∈ eq := by
    obtain ⟨j, hj, hjk⟩ := List.getElem_of_mem hpm
    have hjs : j < strs.length := by omega
    have hz : (strs[j], keys[j]) ∈ strs.zip keys := by
      have : (strs.zip keys)[j]? = some (strs[j], keys[j]) := by
        rw [List.getElem?_zip_eq_some]; exact ⟨List.getElem?_eq_getElem hjs, List.getElem?_eq_getElem hj⟩
      exact List.mem_of_getElem? this
    refine ⟨strs[j], ?_⟩
    rw [← heq, List.mem_map]
    exact ⟨(strs[j], keys[j]), List.mem_filter.2 ⟨hz, by simpa using hjk⟩, rfl⟩
  obtain ⟨u, hueq⟩ := hpiv
  have heqne : eq ≠ [] := by intro e; rw [e] at hueq; simp at hueq
  have hult : u ∉ lt := by
    intro h
    obtain ⟨_, k, hk1, hk2⟩ := mlt u h
    rw [(meq u hueq).2] at hk1; cases hk1
    rw [BitVec.lt_def] at hk2; omega
  have hugt : u ∉ gt := by
    intro h
    obtain ⟨_, k, hk1, hk2⟩ := mgt u h
    rw [(meq u hueq).2] at hk1; cases hk1
    rw [BitVec.lt_def] at hk2; omega
  have hslt : lt.Sublist strs := by rw [← hlt]; exact part_sublist strs keys (by omega) _
  have hseq : eq.Sublist strs := by rw [← heq]; exact part_sublist strs keys (by omega) _
  have hsgt : gt.Sublist strs := by rw [← hgt]; exact part_sublist strs keys (by omega) _
  -- sub-sorts of the `<` and `>` parts
  have hsub : ∀ part, RangeOk p part → part.Sublist strs → u ∉ part →
      Safe af (mkqsSub env rec part p.length) (SortedLcp part) := by
    intro part hpr hps hup
    have hm := msize_miss hr hps (meq u hueq).1 hup (Nat.le_refl p.length)
    unfold mkqsSub
    by_cases h0 : part.length = 0
    · have : part = [] := List.length_eq_zero_iff.1 h0
      subst this
      simp only [List.length_nil, if_true]
      exact empty_good
    · simp only [h0, if_false]
      split
      · exact hrec .inscache part p hpr trivial (fun _ => by simp only [mu, Mode.rank]; omega)
      · exact hrec .mkqs part p hpr (fun e => h0 (by rw [e]; rfl)) (fun _ => by simp only [mu, Mode.rank]; omega)
  refine Safe.bind (hsub lt hrlt hslt hult) (fun rlt hgl => ?_)
  -- the equal part
  have hreqS : Safe af (mkqsEq env rec eq p.length pivot) (SortedLcp eq) := by
    unfold mkqsEq
    by_cases hlow : lowByte pivot = 0
    · simp only [hlow, if_true, u8_lcpKeyDepth]
      apply Safe.pure
      obtain ⟨s0, rest, hs0⟩ := List.exists_cons_of_ne_nil heqne
      have hall : ∀ a ∈ eq, ∀ b ∈ eq, a = b ∧ a.length = p.length + lcpKeyDepth pivot := by
        intro a ha b hb
        obtain ⟨na, a', rfl⟩ := hreq a ha
        obtain ⟨nb, b', rfl⟩ := hreq b hb
        have h1 := key_eq_done na nb (meq _ ha).2 (meq _ hb).2 hlow
        have e1 := getKey_toNat (meq _ ha).2
        simp only [List.drop_left] at e1
        have := lcpKeyDepth_eq e1 (nulFree_append_right na) h1.2
        exact ⟨h1.1, by simp [this]⟩
      exact doneRes_good (fun a ha b hb => (hall a ha b hb).1) (fun a ha => (hall a ha a ha).2)
    · simp only [hlow, if_false]
      obtain ⟨p', hp'l, hp'r⟩ := deeper_range hreq (fun s hs => (meq s hs).2) hlow heqne
      rw [← hp'l]
      split
      · exact Safe.pure (insSort_good hp'r)
      · refine hrec .mkqs eq p' hp'r heqne (fun _ => ?_)
        have h1 := msize_deeper (l := eq) (d := p.length) (k := 8) (fun s hs => by rw [← hp'l]; exact hp'r.len s hs) heqne
        have h2 := msize_sublist hseq p.length
        simp only [mu, Mode.rank, hp'l]; omega
  refine Safe.bind hreqS (fun req hge => ?_)
  refine Safe.bind (hsub gt hrgt hsgt hugt) (fun rgt hgg => ?_)
  apply Safe.pure
  -- assembling
  have hl1 : rlt.lcp.length = lt.length := by rw [hgl.2.2.1, hgl.1.length_eq]
  have hl2 : req.lcp.length = eq.length := by rw [hge.2.2.1, hge.1.length_eq]
  have hreqlne : req.lcp ≠ [] := by
    intro e; rw [e] at hl2
    exact heqne (List.length_eq_zero_iff.1 hl2.symm)
  -- keys of the border strings
  have hcross1 : ∀ a ∈ lt, ∀ b ∈ eq, strLe a b = true := by
    intro a ha b hb
    obtain ⟨_, k, hk1, hk2⟩ := mlt a ha
    exact keyLt_strLe (hrlt a ha) (hreq b hb) ⟨k, pivot, hk1, (meq b hb).2, hk2⟩
  have hcross2 : ∀ a ∈ lt ++ eq, ∀ b ∈ gt, strLe a b = true := by
    intro a ha b hb
    obtain ⟨_, k, hk1, hk2⟩ := mgt b hb
    rcases List.mem_append.1 ha with ha | ha
    · obtain ⟨_, k', hk1', hk2'⟩ := mlt a ha
      refine keyLt_strLe (hrlt a ha) (hrgt b hb) ⟨k', k, hk1', hk1, ?_⟩
      rw [BitVec.lt_def] at *; omega
    · exact keyLt_strLe (hreq a ha) (hrgt b hb) ⟨pivot, k, (meq a ha).2, hk1, hk2⟩
  -- first seam: max_lt is the key of the last string of the sorted `<` part
  have hv1 : lt ≠ [] → lcpT (p.length + lcpKeyType ((keys.filter (· < pivot)).foldl (fun a b => if a < b then b else a) 0) pivot) =
      lcpT (lcp ((rlt.out.getLast?).getD []) ((req.out.head?).getD [])) := by
    intro hltne
    have hrne : rlt.out ≠ [] := by
      intro e; have := hgl.1.length_eq; rw [e] at this
      exact hltne (List.length_eq_zero_iff.1 this.symm)
    obtain ⟨z, hz⟩ : ∃ z, rlt.out.getLast? = some z := ⟨rlt.out.getLast hrne, List.getLast?_eq_some_getLast hrne⟩
    have hzlt : z ∈ lt := hgl.1.mem_iff.1 (List.mem_of_getLast? hz)
    obtain ⟨_, kz, hkz, hkzlt⟩ := mlt z hzlt
    have hqne : req.out ≠ [] := by
      intro e; have := hge.1.length_eq; rw [e] at this
      exact heqne (List.length_eq_zero_iff.1 this.symm)
    obtain ⟨y, hy⟩ : ∃ y, req.out.head? = some y := ⟨req.out.head hqne, List.head?_eq_some_head hqne⟩
    have hyeq : y ∈ eq := hge.1.mem_iff.1 (List.mem_of_head? hy)
    -- the keys of the `<` part
    have hkeys : ∀ k, k ∈ keys.filter (· < pivot) ↔ ∃ s ∈ lt, getKey? s p.length = some k := by
      intro k
      constructor
      · intro hk'
        obtain ⟨hkm, hklt⟩ := List.mem_filter.1 hk'
        obtain ⟨j, hj, hjk⟩ := List.getElem_of_mem hkm
        have hjs : j < strs.length := by omega
        have hz' : (strs[j], keys[j]) ∈ strs.zip keys := by
          have : (strs.zip keys)[j]? = some (strs[j], keys[j]) := by
            rw [List.getElem?_zip_eq_some]; exact ⟨List.getElem?_eq_getElem hjs, List.getElem?_eq_getElem hj⟩
          exact List.mem_of_getElem? this
        refine ⟨strs[j], ?_, ?_⟩
        · rw [← hlt, List.mem_map]
          exact ⟨(strs[j], keys[j]), List.mem_filter.2 ⟨hz', by rw [hjk]; exact hklt⟩, rfl⟩
        · rw [← hjk]; exact hk.zip_mem _ hz'
      · rintro ⟨s, hs, hsk⟩
        rw [← hlt] at hs
        simp only [List.mem_map, List.mem_filter] at hs
        obtain ⟨⟨s', k'⟩, ⟨hm, hq⟩, rfl⟩ := hs
        have := hk.zip_mem _ hm
        simp only at this hsk
        rw [this] at hsk; cases hsk
        exact List.mem_filter.2 ⟨(List.of_mem_zip hm).2, hq⟩
    obtain ⟨hmax1, _, hmax3⟩ := foldl_max_spec (keys.filter (· < pivot)) 0
    have hkzin : kz ∈ keys.filter (· < pivot) := (hkeys kz).2 ⟨z, hzlt, hkz⟩
    have hmaxeq : (keys.filter (· < pivot)).foldl (fun a b => if a < b then b else a) 0 = kz := by
      have h1 := hmax1 kz hkzin
      -- the maximum is the key of some string of the part, which sorts before (or is) `z`
      have hmem : (keys.filter (· < pivot)).foldl (fun a b => if a < b then b else a) 0 ∈ keys.filter (· < pivot) := by
        rcases hmax3 with h0 | hm
        · rw [h0] at h1
          have : kz = 0 := by
            apply BitVec.eq_of_toNat_eq; rw [BitVec.le_def] at h1; simp at h1 ⊢; omega
          rw [h0, ← this]; exact hkzin
        · exact hm
      obtain ⟨s, hs, hsk⟩ := (hkeys _).1 hmem
      have hsout : s ∈ rlt.out := hgl.1.mem_iff.2 hs
      have hle : strLe s z = true := by
        obtain ⟨i, hi, rfl⟩ := List.getElem_of_mem hsout
        have hzl : z = rlt.out[rlt.out.length - 1]'(by have := List.length_pos_iff.2 hrne; omega) := by
          rw [List.getLast?_eq_getElem?] at hz
          have := List.getElem?_eq_getElem (l := rlt.out) (i := rlt.out.length - 1) (by have := List.length_pos_iff.2 hrne; omega)
          rw [this] at hz; exact (Option.some.inj hz).symm
        rcases Nat.lt_or_ge i (rlt.out.length - 1) with hlt' | hge'
        · rw [hzl]
          exact List.pairwise_iff_getElem.1 hgl.2.1 i (rlt.out.length - 1) hi (by omega) hlt'
        · have : i = rlt.out.length - 1 := by omega
          subst this; rw [hzl]; exact strLe_refl _
      have h2 := key_mono (hrlt s hs) (hrlt z hzlt) hsk hkz hle
      apply BitVec.eq_of_toNat_eq
      rw [BitVec.le_def] at h1 h2; omega
    rw [hmaxeq, hz, hy]
    exact congrArg lcpT (keyLt_lcp (hrlt z hzlt) (hreq y hyeq) hkz (meq y hyeq).2 hkzlt).symm
  generalize hmaxdef : (keys.filter (· < pivot)).foldl (fun a b => if a < b then b else a) 0 = maxLt at hv1 ⊢
  have g1 := glue_good hgl hge heqne hcross1 _ hv1
  -- second seam
  by_cases hgtne : gt = []
  · -- no `>` part
    subst hgtne
    have hro : rgt.out = [] := List.length_eq_zero_iff.1 (by simpa using hgg.1.length_eq)
    have hrl : rgt.lcp = [] := List.length_eq_zero_iff.1 (by rw [hgg.2.2.1, hro]; rfl)
    have hfin : SortedLcp strs _ := ⟨g1.1.trans (by simpa using hperm), g1.2.1, g1.2.2⟩
    have eo : ((rlt.append req).append rgt).out = rlt.out ++ req.out := by simp [Res.append, hro]
    have el : mkqsLcp p.length pivot maxLt
        ((keys.filter (pivot < ·)).foldl (fun a b => if b < a then b else a) (BitVec.allOnes 64))
        lt.length eq.length ([] : List Str).length ((rlt.append req).append rgt).lcp =
        rlt.lcp ++ req.lcp.set 0 (if lt = [] then (req.lcp.head?).getD 0 else lcpT (p.length + lcpKeyType maxLt pivot)) := by
      simp only [Res.append, hrl, List.append_nil, mkqsLcp, List.length_nil, Nat.lt_irrefl, if_false, gt_iff_lt, u8_lcpKeyType]
      by_cases hlte : lt = []
      · subst hlte
        simp only [List.length_nil, Nat.lt_irrefl, if_false, if_true, set_head_self]
      · have : 0 < lt.length := List.length_pos_iff.2 hlte
        simp only [this, if_true, hlte, if_false, setLcp]
        rw [← hl1, List.set_append_right _ _ (Nat.le_refl _), Nat.sub_self]
    rw [eo, el]; exact hfin
  · have hrgne : rgt.lcp ≠ [] := by
      intro e
      have : rgt.lcp.length = gt.length := by rw [hgg.2.2.1, hgg.1.length_eq]
      rw [e] at this; exact hgtne (List.length_eq_zero_iff.1 this.symm)
    have hv2 : lt ++ eq ≠ [] → lcpT (p.length + lcpKeyType pivot ((keys.filter (pivot < ·)).foldl (fun a b => if b < a then b else a) (BitVec.allOnes 64))) =
        lcpT (lcp (((rlt.out ++ req.out).getLast?).getD []) ((rgt.out.head?).getD [])) := by
      intro _
      have hqne : req.out ≠ [] := by
        intro e; have := hge.1.length_eq; rw [e] at this
        exact heqne (List.length_eq_zero_iff.1 this.symm)
      obtain ⟨z, hz⟩ : ∃ z, req.out.getLast? = some z := ⟨req.out.getLast hqne, List.getLast?_eq_some_getLast hqne⟩
      have hzeq : z ∈ eq := hge.1.mem_iff.1 (List.mem_of_getLast? hz)
      have hgne : rgt.out ≠ [] := by
        intro e; have := hgg.1.length_eq; rw [e] at this
        exact hgtne (List.length_eq_zero_iff.1 this.symm)
      obtain ⟨y, hy⟩ : ∃ y, rgt.out.head? = some y := ⟨rgt.out.head hgne, List.head?_eq_some_head hgne⟩
      have hygt : y ∈ gt := hgg.1.mem_iff.1 (List.mem_of_head? hy)
      obtain ⟨_, ky, hky, hkygt⟩ := mgt y hygt
      have hkeys : ∀ k, k ∈ keys.filter (pivot < ·) ↔ ∃ s ∈ gt, getKey? s p.length = some k := by
        intro k
        constructor
        · intro hk'
          obtain ⟨hkm, hklt⟩ := List.mem_filter.1 hk'
          obtain ⟨j, hj, hjk⟩ := List.getElem_of_mem hkm
          have hjs : j < strs.length := by omega
          have hz' : (strs[j], keys[j]) ∈ strs.zip keys := by
            have : (strs.zip keys)[j]? = some (strs[j], keys[j]) := by
              rw [List.getElem?_zip_eq_some]; exact ⟨List.getElem?_eq_getElem hjs, List.getElem?_eq_getElem hj⟩
            exact List.mem_of_getElem? this
          refine ⟨strs[j], ?_, ?_⟩
          · rw [← hgt, List.mem_map]
            exact ⟨(strs[j], keys[j]), List.mem_filter.2 ⟨hz', by rw [hjk]; exact hklt⟩, rfl⟩
          · rw [← hjk]; exact hk.zip_mem _ hz'
        · rintro ⟨s, hs, hsk⟩
          rw [← hgt] at hs
          simp only [List.mem_map, List.mem_filter] at hs
          obtain ⟨⟨s', k'⟩, ⟨hm, hq⟩, rfl⟩ := hs
          have := hk.zip_mem _ hm
          simp only at this hsk
          rw [this] at hsk; cases hsk
          exact List.mem_filter.2 ⟨(List.of_mem_zip hm).2, hq⟩
      obtain ⟨hmin1, _, hmin3⟩ := foldl_min_spec (keys.filter (pivot < ·)) (BitVec.allOnes 64)
      have hkyin : ky ∈ keys.filter (pivot < ·) := (hkeys ky).2 ⟨y, hygt, hky⟩
      have hmineq : (keys.filter (pivot < ·)).foldl (fun a b => if b < a then b else a) (BitVec.allOnes 64) = ky := by
        have h1 := hmin1 ky hkyin
        have hmem : (keys.filter (pivot < ·)).foldl (fun a b => if b < a then b else a) (BitVec.allOnes 64) ∈ keys.filter (pivot < ·) := by
          rcases hmin3 with h0 | hm
          · rw [h0] at h1
            have : ky = BitVec.allOnes 64 := by
              apply BitVec.eq_of_toNat_eq
              rw [BitVec.le_def] at h1
              have := ky.isLt
              simp at h1 ⊢; omega
            rw [h0, ← this]; exact hkyin
          · exact hm
        obtain ⟨s, hs, hsk⟩ := (hkeys _).1 hmem
        have hsout : s ∈ rgt.out := hgg.1.mem_iff.2 hs
        have hle : strLe y s = true := by
          obtain ⟨i, hi, rfl⟩ := List.getElem_of_mem hsout
          have hyl : y = rgt.out[0]'(List.length_pos_iff.2 hgne) := by
            rw [List.head?_eq_getElem?] at hy
            have := List.getElem?_eq_getElem (l := rgt.out) (i := 0) (List.length_pos_iff.2 hgne)
            rw [this] at hy; exact (Option.some.inj hy).symm
          rcases Nat.eq_zero_or_pos i with h0 | hpos
          · subst h0; rw [hyl]; exact strLe_refl _
          · rw [hyl]
            exact List.pairwise_iff_getElem.1 hgg.2.1 0 i (List.length_pos_iff.2 hgne) hi hpos
        have h2 := key_mono (hrgt y hygt) (hrgt s hs) hky hsk hle
        exact BitVec.eq_of_toNat_eq (Nat.le_antisymm (BitVec.le_def.1 h1) (BitVec.le_def.1 h2))
      rw [hmineq, List.getLast?_append, hz, hy]
      exact congrArg lcpT (keyLt_lcp (hreq z hzeq) (hrgt y hygt) (meq z hzeq).2 hky hkygt).symm
    have g2 := glue_good (A := lt ++ eq) (B := gt) g1 hgg hgtne hcross2 _ hv2
    have hfin : SortedLcp strs _ := ⟨g2.1.trans hperm, g2.2.1, g2.2.2⟩
    have eo : ((rlt.append req).append rgt).out = rlt.out ++ req.out ++ rgt.out := by simp [Res.append]
    have hle_ne : ¬ (lt ++ eq = []) := by simp [heqne]
    have el : mkqsLcp p.length pivot maxLt
        ((keys.filter (pivot < ·)).foldl (fun a b => if b < a then b else a) (BitVec.allOnes 64))
        lt.length eq.length gt.length ((rlt.append req).append rgt).lcp =
        (rlt.lcp ++ req.lcp.set 0 (if lt = [] then (req.lcp.head?).getD 0 else lcpT (p.length + lcpKeyType maxLt pivot))) ++
          rgt.lcp.set 0 (if lt ++ eq = [] then (rgt.lcp.head?).getD 0 else lcpT (p.length + lcpKeyType pivot
            ((keys.filter (pivot < ·)).foldl (fun a b => if b < a then b else a) (BitVec.allOnes 64)))) := by
      simp only [hle_ne, if_false, Res.append, mkqsLcp, gt_iff_lt, u8_lcpKeyType]
      have hgpos : 0 < gt.length := List.length_pos_iff.2 hgtne
      simp only [hgpos, if_true, setLcp]
      by_cases hlte : lt = []
      · subst hlte
        have : rlt.lcp = [] := List.length_eq_zero_iff.1 hl1
        simp only [List.length_nil, Nat.lt_irrefl, if_false, if_true, set_head_self, this, List.nil_append, Nat.zero_add]
        rw [← hl2, List.set_append_right _ _ (Nat.le_refl _), Nat.sub_self]
      · have hlp : 0 < lt.length := List.length_pos_iff.2 hlte
        simp only [hlp, if_true, hlte, if_false]
        rw [← hl1, set_mid _ _ _ _ hreqlne]
        have : rlt.lcp.length + eq.length = (rlt.lcp ++ req.lcp.set 0 (lcpT (p.length + lcpKeyType maxLt pivot))).length := by
          simp [hl2]
        rw [this, List.set_append_right _ _ (Nat.le_refl _), Nat.sub_self]
    rw [eo, el]; exact hfin

end TlxVerif.C04
