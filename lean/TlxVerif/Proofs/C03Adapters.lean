/-
C03 — the loops and adapters built from the 8-bit and 16-bit steps: radixsort_CI2, CI3, CE2, CE3
and the front-end sort_strings.  The in-place variants are relative to the cycle-leader
permutation (`PermuteOk`), everything that reaches multikey quicksort is relative to `MkqsOk`.
-/
import TlxVerif.Proofs.C03Radix16
namespace TlxVerif.C03

variable {α : Type} (str : α → Str)

/-- what the in-place radix steps need from counting + inclusive prefix sum + cycle-leader
permutation: the array is a permutation of the input cut into the buckets by key -/
def PermuteOk (R : Nat) (key : α → Nat) (ss : List α) : Prop :=
  (permuteInPlace R key ss).1.Perm ss ∧ (permuteInPlace R key ss).2.length = R ∧
  (permuteInPlace R key ss).2.sum = ss.length ∧
  ∀ j b, (splitBy (permuteInPlace R key ss).2 (permuteInPlace R key ss).1)[j]? = some b → ∀ y ∈ b, key y = j

def PermuteAllOk (α : Type) : Prop :=
  ∀ (R : Nat) (key : α → Nat) (ss : List α), 0 < R → (∀ x ∈ ss, key x < R) → PermuteOk R key ss

/-- a range of equal strings whose LCP view gets filled with their common LCP -/
theorem sortSpec_equal_fill (wl : Bool) (d : Nat) (b : List α) (v v' : List Nat)
    (heq : ∀ x ∈ b, ∀ y ∈ b, str x = str y ∧ lcp (str x) (str y) = d)
    (hv : wl = true → v' = v.take 1 ++ List.replicate (b.length - 1) d) :
    SortSpec str wl b v (b, v') := by
  refine ⟨List.Perm.refl _, ?_, ?_⟩
  · unfold Sorted
    rw [List.pairwise_iff_forall_sublist]
    intro x y hs
    have hx : x ∈ b := hs.subset (by simp)
    have hy : y ∈ b := hs.subset (by simp)
    rw [(heq x hx y hy).1]
    exact List.le_refl _
  · intro hw
    rw [adjLcps_const (b.map str) d]
    · simpa using hv hw
    · intro a ha c hc
      rw [List.mem_map] at ha hc
      obtain ⟨x, hx, e1⟩ := ha
      obtain ⟨y, hy, e2⟩ := hc
      rw [← e1, ← e2]
      exact (heq x hx y hy).2

theorem setRange_fill (v : List Nat) (n d : Nat) (h : v.length = n) :
    setRange v 1 n d = v.take 1 ++ List.replicate (n - 1) d := by
  have h1 := setRange_take v n d (by omega)
  rw [List.take_of_length_le (by rw [setRange_length]; omega)] at h1
  rw [h1, List.take_of_length_le (l := v) (by omega)]

/-- the zero-termination branch of the 16-bit loops -/
theorem term_branch (wl : Bool) (d : Nat) (b : List α) (v : List Nat)
    (hv : wl = true → v.length = b.length)
    (heq : ∀ x ∈ b, ∀ y ∈ b, str x = str y ∧ lcp (str x) (str y) = d + 1) :
    SortSpec str wl b v (b, if wl then setRange v 1 b.length (d + 1) else v) := by
  apply sortSpec_equal_fill str wl (d + 1) b v _ heq
  intro hw
  simp only [hw, if_true]
  exact setRange_fill v b.length (d + 1) (hv hw)

/-! ### in-place 8-bit -/

theorem ci2Loop_spec (c : Consts) (wl : Bool) (hM : MkqsOk str c wl) (hPerm : PermuteAllOk α) :
    ∀ fuel ss l d level mem, (∀ x ∈ ss, (str x).length < d + fuel) → Pre str wl d ss l →
      SortSpec str wl ss l (ci2Loop str c wl fuel ss l d level mem) := by
  intro fuel
  induction fuel with
  | zero =>
    intro ss l d level mem hlen hpre
    have := empty_of_short str wl d ss l hpre (by simpa using hlen)
    subst this
    simp only [ci2Loop]
    exact sortSpec_id_small str wl [] l (by simp) hpre.2.2
  | succ fuel ih =>
    intro ss l d level mem hlen hpre
    simp only [ci2Loop]
    obtain ⟨p1, p2, p3, p4⟩ := hPerm 256 (fun x => key8 (str x) d) ss (by omega) (fun x _ => key8_lt_256 _ _)
    generalize permuteInPlace 256 (fun x => key8 (str x) d) ss = pr at p1 p2 p3 p4
    obtain ⟨perm, sizes⟩ := pr
    simp only at p1 p2 p3 p4 ⊢
    have hplen : perm.length = sizes.sum := by rw [p3]; exact p1.length_eq
    have e : (splitBy sizes perm).map List.length = sizes := splitBy_map_length sizes perm (by omega)
    have hmem : ∀ (j : Nat) (b : List α), (splitBy sizes perm)[j]? = some b → ∀ y ∈ b, y ∈ ss := by
      intro j b hb y hy
      apply p1.mem_iff.mp
      rw [← splitBy_flatten sizes perm (by omega)]
      exact List.mem_flatten.mpr ⟨b, List.mem_of_getElem? hb, hy⟩
    have := step8_spec str wl d ss l (splitBy sizes perm)
      (fun idx b v =>
        if idx = 0 then (b, v)
        else if b.length ≤ 1 then (b, v)
        else if b.length < inssortThreshold then insertionSort str wl (d + 1) b v
        else if mem ≠ 0 ∧ mem < c.stepCI2 * (level + 1) then
          multikeyQuicksort str c wl (d + 1) b v (wsub mem (c.stepCI2 * level))
        else ci2Loop str c wl fuel b v (d + 1) (level + 1) mem)
      (by rw [splitBy_flatten sizes perm (by omega)]; exact p1)
      (by
        intro e0
        have := congrArg List.length e0
        rw [splitBy_length, p2] at this
        simp at this)
      p4 hpre (by intro b v; simp)
      (by
        intro j b v hj hb hpb
        have hj0 : ¬ j = 0 := by omega
        simp only [hj0, if_false]
        split
        · exact sortSpec_id_small str wl b v (by omega) hpb.2.2
        · split
          · exact insertionSort_spec str wl (d + 1) b v hpb
          · split
            · exact hM (d + 1) b v _ hpb
            · apply ih b v (d + 1) (level + 1) mem _ hpb
              intro x hx
              have := hlen x (hmem j b hb x hx)
              omega)
    rw [e] at this
    exact this

theorem radixsortCI2_spec (c : Consts) (wl : Bool) (hM : MkqsOk str c wl) (hPerm : PermuteAllOk α)
    (d : Nat) (ss : List α) (l : List Nat) (mem : Nat) (hpre : Pre str wl d ss l) :
    SortSpec str wl ss l (radixsortCI2 str c wl d ss l mem) := by
  unfold radixsortCI2
  split
  · exact insertionSort_spec str wl d ss l hpre
  · simp only
    split
    · exact hM d ss l mem hpre
    · exact ci2Loop_spec str c wl hM hPerm _ ss l d 1 _ (radixFuel_enough str ss d) hpre

/-! ### in-place 16-bit -/

theorem ci3Loop_spec (c : Consts) (wl : Bool) (hM : MkqsOk str c wl) (hPerm : PermuteAllOk α) :
    ∀ fuel ss l d level mem, (∀ x ∈ ss, (str x).length < d + fuel) → Pre str wl d ss l →
      SortSpec str wl ss l (ci3Loop str c wl fuel ss l d level mem) := by
  intro fuel
  induction fuel with
  | zero =>
    intro ss l d level mem hlen hpre
    have := empty_of_short str wl d ss l hpre (by simpa using hlen)
    subst this
    simp only [ci3Loop]
    exact sortSpec_id_small str wl [] l (by simp) hpre.2.2
  | succ fuel ih =>
    intro ss l d level mem hlen hpre
    simp only [ci3Loop]
    obtain ⟨p1, p2, p3, p4⟩ := hPerm 65536 (fun x => key16 (str x) d) ss (by omega) (fun x _ => key16_lt _ _)
    generalize permuteInPlace 65536 (fun x => key16 (str x) d) ss = pr at p1 p2 p3 p4
    obtain ⟨perm, sizes⟩ := pr
    simp only at p1 p2 p3 p4 ⊢
    have hplen : perm.length = sizes.sum := by rw [p3]; exact p1.length_eq
    have e : (splitBy sizes perm).map List.length = sizes := splitBy_map_length sizes perm (by omega)
    have hmem : ∀ (j : Nat) (b : List α), (splitBy sizes perm)[j]? = some b → ∀ y ∈ b, y ∈ ss := by
      intro j b hb y hy
      apply p1.mem_iff.mp
      rw [← splitBy_flatten sizes perm (by omega)]
      exact List.mem_flatten.mpr ⟨b, List.mem_of_getElem? hb, hy⟩
    have := step16_spec str wl d ss l (splitBy sizes perm)
      (fun idx b v =>
        if idx = 0 then (b, v)
        else if b.length ≤ 1 then (b, v)
        else if idx &&& 0xFF = 0 then (b, if wl then setRange v 1 b.length (d + 1) else v)
        else if b.length < inssortThreshold then insertionSort str wl (d + 2) b v
        else if b.length < 65536 then
          ci2Loop str c wl (radixFuel str b) b v (d + 2) 1 (wsub mem (c.stepCI3 * level))
        else if mem ≠ 0 ∧ mem < c.stepCI3 * (level + 1) then
          multikeyQuicksort str c wl (d + 2) b v (wsub mem (c.stepCI3 * level))
        else ci3Loop str c wl fuel b v (d + 2) (level + 1) mem)
      (by rw [splitBy_flatten sizes perm (by omega)]; exact p1)
      (by
        intro e0
        have := congrArg List.length e0
        rw [splitBy_length, p2] at this
        simp at this)
      p4 hpre (by intro b v; simp)
      (by
        intro j b v hj hz hb hv heq
        have hj0 : ¬ j = 0 := by omega
        simp only [hj0, if_false, and255, hz, if_true]
        split
        · exact sortSpec_id_small str wl b v (by omega) hv
        · exact term_branch str wl d b v hv heq)
      (by
        intro j b v hj hz hb hpb
        have hj0 : ¬ j = 0 := by omega
        simp only [hj0, if_false, and255, hz]
        split
        · exact sortSpec_id_small str wl b v (by omega) hpb.2.2
        · split
          · exact insertionSort_spec str wl (d + 2) b v hpb
          · split
            · exact ci2Loop_spec str c wl hM hPerm _ b v (d + 2) 1 _ (radixFuel_enough str b (d + 2)) hpb
            · split
              · exact hM (d + 2) b v _ hpb
              · apply ih b v (d + 2) (level + 1) mem _ hpb
                intro x hx
                have := hlen x (hmem j b hb x hx)
                omega)
    rw [e] at this
    exact this

theorem radixsortCI3_spec (c : Consts) (wl : Bool) (hM : MkqsOk str c wl) (hPerm : PermuteAllOk α)
    (d : Nat) (ss : List α) (l : List Nat) (mem : Nat) (hpre : Pre str wl d ss l) :
    SortSpec str wl ss l (radixsortCI3 str c wl d ss l mem) := by
  unfold radixsortCI3
  split
  · exact insertionSort_spec str wl d ss l hpre
  · split
    · exact radixsortCI2_spec str c wl hM hPerm d ss l mem hpre
    · simp only
      split
      · exact radixsortCI2_spec str c wl hM hPerm d ss l mem hpre
      · exact ci3Loop_spec str c wl hM hPerm _ ss l d 1 _ (radixFuel_enough str ss d) hpre

/-! ### out-of-place adapters -/

theorem radixsortCE2_spec (c : Consts) (wl : Bool) (hM : MkqsOk str c wl) (hPerm : PermuteAllOk α)
    (d : Nat) (ss : List α) (l : List Nat) (mem : Nat) (hpre : Pre str wl d ss l) :
    SortSpec str wl ss l (radixsortCE2 str c wl d ss l mem) := by
  unfold radixsortCE2
  split
  · exact insertionSort_spec str wl d ss l hpre
  · simp only
    split
    · exact radixsortCI3_spec str c wl hM hPerm d ss l mem hpre
    · exact ce8Loop_spec str c wl _ hM _ ss l d 1 _ (radixFuel_enough str ss d) hpre

theorem ce3Loop_spec (c : Consts) (wl : Bool) (hM : MkqsOk str c wl) :
    ∀ fuel ss l d level mem, (∀ x ∈ ss, (str x).length < d + fuel) → Pre str wl d ss l →
      SortSpec str wl ss l (ce3Loop str c wl fuel ss l d level mem) := by
  intro fuel
  induction fuel with
  | zero =>
    intro ss l d level mem hlen hpre
    have := empty_of_short str wl d ss l hpre (by simpa using hlen)
    subst this
    simp only [ce3Loop]
    exact sortSpec_id_small str wl [] l (by simp) hpre.2.2
  | succ fuel ih =>
    intro ss l d level mem hlen hpre
    simp only [ce3Loop]
    rw [scatterBuckets_eq 65536 _ ss (fun x _ => key16_lt _ _)]
    have hmem := buckets_mem 65536 (fun x => key16 (str x) d) ss
    apply step16_spec str wl d ss l _ _
      (buckets_perm 65536 _ ss (fun x _ => key16_lt _ _))
      (by
        intro e
        have := congrArg List.length e
        rw [Array.length_toList, buckets_size] at this
        simp at this)
      (fun j b hb y hy => (hmem j b hb y hy).2)
      hpre
      (by intro b v; simp)
    · intro j b v hj hz hb hv heq
      have hj0 : ¬ j = 0 := by omega
      simp only [hj0, if_false, and255, hz, if_true]
      split
      · exact sortSpec_id_small str wl b v (by omega) hv
      · exact term_branch str wl d b v hv heq
    · intro j b v hj hz hb hpb
      have hj0 : ¬ j = 0 := by omega
      simp only [hj0, if_false, and255, hz]
      split
      · exact sortSpec_id_small str wl b v (by omega) hpb.2.2
      · split
        · exact insertionSort_spec str wl (d + 2) b v hpb
        · split
          · exact ce8Loop_spec str c wl _ hM _ b v (d + 2) 1 _ (radixFuel_enough str b (d + 2)) hpb
          · split
            · exact hM (d + 2) b v _ hpb
            · apply ih b v (d + 2) (level + 1) mem _ hpb
              intro x hx
              have := hlen x (hmem j b hb x hx).1
              omega

theorem radixsortCE3_spec (c : Consts) (wl : Bool) (hM : MkqsOk str c wl) (hPerm : PermuteAllOk α)
    (d : Nat) (ss : List α) (l : List Nat) (mem : Nat) (hpre : Pre str wl d ss l) :
    SortSpec str wl ss l (radixsortCE3 str c wl d ss l mem) := by
  unfold radixsortCE3
  split
  · exact insertionSort_spec str wl d ss l hpre
  · split
    · exact radixsortCE2_spec str c wl hM hPerm d ss l mem hpre
    · simp only
      split
      · exact radixsortCE2_spec str c wl hM hPerm d ss l mem hpre
      · exact ce3Loop_spec str c wl hM _ ss l d 1 _ (radixFuel_enough str ss d) hpre

end TlxVerif.C03

namespace TlxVerif.C03

variable {α : Type} (str : α → Str)

/-- the memory limit does not force radixsort_CE2 into the in-place fall-back radixsort_CI3
(`memory = 0`, the default, or enough for the shadow array, the character cache and three steps) -/
def NoInPlaceFallback (c : Consts) (n mem : Nat) : Prop :=
  ¬ (mem ≠ 0 ∧ mem < 2 * 8 + c.szSet + n * 1 + n * c.szStr + 3 * c.stepCE2 + 1)

theorem radixsortCE2_spec_out (c : Consts) (wl : Bool) (hM : MkqsOk str c wl)
    (d : Nat) (ss : List α) (l : List Nat) (mem : Nat) (hmem : NoInPlaceFallback c ss.length mem)
    (hpre : Pre str wl d ss l) :
    SortSpec str wl ss l (radixsortCE2 str c wl d ss l mem) := by
  unfold radixsortCE2
  split
  · exact insertionSort_spec str wl d ss l hpre
  · simp only
    split
    · rename_i h; exact absurd h hmem
    · exact ce8Loop_spec str c wl _ hM _ ss l d 1 _ (radixFuel_enough str ss d) hpre

theorem radixsortCE3_spec_out (c : Consts) (wl : Bool) (hM : MkqsOk str c wl)
    (d : Nat) (ss : List α) (l : List Nat) (mem : Nat) (hmem : NoInPlaceFallback c ss.length mem)
    (hpre : Pre str wl d ss l) :
    SortSpec str wl ss l (radixsortCE3 str c wl d ss l mem) := by
  unfold radixsortCE3
  split
  · exact insertionSort_spec str wl d ss l hpre
  · split
    · exact radixsortCE2_spec_out str c wl hM d ss l mem hmem hpre
    · simp only
      split
      · exact radixsortCE2_spec_out str c wl hM d ss l mem hmem hpre
      · exact ce3Loop_spec str c wl hM _ ss l d 1 _ (radixFuel_enough str ss d) hpre

end TlxVerif.C03
