/-
C08 — existence of the partition: for sorted runs and every rank 0 ≤ r ≤ N there is an offset vector
satisfying `IsPartition` (by induction on the rank: move the (value, sequence)-minimal right head to the left).
-/
import TlxVerif.Proofs.C08Checker
namespace TlxVerif.C08

variable {α : Type}

theorem Before.trans {lt : α → α → Bool} (hlt : StrictWeak lt) {x y z : α} {i j k : Nat}
    (h1 : Before lt x i y j) (h2 : Before lt y j z k) : Before lt x i z k := by
  rcases h1 with h1 | ⟨h1, hij⟩
  · rcases h2 with h2 | ⟨h2, _⟩
    · exact Or.inl (hlt.trans h1 h2)
    · exact Or.inl (hlt.lt_of_lt_of_le h1 h2)
  · rcases h2 with h2 | ⟨h2, hjk⟩
    · exact Or.inl (hlt.lt_of_le_of_lt h1 h2)
    · exact Or.inr ⟨hlt.le_trans h1 h2, by omega⟩

theorem Before.total (lt : α → α → Bool) (x y : α) {i j : Nat} (hij : i ≠ j) :
    Before lt x i y j ∨ Before lt y j x i := by
  cases hxy : lt x y with
  | true => exact Or.inl (Or.inl hxy)
  | false =>
    cases hyx : lt y x with
    | true => exact Or.inr (Or.inl hyx)
    | false =>
      rcases Nat.lt_or_gt_of_ne hij with h | h
      · exact Or.inl (Or.inr ⟨hyx, h⟩)
      · exact Or.inr (Or.inr ⟨hxy, h⟩)

/-- among finitely many sequences with a head value there is a (value, sequence)-minimal one -/
theorem exists_min_idx {lt : α → α → Bool} (hlt : StrictWeak lt) (f : Nat → Option α) :
    ∀ (js : List Nat), js ≠ [] → (∀ j ∈ js, ∃ v, f j = some v) →
      ∃ m ∈ js, ∀ j ∈ js, j ≠ m → ∀ vm vj, f m = some vm → f j = some vj → Before lt vm m vj j
  | [], h, _ => (h rfl).elim
  | [a], _, _ => ⟨a, List.mem_cons_self, fun j hj hne => by simp at hj; exact (hne hj).elim⟩
  | a :: b :: rest, _, hf => by
    obtain ⟨m, hm, hmin⟩ := exists_min_idx hlt f (b :: rest) (by simp)
      (fun j hj => hf j (List.mem_cons_of_mem _ hj))
    by_cases ham : a = m
    · refine ⟨m, List.mem_cons_of_mem _ hm, ?_⟩
      intro j hj hne
      rcases List.mem_cons.mp hj with hj | hj
      · subst hj; exact (hne ham).elim
      · exact hmin j hj hne
    · obtain ⟨va, hva⟩ := hf a List.mem_cons_self
      obtain ⟨vm, hvm⟩ := hf m (List.mem_cons_of_mem _ hm)
      rcases Before.total lt va vm ham with hb | hb
      · refine ⟨a, List.mem_cons_self, ?_⟩
        intro j hj hne va' vj hva' hvj
        rw [hva] at hva'; cases hva'
        rcases List.mem_cons.mp hj with hj | hj
        · exact (hne hj).elim
        · by_cases hjm : j = m
          · subst hjm; rw [hvm] at hvj; cases hvj; exact hb
          · exact Before.trans hlt hb (hmin j hj hjm vm vj hvm hvj)
      · refine ⟨m, List.mem_cons_of_mem _ hm, ?_⟩
        intro j hj hne vm' vj hvm' hvj
        rw [hvm] at hvm'; cases hvm'
        rcases List.mem_cons.mp hj with hj | hj
        · subst hj; rw [hva] at hvj; cases hvj; exact hb
        · exact hmin j hj hne vm vj hvm hvj

/-- head of the right part of sequence `j` -/
def rightHead (runs : List (List α)) (offs : List Nat) (j : Nat) : Option α :=
  match runs[j]?, offs[j]? with
  | some r, some o => r[o]?
  | _, _ => none

theorem sum_set_succ : ∀ (l : List Nat) (j o : Nat), l[j]? = some o → (l.set j (o + 1)).sum = l.sum + 1
  | [], _, _, h => by simp at h
  | x :: l, 0, o, h => by simp at h; subst h; simp; omega
  | x :: l, j + 1, o, h => by
    have := sum_set_succ l j o (by simpa using h)
    simp only [List.set_cons_succ, List.sum_cons, this]; omega

theorem isPartition_zero' (lt : α → α → Bool) (runs : List (List α)) :
    IsPartition lt runs 0 (List.replicate runs.length 0) := by
  refine ⟨by simp, ?_, by simp, ?_⟩
  · intro i r o _ ho
    have := (List.getElem?_eq_some_iff.mp ho).2
    simp at this; omega
  · intro i j ri rj oi oj _ _ _ hoi _ x hx
    have := (List.getElem?_eq_some_iff.mp hoi).2
    simp at this; subst this; simp at hx

/-- one more element: if the left parts hold fewer than all elements, the partition can be advanced -/
theorem partition_succ {lt : α → α → Bool} (hlt : StrictWeak lt) {runs : List (List α)}
    (hs : ∀ r ∈ runs, SortedRun lt r) {rank : Nat} {offs : List Nat} (h : IsPartition lt runs rank offs)
    (hr : rank < (runs.map List.length).sum) : ∃ offs', IsPartition lt runs (rank + 1) offs' := by
  -- candidates: sequences whose right part is not empty
  let js := (List.range runs.length).filter (fun j => (rightHead runs offs j).isSome)
  have hjs : js ≠ [] := by
    intro hnil
    have hall : ∀ (k x y : Nat), (runs.map List.length)[k]? = some x → offs[k]? = some y → x ≤ y := by
      intro k x y hx hy
      refine Classical.byContradiction fun hc => ?_
      simp only [List.getElem?_map, Option.map_eq_some_iff] at hx
      obtain ⟨r, hr', rfl⟩ := hx
      have hk : k < runs.length := (List.getElem?_eq_some_iff.mp hr').1
      have hmem : k ∈ js := by
        simp only [js, List.mem_filter, List.mem_range]
        refine ⟨hk, ?_⟩
        simp only [rightHead, hr', hy]
        rw [List.getElem?_eq_getElem (by omega)]; rfl
      rw [hnil] at hmem; cases hmem
    have := sum_le_of_pointwise (runs.map List.length) offs (by simp [h.len]) hall
    rw [h.sum] at this; omega
  obtain ⟨m, hm, hmin⟩ := exists_min_idx hlt (rightHead runs offs) js hjs (by
    intro j hj
    simp only [js, List.mem_filter] at hj
    exact Option.isSome_iff_exists.mp hj.2)
  simp only [js, List.mem_filter, List.mem_range] at hm
  obtain ⟨vm, hvm⟩ := Option.isSome_iff_exists.mp hm.2
  -- unfold the head of m
  have hrm : runs[m]? = some runs[m] := List.getElem?_eq_getElem hm.1
  have hmo : m < offs.length := by rw [h.len]; exact hm.1
  have hom : offs[m]? = some offs[m] := List.getElem?_eq_getElem hmo
  have hvm' : runs[m][offs[m]]? = some vm := by simpa [rightHead, hrm, hom] using hvm
  have hlt_m : offs[m] < runs[m].length := (List.getElem?_eq_some_iff.mp hvm').1
  have hvm_eq : runs[m][offs[m]] = vm := (List.getElem?_eq_some_iff.mp hvm').2
  refine ⟨offs.set m (offs[m] + 1), ?_, ?_, ?_, ?_⟩
  · simp [h.len]
  · intro i r o hr' ho
    by_cases him : m = i
    · subst him
      rw [List.getElem?_set_self hmo] at ho; cases ho
      rw [hrm] at hr'; cases hr'; omega
    · rw [List.getElem?_set_ne him] at ho
      exact h.bound i r o hr' ho
  · rw [sum_set_succ offs m offs[m] hom, h.sum]
  · intro i k ri rk oi ok hik hri hrk hoi hok x hx y hy
    -- the right element: right parts only shrink
    have hy' : ∃ ok0, offs[k]? = some ok0 ∧ y ∈ rk.drop ok0 := by
      by_cases hkm : m = k
      · subst hkm
        rw [List.getElem?_set_self hmo] at hok; cases hok
        exact ⟨offs[m], hom, (List.drop_sublist_drop_left rk (Nat.le_succ _)).subset hy⟩
      · rw [List.getElem?_set_ne hkm] at hok
        exact ⟨ok, hok, hy⟩
    obtain ⟨ok0, hok0, hy0⟩ := hy'
    by_cases him : m = i
    · subst him
      rw [List.getElem?_set_self hmo] at hoi; cases hoi
      rw [hrm] at hri; cases hri
      rw [List.take_add_one, List.mem_append] at hx
      rcases hx with hx | hx
      · exact h.ordered m k _ rk _ ok0 hik hrm hrk hom hok0 x hx y hy0
      · -- x is the moved element: minimal among the right heads
        rw [hvm'] at hx
        have hx' : x = vm := by simpa using hx
        rw [hx']
        have hkl : k < runs.length := (List.getElem?_eq_some_iff.mp hrk).1
        -- the head of sequence k's right part
        cases hh : (rk.drop ok0).head? with
        | none =>
          rw [List.head?_eq_none_iff] at hh; rw [hh] at hy0; cases hy0
        | some w =>
          have hw : rk[ok0]? = some w := by
            rw [List.head?_drop] at hh; exact hh
          have hkj : k ∈ js := by
            simp only [js, List.mem_filter, List.mem_range]
            exact ⟨hkl, by simp [rightHead, hrk, hok0, hw]⟩
          have hb := hmin k hkj (Ne.symm hik) vm w hvm (by simp [rightHead, hrk, hok0, hw])
          have hsk : SortedRun lt (rk.drop ok0) :=
            List.Pairwise.sublist (List.drop_sublist _ _) (hs rk (List.mem_of_getElem? hrk))
          exact before_of_edges hlt (hlt.irrefl _) (sorted_head_le hlt hsk hy0 hh) hb
    · rw [List.getElem?_set_ne him] at hoi
      exact h.ordered i k ri rk oi ok0 hik hri hrk hoi hok0 x hx y hy0

/-- **Existence**: for sorted runs every rank `0 ≤ r ≤ N` has a partition. -/
theorem partition_exists {lt : α → α → Bool} (hlt : StrictWeak lt) {runs : List (List α)}
    (hs : ∀ r ∈ runs, SortedRun lt r) : ∀ rank, rank ≤ (runs.map List.length).sum →
    ∃ offs, IsPartition lt runs rank offs
  | 0, _ => ⟨_, isPartition_zero' lt runs⟩
  | rank + 1, hr => by
    obtain ⟨offs, h⟩ := partition_exists hlt hs rank (by omega)
    exact partition_succ hlt hs h (by omega)

end TlxVerif.C08
