/-
C18 — helper lemmas: byte comparison, std::equal, prefixes.
-/
import TlxVerif.Model.C18Spec
import TlxVerif.Model.C18StringView
namespace TlxVerif.C18
open Spec

theorem u8_eq_of_not_lt {a b : UInt8} (h1 : ¬ a < b) (h2 : ¬ b < a) : a = b := by
  apply UInt8.le_antisymm
  · exact UInt8.not_lt.mp h2
  · exact UInt8.not_lt.mp h1

/-- `traits::compare` on the common length is the zip comparison of the spec -/
theorem traitsCompare_min : ∀ (a b : Bytes), Model.traitsCompare a b (min a.length b.length) = cmpBytes a b
  | [], b => by simp [Model.traitsCompare, cmpBytes]
  | x :: as, [] => by simp [Model.traitsCompare, cmpBytes]
  | x :: as, y :: bs => by
    have : min (x :: as).length (y :: bs).length = min as.length bs.length + 1 := by
      simp only [List.length_cons]; omega
    rw [this]
    simp only [Model.traitsCompare, cmpBytes, traitsCompare_min as bs]

/-- `traits::compare(a, s, |s|)` when `a` has at least `|s|` bytes -/
theorem traitsCompare_eq_zero_iff : ∀ (a s : Bytes), s.length ≤ a.length →
    (Model.traitsCompare a s s.length = 0 ↔ a.take s.length = s)
  | a, [], _ => by simp [Model.traitsCompare]
  | [], y :: s, h => by simp at h
  | x :: a, y :: s, h => by
    simp only [List.length_cons, Model.traitsCompare, List.take_succ_cons, List.cons.injEq]
    by_cases h1 : x < y
    · have : x ≠ y := fun e => by subst e; exact UInt8.lt_irrefl _ h1
      simp [h1, this]
    · by_cases h2 : y < x
      · have : x ≠ y := fun e => by subst e; exact UInt8.lt_irrefl _ h2
        simp [h1, h2, this]
      · have e : x = y := u8_eq_of_not_lt h1 h2
        subst e
        simp only [UInt8.lt_irrefl, if_false, true_and]
        exact traitsCompare_eq_zero_iff a s (by simpa using h)

theorem cmpBytes_self : ∀ a : Bytes, cmpBytes a a = 0
  | [] => rfl
  | x :: a => by simp [cmpBytes, UInt8.lt_irrefl, cmpBytes_self a]

theorem cmpBytes_swap : ∀ a b : Bytes, cmpBytes b a = - cmpBytes a b
  | [], [] => rfl
  | [], _ :: _ => rfl
  | _ :: _, [] => rfl
  | x :: a, y :: b => by
    simp only [cmpBytes]
    by_cases h1 : x < y
    · have h2 : ¬ y < x := fun h => UInt8.lt_irrefl _ (UInt8.lt_trans h1 h)
      simp [h1, h2]
    · by_cases h2 : y < x
      · simp [h1, h2]
      · simp [h1, h2, cmpBytes_swap a b]

theorem cmpBytes_eq_zero_of_length_eq : ∀ a b : Bytes, a.length = b.length → (cmpBytes a b = 0 ↔ a = b)
  | [], [], _ => by simp [cmpBytes]
  | [], _ :: _, h => by simp at h
  | _ :: _, [], h => by simp at h
  | x :: a, y :: b, h => by
    simp only [cmpBytes, List.cons.injEq]
    by_cases h1 : x < y
    · have : x ≠ y := fun e => by subst e; exact UInt8.lt_irrefl _ h1
      simp [h1, this]
    · by_cases h2 : y < x
      · have : x ≠ y := fun e => by subst e; exact UInt8.lt_irrefl _ h2
        simp [h1, h2, this]
      · have e : x = y := u8_eq_of_not_lt h1 h2
        subst e
        simp only [UInt8.lt_irrefl, if_false, true_and]
        exact cmpBytes_eq_zero_of_length_eq a b (by simpa using h)

theorem cmpBytes_range (a b : Bytes) : cmpBytes a b = -1 ∨ cmpBytes a b = 0 ∨ cmpBytes a b = 1 := by
  induction a generalizing b with
  | nil => simp [cmpBytes]
  | cons x a ih =>
    cases b with
    | nil => simp [cmpBytes]
    | cons y b =>
      simp only [cmpBytes]
      split
      · simp
      · split
        · simp
        · exact ih b

theorem compare_swap (a b : Bytes) : Spec.compare b a = - Spec.compare a b := by
  unfold Spec.compare
  rw [cmpBytes_swap a b]
  rcases cmpBytes_range a b with h | h | h <;> simp only [h]
  · simp
  · simp only [Int.neg_zero, ne_eq, not_true_eq_false, if_false]
    by_cases h1 : a.length < b.length
    · have h2 : ¬ b.length < a.length := by omega
      have h3 : ¬ b.length = a.length := by omega
      simp [h1, h2, h3]
    · by_cases h2 : a.length = b.length
      · simp [h2]
      · have h3 : b.length < a.length := by omega
        have h4 : ¬ a.length = b.length := h2
        simp [h1, h3, h4]
  · simp

theorem compare_eq_zero_iff (a b : Bytes) : Spec.compare a b = 0 ↔ a = b := by
  unfold Spec.compare
  constructor
  · intro h
    by_cases hc : cmpBytes a b = 0
    · simp only [hc, ne_eq, not_true_eq_false, if_false] at h
      by_cases h1 : a.length < b.length
      · simp [h1] at h
      · by_cases h2 : a.length = b.length
        · exact (cmpBytes_eq_zero_of_length_eq a b h2).mp hc
        · simp [h1, h2] at h
    · simp [hc] at h
  · intro h
    subst h
    simp [cmpBytes_self]

/-- `std::equal(a.begin(), a.end(), b.begin())` holds iff `a` is a prefix of `b` -/
theorem stdEqual_iff_prefix : ∀ a b : Bytes, Model.stdEqual a b = true ↔ a <+: b
  | [], b => by simp [Model.stdEqual]
  | x :: a, [] => by simp [Model.stdEqual]
  | x :: a, y :: b => by
    simp only [Model.stdEqual, Bool.and_eq_true, beq_iff_eq, List.cons_prefix_cons,
      stdEqual_iff_prefix a b]

theorem stdEqual_iff_eq (a b : Bytes) (h : a.length = b.length) : Model.stdEqual a b = true ↔ a = b := by
  rw [stdEqual_iff_prefix]
  constructor
  · intro hp; exact hp.eq_of_length h
  · intro e; subst e; exact List.prefix_refl _

end TlxVerif.C18

namespace TlxVerif.C18
open Spec

/-! ### `compare` on cons cells (used by C19's case-insensitive comparisons) -/

theorem compare_nil_nil : Spec.compare [] [] = 0 := by decide
theorem compare_nil_cons (b : UInt8) (bs : Bytes) : Spec.compare [] (b :: bs) = -1 := by
  simp [Spec.compare, cmpBytes]
theorem compare_cons_nil (a : UInt8) (as : Bytes) : Spec.compare (a :: as) [] = 1 := by
  simp [Spec.compare, cmpBytes]

theorem compare_cons_same (c : UInt8) (a b : Bytes) : Spec.compare (c :: a) (c :: b) = Spec.compare a b := by
  simp only [Spec.compare, cmpBytes, UInt8.lt_irrefl, if_false, List.length_cons, Nat.add_lt_add_iff_right,
    Nat.add_right_cancel_iff]

theorem compare_cons_lt (x y : UInt8) (a b : Bytes) (h : x < y) : Spec.compare (x :: a) (y :: b) = -1 := by
  simp [Spec.compare, cmpBytes, h]

theorem compare_cons_gt (x y : UInt8) (a b : Bytes) (h : y < x) : Spec.compare (x :: a) (y :: b) = 1 := by
  have : ¬ x < y := fun h' => UInt8.lt_irrefl _ (UInt8.lt_trans h h')
  simp [Spec.compare, cmpBytes, h, this]

end TlxVerif.C18
