import TlxVerif.Model.C10Pool
/-!
Invariants of the ThreadPool transition system over all interleavings, for every
pool size ≥ 1, every job table, every number of clients and call scripts.
-/
namespace TlxVerif.C10
set_option linter.unusedSimpArgs false

/-- states reachable under every schedule, every notify_one choice and every spurious wake-up -/
inductive Reachable (cfg : Cfg) : State → Prop
  | init : Reachable cfg (init cfg)
  | step {s t c o} : Reachable cfg s → step cfg s t c = some o → Reachable cfg o.st

/-! ### thread table accessors -/

def dflt : Thread := { role := .main, pc := .finished }
def getT (thr : List Thread) (t : Nat) : Thread := thr.getD t dflt

theorem getT_set (thr : List Thread) (t u : Nat) (x : Thread) :
    getT (thr.set t x) u = if t = u ∧ u < thr.length then x else getT thr u := by
  unfold getT
  simp only [List.getD_eq_getElem?_getD, List.getElem?_set]
  by_cases h : t = u
  · subst h
    by_cases hl : t < thr.length
    · simp [hl]
    · simp [hl]
  · simp [h]

theorem getT_of_getElem? {thr : List Thread} {t : Nat} {th : Thread} (h : thr[t]? = some th) : getT thr t = th := by
  simp [getT, List.getD_eq_getElem?_getD, h]

theorem lt_of_getElem? {thr : List Thread} {t : Nat} {th : Thread} (h : thr[t]? = some th) : t < thr.length :=
  (List.getElem?_eq_some_iff.mp h).1

theorem getElem_eq_getT {thr : List Thread} {t : Nat} (h : t < thr.length) : thr[t] = getT thr t := by
  simp [getT, List.getD_eq_getElem?_getD, List.getElem?_eq_getElem h]

theorem pcOf_eq (s : State) (t : Nat) : pcOf s t = (getT s.thr t).pc := by
  unfold pcOf getT
  simp only [List.getD_eq_getElem?_getD]
  cases s.thr[t]? <;> simp [dflt]

@[simp] theorem setThr_thr (s : State) (t : Nat) (x : Thread) : (setThr s t x).thr = s.thr.set t x := rfl
@[simp] theorem setThr_queue (s : State) (t : Nat) (x : Thread) : (setThr s t x).queue = s.queue := rfl
@[simp] theorem setThr_busy (s : State) (t : Nat) (x : Thread) : (setThr s t x).busy = s.busy := rfl
@[simp] theorem setThr_idle (s : State) (t : Nat) (x : Thread) : (setThr s t x).idle = s.idle := rfl
@[simp] theorem setThr_done (s : State) (t : Nat) (x : Thread) : (setThr s t x).done = s.done := rfl
@[simp] theorem setThr_term (s : State) (t : Nat) (x : Thread) : (setThr s t x).term = s.term := rfl
@[simp] theorem setThr_owner (s : State) (t : Nat) (x : Thread) : (setThr s t x).owner = s.owner := rfl
@[simp] theorem setThr_wJ (s : State) (t : Nat) (x : Thread) : (setThr s t x).wJ = s.wJ := rfl
@[simp] theorem setThr_wF (s : State) (t : Nat) (x : Thread) : (setThr s t x).wF = s.wF := rfl
@[simp] theorem setThr_nextId (s : State) (t : Nat) (x : Thread) : (setThr s t x).nextId = s.nextId := rfl
@[simp] theorem setThr_spawned (s : State) (t : Nat) (x : Thread) : (setThr s t x).spawned = s.spawned := rfl
@[simp] theorem setThr_started (s : State) (t : Nat) (x : Thread) : (setThr s t x).started = s.started := rfl
@[simp] theorem setThr_finished (s : State) (t : Nat) (x : Thread) : (setThr s t x).finished = s.finished := rfl
@[simp] theorem setThr_thrown (s : State) (t : Nat) (x : Thread) : (setThr s t x).thrown = s.thrown := rfl
@[simp] theorem setThr_destroyed (s : State) (t : Nat) (x : Thread) : (setThr s t x).destroyed = s.destroyed := rfl
@[simp] theorem setThr_dropped (s : State) (t : Nat) (x : Thread) : (setThr s t x).dropped = s.dropped := rfl

/-- unfold `step`, split all its branches, normalise the result state -/
syntax "pool_step_cases " ident : tactic
macro_rules
  | `(tactic| pool_step_cases $h) => `(tactic|
      (unfold step at $h:ident
       repeat' split at $h:ident
       all_goals (first | (simp [out, afterCall, beginScript] at $h:ident) | skip)
       all_goals (try (repeat' split at $h:ident))
       all_goals (try (simp only [Option.some.injEq] at $h:ident))
       all_goals (try subst $h:ident)))

/-! ### job bookkeeping -/

/-- the three ways a transition can touch the job bookkeeping -/
theorem jobs_step {cfg : Cfg} {s : State} {t c : Nat} {o} (h : step cfg s t c = some o) :
    (o.st.queue = s.queue ∧ o.st.started = s.started ∧ o.st.nextId = s.nextId) ∨
    (∃ code, o.st.queue = s.queue ++ [⟨s.nextId, code⟩] ∧ o.st.nextId = s.nextId + 1 ∧ o.st.started = s.started) ∨
    (∃ j q, s.queue = j :: q ∧ o.st.queue = q ∧ o.st.started = s.started ++ [j.id] ∧ o.st.nextId = s.nextId) := by
  pool_step_cases h
  all_goals (first
    | (left; simp; done)
    | (right; left; exact ⟨_, rfl, rfl, rfl⟩)
    | (right; right; exact ⟨_, _, by assumption, rfl, rfl, rfl⟩)
    | skip)

/-- job bookkeeping: the ids in the queue and the ids popped for execution are pairwise distinct and are
    exactly the ids handed out so far -/
def JobsInv (s : State) : Prop :=
  (s.queue.map (·.id) ++ s.started).Nodup ∧ ∀ id, id ∈ s.queue.map (·.id) ++ s.started ↔ id < s.nextId

theorem jobsInv_init (cfg : Cfg) : JobsInv (init cfg) := by
  simp [JobsInv, init]

theorem jobsInv_step {cfg : Cfg} {s : State} {t c : Nat} {o} (h : step cfg s t c = some o) (hi : JobsInv s) :
    JobsInv o.st := by
  obtain ⟨hnd, hmem⟩ := hi
  rcases jobs_step h with ⟨hq, hs, hn⟩ | ⟨code, hq, hn, hs⟩ | ⟨j, q, hq0, hq, hs, hn⟩
  · unfold JobsInv; rw [hq, hs, hn]; exact ⟨hnd, hmem⟩
  · unfold JobsInv; rw [hq, hs, hn]
    have hfresh : s.nextId ∉ s.queue.map (·.id) ++ s.started := by
      intro hc; have := (hmem _).mp hc; omega
    constructor
    · simp only [List.map_append, List.map_cons, List.map_nil, List.append_assoc, List.singleton_append]
      have hp : (List.map (·.id) s.queue ++ s.nextId :: s.started).Perm (s.nextId :: (List.map (·.id) s.queue ++ s.started)) :=
        List.perm_middle
      rw [hp.nodup_iff, List.nodup_cons]
      exact ⟨hfresh, hnd⟩
    · intro id
      have := hmem id
      simp only [List.map_append, List.map_cons, List.map_nil, List.mem_append, List.mem_cons, List.mem_singleton,
        List.not_mem_nil, or_false] at this ⊢
      constructor
      · rintro ((h1 | h1) | h1)
        · have := this.mp (Or.inl h1); omega
        · omega
        · have := this.mp (Or.inr h1); omega
      · intro hlt
        by_cases he : id = s.nextId
        · exact Or.inl (Or.inr he)
        · rcases this.mpr (by omega) with h1 | h1
          · exact Or.inl (Or.inl h1)
          · exact Or.inr h1
  · unfold JobsInv; rw [hq, hs, hn]
    rw [hq0] at hnd hmem
    have hp : (List.map (·.id) q ++ (s.started ++ [j.id])).Perm (List.map (·.id) (j :: q) ++ s.started) := by
      simp only [List.map_cons, List.cons_append]
      rw [← List.append_assoc]
      exact List.perm_append_singleton _ _
    constructor
    · rw [hp.nodup_iff]; exact hnd
    · intro id
      rw [hp.mem_iff]; exact hmem id

theorem reachable_jobsInv {cfg : Cfg} {s : State} (h : Reachable cfg s) : JobsInv s := by
  induction h with
  | init => exact jobsInv_init cfg
  | step _ hs ih => exact jobsInv_step hs ih



/-! ### classification of program counters (with one `rfl` simp lemma per constructor, so that the
    definitions never have to be unfolded on a variable) -/

def holdsC : CPc → Bool
  | .lock | .waiting => false
  | _ => true

/-- program counters at which the thread owns the pool mutex -/
def holds : Pc → Bool
  | .wLoadTerm1 | .wIdleInc | .wLoadTerm2 | .wWait | .wIdleDec | .wLoadTerm3 | .wBusyInc | .wUnlockRun
  | .wNotify | .wExitUnlock | .mDStore | .mDNotify | .mDUnlock => true
  | .call _ c => holdsC c
  | _ => false

/-- which program counters a thread of a given role can be at -/
def rolePc : Role → Pc → Bool
  | _, .start | _, .finished | _, .call _ _ => true
  | .main, .mCtor _ | .main, .mSpawn _ | .main, .mJoinC _ | .main, .mDLock | .main, .mDStore | .main, .mDNotify
  | .main, .mDUnlock | .main, .mDJoin _ => true
  | .worker, .wInit _ | .worker, .wLock | .worker, .wLoadTerm1 | .worker, .wIdleInc | .worker, .wLoadTerm2 | .worker, .wWait
  | .worker, .wWaiting | .worker, .wIdleDec | .worker, .wLoadTerm3 | .worker, .wBusyInc | .worker, .wUnlockRun
  | .worker, .wFence | .worker, .wDoneInc | .worker, .wBusyDec | .worker, .wRelock | .worker, .wNotify
  | .worker, .wExitUnlock => true
  | _, _ => false

/-- between `++busy_` and `--busy_` -/
def busyPc : Role → Pc → Bool
  | _, .wUnlockRun | _, .wFence | _, .wDoneInc | _, .wBusyDec => true
  | r, .call _ _ => r == .worker
  | _, _ => false

/-- a job has been popped and its body has not returned yet -/
def runPc : Role → Pc → Bool
  | _, .wUnlockRun => true
  | r, .call _ _ => r == .worker
  | _, _ => false

/-- the job body returned, `++done_` still to come -/
def pendPc : Pc → Bool
  | .wFence | .wDoneInc => true
  | _ => false

def inBusy (th : Thread) : Bool := busyPc th.role th.pc
def running (th : Thread) : Bool := runPc th.role th.pc
def pendDone (th : Thread) : Bool := pendPc th.pc

@[simp] theorem holdsC_lock : holdsC .lock = false := rfl
@[simp] theorem holdsC_enqNotify : holdsC .enqNotify = true := rfl
@[simp] theorem holdsC_tStore : holdsC .tStore = true := rfl
@[simp] theorem holdsC_tNotifyJ : holdsC .tNotifyJ = true := rfl
@[simp] theorem holdsC_tNotifyF : holdsC .tNotifyF = true := rfl
@[simp] theorem holdsC_loadTerm : holdsC .loadTerm = true := rfl
@[simp] theorem holdsC_loadBusy : holdsC .loadBusy = true := rfl
@[simp] theorem holdsC_wait : holdsC .wait = true := rfl
@[simp] theorem holdsC_waiting : holdsC .waiting = false := rfl
@[simp] theorem holdsC_fence : holdsC .fence = true := rfl
@[simp] theorem holdsC_unlock : holdsC .unlock = true := rfl
@[simp] theorem holds_start : holds .start = false := rfl
@[simp] theorem busyPc_start (r : Role) : busyPc r .start = false := by cases r <;> rfl
@[simp] theorem runPc_start (r : Role) : runPc r .start = false := by cases r <;> rfl
@[simp] theorem pendPc_start : pendPc .start = false := rfl
@[simp] theorem holds_finished : holds .finished = false := rfl
@[simp] theorem busyPc_finished (r : Role) : busyPc r .finished = false := by cases r <;> rfl
@[simp] theorem runPc_finished (r : Role) : runPc r .finished = false := by cases r <;> rfl
@[simp] theorem pendPc_finished : pendPc .finished = false := rfl
@[simp] theorem holds_wLock : holds .wLock = false := rfl
@[simp] theorem busyPc_wLock (r : Role) : busyPc r .wLock = false := by cases r <;> rfl
@[simp] theorem runPc_wLock (r : Role) : runPc r .wLock = false := by cases r <;> rfl
@[simp] theorem pendPc_wLock : pendPc .wLock = false := rfl
@[simp] theorem holds_wLoadTerm1 : holds .wLoadTerm1 = true := rfl
@[simp] theorem busyPc_wLoadTerm1 (r : Role) : busyPc r .wLoadTerm1 = false := by cases r <;> rfl
@[simp] theorem runPc_wLoadTerm1 (r : Role) : runPc r .wLoadTerm1 = false := by cases r <;> rfl
@[simp] theorem pendPc_wLoadTerm1 : pendPc .wLoadTerm1 = false := rfl
@[simp] theorem holds_wIdleInc : holds .wIdleInc = true := rfl
@[simp] theorem busyPc_wIdleInc (r : Role) : busyPc r .wIdleInc = false := by cases r <;> rfl
@[simp] theorem runPc_wIdleInc (r : Role) : runPc r .wIdleInc = false := by cases r <;> rfl
@[simp] theorem pendPc_wIdleInc : pendPc .wIdleInc = false := rfl
@[simp] theorem holds_wLoadTerm2 : holds .wLoadTerm2 = true := rfl
@[simp] theorem busyPc_wLoadTerm2 (r : Role) : busyPc r .wLoadTerm2 = false := by cases r <;> rfl
@[simp] theorem runPc_wLoadTerm2 (r : Role) : runPc r .wLoadTerm2 = false := by cases r <;> rfl
@[simp] theorem pendPc_wLoadTerm2 : pendPc .wLoadTerm2 = false := rfl
@[simp] theorem holds_wWait : holds .wWait = true := rfl
@[simp] theorem busyPc_wWait (r : Role) : busyPc r .wWait = false := by cases r <;> rfl
@[simp] theorem runPc_wWait (r : Role) : runPc r .wWait = false := by cases r <;> rfl
@[simp] theorem pendPc_wWait : pendPc .wWait = false := rfl
@[simp] theorem holds_wWaiting : holds .wWaiting = false := rfl
@[simp] theorem busyPc_wWaiting (r : Role) : busyPc r .wWaiting = false := by cases r <;> rfl
@[simp] theorem runPc_wWaiting (r : Role) : runPc r .wWaiting = false := by cases r <;> rfl
@[simp] theorem pendPc_wWaiting : pendPc .wWaiting = false := rfl
@[simp] theorem holds_wIdleDec : holds .wIdleDec = true := rfl
@[simp] theorem busyPc_wIdleDec (r : Role) : busyPc r .wIdleDec = false := by cases r <;> rfl
@[simp] theorem runPc_wIdleDec (r : Role) : runPc r .wIdleDec = false := by cases r <;> rfl
@[simp] theorem pendPc_wIdleDec : pendPc .wIdleDec = false := rfl
@[simp] theorem holds_wLoadTerm3 : holds .wLoadTerm3 = true := rfl
@[simp] theorem busyPc_wLoadTerm3 (r : Role) : busyPc r .wLoadTerm3 = false := by cases r <;> rfl
@[simp] theorem runPc_wLoadTerm3 (r : Role) : runPc r .wLoadTerm3 = false := by cases r <;> rfl
@[simp] theorem pendPc_wLoadTerm3 : pendPc .wLoadTerm3 = false := rfl
@[simp] theorem holds_wBusyInc : holds .wBusyInc = true := rfl
@[simp] theorem busyPc_wBusyInc (r : Role) : busyPc r .wBusyInc = false := by cases r <;> rfl
@[simp] theorem runPc_wBusyInc (r : Role) : runPc r .wBusyInc = false := by cases r <;> rfl
@[simp] theorem pendPc_wBusyInc : pendPc .wBusyInc = false := rfl
@[simp] theorem holds_wUnlockRun : holds .wUnlockRun = true := rfl
@[simp] theorem busyPc_wUnlockRun (r : Role) : busyPc r .wUnlockRun = true := by cases r <;> rfl
@[simp] theorem runPc_wUnlockRun (r : Role) : runPc r .wUnlockRun = true := by cases r <;> rfl
@[simp] theorem pendPc_wUnlockRun : pendPc .wUnlockRun = false := rfl
@[simp] theorem holds_wFence : holds .wFence = false := rfl
@[simp] theorem busyPc_wFence (r : Role) : busyPc r .wFence = true := by cases r <;> rfl
@[simp] theorem runPc_wFence (r : Role) : runPc r .wFence = false := by cases r <;> rfl
@[simp] theorem pendPc_wFence : pendPc .wFence = true := rfl
@[simp] theorem holds_wDoneInc : holds .wDoneInc = false := rfl
@[simp] theorem busyPc_wDoneInc (r : Role) : busyPc r .wDoneInc = true := by cases r <;> rfl
@[simp] theorem runPc_wDoneInc (r : Role) : runPc r .wDoneInc = false := by cases r <;> rfl
@[simp] theorem pendPc_wDoneInc : pendPc .wDoneInc = true := rfl
@[simp] theorem holds_wBusyDec : holds .wBusyDec = false := rfl
@[simp] theorem busyPc_wBusyDec (r : Role) : busyPc r .wBusyDec = true := by cases r <;> rfl
@[simp] theorem runPc_wBusyDec (r : Role) : runPc r .wBusyDec = false := by cases r <;> rfl
@[simp] theorem pendPc_wBusyDec : pendPc .wBusyDec = false := rfl
@[simp] theorem holds_wRelock : holds .wRelock = false := rfl
@[simp] theorem busyPc_wRelock (r : Role) : busyPc r .wRelock = false := by cases r <;> rfl
@[simp] theorem runPc_wRelock (r : Role) : runPc r .wRelock = false := by cases r <;> rfl
@[simp] theorem pendPc_wRelock : pendPc .wRelock = false := rfl
@[simp] theorem holds_wNotify : holds .wNotify = true := rfl
@[simp] theorem busyPc_wNotify (r : Role) : busyPc r .wNotify = false := by cases r <;> rfl
@[simp] theorem runPc_wNotify (r : Role) : runPc r .wNotify = false := by cases r <;> rfl
@[simp] theorem pendPc_wNotify : pendPc .wNotify = false := rfl
@[simp] theorem holds_wExitUnlock : holds .wExitUnlock = true := rfl
@[simp] theorem busyPc_wExitUnlock (r : Role) : busyPc r .wExitUnlock = false := by cases r <;> rfl
@[simp] theorem runPc_wExitUnlock (r : Role) : runPc r .wExitUnlock = false := by cases r <;> rfl
@[simp] theorem pendPc_wExitUnlock : pendPc .wExitUnlock = false := rfl
@[simp] theorem holds_mDLock : holds .mDLock = false := rfl
@[simp] theorem busyPc_mDLock (r : Role) : busyPc r .mDLock = false := by cases r <;> rfl
@[simp] theorem runPc_mDLock (r : Role) : runPc r .mDLock = false := by cases r <;> rfl
@[simp] theorem pendPc_mDLock : pendPc .mDLock = false := rfl
@[simp] theorem holds_mDStore : holds .mDStore = true := rfl
@[simp] theorem busyPc_mDStore (r : Role) : busyPc r .mDStore = false := by cases r <;> rfl
@[simp] theorem runPc_mDStore (r : Role) : runPc r .mDStore = false := by cases r <;> rfl
@[simp] theorem pendPc_mDStore : pendPc .mDStore = false := rfl
@[simp] theorem holds_mDNotify : holds .mDNotify = true := rfl
@[simp] theorem busyPc_mDNotify (r : Role) : busyPc r .mDNotify = false := by cases r <;> rfl
@[simp] theorem runPc_mDNotify (r : Role) : runPc r .mDNotify = false := by cases r <;> rfl
@[simp] theorem pendPc_mDNotify : pendPc .mDNotify = false := rfl
@[simp] theorem holds_mDUnlock : holds .mDUnlock = true := rfl
@[simp] theorem busyPc_mDUnlock (r : Role) : busyPc r .mDUnlock = false := by cases r <;> rfl
@[simp] theorem runPc_mDUnlock (r : Role) : runPc r .mDUnlock = false := by cases r <;> rfl
@[simp] theorem pendPc_mDUnlock : pendPc .mDUnlock = false := rfl
@[simp] theorem holds_mCtor (i : Nat) : holds (.mCtor i) = false := rfl
@[simp] theorem busyPc_mCtor (r : Role) (i : Nat) : busyPc r (.mCtor i) = false := by cases r <;> rfl
@[simp] theorem runPc_mCtor (r : Role) (i : Nat) : runPc r (.mCtor i) = false := by cases r <;> rfl
@[simp] theorem pendPc_mCtor (i : Nat) : pendPc (.mCtor i) = false := rfl
@[simp] theorem holds_mSpawn (i : Nat) : holds (.mSpawn i) = false := rfl
@[simp] theorem busyPc_mSpawn (r : Role) (i : Nat) : busyPc r (.mSpawn i) = false := by cases r <;> rfl
@[simp] theorem runPc_mSpawn (r : Role) (i : Nat) : runPc r (.mSpawn i) = false := by cases r <;> rfl
@[simp] theorem pendPc_mSpawn (i : Nat) : pendPc (.mSpawn i) = false := rfl
@[simp] theorem holds_mJoinC (i : Nat) : holds (.mJoinC i) = false := rfl
@[simp] theorem busyPc_mJoinC (r : Role) (i : Nat) : busyPc r (.mJoinC i) = false := by cases r <;> rfl
@[simp] theorem runPc_mJoinC (r : Role) (i : Nat) : runPc r (.mJoinC i) = false := by cases r <;> rfl
@[simp] theorem pendPc_mJoinC (i : Nat) : pendPc (.mJoinC i) = false := rfl
@[simp] theorem holds_mDJoin (i : Nat) : holds (.mDJoin i) = false := rfl
@[simp] theorem busyPc_mDJoin (r : Role) (i : Nat) : busyPc r (.mDJoin i) = false := by cases r <;> rfl
@[simp] theorem runPc_mDJoin (r : Role) (i : Nat) : runPc r (.mDJoin i) = false := by cases r <;> rfl
@[simp] theorem pendPc_mDJoin (i : Nat) : pendPc (.mDJoin i) = false := rfl
@[simp] theorem holds_wInit (i : Nat) : holds (.wInit i) = false := rfl
@[simp] theorem busyPc_wInit (r : Role) (i : Nat) : busyPc r (.wInit i) = false := by cases r <;> rfl
@[simp] theorem runPc_wInit (r : Role) (i : Nat) : runPc r (.wInit i) = false := by cases r <;> rfl
@[simp] theorem pendPc_wInit (i : Nat) : pendPc (.wInit i) = false := rfl
@[simp] theorem rolePc_wInit (r : Role) (i : Nat) : rolePc r (.wInit i) = (r == .worker) := by cases r <;> rfl
@[simp] theorem holds_call (k : Nat) (c : CPc) : holds (.call k c) = holdsC c := rfl
@[simp] theorem busyPc_call (r : Role) (k : Nat) (c : CPc) : busyPc r (.call k c) = (r == .worker) := by cases r <;> rfl
@[simp] theorem runPc_call (r : Role) (k : Nat) (c : CPc) : runPc r (.call k c) = (r == .worker) := by cases r <;> rfl
@[simp] theorem pendPc_call (k : Nat) (c : CPc) : pendPc (.call k c) = false := rfl
@[simp] theorem rolePc_start (r : Role) : rolePc r .start = true := by cases r <;> rfl
@[simp] theorem rolePc_finished (r : Role) : rolePc r .finished = true := by cases r <;> rfl
@[simp] theorem rolePc_wLock (r : Role) : rolePc r .wLock = (r == .worker) := by cases r <;> rfl
@[simp] theorem rolePc_wLoadTerm1 (r : Role) : rolePc r .wLoadTerm1 = (r == .worker) := by cases r <;> rfl
@[simp] theorem rolePc_wIdleInc (r : Role) : rolePc r .wIdleInc = (r == .worker) := by cases r <;> rfl
@[simp] theorem rolePc_wLoadTerm2 (r : Role) : rolePc r .wLoadTerm2 = (r == .worker) := by cases r <;> rfl
@[simp] theorem rolePc_wWait (r : Role) : rolePc r .wWait = (r == .worker) := by cases r <;> rfl
@[simp] theorem rolePc_wWaiting (r : Role) : rolePc r .wWaiting = (r == .worker) := by cases r <;> rfl
@[simp] theorem rolePc_wIdleDec (r : Role) : rolePc r .wIdleDec = (r == .worker) := by cases r <;> rfl
@[simp] theorem rolePc_wLoadTerm3 (r : Role) : rolePc r .wLoadTerm3 = (r == .worker) := by cases r <;> rfl
@[simp] theorem rolePc_wBusyInc (r : Role) : rolePc r .wBusyInc = (r == .worker) := by cases r <;> rfl
@[simp] theorem rolePc_wUnlockRun (r : Role) : rolePc r .wUnlockRun = (r == .worker) := by cases r <;> rfl
@[simp] theorem rolePc_wFence (r : Role) : rolePc r .wFence = (r == .worker) := by cases r <;> rfl
@[simp] theorem rolePc_wDoneInc (r : Role) : rolePc r .wDoneInc = (r == .worker) := by cases r <;> rfl
@[simp] theorem rolePc_wBusyDec (r : Role) : rolePc r .wBusyDec = (r == .worker) := by cases r <;> rfl
@[simp] theorem rolePc_wRelock (r : Role) : rolePc r .wRelock = (r == .worker) := by cases r <;> rfl
@[simp] theorem rolePc_wNotify (r : Role) : rolePc r .wNotify = (r == .worker) := by cases r <;> rfl
@[simp] theorem rolePc_wExitUnlock (r : Role) : rolePc r .wExitUnlock = (r == .worker) := by cases r <;> rfl
@[simp] theorem rolePc_mDLock (r : Role) : rolePc r .mDLock = (r == .main) := by cases r <;> rfl
@[simp] theorem rolePc_mDStore (r : Role) : rolePc r .mDStore = (r == .main) := by cases r <;> rfl
@[simp] theorem rolePc_mDNotify (r : Role) : rolePc r .mDNotify = (r == .main) := by cases r <;> rfl
@[simp] theorem rolePc_mDUnlock (r : Role) : rolePc r .mDUnlock = (r == .main) := by cases r <;> rfl
@[simp] theorem rolePc_mCtor (r : Role) (i : Nat) : rolePc r (.mCtor i) = (r == .main) := by cases r <;> rfl
@[simp] theorem rolePc_mSpawn (r : Role) (i : Nat) : rolePc r (.mSpawn i) = (r == .main) := by cases r <;> rfl
@[simp] theorem rolePc_mJoinC (r : Role) (i : Nat) : rolePc r (.mJoinC i) = (r == .main) := by cases r <;> rfl
@[simp] theorem rolePc_mDJoin (r : Role) (i : Nat) : rolePc r (.mDJoin i) = (r == .main) := by cases r <;> rfl
@[simp] theorem rolePc_call (r : Role) (k : Nat) (c : CPc) : rolePc r (.call k c) = true := by cases r <;> rfl

@[simp] theorem inBusy_mk (r : Role) (pc : Pc) (j : Option Job) : inBusy { role := r, pc := pc, job := j } = busyPc r pc := rfl
@[simp] theorem running_mk (r : Role) (pc : Pc) (j : Option Job) : running { role := r, pc := pc, job := j } = runPc r pc := rfl
@[simp] theorem pendDone_mk (r : Role) (pc : Pc) (j : Option Job) : pendDone { role := r, pc := pc, job := j } = pendPc pc := rfl
@[simp] theorem jobId_mk (r : Role) (pc : Pc) (j : Option Job) : jobId { role := r, pc := pc, job := j } = (j.map (·.id)).getD 0 := rfl


/-! helper continuations -/
@[simp] theorem holds_mainJoinPc (cfg : Cfg) : holds (mainJoinPc cfg) = false := by unfold mainJoinPc; split <;> rfl
@[simp] theorem holds_mainScriptPc (cfg : Cfg) : holds (mainScriptPc cfg) = false := by
  unfold mainScriptPc; split <;> simp
@[simp] theorem endOfScript_role (cfg : Cfg) (th : Thread) : (endOfScript cfg th).role = th.role := by
  unfold endOfScript; cases th.role <;> rfl
@[simp] theorem endOfScript_job (cfg : Cfg) (th : Thread) : (endOfScript cfg th).job = th.job := by
  unfold endOfScript; cases th.role <;> rfl
@[simp] theorem holds_endOfScript (cfg : Cfg) (th : Thread) : holds (endOfScript cfg th).pc = false := by
  unfold endOfScript; cases th.role <;> simp
@[simp] theorem holdsC_predEntry (s : State) (a : Act) : holdsC (predEntry s a) = true := by
  unfold predEntry; cases a <;> simp <;> split <;> rfl
theorem mainJoinPc_cases (cfg : Cfg) : mainJoinPc cfg = .mDLock ∨ mainJoinPc cfg = .mJoinC 0 := by
  unfold mainJoinPc; split <;> simp
theorem mainScriptPc_cases (cfg : Cfg) : mainScriptPc cfg = .mDLock ∨ mainScriptPc cfg = .mJoinC 0 ∨ mainScriptPc cfg = .call 0 .lock := by
  unfold mainScriptPc; split
  · rcases mainJoinPc_cases cfg with h | h <;> simp [h]
  · simp
@[simp] theorem rolePc_mainJoinPc (cfg : Cfg) : rolePc .main (mainJoinPc cfg) = true := by
  rcases mainJoinPc_cases cfg with h | h <;> simp [h]
@[simp] theorem rolePc_mainScriptPc (cfg : Cfg) : rolePc .main (mainScriptPc cfg) = true := by
  rcases mainScriptPc_cases cfg with h | h | h <;> simp [h]
@[simp] theorem busyPc_mainJoinPc (cfg : Cfg) : busyPc .main (mainJoinPc cfg) = false := by
  rcases mainJoinPc_cases cfg with h | h <;> simp [h]
@[simp] theorem busyPc_mainScriptPc (cfg : Cfg) : busyPc .main (mainScriptPc cfg) = false := by
  rcases mainScriptPc_cases cfg with h | h | h <;> simp [h]
@[simp] theorem runPc_mainJoinPc (cfg : Cfg) : runPc .main (mainJoinPc cfg) = false := by
  rcases mainJoinPc_cases cfg with h | h <;> simp [h]
@[simp] theorem runPc_mainScriptPc (cfg : Cfg) : runPc .main (mainScriptPc cfg) = false := by
  rcases mainScriptPc_cases cfg with h | h | h <;> simp [h]
@[simp] theorem pendPc_mainJoinPc (cfg : Cfg) : pendPc (mainJoinPc cfg) = false := by
  rcases mainJoinPc_cases cfg with h | h <;> simp [h]
@[simp] theorem pendPc_mainScriptPc (cfg : Cfg) : pendPc (mainScriptPc cfg) = false := by
  rcases mainScriptPc_cases cfg with h | h | h <;> simp [h]


@[simp] theorem rolePc_endOfScript (cfg : Cfg) (th : Thread) : rolePc th.role (endOfScript cfg th).pc = true := by
  unfold endOfScript; cases th.role <;> simp
theorem rolePc_endOfScript' (cfg : Cfg) (th : Thread) (r : Role) (h : th.role = r) : rolePc r (endOfScript cfg th).pc = true := by
  subst h; simp
/-- the pc at the end of a script, by role -/
theorem endOfScript_pc_worker (cfg : Cfg) (th : Thread) (h : th.role = .worker) : (endOfScript cfg th).pc = .wFence := by
  unfold endOfScript; simp [h]
theorem endOfScript_pc_client (cfg : Cfg) (th : Thread) (i : Nat) (h : th.role = .client i) : (endOfScript cfg th).pc = .finished := by
  unfold endOfScript; simp [h]
theorem endOfScript_pc_main (cfg : Cfg) (th : Thread) (h : th.role = .main) : (endOfScript cfg th).pc = mainJoinPc cfg := by
  unfold endOfScript; simp [h]


theorem busyPc_endOfScript (cfg : Cfg) (th : Thread) (r : Role) (h : th.role = r) :
    busyPc r (endOfScript cfg th).pc = (r == .worker) := by
  subst h; unfold endOfScript; cases hr : th.role <;> simp [hr]
theorem runPc_endOfScript (cfg : Cfg) (th : Thread) (r : Role) (h : th.role = r) :
    runPc r (endOfScript cfg th).pc = false := by
  subst h; unfold endOfScript; cases hr : th.role <;> simp [hr]
theorem pendPc_endOfScript (cfg : Cfg) (th : Thread) : pendPc (endOfScript cfg th).pc = (th.role == .worker) := by
  unfold endOfScript; cases hr : th.role <;> simp [hr]

/-! ### mutual exclusion, busy / done / running accounting -/

theorem countP_set {α : Type} (p : α → Bool) (x : α) :
    ∀ (l : List α) (t : Nat) (h : t < l.length),
      List.countP p (l.set t x) + (if p l[t] then 1 else 0) = List.countP p l + (if p x then 1 else 0)
  | [], t, h => by simp at h
  | a :: l, 0, _ => by
    simp only [List.set_cons_zero, List.countP_cons, List.getElem_cons_zero]
    omega
  | a :: l, t + 1, h => by
    have ih := countP_set p x l t (by simpa using h)
    simp only [List.set_cons_succ, List.countP_cons, List.getElem_cons_succ]
    omega

/-- which sub-pcs belong to which call -/
def cpcOk : Act → CPc → Bool
  | _, .lock | _, .unlock => true
  | .enq _, .enqNotify => true
  | .term, .tStore | .term, .tNotifyJ | .term, .tNotifyF => true
  | .lue, .loadBusy | .lue, .wait | .lue, .waiting | .lue, .fence => true
  | .lut, .loadTerm | .lut, .loadBusy | .lut, .wait | .lut, .waiting | .lut, .fence => true
  | _, _ => false

@[simp] theorem cpcOk_lock (a : Act) : cpcOk a .lock = true := by cases a <;> rfl
@[simp] theorem cpcOk_enq_enqNotify (n : Nat) : cpcOk (.enq n) .enqNotify = true := rfl
@[simp] theorem cpcOk_term_enqNotify : cpcOk .term .enqNotify = false := rfl
@[simp] theorem cpcOk_lue_enqNotify : cpcOk .lue .enqNotify = false := rfl
@[simp] theorem cpcOk_lut_enqNotify : cpcOk .lut .enqNotify = false := rfl
@[simp] theorem cpcOk_enq_tStore (n : Nat) : cpcOk (.enq n) .tStore = false := rfl
@[simp] theorem cpcOk_term_tStore : cpcOk .term .tStore = true := rfl
@[simp] theorem cpcOk_lue_tStore : cpcOk .lue .tStore = false := rfl
@[simp] theorem cpcOk_lut_tStore : cpcOk .lut .tStore = false := rfl
@[simp] theorem cpcOk_enq_tNotifyJ (n : Nat) : cpcOk (.enq n) .tNotifyJ = false := rfl
@[simp] theorem cpcOk_term_tNotifyJ : cpcOk .term .tNotifyJ = true := rfl
@[simp] theorem cpcOk_lue_tNotifyJ : cpcOk .lue .tNotifyJ = false := rfl
@[simp] theorem cpcOk_lut_tNotifyJ : cpcOk .lut .tNotifyJ = false := rfl
@[simp] theorem cpcOk_enq_tNotifyF (n : Nat) : cpcOk (.enq n) .tNotifyF = false := rfl
@[simp] theorem cpcOk_term_tNotifyF : cpcOk .term .tNotifyF = true := rfl
@[simp] theorem cpcOk_lue_tNotifyF : cpcOk .lue .tNotifyF = false := rfl
@[simp] theorem cpcOk_lut_tNotifyF : cpcOk .lut .tNotifyF = false := rfl
@[simp] theorem cpcOk_enq_loadTerm (n : Nat) : cpcOk (.enq n) .loadTerm = false := rfl
@[simp] theorem cpcOk_term_loadTerm : cpcOk .term .loadTerm = false := rfl
@[simp] theorem cpcOk_lue_loadTerm : cpcOk .lue .loadTerm = false := rfl
@[simp] theorem cpcOk_lut_loadTerm : cpcOk .lut .loadTerm = true := rfl
@[simp] theorem cpcOk_enq_loadBusy (n : Nat) : cpcOk (.enq n) .loadBusy = false := rfl
@[simp] theorem cpcOk_term_loadBusy : cpcOk .term .loadBusy = false := rfl
@[simp] theorem cpcOk_lue_loadBusy : cpcOk .lue .loadBusy = true := rfl
@[simp] theorem cpcOk_lut_loadBusy : cpcOk .lut .loadBusy = true := rfl
@[simp] theorem cpcOk_enq_wait (n : Nat) : cpcOk (.enq n) .wait = false := rfl
@[simp] theorem cpcOk_term_wait : cpcOk .term .wait = false := rfl
@[simp] theorem cpcOk_lue_wait : cpcOk .lue .wait = true := rfl
@[simp] theorem cpcOk_lut_wait : cpcOk .lut .wait = true := rfl
@[simp] theorem cpcOk_enq_waiting (n : Nat) : cpcOk (.enq n) .waiting = false := rfl
@[simp] theorem cpcOk_term_waiting : cpcOk .term .waiting = false := rfl
@[simp] theorem cpcOk_lue_waiting : cpcOk .lue .waiting = true := rfl
@[simp] theorem cpcOk_lut_waiting : cpcOk .lut .waiting = true := rfl
@[simp] theorem cpcOk_enq_fence (n : Nat) : cpcOk (.enq n) .fence = false := rfl
@[simp] theorem cpcOk_term_fence : cpcOk .term .fence = false := rfl
@[simp] theorem cpcOk_lue_fence : cpcOk .lue .fence = true := rfl
@[simp] theorem cpcOk_lut_fence : cpcOk .lut .fence = true := rfl
@[simp] theorem cpcOk_unlock (a : Act) : cpcOk a .unlock = true := by cases a <;> rfl

@[simp] theorem cpcOk_obsDone_enqNotify : cpcOk .obsDone .enqNotify = false := rfl
@[simp] theorem cpcOk_obsDone_tStore : cpcOk .obsDone .tStore = false := rfl
@[simp] theorem cpcOk_obsDone_tNotifyJ : cpcOk .obsDone .tNotifyJ = false := rfl
@[simp] theorem cpcOk_obsDone_tNotifyF : cpcOk .obsDone .tNotifyF = false := rfl
@[simp] theorem cpcOk_obsDone_loadTerm : cpcOk .obsDone .loadTerm = false := rfl
@[simp] theorem cpcOk_obsDone_loadBusy : cpcOk .obsDone .loadBusy = false := rfl
@[simp] theorem cpcOk_obsDone_wait : cpcOk .obsDone .wait = false := rfl
@[simp] theorem cpcOk_obsDone_waiting : cpcOk .obsDone .waiting = false := rfl
@[simp] theorem cpcOk_obsDone_fence : cpcOk .obsDone .fence = false := rfl
@[simp] theorem cpcOk_obsIdle_enqNotify : cpcOk .obsIdle .enqNotify = false := rfl
@[simp] theorem cpcOk_obsIdle_tStore : cpcOk .obsIdle .tStore = false := rfl
@[simp] theorem cpcOk_obsIdle_tNotifyJ : cpcOk .obsIdle .tNotifyJ = false := rfl
@[simp] theorem cpcOk_obsIdle_tNotifyF : cpcOk .obsIdle .tNotifyF = false := rfl
@[simp] theorem cpcOk_obsIdle_loadTerm : cpcOk .obsIdle .loadTerm = false := rfl
@[simp] theorem cpcOk_obsIdle_loadBusy : cpcOk .obsIdle .loadBusy = false := rfl
@[simp] theorem cpcOk_obsIdle_wait : cpcOk .obsIdle .wait = false := rfl
@[simp] theorem cpcOk_obsIdle_waiting : cpcOk .obsIdle .waiting = false := rfl
@[simp] theorem cpcOk_obsIdle_fence : cpcOk .obsIdle .fence = false := rfl
@[simp] theorem cpcOk_throw_enqNotify : cpcOk .throw .enqNotify = false := rfl
@[simp] theorem cpcOk_throw_tStore : cpcOk .throw .tStore = false := rfl
@[simp] theorem cpcOk_throw_tNotifyJ : cpcOk .throw .tNotifyJ = false := rfl
@[simp] theorem cpcOk_throw_tNotifyF : cpcOk .throw .tNotifyF = false := rfl
@[simp] theorem cpcOk_throw_loadTerm : cpcOk .throw .loadTerm = false := rfl
@[simp] theorem cpcOk_throw_loadBusy : cpcOk .throw .loadBusy = false := rfl
@[simp] theorem cpcOk_throw_wait : cpcOk .throw .wait = false := rfl
@[simp] theorem cpcOk_throw_waiting : cpcOk .throw .waiting = false := rfl
@[simp] theorem cpcOk_throw_fence : cpcOk .throw .fence = false := rfl

/-- a thread inside a call is at a sub-pc of that call -/
def callOkP (cfg : Cfg) (th : Thread) : Pc → Bool
  | .call k c => match (script cfg th)[k]? with
    | some a => cpcOk a c
    | none => false
  | _ => true

def callOk (cfg : Cfg) (th : Thread) : Prop := callOkP cfg th th.pc = true

theorem callOk_call {cfg : Cfg} {th : Thread} (h : callOk cfg th) {k : Nat} {c : CPc} (hp : th.pc = .call k c) :
    ∃ a, (script cfg th)[k]? = some a ∧ cpcOk a c = true := by
  unfold callOk at h
  rw [hp] at h
  simp only [callOkP] at h
  cases hs : (script cfg th)[k]? with
  | none => simp [hs] at h
  | some a => simp [hs] at h; exact ⟨a, rfl, h⟩

structure InvB (cfg : Cfg) (s : State) : Prop where
  call : ∀ t, callOk cfg (getT s.thr t)
  mutex : ∀ t, (holds (getT s.thr t).pc = true ↔ s.owner = some t)
  role : ∀ t, rolePc (getT s.thr t).role (getT s.thr t).pc = true
  busy : s.busy = s.thr.countP inBusy
  done : s.done + s.thr.countP pendDone = s.destroyed.length
  run : ∀ id, id ∈ s.started → id ∈ s.destroyed ∨ ∃ w, running (getT s.thr w) = true ∧ jobId (getT s.thr w) = id
  runCnt : s.started.length = s.destroyed.length + s.thr.countP running
  lueQ' : ∀ t k, (getT s.thr t).pc = .call k .loadBusy → (script cfg (getT s.thr t))[k]? = some .lue → s.queue = []
  lueQ : ∀ t k, ((getT s.thr t).pc = .call k .fence ∨ (getT s.thr t).pc = .call k .unlock) →
    (script cfg (getT s.thr t))[k]? = some .lue → s.queue = [] ∧ s.busy = 0

theorem mutex_step {cfg : Cfg} {s : State} {t c : Nat} {o} (h : step cfg s t c = some o) (hi : InvB cfg s) :
    ∀ u, (holds (getT o.st.thr u).pc = true ↔ o.st.owner = some u) := by
  have hm := hi.mutex
  pool_step_cases h
  all_goals (
    have hlt := lt_of_getElem? ‹s.thr[t]? = some _›
    have hth := getT_of_getElem? ‹s.thr[t]? = some _›
    intro u
    have hu := hm u
    have ht := hm t
    simp only [setThr_thr, getT_set]
    by_cases hut : t = u <;> simp_all)

theorem role_step {cfg : Cfg} {s : State} {t c : Nat} {o} (h : step cfg s t c = some o) (hi : InvB cfg s) :
    ∀ u, rolePc (getT o.st.thr u).role (getT o.st.thr u).pc = true := by
  have hr := hi.role
  pool_step_cases h
  all_goals (
    have hlt := lt_of_getElem? ‹s.thr[t]? = some _›
    have hth := getT_of_getElem? ‹s.thr[t]? = some _›
    intro u
    have hu := hr u
    have ht := hr t
    simp only [setThr_thr, getT_set]
    by_cases hut : t = u <;> simp_all)
  all_goals (first | (exact rolePc_endOfScript' _ _ _ (by assumption)) | (exact rolePc_endOfScript _ _))

theorem countP_set' {α : Type} (p : α → Bool) (l : List α) (t : Nat) (x : α) (h : t < l.length) :
    List.countP p (l.set t x) = List.countP p l + (if p x then 1 else 0) - (if p l[t] then 1 else 0) := by
  have := countP_set p x l t h
  omega

theorem busy_step {cfg : Cfg} {s : State} {t c : Nat} {o} (h : step cfg s t c = some o) (hi : InvB cfg s) :
    o.st.busy = o.st.thr.countP inBusy := by
  have hb := hi.busy
  have hr := hi.role t
  pool_step_cases h
  all_goals (
    have hlt := lt_of_getElem? ‹s.thr[t]? = some _›
    have hth := getT_of_getElem? ‹s.thr[t]? = some _›
    have hge := getElem_eq_getT hlt
    simp only [setThr_thr]
    rw [countP_set' _ _ _ _ hlt, hge, hth]
    rw [hth] at hr
    simp_all [inBusy])
  all_goals (first
    | (rw [busyPc_endOfScript _ _ _ (by assumption)]; simp; done)
    | (rw [busyPc_endOfScript _ _ _ (by assumption)]; simp; omega)
    | (subst hth; rw [busyPc_endOfScript _ _ _ rfl]; cases (getT s.thr t).role <;> simp))

theorem one_le_countP {α : Type} (p : α → Bool) (l : List α) (t : Nat) (h : t < l.length) (hp : p l[t] = true) :
    1 ≤ List.countP p l :=
  List.countP_pos_iff.mpr ⟨l[t], List.getElem_mem h, hp⟩

theorem done_step {cfg : Cfg} {s : State} {t c : Nat} {o} (h : step cfg s t c = some o) (hi : InvB cfg s) :
    o.st.done + o.st.thr.countP pendDone = o.st.destroyed.length := by
  have hb := hi.done
  have hr := hi.role t
  pool_step_cases h
  all_goals (
    have hlt := lt_of_getElem? ‹s.thr[t]? = some _›
    have hth := getT_of_getElem? ‹s.thr[t]? = some _›
    have hge := getElem_eq_getT hlt
    simp only [setThr_thr]
    rw [countP_set' _ _ _ _ hlt, hge, hth]
    rw [hth] at hr
    simp_all [pendDone, endOfScriptDes])
  all_goals (first
    | (have := one_le_countP pendDone s.thr t hlt (by rw [hge]; simp [pendDone, *]); omega)
    | (subst hth
       simp only [pendPc_endOfScript]
       unfold endOfScriptDes at *
       cases hrole : (getT s.thr t).role <;> simp_all <;> omega))


theorem runCnt_step {cfg : Cfg} {s : State} {t c : Nat} {o} (h : step cfg s t c = some o) (hi : InvB cfg s) :
    o.st.started.length = o.st.destroyed.length + o.st.thr.countP running := by
  have hb := hi.runCnt
  have hr := hi.role t
  pool_step_cases h
  all_goals (
    have hlt := lt_of_getElem? ‹s.thr[t]? = some _›
    have hth := getT_of_getElem? ‹s.thr[t]? = some _›
    have hge := getElem_eq_getT hlt
    simp only [setThr_thr]
    rw [countP_set' _ _ _ _ hlt, hge, hth]
    rw [hth] at hr
    simp_all [running, endOfScriptDes])
  all_goals (first
    | omega
    | (rw [runPc_endOfScript _ _ _ (by assumption)]; done)
    | skip)
  · -- empty job body: popped and finished in one step
    have h1 := one_le_countP running s.thr t hlt (by rw [hge]; simp [running, *])
    simp only [runPc_endOfScript _ _ _ hr]
    simp; omega
  all_goals (
    have h1 : (getT s.thr t).role = .worker → 1 ≤ List.countP running s.thr := by
      intro hw
      exact one_le_countP running s.thr t hlt (by rw [hge]; simp [running, *]; rw [← hth]; simp [hw])
    subst hth
    simp only [runPc_endOfScript _ _ _ rfl]
    cases hrole : (getT s.thr t).role <;> (try have h1' := h1 hrole) <;> simp [hrole] <;> omega)


theorem run_step {cfg : Cfg} {s : State} {t c : Nat} {o} (h : step cfg s t c = some o) (hi : InvB cfg s) :
    ∀ id, id ∈ o.st.started → id ∈ o.st.destroyed ∨ ∃ w, running (getT o.st.thr w) = true ∧ jobId (getT o.st.thr w) = id := by
  have hrun := hi.run
  have hr := hi.role t
  pool_step_cases h
  all_goals (
    have hlt := lt_of_getElem? ‹s.thr[t]? = some _›
    have hth := getT_of_getElem? ‹s.thr[t]? = some _›
    rw [hth] at hr)
  all_goals (first
    | (intro id hid
       have hid' : id ∈ s.started := hid
       rcases hrun id hid' with hf | ⟨w, hw, hj⟩
       · left; exact hf
       · right
         refine ⟨w, ?_, ?_⟩
         · simp only [setThr_thr, getT_set]
           by_cases hwt : t = w
           · subst hwt; rw [hth] at hw; simp_all [running]; done
           · simp only [hwt, false_and, if_false]; exact hw
         · simp only [setThr_thr, getT_set]
           by_cases hwt : t = w
           · subst hwt; rw [hth] at hj hw; simp_all [running, jobId]; done
           · simp only [hwt, false_and, if_false]; exact hj)
    | skip)
  · -- a client with an empty script
    intro id hid
    have hid' : id ∈ s.started := hid
    have hfin : endOfScriptDes s ‹Thread› = s.destroyed := by unfold endOfScriptDes; simp [*]
    rcases hrun id hid' with hf | ⟨w, hw, hj⟩
    · left; simp only [hfin]; exact hf
    · right
      have hwt : ¬ t = w := by
        intro hwt; subst hwt; rw [hth] at hw; simp_all [running]
      exact ⟨w, by simp only [setThr_thr, getT_set, hwt, false_and, if_false]; exact hw,
                by simp only [setThr_thr, getT_set, hwt, false_and, if_false]; exact hj⟩
  · -- pop: the worker now runs the job it took from the queue
    intro id hid
    simp only [List.mem_append, List.mem_singleton] at hid
    rcases hid with hid | hid
    · rcases hrun id hid with hf | ⟨w, hw, hj⟩
      · left; exact hf
      · right
        have hwt : ¬ t = w := by
          intro hwt; subst hwt; rw [hth] at hw; simp_all [running]
        exact ⟨w, by simp only [setThr_thr, getT_set, hwt, false_and, if_false]; exact hw,
                  by simp only [setThr_thr, getT_set, hwt, false_and, if_false]; exact hj⟩
    · right
      exact ⟨t, by simp [getT_set, hlt], by simp [getT_set, hlt, hid]⟩
  -- a job body returns (empty body, or the return of its last call): the job is recorded as finished
  all_goals (
    intro id hid
    have hid' : id ∈ s.started := hid
    rcases hrun id hid' with hf | ⟨w, hw, hj⟩
    · left
      unfold endOfScriptDes
      split <;> simp [hf]
    · by_cases hwt : t = w
      · subst hwt
        left
        rw [hth] at hw hj
        have hrw : ‹Thread›.role = .worker := by simp_all [running]
        unfold endOfScriptDes
        simp [hrw, hj]
      · right
        exact ⟨w, by simp only [setThr_thr, getT_set, hwt, false_and, if_false]; exact hw,
                  by simp only [setThr_thr, getT_set, hwt, false_and, if_false]; exact hj⟩)



@[simp] theorem mainJoinPc_ne_call (cfg : Cfg) (k : Nat) (c : CPc) : (mainJoinPc cfg = .call k c) = False := by
  rcases mainJoinPc_cases cfg with h | h <;> simp [h]
@[simp] theorem endOfScript_pc_ne_call (cfg : Cfg) (th : Thread) (k : Nat) (c : CPc) :
    ((endOfScript cfg th).pc = .call k c) = False := by
  unfold endOfScript; cases th.role <;> simp
theorem mainScriptPc_eq_call {cfg : Cfg} {k : Nat} {c : CPc} (h : mainScriptPc cfg = .call k c) : k = 0 ∧ c = .lock := by
  rcases mainScriptPc_cases cfg with h' | h' | h' <;> rw [h'] at h <;> simp_all
@[simp] theorem mainScriptPc_ne_call (cfg : Cfg) (k : Nat) (c : CPc) (hc : c ≠ .lock) : (mainScriptPc cfg = .call k c) = False := by
  simp only [eq_iff_iff, iff_false]
  intro h; exact hc (mainScriptPc_eq_call h).2
@[simp] theorem script_mk_pc (cfg : Cfg) (th : Thread) (pc : Pc) :
    script cfg { role := th.role, pc := pc, job := th.job } = script cfg th := rfl
@[simp] theorem script_endOfScript (cfg : Cfg) (th : Thread) : script cfg (endOfScript cfg th) = script cfg th := by
  unfold script bodyScript dtorScript fullScript; simp
@[simp] theorem throws_mk_pc (cfg : Cfg) (th : Thread) (pc : Pc) :
    throws cfg { role := th.role, pc := pc, job := th.job } = throws cfg th := rfl


theorem mainScriptPc_eq_call' {cfg : Cfg} {k : Nat} {c : CPc} (h : mainScriptPc cfg = .call k c) :
    k = 0 ∧ c = .lock ∧ ∃ a, (mainScript cfg)[0]? = some a := by
  unfold mainScriptPc at h
  split at h
  · simp at h
  · rename_i hne
    simp at h
    refine ⟨h.1.symm, h.2.symm, ?_⟩
    cases hm : mainScript cfg with
    | nil => simp [hm] at hne
    | cons a l => exact ⟨a, rfl⟩
theorem script_main (cfg : Cfg) (th : Thread) (h : th.role = .main) : script cfg th = mainScript cfg := by
  unfold script bodyScript dtorScript fullScript mainScript; simp [h]
theorem getElem?_zero_of_ne_nil {α : Type} {l : List α} (h : ¬ l = []) : ∃ a, l[0]? = some a := by
  cases l with
  | nil => exact absurd rfl h
  | cons a l => exact ⟨a, rfl⟩
theorem getElem?_of_lt {α : Type} {l : List α} {k : Nat} (h : k < l.length) : ∃ a, l[k]? = some a :=
  ⟨l[k], List.getElem?_eq_getElem h⟩


@[simp] theorem cpcOk_predEntry_lue (s : State) : cpcOk .lue (predEntry s .lue) = true := by
  unfold predEntry; simp; split <;> simp
@[simp] theorem cpcOk_predEntry_lut (s : State) : cpcOk .lut (predEntry s .lut) = true := by
  unfold predEntry; simp

theorem mem_takeWhile {α : Type} (p : α → Bool) : ∀ (l : List α) (a : α), a ∈ l.takeWhile p → p a = true ∧ a ∈ l
  | [], a, h => by simp at h
  | x :: l, a, h => by
    simp only [List.takeWhile_cons] at h
    split at h
    · rename_i hx
      simp only [List.mem_cons] at h ⊢
      rcases h with rfl | h
      · exact ⟨hx, Or.inl rfl⟩
      · have := mem_takeWhile p l a h
        exact ⟨this.1, Or.inr this.2⟩
    · simp at h

/-- the destructor's calls are calls of the destructor table -/
theorem mem_dtorScript {cfg : Cfg} {th : Thread} {a : Act} (h : a ∈ dtorScript cfg th) :
    a ≠ .throw ∧ th.role = .worker ∧ ∃ j, th.job = some j ∧ a ∈ cfg.dprog j.code := by
  unfold dtorScript at h
  split at h
  · rename_i j hr hj
    have := mem_takeWhile _ _ _ h
    exact ⟨by simpa using this.1, hr, j, hj, this.2⟩
  · simp at h

/-- the executed calls are calls of the thread's body or of the destructor of its job's closure -/
theorem mem_script {cfg : Cfg} {th : Thread} {a : Act} (h : a ∈ script cfg th) :
    a ≠ .throw ∧ (a ∈ fullScript cfg th ∨ ∃ j, th.job = some j ∧ th.role = .worker ∧ a ∈ cfg.dprog j.code) := by
  unfold script at h
  rw [List.mem_append] at h
  rcases h with h | h
  · have := mem_takeWhile _ _ _ h
    exact ⟨by simpa [bodyScript] using this.1, Or.inl this.2⟩
  · obtain ⟨h1, hr, j, hj, hm⟩ := mem_dtorScript h
    exact ⟨h1, Or.inr ⟨j, hj, hr, hm⟩⟩

/-- the executed script never contains a `throw` -/
theorem script_ne_throw {cfg : Cfg} {th : Thread} {k : Nat} (h : (script cfg th)[k]? = some .throw) : False :=
  (mem_script (List.mem_of_getElem? h)).1 rfl

theorem callOkP_mk (cfg : Cfg) (th : Thread) (pc pc' : Pc) :
    callOkP cfg { role := th.role, pc := pc', job := th.job } pc = callOkP cfg th pc := by
  unfold callOkP; rfl

theorem call_step {cfg : Cfg} {s : State} {t c : Nat} {o} (h : step cfg s t c = some o) (hi : InvB cfg s) :
    ∀ u, callOk cfg (getT o.st.thr u) := by
  have hc := hi.call
  have hrole := hi.role t
  pool_step_cases h
  all_goals (
    have hlt := lt_of_getElem? ‹s.thr[t]? = some _›
    have hth := getT_of_getElem? ‹s.thr[t]? = some _›
    intro u
    have hcu := hc u
    have hct := hc t
    rw [hth] at hct hrole
    simp only [setThr_thr, getT_set]
    by_cases hut : t = u
    · subst hut
      simp only [hlt, and_self, if_true]
      unfold callOk at hct ⊢
      (try dsimp only)
      (try simp only [callOkP_mk])
      first
      | (simp [callOkP]; done)
      | (simp_all [callOkP]; done)
      | (simp_all [callOkP]; cases ‹Act› <;> simp_all [predEntry] <;> split <;> simp; done)
      | (simp_all [callOkP]; cases ‹Act› <;> simp_all; done)
      | (cases hs : script cfg ‹Thread› <;> simp_all [callOkP]; done)
      | (have hm : ‹Thread›.role = .main := by simp_all
         unfold mainScriptPc
         split
         · rcases mainJoinPc_cases cfg with h' | h' <;> simp [h', callOkP]
         · simp only [callOkP, script_main _ _ hm]
           cases hmc : mainScript cfg <;> simp_all)
      | skip
    · simp only [hut, false_and, if_false]; exact hcu)



@[simp] theorem predEntry_ne_fence (s : State) (a : Act) : (predEntry s a = .fence) = False := by
  unfold predEntry; cases a <;> simp <;> split <;> simp
@[simp] theorem predEntry_ne_unlock (s : State) (a : Act) : (predEntry s a = .unlock) = False := by
  unfold predEntry; cases a <;> simp <;> split <;> simp
theorem predEntry_loadBusy_lue {s : State} (h : predEntry s .lue = .loadBusy) : s.queue = [] := by
  unfold predEntry at h; simp at h; exact h

theorem lueQ'_step {cfg : Cfg} {s : State} {t c : Nat} {o} (h : step cfg s t c = some o) (hi : InvB cfg s) :
    ∀ u k, (getT o.st.thr u).pc = .call k .loadBusy → (script cfg (getT o.st.thr u))[k]? = some .lue → o.st.queue = [] := by
  have hq := hi.lueQ'
  have hm := hi.mutex
  have hct : ∀ k c, (getT s.thr t).pc = .call k c → ∃ a, (script cfg (getT s.thr t))[k]? = some a ∧ cpcOk a c = true :=
    fun k c hp => callOk_call (hi.call t) hp
  pool_step_cases h
  all_goals (
    have hlt := lt_of_getElem? ‹s.thr[t]? = some _›
    have hth := getT_of_getElem? ‹s.thr[t]? = some _›
    intro u k
    have hqu := hq u k
    have hmu := hm u
    have hmt := hm t
    rw [hth] at hct
    (try have hct' := hct _ _ ‹_ = Pc.call _ _›)
    simp only [setThr_thr, getT_set]
    by_cases hut : t = u
    · subst hut; simp_all [predEntry]; all_goals (try (intros; simp_all))
      all_goals (subst ‹Act.lue = _›; simp_all; try (split at * <;> simp_all))
    · simp only [hut, false_and, if_false]
      intro h1 h2
      simp_all)

/-- a thread at `wBusyDec` is inside the busy section, hence `busy ≥ 1` -/
theorem busy_pos_of_busyDec {cfg : Cfg} {s : State} (hi : InvB cfg s) {t : Nat} (hlt : t < s.thr.length)
    (hp : (getT s.thr t).pc = .wBusyDec) : 1 ≤ s.busy := by
  rw [hi.busy]
  exact one_le_countP inBusy s.thr t hlt (by rw [getElem_eq_getT hlt]; simp [inBusy, hp])

/-- a step does not touch the records of other threads -/
theorem other_frame {cfg : Cfg} {s : State} {t c : Nat} {o} (h : step cfg s t c = some o) (u : Nat) (hut : t ≠ u) :
    getT o.st.thr u = getT s.thr u := by
  pool_step_cases h
  all_goals (simp only [setThr_thr, getT_set]; simp [hut])

/-- a thread that does not own the mutex leaves the queue alone and changes `busy_` only by `--busy_` -/
theorem qb_frame {cfg : Cfg} {s : State} {t c : Nat} {o} (h : step cfg s t c = some o)
    (hnh : holds (getT s.thr t).pc = false) :
    o.st.queue = s.queue ∧ (o.st.busy = s.busy ∨ (getT s.thr t).pc = .wBusyDec) := by
  pool_step_cases h
  all_goals (
    have hth := getT_of_getElem? ‹s.thr[t]? = some _›
    rw [hth] at hnh)
  all_goals (first
    | exact ⟨rfl, Or.inl rfl⟩
    | (exfalso; simp_all; done)
    | (refine ⟨rfl, Or.inr ?_⟩; rw [hth]; assumption))

/-- the acting thread reaches the fence / final unlock of loop_until_empty only with an empty queue and busy = 0 -/
theorem lueQ_self {cfg : Cfg} {s : State} {t c : Nat} {o} (h : step cfg s t c = some o) (hi : InvB cfg s) :
    ∀ k, ((getT o.st.thr t).pc = .call k .fence ∨ (getT o.st.thr t).pc = .call k .unlock) →
      (script cfg (getT o.st.thr t))[k]? = some .lue → o.st.queue = [] ∧ o.st.busy = 0 := by
  have hqt := hi.lueQ t
  have hqt' := hi.lueQ' t
  have hct : ∀ k c, (getT s.thr t).pc = .call k c → ∃ a, (script cfg (getT s.thr t))[k]? = some a ∧ cpcOk a c = true :=
    fun k c hp => callOk_call (hi.call t) hp
  pool_step_cases h
  all_goals (
    have hlt := lt_of_getElem? ‹s.thr[t]? = some _›
    have hth := getT_of_getElem? ‹s.thr[t]? = some _›
    rw [hth] at hct hqt hqt'
    intro k
    simp only [setThr_thr, getT_set, hlt, and_self, if_true]
    (try simp only [script_mk_pc, script_endOfScript]))
  all_goals (first
    | (intro hpc; simp at hpc; done)
    | skip)
  all_goals (
    intro hpc hsc
    simp at hpc
    subst hpc
    (try (obtain ⟨a', ha', hok⟩ := hct _ _ ‹_ = Pc.call _ _›))
    first
    | (rw [‹(script cfg _)[_]? = some _›] at hsc; simp at hsc; done)
    | (rw [ha'] at hsc; have := Option.some.inj hsc; subst this; simp at hok; done)
    | (have h1 := hqt' _ ‹_ = Pc.call _ CPc.loadBusy› hsc; simp_all; done)
    | (exact hqt _ (Or.inl ‹_ = Pc.call _ CPc.fence›) hsc))

theorem lueQ_step {cfg : Cfg} {s : State} {t c : Nat} {o} (h : step cfg s t c = some o) (hi : InvB cfg s) :
    ∀ u k, ((getT o.st.thr u).pc = .call k .fence ∨ (getT o.st.thr u).pc = .call k .unlock) →
      (script cfg (getT o.st.thr u))[k]? = some .lue → o.st.queue = [] ∧ o.st.busy = 0 := by
  intro u k hpc hsc
  by_cases hut : t = u
  · subst hut; exact lueQ_self h hi k hpc hsc
  · rw [other_frame h u hut] at hpc hsc
    obtain ⟨hq, hb⟩ := hi.lueQ u k hpc hsc
    have hu : holds (getT s.thr u).pc = true := by rcases hpc with h1 | h1 <;> rw [h1] <;> simp
    have hou := (hi.mutex u).mp hu
    have hnt : holds (getT s.thr t).pc = false := by
      cases hh : holds (getT s.thr t).pc with
      | false => rfl
      | true =>
        have := (hi.mutex t).mp hh
        rw [hou] at this
        exact absurd (Option.some.inj this).symm hut
    obtain ⟨hq', hb'⟩ := qb_frame h hnt
    refine ⟨by rw [hq', hq], ?_⟩
    rcases hb' with hb' | hb'
    · rw [hb', hb]
    · exfalso
      have hlt : t < s.thr.length := by
        apply Classical.byContradiction
        intro hge
        have : getT s.thr t = dflt := by
          unfold getT
          rw [List.getD_eq_getElem?_getD, List.getElem?_eq_none (by omega)]
          rfl
        rw [this] at hb'
        simp [dflt] at hb'
      have := busy_pos_of_busyDec hi hlt hb'
      omega

theorem init_pc (cfg : Cfg) : ∀ th, th ∈ (init cfg).thr → th.pc = .start := by
  intro th hth
  simp only [init, List.mem_append, List.mem_singleton, List.mem_replicate, List.mem_map, List.mem_range] at hth
  rcases hth with (h | h) | ⟨i, _, h⟩
  · rw [h]
  · rw [h.2]
  · rw [← h]

theorem getT_init_pc (cfg : Cfg) (u : Nat) :
    (getT (init cfg).thr u).pc = .start ∨ (getT (init cfg).thr u).pc = .finished := by
  by_cases h : u < (init cfg).thr.length
  · left
    rw [← getElem_eq_getT h]
    exact init_pc cfg _ (List.getElem_mem h)
  · right
    unfold getT
    rw [List.getD_eq_getElem?_getD, List.getElem?_eq_none (by omega)]
    rfl

theorem countP_init_zero (cfg : Cfg) (p : Thread → Bool) (hp : ∀ th, th.pc = .start → p th = false) :
    (init cfg).thr.countP p = 0 := by
  rw [List.countP_eq_zero]
  intro a ha
  simp [hp a (init_pc cfg a ha)]

theorem invB_init (cfg : Cfg) : InvB cfg (init cfg) := by
  refine ⟨?_, ?_, ?_, ?_, ?_, ?_, ?_, ?_, ?_⟩
  · intro t
    unfold callOk
    rcases getT_init_pc cfg t with h | h <;> rw [h] <;> rfl
  · intro t
    have ho : (init cfg).owner = none := rfl
    rcases getT_init_pc cfg t with h | h <;> rw [h, ho] <;> simp
  · intro t
    rcases getT_init_pc cfg t with h | h <;> rw [h] <;> simp
  · rw [countP_init_zero cfg inBusy (by intro th h; simp [inBusy, h])]; rfl
  · rw [countP_init_zero cfg pendDone (by intro th h; simp [pendDone, h])]; rfl
  · intro id hid; simp [init] at hid
  · rw [countP_init_zero cfg running (by intro th h; simp [running, h])]; rfl
  · intro t k hp
    rcases getT_init_pc cfg t with h | h <;> simp [h] at hp
  · intro t k hp
    rcases getT_init_pc cfg t with h | h <;> simp [h] at hp

theorem invB_step {cfg : Cfg} {s : State} {t c : Nat} {o} (h : step cfg s t c = some o) (hi : InvB cfg s) :
    InvB cfg o.st :=
  { call := call_step h hi
    mutex := mutex_step h hi
    role := role_step h hi
    busy := busy_step h hi
    done := done_step h hi
    run := run_step h hi
    runCnt := runCnt_step h hi
    lueQ' := lueQ'_step h hi
    lueQ := lueQ_step h hi }

theorem reachable_invB {cfg : Cfg} {s : State} (h : Reachable cfg s) : InvB cfg s := by
  induction h with
  | init => exact invB_init cfg
  | step _ hs ih => exact invB_step hs ih

end TlxVerif.C10
