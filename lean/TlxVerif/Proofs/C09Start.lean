/-
The state produced by a constructor followed by one `insert_start` for every
player, **in any order**, is a `PreInv` state whose leaves are `leafOf … players`
(`RegInv` is the invariant of the registration phase, including `first_insert_`); hence
`Tree.startPerm` / `Tree.start` (constructor, `insert_start`s, `init()`) yield `Inv`.
-/
import TlxVerif.Proofs.C09Inv
namespace TlxVerif.C09

variable {α : Type}

/-- entry of the padding players `ik_ .. k_-1`; `pk` = the (irrelevant) `key` member of the guarded
classes' supremum padding (`ValueType()` or, after `first_insert_`, the first inserted key) -/
def padOf (v : Variant) (sentinel pk : α) : Entry α :=
  if v.guarded then { sup := true, source := invalid, key := pk }
  else { sup := false, source := invalid, key := sentinel }

/-- leaf entries (by array index) for the players' current keys `pl` (`none` = exhausted) -/
def leafOf (v : Variant) (sentinel dflt pk : α) (pl : List (Option α)) : Nat → Entry α := fun j =>
  if 2 ^ ceilLog2 pl.length ≤ j ∧ j - 2 ^ ceilLog2 pl.length < pl.length
  then mkEntry dflt (pl[j - 2 ^ ceilLog2 pl.length]?.join) (j - 2 ^ ceilLog2 pl.length)
  else padOf v sentinel pk

theorem padLoop_spec (k : Nat) (pad : Entry α) :
    ∀ (n i : Nat) (a : Array (Entry α)), a.size = 2 * k → i + n ≤ k →
      ∃ a', padLoop k pad n i a = some a' ∧ a'.size = a.size ∧
        ∀ j, rd a' j = if k + i ≤ j ∧ j < k + i + n then some pad else rd a j
  | 0, i, a, _, _ => ⟨a, rfl, rfl, fun j => by simp; omega⟩
  | n + 1, i, a, hsz, hle => by
    obtain ⟨a1, hw⟩ := wr_ok (a := a) (i := i + k) pad (by omega)
    obtain ⟨a', hp, hsz', hrd⟩ := padLoop_spec k pad n (i + 1) a1 (by rw [wr_size hw]; exact hsz) (by omega)
    refine ⟨a', by simp [padLoop, hw, hp], by rw [hsz', wr_size hw], fun j => ?_⟩
    rw [hrd j, rd_wr hw j]
    by_cases h1 : j = i + k
    · subst h1
      have : ¬ (k + (i + 1) ≤ i + k ∧ i + k < k + (i + 1) + n) := by omega
      have : (k + i ≤ i + k ∧ i + k < k + i + (n + 1)) := by omega
      simp [*]
    · by_cases h2 : k + (i + 1) ≤ j ∧ j < k + (i + 1) + n
      · have : k + i ≤ j ∧ j < k + i + (n + 1) := by omega
        simp [*]
      · have : ¬ (k + i ≤ j ∧ j < k + i + (n + 1)) := by omega
        simp [*]

theorem construct_spec (v : Variant) (ik : Nat) (sentinel dflt : α) (hik : 1 ≤ ik) :
    ∃ t, construct v ik sentinel dflt = some t ∧ t.v = v ∧ t.ik = ik ∧ t.k = 2 ^ ceilLog2 ik ∧
      t.losers.size = 2 * t.k ∧ t.firstInsert = true ∧
      ∀ j, 2 ^ ceilLog2 ik + ik ≤ j → j < 2 * 2 ^ ceilLog2 ik → rd t.losers j = some (padOf v sentinel dflt) := by
  have hle := le_two_pow_ceilLog2 ik
  unfold construct roundUpPow2
  by_cases hg : v.guarded = true
  · obtain ⟨a, hp, hsz, hrd⟩ := padLoop_spec (2 ^ ceilLog2 ik) { sup := true, source := invalid, key := dflt }
      (2 ^ ceilLog2 ik - (ik - 1)) (ik - 1)
      (Array.replicate (2 * 2 ^ ceilLog2 ik) ({ sup := false, source := 0, key := dflt } : Entry α))
      (by simp) (by omega)
    refine ⟨_, by simp only [hg, if_true, hp]; rfl, rfl, rfl, rfl, by simp only; rw [hsz]; simp, rfl, fun j h1 h2 => ?_⟩
    dsimp only
    rw [hrd j]
    have : 2 ^ ceilLog2 ik + (ik - 1) ≤ j ∧ j < 2 ^ ceilLog2 ik + (ik - 1) + (2 ^ ceilLog2 ik - (ik - 1)) := by omega
    simp [this, padOf, hg]
  · have hg' : v.guarded = false := by simpa using hg
    by_cases hc : v.copy = true
    · refine ⟨_, by simp only [hg', hc]; rfl, rfl, rfl, rfl, by simp, rfl, fun j h1 h2 => ?_⟩
      simp [rd, padOf, hg', h2]
    · have hc' : v.copy = false := by simpa using hc
      obtain ⟨a, hp, hsz, hrd⟩ := padLoop_spec (2 ^ ceilLog2 ik) { sup := false, source := invalid, key := sentinel }
        (2 ^ ceilLog2 ik - (ik - 1)) (ik - 1)
        (Array.replicate (2 * 2 ^ ceilLog2 ik) ({ sup := false, source := 0, key := dflt } : Entry α))
        (by simp) (by omega)
      refine ⟨_, by simp only [hg', hc', hp]; rfl, rfl, rfl, rfl, by simp only; rw [hsz]; simp, rfl, fun j h1 h2 => ?_⟩
      dsimp only
      rw [hrd j]
      have : 2 ^ ceilLog2 ik + (ik - 1) ≤ j ∧ j < 2 ^ ceilLog2 ik + (ik - 1) + (2 ^ ceilLog2 ik - (ik - 1)) := by omega
      simp [this, padOf, hg']

theorem ceilLog2_le {n m : Nat} (h : n ≤ 2 ^ m) : ceilLog2 n ≤ m := by
  unfold ceilLog2
  split
  · omega
  · have : n - 1 ≠ 0 := by omega
    have := (Nat.log2_lt this (k := m)).2 (by omega)
    omega

/-! ### the registration phase -/

/-- state after the constructor and `insert_start` calls for the (source, key) pairs in `S` -/
structure RegInv (v : Variant) (ik : Nat) (sentinel dflt : α) (t : Tree α) (S : List (Nat × Option α)) : Prop where
  hv : t.v = v
  hik : t.ik = ik
  hk : t.k = 2 ^ ceilLog2 ik
  hsz : t.losers.size = 2 * t.k
  /-- `first_insert_` is still set only while nobody is registered -/
  first : (v.copy && v.guarded) = true → t.firstInsert = true → S = []
  /-- the leaves of the registered players hold exactly what was inserted -/
  real : ∀ p ∈ S, rd t.losers (t.k + p.1) = some (mkEntry dflt p.2 p.1)
  pads : ∃ pk, ∀ j, t.k + ik ≤ j → j < 2 * t.k → rd t.losers j = some (padOf v sentinel pk)

theorem rd_map {β : Type} (a : Array β) (f : β → β) (j : Nat) : rd (a.map f) j = (rd a j).map f := by
  simp [rd]

theorem mkEntry_eq (dflt : α) (key : Option α) (s : Nat) :
    mkEntry dflt key s = { sup := key.isNone, source := s, key := key.getD dflt } := by
  cases key <;> rfl

/-- one more `insert_start`, for a player not registered yet -/
theorem RegInv.insert {v : Variant} {ik : Nat} {sentinel dflt : α} {t : Tree α} {S : List (Nat × Option α)}
    (h : RegInv v ik sentinel dflt t S) (s : Nat) (key : Option α) (hs : s < ik) (hnew : ∀ p ∈ S, p.1 ≠ s) :
    ∃ t', t.insertStart dflt key s = some t' ∧ RegInv v ik sentinel dflt t' ((s, key) :: S) := by
  have hle := le_two_pow_ceilLog2 ik
  have hpos : t.k + s < t.losers.size := by rw [h.hsz, h.hk]; omega
  obtain ⟨pk, hpk⟩ := h.pads
  unfold Tree.insertStart
  by_cases hc : (t.v.copy && t.v.guarded) = true
  · obtain ⟨old, hold⟩ := rd_ok hpos
    obtain ⟨a, hw⟩ := wr_ok ({ sup := key.isNone, source := s, key := old.key } : Entry α) hpos
    have hvg : v.guarded = true := by rw [h.hv] at hc; simp at hc; exact hc.2
    by_cases hf : t.firstInsert = true
    · -- the first call: every key member is overwritten
      have hS : S = [] := h.first (by rw [← h.hv]; exact hc) hf
      subst hS
      refine ⟨_, by simp only [hc, if_true, hold, hw, hf, Option.bind_eq_bind, Option.bind_some]; rfl, ?_⟩
      refine { hv := h.hv, hik := h.hik, hk := h.hk, hsz := by simp [wr_size hw, h.hsz],
               first := fun _ hh => by simp at hh, real := fun p hp => ?_, pads := ⟨key.getD dflt, fun j h1 h2 => ?_⟩ }
      · simp only [List.mem_singleton] at hp
        subst hp
        simp only [rd_map, rd_wr_same hw, Option.map_some, mkEntry_eq]
      · dsimp only at h1 h2 ⊢
        have hne : j ≠ t.k + s := by omega
        simp only [rd_map, rd_wr_ne hw hne, hpk j h1 h2, Option.map_some, padOf, hvg, if_true]
    · have hf' : t.firstInsert = false := by simpa using hf
      have hposa : t.k + s < a.size := by rw [wr_size hw]; exact hpos
      obtain ⟨a', hw'⟩ := wr_ok ({ sup := key.isNone, source := s, key := key.getD dflt } : Entry α) hposa
      refine ⟨_, by simp only [hc, if_true, hold, hw, hf', hw', Bool.false_eq_true, if_false,
        Option.bind_eq_bind, Option.bind_some]; rfl, ?_⟩
      refine { hv := h.hv, hik := h.hik, hk := h.hk, hsz := by simp [wr_size hw', wr_size hw, h.hsz],
               first := fun _ hh => by simp at hh, real := fun p hp => ?_, pads := ⟨pk, fun j h1 h2 => ?_⟩ }
      · rcases List.mem_cons.1 hp with e | e
        · subst e
          simp only [rd_wr_same hw', mkEntry_eq]
        · have hne : t.k + p.1 ≠ t.k + s := by have := hnew p e; omega
          simp only [rd_wr_ne hw' hne, rd_wr_ne hw hne]
          exact h.real p e
      · dsimp only at h1 h2 ⊢
        have hne : j ≠ t.k + s := by omega
        simp only [rd_wr_ne hw' hne, rd_wr_ne hw hne]
        exact hpk j h1 h2
  · have hc' : (t.v.copy && t.v.guarded) = false := by simpa using hc
    obtain ⟨a, hw⟩ := wr_ok (mkEntry dflt key s) hpos
    refine ⟨_, by simp only [hc', Bool.false_eq_true, if_false, hw, Option.bind_eq_bind, Option.bind_some]; rfl, ?_⟩
    refine { hv := h.hv, hik := h.hik, hk := h.hk, hsz := by simp [wr_size hw, h.hsz],
             first := fun hcg _ => (by rw [← h.hv, hc'] at hcg; cases hcg),
             real := fun p hp => ?_, pads := ⟨pk, fun j h1 h2 => ?_⟩ }
    · rcases List.mem_cons.1 hp with e | e
      · subst e; exact rd_wr_same hw
      · have hne : t.k + p.1 ≠ t.k + s := by have := hnew p e; omega
        simp only [rd_wr_ne hw hne]
        exact h.real p e
    · dsimp only at h1 h2 ⊢
      have hne : j ≠ t.k + s := by omega
      simp only [rd_wr_ne hw hne]
      exact hpk j h1 h2

/-- any sequence of registrations of distinct, not yet registered players -/
theorem insertList_spec {v : Variant} {ik : Nat} {sentinel dflt : α} :
    ∀ (regs : List (Nat × Option α)) (t : Tree α) (S : List (Nat × Option α)),
      RegInv v ik sentinel dflt t S → (∀ p ∈ regs, p.1 < ik) → (regs.map (·.1)).Nodup →
      (∀ p ∈ regs, ∀ q ∈ S, q.1 ≠ p.1) →
      ∃ t', insertList dflt regs t = some t' ∧ RegInv v ik sentinel dflt t' (regs.reverse ++ S)
  | [], t, S, h, _, _, _ => ⟨t, rfl, by simpa using h⟩
  | (s, key) :: rest, t, S, h, hlt, hnd, hdis => by
    obtain ⟨t1, h1, hr1⟩ := h.insert s key (hlt (s, key) List.mem_cons_self)
      (fun q hq => hdis (s, key) List.mem_cons_self q hq)
    simp only [List.map_cons, List.nodup_cons, List.mem_map, not_exists, not_and] at hnd
    obtain ⟨t', h2, hr2⟩ := insertList_spec rest t1 ((s, key) :: S) hr1
      (fun p hp => hlt p (List.mem_cons_of_mem _ hp)) hnd.2
      (fun p hp q hq => by
        rcases List.mem_cons.1 hq with e | e
        · subst e; exact fun h' => hnd.1 p hp h'.symm
        · exact hdis p (List.mem_cons_of_mem _ hp) q e)
    refine ⟨t', by simp [insertList, h1, h2], ?_⟩
    simpa [List.reverse_cons, List.append_assoc] using hr2

/-- constructor + one `insert_start` per player, in any order -/
theorem start_pre_perm (v : Variant) (sentinel dflt : α) (pl : List (Option α)) (h1 : 1 ≤ pl.length)
    (h2 : pl.length ≤ 2 ^ 31) (regs : List (Nat × Option α))
    (hperm : (regs.map (·.1)).Perm (List.range pl.length))
    (hkeys : ∀ p ∈ regs, pl[p.1]? = some p.2) :
    ∃ t pk, (construct v pl.length sentinel dflt).bind (insertList dflt regs) = some t ∧
      PreInv t (leafOf v sentinel dflt pk pl) ∧ t.v = v ∧ t.ik = pl.length := by
  obtain ⟨t0, hc, hv0, hik0, hk0, hsz0, hf0, hpad0⟩ := construct_spec v pl.length sentinel dflt h1
  have hle := le_two_pow_ceilLog2 pl.length
  have hpow : 2 ^ (ceilLog2 pl.length + 1) = 2 * 2 ^ ceilLog2 pl.length := by rw [Nat.pow_succ]; omega
  have hsmall : 2 ^ (ceilLog2 pl.length + 1) ≤ 4294967296 := by
    have : ceilLog2 pl.length + 1 ≤ 32 := by have := ceilLog2_le h2; omega
    calc 2 ^ (ceilLog2 pl.length + 1) ≤ 2 ^ 32 := Nat.pow_le_pow_right (by omega) this
      _ = 4294967296 := by decide
  have r0 : RegInv v pl.length sentinel dflt t0 [] :=
    { hv := hv0, hik := hik0, hk := hk0, hsz := hsz0, first := fun _ _ => rfl,
      real := fun p hp => (by cases hp),
      pads := ⟨dflt, fun j h1 h2 => hpad0 j (by rw [← hk0]; exact h1) (by rw [← hk0]; exact h2)⟩ }
  obtain ⟨t, hi, hr⟩ := insertList_spec regs t0 [] r0
    (fun p hp => by
      have : p.1 ∈ regs.map (·.1) := List.mem_map_of_mem hp
      exact List.mem_range.1 ((hperm.mem_iff).1 this))
    ((hperm.nodup_iff).2 List.nodup_range) (fun _ _ q hq => by cases hq)
  simp only [List.append_nil] at hr
  obtain ⟨pk, hpk⟩ := hr.pads
  refine ⟨t, pk, by simp [hc, hi], ?_, hr.hv, hr.hik⟩
  have eik : t.ik = pl.length := hr.hik
  have ek : t.k = 2 ^ ceilLog2 pl.length := hr.hk
  refine { hk := by rw [ek, eik], hsz := by rw [hr.hsz, ek, eik, hpow], hik := by rw [eik]; exact h1,
           hsmall := by rw [eik]; exact hsmall, real := fun i hi => ?_, pad := fun i hi hi2 => ?_,
           leaves := fun r hrl => ?_ }
  · rw [eik] at hi ⊢
    simp only [leafOf]
    have : 2 ^ ceilLog2 pl.length + i - 2 ^ ceilLog2 pl.length = i := by omega
    have hcnd : 2 ^ ceilLog2 pl.length ≤ 2 ^ ceilLog2 pl.length + i ∧ i < pl.length := ⟨by omega, hi⟩
    simp only [this, hcnd, and_self, if_true, mkEntry]
    split <;> rfl
  · rw [eik] at hi hi2 ⊢
    simp only [leafOf]
    have : 2 ^ ceilLog2 pl.length + i - 2 ^ ceilLog2 pl.length = i := by omega
    have hn : ¬ (2 ^ ceilLog2 pl.length ≤ 2 ^ ceilLog2 pl.length + i ∧ i < pl.length) := by omega
    simp only [this, hn, if_false, padOf]
    split <;> rfl
  · rw [eik] at hrl
    obtain ⟨s, hs, e⟩ := exists_source r
    rw [hrl] at hs e
    rw [e]
    simp only [leafOf]
    have e1 : 2 ^ ceilLog2 pl.length + s - 2 ^ ceilLog2 pl.length = s := by omega
    by_cases c : s < pl.length
    · have c' : 2 ^ ceilLog2 pl.length ≤ 2 ^ ceilLog2 pl.length + s ∧ s < pl.length := ⟨by omega, c⟩
      simp only [e1, c', and_self, if_true]
      -- player `s` was registered with its key
      have hmem : s ∈ regs.map (·.1) := (hperm.mem_iff).2 (List.mem_range.2 c)
      obtain ⟨p, hp, hps⟩ := List.mem_map.1 hmem
      have hreal := hr.real p (by simpa using hp)
      rw [hps, ek] at hreal
      rw [hreal]
      have := hkeys p hp
      rw [hps] at this
      rw [this]; rfl
    · have c' : ¬ (2 ^ ceilLog2 pl.length ≤ 2 ^ ceilLog2 pl.length + s ∧ s < pl.length) := by omega
      simp only [e1, c', if_false]
      have := hpk (2 ^ ceilLog2 pl.length + s) (by rw [ek]; omega) (by rw [ek]; omega)
      exact this

/-- constructor, one `insert_start` per player in any order, `init()` -/
theorem startPerm_inv {lt : α → α → Bool} (hlt : SWO lt) (v : Variant) (sentinel dflt : α) (pl : List (Option α))
    (h1 : 1 ≤ pl.length) (h2 : pl.length ≤ 2 ^ 31) (regs : List (Nat × Option α))
    (hperm : (regs.map (·.1)).Perm (List.range pl.length))
    (hkeys : ∀ p ∈ regs, pl[p.1]? = some p.2) :
    ∃ t pk, Tree.startPerm v lt sentinel dflt pl.length regs = some t ∧
      Inv lt t (leafOf v sentinel dflt pk pl) ∧ t.v = v ∧ t.ik = pl.length := by
  obtain ⟨t0, pk, h0, pre, hv0, hik0⟩ := start_pre_perm v sentinel dflt pl h1 h2 regs hperm hkeys
  obtain ⟨t, hi, inv, hv, hik, _⟩ := init_inv hlt pre
  refine ⟨t, pk, ?_, inv, by rw [hv, hv0], by rw [hik, hik0]⟩
  unfold Tree.startPerm
  cases hc : construct v pl.length sentinel dflt with
  | none => simp [hc] at h0
  | some tc =>
    simp only [hc, Option.bind_some] at h0
    simp [h0, hi]

/-! ### ascending registration (`Tree.start`, what `multiway_merge` does) -/

def ascRegs (i : Nat) (ks : List (Option α)) : List (Nat × Option α) :=
  (ks.zipIdx i).map fun p => (p.2, p.1)

theorem insertFrom_eq (dflt : α) : ∀ (ks : List (Option α)) (i : Nat) (t : Tree α),
    insertFrom dflt ks i t = insertList dflt (ascRegs i ks) t
  | [], i, t => rfl
  | key :: ks, i, t => by
    simp only [insertFrom, ascRegs, List.zipIdx_cons, List.map_cons, insertList]
    cases t.insertStart dflt key i with
    | none => rfl
    | some t' => exact insertFrom_eq dflt ks (i + 1) t'

theorem ascRegs_fst : ∀ (ks : List (Option α)) (i : Nat), (ascRegs i ks).map (·.1) = List.range' i ks.length
  | [], i => rfl
  | key :: ks, i => by
    have := ascRegs_fst ks (i + 1)
    simp only [ascRegs, List.zipIdx_cons, List.map_cons, List.length_cons, List.range'_succ] at this ⊢
    rw [this]

theorem ascRegs_mem : ∀ (ks : List (Option α)) (i : Nat) (p : Nat × Option α), p ∈ ascRegs i ks →
    i ≤ p.1 ∧ ks[p.1 - i]? = some p.2
  | [], i, p, h => by simp [ascRegs] at h
  | key :: ks, i, p, h => by
    simp only [ascRegs, List.zipIdx_cons, List.map_cons, List.mem_cons] at h
    rcases h with e | e
    · subst e; simp
    · obtain ⟨h1, h2⟩ := ascRegs_mem ks (i + 1) p e
      refine ⟨by omega, ?_⟩
      have : p.1 - i = (p.1 - (i + 1)) + 1 := by omega
      rw [this, List.getElem?_cons_succ]; exact h2

theorem start_inv {lt : α → α → Bool} (hlt : SWO lt) (v : Variant) (sentinel dflt : α) (pl : List (Option α))
    (h1 : 1 ≤ pl.length) (h2 : pl.length ≤ 2 ^ 31) :
    ∃ t pk, Tree.start v lt sentinel dflt pl = some t ∧ Inv lt t (leafOf v sentinel dflt pk pl) ∧
      t.v = v ∧ t.ik = pl.length := by
  obtain ⟨t, pk, hs, inv, hv, hik⟩ := startPerm_inv hlt v sentinel dflt pl h1 h2 (ascRegs 0 pl)
    (by rw [ascRegs_fst, List.range_eq_range'])
    (fun p hp => by have := (ascRegs_mem pl 0 p hp).2; simpa using this)
  refine ⟨t, pk, ?_, inv, hv, hik⟩
  unfold Tree.start
  unfold Tree.startPerm at hs
  simp only [insertFrom_eq]
  exact hs

end TlxVerif.C09
