/-
The state produced by a constructor followed by `insert_start` for every
player is a `PreInv` state whose leaves are `leafOf … players`; hence
`Tree.start` (constructor, `insert_start`s, `init()`) yields `Inv`.
-/
import TlxVerif.Proofs.C09Inv
namespace TlxVerif.C09

variable {α : Type}

/-- entry of the padding players `ik_ .. k_-1` -/
def padOf (v : Variant) (sentinel dflt : α) : Entry α :=
  if v.guarded then { sup := true, source := invalid, key := dflt }
  else { sup := false, source := invalid, key := sentinel }

/-- leaf entries (by array index) for the players' current keys `pl` (`none` = exhausted) -/
def leafOf (v : Variant) (sentinel dflt : α) (pl : List (Option α)) : Nat → Entry α := fun j =>
  if 2 ^ ceilLog2 pl.length ≤ j ∧ j - 2 ^ ceilLog2 pl.length < pl.length
  then mkEntry dflt (pl[j - 2 ^ ceilLog2 pl.length]?.join) (j - 2 ^ ceilLog2 pl.length)
  else padOf v sentinel dflt

theorem padLoop_spec (k : Nat) (pad : Entry α) :
    ∀ (n i : Nat) (a : Array (Entry α)), a.size = 2 * k → i + n ≤ k →
      ∃ a', padLoop k pad n i a = some a' ∧ a'.size = a.size ∧
        ∀ j, rd a' j = if k + i ≤ j ∧ j < k + i + n then some pad else rd a j
  | 0, i, a, _, _ => ⟨a, rfl, rfl, fun j => by simp; omega⟩
  | n + 1, i, a, hsz, hle => by
    obtain ⟨a1, hw⟩ := wr_ok (a := a) (i := i + k) pad (by omega)
    obtain ⟨a', hp, hsz', hrd⟩ := padLoop_spec k pad n (i + 1) a1 (by rw [wr_size hw]; exact hsz) (by omega)
    refine ⟨a', by simp [padLoop, hw, hp], by rw [hsz', wr_size hw], fun j => ?_⟩
    rw [hrd j, rd_wr hw j]
    by_cases h1 : j = i + k
    · subst h1
      have : ¬ (k + (i + 1) ≤ i + k ∧ i + k < k + (i + 1) + n) := by omega
      have : (k + i ≤ i + k ∧ i + k < k + i + (n + 1)) := by omega
      simp [*]
    · by_cases h2 : k + (i + 1) ≤ j ∧ j < k + (i + 1) + n
      · have : k + i ≤ j ∧ j < k + i + (n + 1) := by omega
        simp [*]
      · have : ¬ (k + i ≤ j ∧ j < k + i + (n + 1)) := by omega
        simp [*]

theorem insertFrom_spec (dflt : α) :
    ∀ (ks : List (Option α)) (i : Nat) (t : Tree α), t.losers.size = 2 * t.k → i + ks.length ≤ t.k →
      ∃ t', insertFrom dflt ks i t = some t' ∧ t'.v = t.v ∧ t'.ik = t.ik ∧ t'.k = t.k ∧
        t'.losers.size = t.losers.size ∧
        ∀ j, rd t'.losers j = if t.k + i ≤ j ∧ j < t.k + i + ks.length
          then some (mkEntry dflt (ks[j - (t.k + i)]?.join) (j - t.k)) else rd t.losers j
  | [], i, t, _, _ => ⟨t, rfl, rfl, rfl, rfl, rfl, fun j => by simp; omega⟩
  | key :: ks, i, t, hsz, hle => by
    simp only [List.length_cons] at hle
    obtain ⟨a1, hw⟩ := wr_ok (a := t.losers) (i := t.k + i) (mkEntry dflt key i) (by omega)
    obtain ⟨t', hp, hv, hik, hk, hsz', hrd⟩ := insertFrom_spec dflt ks (i + 1) { t with losers := a1 }
      (by simp only; rw [wr_size hw]; exact hsz) (by simp only; omega)
    refine ⟨t', by simp [insertFrom, Tree.insertStart, hw, hp], hv, hik, hk, by rw [hsz']; exact wr_size hw, fun j => ?_⟩
    rw [hrd j]
    dsimp only
    rw [rd_wr hw j]
    by_cases h1 : j = t.k + i
    · subst h1
      have hA : ¬ (t.k + (i + 1) ≤ t.k + i ∧ t.k + i < t.k + (i + 1) + ks.length) := by omega
      have hB : (t.k + i ≤ t.k + i ∧ t.k + i < t.k + i + (key :: ks).length) := by
        simp only [List.length_cons]; omega
      have e : t.k + i - t.k = i := by omega
      rw [if_neg hA, if_pos rfl, if_pos hB, e, Nat.sub_self]
      simp
    · by_cases h2 : t.k + (i + 1) ≤ j ∧ j < t.k + (i + 1) + ks.length
      · have hB : t.k + i ≤ j ∧ j < t.k + i + (key :: ks).length := by
          simp only [List.length_cons]; omega
        have e : j - (t.k + i) = (j - (t.k + (i + 1))) + 1 := by omega
        rw [if_pos h2, if_pos hB, e, List.getElem?_cons_succ]
      · have hB : ¬ (t.k + i ≤ j ∧ j < t.k + i + (key :: ks).length) := by
          simp only [List.length_cons]; omega
        rw [if_neg h2, if_neg h1, if_neg hB]

theorem construct_spec (v : Variant) (ik : Nat) (sentinel dflt : α) (hik : 1 ≤ ik) :
    ∃ t, construct v ik sentinel dflt = some t ∧ t.v = v ∧ t.ik = ik ∧ t.k = 2 ^ ceilLog2 ik ∧
      t.losers.size = 2 * t.k ∧
      ∀ j, 2 ^ ceilLog2 ik + ik ≤ j → j < 2 * 2 ^ ceilLog2 ik → rd t.losers j = some (padOf v sentinel dflt) := by
  have hle := le_two_pow_ceilLog2 ik
  unfold construct roundUpPow2
  by_cases hg : v.guarded = true
  · obtain ⟨a, hp, hsz, hrd⟩ := padLoop_spec (2 ^ ceilLog2 ik) { sup := true, source := invalid, key := dflt }
      (2 ^ ceilLog2 ik - (ik - 1)) (ik - 1)
      (Array.replicate (2 * 2 ^ ceilLog2 ik) ({ sup := false, source := 0, key := dflt } : Entry α))
      (by simp) (by omega)
    refine ⟨_, by simp only [hg, if_true, hp]; rfl, rfl, rfl, rfl, by simp only; rw [hsz]; simp, fun j h1 h2 => ?_⟩
    dsimp only
    rw [hrd j]
    have : 2 ^ ceilLog2 ik + (ik - 1) ≤ j ∧ j < 2 ^ ceilLog2 ik + (ik - 1) + (2 ^ ceilLog2 ik - (ik - 1)) := by omega
    simp [this, padOf, hg]
  · have hg' : v.guarded = false := by simpa using hg
    by_cases hc : v.copy = true
    · refine ⟨_, by simp only [hg', hc]; rfl, rfl, rfl, rfl, by simp, fun j h1 h2 => ?_⟩
      simp [rd, padOf, hg', h2]
    · have hc' : v.copy = false := by simpa using hc
      obtain ⟨a, hp, hsz, hrd⟩ := padLoop_spec (2 ^ ceilLog2 ik) { sup := false, source := invalid, key := sentinel }
        (2 ^ ceilLog2 ik - (ik - 1)) (ik - 1)
        (Array.replicate (2 * 2 ^ ceilLog2 ik) ({ sup := false, source := 0, key := dflt } : Entry α))
        (by simp) (by omega)
      refine ⟨_, by simp only [hg', hc', hp]; rfl, rfl, rfl, rfl, by simp only; rw [hsz]; simp, fun j h1 h2 => ?_⟩
      dsimp only
      rw [hrd j]
      have : 2 ^ ceilLog2 ik + (ik - 1) ≤ j ∧ j < 2 ^ ceilLog2 ik + (ik - 1) + (2 ^ ceilLog2 ik - (ik - 1)) := by omega
      simp [this, padOf, hg']

theorem ceilLog2_le {n m : Nat} (h : n ≤ 2 ^ m) : ceilLog2 n ≤ m := by
  unfold ceilLog2
  split
  · omega
  · have : n - 1 ≠ 0 := by omega
    have := (Nat.log2_lt this (k := m)).2 (by omega)
    omega

/-- constructor + `insert_start` of every player -/
theorem start_pre (v : Variant) (sentinel dflt : α) (pl : List (Option α)) (h1 : 1 ≤ pl.length)
    (h2 : pl.length ≤ 2 ^ 31) :
    ∃ t, (construct v pl.length sentinel dflt).bind (insertFrom dflt pl 0) = some t ∧
      PreInv t (leafOf v sentinel dflt pl) ∧ t.v = v ∧ t.ik = pl.length := by
  obtain ⟨t0, hc, hv0, hik0, hk0, hsz0, hpad0⟩ := construct_spec v pl.length sentinel dflt h1
  have hle := le_two_pow_ceilLog2 pl.length
  obtain ⟨t, hi, hv, hik, hk, hsz, hrd⟩ := insertFrom_spec dflt pl 0 t0 hsz0 (by rw [hk0]; omega)
  have hpow : 2 ^ (ceilLog2 pl.length + 1) = 2 * 2 ^ ceilLog2 pl.length := by rw [Nat.pow_succ]; omega
  have hsmall : 2 ^ (ceilLog2 pl.length + 1) ≤ 4294967296 := by
    have : ceilLog2 pl.length + 1 ≤ 32 := by have := ceilLog2_le h2; omega
    calc 2 ^ (ceilLog2 pl.length + 1) ≤ 2 ^ 32 := Nat.pow_le_pow_right (by omega) this
      _ = 4294967296 := by decide
  refine ⟨t, by simp [hc, hi], ?_, by rw [hv, hv0], by rw [hik, hik0]⟩
  have eik : t.ik = pl.length := by rw [hik, hik0]
  refine { hk := by rw [hk, hk0, eik], hsz := by rw [hsz, hsz0, hk0, eik, hpow], hik := by rw [eik]; exact h1,
           hsmall := by rw [eik]; exact hsmall, real := fun i hi => ?_, pad := fun i hi hi2 => ?_,
           leaves := fun r hr => ?_ }
  · rw [eik] at hi ⊢
    simp only [leafOf]
    have : 2 ^ ceilLog2 pl.length + i - 2 ^ ceilLog2 pl.length = i := by omega
    have hc : 2 ^ ceilLog2 pl.length ≤ 2 ^ ceilLog2 pl.length + i ∧ i < pl.length := ⟨by omega, hi⟩
    simp only [this, hc, and_self, if_true, mkEntry]
    split <;> rfl
  · rw [eik] at hi hi2 ⊢
    simp only [leafOf]
    have : 2 ^ ceilLog2 pl.length + i - 2 ^ ceilLog2 pl.length = i := by omega
    have hn : ¬ (2 ^ ceilLog2 pl.length ≤ 2 ^ ceilLog2 pl.length + i ∧ i < pl.length) := by omega
    simp only [this, hn, if_false, padOf]
    split <;> rfl
  · rw [eik] at hr
    obtain ⟨s, hs, e⟩ := exists_source r
    rw [hr] at hs e
    rw [e, hrd, hk0]
    simp only [leafOf]
    have e1 : 2 ^ ceilLog2 pl.length + s - 2 ^ ceilLog2 pl.length = s := by omega
    have e2 : 2 ^ ceilLog2 pl.length + s - (2 ^ ceilLog2 pl.length + 0) = s := by omega
    by_cases c : s < pl.length
    · have : 2 ^ ceilLog2 pl.length + 0 ≤ 2 ^ ceilLog2 pl.length + s ∧
          2 ^ ceilLog2 pl.length + s < 2 ^ ceilLog2 pl.length + 0 + pl.length := by omega
      have c' : 2 ^ ceilLog2 pl.length ≤ 2 ^ ceilLog2 pl.length + s ∧ s < pl.length := ⟨by omega, c⟩
      simp only [this, and_self, if_true, e1, e2, c']
    · have : ¬ (2 ^ ceilLog2 pl.length + 0 ≤ 2 ^ ceilLog2 pl.length + s ∧
          2 ^ ceilLog2 pl.length + s < 2 ^ ceilLog2 pl.length + 0 + pl.length) := by omega
      have c' : ¬ (2 ^ ceilLog2 pl.length ≤ 2 ^ ceilLog2 pl.length + s ∧ s < pl.length) := by omega
      simp only [this, if_false, e1, c']
      exact hpad0 _ (by omega) (by omega)

theorem start_inv {lt : α → α → Bool} (hlt : SWO lt) (v : Variant) (sentinel dflt : α) (pl : List (Option α))
    (h1 : 1 ≤ pl.length) (h2 : pl.length ≤ 2 ^ 31) :
    ∃ t, Tree.start v lt sentinel dflt pl = some t ∧ Inv lt t (leafOf v sentinel dflt pl) ∧
      t.v = v ∧ t.ik = pl.length := by
  obtain ⟨t0, h0, pre, hv0, hik0⟩ := start_pre v sentinel dflt pl h1 h2
  obtain ⟨t, hi, inv, hv, hik, _⟩ := init_inv hlt pre
  refine ⟨t, ?_, inv, by rw [hv, hv0], by rw [hik, hik0]⟩
  unfold Tree.start
  cases hc : construct v pl.length sentinel dflt with
  | none => simp [hc] at h0
  | some tc =>
    simp only [hc, Option.bind_some] at h0
    simp [h0, hi]

end TlxVerif.C09
