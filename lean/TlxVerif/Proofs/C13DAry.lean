import TlxVerif.Model.C13DAry
/-! Heap-order and permutation lemmas for the d-ary heap loops. -/
namespace TlxVerif.C13

/-- `cmp_` is a strict weak order -/
structure WeakOrd (lt : Nat → Nat → Bool) : Prop where
  irrefl : ∀ a, lt a a = false
  trans : ∀ a b c, lt a b = true → lt b c = true → lt a c = true
  negTrans : ∀ a b c, lt a c = true → lt a b = true ∨ lt b c = true

namespace WeakOrd
variable {lt : Nat → Nat → Bool} (wo : WeakOrd lt)
include wo
theorem asymm {a b : Nat} (h : lt a b = true) : lt b a = false := by
  cases hba : lt b a with
  | false => rfl
  | true => have := wo.trans a b a h hba; simp [wo.irrefl] at this
/-- `a ≤ b → b ≤ c → a ≤ c` where `x ≤ y` is `lt y x = false` -/
theorem le_trans {a b c : Nat} (h1 : lt b a = false) (h2 : lt c b = false) : lt c a = false := by
  cases h : lt c a with
  | false => rfl
  | true => rcases wo.negTrans c b a h with h' | h' <;> simp_all
end WeakOrd

theorem parent_le (d i : Nat) : parent d i ≤ i := by
  have : (i - 1) / d ≤ i - 1 := Nat.div_le_self _ _
  unfold parent; omega

/-- the value stored at the parent slot of `i` -/
abbrev atParent (d : Nat) {n : Nat} (a : Vector Nat n) (i : Nat) (hi : i < n) : Nat :=
  a[parent d i]'(Nat.lt_of_le_of_lt (parent_le d i) hi)

/-- heap order: no slot is strictly less than its parent -/
def HeapOrd (lt : Nat → Nat → Bool) (d : Nat) {n : Nat} (a : Vector Nat n) : Prop :=
  ∀ i (hi : i < n), 0 < i → lt a[i] (atParent d a i hi) = false

/-- heap order everywhere except between `k` and its parent; the children of `k` already respect
the parent of `k` -/
structure UpInv (lt : Nat → Nat → Bool) (d : Nat) {n : Nat} (b : Vector Nat n) (k : Nat) (hk : k < n) : Prop where
  other : ∀ i (hi : i < n), 0 < i → i ≠ k → lt b[i] (atParent d b i hi) = false
  kids : ∀ c (hc : c < n), 0 < c → parent d c = k → 0 < k → lt b[c] (atParent d b k hk) = false

theorem siftUpFrom_heap {lt : Nat → Nat → Bool} (wo : WeakOrd lt) (d v : Nat) {n : Nat} (a : Vector Nat n)
    (k : Nat) (hk : k < n) (h : UpInv lt d (a.set k v) k hk) : HeapOrd lt d (siftUpFrom lt d v a k hk) := by
  fun_induction siftUpFrom lt d v a k hk with
  | case1 a hk =>
    intro i hi h0
    exact h.other i hi h0 (by omega)
  | case2 a k hk h0 hp hlt =>
    intro i hi hi0
    by_cases hik : i = k
    · subst hik
      have hpi : parent d i < i := parent_lt (by omega)
      have := wo.asymm hlt
      unfold atParent
      grind
    · exact h.other i hi hi0 hik
  | case3 a k hk h0 hp hlt ih =>
    apply ih
    have hpk : parent d k < k := parent_lt (by omega)
    have hlt' : lt a[parent d k] v = false := by simpa using hlt
    constructor
    · intro i hi hi0 hip
      have hpi : parent d i < i := parent_lt hi0
      by_cases hik : i = k
      · subst hik
        unfold atParent
        grind
      · have h1 := h.other i hi hi0 hik
        by_cases hpik : parent d i = k
        · -- a child of the old hole
          have h2 := h.kids i hi hi0 hpik (by omega)
          unfold atParent at *
          grind
        · by_cases hpip : parent d i = parent d k
          · -- a sibling of the old hole
            have h3 : lt a[i] a[parent d k] = false := by unfold atParent at h1; grind
            have := wo.le_trans hlt' h3
            unfold atParent
            grind
          · unfold atParent at *
            grind
    · intro c hc hc0 hcp hp0
      have hpp : parent d (parent d k) < parent d k := parent_lt hp0
      have hgp := h.other (parent d k) (by omega) hp0 (by omega)
      have hgp' : lt a[parent d k] (a[parent d (parent d k)]'(by omega)) = false := by
        unfold atParent at hgp; grind
      by_cases hck : c = k
      · subst hck
        unfold atParent
        grind
      · have h1 := h.other c hc hc0 hck
        have h3 : lt a[c] a[parent d k] = false := by unfold atParent at h1; grind
        have := wo.le_trans hgp' h3
        unfold atParent
        grind


/-! ### children and parents -/

theorem parent_eq_iff {d : Nat} (hd : 0 < d) {j : Nat} (hj : 0 < j) (k : Nat) :
    parent d j = k ↔ left d k ≤ j ∧ j < left d k + d := by
  unfold parent left
  rw [Nat.div_eq_iff hd]
  have : k * d = d * k := Nat.mul_comm _ _
  omega

theorem left_lt_iff {d : Nat} (hd : 0 < d) {n : Nat} (h2 : 2 ≤ n) (k : Nat) :
    left d k < n ↔ k ≤ (n - 2) / d := by
  unfold left
  rw [Nat.le_div_iff_mul_le hd]
  have : k * d = d * k := Nat.mul_comm _ _
  omega

/-! ### the scan for the minimum child -/

theorem minChildFrom_spec {lt : Nat → Nat → Bool} (wo : WeakOrd lt) {n : Nat} (a : Vector Nat n) (lo right : Nat)
    (hr : right ≤ n) (l : Nat) (c : { c : Nat // lo ≤ c ∧ c < n }) (hl : lo ≤ l) (hcl : c.1 ≤ l) (hlr : l < right)
    (hmin : ∀ j (hj : j < n), lo ≤ j → j ≤ l → lt a[j] (a[c.1]'(c.2.2)) = false) :
    (minChildFrom lt a lo right hr l c hl).1 < right ∧
    ∀ j (hj : j < n), lo ≤ j → j < right →
      lt a[j] (a[(minChildFrom lt a lo right hr l c hl).1]'((minChildFrom lt a lo right hr l c hl).2.2)) = false := by
  fun_induction minChildFrom lt a lo right hr l c hl with
  | case1 l c hl h hl1 ih =>
    apply ih
    · split <;> (try simp) <;> omega
    · omega
    · intro j hj hlo hjl
      split
      · rename_i hlt
        by_cases hj1 : j = l + 1
        · subst hj1; exact wo.irrefl _
        · exact wo.le_trans (wo.asymm hlt) (hmin j hj hlo (by omega))
      · rename_i hlt
        by_cases hj1 : j = l + 1
        · subst hj1; simpa using hlt
        · exact hmin j hj hlo (by omega)
  | case2 l c hl h =>
    exact ⟨by omega, fun j hj hlo hjr => hmin j hj hlo (by omega)⟩

/-- the chosen child is a child of `k` and not greater than any child of `k` -/
theorem minChild_spec {lt : Nat → Nat → Bool} (wo : WeakOrd lt) {d : Nat} (hd : 0 < d) {n : Nat} (a : Vector Nat n)
    (k : Nat) (hl : left d k < n) :
    parent d (minChild lt d a k hl).1 = k ∧
    ∀ j (hj : j < n), 0 < j → parent d j = k →
      lt a[j] (a[(minChild lt d a k hl).1]'((minChild lt d a k hl).2.2)) = false := by
  have hs := minChildFrom_spec wo a (left d k) (min n (left d k + d)) (Nat.min_le_left _ _) (left d k)
    ⟨left d k, Nat.le_refl _, hl⟩ (Nat.le_refl _) (Nat.le_refl _) (by omega)
    (by intro j hj h1 h2; have : j = left d k := by omega
        subst this; exact wo.irrefl _)
  have hge := (minChild lt d a k hl).2.1
  have hpos : 0 < (minChild lt d a k hl).1 := by unfold left at hge; omega
  refine ⟨(parent_eq_iff hd hpos k).mpr ⟨hge, ?_⟩, ?_⟩
  · have := hs.1; unfold minChild; omega
  · intro j hj hj0 hpj
    have := (parent_eq_iff hd hj0 k).mp hpj
    exact hs.2 j hj this.1 (by omega)

/-! ### sift down -/

/-- heap order for every slot whose parent is at or behind `lo` -/
def HeapFrom (lt : Nat → Nat → Bool) (d : Nat) (lo : Nat) {n : Nat} (a : Vector Nat n) : Prop :=
  ∀ i (hi : i < n), 0 < i → lo ≤ parent d i → lt a[i] (atParent d a i hi) = false

theorem heapFrom_zero {lt : Nat → Nat → Bool} {d n : Nat} {a : Vector Nat n} :
    HeapFrom lt d 0 a ↔ HeapOrd lt d a := by
  simp [HeapFrom, HeapOrd]

/-- heap order behind `lo` except between `k` and its children; the children of `k` already
respect the parent of `k` -/
structure DownInv (lt : Nat → Nat → Bool) (d : Nat) (lo : Nat) {n : Nat} (b : Vector Nat n) (k : Nat) (hk : k < n) :
    Prop where
  lo_le : lo ≤ k
  other : ∀ i (hi : i < n), 0 < i → lo ≤ parent d i → parent d i ≠ k → lt b[i] (atParent d b i hi) = false
  up : 0 < k → lo ≤ parent d k → ∀ c (hc : c < n), 0 < c → parent d c = k → lt b[c] (atParent d b k hk) = false

theorem siftDownFrom_heap {lt : Nat → Nat → Bool} (wo : WeakOrd lt) (d : Nat) (hd : 0 < d) (v lo : Nat) {n : Nat}
    (a : Vector Nat n) (k : Nat) (hk : k < n) (h : DownInv lt d lo (a.set k v) k hk) :
    HeapFrom lt d lo (siftDownFrom lt d hd v a k hk) := by
  fun_induction siftDownFrom lt d hd v a k hk with
  | case1 a k hk hl c hlt ih =>
    -- move the minimum child up and continue below it
    apply ih
    have hcd : minChild lt d a k hl = c := rfl
    obtain ⟨hpc, hmin⟩ := minChild_spec wo hd a k hl
    rw [hcd] at hpc hmin
    have hck : k < c.1 := by have := c.2.1; have := @left_gt d k hd; omega
    have hc0 : 0 < c.1 := by omega
    have hlok := h.lo_le
    constructor
    · omega
    · intro i hi hi0 hlo hpi
      have hpil : parent d i < i := parent_lt hi0
      by_cases hpik : parent d i = k
      · by_cases hic : i = c.1
        · have := wo.asymm hlt
          unfold atParent; grind
        · have := hmin i hi hi0 hpik
          unfold atParent; grind
      · by_cases hik : i = k
        · subst hik
          have h1 := h.up hi0 hlo c.1 c.2.2 hc0 hpc
          unfold atParent at *; grind
        · have h1 := h.other i hi hi0 hlo hpik
          unfold atParent at *; grind
    · intro _ _ e he he0 hpe
      have hpel : parent d e < e := parent_lt he0
      have h1 := h.other e he he0 (by omega) (by omega)
      unfold atParent at *; grind
  | case2 a k hk hl c hlt =>
    -- the value fits here
    have hcd : minChild lt d a k hl = c := rfl
    obtain ⟨hpc, hmin⟩ := minChild_spec wo hd a k hl
    rw [hcd] at hpc hmin
    have hck : k < c.1 := by have := c.2.1; have := @left_gt d k hd; omega
    have hvc : lt (a[c.1]'(c.2.2)) v = false := by simpa using hlt
    intro i hi hi0 hlo
    have hpil : parent d i < i := parent_lt hi0
    by_cases hpik : parent d i = k
    · have h1 := hmin i hi hi0 hpik
      have := wo.le_trans hvc h1
      unfold atParent; grind
    · exact h.other i hi hi0 hlo hpik
  | case3 a k hk hl =>
    -- no children
    intro i hi hi0 hlo
    by_cases hpik : parent d i = k
    · have := (parent_eq_iff hd hi0 k).mp hpik; omega
    · exact h.other i hi hi0 hlo hpik


/-! ### the hole technique permutes -/

/-- moving `a[j]` into the hole `k` and continuing with the hole at `j` is a swap of the array in
which the hole is filled with `v` -/
theorem set_set_eq_swap {n : Nat} (a : Vector Nat n) (k j v : Nat) (hk : k < n) (hj : j < n) (hjk : j ≠ k) :
    (a.set k a[j]).set j v = (a.set k v).swap k j hk hj := by
  ext i hi
  grind

theorem siftUpFrom_perm (lt : Nat → Nat → Bool) (d v : Nat) {n : Nat} (a : Vector Nat n) (k : Nat) (hk : k < n) :
    (siftUpFrom lt d v a k hk).Perm (a.set k v) := by
  fun_induction siftUpFrom lt d v a k hk with
  | case1 a hk => exact .rfl
  | case2 a k hk h0 hp hlt => exact .rfl
  | case3 a k hk h0 hp hlt ih =>
    refine ih.trans ?_
    have hpk : parent d k < k := parent_lt (by omega)
    rw [set_set_eq_swap a k (parent d k) v hk hp (by omega)]
    exact Vector.swap_perm hk hp

theorem siftDownFrom_perm (lt : Nat → Nat → Bool) (d : Nat) (hd : 0 < d) (v : Nat) {n : Nat} (a : Vector Nat n)
    (k : Nat) (hk : k < n) : (siftDownFrom lt d hd v a k hk).Perm (a.set k v) := by
  fun_induction siftDownFrom lt d hd v a k hk with
  | case1 a k hk hl c hlt ih =>
    refine ih.trans ?_
    have hck : k < c.1 := by have := c.2.1; have := @left_gt d k hd; omega
    rw [set_set_eq_swap a k c.1 v hk c.2.2 (by omega)]
    exact Vector.swap_perm hk c.2.2
  | case2 a k hk hl c hlt => exact .rfl
  | case3 a k hk hl => exact .rfl

theorem set_self {n : Nat} (a : Vector Nat n) (k : Nat) (hk : k < n) : a.set k a[k] = a := by
  ext i hi; grind

/-! ### heapify -/

theorem heapifyDown_eq (lt : Nat → Nat → Bool) (d : Nat) (hd : 0 < d) (v : Nat) {n : Nat} (h2 : 2 ≤ n)
    (a : Vector Nat n) (cur : Nat) (hcur : cur ≤ (n - 2) / d) :
    heapifyDown lt d hd v h2 a cur hcur =
      siftDownFrom lt d hd v a cur (Nat.lt_trans (left_gt hd) (left_le_of_le_last h2 hcur)) := by
  fun_induction heapifyDown lt d hd v h2 a cur hcur with
  | case1 a cur hcur hl hc m hlt a' hm ih =>
    rw [ih]
    conv => rhs; rw [siftDownFrom]
    simp only [hl, dite_true]
    have hlt' : lt (a[(minChild lt d a cur hl).1]'((minChild lt d a cur hl).2.2)) v = true := hlt
    rw [if_pos hlt']
  | case2 a cur hcur hl hc m hlt a' hm =>
    conv => rhs; rw [siftDownFrom]
    simp only [hl, dite_true]
    have hlt' : lt (a[(minChild lt d a cur hl).1]'((minChild lt d a cur hl).2.2)) v = true := hlt
    rw [if_pos hlt']
    rw [siftDownFrom]
    have : ¬ left d (minChild lt d a cur hl).1 < n := by
      rw [left_lt_iff hd h2]; exact hm
    simp only [this, dite_false]
    rfl
  | case3 a cur hcur hl hc m hlt =>
    conv => rhs; rw [siftDownFrom]
    simp only [hl, dite_true]
    have hlt' : ¬ lt (a[(minChild lt d a cur hl).1]'((minChild lt d a cur hl).2.2)) v = true := hlt
    rw [if_neg hlt']

theorem heapifyLoop_spec {lt : Nat → Nat → Bool} (wo : WeakOrd lt) (d : Nat) (hd : 0 < d) {n : Nat} (h2 : 2 ≤ n)
    (a : Vector Nat n) (i : Nat) (hi : i ≤ (n - 2) / d + 1) (h : HeapFrom lt d i a) :
    HeapOrd lt d (heapifyLoop lt d hd h2 a i hi) ∧ (heapifyLoop lt d hd h2 a i hi).Perm a := by
  induction i generalizing a with
  | zero => exact ⟨heapFrom_zero.mp h, .rfl⟩
  | succ i ih =>
    simp only [heapifyLoop]
    have hcur : i ≤ (n - 2) / d := Nat.le_of_succ_le_succ hi
    have hin : i < n := Nat.lt_trans (left_gt hd) (left_le_of_le_last h2 hcur)
    rw [heapifyDown_eq]
    have hdown : HeapFrom lt d i (siftDownFrom lt d hd a[i] a i hin) := by
      apply siftDownFrom_heap wo
      rw [set_self]
      refine ⟨Nat.le_refl _, ?_, ?_⟩
      · intro j hj hj0 hlo hne
        exact h j hj hj0 (by omega)
      · intro hi0 hlo
        have := @parent_lt d i hi0
        omega
    have hperm : (siftDownFrom lt d hd a[i] a i hin).Perm a := by
      have := siftDownFrom_perm lt d hd a[i] a i hin
      rwa [set_self] at this
    obtain ⟨h1, h3⟩ := ih _ (Nat.le_succ_of_le hcur) hdown
    exact ⟨h1, h3.trans hperm⟩

theorem heapify_spec {lt : Nat → Nat → Bool} (wo : WeakOrd lt) (d : Nat) (hd : 0 < d) {n : Nat}
    (a : Vector Nat n) : HeapOrd lt d (heapify lt d hd a) ∧ (heapify lt d hd a).Perm a := by
  unfold heapify
  split
  · rename_i h2
    apply heapifyLoop_spec wo d hd h2
    intro i hi hi0 hlo
    -- no slot has a parent behind the last internal node
    exfalso
    have h1 : left d (parent d i) ≤ i := ((parent_eq_iff hd hi0 _).mp rfl).1
    have h3 : ¬ (parent d i ≤ (n - 2) / d) := by omega
    rw [← left_lt_iff hd h2] at h3
    omega
  · rename_i h2
    refine ⟨?_, .rfl⟩
    intro i hi hi0
    omega

/-! ### the top is a minimum -/

theorem heapOrd_top_le {lt : Nat → Nat → Bool} (wo : WeakOrd lt) {d n : Nat} (a : Vector Nat n)
    (h : HeapOrd lt d a) (i : Nat) (hi : i < n) : lt a[i] (a[0]'(by omega)) = false := by
  induction i using Nat.strongRecOn with
  | _ i ih =>
    by_cases hi0 : i = 0
    · subst hi0; exact wo.irrefl _
    · have hp : parent d i < i := parent_lt (by omega)
      have h1 := h i hi (by omega)
      have h2 := ih (parent d i) hp (by omega)
      exact wo.le_trans h2 h1


/-! ### re-sifting one slot (remove / update of the addressable heap) -/

/-- heap order for all pairs that do not involve slot `h`; the children of `h` respect its parent -/
structure HeapExcept (lt : Nat → Nat → Bool) (d : Nat) {m : Nat} (b : Vector Nat m) (h : Nat) (hh : h < m) : Prop where
  other : ∀ i (hi : i < m), 0 < i → i ≠ h → parent d i ≠ h → lt b[i] (atParent d b i hi) = false
  gp : 0 < h → ∀ c (hc : c < m), 0 < c → parent d c = h → lt b[c] (atParent d b h hh) = false

theorem siftAt_up {lt : Nat → Nat → Bool} (wo : WeakOrd lt) (d : Nat) {m : Nat} (b : Vector Nat m) (h : Nat) (hh : h < m)
    (hex : HeapExcept lt d b h hh) (h0 : 0 < h) (hlt : lt b[h] (atParent d b h hh) = true) :
    HeapOrd lt d (siftUp lt d b h hh) := by
  unfold siftUp
  apply siftUpFrom_heap wo
  rw [set_self]
  constructor
  · intro i hi hi0 hih
    by_cases hp : parent d i = h
    · -- a child of `h`: not less than the parent of `h`, which is greater than `b[h]`
      have h1 := hex.gp h0 i hi hi0 hp
      cases hc : lt b[i] (atParent d b i hi) with
      | false => rfl
      | true =>
        have e : atParent d b i hi = b[h] := by simp [atParent, hp]
        rw [e] at hc
        have := wo.trans _ _ _ hc hlt
        simp [h1] at this
    · exact hex.other i hi hi0 hih hp
  · intro c hc hc0 hp _
    exact hex.gp h0 c hc hc0 hp

theorem siftAt_down {lt : Nat → Nat → Bool} (wo : WeakOrd lt) (d : Nat) (hd : 0 < d) {m : Nat} (b : Vector Nat m)
    (h : Nat) (hh : h < m) (hex : HeapExcept lt d b h hh)
    (hn : ¬ (0 < h ∧ lt b[h] (atParent d b h hh) = true)) :
    HeapOrd lt d (siftDown lt d hd b h hh) := by
  unfold siftDown
  rw [← heapFrom_zero]
  apply siftDownFrom_heap wo
  rw [set_self]
  refine ⟨Nat.zero_le _, ?_, fun h0 _ c hc hc0 hp => hex.gp h0 c hc hc0 hp⟩
  intro i hi hi0 _ hp
  by_cases hih : i = h
  · subst hih
    cases hc : lt b[i] (atParent d b i hi) with
    | false => rfl
    | true => exact absurd ⟨hi0, hc⟩ hn
  · exact hex.other i hi hi0 hih hp

theorem array_eq_pop_push (a : Array Nat) (h : 0 < a.size) : a = a.pop.push (a[a.size - 1]'(by omega)) := by
  apply Array.ext
  · simp; omega
  · intro i h1 h2
    by_cases hi : i < a.size - 1
    · rw [Array.getElem_push_lt (by simpa using hi)]; simp
    · have : i = a.size - 1 := by omega
      subst this
      simp [Array.getElem_push]


theorem heapOrd_toArray {lt : Nat → Nat → Bool} {d n : Nat} (v : Vector Nat n) :
    HeapOrd lt d (n := v.toArray.size) ⟨v.toArray, rfl⟩ ↔ HeapOrd lt d v := by
  rcases v with ⟨arr, rfl⟩
  exact Iff.rfl


/-- the scan stays inside `[lo, right)` -/
theorem minChildFrom_bound (lt : Nat → Nat → Bool) {n : Nat} (a : Vector Nat n) (lo right : Nat) (hr : right ≤ n)
    (l : Nat) (c : { c : Nat // lo ≤ c ∧ c < n }) (hl : lo ≤ l) (hlr : l < right) (hcl : c.1 ≤ l) :
    (minChildFrom lt a lo right hr l c hl).1 < right := by
  fun_induction minChildFrom lt a lo right hr l c hl with
  | case1 l c hl h hl1 ih =>
    apply ih h
    split <;> (try simp) <;> omega
  | case2 l c hl h => omega


theorem heapifyLoop_perm (lt : Nat → Nat → Bool) (d : Nat) (hd : 0 < d) {n : Nat} (h2 : 2 ≤ n)
    (a : Vector Nat n) (i : Nat) (hi : i ≤ (n - 2) / d + 1) : (heapifyLoop lt d hd h2 a i hi).Perm a := by
  induction i generalizing a with
  | zero => exact .rfl
  | succ i ih =>
    simp only [heapifyLoop]
    have hcur : i ≤ (n - 2) / d := Nat.le_of_succ_le_succ hi
    have hin : i < n := Nat.lt_trans (left_gt hd) (left_le_of_le_last h2 hcur)
    rw [heapifyDown_eq]
    have hperm : (siftDownFrom lt d hd a[i] a i hin).Perm a := by
      have := siftDownFrom_perm lt d hd a[i] a i hin
      rwa [set_self] at this
    exact (ih _ (Nat.le_succ_of_le hcur)).trans hperm

/-- `heapify` permutes for every comparator (no order hypothesis) -/
theorem heapify_perm (lt : Nat → Nat → Bool) (d : Nat) (hd : 0 < d) {n : Nat} (a : Vector Nat n) :
    (heapify lt d hd a).Perm a := by
  unfold heapify
  split
  · exact heapifyLoop_perm lt d hd _ a _ _
  · exact .rfl

end TlxVerif.C13
