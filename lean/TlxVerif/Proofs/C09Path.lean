/-
Addressing of the implicit complete binary tree inside `losers_`.

A node is named by the list of branch bits on the way from the root, *last
step first* (`b :: p` is the child of `p`; `false` = left = `2*root`,
`true` = right = `2*root+1`).  `idx p` is its array index.  `p <:+ r`
(`p` is a suffix of `r`) says that `r` lies in the subtree of `p`.
Everything below is linear arithmetic plus list-suffix reasoning.
-/
import TlxVerif.Model.C09LoserTree
namespace TlxVerif.C09

def idx : List Bool → Nat
  | [] => 1
  | b :: p => 2 * idx p + b.toNat

theorem idx_pos (p : List Bool) : 1 ≤ idx p := by
  induction p with
  | nil => simp [idx]
  | cons b p ih => simp [idx]; omega

theorem idx_cons_div (b : Bool) (p : List Bool) : idx (b :: p) / 2 = idx p := by
  cases b <;> simp [idx] <;> omega

theorem idx_false (p : List Bool) : idx (false :: p) = 2 * idx p := by simp [idx]
theorem idx_true (p : List Bool) : idx (true :: p) = 2 * idx p + 1 := by simp [idx]

theorem idx_inj : ∀ {p q : List Bool}, idx p = idx q → p = q
  | [], [], _ => rfl
  | [], b :: q, h => by
    have := idx_pos q
    cases b <;> simp [idx] at h <;> omega
  | b :: p, [], h => by
    have := idx_pos p
    cases b <;> simp [idx] at h <;> omega
  | b :: p, c :: q, h => by
    have hp : idx p = idx q := by cases b <;> cases c <;> simp [idx] at h <;> omega
    have hb : b = c := by
      cases b <;> cases c <;> simp [idx] at h <;> first | rfl | omega
    rw [idx_inj hp, hb]

theorem idx_range : ∀ (p : List Bool), 2 ^ p.length ≤ idx p ∧ idx p < 2 ^ (p.length + 1)
  | [] => by simp [idx]
  | b :: p => by
    have ⟨h1, h2⟩ := idx_range p
    have e1 : 2 ^ (p.length + 1) = 2 * 2 ^ p.length := by rw [Nat.pow_succ]; omega
    have e2 : 2 ^ (p.length + 1 + 1) = 2 * 2 ^ (p.length + 1) := by rw [Nat.pow_succ]; omega
    cases b <;> simp [idx] <;> omega

/-- index of leaf number `s` in a tree of height `h` -/
def pathOf : Nat → Nat → List Bool
  | 0, _ => []
  | h + 1, s => (s % 2 == 1) :: pathOf h (s / 2)

theorem length_pathOf : ∀ (h s : Nat), (pathOf h s).length = h
  | 0, _ => rfl
  | h + 1, s => by simp [pathOf, length_pathOf h]

theorem idx_pathOf : ∀ (h s : Nat), s < 2 ^ h → idx (pathOf h s) = 2 ^ h + s
  | 0, s, hs => by simp at hs; simp [pathOf, idx, hs]
  | h + 1, s, hs => by
    have e : 2 ^ (h + 1) = 2 * 2 ^ h := by rw [Nat.pow_succ]; omega
    have ih := idx_pathOf h (s / 2) (by omega)
    rcases Nat.mod_two_eq_zero_or_one s with h0 | h1
    · simp [pathOf, idx, ih, h0]; omega
    · simp [pathOf, idx, ih, h1]; omega

/-- every node at depth `h` is the leaf of some source -/
theorem exists_source (p : List Bool) : ∃ s, s < 2 ^ p.length ∧ idx p = 2 ^ p.length + s := by
  have ⟨h1, h2⟩ := idx_range p
  have e : 2 ^ (p.length + 1) = 2 * 2 ^ p.length := by rw [Nat.pow_succ]; omega
  exact ⟨idx p - 2 ^ p.length, by omega, by omega⟩

/-! ### subtrees -/

theorem suffix_same_length {p q r : List Bool} (hp : p <:+ r) (hq : q <:+ r)
    (hl : p.length = q.length) : p = q :=
  (List.suffix_of_suffix_length_le hp hq (by omega)).eq_of_length hl

theorem sibling_disjoint {b : Bool} {p r : List Bool} (h1 : (b :: p) <:+ r) (h2 : ((!b) :: p) <:+ r) :
    False := by
  have := suffix_same_length h1 h2 (by simp)
  cases b <;> simp at this

theorem not_child_suffix_self (b : Bool) (p : List Bool) : ¬ (b :: p) <:+ p := by
  intro h; have := h.length_le; simp at this; omega

theorem suffix_of_child {b : Bool} {p r : List Bool} (h : (b :: p) <:+ r) : p <:+ r :=
  (List.suffix_cons b p).trans h

/-- a node strictly below `p` lies below one of the two children of `p` -/
theorem child_of_suffix {p r : List Bool} (h : p <:+ r) (hl : p.length < r.length) :
    ∃ b, (b :: p) <:+ r := by
  obtain ⟨y, rfl⟩ := h
  rcases List.eq_nil_or_concat y with rfl | ⟨y', b, rfl⟩
  · simp at hl
  · exact ⟨b, y', by simp [List.concat_eq_append]⟩

/-- leaves of the left subtree come before leaves of the right subtree -/
theorem idx_lt_of_sibling {p : List Bool} :
    ∀ {y1 y2 : List Bool}, y1.length = y2.length → idx (y1 ++ false :: p) < idx (y2 ++ true :: p)
  | [], [], _ => by simp [idx]
  | [], _ :: _, h => by simp at h
  | _ :: _, [], h => by simp at h
  | c1 :: y1, c2 :: y2, h => by
    have ih := @idx_lt_of_sibling p y1 y2 (by simpa using h)
    cases c1 <;> cases c2 <;> simp [idx] <;> omega

theorem idx_lt_of_sibling' {p r1 r2 : List Bool} (h1 : (false :: p) <:+ r1) (h2 : (true :: p) <:+ r2)
    (hl : r1.length = r2.length) : idx r1 < idx r2 := by
  obtain ⟨y1, rfl⟩ := h1
  obtain ⟨y2, rfl⟩ := h2
  exact idx_lt_of_sibling (by simpa using hl)

/-! ### bounds-checked memory -/

variable {β : Type}

theorem wr_size {a a' : Array β} {i : Nat} {v : β} (h : wr a i v = some a') : a'.size = a.size := by
  unfold wr at h; split at h
  · cases h; simp
  · cases h

theorem rd_wr {a a' : Array β} {i : Nat} {v : β} (h : wr a i v = some a') (j : Nat) :
    rd a' j = if j = i then some v else rd a j := by
  unfold wr at h; split at h
  · cases h
    unfold rd
    rw [Array.getElem?_setIfInBounds]
    by_cases e : i = j
    · subst e; simp [*]
    · have : ¬ j = i := fun x => e x.symm
      simp [e, this]
  · cases h

theorem rd_wr_same {a a' : Array β} {i : Nat} {v : β} (h : wr a i v = some a') : rd a' i = some v := by
  rw [rd_wr h]; simp

theorem rd_wr_ne {a a' : Array β} {i j : Nat} {v : β} (h : wr a i v = some a') (hj : j ≠ i) :
    rd a' j = rd a j := by
  rw [rd_wr h]; simp [hj]

theorem wr_ok {a : Array β} {i : Nat} (v : β) (h : i < a.size) : ∃ a', wr a i v = some a' := by
  unfold wr; simp [h]

theorem rd_some_lt {a : Array β} {i : Nat} {v : β} (h : rd a i = some v) : i < a.size := by
  unfold rd at h
  by_cases hi : i < a.size
  · exact hi
  · simp [Array.getElem?_eq_none (Nat.le_of_not_lt hi)] at h

theorem rd_ok {a : Array β} {i : Nat} (h : i < a.size) : ∃ v, rd a i = some v := by
  unfold rd; exact ⟨a[i], by simp [h]⟩

/-! ### the height -/

theorem le_two_pow_ceilLog2 (n : Nat) : n ≤ 2 ^ ceilLog2 n := by
  unfold ceilLog2
  split
  · simp; omega
  · have := @Nat.lt_log2_self (n - 1)
    omega

end TlxVerif.C09
