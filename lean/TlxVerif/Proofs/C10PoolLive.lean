import TlxVerif.Proofs.C10Pool
/-!
No lost wake-up / no deadlock for the ThreadPool transition system: invariants about the two
condition-variable wait sets, for every pool size ≥ 1 and every job table whose job bodies only
enqueue jobs or terminate the pool.
-/
namespace TlxVerif.C10
set_option linter.unusedSimpArgs false

/-- job bodies and the destructors of job closures only enqueue jobs, terminate the pool, read `done()` /
    `idle()`, or throw: they do not call `loop_until_*` -/
def JobsOk (cfg : Cfg) : Prop :=
  ∀ code a, (a ∈ cfg.prog code ∨ a ∈ cfg.dprog code) →
    (∃ c, a = .enq c) ∨ a = .term ∨ a = .obsDone ∨ a = .obsIdle ∨ a = .throw

/-- roles and the size of the thread table never change -/
theorem role_frame {cfg : Cfg} {s : State} {t c : Nat} {o} (h : step cfg s t c = some o) :
    o.st.thr.length = s.thr.length ∧ ∀ u, (getT o.st.thr u).role = (getT s.thr u).role := by
  pool_step_cases h
  all_goals (
    have hlt := lt_of_getElem? ‹s.thr[t]? = some _›
    have hth := getT_of_getElem? ‹s.thr[t]? = some _›
    refine ⟨by simp, ?_⟩
    intro u
    simp only [setThr_thr, getT_set]
    by_cases hut : t = u
    · subst hut; simp [hlt, hth]
    · simp [hut])


/-! ### pending notifications -/

/-- the thread is between setting `terminate_` and `cv_jobs_.notify_all()` -/
def nfJ : Pc → Bool
  | .call _ .tNotifyJ | .mDNotify => true
  | _ => false

/-- the thread will call `cv_finished_.notify_all()` before it blocks: a worker that has lowered `busy_`
    (`wRelock`, `wNotify`) or a thread inside `terminate()` after setting the flag -/
def nfF : Pc → Bool
  | .wRelock | .wNotify | .call _ .tNotifyJ | .call _ .tNotifyF => true
  | _ => false

@[simp] theorem nfJ_start : nfJ .start = false := rfl
@[simp] theorem nfF_start : nfF .start = false := rfl
@[simp] theorem nfJ_finished : nfJ .finished = false := rfl
@[simp] theorem nfF_finished : nfF .finished = false := rfl
@[simp] theorem nfJ_wLock : nfJ .wLock = false := rfl
@[simp] theorem nfF_wLock : nfF .wLock = false := rfl
@[simp] theorem nfJ_wLoadTerm1 : nfJ .wLoadTerm1 = false := rfl
@[simp] theorem nfF_wLoadTerm1 : nfF .wLoadTerm1 = false := rfl
@[simp] theorem nfJ_wIdleInc : nfJ .wIdleInc = false := rfl
@[simp] theorem nfF_wIdleInc : nfF .wIdleInc = false := rfl
@[simp] theorem nfJ_wLoadTerm2 : nfJ .wLoadTerm2 = false := rfl
@[simp] theorem nfF_wLoadTerm2 : nfF .wLoadTerm2 = false := rfl
@[simp] theorem nfJ_wWait : nfJ .wWait = false := rfl
@[simp] theorem nfF_wWait : nfF .wWait = false := rfl
@[simp] theorem nfJ_wWaiting : nfJ .wWaiting = false := rfl
@[simp] theorem nfF_wWaiting : nfF .wWaiting = false := rfl
@[simp] theorem nfJ_wIdleDec : nfJ .wIdleDec = false := rfl
@[simp] theorem nfF_wIdleDec : nfF .wIdleDec = false := rfl
@[simp] theorem nfJ_wLoadTerm3 : nfJ .wLoadTerm3 = false := rfl
@[simp] theorem nfF_wLoadTerm3 : nfF .wLoadTerm3 = false := rfl
@[simp] theorem nfJ_wBusyInc : nfJ .wBusyInc = false := rfl
@[simp] theorem nfF_wBusyInc : nfF .wBusyInc = false := rfl
@[simp] theorem nfJ_wUnlockRun : nfJ .wUnlockRun = false := rfl
@[simp] theorem nfF_wUnlockRun : nfF .wUnlockRun = false := rfl
@[simp] theorem nfJ_wFence : nfJ .wFence = false := rfl
@[simp] theorem nfF_wFence : nfF .wFence = false := rfl
@[simp] theorem nfJ_wDoneInc : nfJ .wDoneInc = false := rfl
@[simp] theorem nfF_wDoneInc : nfF .wDoneInc = false := rfl
@[simp] theorem nfJ_wBusyDec : nfJ .wBusyDec = false := rfl
@[simp] theorem nfF_wBusyDec : nfF .wBusyDec = false := rfl
@[simp] theorem nfJ_wRelock : nfJ .wRelock = false := rfl
@[simp] theorem nfF_wRelock : nfF .wRelock = true := rfl
@[simp] theorem nfJ_wNotify : nfJ .wNotify = false := rfl
@[simp] theorem nfF_wNotify : nfF .wNotify = true := rfl
@[simp] theorem nfJ_wExitUnlock : nfJ .wExitUnlock = false := rfl
@[simp] theorem nfF_wExitUnlock : nfF .wExitUnlock = false := rfl
@[simp] theorem nfJ_mDLock : nfJ .mDLock = false := rfl
@[simp] theorem nfF_mDLock : nfF .mDLock = false := rfl
@[simp] theorem nfJ_mDStore : nfJ .mDStore = false := rfl
@[simp] theorem nfF_mDStore : nfF .mDStore = false := rfl
@[simp] theorem nfJ_mDNotify : nfJ .mDNotify = true := rfl
@[simp] theorem nfF_mDNotify : nfF .mDNotify = false := rfl
@[simp] theorem nfJ_mDUnlock : nfJ .mDUnlock = false := rfl
@[simp] theorem nfF_mDUnlock : nfF .mDUnlock = false := rfl
@[simp] theorem nfJ_mCtor (i : Nat) : nfJ (.mCtor i) = false := rfl
@[simp] theorem nfF_mCtor (i : Nat) : nfF (.mCtor i) = false := rfl
@[simp] theorem nfJ_mSpawn (i : Nat) : nfJ (.mSpawn i) = false := rfl
@[simp] theorem nfF_mSpawn (i : Nat) : nfF (.mSpawn i) = false := rfl
@[simp] theorem nfJ_mJoinC (i : Nat) : nfJ (.mJoinC i) = false := rfl
@[simp] theorem nfF_mJoinC (i : Nat) : nfF (.mJoinC i) = false := rfl
@[simp] theorem nfJ_mDJoin (i : Nat) : nfJ (.mDJoin i) = false := rfl
@[simp] theorem nfF_mDJoin (i : Nat) : nfF (.mDJoin i) = false := rfl
@[simp] theorem nfJ_call_lock (k : Nat) : nfJ (.call k .lock) = false := rfl
@[simp] theorem nfF_call_lock (k : Nat) : nfF (.call k .lock) = false := rfl
@[simp] theorem nfJ_call_enqNotify (k : Nat) : nfJ (.call k .enqNotify) = false := rfl
@[simp] theorem nfF_call_enqNotify (k : Nat) : nfF (.call k .enqNotify) = false := rfl
@[simp] theorem nfJ_call_tStore (k : Nat) : nfJ (.call k .tStore) = false := rfl
@[simp] theorem nfF_call_tStore (k : Nat) : nfF (.call k .tStore) = false := rfl
@[simp] theorem nfJ_call_tNotifyJ (k : Nat) : nfJ (.call k .tNotifyJ) = true := rfl
@[simp] theorem nfF_call_tNotifyJ (k : Nat) : nfF (.call k .tNotifyJ) = true := rfl
@[simp] theorem nfJ_call_tNotifyF (k : Nat) : nfJ (.call k .tNotifyF) = false := rfl
@[simp] theorem nfF_call_tNotifyF (k : Nat) : nfF (.call k .tNotifyF) = true := rfl
@[simp] theorem nfJ_call_loadTerm (k : Nat) : nfJ (.call k .loadTerm) = false := rfl
@[simp] theorem nfF_call_loadTerm (k : Nat) : nfF (.call k .loadTerm) = false := rfl
@[simp] theorem nfJ_call_loadBusy (k : Nat) : nfJ (.call k .loadBusy) = false := rfl
@[simp] theorem nfF_call_loadBusy (k : Nat) : nfF (.call k .loadBusy) = false := rfl
@[simp] theorem nfJ_call_wait (k : Nat) : nfJ (.call k .wait) = false := rfl
@[simp] theorem nfF_call_wait (k : Nat) : nfF (.call k .wait) = false := rfl
@[simp] theorem nfJ_call_waiting (k : Nat) : nfJ (.call k .waiting) = false := rfl
@[simp] theorem nfF_call_waiting (k : Nat) : nfF (.call k .waiting) = false := rfl
@[simp] theorem nfJ_call_fence (k : Nat) : nfJ (.call k .fence) = false := rfl
@[simp] theorem nfF_call_fence (k : Nat) : nfF (.call k .fence) = false := rfl
@[simp] theorem nfJ_call_unlock (k : Nat) : nfJ (.call k .unlock) = false := rfl
@[simp] theorem nfF_call_unlock (k : Nat) : nfF (.call k .unlock) = false := rfl

@[simp] theorem nfJ_wInit (i : Nat) : nfJ (.wInit i) = false := rfl
@[simp] theorem nfF_wInit (i : Nat) : nfF (.wInit i) = false := rfl
@[simp] theorem nfJ_mainJoinPc (cfg : Cfg) : nfJ (mainJoinPc cfg) = false := by
  rcases mainJoinPc_cases cfg with h | h <;> simp [h]
@[simp] theorem nfJ_mainScriptPc (cfg : Cfg) : nfJ (mainScriptPc cfg) = false := by
  rcases mainScriptPc_cases cfg with h | h | h <;> simp [h]
@[simp] theorem nfF_mainJoinPc (cfg : Cfg) : nfF (mainJoinPc cfg) = false := by
  rcases mainJoinPc_cases cfg with h | h <;> simp [h]
@[simp] theorem nfF_mainScriptPc (cfg : Cfg) : nfF (mainScriptPc cfg) = false := by
  rcases mainScriptPc_cases cfg with h | h | h <;> simp [h]
@[simp] theorem nfJ_endOfScript (cfg : Cfg) (th : Thread) : nfJ (endOfScript cfg th).pc = false := by
  unfold endOfScript; cases th.role <;> simp
@[simp] theorem nfF_endOfScript (cfg : Cfg) (th : Thread) : nfF (endOfScript cfg th).pc = false := by
  unfold endOfScript; cases th.role <;> simp
theorem nfJ_predEntry (s : State) (a : Act) (k : Nat) : nfJ (.call k (predEntry s a)) = false := by
  unfold predEntry; cases a <;> simp <;> split <;> simp
theorem nfF_predEntry (s : State) (a : Act) (k : Nat) : nfF (.call k (predEntry s a)) = false := by
  unfold predEntry; cases a <;> simp <;> split <;> simp


/-! ### notify_one on a wait set -/

theorem notifyRest_sublist (ws : List Nat) (c : Nat) : (notifyRest ws c).Sublist ws := by
  unfold notifyRest; split
  · exact List.Sublist.refl _
  · exact List.eraseIdx_sublist _ _

theorem notifyRest_nodup {ws : List Nat} (c : Nat) (h : ws.Nodup) : (notifyRest ws c).Nodup :=
  List.Nodup.sublist (notifyRest_sublist ws c) h

theorem mem_notifyRest {ws : List Nat} {c x : Nat} (h : x ∈ notifyRest ws c) : x ∈ ws :=
  (notifyRest_sublist ws c).subset h

/-- on a non-empty duplicate-free wait set notify_one removes a member, and that member is gone afterwards -/
theorem notifyRest_woken {ws : List Nat} (c : Nat) (h : ws.Nodup) (hne : ws ≠ []) :
    ∃ w, w ∈ ws ∧ w ∉ notifyRest ws c := by
  have hpos : 0 < ws.length := List.length_pos_iff.mpr hne
  have hi : (c / 256) % ws.length < ws.length := Nat.mod_lt _ hpos
  refine ⟨ws[(c / 256) % ws.length], List.getElem_mem hi, ?_⟩
  unfold notifyRest
  have : ws.isEmpty = false := by cases ws <;> simp_all
  simp only [this]
  intro hmem
  obtain ⟨j, hj, hne', heq⟩ := List.mem_eraseIdx_iff_getElem.mp hmem
  exact hne' ((List.getElem_inj h).mp heq)

def isWorker (cfg : Cfg) (u : Nat) : Prop := 1 ≤ u ∧ u ≤ cfg.nworkers

/-- the wait predicate of the call is false, or a `cv_finished_.notify_all()` is pending -/
def blockedOk (s : State) : Act → Prop
  | .lue => s.queue ≠ [] ∨ s.busy ≠ 0 ∨ ∃ x, nfF (getT s.thr x).pc = true
  | .lut => s.term = false ∨ s.busy ≠ 0 ∨ ∃ x, nfF (getT s.thr x).pc = true
  | _ => True

structure InvW (cfg : Cfg) (s : State) : Prop where
  wjNodup : s.wJ.Nodup
  wjPc : ∀ w, w ∈ s.wJ → (getT s.thr w).pc = .wWaiting
  wfNodup : s.wF.Nodup
  wfPc : ∀ c, c ∈ s.wF → ∃ k, (getT s.thr c).pc = .call k .waiting
  wp : ∀ w, (getT s.thr w).pc = .wWait → s.term = false ∧ s.queue = []
  wx : ∀ w, (getT s.thr w).role = .worker →
    ((getT s.thr w).pc = .wExitUnlock ∨ (getT s.thr w).pc = .finished) → s.term = true
  tj : s.term = true → s.wJ = [] ∨ ∃ x, nfJ (getT s.thr x).pc = true

theorem wjNodup_step {cfg : Cfg} {s : State} {t c : Nat} {o} (h : step cfg s t c = some o) (hw : InvW cfg s) :
    o.st.wJ.Nodup := by
  have hp := hw.wjNodup
  have hpc := hw.wjPc
  pool_step_cases h
  all_goals (first | (simp; exact hp) | skip)
  all_goals (
    have hlt := lt_of_getElem? ‹s.thr[t]? = some _›
    have hth := getT_of_getElem? ‹s.thr[t]? = some _›)
  all_goals (first
    | (simp; done)
    | (simp; exact hp.erase t)
    | (exact notifyRest_nodup _ hp)
    | (-- wWait: t is not yet in the wait set
       simp
       rw [List.nodup_append]
       refine ⟨hp, by simp, ?_⟩
       intro a ha b hb
       simp at hb; subst hb
       intro hab; subst hab
       have := hpc a ha
       rw [hth] at this
       simp_all))

theorem wjPc_step {cfg : Cfg} {s : State} {t c : Nat} {o} (h : step cfg s t c = some o) (hw : InvW cfg s) :
    ∀ w, w ∈ o.st.wJ → (getT o.st.thr w).pc = .wWaiting := by
  have hp := hw.wjNodup
  have hpc := hw.wjPc
  pool_step_cases h
  all_goals (
    have hlt := lt_of_getElem? ‹s.thr[t]? = some _›
    have hth := getT_of_getElem? ‹s.thr[t]? = some _›)
  all_goals (first
    | (intro w hw'
       have hw'' : w ∈ s.wJ := by first | exact hw' | exact mem_notifyRest hw'
       have hpw := hpc w hw''
       simp only [setThr_thr, getT_set]
       by_cases hut : t = w
       · subst hut; rw [hth] at hpw; simp_all; done
       · simp only [hut, false_and, if_false]; exact hpw)
    | skip)
  all_goals (first
    | (intro w hw'; simp at hw'; done)
    | (-- wWait: t joins
       intro w hw'
       simp at hw'
       simp only [setThr_thr, getT_set]
       rcases hw' with hw' | hw'
       · have hpw := hpc w hw'
         by_cases hut : t = w
         · subst hut; simp [hlt]
         · simp only [hut, false_and, if_false]; exact hpw
       · subst hw'; simp [hlt])
    | (-- wWaiting: t leaves
       intro w hw'
       have hu2 := (hp.mem_erase_iff.mp hw')
       have hpw := hpc w hu2.2
       have hut : ¬ t = w := fun h => hu2.1 h.symm
       simp only [setThr_thr, getT_set, hut, false_and, if_false]; exact hpw))

theorem wfNodup_step {cfg : Cfg} {s : State} {t c : Nat} {o} (h : step cfg s t c = some o) (hw : InvW cfg s) :
    o.st.wF.Nodup := by
  have hp := hw.wfNodup
  have hpc := hw.wfPc
  pool_step_cases h
  all_goals (first | (simp; exact hp) | skip)
  all_goals (
    have hlt := lt_of_getElem? ‹s.thr[t]? = some _›
    have hth := getT_of_getElem? ‹s.thr[t]? = some _›)
  all_goals (first
    | (simp; done)
    | (simp; exact hp.erase t)
    | (simp
       rw [List.nodup_append]
       refine ⟨hp, by simp, ?_⟩
       intro a ha b hb
       simp at hb; subst hb
       intro hab; subst hab
       obtain ⟨k', hk'⟩ := hpc a ha
       rw [hth] at hk'
       simp_all))

theorem wfPc_step {cfg : Cfg} {s : State} {t c : Nat} {o} (h : step cfg s t c = some o) (hw : InvW cfg s) :
    ∀ x, x ∈ o.st.wF → ∃ k, (getT o.st.thr x).pc = .call k .waiting := by
  have hp := hw.wfNodup
  have hpc := hw.wfPc
  pool_step_cases h
  all_goals (
    have hlt := lt_of_getElem? ‹s.thr[t]? = some _›
    have hth := getT_of_getElem? ‹s.thr[t]? = some _›)
  all_goals (first
    | (intro w hw'
       have hw'' : w ∈ s.wF := hw'
       obtain ⟨k', hpw⟩ := hpc w hw''
       simp only [setThr_thr, getT_set]
       by_cases hut : t = w
       · subst hut; rw [hth] at hpw; simp_all; done
       · simp only [hut, false_and, if_false]; exact ⟨k', hpw⟩)
    | (intro w hw'; simp at hw'; done)
    | (intro w hw'
       simp at hw'
       simp only [setThr_thr, getT_set]
       rcases hw' with hw' | hw'
       · obtain ⟨k', hpw⟩ := hpc w hw'
         by_cases hut : t = w
         · subst hut; simp [hlt]
         · simp only [hut, false_and, if_false]; exact ⟨k', hpw⟩
       · subst hw'; simp [hlt])
    | (intro w hw'
       have hu2 := (hp.mem_erase_iff.mp hw')
       obtain ⟨k', hpw⟩ := hpc w hu2.2
       have hut : ¬ t = w := fun h => hu2.1 h.symm
       simp only [setThr_thr, getT_set, hut, false_and, if_false]; exact ⟨k', hpw⟩))


theorem wp_step {cfg : Cfg} {s : State} {t c : Nat} {o} (h : step cfg s t c = some o) (hb : InvB cfg s)
    (hw : InvW cfg s) : ∀ w, (getT o.st.thr w).pc = .wWait → o.st.term = false ∧ o.st.queue = [] := by
  have hp := hw.wp
  have hm := hb.mutex
  pool_step_cases h
  all_goals (
    have hlt := lt_of_getElem? ‹s.thr[t]? = some _›
    have hth := getT_of_getElem? ‹s.thr[t]? = some _›
    intro w
    have hpw := hp w
    have hmw := hm w
    have hmt := hm t
    simp only [setThr_thr, getT_set]
    by_cases hut : t = w
    · subst hut; simp_all
      all_goals (try (rcases mainScriptPc_cases cfg with h' | h' | h' <;> simp_all; done))
      all_goals (try (subst hth; unfold endOfScript; cases hrole : (getT s.thr t).role <;> simp_all; done))
      all_goals (try (subst hth; unfold endOfScript; rcases mainJoinPc_cases cfg with h' | h' <;> cases hrole : (getT s.thr t).role <;> simp_all; done))
    · simp only [hut, false_and, if_false]
      intro h1
      simp_all)

theorem wx_step {cfg : Cfg} {s : State} {t c : Nat} {o} (h : step cfg s t c = some o) (hb : InvB cfg s)
    (hw : InvW cfg s) : ∀ w, (getT o.st.thr w).role = .worker →
      ((getT o.st.thr w).pc = .wExitUnlock ∨ (getT o.st.thr w).pc = .finished) → o.st.term = true := by
  have hp := hw.wx
  pool_step_cases h
  all_goals (
    have hlt := lt_of_getElem? ‹s.thr[t]? = some _›
    have hth := getT_of_getElem? ‹s.thr[t]? = some _›
    intro w
    have hpw := hp w
    have hpt := hp t
    have hrt := hb.role t
    rw [hth] at hrt
    simp only [setThr_thr, getT_set]
    by_cases hut : t = w
    · subst hut; simp_all
      all_goals (try (rcases mainScriptPc_cases cfg with h' | h' | h' <;> simp_all; done))
      all_goals (try (subst hth; unfold endOfScript; cases hrole : (getT s.thr t).role <;> simp_all; done))
      all_goals (try (subst hth; unfold endOfScript; rcases mainJoinPc_cases cfg with h' | h' <;> cases hrole : (getT s.thr t).role <;> simp_all; done))
    · simp only [hut, false_and, if_false]
      intro h1 h2
      simp_all)

theorem tj_step {cfg : Cfg} {s : State} {t c : Nat} {o} (h : step cfg s t c = some o) (hw : InvW cfg s) :
    o.st.term = true → o.st.wJ = [] ∨ ∃ x, nfJ (getT o.st.thr x).pc = true := by
  have hp := hw.tj
  have hwp := hw.wp t
  pool_step_cases h
  all_goals (
    have hlt := lt_of_getElem? ‹s.thr[t]? = some _›
    have hth := getT_of_getElem? ‹s.thr[t]? = some _›
    rw [hth] at hwp)
  all_goals (first
    | -- the wait set is emptied
      (intro _; left; rfl)
    | -- t has just set the flag (or is about to notify): it is the pending notifier
      (intro _; right; refine ⟨t, ?_⟩; simp [getT_set, hlt]; done)
    | -- the flag is not set (t enters the wait set)
      (intro hterm; simp_all; done)
    | (intro hterm
       have hterm' : s.term = true := hterm
       rcases hp hterm' with hnil | ⟨x, hx⟩
       · left
         first
         | exact hnil
         | (simp only [hnil]; simp [notifyRest]; done)
         | (simp only [hnil]; simp; done)
       · right
         refine ⟨x, ?_⟩
         simp only [setThr_thr, getT_set]
         by_cases hxt : t = x
         · subst hxt; rw [hth] at hx; simp_all; done
         · simp only [hxt, false_and, if_false]; exact hx)
    | skip)


/-- static shape of the thread table: main, then the workers, then the clients -/
structure Idx (cfg : Cfg) (s : State) : Prop where
  len : s.thr.length = 1 + cfg.nworkers + nclients cfg
  role0 : (getT s.thr 0).role = .main
  roleW : ∀ u, isWorker cfg u → (getT s.thr u).role = .worker
  roleC : ∀ i, i < nclients cfg → (getT s.thr (clientTid cfg i)).role = .client i

theorem getT_init_role (cfg : Cfg) :
    (getT (init cfg).thr 0).role = .main ∧
    (∀ u, isWorker cfg u → (getT (init cfg).thr u).role = .worker) ∧
    (∀ i, i < nclients cfg → (getT (init cfg).thr (clientTid cfg i)).role = .client i) := by
  refine ⟨by simp [getT, init], ?_, ?_⟩
  · intro u hu
    obtain ⟨k, rfl⟩ : ∃ k, u = k + 1 := ⟨u - 1, by have := hu.1; omega⟩
    have hk : k < cfg.nworkers := by have := hu.2; omega
    simp [getT, init, List.getD_eq_getElem?_getD, List.getElem?_append_left, hk]
  · intro i hi
    unfold clientTid
    have : cfg.nworkers + 1 + i = (cfg.nworkers + i) + 1 := by omega
    rw [this]
    simp [getT, init, List.getD_eq_getElem?_getD]
    rw [List.getElem?_append_right (by simp)]
    simp [nclients] at hi
    simp [hi]

theorem idx_init (cfg : Cfg) : Idx cfg (init cfg) := by
  have h := getT_init_role cfg
  exact ⟨by simp [init, nclients]; omega, h.1, h.2.1, h.2.2⟩

theorem idx_step {cfg : Cfg} {s : State} {t c : Nat} {o} (h : step cfg s t c = some o) (hi : Idx cfg s) :
    Idx cfg o.st := by
  have hf := role_frame h
  exact ⟨by rw [hf.1]; exact hi.len, by rw [hf.2]; exact hi.role0,
         fun u hu => by rw [hf.2]; exact hi.roleW u hu, fun i h' => by rw [hf.2]; exact hi.roleC i h'⟩

theorem reachable_idx {cfg : Cfg} {s : State} (h : Reachable cfg s) : Idx cfg s := by
  induction h with
  | init => exact idx_init cfg
  | step _ hs ih => exact idx_step hs ih

/-- clients `0 .. upto-1` have finished -/
def clientsDone (cfg : Cfg) (s : State) (upto : Nat) : Prop :=
  ∀ j, j < upto → (getT s.thr (clientTid cfg j)).pc = .finished

/-- what the pc of the main thread says about thread creation and about the clients -/
def mainOkP (cfg : Cfg) (s : State) : Pc → Prop
  | .start => s.spawned = 0
  | .mCtor i => s.spawned = i ∧ i < cfg.nworkers
  | .mSpawn i => s.spawned = cfg.nworkers + i ∧ i < nclients cfg
  | .call _ _ => s.spawned = cfg.nworkers + nclients cfg
  | .mJoinC i => s.spawned = cfg.nworkers + nclients cfg ∧ i < nclients cfg ∧ clientsDone cfg s i
  | .mDLock | .mDStore | .mDNotify | .mDUnlock | .finished =>
      s.spawned = cfg.nworkers + nclients cfg ∧ clientsDone cfg s (nclients cfg)
  | .mDJoin i => s.spawned = cfg.nworkers + nclients cfg ∧ clientsDone cfg s (nclients cfg) ∧ i < cfg.nworkers
  | _ => False

@[simp] theorem mainOkP_wLock (cfg : Cfg) (s : State) : mainOkP cfg s .wLock = False := rfl
@[simp] theorem mainOkP_wLoadTerm1 (cfg : Cfg) (s : State) : mainOkP cfg s .wLoadTerm1 = False := rfl
@[simp] theorem mainOkP_wIdleInc (cfg : Cfg) (s : State) : mainOkP cfg s .wIdleInc = False := rfl
@[simp] theorem mainOkP_wLoadTerm2 (cfg : Cfg) (s : State) : mainOkP cfg s .wLoadTerm2 = False := rfl
@[simp] theorem mainOkP_wWait (cfg : Cfg) (s : State) : mainOkP cfg s .wWait = False := rfl
@[simp] theorem mainOkP_wWaiting (cfg : Cfg) (s : State) : mainOkP cfg s .wWaiting = False := rfl
@[simp] theorem mainOkP_wIdleDec (cfg : Cfg) (s : State) : mainOkP cfg s .wIdleDec = False := rfl
@[simp] theorem mainOkP_wLoadTerm3 (cfg : Cfg) (s : State) : mainOkP cfg s .wLoadTerm3 = False := rfl
@[simp] theorem mainOkP_wBusyInc (cfg : Cfg) (s : State) : mainOkP cfg s .wBusyInc = False := rfl
@[simp] theorem mainOkP_wUnlockRun (cfg : Cfg) (s : State) : mainOkP cfg s .wUnlockRun = False := rfl
@[simp] theorem mainOkP_wFence (cfg : Cfg) (s : State) : mainOkP cfg s .wFence = False := rfl
@[simp] theorem mainOkP_wDoneInc (cfg : Cfg) (s : State) : mainOkP cfg s .wDoneInc = False := rfl
@[simp] theorem mainOkP_wBusyDec (cfg : Cfg) (s : State) : mainOkP cfg s .wBusyDec = False := rfl
@[simp] theorem mainOkP_wRelock (cfg : Cfg) (s : State) : mainOkP cfg s .wRelock = False := rfl
@[simp] theorem mainOkP_wNotify (cfg : Cfg) (s : State) : mainOkP cfg s .wNotify = False := rfl
@[simp] theorem mainOkP_wExitUnlock (cfg : Cfg) (s : State) : mainOkP cfg s .wExitUnlock = False := rfl
@[simp] theorem mainOkP_wInit (cfg : Cfg) (s : State) (i : Nat) : mainOkP cfg s (.wInit i) = False := rfl
@[simp] theorem mainOkP_start (cfg : Cfg) (s : State) : mainOkP cfg s .start = (s.spawned = 0) := rfl
@[simp] theorem mainOkP_mCtor (cfg : Cfg) (s : State) (i : Nat) : mainOkP cfg s (.mCtor i) = (s.spawned = i ∧ i < cfg.nworkers) := rfl
@[simp] theorem mainOkP_mSpawn (cfg : Cfg) (s : State) (i : Nat) : mainOkP cfg s (.mSpawn i) = (s.spawned = cfg.nworkers + i ∧ i < nclients cfg) := rfl
@[simp] theorem mainOkP_call (cfg : Cfg) (s : State) (k : Nat) (c : CPc) : mainOkP cfg s (.call k c) = (s.spawned = cfg.nworkers + nclients cfg) := rfl
@[simp] theorem mainOkP_mJoinC (cfg : Cfg) (s : State) (i : Nat) : mainOkP cfg s (.mJoinC i) = (s.spawned = cfg.nworkers + nclients cfg ∧ i < nclients cfg ∧ clientsDone cfg s i) := rfl
@[simp] theorem mainOkP_mDLock (cfg : Cfg) (s : State) : mainOkP cfg s .mDLock = (s.spawned = cfg.nworkers + nclients cfg ∧ clientsDone cfg s (nclients cfg)) := rfl
@[simp] theorem mainOkP_mDStore (cfg : Cfg) (s : State) : mainOkP cfg s .mDStore = (s.spawned = cfg.nworkers + nclients cfg ∧ clientsDone cfg s (nclients cfg)) := rfl
@[simp] theorem mainOkP_mDNotify (cfg : Cfg) (s : State) : mainOkP cfg s .mDNotify = (s.spawned = cfg.nworkers + nclients cfg ∧ clientsDone cfg s (nclients cfg)) := rfl
@[simp] theorem mainOkP_mDUnlock (cfg : Cfg) (s : State) : mainOkP cfg s .mDUnlock = (s.spawned = cfg.nworkers + nclients cfg ∧ clientsDone cfg s (nclients cfg)) := rfl
@[simp] theorem mainOkP_finished (cfg : Cfg) (s : State) : mainOkP cfg s .finished = (s.spawned = cfg.nworkers + nclients cfg ∧ clientsDone cfg s (nclients cfg)) := rfl
@[simp] theorem mainOkP_mDJoin (cfg : Cfg) (s : State) (i : Nat) : mainOkP cfg s (.mDJoin i) = (s.spawned = cfg.nworkers + nclients cfg ∧ clientsDone cfg s (nclients cfg) ∧ i < cfg.nworkers) := rfl

def mainOk (cfg : Cfg) (s : State) : Prop := mainOkP cfg s (getT s.thr 0).pc

/-- a finished thread stays finished, other threads do not touch it -/
theorem finished_stable {cfg : Cfg} {s : State} {t c : Nat} {o} (h : step cfg s t c = some o) (u : Nat)
    (hu : (getT s.thr u).pc = .finished) : (getT o.st.thr u).pc = .finished := by
  pool_step_cases h
  all_goals (
    have hlt := lt_of_getElem? ‹s.thr[t]? = some _›
    have hth := getT_of_getElem? ‹s.thr[t]? = some _›
    simp only [setThr_thr, getT_set]
    by_cases hut : t = u
    · subst hut; rw [hth] at hu; simp_all
    · simp only [hut, false_and, if_false]; exact hu)

theorem clientsDone_step {cfg : Cfg} {s : State} {t c : Nat} {o} (h : step cfg s t c = some o) {n : Nat}
    (hd : clientsDone cfg s n) : clientsDone cfg o.st n :=
  fun j hj => finished_stable h _ (hd j hj)

/-- every thread other than thread 0 is a worker or a client -/
theorem idx_cases {cfg : Cfg} {s : State} (hi : Idx cfg s) {t : Nat} (hlt : t < s.thr.length) :
    t = 0 ∨ isWorker cfg t ∨ ∃ i, i < nclients cfg ∧ t = clientTid cfg i := by
  have := hi.len
  by_cases h0 : t = 0
  · exact Or.inl h0
  · by_cases hw : t ≤ cfg.nworkers
    · exact Or.inr (Or.inl ⟨by omega, hw⟩)
    · exact Or.inr (Or.inr ⟨t - cfg.nworkers - 1, by omega, by unfold clientTid; omega⟩)

theorem role_ne_main {cfg : Cfg} {s : State} (hi : Idx cfg s) {t : Nat} (hlt : t < s.thr.length) (ht : t ≠ 0) :
    (getT s.thr t).role ≠ .main := by
  rcases idx_cases hi hlt with h | h | ⟨i, hi', rfl⟩
  · exact absurd h ht
  · rw [hi.roleW t h]; simp
  · rw [hi.roleC i hi']; simp

/-- other threads do not change the pc of the main thread or `spawned` -/
theorem main_frame {cfg : Cfg} {s : State} {t c : Nat} {o} (h : step cfg s t c = some o) (hb : InvB cfg s)
    (hi : Idx cfg s) (ht : t ≠ 0) : (getT o.st.thr 0).pc = (getT s.thr 0).pc ∧ o.st.spawned = s.spawned := by
  have hr := hb.role t
  pool_step_cases h
  all_goals (
    have hlt := lt_of_getElem? ‹s.thr[t]? = some _›
    have hth := getT_of_getElem? ‹s.thr[t]? = some _›
    simp only [setThr_thr, getT_set, ht, false_and, if_false, true_and])
  all_goals (first
    | rfl
    | (exfalso
       have hne := role_ne_main hi hlt ht
       rw [hth] at hr hne
       simp_all))

theorem mainOkP_frame {cfg : Cfg} {s s' : State} (pc : Pc) (hsp : s'.spawned = s.spawned)
    (hcd : ∀ n, clientsDone cfg s n → clientsDone cfg s' n) (h : mainOkP cfg s pc) : mainOkP cfg s' pc := by
  cases pc <;> simp only [mainOkP, hsp] at h ⊢ <;> first | exact h | (obtain ⟨h1, h2⟩ := h; first | exact ⟨h1, hcd _ h2⟩ | (obtain ⟨h2, h3⟩ := h2; first | exact ⟨h1, h2, hcd _ h3⟩ | exact ⟨h1, hcd _ h2, h3⟩))

theorem clientsDone_succ {cfg : Cfg} {s : State} {i : Nat} (hd : clientsDone cfg s i)
    (hf : (getT s.thr (clientTid cfg i)).pc = .finished) : clientsDone cfg s (i + 1) := by
  intro j hj
  by_cases hji : j = i
  · subst hji; exact hf
  · exact hd j (by omega)

theorem mainOk_step {cfg : Cfg} (hn : 1 ≤ cfg.nworkers) {s : State} {t c : Nat} {o} (h : step cfg s t c = some o)
    (hb : InvB cfg s) (hi : Idx cfg s) (hm : mainOk cfg s) : mainOk cfg o.st := by
  by_cases ht : t = 0
  · subst ht
    unfold mainOk at hm ⊢
    have hr0 := hi.role0
    have hcd : ∀ n, clientsDone cfg s n → clientsDone cfg o.st n := fun n hd => clientsDone_step h hd
    pool_step_cases h
    all_goals (
      have hlt := lt_of_getElem? ‹s.thr[0]? = some _›
      have hth := getT_of_getElem? ‹s.thr[0]? = some _›
      rw [hth] at hm hr0
      simp only [setThr_thr, getT_set, hlt, and_self, if_true])
    all_goals (first
      | (simp [*] at hm; done)
      | (have hcd0 : ∀ x n, clientsDone cfg (setThr s 0 x) n ↔ clientsDone cfg s n := by
           intro x n
           unfold clientsDone clientTid
           have hne : ∀ j, ¬ (0 = cfg.nworkers + 1 + j) := by intro j; omega
           simp [getT_set, hne]
         simp_all [hcd0]; done)
      | skip)
    all_goals (
      have hcd0 : ∀ (s' : State) x n, s'.thr = s.thr → (clientsDone cfg (setThr s' 0 x) n ↔ clientsDone cfg s n) := by
        intro s' x n hs'
        unfold clientsDone clientTid
        have hne : ∀ j, ¬ (0 = cfg.nworkers + 1 + j) := by intro j; omega
        simp [getT_set, hne, hs']
      have hcdz : clientsDone cfg s 0 := fun j hj => absurd hj (Nat.not_lt_zero j)
      simp only [*] at hm
      simp only [mainOkP_start, mainOkP_mCtor, mainOkP_mSpawn, mainOkP_call, mainOkP_mJoinC, mainOkP_mDLock,
        mainOkP_mDStore, mainOkP_mDNotify, mainOkP_mDUnlock, mainOkP_finished, mainOkP_mDJoin] at hm)
    all_goals (first
      | (simp [hcd0 _ _ _ rfl, workerTid, clientTid]; omega)
      | (have hfin : (getT s.thr (clientTid cfg ‹Nat›)).pc = .finished := by
           have := ‹(pcOf s (clientTid cfg _) == Pc.finished) = true›
           rw [pcOf_eq] at this; simpa using this
         have hnext := clientsDone_succ hm.2.2 hfin
         simp [hcd0 _ _ _ rfl]
         first
         | exact ⟨hm.1, by omega, hnext⟩
         | (refine ⟨hm.1, ?_⟩
            have : ‹Nat› + 1 = nclients cfg := by omega
            rw [← this]; exact hnext))
      | (rcases mainScriptPc_cases cfg with h' | h' | h' <;>
           simp [h', hcd0 _ _ _ rfl, workerTid, clientTid] <;>
           (first | omega | (refine ⟨by omega, ?_⟩; intro j hj; omega) | (refine ⟨by omega, by omega, ?_⟩; intro j hj; omega)))
      | skip)
    all_goals (
      have hne : ∀ j, ¬ (0 = cfg.nworkers + 1 + j) := by intro j; omega
      (try rw [endOfScript_pc_main _ _ hr0])
      first
      | (rcases mainScriptPc_cases cfg with h' | h' | h' <;>
           simp [h', clientsDone, getT_set, clientTid, workerTid, hne] <;>
           first | omega | (refine ⟨by omega, ?_⟩; intro j hj; omega) | (refine ⟨by omega, by omega, ?_⟩; intro j hj; omega))
      | (rcases mainJoinPc_cases cfg with h' | h' <;>
           simp [h', clientsDone, getT_set, clientTid, workerTid, hne] <;>
           first
           | omega
           | (unfold mainJoinPc at h'; split at h' <;> simp at h'
              first | (refine ⟨by omega, ?_⟩; intro j hj; omega) | (refine ⟨by omega, by omega, ?_⟩; intro j hj; omega)))
      | (simp [clientsDone, getT_set, clientTid, hne] at hm ⊢; exact ⟨hm.1, hm.2, by omega⟩)
      | skip)
    all_goals (
      have hne : ∀ j, ¬ (0 = cfg.nworkers + 1 + j) := by intro j; omega
      (try unfold mainScriptPc)
      unfold mainJoinPc
      (try split) <;> (try split) <;> simp [clientsDone, getT_set, clientTid, workerTid, hne] <;>
        first
        | omega
        | (refine ⟨by omega, ?_⟩; intro j hj; omega)
        | (refine ⟨by omega, by omega⟩))
  · have hf := main_frame h hb hi ht
    unfold mainOk
    rw [hf.1]
    exact mainOkP_frame _ hf.2 (fun n hd => clientsDone_step h hd) hm



theorem lt_length_of_pc {thr : List Thread} {u : Nat} (h : (getT thr u).pc ≠ .finished) : u < thr.length := by
  apply Classical.byContradiction
  intro hge
  apply h
  unfold getT
  rw [List.getD_eq_getElem?_getD, List.getElem?_eq_none (by omega)]
  rfl

theorem isWorker_of_role {cfg : Cfg} {s : State} (hi : Idx cfg s) {u : Nat} (hlt : u < s.thr.length)
    (hr : (getT s.thr u).role = .worker) : isWorker cfg u := by
  rcases idx_cases hi hlt with h | h | ⟨i, hi', rfl⟩
  · subst h; rw [hi.role0] at hr; simp at hr
  · exact h
  · rw [hi.roleC i hi'] at hr; simp at hr

/-- while jobs are queued and the pool is not terminated some worker is awake: it has not finished and
    is not parked in the wait set of `cv_jobs_` -/
def QA (cfg : Cfg) (s : State) : Prop :=
  s.queue ≠ [] → s.term = true ∨ ∃ w, isWorker cfg w ∧ (getT s.thr w).pc ≠ .finished ∧ w ∉ s.wJ

theorem qa_step {cfg : Cfg} (hn : 1 ≤ cfg.nworkers) {s : State} {t c : Nat} {o} (h : step cfg s t c = some o)
    (hi : Idx cfg s) (hb : InvB cfg s) (hw : InvW cfg s) (hq : QA cfg s) : QA cfg o.st := by
  have hwp := hw.wp t
  have hwx := hw.wx
  have hnd := hw.wjNodup
  have hpcj := hw.wjPc
  unfold QA at hq ⊢
  pool_step_cases h
  all_goals (
    have hlt := lt_of_getElem? ‹s.thr[t]? = some _›
    have hth := getT_of_getElem? ‹s.thr[t]? = some _›
    rw [hth] at hwp)
  all_goals (first
    | -- queue, term, wJ unchanged (or wJ shrinks / term set): an awake worker other than t stays awake; t itself stays awake
      (intro hne
       have hne' : s.queue ≠ [] := hne
       rcases hq hne' with ht' | ⟨w, hww, hpw, hnw⟩
       · left; first | exact ht' | rfl
       · right
         refine ⟨w, hww, ?_, ?_⟩
         · simp only [setThr_thr, getT_set]
           by_cases hwt : t = w
           · subst hwt; rw [hth] at hpw; simp_all; done
           · simp only [hwt, false_and, if_false]; exact hpw
         · first
           | exact hnw
           | (intro hc; exact hnw (mem_notifyRest hc))
           | (intro hc; exact hnw (List.mem_of_mem_erase hc))
           | (intro hc; simp at hc))
    | (intro _; left; rfl)
    | -- same with role information: the awake worker may be t itself, which stays awake
      (intro hne
       have hne' : s.queue ≠ [] := by first | exact hne | (rw [‹s.queue = _›]; simp)
       rcases hq hne' with ht' | ⟨w, hww, hpw, hnw⟩
       · left; exact ht'
       · by_cases hwt : t = w
         · subst hwt
           have hrole := hi.roleW t hww
           have hrp := hb.role t
           rw [hth] at hrole hpw hrp
           first
           | (exfalso; simp_all; done)
           | (right
              refine ⟨t, hww, ?_, hnw⟩
              simp only [setThr_thr, getT_set, hlt, and_self, if_true]
              first
              | (simp; done)
              | (rw [endOfScript_pc_worker _ _ hrole]; simp))
           | (left; apply hwx t
              · rw [hth]; exact hrole
              · rw [hth]; simp [*]; done)
         · right
           refine ⟨w, hww, ?_, hnw⟩
           simp only [setThr_thr, getT_set, hwt, false_and, if_false]; exact hpw)
    | -- wWait: the queue is empty
      (intro hne; exfalso; simp_all; done)
    | skip)
  -- enqueue: push + notify_one
  intro _
  by_cases hterm : s.term = true
  · left; exact hterm
  · right
    by_cases hwj : s.wJ = []
    · -- nobody waits for jobs: worker 1 has not finished (it would have seen the terminate flag)
      have h1 : isWorker cfg 1 := ⟨Nat.le_refl 1, hn⟩
      have hr1 := hi.roleW 1 h1
      have hnf : (getT s.thr 1).pc ≠ .finished := fun hf => hterm (hwx 1 hr1 (Or.inr hf))
      refine ⟨1, h1, ?_, by simp [hwj, notifyRest]⟩
      simp only [setThr_thr, getT_set]
      by_cases h1t : t = 1
      · subst h1t; simp [hlt]
      · simp only [h1t, false_and, if_false]; exact hnf
    · -- the woken worker has left the wait set
      obtain ⟨w, hwmem, hwnot⟩ := notifyRest_woken c hnd hwj
      have hpw := hpcj w hwmem
      have hwlt : w < s.thr.length := lt_length_of_pc (by rw [hpw]; simp)
      have hrw : (getT s.thr w).role = .worker := by
        have := hb.role w
        rw [hpw] at this
        simpa using this
      refine ⟨w, isWorker_of_role hi hwlt hrw, ?_, hwnot⟩
      simp only [setThr_thr, getT_set]
      by_cases hwt : t = w
      · subst hwt; simp [hlt]
      · simp only [hwt, false_and, if_false]; rw [hpw]; simp



theorem predEntry_wait {s : State} {a : Act} (h : predEntry s a = .wait) : a = .lue ∧ s.queue ≠ [] := by
  unfold predEntry at h
  cases a <;> simp at h
  exact ⟨rfl, h⟩
@[simp] theorem predEntry_ne_waiting (s : State) (a : Act) : (predEntry s a = .waiting) = False := by
  unfold predEntry; cases a <;> simp <;> split <;> simp

/-- no lost wake-up on `cv_finished_`: a thread that is about to block or is blocked in the wait set has a
    false predicate, or a `notify_all` is pending -/
def CW (cfg : Cfg) (s : State) : Prop :=
  ∀ c k a, ((getT s.thr c).pc = .call k .wait ∨ ((getT s.thr c).pc = .call k .waiting ∧ c ∈ s.wF)) →
    (script cfg (getT s.thr c))[k]? = some a → blockedOk s a

/-- the wait set of `cv_finished_` only grows by the acting thread -/
theorem wF_sub {cfg : Cfg} {s : State} {t c : Nat} {o} (h : step cfg s t c = some o) (u : Nat) (hu : u ∈ o.st.wF) :
    u ∈ s.wF ∨ u = t := by
  pool_step_cases h
  all_goals (first
    | (left; exact hu)
    | (simp at hu; done)
    | (left; exact List.mem_of_mem_erase hu)
    | (simp at hu; rcases hu with hu | hu; exact Or.inl hu; exact Or.inr hu))

/-- how a step of thread `t` affects "predicate false or notification pending" of another thread's call -/
theorem blockedOk_step {cfg : Cfg} {s : State} {t c : Nat} {o} (h : step cfg s t c = some o) (a : Act)
    (hold : blockedOk s a) :
    blockedOk o.st a ∨ (o.st.wF = [] ∧ holds (getT s.thr t).pc = true) ∨ (getT s.thr t).pc = .mDStore := by
  cases a with
  | enq n => left; trivial
  | term => left; trivial
  | obsDone => left; trivial
  | obsIdle => left; trivial
  | throw => left; trivial
  | lue =>
    unfold blockedOk at hold ⊢
    pool_step_cases h
    all_goals (
      have hlt := lt_of_getElem? ‹s.thr[t]? = some _›
      have hth := getT_of_getElem? ‹s.thr[t]? = some _›)
    all_goals (first
      | -- notify_all on cv_finished_: the wait set is emptied
        (right; left; refine ⟨rfl, ?_⟩; rw [hth]; simp [*]; done)
      | -- the destructor sets the flag
        (right; right; rw [hth]; assumption)
      | (rcases hold with hq | hbz | ⟨x, hx⟩
         · first
           | (left; left; exact hq)
           | (left; left; simp; done)
           | (left; right; left; simp; done)
           | (left; right; right; refine ⟨t, ?_⟩; simp [getT_set, hlt]; done)
         · first
           | (left; right; left; exact hbz)
           | (left; right; left; simp; done)
           | (left; right; right; refine ⟨t, ?_⟩; simp [getT_set, hlt]; done)
         · by_cases hxt : t = x
           · subst hxt
             rw [hth] at hx
             first
             | (exfalso; simp_all; done)
             | (left; right; right; refine ⟨t, ?_⟩; simp [getT_set, hlt]; done)
           · left; right; right
             refine ⟨x, ?_⟩
             simp only [setThr_thr, getT_set, hxt, false_and, if_false]; exact hx)
      | skip)
  | lut =>
    unfold blockedOk at hold ⊢
    pool_step_cases h
    all_goals (
      have hlt := lt_of_getElem? ‹s.thr[t]? = some _›
      have hth := getT_of_getElem? ‹s.thr[t]? = some _›)
    all_goals (first
      | -- notify_all on cv_finished_: the wait set is emptied
        (right; left; refine ⟨rfl, ?_⟩; rw [hth]; simp [*]; done)
      | -- the destructor sets the flag
        (right; right; rw [hth]; assumption)
      | (rcases hold with hq | hbz | ⟨x, hx⟩
         · first
           | (left; left; exact hq)
           | (left; left; simp; done)
           | (left; right; left; simp; done)
           | (left; right; right; refine ⟨t, ?_⟩; simp [getT_set, hlt]; done)
         · first
           | (left; right; left; exact hbz)
           | (left; right; left; simp; done)
           | (left; right; right; refine ⟨t, ?_⟩; simp [getT_set, hlt]; done)
         · by_cases hxt : t = x
           · subst hxt
             rw [hth] at hx
             first
             | (exfalso; simp_all; done)
             | (left; right; right; refine ⟨t, ?_⟩; simp [getT_set, hlt]; done)
           · left; right; right
             refine ⟨x, ?_⟩
             simp only [setThr_thr, getT_set, hxt, false_and, if_false]; exact hx)
      | skip)


/-- the acting thread itself: it blocks (or stays blocked) only with a false predicate -/
theorem cw_self {cfg : Cfg} {s : State} {t c : Nat} {o} (h : step cfg s t c = some o) (hb : InvB cfg s)
    (hcw : CW cfg s) : ∀ k a,
      ((getT o.st.thr t).pc = .call k .wait ∨ ((getT o.st.thr t).pc = .call k .waiting ∧ t ∈ o.st.wF)) →
      (script cfg (getT o.st.thr t))[k]? = some a → blockedOk o.st a := by
  have hcwt := hcw t
  have hct : ∀ k c, (getT s.thr t).pc = .call k c → ∃ a, (script cfg (getT s.thr t))[k]? = some a ∧ cpcOk a c = true :=
    fun k c hp => callOk_call (hb.call t) hp
  have hwf := (InvB.role hb t)
  pool_step_cases h
  all_goals (
    have hlt := lt_of_getElem? ‹s.thr[t]? = some _›
    have hth := getT_of_getElem? ‹s.thr[t]? = some _›
    rw [hth] at hcwt hct
    intro k a
    simp only [setThr_thr, getT_set, hlt, and_self, if_true]
    (try simp only [script_mk_pc, script_endOfScript]))
  all_goals (first
    | (intro hpc; simp at hpc; done)
    | (intro hpc; simp [predEntry] at hpc; done)
    | skip)
  all_goals (first
    | -- the mutex was (re-)acquired and the predicate of loop_until_empty is false: jobs are queued
      (intro hpc hsc
       simp at hpc
       obtain ⟨rfl, hpe⟩ := hpc
       obtain ⟨_, hq⟩ := predEntry_wait hpe
       have : a = .lue := by
         have h1 := ‹(script cfg _)[_]? = some Act.lue›
         rw [h1] at hsc; exact (Option.some.inj hsc).symm
       subst this
       exact Or.inl hq)
    | (intro hpc hsc
       simp at hpc
       obtain ⟨rfl, hpe⟩ := hpc
       obtain ⟨rfl, hq⟩ := predEntry_wait hpe
       have : a = .lue := by
         have h1 := ‹(script cfg _)[_]? = some Act.lue›
         rw [h1] at hsc; exact (Option.some.inj hsc).symm
       subst this
       exact Or.inl hq)
    | -- wait → waiting: same predicate state
      (intro hpc hsc
       simp at hpc
       obtain ⟨rfl, _⟩ := hpc
       have hold := hcwt _ a (Or.inl ‹_ = Pc.call _ CPc.wait›) hsc
       cases a <;> simp only [blockedOk] at hold ⊢ <;> (try trivial)
       all_goals (
         rcases hold with h1 | h2 | ⟨x, hx⟩
         · exact Or.inl h1
         · exact Or.inr (Or.inl h2)
         · refine Or.inr (Or.inr ⟨x, ?_⟩)
           simp only [getT_set]
           by_cases hxt : t = x
           · subst hxt; rw [hth] at hx; simp_all
           · simp only [hxt, false_and, if_false]; exact hx))
    | -- the atomic load showed the predicate false
      (intro hpc hsc
       simp at hpc
       subst hpc
       obtain ⟨a', ha', hok⟩ := hct _ _ ‹_ = Pc.call _ _›
       rw [ha'] at hsc
       have : a' = a := Option.some.inj hsc
       subst this
       cases a' <;> simp_all [blockedOk] <;> (subst_vars; simp_all))
    | skip)

/-- a worker inside a job is never in one of the waiting calls (job bodies only enqueue / terminate) -/
theorem worker_not_waiting {cfg : Cfg} (hj : JobsOk cfg) {s : State} (hb : InvB cfg s) {u k : Nat} {cp : CPc}
    (hr : (getT s.thr u).role = .worker) (hp : (getT s.thr u).pc = .call k cp) : cp ≠ .wait ∧ cp ≠ .waiting := by
  obtain ⟨a, ha, hok⟩ := callOk_call (hb.call u) hp
  have hmem := (mem_script (List.mem_of_getElem? ha)).2
  have hacts : (∃ c, a = .enq c) ∨ a = .term ∨ a = .obsDone ∨ a = .obsIdle ∨ a = .throw := by
    rcases hmem with hmem | ⟨j, _, _, hmem⟩
    · unfold fullScript at hmem
      rw [hr] at hmem
      simp only at hmem
      cases hjob : (getT s.thr u).job with
      | none => simp [hjob] at hmem
      | some j => simp only [hjob] at hmem; exact hj j.code a (Or.inl hmem)
    · exact hj j.code a (Or.inr hmem)
  rcases hacts with ⟨n, rfl⟩ | rfl | rfl | rfl | rfl <;>
    (constructor <;> (intro hc; subst hc; simp at hok))

theorem cw_step {cfg : Cfg} (hj : JobsOk cfg) {s : State} {t c : Nat} {o} (h : step cfg s t c = some o)
    (hi : Idx cfg s) (hb : InvB cfg s) (hw : InvW cfg s) (hm : mainOk cfg s) (hcw : CW cfg s) : CW cfg o.st := by
  intro u k a hpc hsc
  by_cases hut : t = u
  · subst hut
    exact cw_self h hb hcw k a hpc hsc
  · have hfr := other_frame h u hut
    rw [hfr] at hpc hsc
    -- the old obligation for u
    have hpc' : (getT s.thr u).pc = .call k .wait ∨ ((getT s.thr u).pc = .call k .waiting ∧ u ∈ s.wF) := by
      rcases hpc with h1 | ⟨h1, h2⟩
      · exact Or.inl h1
      · rcases wF_sub h u h2 with h3 | h3
        · exact Or.inr ⟨h1, h3⟩
        · exact absurd h3.symm hut
    have hold := hcw u k a hpc' hsc
    rcases blockedOk_step h a hold with hnew | ⟨hwf, hholds⟩ | hds
    · exact hnew
    · -- t performed notify_all on cv_finished_ while holding the mutex: u cannot be at `wait`, and the wait set is empty
      exfalso
      rcases hpc with h1 | ⟨_, h2⟩
      · have hu : holds (getT s.thr u).pc = true := by rw [h1]; simp
        have e1 := (hb.mutex u).mp hu
        have e2 := (hb.mutex t).mp hholds
        rw [e1] at e2
        exact hut (Option.some.inj e2).symm
      · rw [hwf] at h2; simp at h2
    · -- the destructor: all clients have finished, so nobody is at or in a wait on cv_finished_
      exfalso
      have hholds : holds (getT s.thr t).pc = true := by rw [hds]; simp
      have hupc : (getT s.thr u).pc ≠ .finished := by
        rcases hpc' with h1 | ⟨h1, _⟩ <;> rw [h1] <;> simp
      have hult : u < s.thr.length := lt_length_of_pc hupc
      have htlt : t < s.thr.length := lt_length_of_pc (by rw [hds]; simp)
      -- t is the main thread
      have ht0 : t = 0 := by
        apply Classical.byContradiction
        intro hne
        have := role_ne_main hi htlt hne
        have hr := hb.role t
        rw [hds] at hr
        simp at hr
        exact this hr
      subst ht0
      unfold mainOk at hm
      rw [hds] at hm
      simp at hm
      rcases idx_cases hi hult with h0 | hwk | ⟨i, hi', rfl⟩
      · exact hut h0.symm
      · have hr := hi.roleW u hwk
        rcases hpc' with h1 | ⟨h1, _⟩
        · exact (worker_not_waiting hj hb hr h1).1 rfl
        · exact (worker_not_waiting hj hb hr h1).2 rfl
      · exact hupc (hm.2 i hi')


/-! ### the liveness invariant -/

structure InvL (cfg : Cfg) (s : State) : Prop where
  idx : Idx cfg s
  b : InvB cfg s
  w : InvW cfg s
  main : mainOk cfg s
  qa : QA cfg s
  cw : CW cfg s

theorem invW_init (cfg : Cfg) : InvW cfg (init cfg) := by
  refine ⟨by simp [init], ?_, by simp [init], ?_, ?_, ?_, ?_⟩
  · intro w hw; simp [init] at hw
  · intro w hw; simp [init] at hw
  · intro w hp
    rcases getT_init_pc cfg w with h | h <;> rw [h] at hp <;> simp at hp
  · intro w _ hp
    rcases getT_init_pc cfg w with h | h
    · rcases hp with hp | hp <;> rw [h] at hp <;> simp at hp
    · -- beyond the thread table the default record has role `main`
      exfalso
      have hlt : ¬ w < (init cfg).thr.length := by
        intro hlt
        have := init_pc cfg _ (List.getElem_mem hlt)
        rw [getElem_eq_getT hlt, h] at this
        simp at this
      have hd : getT (init cfg).thr w = dflt := by
        unfold getT
        rw [List.getD_eq_getElem?_getD, List.getElem?_eq_none (by omega)]
        rfl
      rename_i hr
      rw [hd] at hr
      simp [dflt] at hr
  · intro ht; simp [init] at ht

theorem invL_init (cfg : Cfg) : InvL cfg (init cfg) := by
  refine ⟨idx_init cfg, invB_init cfg, invW_init cfg, ?_, ?_, ?_⟩
  · unfold mainOk
    have : (getT (init cfg).thr 0).pc = .start := by simp [getT, init]
    rw [this]; simp [init]
  · intro hq; simp [init] at hq
  · intro u k a hpc
    rcases getT_init_pc cfg u with h | h <;> rw [h] at hpc <;> simp at hpc

theorem invW_step {cfg : Cfg} {s : State} {t c : Nat} {o} (h : step cfg s t c = some o) (hb : InvB cfg s)
    (hw : InvW cfg s) : InvW cfg o.st :=
  { wjNodup := wjNodup_step h hw
    wjPc := wjPc_step h hw
    wfNodup := wfNodup_step h hw
    wfPc := wfPc_step h hw
    wp := wp_step h hb hw
    wx := wx_step h hb hw
    tj := tj_step h hw }

theorem invL_step {cfg : Cfg} (hn : 1 ≤ cfg.nworkers) (hj : JobsOk cfg) {s : State} {t c : Nat} {o}
    (h : step cfg s t c = some o) (hi : InvL cfg s) : InvL cfg o.st :=
  { idx := idx_step h hi.idx
    b := invB_step h hi.b
    w := invW_step h hi.b hi.w
    main := mainOk_step hn h hi.b hi.idx hi.main
    qa := qa_step hn h hi.idx hi.b hi.w hi.qa
    cw := cw_step hj h hi.idx hi.b hi.w hi.main hi.cw }

theorem reachable_invL {cfg : Cfg} (hn : 1 ≤ cfg.nworkers) (hj : JobsOk cfg) {s : State} (h : Reachable cfg s) :
    InvL cfg s := by
  induction h with
  | init => exact invL_init cfg
  | step _ hs ih => exact invL_step hn hj hs ih

/-- after the destructor has set the flag it stays set -/
def dtorPc : Pc → Bool
  | .mDNotify | .mDUnlock | .mDJoin _ => true
  | _ => false

def DtorTerm (s : State) : Prop := ∀ u, dtorPc (getT s.thr u).pc = true → s.term = true

theorem dtorTerm_init (cfg : Cfg) : DtorTerm (init cfg) := by
  intro u hp
  rcases getT_init_pc cfg u with h | h <;> rw [h] at hp <;> simp [dtorPc] at hp

theorem dtorTerm_step {cfg : Cfg} {s : State} {t c : Nat} {o} (h : step cfg s t c = some o) (hd : DtorTerm s) :
    DtorTerm o.st := by
  unfold DtorTerm at hd ⊢
  pool_step_cases h
  all_goals (
    have hlt := lt_of_getElem? ‹s.thr[t]? = some _›
    have hth := getT_of_getElem? ‹s.thr[t]? = some _›
    intro u
    have hu := hd u
    have ht := hd t
    rw [hth] at ht
    simp only [setThr_thr, getT_set]
    by_cases hut : t = u
    · subst hut
      simp only [hlt, and_self, if_true]
      intro hp
      first
      | (simp [dtorPc] at hp; done)
      | (simp_all [dtorPc]; done)
      | (rcases mainScriptPc_cases cfg with h' | h' | h' <;> rw [h'] at hp <;> simp [dtorPc] at hp)
      | (exfalso; revert hp; unfold endOfScript; rcases mainJoinPc_cases cfg with h' | h' <;> cases ‹Thread›.role <;> simp [dtorPc, h'])
    · simp only [hut, false_and, if_false]
      intro hp
      first
      | exact hu hp
      | rfl
      | trivial)

theorem reachable_dtorTerm {cfg : Cfg} {s : State} (h : Reachable cfg s) : DtorTerm s := by
  induction h with
  | init => exact dtorTerm_init cfg
  | step _ hs ih => exact dtorTerm_step hs ih


/-- at rest: no thread can take a step without a spurious wake-up -/
def AtRest (cfg : Cfg) (s : State) : Prop := ∀ t, enabled cfg s t = false

theorem enabled_eq (cfg : Cfg) (s : State) (t : Nat) (hlt : t < s.thr.length) :
    enabled cfg s t =
      match (getT s.thr t).pc with
      | .finished => false
      | .start => decide (t ≤ s.spawned)
      | .wLock | .wRelock | .mDLock => s.owner.isNone
      | .call k .lock =>
        match (script cfg (getT s.thr t))[k]? with
        | some .obsDone | some .obsIdle => true
        | _ => s.owner.isNone
      | .wWaiting => s.owner.isNone && !s.wJ.contains t
      | .call _ .waiting => s.owner.isNone && !s.wF.contains t
      | .mJoinC i => pcOf s (clientTid cfg i) == .finished
      | .mDJoin i => pcOf s (workerTid i) == .finished
      | _ => true := by
  unfold enabled
  rw [List.getElem?_eq_getElem hlt, getElem_eq_getT hlt]
  rfl

/-- at rest the mutex is free -/
theorem rest_owner {cfg : Cfg} {s : State} (hb : InvB cfg s) (hr : AtRest cfg s) : s.owner = none := by
  cases ho : s.owner with
  | none => rfl
  | some u =>
    exfalso
    have hu := (hb.mutex u).mpr ho
    have hlt : u < s.thr.length := lt_length_of_pc (by intro h; rw [h] at hu; simp at hu)
    have hr' := hr u
    rw [enabled_eq cfg s u hlt] at hr'
    cases hp : (getT s.thr u).pc <;> simp [hp] at hu hr'
    rename_i k cp
    cases cp <;> simp at hu hr'

/-- first classification of a thread at rest, from enabledness alone -/
theorem rest_thread {cfg : Cfg} {s : State} (hr : AtRest cfg s) (ho : s.owner = none) (u : Nat)
    (hlt : u < s.thr.length) :
    (getT s.thr u).pc = .finished ∨
    ((getT s.thr u).pc = .start ∧ s.spawned < u) ∨
    ((getT s.thr u).pc = .wWaiting ∧ u ∈ s.wJ) ∨
    (∃ k, (getT s.thr u).pc = .call k .waiting ∧ u ∈ s.wF) ∨
    (∃ i, (getT s.thr u).pc = .mJoinC i ∧ (getT s.thr (clientTid cfg i)).pc ≠ .finished) ∨
    (∃ i, (getT s.thr u).pc = .mDJoin i ∧ (getT s.thr (workerTid i)).pc ≠ .finished) := by
  have hr' := hr u
  rw [enabled_eq cfg s u hlt] at hr'
  cases hp : (getT s.thr u).pc <;> simp [hp, ho, pcOf_eq] at hr' ⊢
  · omega
  · exact hr'
  · exact hr'
  · exact hr'
  · rename_i k cp
    cases cp <;> simp [ho] at hr' ⊢
    · split at hr' <;> simp at hr'
    · exact hr'


/-- run a list of (thread, draw) choices; `none` if some chosen thread cannot step -/
def runChoices (cfg : Cfg) (s : State) : List (Nat × Nat) → Option State
  | [] => some s
  | (t, c) :: rest =>
    match step cfg s t c with
    | some o => runChoices cfg o.st rest
    | none => none

theorem reachable_runChoices {cfg : Cfg} {s s' : State} (l : List (Nat × Nat))
    (h : Reachable cfg s) (hr : runChoices cfg s l = some s') : Reachable cfg s' := by
  induction l generalizing s with
  | nil => simp [runChoices] at hr; subst hr; exact h
  | cons p rest ih =>
    obtain ⟨t, c⟩ := p
    simp only [runChoices] at hr
    split at hr
    · rename_i o ho
      exact ih (Reachable.step h ho) hr
    · simp at hr

/-! ### the idle counter -/

/-- between `++idle_` and `--idle_`: the worker is (about to be) waiting for jobs -/
def idlePc : Pc → Bool
  | .wLoadTerm2 | .wWait | .wWaiting | .wIdleDec => true
  | _ => false

def inIdle (th : Thread) : Bool := idlePc th.pc

theorem idlePc_eq (pc : Pc) :
    idlePc pc = (pc == .wLoadTerm2 || pc == .wWait || pc == .wWaiting || pc == .wIdleDec) := by
  cases pc <;> rfl
@[simp] theorem idlePc_mainJoinPc (cfg : Cfg) : idlePc (mainJoinPc cfg) = false := by
  rcases mainJoinPc_cases cfg with h | h <;> rw [h] <;> rfl
@[simp] theorem idlePc_mainScriptPc (cfg : Cfg) : idlePc (mainScriptPc cfg) = false := by
  rcases mainScriptPc_cases cfg with h | h | h <;> rw [h] <;> rfl
@[simp] theorem idlePc_endOfScript (cfg : Cfg) (th : Thread) : idlePc (endOfScript cfg th).pc = false := by
  unfold endOfScript; cases th.role <;> first | rfl | exact idlePc_mainJoinPc cfg
@[simp] theorem idlePc_call (k : Nat) (c : CPc) : idlePc (.call k c) = false := rfl

theorem idle_step {cfg : Cfg} {s : State} {t c : Nat} {o} (h : step cfg s t c = some o)
    (hi : s.idle = s.thr.countP inIdle) : o.st.idle = o.st.thr.countP inIdle := by
  pool_step_cases h
  all_goals (
    have hlt := lt_of_getElem? ‹s.thr[t]? = some _›
    have hth := getT_of_getElem? ‹s.thr[t]? = some _›
    have hge := getElem_eq_getT hlt
    simp only [setThr_thr]
    rw [countP_set' _ _ _ _ hlt, hge, hth]
    simp only [inIdle]
    (try simp only [idlePc_mainScriptPc, idlePc_mainJoinPc, idlePc_endOfScript, idlePc_call])
    simp_all [idlePc_eq])
  all_goals (first
    | (have := one_le_countP inIdle s.thr t hlt (by rw [hge]; simp [inIdle, idlePc_eq, *]); omega)
    | skip)

theorem reachable_idle {cfg : Cfg} {s : State} (h : Reachable cfg s) : s.idle = s.thr.countP inIdle := by
  induction h with
  | init => rw [countP_init_zero cfg inIdle (by intro th h; simp [inIdle, idlePc_eq, h])]; rfl
  | step _ hs ih => exact idle_step hs ih


/-! ### `enabled` characterises the transitions -/

/-- a worker about to pop holds the mutex and has seen a non-empty queue -/
def BusyIncQ (s : State) : Prop := ∀ w, (getT s.thr w).pc = .wBusyInc → s.queue ≠ []

theorem busyIncQ_step {cfg : Cfg} {s : State} {t c : Nat} {o} (h : step cfg s t c = some o) (hb : InvB cfg s)
    (hq : BusyIncQ s) : BusyIncQ o.st := by
  have hm := hb.mutex
  unfold BusyIncQ at hq ⊢
  pool_step_cases h
  all_goals (
    have hlt := lt_of_getElem? ‹s.thr[t]? = some _›
    have hth := getT_of_getElem? ‹s.thr[t]? = some _›
    intro w
    have hqw := hq w
    have hmw := hm w
    have hmt := hm t
    simp only [setThr_thr, getT_set]
    by_cases hut : t = w
    · subst hut; simp_all
      all_goals (try (rcases mainScriptPc_cases cfg with h' | h' | h' <;> simp_all; done))
      all_goals (try (subst hth; unfold endOfScript; cases hrole : (getT s.thr t).role <;> simp_all; done))
      all_goals (try (subst hth; unfold endOfScript; rcases mainJoinPc_cases cfg with h' | h' <;> cases hrole : (getT s.thr t).role <;> simp_all; done))
    · simp only [hut, false_and, if_false]
      intro h1
      simp_all)

theorem reachable_busyIncQ {cfg : Cfg} {s : State} (h : Reachable cfg s) : BusyIncQ s := by
  induction h with
  | init =>
    intro w hp
    rcases getT_init_pc cfg w with h | h <;> rw [h] at hp <;> simp at hp
  | step hr hs ih => exact busyIncQ_step hs (reachable_invB hr) ih

/-- **`enabled` is exactly "can take a step"** (in reachable states): an enabled thread has a transition. -/
theorem enabled_step {cfg : Cfg} {s : State} (h : Reachable cfg s) {t : Nat} (c : Nat)
    (he : enabled cfg s t = true) : ∃ o, step cfg s t c = some o := by
  have hb := reachable_invB h
  have hq := reachable_busyIncQ h t
  have hcall : ∀ k cp, (getT s.thr t).pc = .call k cp → ∃ a, (script cfg (getT s.thr t))[k]? = some a ∧ cpcOk a cp = true :=
    fun k cp hp => callOk_call (hb.call t) hp
  unfold enabled at he
  unfold step
  cases hth : s.thr[t]? with
  | none => simp [hth] at he
  | some th =>
    have hgt := getT_of_getElem? hth
    rw [hgt] at hq hcall
    simp only [hth] at he ⊢
    cases hp : th.pc <;> simp [hp, out] at he hq hcall ⊢
    all_goals (try (simp_all; done))
    all_goals (try (repeat' split) <;> simp_all <;> done)
    -- inside a call: the sub-pc belongs to the call, so the matching branch exists
    rename_i k cp
    obtain ⟨a, ha, hok⟩ := hcall
    simp only [ha]
    cases cp <;> cases a <;> simp at hok he ⊢ <;> (try (repeat' split)) <;> simp_all
    all_goals (exact script_ne_throw ‹_›)


/-! ### jobs that throw -/

/-- jobs that threw are recorded as finished -/
theorem thrown_step {cfg : Cfg} {s : State} {t c : Nat} {o} (h : step cfg s t c = some o)
    (hi : ∀ id, id ∈ s.thrown → id ∈ s.finished) : ∀ id, id ∈ o.st.thrown → id ∈ o.st.finished := by
  pool_step_cases h
  all_goals (first
    | exact hi
    | (intro id hid
       simp only [bodyEndThrown, bodyEndFin] at hid ⊢
       split at hid <;> split <;> simp_all <;>
         (first | (rcases hid with hid | hid <;> simp_all) | skip)))

theorem reachable_thrown {cfg : Cfg} {s : State} (h : Reachable cfg s) : ∀ id, id ∈ s.thrown → id ∈ s.finished := by
  induction h with
  | init => intro id hid; simp [init] at hid
  | step _ hs ih => exact thrown_step hs ih


/-! ### destruction of the job object -/

theorem mem_bodyEndFin {cfg : Cfg} {s : State} {th : Thread} {k : Nat} {id : Nat} (h : id ∈ s.finished) :
    id ∈ bodyEndFin cfg s th k := by
  unfold bodyEndFin; split <;> simp [h]

theorem bodyEndFin_self {cfg : Cfg} {s : State} {th : Thread} {k : Nat} (h : bodyEnds cfg th k = true) :
    jobId th ∈ bodyEndFin cfg s th k := by
  unfold bodyEndFin; simp [h]

/-- `finished` only grows -/
theorem finished_mono {cfg : Cfg} {s : State} {t c : Nat} {o} (h : step cfg s t c = some o) :
    ∀ id, id ∈ s.finished → id ∈ o.st.finished := by
  pool_step_cases h
  all_goals (first
    | (intro id hid; exact hid)
    | (intro id hid; exact mem_bodyEndFin hid))

/-- a worker that is past the body of its job (inside the destructor of the closure) has its job in `finished` -/
def BodyDone (cfg : Cfg) (s : State) : Prop :=
  ∀ w k c, (getT s.thr w).role = .worker → (getT s.thr w).pc = .call k c →
    (bodyScript cfg (getT s.thr w)).length ≤ k → jobId (getT s.thr w) ∈ s.finished

@[simp] theorem bodyScript_mk_pc (cfg : Cfg) (th : Thread) (pc : Pc) :
    bodyScript cfg { role := th.role, pc := pc, job := th.job } = bodyScript cfg th := rfl

theorem bodyDone_step {cfg : Cfg} {s : State} {t c : Nat} {o} (h : step cfg s t c = some o) (hb : InvB cfg s)
    (hi : BodyDone cfg s) :
    BodyDone cfg o.st := by
  intro w k cp hr hp hk
  by_cases hwt : t = w
  · subst hwt
    have hold := hi t
    have hrole := hb.role t
    revert hr hp hk
    pool_step_cases h
    all_goals (
      have hlt := lt_of_getElem? ‹s.thr[t]? = some _›
      have hth := getT_of_getElem? ‹s.thr[t]? = some _›
      rw [hth] at hold hrole
      simp only [setThr_thr, getT_set, hlt, and_self, if_true])
    all_goals (first
      | (intro hr hp hk; simp at hp; done)
      | skip)
    all_goals (
      intro hr hp hk
      (try simp at hp)
      first
      | (exfalso; simp_all; done)
      | (obtain ⟨rfl, _⟩ := hp
         first
         | exact hold _ _ hr ‹_ = Pc.call _ _› hk
         | exact mem_bodyEndFin (hold _ _ hr ‹_ = Pc.call _ _› hk))
      | (-- the next call of the script: either the body ended earlier, or it ends right here
         obtain ⟨rfl, _⟩ := hp
         simp only [bodyScript_mk_pc] at hk
         by_cases hle : (bodyScript cfg ‹Thread›).length ≤ ‹Nat›
         · exact mem_bodyEndFin (hold _ _ hr ‹_ = Pc.call _ _› hle)
         · apply bodyEndFin_self
           simp [bodyEnds, hr]; omega)
      | (-- the first call of the job: the body is empty
         obtain ⟨rfl, _⟩ := hp
         simp only [bodyScript_mk_pc] at hk
         apply bodyEndFin_self
         simp [bodyEnds, hr]; omega))
  · rw [other_frame h w hwt] at hr hp hk ⊢
    exact finished_mono h _ (hi w k cp hr hp hk)

/-- every closure destroyed by a worker belongs to a job whose body has ended -/
theorem destroyed_step {cfg : Cfg} {s : State} {t c : Nat} {o} (h : step cfg s t c = some o) (hb : InvB cfg s)
    (hbd : BodyDone cfg s) (hi : ∀ id, id ∈ s.destroyed → id ∈ s.finished) :
    ∀ id, id ∈ o.st.destroyed → id ∈ o.st.finished := by
  have hold := hbd t
  have hrole := hb.role t
  have hmono := finished_mono h
  pool_step_cases h
  all_goals (first
    | (intro id hid; exact hmono id (hi id hid))
    | skip)
  all_goals (
    have hlt := lt_of_getElem? ‹s.thr[t]? = some _›
    have hth := getT_of_getElem? ‹s.thr[t]? = some _›
    rw [hth] at hold hrole
    intro id hid
    simp only [endOfScriptDes] at hid
    split at hid
    · rename_i hr
      simp only [List.mem_append, List.mem_singleton] at hid
      rcases hid with hid | rfl
      · exact mem_bodyEndFin (hi id hid)
      · -- the script is over: the body ended earlier or ends right here
        first
        | (by_cases hle : (bodyScript cfg ‹Thread›).length ≤ ‹Nat›
           · exact mem_bodyEndFin (hold _ _ hr ‹_ = Pc.call _ _› hle)
           · apply bodyEndFin_self
             have hlen : (script cfg ‹Thread›).length = (bodyScript cfg ‹Thread›).length + (dtorScript cfg ‹Thread›).length := by
               simp [script]
             simp [bodyEnds, hr]; omega)
        | (apply bodyEndFin_self
           have hemp : script cfg ‹Thread› = [] := by assumption
           have hlen := congrArg List.length hemp
           simp only [script, List.length_append, List.length_nil] at hlen
           have h0 : (bodyScript cfg ‹Thread›).length = 0 := by omega
           simp [bodyEnds, hr, h0])
    · exact mem_bodyEndFin (hi id hid))

structure FinInv (cfg : Cfg) (s : State) : Prop where
  bodyDone : BodyDone cfg s
  desFin : ∀ id, id ∈ s.destroyed → id ∈ s.finished

theorem reachable_finInv {cfg : Cfg} {s : State} (h : Reachable cfg s) : FinInv cfg s := by
  induction h with
  | init =>
    refine ⟨?_, by intro id hid; simp [init] at hid⟩
    intro w k c _ hp
    rcases getT_init_pc cfg w with h | h <;> rw [h] at hp <;> simp at hp
  | step hr hs ih =>
    have hb := reachable_invB hr
    exact ⟨bodyDone_step hs hb ih.bodyDone, destroyed_step hs hb ih.bodyDone ih.desFin⟩


end TlxVerif.C10
