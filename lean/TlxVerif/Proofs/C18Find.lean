/-
C18 — lemmas connecting the model's scans with the specification's
`least` / `greatest` formulations.
-/
import TlxVerif.Proofs.C18Basic
import TlxVerif.Proofs.C18Search
namespace TlxVerif.C18
open Spec

/-- the standard's match condition is "the needle is a prefix of the suffix at x" -/
theorem matchAt_eq_isPrefixOf (h s : Bytes) (y : Nat) (hy : y ≤ h.length) :
    matchAt h s y = s.isPrefixOf (h.drop y) := by
  unfold matchAt sub
  rw [Bool.eq_iff_iff]
  simp only [Bool.and_eq_true, decide_eq_true_eq, beq_iff_eq, List.isPrefixOf_iff_prefix]
  rw [List.prefix_iff_eq_take]
  constructor
  · intro ⟨_, h2⟩; exact h2.symm
  · intro h2
    refine ⟨?_, h2.symm⟩
    have := congrArg List.length h2
    simp only [List.length_take, List.length_drop] at this
    omega

theorem matchAt_false_of_gt (h s : Bytes) (y : Nat) (hy : h.length < y + s.length) : matchAt h s y = false := by
  unfold matchAt
  have : ¬ y + s.length ≤ h.length := by omega
  simp [this]

theorem isIn_eq_head (h s : Bytes) (y : Nat) (hy : y < h.length) :
    isIn h s y = (match h.drop y with | c :: _ => s.contains c | [] => false) := by
  unfold isIn
  rw [List.drop_eq_getElem_cons hy]
  simp [List.getElem?_eq_getElem hy]

theorem notIn_eq_head (h s : Bytes) (y : Nat) (hy : y < h.length) :
    notIn h s y = (match h.drop y with | c :: _ => !s.contains c | [] => false) := by
  unfold notIn
  rw [List.drop_eq_getElem_cons hy]
  simp [List.getElem?_eq_getElem hy]

/-- forward scan from `pos` against the spec's `least … pos ≤ x` -/
theorem least_scan (q : Bytes → Bool) (P : Nat → Bool) (h : Bytes) (pos : Nat) (hpos : pos ≤ h.length)
    (hP : ∀ y, pos ≤ y → y < h.length → P y = q (h.drop y)) :
    least (fun x => decide (pos ≤ x) && P x) h.length =
      if firstIdx q (h.drop pos) < (h.drop pos).length then some (pos + firstIdx q (h.drop pos)) else none := by
  rw [least_from_pos P pos h.length hpos]
  have hl : h.length - pos = (h.drop pos).length := by simp
  rw [hl]
  apply leastFrom_firstIdx
  intro x hx
  rw [List.drop_drop]
  simp only [List.length_drop] at hx
  exact hP (pos + x) (by omega) (by omega)

/-! ### backward scans -/

/-- the element predicate lifted to positions of `l` -/
def posPred (qe : UInt8 → Bool) (l : Bytes) (x : Nat) : Bool :=
  match l[x]? with
  | some c => qe c
  | none => false

/-- the element predicate lifted to "head of the remaining range" -/
def headPred (qe : UInt8 → Bool) : Bytes → Bool
  | c :: _ => qe c
  | [] => false

theorem posPred_append_left (qe : UInt8 → Bool) (l : Bytes) (c : UInt8) (x : Nat) (hx : x < l.length) :
    posPred qe (l ++ [c]) x = posPred qe l x := by
  unfold posPred
  rw [List.getElem?_append_left hx]

theorem greatest_rev_scan' (qe : UInt8 → Bool) : ∀ (r : Bytes),
    greatest (posPred qe r.reverse) r.length =
      if firstIdx (headPred qe) r < r.length then some (r.length - 1 - firstIdx (headPred qe) r)
      else none
  | [] => by simp [greatest, firstIdx]
  | c :: t => by
    simp only [List.length_cons, List.reverse_cons, greatest, firstIdx, headPred]
    have hc : posPred qe (t.reverse ++ [c]) t.length = qe c := by
      unfold posPred
      have : t.length = t.reverse.length := by simp
      rw [this, List.getElem?_concat_length]
    rw [hc]
    by_cases hq : qe c
    · simp [hq]
    · simp only [hq, Bool.false_eq_true, if_false]
      have hcongr := greatest_congr (p := posPred qe (t.reverse ++ [c])) (q := posPred qe t.reverse) t.length
        (fun x hx => posPred_append_left qe t.reverse c x (by simpa using hx))
      rw [hcongr, greatest_rev_scan' qe t]
      by_cases hlt : firstIdx (headPred qe) t < t.length
      · simp [hlt]; omega
      · simp [hlt]

theorem greatest_rev_scan (qe : UInt8 → Bool) (l : Bytes) :
    greatest (posPred qe l) l.length =
      if firstIdx (headPred qe) l.reverse < l.length then some (l.length - 1 - firstIdx (headPred qe) l.reverse)
      else none := by
  have := greatest_rev_scan' qe l.reverse
  simpa using this

theorem reverse_drop_eq (h : Bytes) (m : Nat) (_hm : m ≤ h.length) :
    h.reverse.drop (h.length - m) = (h.take m).reverse := by
  rw [List.reverse_take]

theorem posPred_take (qe : UInt8 → Bool) (h : Bytes) (m x : Nat) (hx : x < m) :
    posPred qe (h.take m) x = posPred qe h x := by
  unfold posPred
  rw [List.getElem?_take_of_lt hx]

/-- backward scan of the model (on the reversed view, from offset `|h| - m`) against the
spec's `greatest` over `[0, m)` -/
theorem greatest_scan (qe : UInt8 → Bool) (h : Bytes) (m : Nat) (hm : m ≤ h.length) :
    greatest (posPred qe h) m =
      let r := h.reverse.drop (h.length - m)
      if firstIdx (headPred qe) r < r.length then some (m - 1 - firstIdx (headPred qe) r) else none := by
  have hr := reverse_drop_eq h m hm
  simp only [hr]
  have hlen : (h.take m).length = m := by simp [List.length_take, Nat.min_eq_left hm]
  have := greatest_rev_scan qe (h.take m)
  rw [hlen] at this
  simp only [List.length_reverse, hlen]
  rw [← this]
  apply greatest_congr
  intro x hx
  exact (posPred_take qe h m x hx).symm

theorem isIn_eq_posPred (h s : Bytes) : isIn h s = posPred (fun c => s.contains c) h := by
  funext x; rfl

theorem notIn_eq_posPred (h s : Bytes) : notIn h s = posPred (fun c => !s.contains c) h := by
  funext x; rfl

theorem stdFindFirstOf_eq_headPred (s r : Bytes) :
    Model.stdFindFirstOf r s = firstIdx (headPred fun c => s.contains c) r := by
  rw [stdFindFirstOf_eq_firstIdx]
  rfl

theorem findNotOf_eq_headPred (s r : Bytes) :
    Model.findNotOf r s = firstIdx (headPred fun c => !s.contains c) r := by
  rw [findNotOf_eq_firstIdx]
  rfl

/-- the `rfind` loop is a downward search over `[0, cur]` -/
theorem rfindLoop_eq_greatest (h s : Bytes) : ∀ cur,
    Model.rfindLoop h s cur =
      (greatest (fun x => Model.traitsCompare (h.drop x) s s.length == 0) (cur + 1)).getD npos
  | 0 => by
    simp only [Model.rfindLoop, greatest, List.drop_zero]
    split <;> simp
  | cur + 1 => by
    rw [Model.rfindLoop, greatest]
    split
    · simp
    · rw [rfindLoop_eq_greatest h s cur]

theorem leastFrom_succ_false {p : Nat → Bool} (fuel start : Nat) (h : p (start + fuel) = false) :
    leastFrom p start (fuel + 1) = leastFrom p start fuel := by
  rw [leastFrom_succ]
  cases leastFrom p start fuel <;> simp [h]

/-- how the forward scans turn "index or end" into "position or npos" -/
theorem fwd_result (i L pos : Nat) (hle : i ≤ L) :
    (if i = L then npos else pos + i) = (if i < L then some (pos + i) else none).getD npos := by
  by_cases h : i < L
  · have : ¬ i = L := by omega
    simp [h, this]
  · have : i = L := by omega
    simp [this]

/-- how the backward scans turn "reverse index or end" into "position or npos" -/
theorem bwd_result (i L n off m : Nat) (hle : i ≤ L) (hL : L = m) (hoff : off = n - m) (hm : m ≤ n) :
    (if i = L then npos else n - 1 - (off + i)) = (if i < L then some (m - 1 - i) else none).getD npos := by
  by_cases h : i < L
  · have : ¬ i = L := by omega
    simp only [h, this, if_true, if_false, Option.getD_some]
    omega
  · have : i = L := by omega
    simp [this]

theorem stdFindFirstOf_nil : ∀ r : Bytes, Model.stdFindFirstOf r [] = r.length
  | [] => rfl
  | c :: t => by simp [Model.stdFindFirstOf, stdFindFirstOf_nil t]

theorem findNotOf_nil_cons (c : UInt8) (t : Bytes) : Model.findNotOf (c :: t) [] = 0 := by
  simp [Model.findNotOf, Model.traitsFind]

end TlxVerif.C18
