/-
C07/C06 — schedule independence of a phase whose threads have disjoint footprints (Bernstein conditions).

A thread's phase is a list of atomic steps on a memory `Addr → Val`; every step declares the addresses
it may read and write.  If steps of different threads are independent (no step writes what a step of
another thread reads or writes), every interleaving that respects the program order of each thread ends
in the same memory as running the threads one after the other.
Instantiated below for "thread t writes the positions of its own output window and reads a region nobody
writes" — the merge phase of parallel_multiway_merge / parallel_mergesort.
-/
namespace TlxVerif.Phases

variable {Addr Val : Type}

/-- an atomic step with a declared footprint: it changes nothing outside `writes`, and what it writes
depends only on the values at `reads` -/
structure Step (Addr Val : Type) where
  run : (Addr → Val) → (Addr → Val)
  reads : Addr → Prop
  writes : Addr → Prop
  frame : ∀ m a, ¬ writes a → run m a = m a
  determ : ∀ m₁ m₂, (∀ a, reads a → m₁ a = m₂ a) → ∀ a, writes a → run m₁ a = run m₂ a

/-- Bernstein's conditions -/
def Independent (s t : Step Addr Val) : Prop :=
  ∀ a, (s.writes a → ¬ t.reads a ∧ ¬ t.writes a) ∧ (t.writes a → ¬ s.reads a ∧ ¬ s.writes a)

theorem Independent.symm {s t : Step Addr Val} (h : Independent s t) : Independent t s :=
  fun a => ⟨(h a).2, (h a).1⟩

theorem commute {s t : Step Addr Val} (h : Independent s t) (m : Addr → Val) :
    s.run (t.run m) = t.run (s.run m) := by
  funext a
  by_cases hs : s.writes a
  · have hta : ¬ t.writes a := ((h a).1 hs).2
    rw [t.frame (s.run m) a hta]
    refine s.determ _ _ (fun b hb => ?_) a hs
    have : ¬ t.writes b := fun hw => ((h b).2 hw).1 hb
    exact t.frame m b this
  · by_cases ht : t.writes a
    · rw [s.frame (t.run m) a hs]
      refine t.determ _ _ (fun b hb => ?_) a ht
      have : ¬ s.writes b := fun hw => ((h b).1 hw).1 hb
      exact (s.frame m b this).symm
    · rw [s.frame _ a hs, t.frame _ a ht, t.frame _ a ht, s.frame _ a hs]

/-- run a sequence of steps -/
def exec (l : List (Step Addr Val)) (m : Addr → Val) : Addr → Val := l.foldl (fun m s => s.run m) m

theorem exec_append (l₁ l₂ : List (Step Addr Val)) (m : Addr → Val) :
    exec (l₁ ++ l₂) m = exec l₂ (exec l₁ m) := by simp [exec, List.foldl_append]

/-- a step independent of all steps of `A` can be moved in front of `A` -/
theorem exec_move_front (s : Step Addr Val) : ∀ (A : List (Step Addr Val)), (∀ t ∈ A, Independent s t) →
    ∀ m, exec (A ++ [s]) m = exec (s :: A) m
  | [], _, _ => rfl
  | t :: A, h, m => by
    have ih := exec_move_front s A (fun u hu => h u (List.mem_cons_of_mem _ hu)) (t.run m)
    have hc := commute (h t List.mem_cons_self) m
    show exec (A ++ [s]) (t.run m) = exec A (t.run (s.run m))
    rw [ih, ← hc]; rfl

/-- interleavings of the threads' programs that respect each thread's program order -/
inductive Shuffle : List (List (Step Addr Val)) → List (Step Addr Val) → Prop
  | done {progs} : (∀ p ∈ progs, p = []) → Shuffle progs []
  | step {pre post rest s l} : Shuffle (pre ++ rest :: post) l → Shuffle (pre ++ (s :: rest) :: post) (s :: l)

/-- steps of different threads are independent -/
def ThreadsIndependent (progs : List (List (Step Addr Val))) : Prop :=
  progs.Pairwise (fun p q => ∀ s ∈ p, ∀ t ∈ q, Independent s t)

theorem flatten_of_all_nil : ∀ (progs : List (List (Step Addr Val))), (∀ p ∈ progs, p = []) → progs.flatten = []
  | [], _ => rfl
  | p :: ps, h => by
    rw [List.flatten_cons, h p List.mem_cons_self, flatten_of_all_nil ps (fun q hq => h q (List.mem_cons_of_mem _ hq))]
    rfl

/-- **Schedule independence**: every program-order-respecting interleaving of threads with pairwise
independent steps computes the same memory as the sequential composition thread 0; thread 1; … -/
theorem shuffle_exec_eq {progs : List (List (Step Addr Val))} {l : List (Step Addr Val)}
    (hsh : Shuffle progs l) : ThreadsIndependent progs → ∀ m, exec l m = exec progs.flatten m := by
  induction hsh with
  | done hnil => intro _ m; rw [flatten_of_all_nil _ hnil]
  | @step pre post rest s l _ ih =>
    intro hind m
    -- independence is inherited by the remaining programs
    have hind' : ThreadsIndependent (pre ++ rest :: post) := by
      unfold ThreadsIndependent at hind ⊢
      rw [List.pairwise_append] at hind ⊢
      refine ⟨hind.1, ?_, ?_⟩
      · have h2 := List.pairwise_cons.mp hind.2.1
        exact List.pairwise_cons.mpr ⟨fun q hq u hu t ht => h2.1 q hq u (List.mem_cons_of_mem _ hu) t ht, h2.2⟩
      · intro p hp q hq u hu t ht
        rcases List.mem_cons.mp hq with hq | hq
        · subst hq
          exact hind.2.2 p hp _ List.mem_cons_self u hu t (List.mem_cons_of_mem _ ht)
        · exact hind.2.2 p hp q (List.mem_cons_of_mem _ hq) u hu t ht
    have h1 : exec (s :: l) m = exec (pre ++ rest :: post).flatten (s.run m) := ih hind' (s.run m)
    rw [h1]
    -- s is independent of every step of the threads in `pre`
    have hpre : ∀ t ∈ pre.flatten, Independent s t := by
      intro t ht
      obtain ⟨p, hp, htp⟩ := List.mem_flatten.mp ht
      unfold ThreadsIndependent at hind
      rw [List.pairwise_append] at hind
      exact (hind.2.2 p hp _ List.mem_cons_self t htp s List.mem_cons_self).symm
    have hmove : s.run (exec pre.flatten m) = exec pre.flatten (s.run m) := by
      have := exec_move_front s pre.flatten hpre m
      rw [exec_append] at this
      exact this
    simp only [List.flatten_append, List.flatten_cons, exec_append]
    show exec post.flatten (exec rest (exec pre.flatten (s.run m))) =
      exec post.flatten (exec rest (s.run (exec pre.flatten m)))
    rw [hmove]

/-- two interleavings of the same programs agree -/
theorem schedule_independent {progs : List (List (Step Addr Val))} {l₁ l₂ : List (Step Addr Val)}
    (hind : ThreadsIndependent progs) (h₁ : Shuffle progs l₁) (h₂ : Shuffle progs l₂) (m : Addr → Val) :
    exec l₁ m = exec l₂ m := by
  rw [shuffle_exec_eq h₁ hind, shuffle_exec_eq h₂ hind]

/-! ### instantiation: every thread writes its own output window and reads a region nobody writes -/

/-- memory of the merge phase: `inl k` = position k of the output range, `inr j` = a cell of the inputs
(the sorted sequences / the temporaries), which no thread writes in this phase -/
abbrev Cell := Sum Nat Nat

def ReadsInputsOnly (s : Step Cell Val) : Prop := ∀ a, s.reads a → ∃ j, a = Sum.inr j

def WritesWindow (lo hi : Nat) (s : Step Cell Val) : Prop := ∀ a, s.writes a → ∃ k, a = Sum.inl k ∧ lo ≤ k ∧ k < hi

theorem independent_of_windows {s t : Step Cell Val} {lo₁ hi₁ lo₂ hi₂ : Nat} (h : hi₁ ≤ lo₂)
    (hs : ReadsInputsOnly s) (ht : ReadsInputsOnly t) (ws : WritesWindow lo₁ hi₁ s) (wt : WritesWindow lo₂ hi₂ t) :
    Independent s t := by
  intro a
  constructor
  · intro hw
    obtain ⟨k, rfl, _, hk⟩ := ws a hw
    refine ⟨fun hr => ?_, fun hw' => ?_⟩
    · obtain ⟨j, hj⟩ := ht _ hr; cases hj
    · obtain ⟨k', hk', hlo, _⟩ := wt _ hw'; cases hk'; omega
  · intro hw
    obtain ⟨k, rfl, hlo, _⟩ := wt a hw
    refine ⟨fun hr => ?_, fun hw' => ?_⟩
    · obtain ⟨j, hj⟩ := hs _ hr; cases hj
    · obtain ⟨k', hk', _, hk⟩ := ws _ hw'; cases hk'; omega

theorem take_sum_mono (ls : List Nat) : ∀ {a b : Nat}, a ≤ b → (ls.take a).sum ≤ (ls.take b).sum := by
  induction ls with
  | nil => intro a b _; simp
  | cons l ls ih =>
    intro a b hab
    cases a with
    | zero => simp
    | succ a =>
      cases b with
      | zero => omega
      | succ b =>
        have := ih (a := a) (b := b) (by omega)
        simp only [List.take_succ_cons, List.sum_cons]; omega

/-- **Merge phase**: thread `t` writes only positions of its window `[Σ_{u<t} len_u, Σ_{u≤t} len_u)` and
reads only input cells ⇒ the threads are pairwise independent … -/
theorem threadsIndependent_of_windows (ls : List Nat) (progs : List (List (Step Cell Val)))
    (h : ∀ (t : Nat) (p : List (Step Cell Val)), progs[t]? = some p → ∀ s ∈ p,
      ReadsInputsOnly s ∧ WritesWindow (ls.take t).sum (ls.take (t + 1)).sum s) :
    ThreadsIndependent progs := by
  unfold ThreadsIndependent
  rw [List.pairwise_iff_getElem]
  intro i j hi hj hij s hs t ht
  have h1 := h i progs[i] (List.getElem?_eq_getElem hi) s hs
  have h2 := h j progs[j] (List.getElem?_eq_getElem hj) t ht
  exact independent_of_windows (take_sum_mono ls (by omega)) h1.1 h2.1 h1.2 h2.2

/-- … hence every interleaving of the per-thread merges leaves the same memory. -/
theorem merge_phase_schedule_independent (ls : List Nat) (progs : List (List (Step Cell Val)))
    (h : ∀ (t : Nat) (p : List (Step Cell Val)), progs[t]? = some p → ∀ s ∈ p,
      ReadsInputsOnly s ∧ WritesWindow (ls.take t).sum (ls.take (t + 1)).sum s)
    {l₁ l₂ : List (Step Cell Val)} (h₁ : Shuffle progs l₁) (h₂ : Shuffle progs l₂) (m : Cell → Val) :
    exec l₁ m = exec l₂ m :=
  schedule_independent (threadsIndependent_of_windows ls progs h) h₁ h₂ m

/-- a concrete step: `out[k] := f(inputs)` -/
def writeStep (k : Nat) (f : (Nat → Val) → Val) : Step Cell Val where
  run m := fun a => match a with
    | .inl k' => if k' = k then f (fun j => m (.inr j)) else m (.inl k')
    | .inr j => m (.inr j)
  reads a := ∃ j, a = Sum.inr j
  writes a := a = Sum.inl k
  frame := by
    intro m a ha
    cases a with
    | inl k' =>
      have : k' ≠ k := fun e => ha (by rw [e])
      simp [this]
    | inr j => rfl
  determ := by
    intro m₁ m₂ hm a ha
    subst ha
    have : (fun j => m₁ (Sum.inr j)) = (fun j => m₂ (Sum.inr j)) := funext fun j => hm _ ⟨j, rfl⟩
    simp [this]

-- non-vacuity: two threads, windows [0,2) and [2,3); two different interleavings
example (f₀ f₁ f₂ : (Nat → Nat) → Nat) (m : Cell → Nat) :
    exec [writeStep 0 f₀, writeStep 2 f₂, writeStep 1 f₁] m = exec [writeStep 2 f₂, writeStep 0 f₀, writeStep 1 f₁] m := by
  refine merge_phase_schedule_independent [2, 1] [[writeStep 0 f₀, writeStep 1 f₁], [writeStep 2 f₂]] ?_ ?_ ?_ m
  · intro t p hp s hs
    match t, hp with
    | 0, hp =>
      simp at hp; subst hp
      simp only [List.mem_cons, List.mem_nil_iff, or_false] at hs
      rcases hs with rfl | rfl
      · exact ⟨fun a ha => ha, fun a ha => ⟨0, ha, by simp, by simp⟩⟩
      · exact ⟨fun a ha => ha, fun a ha => ⟨1, ha, by simp, by simp⟩⟩
    | 1, hp =>
      simp at hp; subst hp
      simp only [List.mem_cons, List.mem_nil_iff, or_false] at hs
      subst hs
      exact ⟨fun a ha => ha, fun a ha => ⟨2, ha, by simp, by simp⟩⟩
    | t + 2, hp => simp at hp
  · exact Shuffle.step (pre := []) (Shuffle.step (pre := [[writeStep 1 f₁]]) (post := [])
      (Shuffle.step (pre := []) (post := [[]]) (Shuffle.done (by simp))))
  · exact Shuffle.step (pre := [[writeStep 0 f₀, writeStep 1 f₁]]) (post := [])
      (Shuffle.step (pre := []) (post := [[]]) (Shuffle.step (pre := []) (post := [[]]) (Shuffle.done (by simp))))

end TlxVerif.Phases
