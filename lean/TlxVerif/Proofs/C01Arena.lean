/-
C02 — every node is returned to the allocator instance it was obtained from: the ledger of the machine
with allocator instances (`stepA`, Model/C01Machine.lean) balances for every instance separately.
-/
import TlxVerif.Proofs.C01Full
namespace TlxVerif.C01
set_option linter.unusedSectionVars false
set_option linter.unusedSimpArgs false

theorem assign_ledger_split (t o : T) : (assign t o).2 = (clear t).2.add (assignAlloc o) := by
  unfold assign assignAlloc
  simp only
  by_cases h : o.stats.size ≠ 0
  · rw [if_pos h, if_pos h]
    cases o.root <;> simp [Ledger.add_empty]
  · rw [if_neg h, if_neg h]; simp [Ledger.add_empty]

theorem sumFor_append (a : Nat) (p q : List (Nat × Ledger)) : sumFor a (p ++ q) = (sumFor a p).add (sumFor a q) := by
  induction p with
  | nil => simp [sumFor, Ledger.empty_add]
  | cons x xs ih =>
    simp only [List.cons_append, sumFor]
    split
    · rw [ih, Ledger.add_assoc]
    · exact ih

theorem sumFor_single (a b : Nat) (lg : Ledger) : sumFor a [(b, lg)] = if b = a then lg else {} := by
  simp only [sumFor]; split <;> simp [Ledger.add_empty]

/-- an operation that touches one register only, through the allocator instance that register holds -/
theorem abal_single (s : ASt) (m' : MSt) (r : Nat) (lg : Ledger) (h : PerReg r s.m m' lg) :
    ABal s { s with m := m' } [(s.arena r, lg)] := by
  obtain ⟨h1, h2, h3⟩ := h
  intro a
  rw [sumFor_single]
  simp only [ASt.liveL, ASt.liveI, ASt.arena]
  unfold Bal MSt.get at h3
  by_cases hr : r = 0
  · simp only [hr, if_true] at h3 ⊢
    rw [h1 hr]
    by_cases ha : s.a0 = a <;> by_cases hb : s.a1 = a <;> simp [ha, hb] <;> omega
  · simp only [hr, if_false] at h3 ⊢
    rw [h2 hr]
    by_cases ha : s.a0 = a <;> by_cases hb : s.a1 = a <;> simp [ha, hb] <;> omega

theorem clear_ledger_eq (p : Params Nat) (t : T) (ht : TreeInv p t) :
    (clear t).2 = { leafFree := t.nLeaves, innerFree := t.nInner } := by
  cases htr : t.root with
  | none =>
    have := stats_of_root_none p t ht htr
    subst this
    simp [clear, Tree.nLeaves, Tree.nInner]
  | some r => simp [clear, htr]

theorem assignAlloc_eq (p : Params Nat) (pv : p.Valid) (o : T) (ho : TreeInv p o) :
    assignAlloc o = { leafAlloc := o.nLeaves, innerAlloc := o.nInner } := by
  have hsz := size_pos_iff_root p pv o ho
  unfold assignAlloc
  cases hroot : o.root with
  | none =>
    have h0 := hsz.2 hroot
    simp [h0, Tree.nLeaves, Tree.nInner, hroot]
  | some r =>
    have hpos := hsz.1.mpr (by rw [hroot]; simp)
    have : o.stats.size ≠ 0 := by omega
    simp [this]

section two

variable {c : Cfg} (pv : c.p.Valid) (s : ASt) (h0 : TreeInv (c.params s.m.m0) s.m.t0) (h1 : TreeInv (c.params s.m.m1) s.m.t1)

include pv h0 h1

theorem copyA_ok (r q : Nat) (hr : r ≤ 1) (hq : q ≤ 1) (m' : MSt) (mo : MOut) (lg : Ledger)
    (hs : stepCore c s.m (.copy r q) = .ok (m', mo, lg)) :
    ABal s (arenaNext s m' (.copy r q)) (arenaParts c s (.copy r q) lg) := by
  simp only [stepCore, doCopy] at hs
  by_cases hb : q = r
  · rw [if_pos hb] at hs; cases hs
  · rw [if_neg hb] at hs
    injection hs with hs
    obtain ⟨e0, g0⟩ := copy_eq _ (c.params_valid pv _) s.m.t0 h0
    obtain ⟨e1, g1⟩ := copy_eq _ (c.params_valid pv _) s.m.t1 h1
    have k0 := clear_ledger_eq _ s.m.t0 h0
    have k1 := clear_ledger_eq _ s.m.t1 h1
    have hm : m' = (s.m.set r (copyCtor (s.m.get q)).1).setMode r (s.m.mode q) := (Prod.mk.inj hs).1.symm
    subst hm
    intro a
    rcases (by omega : r = 0 ∨ r = 1) with rfl | rfl
    · obtain rfl : q = 1 := by omega
      simp only [arenaNext, arenaParts, ASt.arena, ASt.setArena, ASt.liveL, ASt.liveI, MSt.get, MSt.set, MSt.setMode,
        MSt.mode, sumFor, if_true, Nat.one_ne_zero, if_false, e1, g1, k0]
      by_cases ha : s.a0 = a <;> by_cases hb' : s.a1 = a <;> simp [ha, hb', Ledger.add, sumFor] <;> omega
    · obtain rfl : q = 0 := by omega
      simp only [arenaNext, arenaParts, ASt.arena, ASt.setArena, ASt.liveL, ASt.liveI, MSt.get, MSt.set, MSt.setMode,
        MSt.mode, sumFor, if_true, Nat.one_ne_zero, if_false, e0, g0, k1]
      by_cases ha : s.a0 = a <;> by_cases hb' : s.a1 = a <;> simp [ha, hb', Ledger.add, sumFor] <;> omega

theorem assignA_ok (r q : Nat) (hr : r ≤ 1) (hq : q ≤ 1) (m' : MSt) (mo : MOut) (lg : Ledger)
    (hs : stepCore c s.m (.assign r q) = .ok (m', mo, lg)) :
    ABal s (arenaNext s m' (.assign r q)) (arenaParts c s (.assign r q) lg) := by
  simp only [stepCore, doAssign] at hs
  by_cases hb : q = r
  · rw [if_pos hb] at hs
    injection hs with hs
    have hm : m' = s.m := (Prod.mk.inj hs).1.symm
    subst hm
    intro a
    simp [arenaNext, arenaParts, hb, sumFor, ASt.liveL, ASt.liveI]
  · rw [if_neg hb] at hs
    injection hs with hs
    obtain ⟨e01, _⟩ := assign_eq _ _ (c.params_valid pv _) s.m.t0 s.m.t1 h0 h1
    obtain ⟨e10, _⟩ := assign_eq _ _ (c.params_valid pv _) s.m.t1 s.m.t0 h1 h0
    have k0 := clear_ledger_eq _ s.m.t0 h0
    have k1 := clear_ledger_eq _ s.m.t1 h1
    have q0 := assignAlloc_eq _ (c.params_valid pv _) s.m.t0 h0
    have q1 := assignAlloc_eq _ (c.params_valid pv _) s.m.t1 h1
    have hm : m' = (s.m.set r (assign (s.m.get r) (s.m.get q)).1).setMode r (s.m.mode q) := (Prod.mk.inj hs).1.symm
    subst hm
    intro a
    rcases (by omega : r = 0 ∨ r = 1) with rfl | rfl
    · obtain rfl : q = 1 := by omega
      simp only [arenaNext, arenaParts, ASt.arena, ASt.setArena, ASt.liveL, ASt.liveI, MSt.get, MSt.set, MSt.setMode,
        MSt.mode, sumFor, if_true, Nat.one_ne_zero, if_false, e01, k0, q1]
      by_cases ha : s.a0 = a <;> by_cases hb' : s.a1 = a <;> simp [ha, hb', Ledger.add, sumFor] <;> omega
    · obtain rfl : q = 0 := by omega
      simp only [arenaNext, arenaParts, ASt.arena, ASt.setArena, ASt.liveL, ASt.liveI, MSt.get, MSt.set, MSt.setMode,
        MSt.mode, sumFor, if_true, Nat.one_ne_zero, if_false, e10, k1, q0]
      by_cases ha : s.a0 = a <;> by_cases hb' : s.a1 = a <;> simp [ha, hb', Ledger.add, sumFor] <;> omega

theorem tswapA_ok (r q : Nat) (hr : r ≤ 1) (hq : q ≤ 1) (m' : MSt) (mo : MOut) (lg : Ledger)
    (hs : stepCore c s.m (.tswap r q) = .ok (m', mo, lg)) :
    ABal s (arenaNext s m' (.tswap r q)) (arenaParts c s (.tswap r q) lg) := by
  simp only [stepCore, doTswap] at hs
  injection hs with hs
  have hm := (Prod.mk.inj hs).1.symm
  subst hm
  intro a
  rcases (by omega : r = 0 ∨ r = 1) with rfl | rfl <;> rcases (by omega : q = 0 ∨ q = 1) with rfl | rfl <;>
    simp only [arenaNext, arenaParts, ASt.arena, ASt.setArena, ASt.liveL, ASt.liveI, MSt.get, MSt.set, MSt.setMode,
      MSt.mode, sumFor, if_true, Nat.one_ne_zero, if_false, reduceCtorEq] <;>
    by_cases ha : s.a0 = a <;> by_cases hb' : s.a1 = a <;> simp [ha, hb', sumFor] <;> omega

theorem swapA_ok (r q : Nat) (hr : r ≤ 1) (hq : q ≤ 1) (m' : MSt) (mo : MOut) (lg : Ledger)
    (hs : stepCore c s.m (.swap r q) = .ok (m', mo, lg)) :
    ABal s (arenaNext s m' (.swap r q)) (arenaParts c s (.swap r q) lg) := by
  simp only [stepCore, doSwap] at hs
  obtain ⟨c0, g0⟩ := copy_eq _ (c.params_valid pv _) s.m.t0 h0
  obtain ⟨c1, g1⟩ := copy_eq _ (c.params_valid pv _) s.m.t1 h1
  obtain ⟨e00, _⟩ := assign_eq _ _ (c.params_valid pv _) s.m.t0 s.m.t0 h0 h0
  obtain ⟨e11, _⟩ := assign_eq _ _ (c.params_valid pv _) s.m.t1 s.m.t1 h1 h1
  obtain ⟨e01, _⟩ := assign_eq _ _ (c.params_valid pv _) s.m.t0 s.m.t1 h0 h1
  obtain ⟨e10, _⟩ := assign_eq _ _ (c.params_valid pv _) s.m.t1 s.m.t0 h1 h0
  have k0 := clear_ledger_eq _ s.m.t0 h0
  have k1 := clear_ledger_eq _ s.m.t1 h1
  have q0 := assignAlloc_eq _ (c.params_valid pv _) s.m.t0 h0
  have q1 := assignAlloc_eq _ (c.params_valid pv _) s.m.t1 h1
  by_cases hb : q = r
  · rw [if_pos hb] at hs
    injection hs with hs
    have hm := (Prod.mk.inj hs).1.symm
    subst hm
    intro a
    rcases (by omega : r = 0 ∨ r = 1) with rfl | rfl
    · simp only [arenaNext, arenaParts, hb, ASt.arena, ASt.liveL, ASt.liveI, MSt.get, MSt.set, sumFor, if_true,
        c0, g0, e00, k0, q0]
      by_cases ha : s.a0 = a <;> by_cases hb' : s.a1 = a <;> simp [ha, hb', Ledger.add, sumFor] <;> omega
    · simp only [arenaNext, arenaParts, hb, ASt.arena, ASt.liveL, ASt.liveI, MSt.get, MSt.set, sumFor, if_true,
        Nat.one_ne_zero, if_false, c1, g1, e11, k1, q1]
      by_cases ha : s.a0 = a <;> by_cases hb' : s.a1 = a <;> simp [ha, hb', Ledger.add, sumFor] <;> omega
  · rw [if_neg hb] at hs
    injection hs with hs
    have hm := (Prod.mk.inj hs).1.symm
    subst hm
    intro a
    rcases (by omega : r = 0 ∨ r = 1) with rfl | rfl
    · obtain rfl : q = 1 := by omega
      simp only [arenaNext, arenaParts, ASt.arena, ASt.setArena, ASt.liveL, ASt.liveI, MSt.get, MSt.set, MSt.setMode,
        MSt.mode, sumFor, if_true, Nat.one_ne_zero, if_false, reduceCtorEq, c0, g0, e01, e10, k0, k1, q0, q1]
      by_cases ha : s.a0 = a <;> by_cases hb' : s.a1 = a <;> simp [ha, hb', Ledger.add, sumFor] <;> omega
    · obtain rfl : q = 0 := by omega
      simp only [arenaNext, arenaParts, ASt.arena, ASt.setArena, ASt.liveL, ASt.liveI, MSt.get, MSt.set, MSt.setMode,
        MSt.mode, sumFor, if_true, Nat.one_ne_zero, if_false, reduceCtorEq, c1, g1, e01, e10, k0, k1, q0, q1]
      by_cases ha : s.a0 = a <;> by_cases hb' : s.a1 = a <;> simp [ha, hb', Ledger.add, sumFor] <;> omega

end two

theorem insertMany_shift (p : Params Nat) :
    ∀ (es : List Ent) (t : T) (lg0 : Ledger),
      insertMany p es t lg0 = (insertMany p es t {}).map fun td => (td.1, lg0.add td.2) := by
  intro es
  induction es with
  | nil => intro t lg0; simp [insertMany, Ledger.add_empty]
  | cons e es ih =>
    intro t lg0
    simp only [insertMany]
    cases insert p t e.1 e.2 with
    | none => rfl
    | some r =>
      simp only
      rw [ih r.tree (lg0.add r.ledger), ih r.tree (({} : Ledger).add r.ledger)]
      cases insertMany p es r.tree {} with
      | none => rfl
      | some td => simp [Ledger.add_assoc, Ledger.empty_add]

theorem rctorA_ok {c : Cfg} (pv : c.p.Valid) (s : ASt) (h0 : TreeInv (c.params s.m.m0) s.m.t0)
    (h1 : TreeInv (c.params s.m.m1) s.m.t1) (r : Nat) (es : List Ent) (m' : MSt) (mo : MOut) (lg : Ledger)
    (hs : stepCore c s.m (.rctor r es) = .ok (m', mo, lg)) :
    ABal s (arenaNext s m' (.rctor r es)) (arenaParts c s (.rctor r es) lg) := by
  simp only [stepCore, doRctor] at hs
  have hinv : TreeInv (c.params (s.m.mode r)) (s.m.get r) := by
    unfold MSt.mode MSt.get; split
    · exact h0
    · exact h1
  obtain ⟨t', d, e1, _, _, e4⟩ :=
    insMany_step _ (c.params_valid pv _) (c.params_sw _) es {} {} (treeInv_empty (c.params (s.m.mode r)))
  rw [insertMany_shift, e1] at hs
  simp only [Option.map_some, liftOpt] at hs
  injection hs with hs
  have hm : m' = s.m.set r t' := (Prod.mk.inj hs).1.symm
  subst hm
  have z1 : ({} : T).nLeaves = 0 := rfl
  have z2 : ({} : T).nInner = 0 := rfl
  simp only [Bal, z1, z2] at e4
  have k0 := clear_ledger_eq _ s.m.t0 h0
  have k1 := clear_ledger_eq _ s.m.t1 h1
  intro a
  simp only [arenaNext, arenaParts, e1, Option.map_some, Option.getD_some, Ledger.empty_add, sumFor,
    ASt.arena, ASt.setArena, ASt.liveL, ASt.liveI, MSt.get, MSt.set, homeArena]
  by_cases hr : r = 0
  · simp only [hr, if_true, k0]
    by_cases ha : s.a0 = a <;> by_cases hb : s.a1 = a <;> by_cases hc : (1 : Nat) = a <;>
      simp [ha, hb, hc, Ledger.add] <;> omega
  · simp only [hr, if_false, k1]
    by_cases ha : s.a0 = a <;> by_cases hb : s.a1 = a <;> by_cases hc : (2 : Nat) = a <;>
      simp [ha, hb, hc, Ledger.add] <;> omega

theorem arenaNext_m (s : ASt) (m' : MSt) (op : Op) : (arenaNext s m' op).m = m' := by
  cases op <;> simp only [arenaNext, ASt.setArena] <;> (repeat' split) <;> rfl

theorem ABal.refl (s : ASt) : ABal s s [] := by intro a; simp [sumFor]

theorem ABal.trans {s s1 s2 : ASt} {p q : List (Nat × Ledger)} (h1 : ABal s s1 p) (h2 : ABal s1 s2 q) :
    ABal s s2 (p ++ q) := by
  intro a
  have := h1 a; have := h2 a
  rw [sumFor_append]
  simp only [Ledger.add]
  omega

/-- one operation: never undefined; both trees keep the invariant; **every allocator instance is balanced
by itself** — what was obtained from it and returned to it accounts exactly for the change of the nodes of
the trees holding it, i.e. every node is returned to the instance it was obtained from -/
theorem stepA_ok (c : Cfg) (pv : c.p.Valid) (s : ASt) (h0 : TreeInv (c.params s.m.m0) s.m.t0)
    (h1 : TreeInv (c.params s.m.m1) s.m.t1) (op : Op) :
    stepA c s op = .bad ∨
    ∃ s' mo lg parts, stepA c s op = .ok (s', mo, lg, parts) ∧ TreeInv (c.params s'.m.m0) s'.m.t0 ∧
      TreeInv (c.params s'.m.m1) s'.m.t1 ∧ ABal s s' parts := by
  have hrel : Rel c s.m { l0 := s.m.t0.toList, l1 := s.m.t1.toList, m0 := s.m.m0, m1 := s.m.m1 } :=
    ⟨rfl, rfl, h0, h1, rfl, rfl⟩
  have href := stepOp_refines c pv s.m _ hrel op
  unfold stepA
  cases hsp : specStep c { l0 := s.m.t0.toList, l1 := s.m.t1.toList, m0 := s.m.m0, m1 := s.m.m1 } op with
  | none => rw [hsp] at href; simp only at href; rw [href]; exact Or.inl rfl
  | some res =>
    obtain ⟨ss1, o⟩ := res
    rw [hsp] at href
    obtain ⟨m', mo, lg, g1, _, g3, _, g5⟩ := href
    rw [g1]
    refine Or.inr ⟨_, mo, lg, _, rfl, by rw [arenaNext_m]; exact g3.inv0, by rw [arenaNext_m]; exact g3.inv1, ?_⟩
    have hwf : op.wf = true ∧ stepCore c s.m op = .ok (m', mo, lg) := by
      unfold stepOp at g1
      cases hw : op.wf with
      | false => rw [hw] at g1; simp at g1
      | true => rw [hw] at g1; exact ⟨rfl, by simpa using g1⟩
    obtain ⟨hw, hcore⟩ := hwf
    cases op with
    | copy r q =>
      simp only [Op.wf, Op.reg, Op.reg2, Bool.and_eq_true] at hw
      exact copyA_ok pv s h0 h1 r q (of_decide_eq_true hw.1) (of_decide_eq_true hw.2) m' mo lg hcore
    | assign r q =>
      simp only [Op.wf, Op.reg, Op.reg2, Bool.and_eq_true] at hw
      exact assignA_ok pv s h0 h1 r q (of_decide_eq_true hw.1) (of_decide_eq_true hw.2) m' mo lg hcore
    | swap r q =>
      simp only [Op.wf, Op.reg, Op.reg2, Bool.and_eq_true] at hw
      exact swapA_ok pv s h0 h1 r q (of_decide_eq_true hw.1) (of_decide_eq_true hw.2) m' mo lg hcore
    | tswap r q =>
      simp only [Op.wf, Op.reg, Op.reg2, Bool.and_eq_true] at hw
      exact tswapA_ok pv s h0 h1 r q (of_decide_eq_true hw.1) (of_decide_eq_true hw.2) m' mo lg hcore
    | rctor r es => exact rctorA_ok pv s h0 h1 r es m' mo lg hcore
    | _ => exact abal_single s m' _ lg (g5 rfl)

/-- **every history**: never undefined, invariant, every allocator instance balanced by itself -/
theorem runA_ok (c : Cfg) (pv : c.p.Valid) :
    ∀ (ops : List Op) (s : ASt), TreeInv (c.params s.m.m0) s.m.t0 → TreeInv (c.params s.m.m1) s.m.t1 →
      ∃ s' parts, runA c s ops = some (s', parts) ∧ TreeInv (c.params s'.m.m0) s'.m.t0 ∧
        TreeInv (c.params s'.m.m1) s'.m.t1 ∧ ABal s s' parts := by
  intro ops
  induction ops with
  | nil => intro s h0 h1; exact ⟨s, [], rfl, h0, h1, ABal.refl s⟩
  | cons op ops ih =>
    intro s h0 h1
    rcases stepA_ok c pv s h0 h1 op with hb | ⟨s1, mo, lg, parts, g1, g2, g3, g4⟩
    · obtain ⟨s', ps, e1, e2, e3, e4⟩ := ih s h0 h1
      exact ⟨s', ps, by simp only [runA, hb]; exact e1, e2, e3, e4⟩
    · obtain ⟨s', ps, e1, e2, e3, e4⟩ := ih s1 g2 g3
      exact ⟨s', parts ++ ps, by simp only [runA, g1, e1, Option.map_some], e2, e3, g4.trans e4⟩

/-- the per-instance ledger is a split of the operation's ledger: nothing is lost or invented -/
theorem parts_total (c : Cfg) (s : ASt) (op : Op) (s' : ASt) (mo : MOut) (lg : Ledger) (parts : List (Nat × Ledger))
    (h : stepA c s op = .ok (s', mo, lg, parts)) : sumAll parts = lg := by
  unfold stepA at h
  cases hso : stepOp c s.m op with
  | bad => rw [hso] at h; cases h
  | ub => rw [hso] at h; cases h
  | ok res =>
    obtain ⟨m', mo', lg'⟩ := res
    rw [hso] at h
    injection h with h
    obtain ⟨_, _, h3, h4⟩ : _ ∧ mo' = mo ∧ lg' = lg ∧ arenaParts c s op lg' = parts := by
      simp only [Prod.mk.injEq] at h; exact h
    subst h3; subst h4
    unfold stepOp at hso
    cases hw : op.wf with
    | false => rw [hw] at hso; simp at hso
    | true =>
      rw [hw] at hso
      simp only [if_true] at hso
      cases op with
      | copy r q =>
        simp only [stepCore, doCopy] at hso
        split at hso
        · cases hso
        · injection hso with hso
          have : lg' = (clear (s.m.get r)).2.add (copyCtor (s.m.get q)).2 := (Prod.mk.inj (Prod.mk.inj hso).2).2.symm
          subst this
          simp [arenaParts, sumAll, Ledger.add_empty]
      | assign r q =>
        simp only [stepCore, doAssign] at hso
        split at hso
        · rename_i hq
          injection hso with hso
          have : lg' = {} := (Prod.mk.inj (Prod.mk.inj hso).2).2.symm
          subst this
          simp [arenaParts, hq, sumAll]
        · rename_i hq
          injection hso with hso
          have : lg' = (assign (s.m.get r) (s.m.get q)).2 := (Prod.mk.inj (Prod.mk.inj hso).2).2.symm
          subst this
          simp [arenaParts, hq, sumAll, Ledger.add_empty, assign_ledger_split]
      | swap r q =>
        simp only [stepCore, doSwap] at hso
        split at hso
        · rename_i hq
          injection hso with hso
          have := (Prod.mk.inj (Prod.mk.inj hso).2).2.symm
          subst this
          simp [arenaParts, hq, sumAll, Ledger.add_empty, assign_ledger_split, Ledger.add_assoc]
        · rename_i hq
          injection hso with hso
          have := (Prod.mk.inj (Prod.mk.inj hso).2).2.symm
          subst this
          simp [arenaParts, hq, sumAll, Ledger.add_empty, assign_ledger_split, Ledger.add_assoc]
      | tswap r q =>
        simp only [stepCore, doTswap] at hso
        injection hso with hso
        have : lg' = {} := (Prod.mk.inj (Prod.mk.inj hso).2).2.symm
        subst this
        simp [arenaParts, sumAll]
      | rctor r es =>
        simp only [stepCore, doRctor] at hso
        rw [insertMany_shift] at hso
        cases hi : insertMany (c.params (s.m.mode r)) es {} {} with
        | none => rw [hi] at hso; simp [liftOpt] at hso
        | some td =>
          rw [hi] at hso
          simp only [Option.map_some, liftOpt] at hso
          injection hso with hso
          have := (Prod.mk.inj (Prod.mk.inj hso).2).2.symm
          subst this
          simp [arenaParts, hi, sumAll, Ledger.add_empty]
      | _ => simp [arenaParts, sumAll, Ledger.add_empty]

end TlxVerif.C01
