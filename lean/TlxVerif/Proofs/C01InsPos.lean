/-
C01 — the iterator returned by `insert` refers to the inserted entry (or, for a rejected insert into a
unique-key container, to the equivalent entry): its rank is the lower bound of the key.
-/
import TlxVerif.Model.C01Tree
import TlxVerif.Proofs.C01Query
import TlxVerif.Proofs.C01Main
namespace TlxVerif.C01

variable {K V : Type}

def optChain (h : Nat) : Option (K × BNode K V) → List (List (K × V))
  | none => []
  | some (_, s) => chain h s

theorem chain_inner_of (h : Nat) (n : BNode K V) (hn : n.isLeaf = false) :
    chain (h + 1) n = (kidsOf n).flatMap (chain h) := by
  cases n with
  | leaf es => simp [BNode.isLeaf] at hn
  | inner l ks kids => simp [chain, kidsOf]

theorem optChain_inner_of (h : Nat) (s : Option (K × BNode K V))
    (hs : ∀ sk sn, s = some (sk, sn) → sn.isLeaf = false) :
    optChain (h + 1) s = (optKids s).flatMap (chain h) := by
  cases s with
  | none => rfl
  | some kv =>
    obtain ⟨sk, sn⟩ := kv
    simp only [optChain, optKids]
    exact chain_inner_of h sn (hs sk sn rfl)

theorem rankOf_append_left (A X : List (List (K × V))) (j s : Nat) :
    rankOf (A ++ X) (some (A.length + j, s)) = A.flatten.length + rankOf X (some (j, s)) := by
  simp only [rankOf_eq, List.take_length_add_append, List.flatten_append, List.length_append]
  omega

theorem rankOf_append_right (B C : List (List (K × V))) (j s : Nat) (hj : j ≤ B.length) :
    rankOf (B ++ C) (some (j, s)) = rankOf B (some (j, s)) := by
  simp only [rankOf_eq, List.take_append_of_le_length hj]

theorem leafInsert_pos (p : Params K) (es : List (K × V)) (k : K) (v : V) (h : Nat) (r : InsOut K V)
    (hlen : findLower p (keysOf es) k ≤ es.length)
    (hr : leafInsert p es k v = some r) :
    r.leafIdx < (chain h r.node ++ optChain h r.split).length ∧
    rankOf (chain h r.node ++ optChain h r.split) (some (r.leafIdx, r.slot)) = findLower p (keysOf es) k := by
  unfold leafInsert at hr
  simp only at hr
  split at hr
  · cases hr; simp [chain, optChain, rankOf]
  · split at hr
    · unfold splitLeafInsert at hr
      simp only at hr
      split at hr
      · cases hr
      · split at hr
        · rename_i hge
          cases hr
          simp only [chain, optChain, List.singleton_append, List.length_cons, List.length_nil, rankOf_eq]
          refine ⟨by omega, ?_⟩
          simp [List.length_take]; omega
        · cases hr
          simp [chain, optChain, rankOf]
    · cases hr; simp [chain, optChain, rankOf]

/-- the iterator returned by `insert_descend` sits at the rank where the entry was put -/
theorem insertDescend_pos (p : Params K) (k : K) (v : V) :
    ∀ (h : Nat) (n : BNode K V) (ml mi : Nat), ShapeTop p ml mi h n →
      ∀ r, insertDescend p k v h n = some r →
        r.leafIdx < (chain h r.node ++ optChain h r.split).length ∧
        rankOf (chain h r.node ++ optChain h r.split) (some (r.leafIdx, r.slot)) = insRank p k h n := by
  intro h
  induction h with
  | zero =>
    intro n ml mi hs r hr
    cases n with
    | inner l keys kids => simp [ShapeTop] at hs
    | leaf es =>
      unfold insertDescend at hr
      have := leafInsert_pos p es k v 0 r (by simpa [keysOf] using findLower_le p (keysOf es) k) hr
      simpa [insRank] using this
  | succ h ih =>
    intro n ml mi hs r hr
    cases n with
    | leaf es => simp [ShapeTop] at hs
    | inner l keys kids =>
      simp only [ShapeTop] at hs
      obtain ⟨hl, hk, hmin, hmax, hkids⟩ := hs
      unfold insertDescend at hr
      simp only at hr
      simp only [insRank]
      have hslot := findLower_le p keys k
      generalize findLower p keys k = slot at hr hslot
      have hlt : slot < kids.length := by omega
      rw [List.getElem?_eq_getElem hlt] at hr ⊢
      simp only at hr ⊢
      cases hrec : insertDescend p k v h kids[slot] with
      | none => rw [hrec] at hr; cases hr
      | some r' =>
        rw [hrec] at hr
        simp only at hr
        obtain ⟨ih1, ih2⟩ := ih kids[slot] _ _ (hkids _ (List.getElem_mem hlt)).top r' hrec
        have hpre : ((kids.take slot).map (leafCount h)).sum = ((kids.take slot).flatMap (chain h)).length := by
          rw [List.length_flatMap]
          congr 1
          apply List.map_congr_left
          intro c _
          exact leafCount_eq_chain_length h c
        -- the new chain is CA ++ (child's new chain) ++ CB
        have key : chain (h + 1) r.node ++ optChain (h + 1) r.split =
            (kids.take slot).flatMap (chain h) ++
              ((chain h r'.node ++ optChain h r'.split) ++ (kids.drop (slot + 1)).flatMap (chain h)) ∧
            r.leafIdx = ((kids.take slot).flatMap (chain h)).length + r'.leafIdx ∧ r.slot = r'.slot := by
          cases hsp : r'.split with
          | none =>
            rw [hsp] at hr
            cases hr
            simp only [optChain, List.append_nil, chain]
            exact ⟨flatMap_set (chain h) kids slot r'.node hlt, by rw [hpre], trivial⟩
          | some kv =>
            obtain ⟨nk, nc⟩ := kv
            rw [hsp] at hr
            simp only at hr
            cases hab : innerAbsorb p l keys (kids.set slot r'.node) slot nk nc with
            | none => rw [hab] at hr; cases hr
            | some res =>
              obtain ⟨node, split, ni⟩ := res
              rw [hab] at hr
              cases hr
              simp only
              obtain ⟨hin, hsn⟩ := innerAbsorb_isInner p l keys _ slot nk nc node split ni hab
              have hkk := innerAbsorb_kids p l keys (kids.set slot r'.node) slot nk nc
                (by rw [List.length_set]; exact hk) hslot node split ni hab
              rw [chain_inner_of h node hin, optChain_inner_of h split hsn, ← List.flatMap_append, hkk,
                flatMap_insertAt_set (chain h) kids slot r'.node nc hlt]
              simp only [optChain]
              exact ⟨trivial, by rw [hpre], trivial⟩
        obtain ⟨k1, k2, k3⟩ := key
        rw [k1, k2, k3]
        refine ⟨by simp only [List.length_append] at ih1 ⊢; omega, ?_⟩
        rw [rankOf_append_left, rankOf_append_right _ _ _ _ (by omega), ih2, flatMap_chain_flatten]

/-- **the position returned by `insert`** has the rank of the lower bound of the key in the old entry
sequence — where the new entry now is (or where the equivalent entry that blocked the insertion is) -/
theorem insert_pos (p : Params K) (pv : p.Valid) (sw : StrictWeak p.lt) (t : Tree K V) (ht : TreeInv p t)
    (k : K) (v : V) (res : InsResult K V) (hres : insert p t k v = some res) :
    rankOf res.tree.leafChain (some res.pos) = lbIdx p.lt k t.toList := by
  obtain ⟨hshape, hsort, hsep⟩ := ht
  unfold insert at hres
  cases hroot : t.root with
  | none =>
    rw [hroot] at hres
    simp only [BNode.level] at hres
    unfold insertDescend at hres
    rw [leafInsert_nil p pv] at hres
    simp only at hres
    cases hres
    simp [Tree.leafChain, Tree.toList, hroot, chain, BNode.level, rankOf, lbIdx]
  | some r0 =>
    rw [hroot] at hres hsep
    simp only at hres hsep
    unfold TreeShape at hshape
    rw [hroot] at hshape
    obtain ⟨hs, _, _, _⟩ := hshape
    have htl : t.toList = flatten r0.level r0 := by simp [Tree.toList, hroot]
    rw [htl] at hsort ⊢
    generalize r0.level = h0 at *
    cases hr : insertDescend p k v h0 r0 with
    | none => rw [hr] at hres; cases hres
    | some r =>
      rw [hr] at hres
      simp only at hres
      obtain ⟨_, hpos⟩ := insertDescend_pos p k v h0 r0 1 1 hs r hr
      rw [insRank_eq_lbIdx p sw k h0 r0 1 1 hs hsort hsep] at hpos
      have hshp := insertDescend_shape p pv k v h0 r0 1 1 (by have := pv.leaf4; simp [Params.leafMin, Gen.leafSlotmin]; omega)
        (by have := pv.inner4; simp [Params.innerMin, Gen.innerSlotmin]; omega) hs r hr
      cases hsp : r.split with
      | none =>
        rw [hsp] at hres hpos
        cases hres
        have hlev : r.node.level = h0 := (hshp.1 hsp).level
        simp only [optChain, List.append_nil] at hpos
        simp only [Tree.leafChain, hlev]
        exact hpos
      | some kv =>
        obtain ⟨nk, nc⟩ := kv
        rw [hsp] at hres hpos
        cases hres
        simp only [optChain] at hpos
        simp only [Tree.leafChain, BNode.level, chain, List.flatMap_cons, List.flatMap_nil, List.append_nil]
        exact hpos

end TlxVerif.C01
