/-
C04 — the tree builder (`SSTreeBuilderLevelOrder::recurse`, model `buildRec`) writes a search
tree over its in-order splitters into the level-order array.
-/
import TlxVerif.Proofs.C04Tree
namespace TlxVerif.C04

/-- `j` lies in the subtree rooted at level-order index `idx` -/
def inSub (idx j : Nat) : Prop := ∃ d, j / 2 ^ d = idx

theorem inSub_self (idx : Nat) : inSub idx idx := ⟨0, by simp⟩

theorem inSub_child {idx j : Nat} (h : inSub (2 * idx) j ∨ inSub (2 * idx + 1) j) : inSub idx j := by
  rcases h with ⟨d, hd⟩ | ⟨d, hd⟩
  · exact ⟨d + 1, by rw [Nat.pow_succ, ← Nat.div_div_eq_div_mul, hd]; omega⟩
  · exact ⟨d + 1, by rw [Nat.pow_succ, ← Nat.div_div_eq_div_mul, hd]; omega⟩

theorem div_pow_le (a d : Nat) : a / 2 ^ d ≤ a := Nat.div_le_self _ _

/-- the subtrees of the two children are disjoint and do not contain the parent -/
theorem inSub_disjoint {idx j : Nat} (hidx : 1 ≤ idx) (h1 : inSub (2 * idx) j) (h2 : inSub (2 * idx + 1) j) : False := by
  obtain ⟨d, hd⟩ := h1
  obtain ⟨e, he⟩ := h2
  rcases Nat.lt_trichotomy d e with hlt | heq | hgt
  · -- j / 2^e = (j / 2^d) / 2^(e-d) = 2idx / 2^(e-d) ≤ idx
    have : j / 2 ^ e = (j / 2 ^ d) / 2 ^ (e - d) := by
      rw [Nat.div_div_eq_div_mul, ← Nat.pow_add]; congr 2; omega
    rw [hd] at this
    have h2 : 2 * idx / 2 ^ (e - d) ≤ 2 * idx / 2 := by
      apply Nat.div_le_div_left _ (by omega)
      calc 2 = 2 ^ 1 := rfl
        _ ≤ 2 ^ (e - d) := Nat.pow_le_pow_right (by omega) (by omega)
    omega
  · subst heq; omega
  · have : j / 2 ^ d = (j / 2 ^ e) / 2 ^ (d - e) := by
      rw [Nat.div_div_eq_div_mul, ← Nat.pow_add]; congr 2; omega
    rw [he] at this
    have h2 : (2 * idx + 1) / 2 ^ (d - e) ≤ (2 * idx + 1) / 2 := by
      apply Nat.div_le_div_left _ (by omega)
      calc 2 = 2 ^ 1 := rfl
        _ ≤ 2 ^ (d - e) := Nat.pow_le_pow_right (by omega) (by omega)
    omega

theorem not_inSub_parent {idx : Nat} (hidx : 1 ≤ idx) : ¬ inSub (2 * idx) idx ∧ ¬ inSub (2 * idx + 1) idx := by
  constructor <;> (rintro ⟨d, hd⟩; have := div_pow_le idx d; omega)

/-- a search tree only depends on the array entries of its subtree -/
theorem IsBST.frame {t t' : Array Key} {f idx : Nat} {S : List Key} (h : IsBST t f idx S)
    (hfr : ∀ j, inSub idx j → t'[j]? = t[j]?) : IsBST t' f idx S := by
  induction h with
  | leaf idx => exact IsBST.leaf idx
  | node f idx m SL SR hm _ _ hL hR ihL ihR =>
    refine IsBST.node f idx m SL SR ?_ (ihL ?_) (ihR ?_) hL hR
    · rw [hfr idx (inSub_self idx)]; exact hm
    · intro j hj; exact hfr j (inSub_child (Or.inl hj))
    · intro j hj; exact hfr j (inSub_child (Or.inr hj))

/-! ### the equal-sample scans -/

theorem midLo_le (samples : Array Key) (lo : Nat) (k : Key) (m : Nat) : midLo samples lo k m ≤ m := by
  induction m with
  | zero => simp [midLo]
  | succ m ih =>
    simp only [midLo]
    split
    · omega
    · omega

theorem midLo_ge (samples : Array Key) (lo : Nat) (k : Key) (m : Nat) (h : lo ≤ m) : lo ≤ midLo samples lo k m := by
  induction m with
  | zero => simp [midLo]; omega
  | succ m ih =>
    simp only [midLo]
    split
    · rename_i hc; exact ih (by omega)
    · exact h

theorem midHi_ge (samples : Array Key) (hi : Nat) (k : Key) (f m : Nat) : m ≤ midHi samples hi k f m := by
  induction f generalizing m with
  | zero => simp [midHi]
  | succ f ih =>
    simp only [midHi]
    split
    · have := ih (m + 1); omega
    · omega

theorem midHi_lt (samples : Array Key) (hi : Nat) (k : Key) (f m : Nat) (h : m < hi) : midHi samples hi k f m < hi := by
  induction f generalizing m with
  | zero => simpa [midHi] using h
  | succ f ih =>
    simp only [midHi]
    split
    · rename_i hc; exact ih (m + 1) (by omega)
    · exact h

theorem midHi_eq_of_ge (samples : Array Key) (hi : Nat) (k : Key) (f m : Nat) (h : hi ≤ m + 1) :
    midHi samples hi k f m = m := by
  cases f with
  | zero => simp [midHi]
  | succ f =>
    simp only [midHi]
    have : ¬ (m + 1 < hi ∧ samples[m]? = some k) := by omega
    simp [this]

/-- a splitter value taken from the sample range `[lo, max hi (lo+1))` -/
def FromRange (samples : Array Key) (lo hi : Nat) (s : Key) : Prop :=
  ∃ j, lo ≤ j ∧ j < max hi (lo + 1) ∧ samples[j]? = some s

theorem set_get (t : Array Key) (i : Nat) (v : Key) (hi : i < t.size) (j : Nat) :
    (t.setIfInBounds i v)[j]? = if j = i then some v else t[j]? := by
  by_cases hj : j = i
  · subst hj; simp [hi]
  · simp [hj, Array.getElem?_setIfInBounds, Ne.symm hj]

theorem pow_level {tb L : Nat} (hL1 : 1 ≤ L) (hL : L ≤ tb) : 2 ^ (tb - L + 1) = 2 * 2 ^ (tb - L) := by
  rw [Nat.pow_succ]; omega

theorem buildRec_spec (samples : Array Key) (tb : Nat)
    (hsorted : ∀ (i j : Nat) (x y : Key), i ≤ j → samples[i]? = some x → samples[j]? = some y → x ≤ y) :
    ∀ (L lo hi idx : Nat) (recPrev : Key) (st st' : BuildSt) (last : Key),
      1 ≤ L → L ≤ tb → 2 ^ (tb - L) ≤ idx → idx < 2 ^ (tb - L + 1) →
      lo ≤ hi → hi ≤ samples.size → lo < samples.size → st.tree.size = numSplitters tb + 1 →
      buildRec samples (numSplitters tb) L lo hi idx recPrev st = some (st', last) →
      ∃ S, st'.splRev = S.reverse ++ st.splRev ∧ IsBST st'.tree L idx S ∧ S.Pairwise (fun a b => a ≤ b) ∧
        (∀ s ∈ S, FromRange samples lo hi s) ∧ st'.tree.size = st.tree.size ∧
        (∀ j, ¬ inSub idx j → st'.tree[j]? = st.tree[j]?) := by
  intro L
  induction L with
  | zero => intro lo hi idx recPrev st st' last h1; omega
  | succ f ih =>
    intro lo hi idx recPrev st st' last _ hL hlo hhi hlh hhs hls hsz hrun
    have hpos : 0 < 2 ^ tb := Nat.pow_pos (by omega)
    have hns : numSplitters tb = 2 ^ tb - 1 := rfl
    have hle : 2 ^ (tb - (f + 1) + 1) ≤ 2 ^ tb := Nat.pow_le_pow_right (by omega) (by omega)
    have hidx1 : 1 ≤ idx := by
      have : 0 < 2 ^ (tb - (f + 1)) := Nat.pow_pos (by omega)
      omega
    have hidxsz : idx < st.tree.size := by rw [hsz, hns]; omega
    simp only [buildRec] at hrun
    -- the middle sample
    have hmidlt : lo + (hi - lo) / 2 < samples.size := by omega
    obtain ⟨mykey, hmk⟩ : ∃ mykey, samples[lo + (hi - lo) / 2]? = some mykey :=
      ⟨samples[lo + (hi - lo) / 2], Array.getElem?_eq_getElem hmidlt⟩
    simp only [hmk, Option.bind_eq_bind, Option.bind_some, Nat.not_le.2 hidxsz, ge_iff_le, if_false] at hrun
    have hml1 := midLo_le samples lo mykey (lo + (hi - lo) / 2)
    have hml2 := midLo_ge samples lo mykey (lo + (hi - lo) / 2) (by omega)
    have hmh1 := midHi_ge samples hi mykey (hi - (lo + (hi - lo) / 2)) (lo + (hi - lo) / 2)
    have hmyrange : FromRange samples lo hi mykey := ⟨lo + (hi - lo) / 2, by omega, by omega, hmk⟩
    by_cases hint : 2 * idx < numSplitters tb
    · -- inner node: left subtree, this splitter, right subtree
      simp only [hint, if_true] at hrun
      have hf1 : 1 ≤ f := by
        rcases Nat.eq_zero_or_pos f with h0 | h0
        · subst h0
          simp only [Nat.zero_add] at hlo hhi
          have : 2 ^ (tb - 1 + 1) = 2 ^ tb := by congr 1; omega
          rw [pow_level (by omega) hL] at hhi
          rw [hns] at hint
          have : 2 * 2 ^ (tb - 1) = 2 ^ tb := by rw [← pow_level (by omega) hL]; exact this
          omega
        · exact h0
      have hpl := pow_level (tb := tb) (L := f + 1) (by omega) hL
      have hpl' := pow_level (tb := tb) (L := f) hf1 (by omega)
      have hsub : tb - f = tb - (f + 1) + 1 := by omega
      have e1 : 2 ^ (tb - f) = 2 * 2 ^ (tb - (f + 1)) := by rw [hsub]; exact hpl
      have hhi' : idx < 2 * 2 ^ (tb - (f + 1)) := by rw [← hpl]; exact hhi
      cases hl : buildRec samples (numSplitters tb) f lo (midLo samples lo mykey (lo + (hi - lo) / 2)) (2 * idx) recPrev
          { st with tree := st.tree.setIfInBounds idx mykey } with
      | none => simp [hl] at hrun
      | some resl =>
        obtain ⟨st2, prevkey⟩ := resl
        simp only [hl, Option.bind_some] at hrun
        obtain ⟨SL, hSL1, hSL2, hSL3, hSL4, hSL5, hSL6⟩ := ih lo (midLo samples lo mykey (lo + (hi - lo) / 2)) (2 * idx)
          recPrev _ st2 prevkey hf1 (by omega) (by rw [e1]; omega) (by rw [hpl', e1]; omega)
          hml2 (by omega) hls (by simpa using hsz) hl
        -- right subtree
        have hmhlt : midHi samples hi mykey (hi - (lo + (hi - lo) / 2)) (lo + (hi - lo) / 2) < samples.size := by
          rcases Nat.lt_or_ge (lo + (hi - lo) / 2) hi with hlt | hge
          · have := midHi_lt samples hi mykey (hi - (lo + (hi - lo) / 2)) _ hlt; omega
          · rw [midHi_eq_of_ge _ _ _ _ _ (by omega)]; omega
        have hmhle : midHi samples hi mykey (hi - (lo + (hi - lo) / 2)) (lo + (hi - lo) / 2) ≤ hi := by
          rcases Nat.lt_or_ge (lo + (hi - lo) / 2) hi with hlt | hge
          · have := midHi_lt samples hi mykey (hi - (lo + (hi - lo) / 2)) _ hlt; omega
          · rw [midHi_eq_of_ge _ _ _ _ _ (by omega)]; omega
        obtain ⟨SR, hSR1, hSR2, hSR3, hSR4, hSR5, hSR6⟩ := ih
          (midHi samples hi mykey (hi - (lo + (hi - lo) / 2)) (lo + (hi - lo) / 2)) hi (2 * idx + 1) mykey _ st' last
          hf1 (by omega) (by rw [e1]; omega) (by rw [hpl', e1]; omega)
          hmhle hhs hmhlt (by simpa [hSL5] using hsz) hrun
        refine ⟨SL ++ mykey :: SR, ?_, ?_, ?_, ?_, ?_, ?_⟩
        · simp only [hSR1, hSL1, List.reverse_append, List.reverse_cons, List.append_assoc, List.cons_append,
            List.nil_append]
        · -- the search tree
          have hnp := not_inSub_parent hidx1
          refine IsBST.node f idx mykey SL SR ?_ ?_ hSR2 ?_ ?_
          · rw [hSR6 idx hnp.2, hSL6 idx hnp.1]
            simp only
            rw [set_get _ _ _ hidxsz]; simp
          · exact hSL2.frame (fun j hj => hSR6 j (fun hj' => inSub_disjoint hidx1 hj hj'))
          · intro s hs
            obtain ⟨j, hj1, hj2, hj3⟩ := hSL4 s hs
            exact hsorted j (lo + (hi - lo) / 2) s mykey (by omega) hj3 hmk
          · intro s hs
            obtain ⟨j, hj1, hj2, hj3⟩ := hSR4 s hs
            exact hsorted (lo + (hi - lo) / 2) j mykey s (by omega) hmk hj3
        · rw [List.pairwise_append]
          refine ⟨hSL3, ?_, ?_⟩
          · rw [List.pairwise_cons]
            refine ⟨?_, hSR3⟩
            intro s hs
            obtain ⟨j, hj1, hj2, hj3⟩ := hSR4 s hs
            exact hsorted (lo + (hi - lo) / 2) j mykey s (by omega) hmk hj3
          · intro a ha b hb
            obtain ⟨j, hj1, hj2, hj3⟩ := hSL4 a ha
            have h1 : a ≤ mykey := hsorted j (lo + (hi - lo) / 2) a mykey (by omega) hj3 hmk
            rcases List.mem_cons.1 hb with rfl | hb
            · exact h1
            · obtain ⟨j', hj1', hj2', hj3'⟩ := hSR4 b hb
              have h2 : mykey ≤ b := hsorted (lo + (hi - lo) / 2) j' mykey b (by omega) hmk hj3'
              rw [BitVec.le_def] at h1 h2 ⊢; omega
        · intro s hs
          rcases List.mem_append.1 hs with h | h
          · obtain ⟨j, hj1, hj2, hj3⟩ := hSL4 s h
            exact ⟨j, hj1, by omega, hj3⟩
          · rcases List.mem_cons.1 h with rfl | h
            · exact hmyrange
            · obtain ⟨j, hj1, hj2, hj3⟩ := hSR4 s h
              refine ⟨j, by omega, ?_, hj3⟩
              rcases Nat.lt_or_ge (lo + (hi - lo) / 2) hi with hlt | hge
              · have := midHi_lt samples hi mykey (hi - (lo + (hi - lo) / 2)) _ hlt; omega
              · rw [midHi_eq_of_ge _ _ _ _ _ (by omega)] at hj1 hj2; omega
        · rw [hSR5]; simp only; rw [hSL5]; simp
        · intro j hj
          have h1 : ¬ inSub (2 * idx) j := fun h => hj (inSub_child (Or.inl h))
          have h2 : ¬ inSub (2 * idx + 1) j := fun h => hj (inSub_child (Or.inr h))
          rw [hSR6 j h2]; simp only
          rw [hSL6 j h1]; simp only
          rw [set_get _ _ _ hidxsz]
          have : j ≠ idx := fun e => hj (e ▸ inSub_self idx)
          simp [this]
    · -- leaf of the splitter tree
      simp only [hint, if_false, Option.pure_def, Option.some.injEq, Prod.mk.injEq] at hrun
      obtain ⟨rfl, rfl⟩ := hrun
      have hf0 : f = 0 := by
        rcases Nat.eq_zero_or_pos f with h0 | h0
        · exact h0
        · exfalso
          have hpl := pow_level (tb := tb) (L := f + 1) (by omega) hL
          have hpl' := pow_level (tb := tb) (L := f) h0 (by omega)
          have hsub : tb - f = tb - (f + 1) + 1 := by omega
          have : 2 ^ (tb - f + 1) ≤ 2 ^ tb := Nat.pow_le_pow_right (by omega) (by omega)
          rw [hpl', hsub] at this
          rw [hns] at hint; omega
      subst hf0
      refine ⟨[mykey], by simp, ?_, by simp, ?_, by simp, ?_⟩
      · have := IsBST.node (tree := (st.tree.setIfInBounds idx mykey)) 0 idx mykey [] []
          (by rw [set_get _ _ _ hidxsz]; simp) (IsBST.leaf _) (IsBST.leaf _) (by simp) (by simp)
        simpa using this
      · intro s hs; simp at hs; subst hs; exact hmyrange
      · intro j hj
        simp only
        rw [set_get _ _ _ hidxsz]
        have : j ≠ idx := fun e => hj (e ▸ inSub_self idx)
        simp [this]

/-- **The builder writes a search tree.**  For sorted samples `build` succeeds in producing a
level-order array that is a search tree over the emitted in-order splitter list, which is sorted. -/
theorem build_isBST {tb : Nat} {samples : Array Key} {c : Classifier} (htb : 1 ≤ tb) (hsz : 1 ≤ samples.size)
    (hsorted : ∀ (i j : Nat) (x y : Key), i ≤ j → samples[i]? = some x → samples[j]? = some y → x ≤ y)
    (h : build tb samples = some c) :
    c.treebits = tb ∧ IsBST c.tree tb 1 c.splitters ∧ c.splitters.Pairwise (fun a b => a ≤ b) := by
  unfold build at h
  simp only [Option.bind_eq_bind] at h
  cases hb : buildRec samples (numSplitters tb) tb 0 samples.size 1 0
      { tree := Array.replicate (numSplitters tb + 1) 0, splRev := [], lcpRev := [] } with
  | none => rw [hb] at h; simp at h
  | some res =>
    obtain ⟨st, last⟩ := res
    rw [hb] at h
    simp only [Option.bind_some, Option.pure_def, Option.some.injEq] at h
    obtain ⟨S, hS1, hS2, hS3, _, _, _⟩ := buildRec_spec samples tb hsorted tb 0 samples.size 1 0 _ st last htb
      (Nat.le_refl _) (by simp) (by simp) (by omega) (Nat.le_refl _) (by omega) (by simp) hb
    subst h
    simp only [List.append_nil] at hS1
    refine ⟨rfl, ?_, ?_⟩
    · simp only [hS1, List.reverse_reverse]; exact hS2
    · simp only [hS1, List.reverse_reverse]; exact hS3

/-- level-order index of the `i`-th splitter (in order) of the subtree with `F` levels rooted at `idx` -/
def levelIdx : Nat → Nat → Nat → Nat
  | 0, idx, _ => idx
  | F + 1, idx, i =>
    if i < 2 ^ F - 1 then levelIdx F (2 * idx) i
    else if i = 2 ^ F - 1 then idx
    else levelIdx F (2 * idx + 1) (i - 2 ^ F)

theorem IsBST.get {tree : Array Key} {F idx : Nat} {S : List Key} (h : IsBST tree F idx S) :
    ∀ i, i < S.length → tree[levelIdx F idx i]? = S[i]? := by
  induction h with
  | leaf idx => intro i hi; simp at hi
  | node f idx m SL SR hm hl hr _ _ ihL ihR =>
    intro i hi
    have hlenL := hl.length
    have hlenR := hr.length
    have hpos : 0 < 2 ^ f := Nat.pow_pos (by omega)
    simp only [List.length_append, List.length_cons] at hi
    simp only [levelIdx]
    by_cases h1 : i < 2 ^ f - 1
    · simp only [h1, if_true]
      rw [ihL i (by omega), List.getElem?_append_left (by omega)]
    · by_cases h2 : i = 2 ^ f - 1
      · have h1' : ¬ (2 ^ f - 1 < 2 ^ f - 1) := by omega
        subst h2
        simp only [h1', if_false, if_true]
        rw [hm, List.getElem?_append_right (by omega)]
        simp [hlenL]
      · simp only [h1, h2, if_false]
        rw [ihR (i - 2 ^ f) (by omega), List.getElem?_append_right (by omega)]
        have : i - SL.length = (i - 2 ^ f) + 1 := by omega
        rw [this, List.getElem?_cons_succ]

/-- `pre_to_levelorder` computes the level-order index of the in-order splitters (checked for one tree depth) -/
def IndexOk (tb : Nat) : Prop := ∀ i, i < numSplitters tb → preToLevel tb (i + 1) = levelIdx tb 1 i

instance (tb : Nat) : Decidable (IndexOk tb) := by unfold IndexOk; infer_instance

/-- with the index calculation right, `get_splitter(i)` of the calculating classifier is the `i`-th
in-order splitter -/
theorem getSplitterCalc_eq {c : Classifier} (hbst : IsBST c.tree c.treebits 1 c.splitters) (hidx : IndexOk c.treebits)
    (i : Nat) (hi : i < numSplitters c.treebits) : c.getSplitterCalc i = c.splitters[i]? := by
  unfold Classifier.getSplitterCalc
  rw [hidx i hi]
  exact hbst.get i (by rw [hbst.length]; exact hi)

end TlxVerif.C04
