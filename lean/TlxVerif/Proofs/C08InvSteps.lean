/-
C08 — the loop invariant as a proposition, and its preservation by the three kinds of state change of a
round: the classification of the new middle samples, one step of "move to the left", one step of "move to
the right".  Pure mathematics about the arrays `a`, `b`; the monadic model is connected in C08Loops.lean.
-/
import TlxVerif.Proofs.C08Order
namespace TlxVerif.C08

/-- hypotheses on the input: strict weak order, non-empty sorted sequences -/
structure Good (c : Ctx) : Prop where
  hlt : StrictWeak c.lt
  nonempty : ∀ i, i < c.runs.size → 1 ≤ lenAt c i
  sorted : ∀ i, i < c.runs.size → ∀ p q : Int, 0 ≤ p → p ≤ q → q < lenAt c i →
    c.lt (valAt c i q) (valAt c i p) = false

abbrev A (ab : AB) (i : Nat) : Int := aget ab.a i
abbrev B (ab : AB) (i : Nat) : Int := aget ab.b i

/-- the invariant of the refinement at stride `n + 1`, for the order the routine `r` compares edge samples by:
no first right sample is (strictly) before a last left sample of another sequence -/
structure Inv (c : Ctx) (r : Routine) (n : Nat) (ab : AB) : Prop where
  sa : ab.a.size = c.runs.size
  sb : ab.b.size = c.runs.size
  pow : ∃ j, n + 1 = 2 ^ j
  str : ∀ i, i < c.runs.size → 0 ≤ A ab i ∧ A ab i ≤ lenAt c i ∧ ((n : Int) + 1) ∣ A ab i ∧ B ab i = A ab i + n
  valid : ∀ i j, i < c.runs.size → j < c.runs.size → i ≠ j → 0 < A ab i → B ab j < lenAt c j →
    LeR c.lt r (valAt c i (A ab i - 1)) i (valAt c j (B ab j)) j

/-- what `scanLmax` returns: a maximal left edge (w.r.t. the routine's order), if there is a left edge at all -/
def LmaxSpec (c : Ctx) (r : Routine) (ab : AB) : Option Sample → Prop
  | none => ∀ i, i < c.runs.size → A ab i ≤ 0
  | some (v, s) => s < c.runs.size ∧ 0 < A ab s ∧ v = valAt c s (A ab s - 1) ∧
      ∀ i, i < c.runs.size → 0 < A ab i → LeR c.lt r (valAt c i (A ab i - 1)) i v s

/-- the new middle sample of sequence `i` goes to the left -/
def LeftCond (c : Ctx) (r : Routine) (n' : Nat) (ab : AB) (lm : Option Sample) (i : Nat) : Prop :=
  match lm with
  | none => False
  | some (lv, ls) => A ab i + n' < lenAt c i ∧ Less c.lt r (valAt c i (A ab i + n')) i lv ls

theorem same_seq_le {c : Ctx} (hg : Good c) (r : Routine) {i : Nat} (hi : i < c.runs.size) {p q : Int} (h0 : 0 ≤ p)
    (hpq : p ≤ q) (hq : q < lenAt c i) : LeR c.lt r (valAt c i p) i (valAt c i q) i :=
  LeR.same_seq r i (hg.sorted i hi p q h0 hpq hq)

theorem pow_half {n n' : Nat} (hn : n = 2 * n' + 1) (h : ∃ j, n + 1 = 2 ^ j) : ∃ j, n' + 1 = 2 ^ j := by
  obtain ⟨j, hj⟩ := h
  cases j with
  | zero => simp at hj; omega
  | succ j => exact ⟨j, by rw [Nat.pow_succ] at hj; omega⟩

theorem dvd_half {n n' : Nat} (hn : n = 2 * n' + 1) {x : Int} (h : ((n : Int) + 1) ∣ x) : ((n' : Int) + 1) ∣ x := by
  subst hn
  exact Int.dvd_trans ⟨2, by omega⟩ h

open Classical in
/-- **Classification preserves the invariant** (at the halved stride): every sequence either takes its
middle sample to the left (`LeftCond`) or makes it its first right sample. -/
theorem classify_inv {c : Ctx} (hg : Good c) {r : Routine} {n n' : Nat} (hn : n = 2 * n' + 1) {ab ab' : AB}
    {lm : Option Sample} (hinv : Inv c r n ab) (hlm : LmaxSpec c r ab lm)
    (hsa : ab'.a.size = c.runs.size) (hsb : ab'.b.size = c.runs.size)
    (hA : ∀ i, i < c.runs.size → A ab' i = if LeftCond c r n' ab lm i then A ab i + n' + 1 else A ab i)
    (hB : ∀ i, i < c.runs.size → B ab' i = if LeftCond c r n' ab lm i then B ab i else B ab i - (n' + 1)) :
    Inv c r n' ab' := by
  have hlt := hg.hlt
  refine ⟨hsa, hsb, pow_half hn hinv.pow, ?_, ?_⟩
  · intro i hi
    obtain ⟨h0, h1, h2, h3⟩ := hinv.str i hi
    have hd := dvd_half hn h2
    rw [hA i hi, hB i hi]
    by_cases hc : LeftCond c r n' ab lm i
    · simp only [if_pos hc]
      have hlen : A ab i + n' < lenAt c i := by
        unfold LeftCond at hc
        cases lm with
        | none => exact hc.elim
        | some p => exact hc.1
      refine ⟨by omega, by omega, ?_, by omega⟩
      have : A ab i + ↑n' + 1 = A ab i + ((n' : Int) + 1) := by omega
      rw [this]
      exact Int.dvd_add hd (Int.dvd_refl _)
    · simp only [if_neg hc]
      exact ⟨h0, h1, hd, by omega⟩
  · intro i j hi hj hij hai hbj
    obtain ⟨hi0, hi1, _, hi3⟩ := hinv.str i hi
    obtain ⟨hj0, hj1, _, hj3⟩ := hinv.str j hj
    rw [hA i hi] at hai ⊢
    rw [hB j hj] at hbj ⊢
    cases lm with
    | none =>
      have hci : ¬ LeftCond c r n' ab none i := fun h => h
      simp only [if_neg hci] at hai
      have := hlm i hi
      omega
    | some p =>
      obtain ⟨lv, ls⟩ := p
      obtain ⟨hls, hals, hlv, hmax⟩ := hlm
      -- the maximum of the old left edges is not after any old right edge
      have hmaxR : ∀ k, k < c.runs.size → B ab k < lenAt c k → LeR c.lt r lv ls (valAt c k (B ab k)) k := by
        intro k hk hbk
        by_cases hks : ls = k
        · subst hks
          rw [hlv]
          obtain ⟨_, _, _, hk3⟩ := hinv.str ls hk
          exact same_seq_le hg r hk (by omega) (by omega) hbk
        · rw [hlv]
          exact hinv.valid ls k hls hk hks hals hbk
      by_cases hci : LeftCond c r n' ab (some (lv, ls)) i
      · simp only [if_pos hci] at hai ⊢
        have hxi : LeR c.lt r (valAt c i (A ab i + n')) i lv ls := LeR.of_less hlt hci.2
        have e : A ab i + ↑n' + 1 - 1 = A ab i + n' := by omega
        rw [e]
        by_cases hcj : LeftCond c r n' ab (some (lv, ls)) j
        · simp only [if_pos hcj] at hbj ⊢
          exact LeR.trans hlt hxi (hmaxR j hj hbj)
        · simp only [if_neg hcj] at hbj ⊢
          have e2 : B ab j - (↑n' + 1) = A ab j + n' := by omega
          rw [e2] at hbj ⊢
          have hle : LeR c.lt r lv ls (valAt c j (A ab j + n')) j := fun hb => hcj ⟨hbj, hb⟩
          exact LeR.trans hlt hxi hle
      · simp only [if_neg hci] at hai ⊢
        by_cases hcj : LeftCond c r n' ab (some (lv, ls)) j
        · simp only [if_pos hcj] at hbj ⊢
          exact hinv.valid i j hi hj hij hai hbj
        · simp only [if_neg hcj] at hbj ⊢
          have e2 : B ab j - (↑n' + 1) = A ab j + n' := by omega
          rw [e2] at hbj ⊢
          have hle : LeR c.lt r lv ls (valAt c j (A ab j + n')) j := fun hb => hcj ⟨hbj, hb⟩
          exact LeR.trans hlt (hmax i hi hai) hle

/-- **One step "move to the left"**: a smallest first right sample joins the left. -/
theorem moveLeft_inv {c : Ctx} (hg : Good c) {r : Routine} {n : Nat} {ab ab' : AB} (hinv : Inv c r n ab) {src : Nat}
    (hsrc : src < c.runs.size) (hb : B ab src < lenAt c src)
    (hmin : ∀ j, j < c.runs.size → j ≠ src → B ab j < lenAt c j →
      LeR c.lt r (valAt c src (B ab src)) src (valAt c j (B ab j)) j)
    (hsa : ab'.a.size = c.runs.size) (hsb : ab'.b.size = c.runs.size)
    (hA : ∀ i, i < c.runs.size → A ab' i = if i = src then A ab i + n + 1 else A ab i)
    (hB : ∀ i, i < c.runs.size → B ab' i = if i = src then B ab i + (n + 1) else B ab i) :
    Inv c r n ab' := by
  have hlt := hg.hlt
  obtain ⟨hs0, hs1, hs2, hs3⟩ := hinv.str src hsrc
  refine ⟨hsa, hsb, hinv.pow, ?_, ?_⟩
  · intro i hi
    rw [hA i hi, hB i hi]
    by_cases his : i = src
    · subst his
      simp only [if_true]
      refine ⟨by omega, by omega, ?_, by omega⟩
      have : A ab i + ↑n + 1 = A ab i + ((n : Int) + 1) := by omega
      rw [this]
      exact Int.dvd_add hs2 (Int.dvd_refl _)
    · simp only [if_neg his]
      exact hinv.str i hi
  · intro i j hi hj hij hai hbj
    rw [hA i hi] at hai ⊢
    rw [hB j hj] at hbj ⊢
    by_cases his : i = src
    · subst his
      have hjs : j ≠ i := Ne.symm hij
      simp only [if_true, if_neg hjs] at hai hbj ⊢
      have e : A ab i + ↑n + 1 - 1 = B ab i := by omega
      rw [e]
      exact hmin j hj hjs hbj
    · simp only [if_neg his] at hai ⊢
      by_cases hjs : j = src
      · subst hjs
        simp only [if_true] at hbj ⊢
        have h1 := hinv.valid i j hi hj hij hai hb
        exact LeR.trans hlt h1 (same_seq_le hg r hj (by omega) (by omega) hbj)
      · simp only [if_neg hjs] at hbj ⊢
        exact hinv.valid i j hi hj hij hai hbj

/-- **One step "move to the right"**: a greatest last left sample leaves the left. -/
theorem moveRight_inv {c : Ctx} (hg : Good c) {r : Routine} {n : Nat} {ab ab' : AB} (hinv : Inv c r n ab) {src : Nat}
    (hsrc : src < c.runs.size) (ha : 0 < A ab src)
    (hmax : ∀ i, i < c.runs.size → i ≠ src → 0 < A ab i →
      LeR c.lt r (valAt c i (A ab i - 1)) i (valAt c src (A ab src - 1)) src)
    (hsa : ab'.a.size = c.runs.size) (hsb : ab'.b.size = c.runs.size)
    (hA : ∀ i, i < c.runs.size → A ab' i = if i = src then A ab i - (n + 1) else A ab i)
    (hB : ∀ i, i < c.runs.size → B ab' i = if i = src then B ab i - (n + 1) else B ab i) :
    Inv c r n ab' := by
  have hlt := hg.hlt
  obtain ⟨hs0, hs1, hs2, hs3⟩ := hinv.str src hsrc
  have hge : (n : Int) + 1 ≤ A ab src := Int.le_of_dvd ha hs2
  refine ⟨hsa, hsb, hinv.pow, ?_, ?_⟩
  · intro i hi
    rw [hA i hi, hB i hi]
    by_cases his : i = src
    · subst his
      simp only [if_true]
      exact ⟨by omega, by omega, Int.dvd_sub hs2 (Int.dvd_refl _), by omega⟩
    · simp only [if_neg his]
      exact hinv.str i hi
  · intro i j hi hj hij hai hbj
    rw [hA i hi] at hai ⊢
    rw [hB j hj] at hbj ⊢
    by_cases hjs : j = src
    · subst hjs
      have his : i ≠ j := hij
      simp only [if_true, if_neg his] at hai hbj ⊢
      have e : B ab j - (↑n + 1) = A ab j - 1 := by omega
      rw [e]
      exact hmax i hi his hai
    · simp only [if_neg hjs] at hbj ⊢
      by_cases his : i = src
      · subst his
        simp only [if_true] at hai ⊢
        have h1 := hinv.valid i j hi hj hij ha hbj
        exact LeR.trans hlt (same_seq_le hg r hi (by omega) (by omega) (by omega)) h1
      · simp only [if_neg his] at hai ⊢
        exact hinv.valid i j hi hj hij hai hbj

end TlxVerif.C08
