/-
C08 — the initial partition (`initSample`, `initAB`) establishes the invariant at the initial stride.
-/
import TlxVerif.Proofs.C08Round
import TlxVerif.Proofs.C08Model
namespace TlxVerif.C08

/-! ### the two sample loops -/

def realOf (c : Ctx) (n : Nat) (is : List Nat) : List Sample :=
  is.filterMap (fun i => if (n : Int) < lenAt c i then some (valAt c i n, i) else none)

def dummyOf (c : Ctx) (n : Nat) (is : List Nat) : List Sample :=
  is.filterMap (fun i => if (n : Int) ≥ lenAt c i then some (valAt c i 0, i) else none)

theorem sampleReal_spec (c : Ctx) (n : Nat) : ∀ (is : List Nat), (∀ i ∈ is, i < c.runs.size) →
    Spec (sampleReal c (seqlenOf c) n is) (fun l => l = realOf c n is)
  | [], _ => by rw [sampleReal]; exact Spec.pure rfl
  | i :: is, h => by
    have hi := h i List.mem_cons_self
    have ih := sampleReal_spec c n is (fun j hj => h j (List.mem_cons_of_mem _ hj))
    rw [sampleReal, aget_seqlenOf c hi]
    by_cases hr : (n : Int) < lenAt c i
    · rw [if_pos hr]
      refine Spec.bind (Spec.rd c hi (by omega) hr) ?_
      intro v hv; subst hv
      refine Spec.bind ih ?_
      intro rest hrest; subst hrest
      exact Spec.pure (by simp [realOf, hr])
    · rw [if_neg hr]
      refine Spec.mono ih ?_
      intro l hl; subst hl
      simp [realOf, hr]

theorem sampleDummy_spec {c : Ctx} (hg : Good c) (n : Nat) : ∀ (is : List Nat), (∀ i ∈ is, i < c.runs.size) →
    Spec (sampleDummy c (seqlenOf c) n is) (fun l => l = dummyOf c n is)
  | [], _ => by rw [sampleDummy]; exact Spec.pure rfl
  | i :: is, h => by
    have hi := h i List.mem_cons_self
    have ih := sampleDummy_spec hg n is (fun j hj => h j (List.mem_cons_of_mem _ hj))
    rw [sampleDummy, aget_seqlenOf c hi]
    by_cases hr : (n : Int) ≥ lenAt c i
    · rw [if_pos hr]
      refine Spec.bind (Spec.rd c hi (by omega) (by have := hg.nonempty i hi; omega)) ?_
      intro v hv; subst hv
      refine Spec.bind ih ?_
      intro rest hrest; subst hrest
      exact Spec.pure (by simp [dummyOf, hr])
    · rw [if_neg hr]
      refine Spec.mono ih ?_
      intro l hl; subst hl
      simp [dummyOf, hr]

theorem initSample_spec {c : Ctx} (hg : Good c) (n : Nat) :
    Spec (initSample c (seqlenOf c) n)
      (fun l => l = sortBy (lcomp c.lt) (realOf c n (List.range c.runs.size)) ++ dummyOf c n (List.range c.runs.size)) := by
  unfold initSample
  have hr : ∀ i ∈ List.range c.runs.size, i < c.runs.size := fun i hi => List.mem_range.mp hi
  refine Spec.bind (sampleReal_spec c n _ hr) ?_
  intro real h1; subst h1
  refine Spec.bind (sampleDummy_spec hg n _ hr) ?_
  intro dummy h2; subst h2
  exact Spec.pure rfl

/-! ### membership in the two sample lists -/

theorem mem_realOf {c : Ctx} {n : Nat} {is : List Nat} {v : Int} {s : Nat} :
    (v, s) ∈ realOf c n is ↔ s ∈ is ∧ (n : Int) < lenAt c s ∧ v = valAt c s n := by
  simp only [realOf, List.mem_filterMap]
  constructor
  · rintro ⟨i, hi, h⟩
    by_cases hr : (n : Int) < lenAt c i
    · rw [if_pos hr] at h
      simp only [Option.some.injEq, Prod.mk.injEq] at h
      obtain ⟨rfl, rfl⟩ := h
      exact ⟨hi, hr, rfl⟩
    · rw [if_neg hr] at h; cases h
  · rintro ⟨hs, hr, rfl⟩
    exact ⟨s, hs, by rw [if_pos hr]⟩

theorem mem_dummyOf {c : Ctx} {n : Nat} {is : List Nat} {v : Int} {s : Nat} :
    (v, s) ∈ dummyOf c n is ↔ s ∈ is ∧ (n : Int) ≥ lenAt c s ∧ v = valAt c s 0 := by
  simp only [dummyOf, List.mem_filterMap]
  constructor
  · rintro ⟨i, hi, h⟩
    by_cases hr : (n : Int) ≥ lenAt c i
    · rw [if_pos hr] at h
      simp only [Option.some.injEq, Prod.mk.injEq] at h
      obtain ⟨rfl, rfl⟩ := h
      exact ⟨hi, hr, rfl⟩
    · rw [if_neg hr] at h; cases h
  · rintro ⟨hs, hr, rfl⟩
    exact ⟨s, hs, by rw [if_pos hr]⟩

theorem realOf_snd_sublist (c : Ctx) (n : Nat) : ∀ (is : List Nat), ((realOf c n is).map (·.2)).Sublist is
  | [] => by simp [realOf]
  | i :: is => by
    have ih := realOf_snd_sublist c n is
    unfold realOf at ih ⊢
    rw [List.filterMap_cons]
    by_cases hr : (n : Int) < lenAt c i
    · simp only [if_pos hr, List.map_cons]; exact List.Sublist.cons_cons i ih
    · simp only [if_neg hr]; exact List.Sublist.cons i ih

theorem dummyOf_snd_sublist (c : Ctx) (n : Nat) : ∀ (is : List Nat), ((dummyOf c n is).map (·.2)).Sublist is
  | [] => by simp [dummyOf]
  | i :: is => by
    have ih := dummyOf_snd_sublist c n is
    unfold dummyOf at ih ⊢
    rw [List.filterMap_cons]
    by_cases hr : (n : Int) ≥ lenAt c i
    · simp only [if_pos hr, List.map_cons]; exact List.Sublist.cons_cons i ih
    · simp only [if_neg hr]; exact List.Sublist.cons i ih

/-! ### `initLeft` / `initRight` as pointwise updates -/

def updAll (f : Int → Int) : List Nat → Array Int → Array Int
  | [], a => a
  | s :: ss, a => updAll f ss (aset a s (f (aget a s)))

theorem size_updAll (f : Int → Int) : ∀ (ss : List Nat) (a : Array Int), (updAll f ss a).size = a.size
  | [], _ => rfl
  | s :: ss, a => by rw [updAll, size_updAll f ss, size_aset]

theorem aget_updAll (f : Int → Int) : ∀ (ss : List Nat) (a : Array Int), ss.Nodup → (∀ s ∈ ss, s < a.size) →
    ∀ k, aget (updAll f ss a) k = if k ∈ ss then f (aget a k) else aget a k
  | [], _, _, _, _ => by simp [updAll]
  | s :: ss, a, hnd, hlt, k => by
    have hnd' := List.nodup_cons.mp hnd
    rw [updAll, aget_updAll f ss _ hnd'.2 (fun x hx => by rw [size_aset]; exact hlt x (List.mem_cons_of_mem _ hx))]
    by_cases hks : k = s
    · subst hks
      rw [if_neg hnd'.1, if_pos List.mem_cons_self, aget_aset_eq _ (hlt k List.mem_cons_self)]
    · have e : (k ∈ s :: ss) ↔ k ∈ ss := by simp [hks]
      simp only [e]
      rw [aget_aset_ne _ (Ne.symm hks)]

theorem initLeft_eq (seqlen : Array Int) (n localrank : Nat) (D : List Sample)
    (hD : ∀ p ∈ D, ¬ ((n : Int) + 1 ≤ aget seqlen p.2)) :
    ∀ (R : List Sample) (j : Nat) (a : Array Int), (∀ p ∈ R, (n : Int) + 1 ≤ aget seqlen p.2) → j ≤ localrank →
      initLeft seqlen n localrank (R ++ D) j a =
        (updAll (fun x => x + n + 1) ((R.take (localrank - j)).map (·.2)) a, R.drop (localrank - j) ++ D)
  | [], j, a, _, _ => by
    cases D with
    | nil => simp [initLeft, updAll]
    | cons p D' =>
      obtain ⟨v, s⟩ := p
      have := hD (v, s) List.mem_cons_self
      simp only [List.nil_append, initLeft]
      rw [if_neg (fun h => this h.2)]
      simp [updAll]
  | (v, s) :: R, j, a, hR, hj => by
    have hs := hR (v, s) List.mem_cons_self
    simp only [List.cons_append, initLeft]
    by_cases hjl : j < localrank
    · rw [if_pos ⟨hjl, hs⟩]
      rw [initLeft_eq seqlen n localrank D hD R (j + 1) _ (fun p hp => hR p (List.mem_cons_of_mem _ hp)) (by omega)]
      have e : localrank - j = (localrank - (j + 1)) + 1 := by omega
      rw [e]
      simp [updAll]
    · rw [if_neg (fun h => hjl h.1)]
      have e : localrank - j = 0 := by omega
      rw [e]
      simp [updAll]

theorem initRight_eq (n : Nat) : ∀ (rest : List Sample) (b : Array Int),
    initRight n rest b = updAll (fun x => x - (n + 1)) (rest.map (·.2)) b
  | [], _ => rfl
  | (_, s) :: rest, b => by
    simp only [initRight, List.map_cons, updAll]
    exact initRight_eq n rest _

/-! ### the state after the initial partition -/

theorem foldl_max_ge (l : List (Array Int)) : ∀ (acc : Nat), (acc ≤ l.foldl (fun acc x => max acc x.size) acc) ∧
    ∀ x ∈ l, x.size ≤ l.foldl (fun acc x => max acc x.size) acc := by
  induction l with
  | nil => intro acc; simp
  | cons y l ih =>
    intro acc
    have := ih (max acc y.size)
    simp only [List.foldl_cons]
    refine ⟨by omega, ?_⟩
    intro x hx
    rcases List.mem_cons.mp hx with hx | hx
    · subst hx; omega
    · exact this.2 x hx

theorem lenAt_le_nmax (c : Ctx) {i : Nat} (hi : i < c.runs.size) : lenAt c i ≤ (nmaxOf c : Int) := by
  have hmem : c.runs[i] ∈ c.runs.toList := by simp
  have := (foldl_max_ge c.runs.toList 0).2 _ hmem
  have hl : lenAt c i = (c.runs[i].size : Int) := by
    simp [lenAt, Array.getD_eq_getD_getElem?, Array.getElem?_eq_getElem hi]
  rw [hl]; unfold nmaxOf; omega

/-- the padded length: `l + 1` is a power of two ≥ 2, `l ≥ nmax` -/
theorem padded_length {c : Ctx} (hm : 0 < c.runs.size) (hg : Good c) :
    ∃ k, roundUpPow2 (nmaxOf c + 1) - 1 + 1 = 2 ^ (k + 1) ∧ nmaxOf c ≤ roundUpPow2 (nmaxOf c + 1) - 1 := by
  have h1 : 1 ≤ nmaxOf c := by
    have := lenAt_le_nmax c hm
    have := hg.nonempty 0 hm
    omega
  obtain ⟨k, hk, hge, _⟩ := roundUpPow2_spec (nmaxOf c + 1) (by omega)
  cases k with
  | zero => simp at hge; omega
  | succ k => exact ⟨k, by rw [hk]; have := Nat.one_le_two_pow (n := k + 1); omega, by rw [hk]; omega⟩

theorem leftsize_updAll (n : Nat) (idx : List Nat) (hidx : idx.Nodup) :
    ∀ (ss : List Nat) (a : Array Int), ss.Nodup → (∀ s ∈ ss, s ∈ idx ∧ s < a.size ∧ ((n : Int) + 1) ∣ aget a s) →
      leftsizeOf (updAll (fun x => x + n + 1) ss a) n idx = leftsizeOf a n idx + ss.length
  | [], a, _, _ => by simp [updAll]
  | s :: ss, a, hnd, h => by
    have hnd' := List.nodup_cons.mp hnd
    obtain ⟨hsi, hss, hdv⟩ := h s List.mem_cons_self
    rw [updAll, leftsize_updAll n idx hidx ss _ hnd'.2 (by
      intro x hx
      have hxs : x ≠ s := fun e => hnd'.1 (e ▸ hx)
      obtain ⟨h1, h2, h3⟩ := h x (List.mem_cons_of_mem _ hx)
      exact ⟨h1, by rw [size_aset]; exact h2, by rw [aget_aset_ne _ (Ne.symm hxs)]; exact h3⟩)]
    rw [leftsize_change a (aset a s (aget a s + n + 1)) n s idx hidx (fun i _ hne => aget_aset_ne _ (Ne.symm hne)),
      if_pos hsi, aget_aset_eq _ hss, tdiv_of_dvd (by omega) hdv _ (by omega)]
    simp only [List.length_cons]; push_cast; omega

/-- **The initial partition establishes the invariant.** -/
theorem initAB_inv {c : Ctx} (hg : Good c) (r : Routine) (hm : 0 < c.runs.size) (rank : Nat) :
    let l := roundUpPow2 (nmaxOf c + 1) - 1
    let n := l / 2
    let R := sortBy (lcomp c.lt) (realOf c n (List.range c.runs.size))
    let D := dummyOf c n (List.range c.runs.size)
    Inv c r n (initAB c.runs.size (seqlenOf c) (R ++ D) n l (rank / l)) ∧
    Lsz c n (initAB c.runs.size (seqlenOf c) (R ++ D) n l (rank / l)) = ((R.take (rank / l)).length : Int) := by
  intro l n R D
  obtain ⟨k, hk, hnmax⟩ := padded_length hm hg
  have hl2 : l = 2 * n + 1 := by
    have : l + 1 = 2 ^ (k + 1) := hk
    rw [Nat.pow_succ] at this
    show l = 2 * (l / 2) + 1
    omega
  have hpow : ∃ j, n + 1 = 2 ^ j := ⟨k, by have : l + 1 = 2 ^ (k + 1) := hk; rw [Nat.pow_succ] at this; omega⟩
  have hidx : ∀ i ∈ List.range c.runs.size, i < c.runs.size := fun i hi => List.mem_range.mp hi
  -- the real samples, sorted
  have hrealnd : ((realOf c n (List.range c.runs.size)).map (·.2)).Nodup :=
    List.Nodup.sublist (realOf_snd_sublist c n _) List.nodup_range
  obtain ⟨hRperm, hRsorted, _⟩ := sortBy_lcomp_spec hg.hlt _ hrealnd
  have hRmem : ∀ v s, (v, s) ∈ R ↔ (s < c.runs.size ∧ (n : Int) < lenAt c s ∧ v = valAt c s n) := by
    intro v s
    rw [hRperm.mem_iff, mem_realOf, List.mem_range]
  have hDmem : ∀ v s, (v, s) ∈ D ↔ (s < c.runs.size ∧ (n : Int) ≥ lenAt c s ∧ v = valAt c s 0) := by
    intro v s
    show (v, s) ∈ dummyOf c n _ ↔ _
    rw [mem_dummyOf, List.mem_range]
  have hRreal : ∀ p ∈ R, (n : Int) + 1 ≤ aget (seqlenOf c) p.2 := by
    intro p hp
    obtain ⟨h1, h2, _⟩ := (hRmem p.1 p.2).mp hp
    rw [aget_seqlenOf c h1]; omega
  have hDun : ∀ p ∈ D, ¬ ((n : Int) + 1 ≤ aget (seqlenOf c) p.2) := by
    intro p hp
    obtain ⟨h1, h2, _⟩ := (hDmem p.1 p.2).mp hp
    rw [aget_seqlenOf c h1]; omega
  -- distinct sequence numbers in R ++ D
  have hRDnd : ((R ++ D).map (·.2)).Nodup := by
    rw [List.map_append, List.nodup_append]
    refine ⟨(hRperm.map _).nodup_iff.mpr hrealnd,
      List.Nodup.sublist (dummyOf_snd_sublist c n _) List.nodup_range, ?_⟩
    intro x hx y hy e
    subst e
    obtain ⟨p, hp, rfl⟩ := List.mem_map.mp hx
    obtain ⟨q, hq, hqe⟩ := List.mem_map.mp hy
    have h1 := (hRmem p.1 p.2).mp hp
    have h2 := (hDmem q.1 q.2).mp hq
    rw [hqe] at h2
    omega
  -- unfold initAB
  generalize ht : rank / l = t
  have hinit : initAB c.runs.size (seqlenOf c) (R ++ D) n l t =
      ⟨updAll (fun x => x + n + 1) ((R.take t).map (·.2)) (Array.replicate c.runs.size 0),
       updAll (fun x => x - (n + 1)) ((R.drop t ++ D).map (·.2)) (Array.replicate c.runs.size (l : Int))⟩ := by
    unfold initAB
    rw [initLeft_eq (seqlenOf c) n t D hDun R 0 _ hRreal (Nat.zero_le _)]
    simp only [Nat.sub_zero, initRight_eq]
  rw [hinit]
  -- the two index sets
  have hsplit : (R ++ D).map (·.2) = (R.take t).map (·.2) ++ (R.drop t ++ D).map (·.2) := by
    rw [← List.map_append, ← List.append_assoc, List.take_append_drop]
  rw [hsplit, List.nodup_append] at hRDnd
  obtain ⟨hLnd, hRnd, hdisj⟩ := hRDnd
  have hLlt : ∀ s ∈ (R.take t).map (·.2), s < c.runs.size := by
    intro s hs
    obtain ⟨p, hp, rfl⟩ := List.mem_map.mp hs
    exact ((hRmem p.1 p.2).mp ((List.take_sublist _ _).subset hp)).1
  have hRlt : ∀ s ∈ (R.drop t ++ D).map (·.2), s < c.runs.size := by
    intro s hs
    obtain ⟨p, hp, rfl⟩ := List.mem_map.mp hs
    rcases List.mem_append.mp hp with hp | hp
    · exact ((hRmem p.1 p.2).mp ((List.drop_sublist _ _).subset hp)).1
    · exact ((hDmem p.1 p.2).mp hp).1
  have hcover : ∀ s, s < c.runs.size → s ∈ (R.take t).map (·.2) ∨ s ∈ (R.drop t ++ D).map (·.2) := by
    intro s hs
    by_cases hr : (n : Int) < lenAt c s
    · have : (valAt c s n, s) ∈ R := (hRmem _ _).mpr ⟨hs, hr, rfl⟩
      rw [← List.take_append_drop t R] at this
      rcases List.mem_append.mp this with h | h
      · exact Or.inl (List.mem_map.mpr ⟨_, h, rfl⟩)
      · exact Or.inr (List.mem_map.mpr ⟨_, List.mem_append_left _ h, rfl⟩)
    · have : (valAt c s 0, s) ∈ D := (hDmem _ _).mpr ⟨hs, by omega, rfl⟩
      exact Or.inr (List.mem_map.mpr ⟨_, List.mem_append_right _ this, rfl⟩)
  have hAv : ∀ s, s < c.runs.size → aget (updAll (fun x => x + n + 1) ((R.take t).map (·.2)) (Array.replicate c.runs.size 0)) s =
      if s ∈ (R.take t).map (·.2) then (n : Int) + 1 else 0 := by
    intro s hs
    rw [aget_updAll _ _ _ hLnd (by simpa using hLlt), aget_replicate _ hs]
    split <;> omega
  have hBv : ∀ s, s < c.runs.size → aget (updAll (fun x => x - (n + 1)) ((R.drop t ++ D).map (·.2)) (Array.replicate c.runs.size (l : Int))) s =
      if s ∈ (R.drop t ++ D).map (·.2) then (l : Int) - (n + 1) else l := by
    intro s hs
    rw [aget_updAll _ _ _ hRnd (by simpa using hRlt), aget_replicate _ hs]
  constructor
  · refine ⟨by rw [size_updAll]; simp, by rw [size_updAll]; simp, hpow, ?_, ?_⟩
    · intro s hs
      simp only [A, B]
      rw [hAv s hs, hBv s hs]
      by_cases hsl : s ∈ (R.take t).map (·.2)
      · have hnr : s ∉ (R.drop t ++ D).map (·.2) := fun h => hdisj s hsl s h rfl
        rw [if_pos hsl, if_neg hnr]
        obtain ⟨p, hp, hps⟩ := List.mem_map.mp hsl
        have := (hRmem p.1 p.2).mp ((List.take_sublist _ _).subset hp)
        rw [hps] at this
        exact ⟨by omega, by omega, Int.dvd_refl _, by omega⟩
      · have hr := (hcover s hs).resolve_left hsl
        rw [if_neg hsl, if_pos hr]
        have := hg.nonempty s hs
        exact ⟨by omega, by omega, Int.dvd_zero _, by omega⟩
    · intro i j hi hj hij hai hbj
      simp only [A, B] at hai hbj ⊢
      rw [hAv i hi] at hai ⊢
      rw [hBv j hj] at hbj ⊢
      have hil : i ∈ (R.take t).map (·.2) := by
        by_cases h : i ∈ (R.take t).map (·.2)
        · exact h
        · rw [if_neg h] at hai; omega
      rw [if_pos hil]
      have hjr : j ∈ (R.drop t ++ D).map (·.2) := by
        by_cases h : j ∈ (R.drop t ++ D).map (·.2)
        · exact h
        · rw [if_neg h] at hbj
          have := lenAt_le_nmax c hj
          omega
      rw [if_pos hjr] at hbj ⊢
      have e1 : (n : Int) + 1 - 1 = n := by omega
      have e2 : (l : Int) - (n + 1) = n := by omega
      rw [e1]
      rw [e2] at hbj ⊢
      -- both are real samples, i among the first t of the sorted list, j behind
      obtain ⟨p, hp, hpi⟩ := List.mem_map.mp hil
      have hpR := (hRmem p.1 p.2).mp ((List.take_sublist _ _).subset hp)
      have hjnl : j ∉ (R.take t).map (·.2) := fun h => hdisj j h j hjr rfl
      have hjR : (valAt c j n, j) ∈ R := (hRmem _ _).mpr ⟨hj, hbj, rfl⟩
      have hjdrop : (valAt c j n, j) ∈ R.drop t := by
        rw [← List.take_append_drop t R] at hjR
        rcases List.mem_append.mp hjR with h | h
        · exact (hjnl (List.mem_map.mpr ⟨_, h, rfl⟩)).elim
        · exact h
      have hsorted : List.Pairwise (fun p q => lcomp c.lt p q = true) R := hRsorted
      rw [← List.take_append_drop t R] at hsorted
      have := (List.pairwise_append.mp hsorted).2.2 p hp _ hjdrop
      have hpe : p = (valAt c i n, i) := by
        rw [hpi] at hpR
        exact Prod.ext hpR.2.2 hpi
      rw [hpe] at this
      exact LeR.of_before hg.hlt r ((lcomp_iff_before' _ _ _ _ _).mp this)
  · unfold Lsz
    rw [leftsize_updAll n _ List.nodup_range _ _ hLnd (by
      intro s hs
      have := hLlt s hs
      exact ⟨List.mem_range.mpr this, by simpa using this, by rw [aget_replicate _ this]; exact Int.dvd_zero _⟩)]
    have hz : leftsizeOf (Array.replicate c.runs.size 0) n (List.range c.runs.size) = 0 := by
      have : ∀ (is : List Nat), (∀ i ∈ is, i < c.runs.size) → leftsizeOf (Array.replicate c.runs.size 0) n is = 0 := by
        intro is
        induction is with
        | nil => intro _; rfl
        | cons i is ih =>
          intro h
          simp only [leftsizeOf, aget_replicate _ (h i List.mem_cons_self), Int.zero_tdiv, Int.zero_add]
          exact ih (fun j hj => h j (List.mem_cons_of_mem _ hj))
      exact this _ hidx
    rw [hz]; simp

end TlxVerif.C08
