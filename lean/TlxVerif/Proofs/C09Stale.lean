/-
`delete_min_insert` never reads the key of the previous winner (`losers_[0].key` / `*losers_[0].keyp`):
the loop only reads `losers_[0].source`, the nodes `pos ≥ 1` on the leaf-to-root path and the
candidate; node 0 is overwritten at the end.  Formally: whatever the caller did to the storage of the
key it was handed (`Tree.clobberWinnerKey`), the call returns exactly the same tree.
-/
import TlxVerif.Proofs.C09Path
namespace TlxVerif.C09

variable {α : Type}

theorem rd_set0_ne (a : Array (Entry α)) (e : Entry α) {pos : Nat} (h : pos ≠ 0) :
    rd (a.setIfInBounds 0 e) pos = rd a pos := by
  unfold rd
  exact Array.getElem?_setIfInBounds_ne (fun h' => h h'.symm)

theorem wr_set0 (a : Array (Entry α)) (e s : Entry α) {pos : Nat} (h : pos ≠ 0) :
    wr (a.setIfInBounds 0 e) pos s = (wr a pos s).map (fun b => b.setIfInBounds 0 e) := by
  unfold wr
  simp only [Array.size_setIfInBounds]
  split
  · simp only [Option.map_some, Option.some.injEq]
    exact Array.setIfInBounds_comm e s (fun h' => h h'.symm)
  · rfl

theorem replay_eq (v : Variant) (lt : α → α → Bool) (pos : Nat) (c : Entry α) (a : Array (Entry α)) :
    replay v lt pos c a =
      if pos = 0 then some (c, a) else
        (rd a pos).bind fun L =>
          match step v lt L c with
          | none => replay v lt (pos / 2) c a
          | some (s, c') => (wr a pos s).bind fun a' => replay v lt (pos / 2) c' a' := by
  rw [replay]
  split
  · rfl
  · cases rd a pos with
    | none => rfl
    | some L =>
      simp only [Option.bind_eq_bind, Option.bind_some]
      cases step v lt L c with
      | none => rfl
      | some sc => rfl

/-- the replay loop commutes with a write to node 0 -/
theorem replay_set0 (v : Variant) (lt : α → α → Bool) (e : Entry α) :
    ∀ (pos : Nat) (c : Entry α) (a : Array (Entry α)),
      replay v lt pos c (a.setIfInBounds 0 e) =
        (replay v lt pos c a).map (fun r => (r.1, r.2.setIfInBounds 0 e)) := by
  intro pos
  induction pos using Nat.strongRecOn with
  | _ pos ih =>
    intro c a
    by_cases h0 : pos = 0
    · subst h0; rw [replay_eq, replay_eq v lt 0 c a]; simp
    · rw [replay_eq, replay_eq v lt pos c a]
      simp only [h0, if_false, rd_set0_ne a e h0]
      cases hr : rd a pos with
      | none => rfl
      | some L =>
        simp only [Option.bind_some]
        cases hs : step v lt L c with
        | none => exact ih (pos / 2) (by omega) c a
        | some sc =>
          obtain ⟨s, c'⟩ := sc
          simp only [wr_set0 a e s h0]
          cases hw : wr a pos s with
          | none => rfl
          | some a' =>
            simp only [Option.map_some, Option.bind_some]
            exact ih (pos / 2) (by omega) c' a'

/-- **`delete_min_insert` does not depend on the previous winner's key.** -/
theorem deleteMinInsert_ignores_winner_key (t : Tree α) (lt : α → α → Bool) (dflt : α) (key : Option α) (x : α) :
    (t.clobberWinnerKey x).deleteMinInsert lt dflt key = t.deleteMinInsert lt dflt key := by
  unfold Tree.clobberWinnerKey
  cases hW : t.losers[0]? with
  | none => rfl
  | some W =>
    have h0 : 0 < t.losers.size := by
      by_cases c : 0 < t.losers.size
      · exact c
      · rw [Array.getElem?_eq_none (by omega)] at hW; cases hW
    unfold Tree.deleteMinInsert
    have hrd : rd (t.losers.setIfInBounds 0 { W with key := x }) 0 = some { W with key := x } := by
      unfold rd; rw [Array.getElem?_setIfInBounds_self]; simp [h0]
    have hrd' : rd t.losers 0 = some W := hW
    simp only [hrd, hrd', Option.bind_eq_bind, Option.bind_some, replay_set0]
    cases replay t.v lt ((t.k + W.source) % 4294967296 / 2) (mkEntry dflt key W.source) t.losers with
    | none => rfl
    | some r =>
      obtain ⟨c, b⟩ := r
      simp only [Option.map_some, Option.bind_some]
      unfold wr
      simp only [Array.size_setIfInBounds, Array.setIfInBounds_setIfInBounds]

end TlxVerif.C09
