/-
C01/C02 — erase, part D: the inner frame, the induction over the tree and the top level:
on a tree satisfying the shape invariant `erase_one` / `erase(iterator)` are defined, return a
well-shaped tree whose entry sequence is the old one without exactly the designated entry, and
free exactly the nodes by which the tree shrinks.
-/
import TlxVerif.Model.C01Erase
import TlxVerif.Proofs.C01EraseC
namespace TlxVerif.C01

variable {K V : Type}

theorem eraseIdx_append_mid {α : Type} (A C B : List α) (i : Nat) (hi : i < C.length) :
    (A ++ (C ++ B)).eraseIdx (A.length + i) = A ++ (C.eraseIdx i ++ B) := by
  rw [List.eraseIdx_append_of_length_le (by omega), Nat.add_sub_cancel_left,
    List.eraseIdx_append_of_lt_length hi]

/-- lifting the designation of the erased entry from the child to the node -/
theorem hitAt_lift (p : Params K) (tg : Target K) (h l : Nat) (keys : List K) (kids : List (BNode K V))
    (slot : Nat) (child : BNode K V) (hchild : kids[slot]? = some child) (off i : Nat)
    (hkey : ∀ k, tg = .key k → slot = findLower p keys k)
    (hi : i < (flatten h child).length)
    (hh : HitAt p tg h child (off + ((kids.take slot).map (leafCount h)).sum) i) :
    HitAt p tg (h + 1) (.inner l keys kids) off (((kids.take slot).flatMap (flatten h)).length + i) := by
  obtain ⟨hlt, hget⟩ := List.getElem?_eq_some_iff.mp hchild
  cases tg with
  | key k =>
    have hs := hkey k rfl
    subst hs
    simp only [HitAt] at hh ⊢
    obtain ⟨h1, e, h2, h3⟩ := hh
    refine ⟨?_, e, ?_, h3⟩
    · simp only [insRank, hchild, h1]
    · simp only [probe, hchild, h2]
  | iter li s kk =>
    simp only [HitAt] at hh ⊢
    obtain ⟨h1, leaf, h2, h3, h4⟩ := hh
    have hpre : ((kids.take slot).map (leafCount h)).sum = ((kids.take slot).flatMap (chain h)).length := by
      rw [List.length_flatMap]
      congr 1
      apply List.map_congr_left
      intro c _
      exact leafCount_eq_chain_length h c
    rw [hpre] at h1 h2 h4
    have hj : li - (off + ((kids.take slot).flatMap (chain h)).length) < (chain h child).length :=
      (List.getElem?_eq_some_iff.mp h2).1
    have hidx : li - off = ((kids.take slot).flatMap (chain h)).length +
        (li - (off + ((kids.take slot).flatMap (chain h)).length)) := by omega
    refine ⟨by omega, leaf, ?_, h3, ?_⟩
    · simp only [chain]
      rw [flatMap_split (chain h) kids slot hlt, hget, hidx, List.getElem?_append_right (by omega),
        Nat.add_sub_cancel_left, List.getElem?_append_left hj]
      exact h2
    · simp only [chain]
      rw [flatMap_split (chain h) kids slot hlt, hget, hidx, rankOf_eq, List.take_length_add_append,
        List.take_append_of_le_length (by omega), h4, rankOf_eq]
      simp only [List.flatten_append, List.length_append, flatMap_chain_flatten]
      omega

/-- this node's underflow decision (non-root) -/
theorem finishInner_nonroot (p : Params K) (h l : Nat) (keys3 : List K) (kids3 : List (BNode K V)) (ctx : Ctx K V)
    (hc : CtxOk p (h + 1) ctx) (setSep lastUp : Option K) (lf inf : Nat) :
    ∃ out, finishInner p l keys3 kids3 ctx setSep lastUp lf inf = some out ∧ out.rootDrop = false ∧
      out.node = .inner l keys3 kids3 ∧ out.leafFree = lf ∧ out.innerFree = inf ∧
      out.setSep = setSep ∧ out.lastUp = lastUp ∧
      (p.innerMin ≤ keys3.length → out.fix = .none) ∧
      (keys3.length < p.innerMin →
        Applicable p.innerMin (ctx.left.map BNode.slotuse) (ctx.right.map BNode.slotuse)
          (ctx.lp = ctx.par) (ctx.rp = ctx.par) out.fix) := by
  have hpar : ctx.par.isNone = false := by
    have := hc.par_some
    cases hp : ctx.par <;> simp_all
  unfold finishInner
  simp only [hpar, Bool.false_and, Bool.not_false, Bool.and_true]
  by_cases hu : keys3.length < p.innerMin
  · simp only [hu, decide_true, ctxOk_not_alone p (h + 1) ctx hc, if_true]
    obtain ⟨f, hf, hap⟩ := ctxOk_decide p (h + 1) ctx hc p.innerMin
    rw [hf]
    exact ⟨_, rfl, rfl, rfl, rfl, rfl, rfl, rfl, by intro h'; omega, fun _ => hap⟩
  · simp only [hu, decide_false]
    exact ⟨_, rfl, rfl, rfl, rfl, rfl, rfl, rfl, fun _ => rfl, fun h' => h'.elim⟩

/-- the whole frame of a non-root inner node, given the contract of the child that was erased from -/
theorem afterChild_ok (p : Params K) (pv : p.Valid) (tg : Target K) (h l : Nat) (keys : List K)
    (kids : List (BNode K V)) (ctx cctx : Ctx K V) (slot : Nat) (r : EraseOut K V)
    (hs : Shape p (h + 1) (.inner l keys kids)) (hc : CtxOk p (h + 1) ctx)
    (hslot : slot ≤ keys.length) (child : BNode K V) (hchild : kids[slot]? = some child)
    (hkey : ∀ k, tg = .key k → slot = findLower p keys k)
    (hc1 : cctx.lp = cctx.par ↔ 0 < slot) (hc2 : cctx.rp = cctx.par ↔ slot < keys.length)
    (hc3 : 0 < slot → cctx.left = kids[slot - 1]?) (hc4 : slot < keys.length → cctx.right = kids[slot + 1]?)
    (hoff : cctx.off = ctx.off + ((kids.take slot).map (leafCount h)).sum)
    (hr : EraseOK p tg h child cctx r) :
    ∃ out, afterChild p l keys kids ctx slot r = some out ∧ EraseOK p tg (h + 1) (.inner l keys kids) ctx out := by
  simp only [Shape] at hs
  obtain ⟨hl, hk, hmin, hmax, hkids⟩ := hs
  obtain ⟨hlt, hget⟩ := List.getElem?_eq_some_iff.mp hchild
  obtain ⟨keys3, kids3, lf, inf, hac, hro, _⟩ := afterChild_pre p pv tg h l keys kids ctx cctx slot r hl hk
    hslot hkids child hchild hc1 hc2 hc3 hc4 hr
  obtain ⟨out, hfo, ho1, ho2, ho3, ho4, _, _, ho5, ho6⟩ := finishInner_nonroot p h l keys3 kids3 ctx hc
    (reportSep ctx.sepAbove r.lastUp) (reportUp ctx.sepAbove r.lastUp)
    (r.leafFree + lf) (r.innerFree + inf)
  refine ⟨out, by rw [hac, hfo], ?_⟩
  obtain ⟨ic, hic, hflat, hhit⟩ := hr.flat
  have hkl := hro.klen
  have hfl := hro.free_le
  refine ⟨ho1, ?_, ?_, ?_, ?_, ?_, ?_⟩
  · rw [ho2]
    simp only [ShapeTop]
    exact ⟨hl, hro.arity, by omega, by omega, hro.shape⟩
  · intro h'
    rw [ho2] at h'
    simp only [minOf, Nat.add_one_ne_zero, if_false, BNode.slotuse] at h'
    exact ho5 h'
  · intro h'
    rw [ho2] at h'
    simp only [minOf, Nat.add_one_ne_zero, if_false, BNode.slotuse] at h' ⊢
    exact ho6 h'
  · refine ⟨((kids.take slot).flatMap (flatten h)).length + ic, ?_, ?_, ?_⟩
    · simp only [flatten]
      rw [flatMap_split (flatten h) kids slot hlt, hget]
      simp only [List.length_append]; omega
    · rw [ho2]
      simp only [flatten]
      rw [hro.flat, flatMap_set (flatten h) kids slot r.node hlt, hflat, flatMap_split (flatten h) kids slot hlt, hget,
        eraseIdx_append_mid _ _ _ _ hic]
    · rw [hoff] at hhit
      exact hitAt_lift p tg h l keys kids slot child hchild ctx.off ic hkey hic hhit
  · rw [ho2, ho3]
    simp only [leafCount]
    have h1 := hro.lcnt
    have h2 := sumMap_set (leafCount h) kids slot r.node hlt
    rw [hget] at h2
    have h3 := hr.lcnt
    simp only [sumMap] at h1 h2
    omega
  · rw [ho2, ho4]
    simp only [innerCount]
    have h1 := hro.icnt
    have h2 := sumMap_set (innerCount h) kids slot r.node hlt
    rw [hget] at h2
    have h3 := hr.icnt
    simp only [sumMap] at h1 h2
    omega

/-- every tried slot is a child with a well-formed context -/
theorem scan_range (tg : Target K) (nkeys slot0 s : Nat) (h0 : slot0 ≤ nkeys) (h1 : slot0 ≤ s)
    (h2 : s < slot0 + scanTries tg nkeys slot0) : s ≤ nkeys ∧ (∀ k, tg = .key k → s = slot0) := by
  cases tg with
  | key k => simp only [scanTries] at h2; exact ⟨by omega, fun _ _ => by omega⟩
  | iter li sl kk => simp only [scanTries] at h2; exact ⟨by omega, fun _ h => by cases h⟩

/-- **frames of non-root nodes**: on a well-shaped subtree with a well-formed context the descent is
defined; if it erases, the returned node is at most one below its minimum, the requested
rebalancing is executable by the parent, the entry sequence lost exactly the designated entry and
the freed nodes are accounted for -/
theorem eraseDescend_ok (p : Params K) (pv : p.Valid) (tg : Target K) :
    ∀ (h : Nat) (n : BNode K V) (ctx : Ctx K V), Shape p h n → CtxOk p h ctx →
      ∃ res, eraseDescend p tg h n ctx = some res ∧ ∀ out, res = some out → EraseOK p tg h n ctx out := by
  intro h
  induction h with
  | zero =>
    intro n ctx hs hc
    cases n with
    | inner l ks kids => simp [Shape] at hs
    | leaf es =>
      unfold eraseDescend
      cases tg with
      | key k =>
        simp only
        cases he : es[findLower p (keysOf es) k]? with
        | none => exact ⟨none, rfl, by intro out h; cases h⟩
        | some e =>
          simp only
          by_cases hq : p.eqv k e.1 = true
          · have hslot : findLower p (keysOf es) k < es.length := (List.getElem?_eq_some_iff.mp he).1
            obtain ⟨out, ho, hok⟩ := eraseInLeaf_ok p pv (.key k) es _ ctx hs hc hslot
              (by simp only [HitAt, insRank, probe]; exact ⟨by first | rfl | trivial, e, he, hq⟩)
            simp only [hq, Bool.not_true, Bool.false_eq_true, if_false, ho, Option.map_some]
            exact ⟨some out, rfl, by intro o h; cases h; exact hok⟩
          · simp only [hq, Bool.not_false, if_true]
            exact ⟨none, rfl, by intro out h; cases h⟩
      | iter li sl kk =>
        simp only
        by_cases h1 : ctx.off ≠ li
        · rw [if_pos h1]; exact ⟨none, rfl, by intro out h; cases h⟩
        · rw [if_neg h1]
          by_cases h2 : sl ≥ es.length
          · rw [if_pos h2]; exact ⟨none, rfl, by intro out h; cases h⟩
          · rw [if_neg h2]
            have hoff : ctx.off = li := by
              cases Nat.decEq ctx.off li with
              | isTrue h => exact h
              | isFalse h => exact absurd h h1
            obtain ⟨out, ho, hok⟩ := eraseInLeaf_ok p pv (.iter li sl kk) es sl ctx hs hc (by omega)
              (by simp only [HitAt, chain]; exact ⟨by omega, es, by simp [hoff], by omega, by simp [hoff, rankOf]⟩)
            rw [ho]
            exact ⟨some out, rfl, by intro o h; cases h; exact hok⟩
  | succ h ih =>
    intro n ctx hs hc
    cases n with
    | leaf es => simp [Shape] at hs
    | inner l keys kids =>
      have hs0 := hs
      simp only [Shape] at hs
      obtain ⟨hl, hk, hmin, hmax, hkids⟩ := hs
      have hi4 := pv.inner4
      have hkeys : 1 ≤ keys.length := by simp [Params.innerMin, Gen.innerSlotmin] at hmin; omega
      unfold eraseDescend
      simp only
      have hs0le := findLower_le p keys tg.tkey
      generalize hs0eq : findLower p keys tg.tkey = slot0 at hs0le
      -- every visit in range is defined
      have hvisit : ∀ s, slot0 ≤ s → s < slot0 + scanTries tg keys.length slot0 →
          ∃ r, visitChild (eraseDescend p tg h) h keys kids ctx s = some r := by
        intro s h1 h2
        obtain ⟨hsl, _⟩ := scan_range tg keys.length slot0 s hs0le h1 h2
        have hlt : s < kids.length := by omega
        obtain ⟨cctx, hcc, hcok, _⟩ := childCtx_ok p pv h keys kids ctx hk hkeys hkids hc.toCtxBase s hsl
        obtain ⟨res, hres, _⟩ := ih kids[s] cctx (hkids _ (List.getElem_mem hlt)) hcok
        exact ⟨res, by simp only [visitChild, List.getElem?_eq_getElem hlt, hcc, hres]⟩
      obtain ⟨res, hres, hspec⟩ := scanLoop_spec (visitChild (eraseDescend p tg h) h keys kids ctx)
        (scanStop p tg keys) (scanTries tg keys.length slot0) slot0 hvisit
      rw [hres]
      cases res with
      | none => exact ⟨none, rfl, by intro out h; cases h⟩
      | some sr =>
        obtain ⟨s, r⟩ := sr
        obtain ⟨h1, h2, h3⟩ := hspec s r rfl
        obtain ⟨hsl, hkey⟩ := scan_range tg keys.length slot0 s hs0le h1 h2
        have hlt : s < kids.length := by omega
        obtain ⟨cctx, hcc, hcok, hc1, hc2, hc3, hc4, hoff⟩ :=
          childCtx_ok p pv h keys kids ctx hk hkeys hkids hc.toCtxBase s hsl
        simp only [visitChild, List.getElem?_eq_getElem hlt, hcc] at h3
        obtain ⟨res', hres', hok'⟩ := ih kids[s] cctx (hkids _ (List.getElem_mem hlt)) hcok
        rw [hres'] at h3
        cases h3
        have hrok := hok' r rfl
        obtain ⟨out, ho, hoo⟩ := afterChild_ok p pv tg h l keys kids ctx cctx s r hs0 hc hsl kids[s]
          (List.getElem?_eq_getElem hlt)
          (by
            intro k hk'
            have := hkey k hk'
            subst hk'
            rw [this, ← hs0eq]
            rfl)
          hc1 hc2 hc3 hc4 hoff hrok
        simp only
        rw [ho]
        exact ⟨some out, rfl, by intro o h; cases h; exact hoo⟩

/-! ### the root frame and the public operations -/

/-- what `erase_one` / `erase(iterator)` deliver at tree level (shape / bookkeeping layer) -/
structure EraseTopOK (p : Params K) (tg : Target K) (t : Tree K V) (res : EraseResult K V) : Prop where
  shape : TreeShape p res.tree
  flat : ∃ r i, t.root = some r ∧ i < t.toList.length ∧ res.tree.toList = t.toList.eraseIdx i ∧
    HitAt p tg r.level r 0 i
  lcnt : res.tree.nLeaves + res.ledger.leafFree = t.nLeaves
  icnt : res.tree.nInner + res.ledger.innerFree = t.nInner
  noalloc : res.ledger.leafAlloc = 0 ∧ res.ledger.innerAlloc = 0

theorem eraseTop_ok (p : Params K) (pv : p.Valid) (tg : Target K) (t : Tree K V) (ht : TreeShape p t) :
    ∃ res, eraseTop p t tg = some res ∧ (res.erased = false → res.tree = t ∧ res.ledger = {}) ∧
      (res.erased = true → EraseTopOK p tg t res) := by
  have hl4 := pv.leaf4
  have hi4 := pv.inner4
  have hlmin : 2 ≤ p.leafMin := by simp [Params.leafMin, Gen.leafSlotmin]; omega
  have himin : 2 ≤ p.innerMin := by simp [Params.innerMin, Gen.innerSlotmin]; omega
  unfold eraseTop
  cases hroot : t.root with
  | none => exact ⟨_, rfl, fun _ => ⟨rfl, rfl⟩, fun h => by cases h⟩
  | some r0 =>
    simp only
    unfold TreeShape at ht
    rw [hroot] at ht
    obtain ⟨hs, hlv, hin, hsz⟩ := ht
    have htl : t.toList = flatten r0.level r0 := by simp [Tree.toList, hroot]
    have hnl : t.nLeaves = leafCount r0.level r0 := by simp [Tree.nLeaves, hroot]
    have hni : t.nInner = innerCount r0.level r0 := by simp [Tree.nInner, hroot]
    have hisLeaf : r0.isLeaf = decide (r0.level = 0) := by
      cases r0 with
      | leaf es => simp [BNode.isLeaf, BNode.level]
      | inner l ks kids =>
        have := hs.level
        simp only [BNode.level] at this hs ⊢
        cases l with
        | zero => simp [ShapeTop] at hs
        | succ l => simp [BNode.isLeaf]
    generalize hh0 : r0.level = h0 at *
    cases h0 with
    | zero =>
      -- the root is a leaf
      obtain ⟨es, rfl, hes1, hes2⟩ := shapeTop0_leaf hs
      -- common tail once the slot is known
      have tail : ∀ (slot : Nat), slot < es.length → HitAt p tg 0 (.leaf es) 0 slot →
          ∃ out, eraseInLeaf p es slot ({} : Ctx K V) = some out ∧ out.fix = .none ∧
            ∀ res, res = ({ tree := { root := if out.rootDrop then (if (BNode.leaf es : BNode K V).isLeaf then none else some out.node)
                                              else some out.node,
                                      stats := { size := t.stats.size - 1, leaves := t.stats.leaves - out.leafFree,
                                                 inner := t.stats.inner - out.innerFree } },
                            erased := true, ledger := { leafFree := out.leafFree, innerFree := out.innerFree } } : EraseResult K V) →
              EraseTopOK p tg t res := by
        intro slot hslot hhit
        have hlen : (es.eraseIdx slot).length = es.length - 1 := List.length_eraseIdx_of_lt hslot
        unfold eraseInLeaf
        have hupd : ∃ u2, leafReport (K := K) false (slot == (es.eraseIdx slot).length)
            ((es.eraseIdx slot).getLast?.map Prod.fst) = some (none, u2) := by
          unfold leafReport
          cases (slot == (es.eraseIdx slot).length) <;> exact ⟨_, rfl⟩
        obtain ⟨u2, hu2⟩ := hupd
        simp only [hu2]
        unfold finishLeaf
        simp only [Option.isNone_none, Bool.true_and]
        by_cases hemp : (es.eraseIdx slot).length ≥ 1
        · have hcond : ((es.eraseIdx slot).length < p.leafMin && !decide ((es.eraseIdx slot).length ≥ 1)) = false := by
            simp [hemp]
          rw [hcond]
          simp only [Bool.false_eq_true, if_false]
          refine ⟨_, rfl, rfl, ?_⟩
          intro res hres
          subst hres
          simp only [Bool.false_eq_true, if_false]
          refine ⟨?_, ⟨_, slot, hroot, by rw [htl]; simpa [flatten] using hslot, by rw [htl]; simp [Tree.toList, BNode.level, flatten], hhit⟩, ?_, ?_, ⟨rfl, rfl⟩⟩
          · simp only [TreeShape, BNode.level, ShapeTop, leafCount, innerCount, flatten]
            simp only [leafCount, innerCount, flatten] at hlv hin hsz
            refine ⟨⟨by omega, by omega⟩, by omega, by omega, by omega⟩
          · rw [hnl]; simp [Tree.nLeaves, BNode.level, leafCount]
          · rw [hni]; simp [Tree.nInner, BNode.level, innerCount]
        · have hcond : ((es.eraseIdx slot).length < p.leafMin && !decide ((es.eraseIdx slot).length ≥ 1)) = true := by
            simp [hemp]; omega
          rw [hcond]
          simp only [if_true, Option.isNone_none, Bool.and_self]
          refine ⟨_, rfl, rfl, ?_⟩
          intro res hres
          subst hres
          simp only [if_true, BNode.isLeaf]
          have hes : es.length = 1 := by omega
          refine ⟨?_, ⟨_, slot, hroot, by rw [htl]; simpa [flatten] using hslot, ?_, hhit⟩, ?_, ?_, ⟨rfl, rfl⟩⟩
          · simp only [TreeShape]
            simp only [leafCount, innerCount, flatten] at hlv hin hsz
            have h1 : t.stats.size - 1 = 0 := by omega
            have h2 : t.stats.leaves - 1 = 0 := by omega
            have h3 : t.stats.inner - 0 = 0 := by omega
            rw [h1, h2, h3]
          · rw [htl]
            simp only [Tree.toList, flatten]
            have : (es.eraseIdx slot) = [] := List.eq_nil_of_length_eq_zero (by omega)
            rw [this]
          · rw [hnl]; simp [Tree.nLeaves, leafCount]
          · rw [hni]; simp [Tree.nInner, innerCount]
      unfold eraseDescend
      cases tg with
      | key k =>
        simp only
        cases he : es[findLower p (keysOf es) k]? with
        | none => exact ⟨_, rfl, fun _ => ⟨rfl, rfl⟩, fun h => by cases h⟩
        | some e =>
          simp only
          by_cases hq : p.eqv k e.1 = true
          · have hslot : findLower p (keysOf es) k < es.length := (List.getElem?_eq_some_iff.mp he).1
            obtain ⟨out, ho, hfix, hres⟩ := tail _ hslot
              (by simp only [HitAt, insRank, probe]; exact ⟨by first | rfl | trivial, e, he, hq⟩)
            simp only [hq, Bool.not_true, Bool.false_eq_true, if_false, ho, Option.map_some, hfix, ne_eq,
              not_true_eq_false]
            exact ⟨_, rfl, (fun h => by cases h), fun _ => hres _ rfl⟩
          · simp only [hq, Bool.not_false, if_true]
            exact ⟨_, rfl, fun _ => ⟨rfl, rfl⟩, fun h => by cases h⟩
      | iter li sl kk =>
        simp only
        by_cases h1 : (0 : Nat) ≠ li
        · rw [if_pos h1]; exact ⟨_, rfl, fun _ => ⟨rfl, rfl⟩, fun h => by cases h⟩
        · rw [if_neg h1]
          by_cases h2 : sl ≥ es.length
          · rw [if_pos h2]; exact ⟨_, rfl, fun _ => ⟨rfl, rfl⟩, fun h => by cases h⟩
          · rw [if_neg h2]
            have hoff : li = 0 := by omega
            obtain ⟨out, ho, hfix, hres⟩ := tail sl (by omega)
              (by simp only [HitAt, chain]; exact ⟨by omega, es, by simp [hoff], by omega, by simp [hoff, rankOf]⟩)
            simp only [ho, Option.map_some, hfix, ne_eq, not_true_eq_false, if_false]
            exact ⟨_, rfl, (fun h => by cases h), fun _ => hres _ rfl⟩
    | succ h =>
      -- the root is an inner node
      obtain ⟨l, keys, kids, rfl, hl, hk, hkeys, hmax, hkids⟩ := shapeTopS_inner hs
      subst hl
      unfold eraseDescend
      simp only
      have hs0le := findLower_le p keys tg.tkey
      generalize hs0eq : findLower p keys tg.tkey = slot0 at hs0le
      have hbase := ctxBase_root p (h + 1) (K := K) (V := V)
      have hvisit : ∀ s, slot0 ≤ s → s < slot0 + scanTries tg keys.length slot0 →
          ∃ r, visitChild (eraseDescend p tg h) h keys kids ({} : Ctx K V) s = some r := by
        intro s h1 h2
        obtain ⟨hsl, _⟩ := scan_range tg keys.length slot0 s hs0le h1 h2
        have hlt : s < kids.length := by omega
        obtain ⟨cctx, hcc, hcok, _⟩ := childCtx_ok p pv h keys kids {} hk hkeys hkids hbase s hsl
        obtain ⟨res, hres, _⟩ := eraseDescend_ok p pv tg h kids[s] cctx (hkids _ (List.getElem_mem hlt)) hcok
        exact ⟨res, by simp only [visitChild, List.getElem?_eq_getElem hlt, hcc, hres]⟩
      obtain ⟨res, hres, hspec⟩ := scanLoop_spec (visitChild (eraseDescend p tg h) h keys kids ({} : Ctx K V))
        (scanStop p tg keys) (scanTries tg keys.length slot0) slot0 hvisit
      rw [hres]
      cases res with
      | none => exact ⟨_, rfl, fun _ => ⟨rfl, rfl⟩, fun h => by cases h⟩
      | some sr =>
        obtain ⟨s, r⟩ := sr
        obtain ⟨h1, h2, h3⟩ := hspec s r rfl
        obtain ⟨hsl, hkey⟩ := scan_range tg keys.length slot0 s hs0le h1 h2
        have hlt : s < kids.length := by omega
        obtain ⟨cctx, hcc, hcok, hc1, hc2, hc3, hc4, hoff⟩ := childCtx_ok p pv h keys kids {} hk hkeys hkids hbase s hsl
        simp only [visitChild, List.getElem?_eq_getElem hlt, hcc] at h3
        obtain ⟨res', hres', hok'⟩ := eraseDescend_ok p pv tg h kids[s] cctx (hkids _ (List.getElem_mem hlt)) hcok
        rw [hres'] at h3
        cases h3
        have hrok := hok' r rfl
        obtain ⟨keys3, kids3, lf, inf, hac, hro, _⟩ := afterChild_pre p pv tg h (h + 1) keys kids {} cctx s r rfl hk
          hsl hkids kids[s] (List.getElem?_eq_getElem hlt) hc1 hc2 hc3 hc4 hrok
        simp only
        rw [hac]
        obtain ⟨ic, hic, hflat, hhit⟩ := hrok.flat
        have hkl := hro.klen
        have hfl := hro.free_le
        -- the entry sequence and the counts of the node `inner l keys3 kids3`
        have hflat3 : kids3.flatMap (flatten h) =
            (kids.flatMap (flatten h)).eraseIdx (((kids.take s).flatMap (flatten h)).length + ic) := by
          rw [hro.flat, flatMap_set (flatten h) kids s r.node hlt, hflat, flatMap_split (flatten h) kids s hlt,
            eraseIdx_append_mid _ _ _ _ hic]
        have hidx : ((kids.take s).flatMap (flatten h)).length + ic < (kids.flatMap (flatten h)).length := by
          rw [flatMap_split (flatten h) kids s hlt]
          simp only [List.length_append]; omega
        have hhit' : HitAt p tg (h + 1) (.inner (h + 1) keys kids) 0 (((kids.take s).flatMap (flatten h)).length + ic) := by
          simp only [Nat.zero_add] at hoff
          rw [hoff] at hhit
          have := hitAt_lift p tg h (h + 1) keys kids s kids[s] (List.getElem?_eq_getElem hlt) 0 ic
            (by
              intro k hk'
              have := hkey k hk'
              subst hk'
              rw [this, ← hs0eq]
              rfl) hic (by simpa using hhit)
          exact this
        have hl1 := hro.lcnt
        have hl2 := sumMap_set (leafCount h) kids s r.node hlt
        have hl3 := hrok.lcnt
        have hi1 := hro.icnt
        have hi2 := sumMap_set (innerCount h) kids s r.node hlt
        have hi3 := hrok.icnt
        simp only [sumMap] at hl1 hl2 hi1 hi2
        simp only [leafCount, innerCount, flatten] at hlv hin hsz hnl hni htl
        unfold finishInner
        simp only [Option.isNone_none, Bool.true_and, Bool.and_self, if_true]
        by_cases hz : keys3.length ≥ 1
        · have hcond : (decide (keys3.length < p.innerMin) && !decide (keys3.length ≥ 1)) = false := by simp [hz]
          rw [hcond]
          simp only [Bool.false_eq_true, if_false, ne_eq, not_true_eq_false]
          refine ⟨_, rfl, (fun h => by cases h), fun _ => ?_⟩
          refine ⟨?_, ⟨_, _, hroot, by rw [htl]; exact hidx, ?_, by simpa [BNode.level] using hhit'⟩, ?_, ?_, ⟨rfl, rfl⟩⟩
          · simp only [TreeShape, BNode.level, ShapeTop, leafCount, innerCount, flatten, Bool.false_eq_true, if_false]
            refine ⟨⟨trivial, hro.arity, hz, by omega, hro.shape⟩, by omega, by omega, ?_⟩
            rw [hflat3, List.length_eraseIdx_of_lt hidx]; omega
          · rw [htl]
            simp only [Tree.toList, BNode.level, flatten, Bool.false_eq_true, if_false]
            exact hflat3
          · rw [hnl]; simp only [Tree.nLeaves, BNode.level, leafCount, Bool.false_eq_true, if_false]; omega
          · rw [hni]; simp only [Tree.nInner, BNode.level, innerCount, Bool.false_eq_true, if_false]; omega
        · have hcond : (decide (keys3.length < p.innerMin) && !decide (keys3.length ≥ 1)) = true := by
            simp [hz]; omega
          rw [hcond]
          simp only [if_true]
          have hk3 : kids3.length = 1 := by have := hro.arity; omega
          obtain ⟨c0, hc0⟩ : ∃ c0, kids3 = [c0] := by
            cases kids3 with
            | nil => simp at hk3
            | cons c cs =>
              cases cs with
              | nil => exact ⟨c, rfl⟩
              | cons _ _ => simp at hk3
          subst hc0
          simp only [List.getElem?_cons_zero, ne_eq, not_true_eq_false, if_false, BNode.isLeaf]
          refine ⟨_, rfl, (fun h => by cases h), fun _ => ?_⟩
          have hc0s : Shape p h c0 := hro.shape c0 (by simp)
          have hc0lev : c0.level = h := hc0s.top.level
          simp only [List.flatMap_cons, List.flatMap_nil, List.append_nil, List.map_cons, List.map_nil,
            List.sum_cons, List.sum_nil, Nat.add_zero] at hflat3 hl1 hi1
          refine ⟨?_, ⟨_, _, hroot, by rw [htl]; exact hidx, ?_, by simpa [BNode.level] using hhit'⟩, ?_, ?_, ⟨rfl, rfl⟩⟩
          · simp only [TreeShape, hc0lev, if_true, Bool.false_eq_true, if_false]
            refine ⟨hc0s.top.mono (by omega) (by omega), by omega, by omega, ?_⟩
            rw [hflat3, List.length_eraseIdx_of_lt hidx]; omega
          · rw [htl]
            simp only [Tree.toList, hc0lev, if_true, Bool.false_eq_true, if_false]
            exact hflat3
          · rw [hnl]; simp only [Tree.nLeaves, hc0lev, if_true, Bool.false_eq_true, if_false]; omega
          · rw [hni]; simp only [Tree.nInner, hc0lev, if_true, Bool.false_eq_true, if_false]; omega

end TlxVerif.C01
