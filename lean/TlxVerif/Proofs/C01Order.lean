/-
C01/C02 — the order invariant: entries in key order, every separator equivalent to the largest
key below it.  Routing lemma: on such a tree a descent by `find_lower` / `find_upper` arrives at the
global lower / upper bound of the entry sequence.
-/
import TlxVerif.Model.C01Tree
import TlxVerif.Proofs.C01Basic
import TlxVerif.Proofs.C01Inv
import TlxVerif.Proofs.C01Flatten
namespace TlxVerif.C01

variable {K V : Type}

/-- entries in non-decreasing key order -/
def SortedE (lt : K → K → Bool) (es : List (K × V)) : Prop := es.Pairwise (fun a b => lt b.1 a.1 = false)

/-- `keys[i]` is equivalent to the largest key of `kids[i]` for every separator -/
def SepSeq (p : Params K) (h : Nat) (keys : List K) (kids : List (BNode K V)) : Prop :=
  ∀ (i : Nat) (k : K) (c : BNode K V), keys[i]? = some k → kids[i]? = some c →
    ∃ e, (flatten h c).getLast? = some e ∧ p.eqv k e.1 = true

/-- separators are right in every inner node -/
def SepOk (p : Params K) : Nat → BNode K V → Prop
  | _, .leaf _ => True
  | 0, .inner .. => False
  | h + 1, .inner _ keys kids => SepSeq p h keys kids ∧ ∀ c ∈ kids, SepOk p h c

theorem sortedE_keys {lt : K → K → Bool} {es : List (K × V)} (h : SortedE lt es) : SortedK lt (keysOf es) := by
  unfold SortedK keysOf
  rw [List.pairwise_map]
  exact h

/-- position of the lower bound of `k` in an entry sequence -/
def lbIdx (lt : K → K → Bool) (k : K) (es : List (K × V)) : Nat := es.findIdx (fun e => !lt e.1 k)
/-- position of the upper bound of `k` -/
def ubIdx (lt : K → K → Bool) (k : K) (es : List (K × V)) : Nat := es.findIdx (fun e => lt k e.1)

/-! ### inserting at the lower bound keeps the order -/

theorem sortedE_insert_lb {lt : K → K → Bool} (sw : StrictWeak lt) (es : List (K × V)) (hs : SortedE lt es)
    (k : K) (v : V) : SortedE lt (insertAt es (lbIdx lt k es) (k, v)) := by
  unfold SortedE insertAt lbIdx
  have hs' := hs
  rw [← List.take_append_drop (es.findIdx fun e => !lt e.1 k) es] at hs'
  obtain ⟨h1, h2, h3⟩ := List.pairwise_append.mp hs'
  rw [List.pairwise_append]
  refine ⟨h1, ?_, ?_⟩
  · rw [List.pairwise_cons]
    refine ⟨?_, h2⟩
    intro b hb
    -- the first element of the tail is not less than k, every later one is not less than it
    obtain ⟨j, hj, rfl⟩ := List.getElem_of_mem hb
    simp only [List.getElem_drop]
    have hidx : es.findIdx (fun e => !lt e.1 k) < es.length := by
      simp only [List.length_drop] at hj; omega
    have h0 : (!lt (es[es.findIdx fun e => !lt e.1 k]).1 k) = true := List.findIdx_getElem (w := hidx)
    simp only [Bool.not_eq_true'] at h0
    by_cases hj0 : j = 0
    · subst hj0; simpa using h0
    · have hp := List.pairwise_iff_getElem.mp hs (es.findIdx fun e => !lt e.1 k)
        (es.findIdx (fun e => !lt e.1 k) + j) hidx (by simp only [List.length_drop] at hj; omega) (by omega)
      exact sw.le_trans _ _ _ h0 hp
  · intro a ha b hb
    rcases List.mem_cons.mp hb with hb | hb
    · subst hb
      obtain ⟨j, hj, hcj⟩ := List.mem_take_iff_getElem.mp ha
      have hj' : j < es.findIdx (fun e => !lt e.1 k) := by omega
      have : (!lt (es[j]'(by omega)).1 k) = false := List.not_of_lt_findIdx hj'
      simp only [Bool.not_eq_false'] at this
      rw [← hcj]
      exact sw.asymm this
    · exact h3 a ha b hb

/-! ### non-emptiness -/

theorem flatten_ne_nil (p : Params K) (pv : p.Valid) :
    ∀ (h : Nat) (n : BNode K V), Shape p h n → flatten h n ≠ [] := by
  have hv := pv.leaf4
  intro h
  induction h with
  | zero =>
    intro n hs
    cases n with
    | leaf es =>
      simp only [Shape, Params.leafMin, Gen.leafSlotmin] at hs
      simp only [flatten]
      intro he; subst he; simp at hs; omega
    | inner l ks kids => simp [Shape] at hs
  | succ h ih =>
    intro n hs
    cases n with
    | leaf es => simp [Shape] at hs
    | inner l ks kids =>
      simp only [Shape] at hs
      obtain ⟨_, hk, _, _, hkids⟩ := hs
      simp only [flatten]
      cases kids with
      | nil => simp at hk
      | cons c cs =>
        have := ih c (hkids c List.mem_cons_self)
        simp only [List.flatMap_cons]
        intro he
        exact this (List.append_eq_nil_iff.mp he).1

/-! ### consequences of sortedness for the children of a node -/

theorem sortedE_flatMap_child {lt : K → K → Bool} {h : Nat} {kids : List (BNode K V)}
    (hs : SortedE lt (kids.flatMap (flatten h))) (c : BNode K V) (hc : c ∈ kids) : SortedE lt (flatten h c) := by
  unfold SortedE at hs
  rw [List.pairwise_flatMap] at hs
  exact hs.1 c hc

theorem sortedE_flatMap_cross {lt : K → K → Bool} {h : Nat} {kids : List (BNode K V)}
    (hs : SortedE lt (kids.flatMap (flatten h))) (i j : Nat) (hij : i < j) (ci cj : BNode K V)
    (hi : kids[i]? = some ci) (hj : kids[j]? = some cj) (a b : K × V) (ha : a ∈ flatten h ci) (hb : b ∈ flatten h cj) :
    lt b.1 a.1 = false := by
  unfold SortedE at hs
  rw [List.pairwise_flatMap] at hs
  obtain ⟨hi1, hi2⟩ := List.getElem?_eq_some_iff.mp hi
  obtain ⟨hj1, hj2⟩ := List.getElem?_eq_some_iff.mp hj
  have := List.pairwise_iff_getElem.mp hs.2 i j hi1 hj1 hij
  rw [hi2, hj2] at this
  exact this a ha b hb

/-- in a sorted sequence every entry is below-or-equal the last one -/
theorem le_last_of_sorted {lt : K → K → Bool} (sw : StrictWeak lt) {es : List (K × V)} (hs : SortedE lt es)
    {e a : K × V} (hl : es.getLast? = some e) (ha : a ∈ es) : lt e.1 a.1 = false := by
  obtain ⟨ys, rfl⟩ := List.getLast?_eq_some_iff.mp hl
  rcases List.mem_append.mp ha with ha | ha
  · exact (List.pairwise_append.mp hs).2.2 a ha e (by simp)
  · simp only [List.mem_singleton] at ha; subst ha; exact sw.irrefl _

/-! ### the routing lemma -/

/-- a predicate on keys that, once true, stays true for larger-or-equal keys
(`fun x => !lt x k` for lower bounds, `fun x => lt k x` for upper bounds) -/
def UpClosed (lt : K → K → Bool) (stop : K → Bool) : Prop :=
  ∀ a b, lt b a = false → stop a = true → stop b = true

theorem upClosed_lower {lt : K → K → Bool} (sw : StrictWeak lt) (k : K) : UpClosed lt (fun x => !lt x k) := by
  intro a b hab ha
  simp only [Bool.not_eq_true'] at ha ⊢
  cases hb : lt b k with
  | false => rfl
  | true => have := sw.lt_of_le_of_lt hab hb; rw [ha] at this; cases this

theorem upClosed_upper {lt : K → K → Bool} (sw : StrictWeak lt) (k : K) : UpClosed lt (fun x => lt k x) := by
  intro a b hab ha
  exact sw.lt_of_lt_of_le ha hab

/-- rank reached by descending with the linear `stop` search in every node -/
def rankBy (stop : K → Bool) : Nat → BNode K V → Nat
  | _, .leaf es => linIdx stop (keysOf es)
  | 0, .inner .. => 0
  | h + 1, .inner _ keys kids =>
    ((kids.take (linIdx stop keys)).flatMap (flatten h)).length +
      match kids[linIdx stop keys]? with
      | some c => rankBy stop h c
      | none => 0

theorem eqv_le_left {p : Params K} {a b : K} (h : p.eqv a b = true) : p.lt b a = false := by
  simp only [Params.eqv, Bool.and_eq_true, Bool.not_eq_true'] at h; exact h.2
theorem eqv_le_right {p : Params K} {a b : K} (h : p.eqv a b = true) : p.lt a b = false := by
  simp only [Params.eqv, Bool.and_eq_true, Bool.not_eq_true'] at h; exact h.1

/-- the descent arrives at the first entry (in the whole sequence) whose key satisfies `stop` -/
theorem rankBy_eq_findIdx (p : Params K) (sw : StrictWeak p.lt) (stop : K → Bool)
    (hup : UpClosed p.lt stop) :
    ∀ (h : Nat) (n : BNode K V) (ml mi : Nat), ShapeTop p ml mi h n → SortedE p.lt (flatten h n) → SepOk p h n →
      rankBy stop h n = (flatten h n).findIdx (fun e => stop e.1) := by
  intro h
  induction h with
  | zero =>
    intro n ml mi hs _ _
    cases n with
    | inner l ks kids => simp [ShapeTop] at hs
    | leaf es => simp [rankBy, flatten, linIdx, keysOf, List.findIdx_map, Function.comp_def]
  | succ h ih =>
    intro n ml mi hs hsort hsep
    cases n with
    | leaf es => simp [ShapeTop] at hs
    | inner l keys kids =>
      simp only [ShapeTop] at hs
      obtain ⟨hl, hk, hmin, hmax, hkids⟩ := hs
      simp only [SepOk] at hsep
      obtain ⟨hseq, hsepk⟩ := hsep
      simp only [flatten] at hsort ⊢
      simp only [rankBy, linIdx]
      have hslot : keys.findIdx stop ≤ keys.length := List.findIdx_le_length
      generalize hsl : keys.findIdx stop = slot at hslot
      have hlt : slot < kids.length := by omega
      rw [List.getElem?_eq_getElem hlt]
      simp only
      have hcm : kids[slot] ∈ kids := List.getElem_mem hlt
      rw [ih kids[slot] _ _ (hkids _ hcm).top (sortedE_flatMap_child hsort _ hcm) (hsepk _ hcm)]
      rw [flatMap_split (flatten h) kids slot hlt]
      -- no entry left of the chosen child satisfies `stop`
      have hA : ∀ e ∈ (kids.take slot).flatMap (flatten h), stop e.1 = false := by
        intro e he
        obtain ⟨c, hc, hec⟩ := List.mem_flatMap.mp he
        obtain ⟨j, hj, hcj⟩ := List.mem_take_iff_getElem.mp hc
        have hj1 : j < slot := by omega
        have hj2 : j < keys.length := by omega
        have hj3 : j < kids.length := by omega
        obtain ⟨last, hlast, heq⟩ := hseq j keys[j] c (List.getElem?_eq_getElem hj2)
          (by rw [List.getElem?_eq_getElem hj3, hcj])
        have hstop : stop keys[j] = false := by
          have := List.not_of_lt_findIdx (p := stop) (xs := keys) (i := j) (by omega)
          exact this
        have hcs : SortedE p.lt (flatten h c) := sortedE_flatMap_child hsort c (List.mem_of_mem_take hc)
        have h1 : p.lt last.1 e.1 = false := le_last_of_sorted sw hcs hlast hec
        have h2 : p.lt keys[j] last.1 = false := eqv_le_right heq
        cases hse : stop e.1 with
        | false => rfl
        | true =>
          have := hup _ _ h2 (hup _ _ h1 hse)
          rw [hstop] at this; cases this
      have hAidx : ((kids.take slot).flatMap (flatten h)).findIdx (fun e => stop e.1) =
          ((kids.take slot).flatMap (flatten h)).length := by
        rw [List.findIdx_eq_length]; exact hA
      rw [List.findIdx_append, hAidx, if_neg (Nat.lt_irrefl _), Nat.add_comm]
      congr 1
      -- inside the rest the first hit is in the chosen child, or the child is the last one
      by_cases hlast : slot < keys.length
      · obtain ⟨last, hlast', heq⟩ := hseq slot keys[slot] kids[slot] (List.getElem?_eq_getElem hlast)
          (List.getElem?_eq_getElem hlt)
        have hstop : stop keys[slot] = true := by
          have := List.findIdx_getElem (p := stop) (xs := keys) (w := by omega)
          simpa [hsl] using this
        have hsl' : stop last.1 = true := hup _ _ (eqv_le_left heq) hstop
        have hin : (flatten h kids[slot]).findIdx (fun e => stop e.1) < (flatten h kids[slot]).length := by
          rw [List.findIdx_lt_length]
          exact ⟨last, List.mem_of_getLast? hlast', hsl'⟩
        rw [List.findIdx_append, if_pos hin]
      · have : List.drop (slot + 1) kids = [] := List.drop_eq_nil_of_le (by omega)
        rw [this]; simp

end TlxVerif.C01
