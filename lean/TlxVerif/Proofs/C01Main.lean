/-
C01/C02 — tree-level invariant (shape + bookkeeping + order + separators) and the two main
facts about `insert`: it preserves the invariant, and on the entry sequence it is the insertion
at the lower bound of the key.
-/
import TlxVerif.Model.C01Tree
import TlxVerif.Proofs.C01TreeInv
import TlxVerif.Proofs.C01Order
import TlxVerif.Proofs.C01Sep
namespace TlxVerif.C01

variable {K V : Type}

/-- everything `verify()` checks, over the model: `TreeShape` (equal leaf depth, level fields, fill
bounds, `stats_` = recount), entries in key order (within and across nodes — the leaf chain is the
entry sequence), every separator equivalent to the largest key below it -/
def TreeInv (p : Params K) (t : Tree K V) : Prop :=
  TreeShape p t ∧ SortedE p.lt t.toList ∧
    match t.root with
    | none => True
    | some r => SepOk p r.level r

theorem treeInv_empty (p : Params K) : TreeInv p ({} : Tree K V) := by
  refine ⟨treeShape_empty p, ?_, ?_⟩
  · simp [Tree.toList, SortedE]
  · simp

/-- `insert` on the entry sequence: insertion at the lower bound of the key, or nothing -/
theorem insert_toList (p : Params K) (pv : p.Valid) (sw : StrictWeak p.lt) (t : Tree K V) (ht : TreeInv p t)
    (k : K) (v : V) (res : InsResult K V) (hres : insert p t k v = some res) :
    res.tree.toList =
      if res.inserted then insertAt t.toList (lbIdx p.lt k t.toList) (k, v) else t.toList := by
  obtain ⟨hshape, hsort, hsep⟩ := ht
  unfold insert at hres
  cases hroot : t.root with
  | none =>
    rw [hroot] at hres
    simp only [BNode.level] at hres
    unfold insertDescend at hres
    rw [leafInsert_nil p pv] at hres
    simp only at hres
    cases hres
    simp [Tree.toList, hroot, flatten, BNode.level, lbIdx, insertAt]
  | some r0 =>
    rw [hroot] at hres hsep
    simp only at hres hsep
    unfold TreeShape at hshape
    rw [hroot] at hshape
    obtain ⟨hs, _, _, _⟩ := hshape
    have htl : t.toList = flatten r0.level r0 := by simp [Tree.toList, hroot]
    rw [htl] at hsort ⊢
    generalize r0.level = h0 at *
    cases hr : insertDescend p k v h0 r0 with
    | none => rw [hr] at hres; cases hres
    | some r =>
      rw [hr] at hres
      simp only at hres
      have hflat := insertDescend_flatten p pv k v h0 r0 1 1 hs r hr
      rw [insRank_eq_lbIdx p sw k h0 r0 1 1 hs hsort hsep] at hflat
      have hshp := insertDescend_shape p pv k v h0 r0 1 1 (by have := pv.leaf4; simp [Params.leafMin, Gen.leafSlotmin]; omega)
        (by have := pv.inner4; simp [Params.innerMin, Gen.innerSlotmin]; omega) hs r hr
      cases hsp : r.split with
      | none =>
        rw [hsp] at hres hflat
        cases hres
        have hlev : r.node.level = h0 := (hshp.1 hsp).level
        simp only [optFlat, List.append_nil] at hflat
        simp only [Tree.toList, hlev]
        exact hflat
      | some kv =>
        obtain ⟨nk, nc⟩ := kv
        rw [hsp] at hres hflat
        cases hres
        simp only [optFlat] at hflat
        simp only [Tree.toList, BNode.level, flatten, List.flatMap_cons, List.flatMap_nil, List.append_nil]
        exact hflat

/-- `insert` preserves the whole invariant (for every capacity ≥ 4, both searches, any strict weak order) -/
theorem insert_treeInv (p : Params K) (pv : p.Valid) (sw : StrictWeak p.lt) (t : Tree K V) (ht : TreeInv p t)
    (k : K) (v : V) (res : InsResult K V) (hres : insert p t k v = some res) : TreeInv p res.tree := by
  have htl := insert_toList p pv sw t ht k v res hres
  obtain ⟨hshape, hsort, hsep⟩ := ht
  refine ⟨(insert_treeShape p pv t hshape k v res hres).1, ?_, ?_⟩
  · rw [htl]
    split
    · exact sortedE_insert_lb sw _ hsort k v
    · exact hsort
  · unfold insert at hres
    cases hroot : t.root with
    | none =>
      rw [hroot] at hres
      simp only [BNode.level] at hres
      unfold insertDescend at hres
      rw [leafInsert_nil p pv] at hres
      simp only at hres
      cases hres
      simp [SepOk]
    | some r0 =>
      rw [hroot] at hres hsep
      simp only at hres hsep
      unfold TreeShape at hshape
      rw [hroot] at hshape
      obtain ⟨hs, _, _, _⟩ := hshape
      have htl0 : t.toList = flatten r0.level r0 := by simp [Tree.toList, hroot]
      rw [htl0] at hsort
      generalize r0.level = h0 at *
      cases hr : insertDescend p k v h0 r0 with
      | none => rw [hr] at hres; cases hres
      | some r =>
        rw [hr] at hres
        simp only at hres
        have hl := pv.leaf4
        have hi := pv.inner4
        have hml : 1 ≤ p.leafMin := by simp [Params.leafMin, Gen.leafSlotmin]; omega
        have hmi : 1 ≤ p.innerMin := by simp [Params.innerMin, Gen.innerSlotmin]; omega
        obtain ⟨hsep1, hsep2⟩ := insertDescend_sep p pv sw k v h0 r0 1 1 hml hmi hs hsort hsep r hr
        have hshp := insertDescend_shape p pv k v h0 r0 1 1 hml hmi hs r hr
        cases hsp : r.split with
        | none =>
          rw [hsp] at hres
          cases hres
          have hlev : r.node.level = h0 := (hshp.1 hsp).level
          simp only [hlev]
          exact hsep1
        | some kv =>
          obtain ⟨nk, nc⟩ := kv
          rw [hsp] at hres
          cases hres
          obtain ⟨hsn, e, he, heq⟩ := hsep2 nk nc hsp
          simp only [BNode.level, SepOk]
          refine ⟨?_, ?_⟩
          · intro i k' c hki hci
            cases i with
            | zero =>
              simp only [List.getElem?_cons_zero] at hki hci
              cases hki; cases hci
              exact ⟨e, he, heq⟩
            | succ i => simp at hki
          · intro c hc
            simp only [List.mem_cons, List.not_mem_nil, or_false] at hc
            rcases hc with hc | hc
            · subst hc; exact hsep1
            · subst hc; exact hsn

/-- a history of insertions with the running totals of allocated leaves / inner nodes -/
def runInsertsLedger (p : Params K) : Tree K V → List (K × V) → Nat → Nat → Option (Tree K V × Nat × Nat)
  | t, [], la, ia => some (t, la, ia)
  | t, (k, v) :: ops, la, ia =>
    match insert p t k v with
    | none => none
    | some r => runInsertsLedger p r.tree ops (la + r.ledger.leafAlloc) (ia + r.ledger.innerAlloc)

end TlxVerif.C01
