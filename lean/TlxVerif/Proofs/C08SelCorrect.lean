/-
C08 — correctness of the executable model of `multisequence_selection` for all inputs: it succeeds and
returns a value equivalent to the element at the rank together with its offset among the equivalent elements.
-/
import TlxVerif.Proofs.C08Correct
import TlxVerif.Proofs.C08Select
namespace TlxVerif.C08

/-! ### the final scan returns a greatest left edge and a smallest right edge (by value) -/

theorem takesMax_val {lt : Int → Int → Bool} (hlt : StrictWeak lt) (r : Routine) (x v : Int) :
    (takesMax lt r x v = true → lt x v = false) ∧ (takesMax lt r x v = false → lt v x = false) := by
  cases r with
  | partition =>
    simp only [takesMax, Bool.not_eq_true', Bool.not_eq_false']
    exact ⟨fun h => h, fun h => hlt.asymm _ _ h⟩
  | selection =>
    simp only [takesMax]
    exact ⟨fun h => hlt.asymm _ _ h, fun h => h⟩

/-- `ml` is a value-greatest left edge among the sequences `S` -/
def MaxLeftOn (c : Ctx) (o : Out) (S : List Nat) : Option Int → Prop
  | none => ∀ i ∈ S, aget o.a i ≤ 0
  | some v => (∃ s ∈ S, 0 < aget o.a s ∧ v = valAt c s (aget o.a s - 1)) ∧
      ∀ i ∈ S, 0 < aget o.a i → c.lt v (valAt c i (aget o.a i - 1)) = false

/-- `mr` is a value-smallest right edge among the sequences `S` -/
def MinRightOn (c : Ctx) (o : Out) (S : List Nat) : Option Int → Prop
  | none => ∀ i ∈ S, lenAt c i ≤ aget o.b i
  | some w => (∃ s ∈ S, aget o.b s < lenAt c s ∧ w = valAt c s (aget o.b s)) ∧
      ∀ j ∈ S, aget o.b j < lenAt c j → c.lt (valAt c j (aget o.b j)) w = false

theorem edgeLeft_spec {c : Ctx} (hg : Good c) (r : Routine) {o : Out} {i : Nat} (hi : i < c.runs.size)
    (h0 : 0 ≤ aget o.a i) (h1 : aget o.a i ≤ lenAt c i) {done : List Nat} {ml : Option Int}
    (hml : MaxLeftOn c o done ml) : Spec (edgeLeft c r o i ml) (MaxLeftOn c o (done ++ [i])) := by
  unfold edgeLeft
  by_cases hp : aget o.a i > 0
  · rw [if_pos hp]
    have hrd := Spec.rd c hi (by omega : (0 : Int) ≤ aget o.a i - 1) (by omega)
    refine Spec.bind hrd ?_
    intro x hx; subst hx
    cases ml with
    | none =>
      refine Spec.pure ⟨⟨i, by simp, hp, rfl⟩, ?_⟩
      intro k hk hkp
      rcases List.mem_append.mp hk with hk | hk
      · have := hml k hk; omega
      · simp at hk; subst hk; exact hg.hlt.irrefl _
    | some v =>
      obtain ⟨⟨s, hs, hsp, hv⟩, hmax⟩ := hml
      simp only []
      have hts := takesMax_val hg.hlt r (valAt c i (aget o.a i - 1)) v
      by_cases htake : takesMax c.lt r (valAt c i (aget o.a i - 1)) v = true
      · rw [if_pos htake]
        refine Spec.bind hrd ?_
        intro x' hx'; subst hx'
        refine Spec.pure ⟨⟨i, by simp, hp, rfl⟩, ?_⟩
        intro k hk hkp
        rcases List.mem_append.mp hk with hk | hk
        · exact hg.hlt.le_trans (hmax k hk hkp) (hts.1 htake)
        · simp at hk; subst hk; exact hg.hlt.irrefl _
      · rw [if_neg htake]
        refine Spec.pure ⟨⟨s, List.mem_append_left _ hs, hsp, hv⟩, ?_⟩
        intro k hk hkp
        rcases List.mem_append.mp hk with hk | hk
        · exact hmax k hk hkp
        · simp at hk; subst hk; exact hts.2 (by simpa using htake)
  · rw [if_neg hp]
    refine Spec.pure ?_
    cases ml with
    | none =>
      intro k hk
      rcases List.mem_append.mp hk with hk | hk
      · exact hml k hk
      · simp at hk; subst hk; omega
    | some v =>
      obtain ⟨⟨s, hs, hsp, hv⟩, hmax⟩ := hml
      refine ⟨⟨s, List.mem_append_left _ hs, hsp, hv⟩, ?_⟩
      intro k hk hkp
      rcases List.mem_append.mp hk with hk | hk
      · exact hmax k hk hkp
      · simp at hk; subst hk; exact (hp hkp).elim

theorem edgeRight_spec {c : Ctx} (hg : Good c) {o : Out} (hs : o.seqlen = seqlenOf c) {i : Nat} (hi : i < c.runs.size)
    (h0 : 0 ≤ aget o.b i) {done : List Nat} {mr : Option Int}
    (hmr : MinRightOn c o done mr) : Spec (edgeRight c o i mr) (MinRightOn c o (done ++ [i])) := by
  unfold edgeRight
  rw [hs, aget_seqlenOf c hi]
  by_cases hp : aget o.b i < lenAt c i
  · rw [if_pos hp]
    have hrd := Spec.rd c hi h0 hp
    refine Spec.bind hrd ?_
    intro x hx; subst hx
    cases mr with
    | none =>
      refine Spec.pure ⟨⟨i, by simp, hp, rfl⟩, ?_⟩
      intro k hk hkp
      rcases List.mem_append.mp hk with hk | hk
      · have := hmr k hk; omega
      · simp at hk; subst hk; exact hg.hlt.irrefl _
    | some w =>
      obtain ⟨⟨s, hs', hsp, hw⟩, hmin⟩ := hmr
      simp only []
      by_cases htake : c.lt (valAt c i (aget o.b i)) w = true
      · rw [if_pos htake]
        refine Spec.bind hrd ?_
        intro x' hx'; subst hx'
        refine Spec.pure ⟨⟨i, by simp, hp, rfl⟩, ?_⟩
        intro k hk hkp
        rcases List.mem_append.mp hk with hk | hk
        · -- new ≤ w ≤ old ones
          exact hg.hlt.le_trans (hg.hlt.asymm _ _ htake) (hmin k hk hkp)
        · simp at hk; subst hk; exact hg.hlt.irrefl _
      · rw [if_neg htake]
        refine Spec.pure ⟨⟨s, List.mem_append_left _ hs', hsp, hw⟩, ?_⟩
        intro k hk hkp
        rcases List.mem_append.mp hk with hk | hk
        · exact hmin k hk hkp
        · simp at hk; subst hk; simpa using htake
  · rw [if_neg hp]
    refine Spec.pure ?_
    cases mr with
    | none =>
      intro k hk
      rcases List.mem_append.mp hk with hk | hk
      · exact hmr k hk
      · simp at hk; subst hk; omega
    | some w =>
      obtain ⟨⟨s, hs', hsp, hw⟩, hmin⟩ := hmr
      refine ⟨⟨s, List.mem_append_left _ hs', hsp, hw⟩, ?_⟩
      intro k hk hkp
      rcases List.mem_append.mp hk with hk | hk
      · exact hmin k hk hkp
      · simp at hk; subst hk; exact (hp hkp).elim

theorem edges_full_spec {c : Ctx} (hg : Good c) (r : Routine) {o : Out} (hs : o.seqlen = seqlenOf c)
    (hb : ∀ i, i < c.runs.size → 0 ≤ aget o.a i ∧ aget o.a i ≤ lenAt c i ∧ 0 ≤ aget o.b i) :
    ∀ (is done : List Nat) (ml mr : Option Int), (∀ i ∈ is, i < c.runs.size) →
      MaxLeftOn c o done ml → MinRightOn c o done mr →
      Spec (edges c r o is ml mr) (fun p => MaxLeftOn c o (done ++ is) p.1 ∧ MinRightOn c o (done ++ is) p.2)
  | [], done, ml, mr, _, h1, h2 => by
    rw [edges]; exact Spec.pure (by simpa using ⟨h1, h2⟩)
  | i :: is, done, ml, mr, h, h1, h2 => by
    have hi := h i List.mem_cons_self
    obtain ⟨ha0, ha1, hb0⟩ := hb i hi
    rw [edges]
    refine Spec.bind (edgeLeft_spec hg r hi ha0 ha1 h1) ?_
    intro ml' hml'
    refine Spec.bind (edgeRight_spec hg hs hi hb0 h2) ?_
    intro mr' hmr'
    have := edges_full_spec hg r hs hb is (done ++ [i]) ml' mr' (fun j hj => h j (List.mem_cons_of_mem _ hj)) hml' hmr'
    simpa using this

/-! ### from the invariant (value order) to a weak partition -/

theorem weakPartition_of_inv {c : Ctx} (hg : Good c) {ab : AB} (hinv : Inv c .selection 0 ab) {rank : Nat}
    (hsum : sumA ab (List.range c.runs.size) = rank) : WeakPartition c.lt (runsL c) rank (offsOf c ab) := by
  refine ⟨by simp [offsOf, runsL], ?_, ?_, ?_⟩
  · intro i r o hr ho
    obtain ⟨hi, _⟩ := runsL_get_inv c hr
    rw [runsL_get c hi] at hr; cases hr
    rw [offsOf_get c ab hi] at ho; cases ho
    have := (hinv.str i hi).2.1
    rw [lenAt_eq c hi] at this
    omega
  · have := sum_offs_cast ab (List.range c.runs.size) (fun i hi => (hinv.str i (List.mem_range.mp hi)).1)
    rw [hsum] at this
    unfold offsOf
    omega
  · intro i j ri rj oi oj hij hri hrj hoi hoj x hx y hy
    obtain ⟨hi, _⟩ := runsL_get_inv c hri
    obtain ⟨hj, _⟩ := runsL_get_inv c hrj
    rw [runsL_get c hi] at hri; cases hri
    rw [runsL_get c hj] at hrj; cases hrj
    rw [offsOf_get c ab hi] at hoi; cases hoi
    rw [offsOf_get c ab hj] at hoj; cases hoj
    obtain ⟨hi0, hi1, _, _⟩ := hinv.str i hi
    obtain ⟨hj0, hj1, _, hj3⟩ := hinv.str j hj
    rw [lenAt_eq c hi] at hi1
    rw [lenAt_eq c hj] at hj1
    rw [List.mem_take_iff_getElem] at hx
    obtain ⟨p, hp, rfl⟩ := hx
    rw [List.mem_drop_iff_getElem] at hy
    obtain ⟨q, hq, rfl⟩ := hy
    have hp2 : p < c.runs[i].toList.length := by omega
    have hai : 0 < A ab i := by omega
    have hbj : B ab j < lenAt c j := by rw [hj3, lenAt_eq c hj]; omega
    have hv : c.lt (valAt c j (B ab j)) (valAt c i (A ab i - 1)) = false := by
      have := hinv.valid i j hi hj hij hai hbj
      simpa [LeR, Less] using this
    have e3 : c.runs[i].toList[p] = valAt c i (p : Int) := (valAt_eq c hi hp2).symm
    have e4 : c.runs[j].toList[(A ab j).toNat + q] = valAt c j (((A ab j).toNat + q : Nat) : Int) :=
      (valAt_eq c hj (by omega)).symm
    rw [e3, e4]
    have h1 := hg.sorted i hi p (A ab i - 1) (by omega) (by omega) (by rw [lenAt_eq c hi]; omega)
    have h2 : c.lt (valAt c j (((A ab j).toNat + q : Nat) : Int)) (valAt c j (B ab j)) = false := by
      rw [hj3]
      exact hg.sorted j hj (A ab j + (0 : Nat)) _ (by omega) (by omega) (by rw [lenAt_eq c hj]; omega)
    exact hg.hlt.le_trans (hg.hlt.le_trans h1 hv) h2

/-! ### sums over the sequences -/

theorem sum_map_range {β : Type} (f : β → Int) (g : Nat → Int) : ∀ (l : List β) (k : Nat),
    (∀ i (hi : i < l.length), g (k + i) = f l[i]) →
    ((l.map f).sum) = ((List.range' k l.length).map g).sum
  | [], _, _ => by simp
  | x :: l, k, h => by
    have h0 := h 0 (by simp)
    have ih := sum_map_range f g l (k + 1) (fun i hi => by
      have := h (i + 1) (by simpa using hi)
      simpa [Nat.add_assoc, Nat.add_comm 1 i] using this)
    simp only [List.map_cons, List.sum_cons, List.length_cons, List.range'_succ]
    rw [ih]
    simp at h0
    rw [h0]

theorem offsetSum_eq (c : Ctx) (ab : AB) (w : Int) : ∀ (is : List Nat),
    offsetSum c ab.a w is = sumA ab is - ((is.map (fun i => ((lowerBound c.lt (c.runs.getD i #[]) w : Nat) : Int))).sum)
  | [] => by simp [offsetSum, sumA]
  | i :: is => by
    simp only [offsetSum, sumA, List.map_cons, List.sum_cons, offsetSum_eq c ab w is, A]
    omega

/-- the model's `lower_bound`s add up to the number of elements smaller than `w` -/
theorem lowerBound_sum {c : Ctx} (hg : Good c) (hs : ∀ r ∈ runsL c, SortedRun c.lt r) (w : Int) :
    (((List.range c.runs.size).map (fun i => ((lowerBound c.lt (c.runs.getD i #[]) w : Nat) : Int))).sum) =
      (countLess c.lt (runsL c) w : Int) := by
  have h := sum_map_range (fun r : List Int => ((r.countP (fun x => c.lt x w) : Nat) : Int))
    (fun i => ((lowerBound c.lt (c.runs.getD i #[]) w : Nat) : Int)) (runsL c) 0 (by
      intro i hi
      have hi' : i < c.runs.size := by simpa [runsL] using hi
      have hri : (runsL c)[i] = c.runs[i].toList := by
        have := runsL_get c hi'
        rw [List.getElem?_eq_getElem hi] at this
        exact Option.some.inj this
      rw [hri, Nat.zero_add]
      have hsr : SortedRun c.lt c.runs[i].toList := hs _ (by rw [← hri]; exact List.getElem_mem hi)
      rw [countP_lt_eq_takeWhile hg.hlt w hsr]
      simp [lowerBound, Array.getD_eq_getD_getElem?, Array.getElem?_eq_getElem hi'])
  have hl : (runsL c).length = c.runs.size := by simp [runsL]
  rw [hl, ← List.range_eq_range'] at h
  rw [← h]
  unfold countLess
  induction (runsL c) with
  | nil => simp
  | cons r rs ih => simp only [List.map_cons, List.sum_cons]; push_cast; rw [ih]

theorem sortedRun_runsL {c : Ctx} (hg : Good c) : ∀ r ∈ runsL c, SortedRun c.lt r := by
  intro r hr
  obtain ⟨i, hi, rfl⟩ := List.getElem_of_mem hr
  have hi' : i < c.runs.size := by simpa [runsL] using hi
  have hri : (runsL c)[i] = c.runs[i].toList := by
    have := runsL_get c hi'
    rw [List.getElem?_eq_getElem hi] at this
    exact Option.some.inj this
  rw [hri]
  unfold SortedRun
  rw [List.pairwise_iff_getElem]
  intro p q hp hq hpq
  rw [← valAt_eq c hi' hp, ← valAt_eq c hi' hq]
  exact hg.sorted i hi' p q (by omega) (by omega) (by rw [lenAt_eq c hi']; omega)

/-- **Correctness of `multisequence_selection` (model) for all inputs** -/
theorem selection_correct {c : Ctx} (hg : Good c) {rank : Nat} (hr : rank < totalLen c) :
    ∃ v off tr, runM (selectionM c rank) = .ok ((v, off), tr) ∧ 0 ≤ off ∧
      IsSelection c.lt (runsL c) rank v off.toNat := by
  have hm : 0 < c.runs.size := by
    refine Nat.pos_of_ne_zero fun h0 => ?_
    have := totalLen_eq c
    rw [h0] at this
    simp [sumLen] at this
    omega
  have hsorted := sortedRun_runsL hg
  have hrange : ∀ i ∈ List.range c.runs.size, i < c.runs.size := fun i hi => List.mem_range.mp hi
  have hspec : Spec (selectionM c rank) (fun p => 0 ≤ p.2 ∧ IsSelection c.lt (runsL c) rank p.1 p.2.toNat) := by
    unfold selectionM
    have hguard : ¬ (c.runs.size == 0 || totalLen c == 0 || decide (rank ≥ totalLen c)) = true := by
      simp only [Bool.or_eq_true, beq_iff_eq, decide_eq_true_eq, not_or]; omega
    rw [if_neg hguard]
    refine Spec.bind (refine_spec hg .selection hm hr) ?_
    intro o ⟨hs, hinv, hsum⟩
    have hb : ∀ i, i < c.runs.size → 0 ≤ aget o.a i ∧ aget o.a i ≤ lenAt c i ∧ 0 ≤ aget o.b i := by
      intro i hi
      obtain ⟨h0, h1, _, h3⟩ := hinv.str i hi
      simp only [A, B] at h0 h1 h3
      exact ⟨h0, h1, by omega⟩
    refine Spec.bind (edges_full_spec hg .selection hs hb (List.range c.runs.size) [] none none hrange
      (by intro i hi; cases hi) (by intro i hi; cases hi)) ?_
    intro p ⟨hml, hmr⟩
    obtain ⟨ml, mr⟩ := p
    rw [List.nil_append] at hml hmr
    simp only [] at hml hmr ⊢
    have hBA : ∀ i, i < c.runs.size → aget o.b i = aget o.a i := by
      intro i hi
      have := (hinv.str i hi).2.2.2
      simp only [A, B] at this; omega
    cases mr with
    | none =>
      -- impossible: rank < N
      exfalso
      have hAeq : ∀ i ∈ List.range c.runs.size, A ⟨o.a, o.b⟩ i = lenAt c i := by
        intro i hi
        have h1 := hmr i hi
        have h2 := hb i (hrange i hi)
        have h3 := hBA i (hrange i hi)
        simp only [A]; omega
      rw [sumA_eq_sumLen _ hAeq, ← totalLen_eq] at hsum
      omega
    | some w =>
      obtain ⟨⟨s, hsm, hbs, hw⟩, hmin⟩ := hmr
      have hs' := hrange s hsm
      have hweak := weakPartition_of_inv hg hinv hsum
      -- the specification-level characterisation
      have hAs : (A ⟨o.a, o.b⟩ s).toNat < c.runs[s].toList.length := by
        have := hBA s hs'
        have h0 := (hb s hs').1
        rw [lenAt_eq c hs'] at hbs
        simp only [A]; omega
      have hmrget : c.runs[s].toList[(A ⟨o.a, o.b⟩ s).toNat]? = some w := by
        rw [List.getElem?_eq_getElem hAs, ← valAt_eq c hs' hAs, hw]
        congr 2
        have := hBA s hs'
        have h0 := (hb s hs').1
        simp only [A]; omega
      have hsel := selection_from_partition hg.hlt hsorted hweak (runsL_get c hs') (offsOf_get c _ hs') hmrget (by
        intro j rj oj w' hrj hoj hw'
        obtain ⟨hj, _⟩ := runsL_get_inv c hrj
        rw [runsL_get c hj] at hrj; cases hrj
        rw [offsOf_get c _ hj] at hoj; cases hoj
        have hlen := (List.getElem?_eq_some_iff.mp hw').1
        have hbj : aget o.b j < lenAt c j := by
          have := hBA j hj; have h0 := (hb j hj).1
          rw [lenAt_eq c hj]; simp only [A] at hlen; omega
        have := hmin j (List.mem_range.mpr hj) hbj
        have e : valAt c j (aget o.b j) = w' := by
          have h1 := valAt_eq c hj hlen
          have h2 := (List.getElem?_eq_some_iff.mp hw').2
          rw [← h2, ← h1]
          congr 1
          have := hBA j hj; have h0 := (hb j hj).1
          simp only [A]; omega
        rw [e] at this
        exact this)
      have hlo := hsel.lo
      have hhi := hsel.hi
      -- maxleft can never be greater than minright
      have hunamb : ∀ v, ml = some v → c.lt w v = false := by
        intro v hv
        subst hv
        obtain ⟨⟨s', hs'm, hs'p, hv⟩, _⟩ := hml
        have hs'' := hrange s' hs'm
        rw [hv, hw]
        by_cases hss : s' = s
        · subst hss
          exact hg.sorted s' hs'' _ _ (by omega) (by have := hBA s' hs''; omega) hbs
        · have := hinv.valid s' s hs'' hs' hss hs'p hbs
          simpa [LeR, Less, A, B] using this
      cases ml with
      | none =>
        -- no left edge: rank = 0, offset 0
        simp only []
        refine Spec.pure ⟨Int.le_refl _, hlo, hhi, ?_⟩
        have hz : ∀ i ∈ List.range c.runs.size, A ⟨o.a, o.b⟩ i = 0 := by
          intro i hi
          have := hml i hi
          have := (hb i (hrange i hi)).1
          simp only [A]; omega
        have : sumA ⟨o.a, o.b⟩ (List.range c.runs.size) = 0 := by
          have : ∀ (is : List Nat), (∀ i ∈ is, A ⟨o.a, o.b⟩ i = 0) → sumA ⟨o.a, o.b⟩ is = 0 := by
            intro is
            induction is with
            | nil => intro _; rfl
            | cons i is ih =>
              intro h
              simp only [sumA, h i List.mem_cons_self, ih (fun j hj => h j (List.mem_cons_of_mem _ hj))]
              rfl
          exact this _ hz
        rw [this] at hsum
        have : rank = 0 := by omega
        subst this
        simp
      | some v =>
        have hf : ¬ (c.lt w v) = true := by rw [hunamb v rfl]; simp
        simp only [hf]
        have hoff : offsetSum c o.a w (List.range c.runs.size) = (rank : Int) - (countLess c.lt (runsL c) w : Int) := by
          have := offsetSum_eq c ⟨o.a, o.b⟩ w (List.range c.runs.size)
          simp only [] at this
          rw [this, hsum, lowerBound_sum hg hsorted]
        refine Spec.pure ⟨by rw [hoff]; omega, hlo, hhi, ?_⟩
        show (offsetSum c o.a w (List.range c.runs.size)).toNat = rank - countLess c.lt (runsL c) w
        rw [hoff]; omega
  obtain ⟨p, tr, hrun, h0, hsel⟩ := hspec #[]
  exact ⟨p.1, p.2, tr, hrun, h0, hsel⟩

end TlxVerif.C08
