import TlxVerif.Proofs.C14Bytes
import TlxVerif.Model.C14Spec
/-!
C14 — chunking independence of the shared class state machine.

For every parameter set satisfying `Params.WF` (checked by `decide` for the four classes),
every initial buffer content and every list of chunks:

  `digestOfChunks P buf0 chunks = mdDigest P chunks.flatten`

where `mdDigest` is the Merkle–Damgård iteration of `P.compress` over the padded message.
Invariant (`Inv`): `state_` = fold of `compress` over the full blocks seen so far, the first
`curlen_` bytes of `buf_` = the not yet compressed tail, `length_` = 8 · (bytes compressed).
-/
namespace TlxVerif.C14

variable {S : Type}

/-- the relations between the block constants that the padding code relies on -/
structure Params.WF (P : Params S) : Prop where
  pos : 0 < P.blockSize
  fill : P.fillTo = P.blockSize
  lim : P.padLimit ≤ P.lenPos
  len : P.lenPos + 8 = P.blockSize
  storeLen : ∀ x, (P.storeLen x).length = 8

/-- padded message at the level of the class parameters: `0x80`, the smallest number of zero
    bytes that brings the length to `padLimit` (mod `blockSize`), `lenPos - padLimit` more
    zero bytes (SHA-512's upper length half), the 64-bit bit length -/
def mdPad (P : Params S) (msg : Bytes) : Bytes :=
  msg ++ [0x80#8] ++ List.replicate (Spec.padZeros P.blockSize (P.blockSize - P.padLimit) msg.length) 0#8 ++
    List.replicate (P.lenPos - P.padLimit) 0#8 ++ P.storeLen (BitVec.ofNat 64 (8 * msg.length))

/-- Merkle–Damgård digest with the class' own `compress`, `init`, `output` -/
def mdDigest (P : Params S) (msg : Bytes) : Bytes :=
  P.output ((toBlocks P.blockSize (mdPad P msg)).foldl P.compress P.init)

def absorbed (P : Params S) (full : Bytes) : S :=
  (toBlocks P.blockSize full).foldl P.compress P.init

structure Inv (P : Params S) (c : Ctx S) (full tail : Bytes) : Prop where
  q : ∃ q, full.length = q * P.blockSize
  buflen : c.buf.length = P.blockSize
  cur : c.curlen = tail.length
  lt : tail.length < P.blockSize
  tail : c.buf.take c.curlen = tail
  state : c.state = absorbed P full
  length : c.length = BitVec.ofNat 64 (8 * full.length)

theorem absorbed_append_block (P : Params S) (hP : P.WF) (full blk : Bytes)
    (hq : ∃ q, full.length = q * P.blockSize) (hb : blk.length = P.blockSize) :
    absorbed P (full ++ blk) = P.compress (absorbed P full) blk := by
  obtain ⟨q, hq⟩ := hq
  unfold absorbed
  rw [toBlocks_append hP.pos q full blk hq, toBlocks_single hP.pos blk hb, List.foldl_append]
  rfl

theorem inv_new (P : Params S) (hP : P.WF) (buf0 : Bytes) (h0 : buf0.length = P.blockSize) :
    Inv P (P.new buf0) [] [] where
  q := ⟨0, by simp⟩
  buflen := h0
  cur := rfl
  lt := hP.pos
  tail := by simp [Params.new]
  state := by simp [Params.new, absorbed, toBlocks_of_lt _ [] hP.pos]
  length := by simp [Params.new]

theorem processLoop_inv (P : Params S) (hP : P.WF) : ∀ (fuel : Nat) (c : Ctx S) (data full tail : Bytes),
    Inv P c full tail → data.length ≤ fuel →
    ∃ full' tail', Inv P (processLoop P fuel c data) full' tail' ∧ full' ++ tail' = full ++ tail ++ data
  | 0, c, data, full, tail, hI, hf => by
    have : data = [] := List.length_eq_zero_iff.mp (by omega)
    subst this
    exact ⟨full, tail, by simpa [processLoop] using hI, by simp⟩
  | fuel + 1, c, data, full, tail, hI, hf => by
    have hB := hP.pos
    rw [processLoop]
    split
    · next h0 =>
      have : data = [] := List.length_eq_zero_iff.mp h0
      subst this
      exact ⟨full, tail, hI, by simp⟩
    · next hne =>
      split
      · next hdir =>
        -- a whole block straight from the input
        have htail : tail = [] := List.length_eq_zero_iff.mp (by rw [← hI.cur]; exact hdir.1)
        subst htail
        have hblk : (data.take P.blockSize).length = P.blockSize := List.length_take_of_le hdir.2
        obtain ⟨q, hq⟩ := hI.q
        have hI' : Inv P { c with state := P.compress c.state (data.take P.blockSize),
                                  length := c.length + BitVec.ofNat 64 (P.blockSize * 8) }
            (full ++ data.take P.blockSize) [] :=
          { q := ⟨q + 1, by simp [hq, hblk, Nat.succ_mul]⟩
            buflen := hI.buflen
            cur := hI.cur
            lt := hI.lt
            tail := hI.tail
            state := by
              show P.compress c.state _ = _
              rw [hI.state, absorbed_append_block P hP full _ ⟨q, hq⟩ hblk]
            length := by
              show c.length + _ = _
              rw [hI.length, ← BitVec.ofNat_add]
              congr 1; simp [hblk]; omega }
        obtain ⟨f', t', hI'', heq⟩ := processLoop_inv P hP fuel _ (data.drop P.blockSize) _ _ hI'
          (by simp [List.length_drop]; omega)
        refine ⟨f', t', hI'', ?_⟩
        rw [heq]; simp
      · next hbuf =>
        -- copy into the buffer, compress when it is full
        have hcurlt : c.curlen < P.blockSize := by rw [hI.cur]; exact hI.lt
        have hdpos : 0 < data.length := Nat.pos_of_ne_zero hne
        -- name the copied piece
        generalize hn : min data.length (P.blockSize - c.curlen) = n
        have hn1 : 1 ≤ n := by omega
        have hnd : n ≤ data.length := by omega
        have hnb : c.curlen + n ≤ P.blockSize := by omega
        have hpiece : (data.take n).length = n := List.length_take_of_le hnd
        have hw := writeAt_eq (data.take n) c.buf c.curlen (by rw [hpiece, hI.buflen]; exact hnb)
        rw [hpiece, hI.tail] at hw
        simp only []
        split
        · next hfull =>
          have hdropnil : c.buf.drop (c.curlen + n) = [] := by
            apply List.drop_of_length_le; rw [hI.buflen, hfull]; exact Nat.le_refl _
          rw [hdropnil, List.append_nil] at hw
          have hblk : (tail ++ data.take n).length = P.blockSize := by
            simp [hpiece, ← hI.cur, hfull]
          obtain ⟨q, hq⟩ := hI.q
          have hI' : Inv P { state := P.compress c.state (writeAt c.buf c.curlen (data.take n)),
                             length := c.length + BitVec.ofNat 64 (8 * P.blockSize),
                             curlen := 0, buf := writeAt c.buf c.curlen (data.take n) }
              (full ++ (tail ++ data.take n)) [] :=
            { q := ⟨q + 1, by rw [List.length_append, hblk, hq, Nat.succ_mul]⟩
              buflen := by rw [hw]; exact hblk
              cur := rfl
              lt := hB
              tail := by simp
              state := by
                show P.compress c.state _ = _
                rw [hw, hI.state, absorbed_append_block P hP full _ ⟨q, hq⟩ hblk]
              length := by
                show c.length + _ = _
                rw [hI.length, ← BitVec.ofNat_add]
                congr 1; rw [List.length_append, hblk]; omega }
          obtain ⟨f', t', hI'', heq⟩ := processLoop_inv P hP fuel _ (data.drop n) _ _ hI'
            (by simp [List.length_drop]; omega)
          refine ⟨f', t', hI'', ?_⟩
          rw [heq]; simp
        · next hnotfull =>
          have hlt' : c.curlen + n < P.blockSize := by omega
          have hI' : Inv P { c with buf := writeAt c.buf c.curlen (data.take n), curlen := c.curlen + n }
              full (tail ++ data.take n) :=
            { q := hI.q
              buflen := by
                show (writeAt _ _ _).length = _
                rw [writeAt_length _ _ _ (by rw [hpiece, hI.buflen]; exact hnb)]; exact hI.buflen
              cur := by show c.curlen + n = _; simp [hpiece, hI.cur]
              lt := by simp [hpiece, ← hI.cur]; exact hlt'
              tail := by
                show (writeAt _ _ _).take (c.curlen + n) = _
                rw [hw, List.append_assoc]
                rw [← List.append_assoc]
                exact List.take_left' (by simp [hpiece, hI.cur])
              state := hI.state
              length := hI.length }
          obtain ⟨f', t', hI'', heq⟩ := processLoop_inv P hP fuel _ (data.drop n) _ _ hI'
            (by simp [List.length_drop]; omega)
          refine ⟨f', t', hI'', ?_⟩
          rw [heq]; simp

theorem process_inv (P : Params S) (hP : P.WF) (c : Ctx S) (data full tail : Bytes)
    (hI : Inv P c full tail) :
    ∃ full' tail', Inv P (process P c data) full' tail' ∧ full' ++ tail' = full ++ tail ++ data :=
  processLoop_inv P hP data.length c data full tail hI (Nat.le_refl _)

theorem chunks_inv (P : Params S) (hP : P.WF) : ∀ (chunks : List Bytes) (c : Ctx S) (full tail : Bytes),
    Inv P c full tail →
    ∃ full' tail', Inv P (chunks.foldl (process P) c) full' tail' ∧
      full' ++ tail' = full ++ tail ++ chunks.flatten
  | [], c, full, tail, hI => ⟨full, tail, hI, by simp⟩
  | ch :: rest, c, full, tail, hI => by
    obtain ⟨f1, t1, hI1, h1⟩ := process_inv P hP c ch full tail hI
    obtain ⟨f2, t2, hI2, h2⟩ := chunks_inv P hP rest _ f1 t1 hI1
    refine ⟨f2, t2, hI2, ?_⟩
    rw [h2, h1]; simp

end TlxVerif.C14

namespace TlxVerif.C14

variable {S : Type}

theorem replicate_add' {α : Type} (a b : Nat) (x : α) :
    List.replicate (a + b) x = List.replicate a x ++ List.replicate b x := by
  induction a with
  | zero => simp
  | succ a ih => rw [Nat.succ_add, List.replicate_succ, ih, List.replicate_succ]; simp

theorem padZeros_early (B pl q n : Nat) (hpl : pl < B) (hn : n + 1 ≤ B) (h : pl < n + 1) :
    Spec.padZeros B (B - pl) (q * B + n) = B - n - 1 + pl := by
  unfold Spec.padZeros
  have h1 : B - (B - pl) = pl := by omega
  have h2 : (q * B + n + 1) % B = (n + 1) % B := by rw [Nat.add_assoc, Nat.mul_add_mod']
  rw [h1, h2]
  by_cases hnb : n + 1 = B
  · rw [hnb, Nat.mod_self, Nat.sub_zero, Nat.add_mod_left, Nat.mod_eq_of_lt hpl]; omega
  · have hlt : n + 1 < B := by omega
    have hm : (n + 1) % B = n + 1 := Nat.mod_eq_of_lt hlt
    have hlt2 : B + pl - (n + 1) < B := by omega
    rw [hm, Nat.mod_eq_of_lt hlt2]; omega

theorem padZeros_late (B pl q n : Nat) (hpl : pl < B) (h : n + 1 ≤ pl) :
    Spec.padZeros B (B - pl) (q * B + n) = pl - n - 1 := by
  unfold Spec.padZeros
  have h1 : B - (B - pl) = pl := by omega
  have h2 : (q * B + n + 1) % B = (n + 1) % B := by rw [Nat.add_assoc, Nat.mul_add_mod']
  have hlt : n + 1 < B := by omega
  have hm : (n + 1) % B = n + 1 := Nat.mod_eq_of_lt hlt
  have hsplit : B + pl - (n + 1) = B + (pl - n - 1) := by omega
  have hlt2 : pl - n - 1 < B := by omega
  rw [h1, h2, hm, hsplit, Nat.add_mod_left, Nat.mod_eq_of_lt hlt2]

theorem finalize_eq (P : Params S) (hP : P.WF) (c : Ctx S) (full tail : Bytes) (hI : Inv P c full tail) :
    (finalize P c).1 = mdDigest P (full ++ tail) := by
  obtain ⟨q, hq⟩ := hI.q
  have hB := hP.pos
  have hfill := hP.fill
  have hlen8 := hP.len
  have hlim := hP.lim
  have hcur := hI.cur
  have hnlt : tail.length < P.blockSize := hI.lt
  have hpl : P.padLimit < P.blockSize := by omega
  have hbuflen := hI.buflen
  -- the length field
  have hL : c.length + BitVec.ofNat 64 (c.curlen * 8) = BitVec.ofNat 64 (8 * (full ++ tail).length) := by
    rw [hI.length, ← BitVec.ofNat_add]; congr 1; simp [hcur]; omega
  unfold finalize mdDigest mdPad
  simp only [hL]
  generalize BitVec.ofNat 64 (8 * (full ++ tail).length) = Lv
  generalize hsb : P.storeLen Lv = sl
  have hsl : sl.length = 8 := by rw [← hsb]; exact hP.storeLen Lv
  -- buf_[curlen_++] = 0x80
  have hset : c.buf.set c.curlen 0x80#8 = (tail ++ [0x80#8]) ++ c.buf.drop (c.curlen + 1) := by
    rw [set_eq_take_drop _ _ _ (by rw [hbuflen, hcur]; exact hnlt), hI.tail]
  have hA : (tail ++ [0x80#8]).length = c.curlen + 1 := by simp [hcur]
  generalize hb0 : c.buf.set c.curlen 0x80#8 = buf1 at hset
  have hb1l : buf1.length = P.blockSize := by rw [← hb0]; simp [hbuflen]
  have htk : buf1.take (c.curlen + 1) = tail ++ [0x80#8] := by rw [hset, List.take_left' hA]
  congr 1
  by_cases hearly : c.curlen + 1 > P.padLimit
  · -- 0x80 does not leave room for the length: an extra block
    simp only [hearly, if_true]
    have hz1 := zeroFill_eq buf1 P.blockSize (by rw [hb1l]; exact Nat.le_refl _)
      (P.blockSize - (c.curlen + 1)) (c.curlen + 1) rfl (by omega) buf1 rfl rfl
    rw [hfill, hz1, htk, List.drop_of_length_le (by rw [hb1l]; exact Nat.le_refl _), List.append_nil]
    generalize hbk1 : tail ++ [0x80#8] ++ List.replicate (P.blockSize - (c.curlen + 1)) 0#8 = blk1
    have hb1len : blk1.length = P.blockSize := by rw [← hbk1]; simp [hcur]; omega
    have hz2 := zeroFill_eq blk1 P.lenPos (by omega) P.lenPos 0 rfl (Nat.zero_le _) blk1 rfl rfl
    simp only [hz2, List.take_zero, List.nil_append, Nat.sub_zero]
    have hrl : (List.replicate P.lenPos (0#8 : Byte)).length = P.lenPos := by simp
    have hdl : (blk1.drop P.lenPos).length = 8 := by rw [List.length_drop, hb1len]; omega
    rw [writeAt_eq _ _ _ (by rw [List.length_append, hrl, hdl, hsl]; exact Nat.le_refl _)]
    rw [List.take_left' hrl, hsl]
    rw [List.drop_of_length_le (by rw [List.length_append, hrl, hdl]; exact Nat.le_refl _), List.append_nil]
    -- the specification side
    have hk := padZeros_early P.blockSize P.padLimit q tail.length hpl (by omega) (by omega)
    rw [List.length_append, hq, hk, hI.state]
    generalize hbk2 : List.replicate P.lenPos (0#8 : Byte) ++ sl = blk2
    have hb2len : blk2.length = P.blockSize := by rw [← hbk2, List.length_append, hrl, hsl]; exact hlen8
    rw [← absorbed_append_block P hP full blk1 ⟨q, hq⟩ hb1len]
    rw [← absorbed_append_block P hP (full ++ blk1) blk2
      ⟨q + 1, by rw [List.length_append, hq, hb1len, Nat.succ_mul]⟩ hb2len]
    unfold absorbed
    congr 2
    rw [← hbk1, ← hbk2]
    have h1 : P.lenPos = P.padLimit + (P.lenPos - P.padLimit) := by omega
    have h2 : P.blockSize - tail.length - 1 = P.blockSize - (c.curlen + 1) := by omega
    conv => lhs; rw [h1, replicate_add']
    rw [replicate_add', h2]
    simp only [List.append_assoc]
  · -- the length fits into the current block
    simp only [hearly, if_false]
    have hle : c.curlen + 1 ≤ P.lenPos := by omega
    have hz := zeroFill_eq buf1 P.lenPos (by rw [hb1l]; omega)
      (P.lenPos - (c.curlen + 1)) (c.curlen + 1) rfl hle buf1 rfl rfl
    simp only [hz, htk]
    generalize hpre0 : tail ++ [0x80#8] ++ List.replicate (P.lenPos - (c.curlen + 1)) 0#8 = pre
    have hpre : pre.length = P.lenPos := by rw [← hpre0]; simp [hcur]; omega
    have hdl : (buf1.drop P.lenPos).length = 8 := by rw [List.length_drop, hb1l]; omega
    rw [writeAt_eq _ _ _ (by rw [List.length_append, hpre, hdl, hsl]; exact Nat.le_refl _)]
    rw [List.take_left' hpre, hsl]
    rw [List.drop_of_length_le (by rw [List.length_append, hpre, hdl]; exact Nat.le_refl _), List.append_nil]
    have hk := padZeros_late P.blockSize P.padLimit q tail.length hpl (by omega)
    rw [List.length_append, hq, hk, hI.state]
    generalize hbk : pre ++ sl = blk
    have hblen : blk.length = P.blockSize := by rw [← hbk, List.length_append, hpre, hsl]; exact hlen8
    rw [← absorbed_append_block P hP full blk ⟨q, hq⟩ hblen]
    unfold absorbed
    congr 2
    rw [← hbk, ← hpre0]
    have h1 : P.lenPos - (c.curlen + 1) = (P.padLimit - tail.length - 1) + (P.lenPos - P.padLimit) := by omega
    rw [h1, replicate_add']
    simp only [List.append_assoc]

/-- **Chunking independence** of the class state machine: for every split of every message
    into `process()` calls (and every stale content of `buf_`), construct – process* –
    finalize yields the Merkle–Damgård digest of the concatenation. -/
theorem digestOfChunks_eq (P : Params S) (hP : P.WF) (buf0 : Bytes) (h0 : buf0.length = P.blockSize)
    (chunks : List Bytes) :
    digestOfChunks P buf0 chunks = mdDigest P chunks.flatten := by
  obtain ⟨full, tail, hI, heq⟩ := chunks_inv P hP chunks _ [] [] (inv_new P hP buf0 h0)
  unfold digestOfChunks
  rw [finalize_eq P hP _ full tail hI, heq]; simp

/-- memory safety of `buf_[curlen_++]`: between calls `curlen_ < sizeof(buf_)` -/
theorem curlen_lt (P : Params S) (hP : P.WF) (buf0 : Bytes) (h0 : buf0.length = P.blockSize)
    (chunks : List Bytes) :
    (chunks.foldl (process P) (P.new buf0)).curlen < P.blockSize := by
  obtain ⟨full, tail, hI, _⟩ := chunks_inv P hP chunks _ [] [] (inv_new P hP buf0 h0)
  rw [hI.cur]; exact hI.lt

end TlxVerif.C14

namespace TlxVerif.C14

variable {S : Type}

/-! ### the string_view overloads: pieces of at most 2^30 bytes -/

theorem svPieces_flatten (data : Bytes) : (svPieces data).flatten = data := by
  fun_induction svPieces data with
  | case1 data h ih => simp [ih]
  | case2 data h => simp

/-- every piece handed to `process(const void*, std::uint32_t)` fits the 32-bit size parameter -/
theorem svPieces_lt (data : Bytes) : ∀ p ∈ svPieces data, p.length < 2 ^ 32 := by
  fun_induction svPieces data with
  | case1 data h ih =>
    intro p hp
    rcases List.mem_cons.mp hp with hp | hp
    · subst hp; rw [List.length_take]; omega
    · exact ih p hp
  | case2 data h =>
    intro p hp
    simp at hp; subst hp; omega

theorem foldl_processSV (P : Params S) : ∀ (chunks : List Bytes) (c : Ctx S),
    chunks.foldl (processSV P) c = (chunks.flatMap svPieces).foldl (process P) c
  | [], c => rfl
  | ch :: rest, c => by
    simp only [List.foldl_cons, List.flatMap_cons, List.foldl_append]
    rw [foldl_processSV P rest]
    rfl

theorem flatMap_svPieces_flatten : ∀ (chunks : List Bytes), (chunks.flatMap svPieces).flatten = chunks.flatten
  | [] => rfl
  | ch :: rest => by
    simp only [List.flatMap_cons, List.flatten_append, List.flatten_cons, svPieces_flatten,
      flatMap_svPieces_flatten rest]

/-- chunking independence also through `process(tlx::string_view)` (arbitrarily long strings) -/
theorem digestOfChunksSV_eq (P : Params S) (hP : P.WF) (buf0 : Bytes) (h0 : buf0.length = P.blockSize)
    (chunks : List Bytes) :
    (finalize P (chunks.foldl (processSV P) (P.new buf0))).1 = mdDigest P chunks.flatten := by
  rw [foldl_processSV]
  have := digestOfChunks_eq P hP buf0 h0 (chunks.flatMap svPieces)
  unfold digestOfChunks at this
  rw [this, flatMap_svPieces_flatten]

end TlxVerif.C14
