/-
C19 — lemmas for the small helpers.
-/
import TlxVerif.Model.C19Helpers
import TlxVerif.Model.C19Spec
import TlxVerif.Proofs.C18Basic
import TlxVerif.Proofs.C19Codec
namespace TlxVerif.C19
open TlxVerif.C18 (Bytes npos)
open TlxVerif.C18

/-- `to_lower` maps exactly `A`–`Z` to `a`–`z` (the unsigned-cast trick is right, also for bytes ≥ 0x80) -/
theorem toLower_spec : ∀ c : UInt8, toLower c = if 65 ≤ c ∧ c ≤ 90 then c + 32 else c :=
  forall_u8 (by decide +kernel)

theorem toUpper_spec : ∀ c : UInt8, toUpper c = if 97 ≤ c ∧ c ≤ 122 then c - 32 else c :=
  forall_u8 (by decide +kernel)

theorem compareIcase_eq : ∀ a b : Bytes, compareIcase a b = Spec.compare (a.map toLower) (b.map toLower)
  | [], [] => by simp [compareIcase, compare_nil_nil]
  | [], b :: bs => by simp [compareIcase, compare_nil_cons]
  | a :: as, [] => by simp [compareIcase, compare_cons_nil]
  | a :: as, b :: bs => by
    simp only [compareIcase, List.map_cons]
    by_cases h : toLower a = toLower b
    · simp only [h, beq_self_eq_true, if_true, compare_cons_same]
      exact compareIcase_eq as bs
    · have hb : (toLower a == toLower b) = false := by simp [h]
      simp only [hb, Bool.false_eq_true, if_false]
      by_cases hlt : toLower a < toLower b
      · simp [hlt, compare_cons_lt _ _ _ _ hlt]
      · have hgt : toLower b < toLower a := by
          rcases UInt8.lt_or_lt_of_ne h with h1 | h1
          · exact absurd h1 hlt
          · exact h1
        simp [hlt, compare_cons_gt _ _ _ _ hgt]

theorem equalIcaseLoop_eq : ∀ a b : Bytes, equalIcaseLoop a b = (a.map toLower == b.map toLower)
  | [], [] => by simp [equalIcaseLoop]
  | [], b :: bs => by simp [equalIcaseLoop]
  | a :: as, [] => by simp [equalIcaseLoop]
  | a :: as, b :: bs => by
    simp only [equalIcaseLoop, List.map_cons]
    by_cases h : toLower a = toLower b
    · simp only [h, beq_self_eq_true, if_true]
      rw [equalIcaseLoop_eq as bs]
      simp [List.cons_beq_cons]
    · have hb : (toLower a == toLower b) = false := by simp [h]
      simp [hb, List.cons_beq_cons]

theorem stdEqualBy_icase_eq : ∀ a b : Bytes, a.length = b.length →
    stdEqualBy icaseEq a b = (a.map toLower == b.map toLower)
  | [], [], _ => by simp [stdEqualBy]
  | [], _ :: _, h => by simp at h
  | _ :: _, [], h => by simp at h
  | a :: as, b :: bs, h => by
    simp only [stdEqualBy, List.map_cons, List.cons_beq_cons]
    rw [stdEqualBy_icase_eq as bs (by simpa using h)]
    rfl

theorem lessIcaseLoop_eq : ∀ a b : Bytes, lessIcaseLoop a b = Spec.lt (a.map toLower) (b.map toLower)
  | [], [] => by simp [lessIcaseLoop, Spec.lt, compare_nil_nil]
  | [], b :: bs => by simp [lessIcaseLoop, Spec.lt, compare_nil_cons]
  | a :: as, [] => by simp [lessIcaseLoop, Spec.lt, compare_cons_nil]
  | a :: as, b :: bs => by
    simp only [lessIcaseLoop, List.map_cons, Spec.lt]
    by_cases h : toLower a = toLower b
    · simp only [h, beq_self_eq_true, if_true, compare_cons_same]
      exact lessIcaseLoop_eq as bs
    · have hb : (toLower a == toLower b) = false := by simp [h]
      simp only [hb, Bool.false_eq_true, if_false]
      by_cases hlt : toLower a < toLower b
      · simp [hlt, compare_cons_lt _ _ _ _ hlt]
      · have hgt : toLower b < toLower a := by
          rcases UInt8.lt_or_lt_of_ne h with h1 | h1
          · exact absurd h1 hlt
          · exact h1
        simp [hlt, compare_cons_gt _ _ _ _ hgt]

theorem lessIcaseView_eq : ∀ a b : Bytes, lessIcaseView a b = Spec.lt (a.map toLower) (b.map toLower)
  | [], [] => by simp [lessIcaseView, Model.lexCompare, Spec.lt, compare_nil_nil]
  | _ :: _, [] => by simp [lessIcaseView, Model.lexCompare, Spec.lt, compare_cons_nil]
  | [], b :: bs => by simp [lessIcaseView, Model.lexCompare, Spec.lt, compare_nil_cons]
  | a :: as, b :: bs => by
    have ih := lessIcaseView_eq as bs
    unfold lessIcaseView at ih ⊢
    simp only [Model.lexCompare, List.map_cons, Spec.lt]
    by_cases hlt : toLower a < toLower b
    · simp [hlt, compare_cons_lt _ _ _ _ hlt]
    · by_cases hgt : toLower b < toLower a
      · simp [hlt, hgt, compare_cons_gt _ _ _ _ hgt]
      · have e : toLower a = toLower b := u8_eq_of_not_lt hlt hgt
        simp only [hlt, hgt, decide_false, Bool.false_eq_true, if_false]
        rw [e, compare_cons_same, ih]; rfl

end TlxVerif.C19
