/-
L2 for `merge_advance` (k = 2): the model's run is a stable run.
-/
import TlxVerif.Model.C05Merge
import TlxVerif.Proofs.C05Spec
namespace TlxVerif.C05
open TlxVerif.C09 (SWO)

variable {α : Type}

/-- taking `m` elements from the only non-empty sequence -/
theorem stableRun_left (lt : α → α → Bool) (hirr : ∀ a, lt a a = false) : ∀ (m : Nat) (a : List α), m ≤ a.length →
    StableRun lt [a, []] m (a.take m) [a.drop m, []]
  | 0, a, _ => by simpa using StableRun.done [a, []]
  | m + 1, [], h => by simp at h
  | m + 1, x :: a, h => by
    have ih := stableRun_left lt hirr m a (by simpa using h)
    have hm : IsStableMin lt [x :: a, []] 0 x a := by
      refine ⟨⟨rfl, fun j y q' hj => ?_⟩, fun j y q' hji _ => by omega⟩
      match j, hj with
      | 0, hj => simp at hj; rw [← hj.1]; exact hirr x
      | 1, hj => simp at hj
      | j + 2, hj => simp at hj
    simpa using StableRun.emit hm (by simpa using ih)

theorem stableRun_right (lt : α → α → Bool) (hirr : ∀ a, lt a a = false) : ∀ (m : Nat) (b : List α), m ≤ b.length →
    StableRun lt [[], b] m (b.take m) [[], b.drop m]
  | 0, b, _ => by simpa using StableRun.done [[], b]
  | m + 1, [], h => by simp at h
  | m + 1, x :: b, h => by
    have ih := stableRun_right lt hirr m b (by simpa using h)
    have hm : IsStableMin lt [[], x :: b] 1 x b := by
      refine ⟨⟨rfl, fun j y q' hj => ?_⟩, fun j y q' hji hj => ?_⟩
      · match j, hj with
        | 0, hj => simp at hj
        | 1, hj => simp at hj; rw [← hj.1]; exact hirr x
        | j + 2, hj => simp at hj
      · match j, hji, hj with
        | 0, _, hj => simp at hj
    simpa using StableRun.emit hm (by simpa using ih)

/-- the comparison loop of `merge_advance` is a stable run; it stops with `m = 0` or one side empty -/
theorem mergeLoop_run {lt : α → α → Bool} (hlt : SWO lt) : ∀ (n : Nat) (xs ys : List α),
    ∃ a b m o, mergeLoop lt n xs ys = (a, b, m, o) ∧ StableRun lt [xs, ys] (n - m) o [a, b] ∧ m ≤ n ∧
      (m = 0 ∨ a = [] ∨ b = []) ∧ a.length + b.length + (n - m) = xs.length + ys.length
  | 0, xs, ys => ⟨xs, ys, 0, [], by cases xs <;> cases ys <;> rfl, by simpa using StableRun.done [xs, ys], by omega, Or.inl rfl, by omega⟩
  | n + 1, [], ys => ⟨[], ys, n + 1, [], rfl, by simpa using StableRun.done [[], ys], by omega, Or.inr (Or.inl rfl), by simp⟩
  | n + 1, x :: xs, [] => ⟨x :: xs, [], n + 1, [], rfl, by simpa using StableRun.done [x :: xs, []], by omega, Or.inr (Or.inr rfl), by simp⟩
  | n + 1, x :: xs, y :: ys => by
    by_cases c : lt y x = true
    · obtain ⟨a, b, m, o, he, hr, hm, hz, hl⟩ := mergeLoop_run hlt n (x :: xs) ys
      refine ⟨a, b, m, y :: o, by simp [mergeLoop, c, he], ?_, by omega, hz, by simp at hl ⊢; omega⟩
      have hmin : IsStableMin lt [x :: xs, y :: ys] 1 y ys := by
        refine ⟨⟨rfl, fun j z q' hj => ?_⟩, fun j z q' hji hj => ?_⟩
        · match j, hj with
          | 0, hj => simp at hj; rw [← hj.1]; exact hlt.asymm y x c
          | 1, hj => simp at hj; rw [← hj.1]; exact hlt.irrefl y
          | j + 2, hj => simp at hj
        · match j, hji, hj with
          | 0, _, hj => simp at hj; rw [← hj.1]; exact c
      have := StableRun.emit hmin (by simpa using hr)
      rw [show n + 1 - m = n - m + 1 by omega]
      exact this
    · have c' : lt y x = false := by simpa using c
      obtain ⟨a, b, m, o, he, hr, hm, hz, hl⟩ := mergeLoop_run hlt n xs (y :: ys)
      refine ⟨a, b, m, x :: o, by simp [mergeLoop, c', he], ?_, by omega, hz, by simp at hl ⊢; omega⟩
      have hmin : IsStableMin lt [x :: xs, y :: ys] 0 x xs := by
        refine ⟨⟨rfl, fun j z q' hj => ?_⟩, fun j z q' hji _ => by omega⟩
        match j, hj with
        | 0, hj => simp at hj; rw [← hj.1]; exact hlt.irrefl x
        | 1, hj => simp at hj; rw [← hj.1]; exact c'
        | j + 2, hj => simp at hj
      have := StableRun.emit hmin (by simpa using hr)
      rw [show n + 1 - m = n - m + 1 by omega]
      exact this

/-- **merge_advance** (k = 2): for `n ≤ |xs| + |ys|` the call is defined (no read or copy beyond
an end) and performs the stable run of length `n` -/
theorem mergeAdvance_run {lt : α → α → Bool} (hlt : SWO lt) (xs ys : List α) (n : Nat)
    (hn : n ≤ xs.length + ys.length) :
    ∃ a b o, mergeAdvance lt xs ys n = some (a, b, o) ∧ StableRun lt [xs, ys] n o [a, b] := by
  obtain ⟨a, b, m, o, he, hr, hm, hz, hl⟩ := mergeLoop_run hlt n xs ys
  unfold mergeAdvance
  rw [he]
  by_cases ha : a = []
  · subst ha
    have hmb : m ≤ b.length := by simp at hl; omega
    refine ⟨[], b.drop m, o ++ b.take m, by simp [copyN, hmb], ?_⟩
    have := hr.append (stableRun_right lt hlt.irrefl m b hmb)
    rwa [show n - m + m = n by omega] at this
  · have hne : (!a.isEmpty) = true := by cases a <;> simp at ha ⊢
    have hma : m ≤ a.length := by
      rcases hz with h | h | h
      · omega
      · exact absurd h ha
      · subst h; simp at hl; omega
    have hb : b = [] ∨ m = 0 := by
      rcases hz with h | h | h
      · exact Or.inr h
      · exact absurd h ha
      · exact Or.inl h
    refine ⟨a.drop m, b, o ++ a.take m, by simp [hne, copyN, hma], ?_⟩
    rcases hb with hb | hb
    · subst hb
      have := hr.append (stableRun_left lt hlt.irrefl m a hma)
      rwa [show n - m + m = n by omega] at this
    · subst hb
      simpa using hr

end TlxVerif.C05
