import TlxVerif.Model.C20Agg
/-!
Aggregate over ℚ: closed form of the state after feeding a list of values, and the combination
formulas.  Core Lean only (`grind`'s commutative-ring / field and linear-order reasoning over `Rat`).
-/
namespace TlxVerif.C20

theorem natCast_ne_zero (n : Nat) (h : n ≠ 0) : (n : Rat) ≠ 0 := by
  intro h'
  have : ((n : Int) : Rat) = ((0 : Int) : Rat) := by simpa using h'
  have := Rat.intCast_inj.mp this
  omega

theorem natCast_succ (n : Nat) : ((n + 1 : Nat) : Rat) = (n : Rat) + 1 := by grind

theorem natCast_succ_ne_zero (n : Nat) : (n : Rat) + 1 ≠ 0 := by
  have : (0 : Rat) ≤ (n : Rat) := Rat.natCast_nonneg
  grind

/-- Σ x -/
def S1 : List Rat → Rat
  | [] => 0
  | x :: xs => x + S1 xs

/-- Σ x² -/
def S2 : List Rat → Rat
  | [] => 0
  | x :: xs => x * x + S2 xs

theorem S1_append (xs ys : List Rat) : S1 (xs ++ ys) = S1 xs + S1 ys := by
  induction xs with
  | nil => simp [S1]; grind
  | cons x xs ih => simp [S1, ih]; grind

theorem S2_append (xs ys : List Rat) : S2 (xs ++ ys) = S2 xs + S2 ys := by
  induction xs with
  | nil => simp [S2]; grind
  | cons x xs ih => simp [S2, ih]; grind

/-- arithmetic mean (0 for no values, as the default-constructed Aggregate has it) -/
def meanOf (xs : List Rat) : Rat := if xs.length = 0 then 0 else S1 xs / (xs.length : Rat)

/-- Σ x² − (Σ x)²/n, which is Σ (x − mean)² (`nvarOf_eq_sqdev`) -/
def nvarOf (xs : List Rat) : Rat :=
  if xs.length = 0 then 0 else S2 xs - S1 xs * S1 xs / (xs.length : Rat)

def minOf (L : Lim) (xs : List Rat) : Rat := xs.foldl cmin L.tmax
def maxOf (L : Lim) (xs : List Rat) : Rat := xs.foldl cmax L.tlowest

/-- the state of one Aggregate fed with `xs` -/
def closed (L : Lim) (xs : List Rat) : Agg :=
  ⟨xs.length, meanOf xs, nvarOf xs, minOf L xs, maxOf L xs⟩

/-- sum of squared deviations from `m` -/
def sqdev (m : Rat) : List Rat → Rat
  | [] => 0
  | x :: xs => (x - m) * (x - m) + sqdev m xs

theorem sqdev_expand (m : Rat) (xs : List Rat) :
    sqdev m xs = S2 xs - 2 * m * S1 xs + (xs.length : Rat) * m * m := by
  induction xs with
  | nil => simp [sqdev, S1, S2]; grind
  | cons x xs ih =>
    simp only [sqdev, S1, S2, ih, List.length_cons, natCast_succ]
    grind

/-- `nvarOf` is the textbook definition: the sum of squared deviations from the mean -/
theorem nvarOf_eq_sqdev (xs : List Rat) : nvarOf xs = sqdev (meanOf xs) xs := by
  unfold nvarOf meanOf
  by_cases h : xs.length = 0
  · have : xs = [] := List.eq_nil_of_length_eq_zero h
    subst this; simp [sqdev]
  · simp only [h, if_false]
    rw [sqdev_expand]
    have := natCast_ne_zero xs.length h
    grind

theorem add_closed (L : Lim) (pre : List Rat) (v : Rat) :
    (closed L pre).add v = some (closed L (pre ++ [v])) := by
  have hc : ((pre.length + 1 : Nat) : Rat) ≠ 0 := by rw [natCast_succ]; exact natCast_succ_ne_zero _
  simp only [Agg.add, closed, qdiv, hc, if_false, bind, Option.bind, pure]
  congr 1
  have hs1 : S1 (pre ++ [v]) = S1 pre + v := by rw [S1_append]; simp [S1]; grind
  have hs2 : S2 (pre ++ [v]) = S2 pre + v * v := by rw [S2_append]; simp [S2]; grind
  have hlen : (pre ++ [v]).length = pre.length + 1 := by simp
  have hne : ¬ (pre.length + 1 = 0) := by omega
  have h3 := natCast_succ_ne_zero pre.length
  have h2 := natCast_succ pre.length
  simp only [Agg.mk.injEq]
  refine ⟨by simp, ?_, ?_, by simp [minOf, List.foldl_append], by simp [maxOf, List.foldl_append]⟩
  · unfold meanOf
    simp only [hs1, hlen, hne, if_false]
    by_cases h0 : pre.length = 0
    · simp only [h0, if_true]
      have : pre = [] := List.eq_nil_of_length_eq_zero h0
      subst this
      simp [S1]
      grind
    · simp only [h0, if_false]
      have := natCast_ne_zero pre.length h0
      grind
  · unfold nvarOf meanOf
    simp only [hs1, hs2, hlen, hne, if_false]
    by_cases h0 : pre.length = 0
    · simp only [h0, if_true]
      have : pre = [] := List.eq_nil_of_length_eq_zero h0
      subst this
      simp [S1, S2]
      grind
    · simp only [h0, if_false]
      have := natCast_ne_zero pre.length h0
      grind

theorem closed_nil (L : Lim) : closed L [] = Agg.empty L := by
  simp [closed, Agg.empty, meanOf, nvarOf, minOf, maxOf]

theorem foldlM_add_closed (L : Lim) (pre xs : List Rat) :
    xs.foldlM Agg.add (closed L pre) = some (closed L (pre ++ xs)) := by
  induction xs generalizing pre with
  | nil => simp
  | cons x xs ih =>
    simp only [List.foldlM_cons, add_closed, Option.bind_eq_bind, Option.bind_some]
    rw [ih]; simp

/-- one Aggregate fed with `xs` never divides by zero and ends in the closed form -/
theorem aggOf_closed (L : Lim) (xs : List Rat) : aggOf L xs = some (closed L xs) := by
  unfold aggOf
  rw [← closed_nil, foldlM_add_closed]; simp


/-! ### min / max -/

theorem cmin_assoc (a b c : Rat) : cmin (cmin a b) c = cmin a (cmin b c) := by
  unfold cmin; grind
theorem cmax_assoc (a b c : Rat) : cmax (cmax a b) c = cmax a (cmax b c) := by
  unfold cmax; grind
theorem cmin_of_le {a b : Rat} (h : a ≤ b) : cmin a b = a := by unfold cmin; grind
theorem cmin_of_ge {a b : Rat} (h : b ≤ a) : cmin a b = b := by unfold cmin; grind
theorem cmax_of_le {a b : Rat} (h : b ≤ a) : cmax a b = a := by unfold cmax; grind
theorem cmax_of_ge {a b : Rat} (h : a ≤ b) : cmax a b = b := by unfold cmax; grind
theorem cmin_le_left (a b : Rat) : cmin a b ≤ a := by unfold cmin; grind
theorem le_cmax_left (a b : Rat) : a ≤ cmax a b := by unfold cmax; grind

theorem foldl_cmin_le (a : Rat) (xs : List Rat) : xs.foldl cmin a ≤ a := by
  induction xs generalizing a with
  | nil => simp
  | cons x xs ih => simp only [List.foldl_cons]; exact Rat.le_trans (ih _) (cmin_le_left a x)

theorem le_foldl_cmax (a : Rat) (xs : List Rat) : a ≤ xs.foldl cmax a := by
  induction xs generalizing a with
  | nil => simp
  | cons x xs ih => simp only [List.foldl_cons]; exact Rat.le_trans (le_cmax_left a x) (ih _)

theorem foldl_cmin_cmin (a b : Rat) (xs : List Rat) :
    xs.foldl cmin (cmin a b) = cmin a (xs.foldl cmin b) := by
  induction xs generalizing b with
  | nil => simp
  | cons x xs ih => simp only [List.foldl_cons]; rw [cmin_assoc, ih]

theorem foldl_cmax_cmax (a b : Rat) (xs : List Rat) :
    xs.foldl cmax (cmax a b) = cmax a (xs.foldl cmax b) := by
  induction xs generalizing b with
  | nil => simp
  | cons x xs ih => simp only [List.foldl_cons]; rw [cmax_assoc, ih]

/-- all values are values of the aggregated type: within its numeric limits -/
def InRange (L : Lim) (xs : List Rat) : Prop := ∀ x ∈ xs, L.tlowest ≤ x ∧ x ≤ L.tmax

theorem minOf_append (L : Lim) (xs ys : List Rat) :
    minOf L (xs ++ ys) = cmin (minOf L xs) (minOf L ys) := by
  unfold minOf
  rw [List.foldl_append]
  have h : xs.foldl cmin L.tmax = cmin (xs.foldl cmin L.tmax) L.tmax :=
    (cmin_of_le (foldl_cmin_le _ _)).symm
  rw [h, foldl_cmin_cmin, ← h]

theorem maxOf_append (L : Lim) (xs ys : List Rat) :
    maxOf L (xs ++ ys) = cmax (maxOf L xs) (maxOf L ys) := by
  unfold maxOf
  rw [List.foldl_append]
  have h : xs.foldl cmax L.tlowest = cmax (xs.foldl cmax L.tlowest) L.tlowest :=
    (cmax_of_le (le_foldl_cmax _ _)).symm
  rw [h, foldl_cmax_cmax, ← h]

/-! ### combination -/

theorem plus_closed (L : Lim) (xs ys : List Rat) :
    (closed L xs).plus (closed L ys) = some (closed L (xs ++ ys)) := by
  have hs1 := S1_append xs ys
  have hs2 := S2_append xs ys
  by_cases hx : xs.length = 0
  · have : xs = [] := List.eq_nil_of_length_eq_zero hx
    subst this
    simp only [Agg.plus, closed, combineMeans, combineVariance, List.length_nil, if_true, bind,
      Option.bind, pure, List.nil_append, Nat.zero_add]
    congr 1
    simp only [Agg.mk.injEq, true_and]
    refine ⟨?_, ?_⟩
    · simp only [minOf, List.foldl_nil]; exact cmin_of_ge (foldl_cmin_le _ _)
    · simp only [maxOf, List.foldl_nil]; exact cmax_of_ge (le_foldl_cmax _ _)
  · by_cases hy : ys.length = 0
    · have : ys = [] := List.eq_nil_of_length_eq_zero hy
      subst this
      simp only [Agg.plus, closed, combineMeans, combineVariance, List.length_nil, hx, if_true, if_false,
        bind, Option.bind, pure, List.append_nil, Nat.add_zero]
      congr 1
      simp only [Agg.mk.injEq, true_and]
      refine ⟨?_, ?_⟩
      · simp only [minOf, List.foldl_nil]; exact cmin_of_le (foldl_cmin_le _ _)
      · simp only [maxOf, List.foldl_nil]; exact cmax_of_le (le_foldl_cmax _ _)
    · have hxy : ¬ (xs.length + ys.length = 0) := by omega
      have hxyq : ((xs.length + ys.length : Nat) : Rat) ≠ 0 := natCast_ne_zero _ hxy
      have hxq := natCast_ne_zero _ hx
      have hyq := natCast_ne_zero _ hy
      have hcast : ((xs.length + ys.length : Nat) : Rat) = (xs.length : Rat) + (ys.length : Rat) := by grind
      have hmul : ((xs.length * ys.length : Nat) : Rat) = (xs.length : Rat) * (ys.length : Rat) := by grind
      simp only [Agg.plus, closed, combineMeans, combineVariance, hx, hy, if_false, qdiv, hxyq, bind,
        Option.bind, pure]
      congr 1
      simp only [Agg.mk.injEq]
      refine ⟨by simp, ?_, ?_, (minOf_append L xs ys).symm, (maxOf_append L xs ys).symm⟩
      · unfold meanOf
        simp only [hx, hy, List.length_append, hxy, if_false, hs1]
        rw [hcast] at hxyq ⊢
        grind
      · unfold nvarOf meanOf
        simp only [hx, hy, List.length_append, hxy, if_false, hs1, hs2]
        rw [hcast] at hxyq ⊢
        rw [hmul]
        grind

/-- `+=` (after the repair) computes exactly what `+` computes -/
theorem plusEq_eq_plus (t a : Agg) : t.plusEq a = t.plus a := by
  unfold Agg.plusEq Agg.plusEqWith Agg.plus
  have hm : ∀ v, combineMeans { t with nvar := v } a = combineMeans t a := fun _ => rfl
  cases hv : combineVariance t a with
  | none =>
    cases combineMeans t a <;> simp [bind, Option.bind]
  | some v =>
    simp only [bind, Option.bind, hm]
    try (cases combineMeans t a <;> simp)

/-- `x += x`: the aliased right operand is read after each member update; still the same as `x + x` -/
theorem plusEqSelf_eq_plus (t : Agg) : t.plusEqSelf = t.plus t := by
  unfold Agg.plusEqSelf Agg.plusEqWith Agg.plus
  have hm : ∀ v, combineMeans { t with nvar := v } { t with nvar := v } = combineMeans t t := fun _ => rfl
  cases hv : combineVariance t t with
  | none =>
    cases combineMeans t t <;> simp [bind, Option.bind, hv]
  | some v =>
    simp only [bind, Option.bind, id, hm, hv]
    try (cases combineMeans t t <;> simp)

end TlxVerif.C20
