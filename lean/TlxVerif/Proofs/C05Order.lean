/-
The strict total order that the iterator comparisons of the 3- and 4-way merges implement when
every test follows the index rule, and the plumbing that presents it as one of the oracles
enumerated by `tableOK`.
-/
import TlxVerif.Proofs.C05Tables
import TlxVerif.Proofs.C05Basic
namespace TlxVerif.C05
open TlxVerif.C09 (SWO)

variable {α : Type}

/-- what an iterator shows to a comparison: guarded → the head or `none` (supremum);
unguarded → `*current` (the sentinel when the real elements are used up) -/
def view (guarded : Bool) (s : Seq α) : Option α := if guarded then s.xs.head? else headU s

/-- "`i` strictly before `j`": by key, ties by index; suprema last (among themselves by descending
index, which is what `operator<` / `operator<=` of `guarded_iterator` amount to) -/
def beforeV (lt : α → α → Bool) (vi vj : Option α) (i j : Nat) : Bool :=
  match vi, vj with
  | some a, some b => lt a b || (!lt b a && decide (i < j))
  | some _, none => true
  | none, some _ => false
  | none, none => decide (j < i)

def viewAt (guarded : Bool) (seqs : List (Seq α)) (i : Nat) : Option α := (seqs[i]?).bind (view guarded)

def before (guarded : Bool) (lt : α → α → Bool) (seqs : List (Seq α)) (i j : Nat) : Bool :=
  beforeV lt (viewAt guarded seqs i) (viewAt guarded seqs j) i j

theorem beforeV_antisymm {lt : α → α → Bool} (hlt : SWO lt) (vi vj : Option α) {i j : Nat} (h : i ≠ j) :
    beforeV lt vj vi j i = !beforeV lt vi vj i j := by
  have hd : decide (j < i) = !decide (i < j) := by
    rcases Nat.lt_or_gt_of_ne h with c | c
    · have : ¬ j < i := by omega
      simp [c, this]
    · have : ¬ i < j := by omega
      simp [c, this]
  cases vi with
  | none => cases vj with
    | none => simp [beforeV, hd]
    | some b => simp [beforeV]
  | some a => cases vj with
    | none => simp [beforeV]
    | some b =>
      have a1 := hlt.asymm a b
      have a2 := hlt.asymm b a
      simp only [beforeV, hd]
      cases h1 : lt a b <;> cases h2 : lt b a <;> simp_all

theorem beforeV_trans {lt : α → α → Bool} (hlt : SWO lt) (vi vj vk : Option α) {i j k : Nat}
    (h1 : beforeV lt vi vj i j = true) (h2 : beforeV lt vj vk j k = true) : beforeV lt vi vk i k = true := by
  cases vi with
  | none => cases vj with
    | none => cases vk with
      | none => simp [beforeV] at *; omega
      | some c => simp [beforeV] at h2
    | some b => simp [beforeV] at h1
  | some a => cases vk with
    | none => simp [beforeV]
    | some c => cases vj with
      | none => simp [beforeV] at h2
      | some b =>
        have t := hlt.trans a b c
        have n1 := hlt.ntrans c b a
        have n2 := hlt.ntrans a c b
        have n3 := hlt.ntrans b a c
        simp only [beforeV, Bool.or_eq_true, Bool.and_eq_true, Bool.not_eq_true', decide_eq_true_eq] at h1 h2 ⊢
        grind

/-- an iterator comparison that follows the index rule answers `before` -/
theorem itCmp_before {lt : α → α → Bool} (hlt : SWO lt) (g : Bool) {l r : Nat} {o : Op} (sl sr : Seq α)
    (hrule : ruleOK l o r = true) (hview : g = false → (headU sl).isSome ∧ (headU sr).isSome) :
    itCmp g lt o sl sr = some (beforeV lt (view g sl) (view g sr) l r) := by
  simp only [ruleOK, Bool.and_eq_true, decide_eq_true_eq, beq_iff_eq] at hrule
  obtain ⟨hne, hop⟩ := hrule
  cases g with
  | true =>
    simp only [itCmp, view, if_true]
    cases o with
    | le =>
      have hlr : l < r := by simpa using hop
      cases hl : sl.xs with
      | nil => cases hr : sr.xs with
        | nil => simp [beforeV]; omega
        | cons b _ => simp [beforeV]
      | cons a _ => cases hr : sr.xs with
        | nil => simp [beforeV]
        | cons b _ =>
          have a2 := hlt.asymm a b
          simp only [List.head?_cons, beforeV, hlr, decide_true, Bool.and_true]
          cases h1 : lt a b <;> cases h2 : lt b a <;> simp_all
    | lt =>
      have hlr : ¬ l < r := by simpa using hop
      cases hl : sl.xs with
      | nil => cases hr : sr.xs with
        | nil => simp [beforeV]; omega
        | cons b _ => simp [beforeV]
      | cons a _ => cases hr : sr.xs with
        | nil => simp [beforeV]
        | cons b _ => simp [beforeV, hlr]
  | false =>
    obtain ⟨h1, h2⟩ := hview rfl
    simp only [itCmp, view, Bool.false_eq_true, if_false]
    cases hl : headU sl with
    | none => rw [hl] at h1; cases h1
    | some a => cases hr : headU sr with
      | none => rw [hr] at h2; cases h2
      | some b =>
        have a2 := hlt.asymm a b
        cases o with
        | le =>
          have hlr : l < r := by simpa using hop
          simp only [Option.bind_eq_bind, Option.bind_some, beforeV, hlr, decide_true, Bool.and_true]
          cases h1 : lt a b <;> cases h2 : lt b a <;> simp_all
        | lt =>
          have hlr : ¬ l < r := by simpa using hop
          simp [beforeV, hlr]

/-! ### oracles -/

theorem mem_pairs {n i j : Nat} (hij : i < j) (hj : j < n) : (i, j) ∈ pairs n := by
  simp only [pairs, List.mem_flatMap, List.mem_range, List.mem_map, List.mem_filter, decide_eq_true_eq]
  exact ⟨i, by omega, j, ⟨hj, hij⟩, rfl⟩

/-- the bits of a relation `f` on the pairs `i < j < n` -/
def upperBits (n : Nat) (f : Nat → Nat → Bool) : List Bool := (pairs n).map fun p => f p.1 p.2

theorem oracleOf_upper_lt {n : Nat} (f : Nat → Nat → Bool) {i j : Nat} (hij : i < j) (hj : j < n) :
    oracleOf n (upperBits n f) i j = f i j := by
  have hm := mem_pairs hij hj
  have hl : (pairs n).idxOf (i, j) < (pairs n).length := List.idxOf_lt_length_iff.2 hm
  simp only [oracleOf, hij, if_true, upperBits, List.getElem?_map, List.getElem?_eq_getElem hl,
    List.getElem_idxOf hl, Option.map_some, Option.getD_some]

theorem oracleOf_upper_gt {n : Nat} (f : Nat → Nat → Bool) {i j : Nat} (hji : j < i) (hi : i < n) :
    oracleOf n (upperBits n f) i j = !f j i := by
  have hm := mem_pairs hji hi
  have hl : (pairs n).idxOf (j, i) < (pairs n).length := List.idxOf_lt_length_iff.2 hm
  have : ¬ i < j := by omega
  simp only [oracleOf, this, if_false, hji, if_true, upperBits, List.getElem?_map, List.getElem?_eq_getElem hl,
    List.getElem_idxOf hl, Option.map_some, Option.getD_some]

theorem oracleOf_self (n : Nat) (bits : List Bool) (i : Nat) : oracleOf n bits i i = false := by
  simp [oracleOf]

theorem mem_allBits : ∀ (l : List Bool), l ∈ allBits l.length
  | [] => by simp [allBits]
  | b :: l => by
    simp only [List.length_cons, allBits, List.mem_flatMap]
    exact ⟨l, mem_allBits l, by cases b <;> simp⟩

/-- the oracle of the concrete order of the current heads -/
def oracleC (g : Bool) (lt : α → α → Bool) (seqs : List (Seq α)) (n : Nat) : Nat → Nat → Bool :=
  oracleOf n (upperBits n (before g lt seqs))

theorem oracleC_eq {lt : α → α → Bool} (hlt : SWO lt) (g : Bool) (seqs : List (Seq α)) {n i j : Nat}
    (hi : i < n) (hj : j < n) (hne : i ≠ j) : oracleC g lt seqs n i j = before g lt seqs i j := by
  unfold oracleC
  rcases Nat.lt_or_gt_of_ne hne with h | h
  · exact oracleOf_upper_lt _ h hj
  · rw [oracleOf_upper_gt _ h hi]
    exact (beforeV_antisymm hlt _ _ (Nat.ne_of_lt h)).symm

theorem oracleC_mem (g : Bool) (lt : α → α → Bool) (seqs : List (Seq α)) (n : Nat) :
    upperBits n (before g lt seqs) ∈ allBits (pairs n).length := by
  have := mem_allBits (upperBits n (before g lt seqs))
  simpa [upperBits] using this

theorem oracleC_trans {lt : α → α → Bool} (hlt : SWO lt) (g : Bool) (seqs : List (Seq α)) (n : Nat) :
    isTransO n (oracleC g lt seqs n) = true := by
  simp only [isTransO, List.all_eq_true, List.mem_range, Bool.or_eq_true, Bool.not_eq_true',
    Bool.and_eq_false_iff]
  intro i hi j hj k hk
  by_cases hij : i = j
  · subst hij; left; left; exact oracleOf_self _ _ _
  by_cases hjk : j = k
  · subst hjk; left; right; exact oracleOf_self _ _ _
  by_cases hik : i = k
  · subst hik
    rw [oracleC_eq hlt g seqs hi hj hij, oracleC_eq hlt g seqs hj hi hjk]
    unfold before
    rw [beforeV_antisymm hlt _ _ hij]
    cases beforeV lt (viewAt g seqs i) (viewAt g seqs j) i j <;> simp
  · rw [oracleC_eq hlt g seqs hi hj hij, oracleC_eq hlt g seqs hj hk hjk, oracleC_eq hlt g seqs hi hk hik]
    cases h1 : before g lt seqs i j with
    | false => left; left; rfl
    | true => cases h2 : before g lt seqs j k with
      | false => left; right; rfl
      | true => right; exact beforeV_trans hlt _ _ _ h1 h2

end TlxVerif.C05
