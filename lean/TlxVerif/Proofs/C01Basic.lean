/-
C01/C02 — basic lemmas: strict weak orders, sorted lists, lower/upper bound indices,
`find_lower`/`find_upper`: the binary search computes what the linear search computes.
-/
import TlxVerif.Model.C01Tree
namespace TlxVerif.C01

variable {K V : Type}

/-! ### binary search = linear search on monotone predicates -/

/-- once `stop` holds at a slot it holds at all later slots -/
def Mono (stop : K → Bool) (keys : List K) : Prop :=
  ∀ (i j : Nat) (hi : i < keys.length) (hj : j < keys.length), i ≤ j → stop keys[i] = true → stop keys[j] = true

theorem binLoop_eq_findIdx (stop : K → Bool) (keys : List K) (hm : Mono stop keys) :
    ∀ (fuel lo hi : Nat), lo ≤ hi → hi ≤ keys.length → hi - lo < fuel →
      (∀ (j : Nat) (hj : j < keys.length), j < lo → stop keys[j] = false) →
      (∀ (h : hi < keys.length), stop keys[hi] = true) →
      binLoop stop keys fuel lo hi = keys.findIdx stop := by
  intro fuel
  induction fuel with
  | zero => intro lo hi _ _ h; omega
  | succ fuel ih =>
    intro lo hi hle hlen hfuel hlo hhi
    unfold binLoop
    by_cases hlt : lo < hi
    · simp only [hlt, if_true]
      have hmid : (lo + hi) / 2 < keys.length := by omega
      have hmid1 : lo ≤ (lo + hi) / 2 := by omega
      have hmid2 : (lo + hi) / 2 < hi := by omega
      rw [List.getElem?_eq_getElem hmid]
      simp only
      by_cases hs : stop keys[(lo + hi) / 2] = true
      · simp only [hs, if_true]
        apply ih lo ((lo + hi) / 2) hmid1 (by omega) (by omega) hlo
        intro _; exact hs
      · simp only [hs]
        apply ih ((lo + hi) / 2 + 1) hi (by omega) hlen (by omega)
        · intro j hj hjlt
          cases hsj : stop keys[j] with
          | false => rfl
          | true =>
            exfalso
            exact hs (hm j ((lo + hi) / 2) hj hmid (by omega) hsj)
        · exact hhi
    · simp only [hlt, if_false]
      have heq : lo = hi := by omega
      subst heq
      by_cases hl : lo < keys.length
      · symm
        rw [List.findIdx_eq hl]
        exact ⟨hhi hl, fun j hji => hlo j (by omega) hji⟩
      · have : lo = keys.length := by omega
        subst this
        symm
        rw [List.findIdx_eq_length]
        intro x hx
        obtain ⟨j, hj, rfl⟩ := List.getElem_of_mem hx
        exact hlo j hj hj

/-- `find_lower`/`find_upper`: the binary loop of a node returns the slot of the linear loop -/
theorem binIdx_eq_linIdx (stop : K → Bool) (keys : List K) (hm : Mono stop keys) :
    binIdx stop keys = linIdx stop keys := by
  unfold binIdx linIdx
  by_cases h0 : keys.length = 0
  · simp only [h0, if_true]
    have : keys = [] := List.eq_nil_of_length_eq_zero h0
    subst this; rfl
  · simp only [h0, if_false]
    apply binLoop_eq_findIdx stop keys hm
    · omega
    · omega
    · omega
    · intro j _ hj; omega
    · intro h; omega

/-! ### strict weak orders -/

/-- the hypotheses on `key_less_`: a strict weak order -/
structure StrictWeak (lt : K → K → Bool) : Prop where
  irrefl : ∀ a, lt a a = false
  trans : ∀ a b c, lt a b = true → lt b c = true → lt a c = true
  /-- negative transitivity: `a ≤ b → b ≤ c → a ≤ c` for `x ≤ y := ¬ y < x` -/
  le_trans : ∀ a b c, lt b a = false → lt c b = false → lt c a = false

namespace StrictWeak
variable {lt : K → K → Bool} (sw : StrictWeak lt)
include sw

theorem asymm {a b : K} (h : lt a b = true) : lt b a = false := by
  cases hb : lt b a with
  | false => rfl
  | true => have := sw.trans a b a h hb; rw [sw.irrefl] at this; cases this

/-- `a < b → b ≤ c → a < c` -/
theorem lt_of_lt_of_le {a b c : K} (h1 : lt a b = true) (h2 : lt c b = false) : lt a c = true := by
  cases h : lt a c with
  | true => rfl
  | false => have := sw.le_trans b c a h2 h; rw [h1] at this; cases this

/-- `a ≤ b → b < c → a < c` -/
theorem lt_of_le_of_lt {a b c : K} (h1 : lt b a = false) (h2 : lt b c = true) : lt a c = true := by
  cases h : lt a c with
  | true => rfl
  | false => have := sw.le_trans c a b h h1; rw [h2] at this; cases this

theorem le_of_lt {a b : K} (h : lt a b = true) : lt b a = false := sw.asymm h

end StrictWeak

/-- keys are in non-decreasing order: no later key is less than an earlier one -/
def SortedK (lt : K → K → Bool) (ks : List K) : Prop := ks.Pairwise (fun a b => lt b a = false)

theorem mono_lower {lt : K → K → Bool} (sw : StrictWeak lt) {ks : List K} (hs : SortedK lt ks) (k : K) :
    Mono (fun x => !lt x k) ks := by
  intro i j hi hj hij h
  simp only [Bool.not_eq_true'] at h ⊢
  by_cases heq : i = j
  · subst heq; exact h
  · have hp := List.pairwise_iff_getElem.mp hs i j hi hj (by omega)
    -- keys[i] ≤ keys[j], ¬ keys[i] < k  ⇒ ¬ keys[j] < k
    cases hjk : lt ks[j] k with
    | false => rfl
    | true => have := sw.lt_of_le_of_lt hp hjk; rw [h] at this; cases this

theorem mono_upper {lt : K → K → Bool} (sw : StrictWeak lt) {ks : List K} (hs : SortedK lt ks) (k : K) :
    Mono (fun x => lt k x) ks := by
  intro i j hi hj hij h
  by_cases heq : i = j
  · subst heq; exact h
  · have hp := List.pairwise_iff_getElem.mp hs i j hi hj (by omega)
    exact sw.lt_of_lt_of_le h hp

/-- `find_lower`: on a node with ordered keys both search strategies return the same slot:
the first slot whose key is not less than `k` -/
theorem findLower_eq_lin (p : Params K) (sw : StrictWeak p.lt) (ks : List K) (hs : SortedK p.lt ks) (k : K) :
    findLower p ks k = linIdx (fun x => !p.lt x k) ks := by
  unfold findLower
  split
  · have : (fun x => p.le k x) = (fun x => !p.lt x k) := by funext x; simp [Params.le]
    rw [this]
    exact binIdx_eq_linIdx _ ks (mono_lower sw hs k)
  · rfl

/-- `find_upper`: likewise, the first slot whose key is greater than `k` -/
theorem findUpper_eq_lin (p : Params K) (sw : StrictWeak p.lt) (ks : List K) (hs : SortedK p.lt ks) (k : K) :
    findUpper p ks k = linIdx (fun x => p.lt k x) ks := by
  unfold findUpper
  split
  · exact binIdx_eq_linIdx _ ks (mono_upper sw hs k)
  · have : (fun x => !p.le x k) = (fun x => p.lt k x) := by funext x; simp [Params.le]
    rw [this]

end TlxVerif.C01
