/-
C08 — facts about components of the executable model that are modelled by their specification:
`roundUpPow2` really is the least power of two ≥ n, and `sortBy (lcomp lt)` (insertion sort standing in for
`std::sort` on (value, sequence) pairs) yields THE sorted permutation: on pairs with distinct sequence
numbers `lcomp` is a strict total order, so every correct sorting algorithm returns the same arrangement.
-/
import TlxVerif.Model.C08Msp
import TlxVerif.Proofs.C08Exists
namespace TlxVerif.C08

theorem roundUpPow2_go_spec (n : Nat) : ∀ (fuel p k : Nat), p = 2 ^ k → p < 2 * n → n ≤ p * 2 ^ fuel →
    ∃ k', roundUpPow2.go n fuel p = 2 ^ k' ∧ n ≤ 2 ^ k' ∧ 2 ^ k' < 2 * n
  | 0, p, k, hp, h2, hn => ⟨k, by simp [roundUpPow2.go, hp], by simpa [hp] using hn, by omega⟩
  | fuel + 1, p, k, hp, h2, hn => by
    unfold roundUpPow2.go
    by_cases h : n ≤ p
    · rw [if_pos h]; exact ⟨k, hp, by omega, by omega⟩
    · rw [if_neg h]
      exact roundUpPow2_go_spec n fuel (2 * p) (k + 1) (by rw [hp, Nat.pow_succ]; omega) (by omega)
        (by rw [Nat.pow_succ] at hn; rw [Nat.mul_comm 2 p, Nat.mul_assoc, Nat.mul_comm 2]; exact hn)

/-- the modelled `round_up_to_power_of_two`: the least power of two ≥ n (n ≥ 1) -/
theorem roundUpPow2_spec (n : Nat) (hn : 1 ≤ n) : ∃ k, roundUpPow2 n = 2 ^ k ∧ n ≤ 2 ^ k ∧ 2 ^ k < 2 * n := by
  unfold roundUpPow2
  exact roundUpPow2_go_spec n n 1 0 rfl (by omega) (by have := @Nat.lt_two_pow_self n; omega)

theorem lcomp_iff_before (lt : Int → Int → Bool) (p q : Sample) :
    lcomp lt p q = true ↔ Before lt p.1 p.2 q.1 q.2 := by
  unfold lcomp Before
  cases h1 : lt p.1 q.1 <;> cases h2 : lt q.1 p.1 <;> simp

theorem insertBy_perm (less : Sample → Sample → Bool) (x : Sample) : ∀ ys, (insertBy less x ys).Perm (x :: ys)
  | [] => List.Perm.refl _
  | y :: ys => by
    unfold insertBy
    split
    · exact List.Perm.refl _
    · exact ((insertBy_perm less x ys).cons y).trans (List.Perm.swap x y ys)

theorem sortBy_perm (less : Sample → Sample → Bool) : ∀ l, (sortBy less l).Perm l
  | [] => List.Perm.refl _
  | x :: l => by
    show (insertBy less x (sortBy less l)).Perm (x :: l)
    exact (insertBy_perm less x _).trans ((sortBy_perm less l).cons x)

theorem insertBy_sorted {lt : Int → Int → Bool} (hlt : StrictWeak lt) (x : Sample) :
    ∀ ys, ys.Pairwise (fun p q => lcomp lt p q = true) → (∀ y ∈ ys, x.2 ≠ y.2) →
      (insertBy (lcomp lt) x ys).Pairwise (fun p q => lcomp lt p q = true)
  | [], _, _ => List.pairwise_singleton _ _
  | y :: ys, hs, hd => by
    have hy := List.pairwise_cons.mp hs
    unfold insertBy
    split
    · rename_i hxy
      refine List.pairwise_cons.mpr ⟨?_, hs⟩
      intro z hz
      rcases List.mem_cons.mp hz with hz | hz
      · subst hz; exact hxy
      · exact (lcomp_iff_before lt _ _).mpr
          (Before.trans hlt ((lcomp_iff_before lt _ _).mp hxy) ((lcomp_iff_before lt _ _).mp (hy.1 z hz)))
    · rename_i hxy
      have hyx : lcomp lt y x = true := by
        rcases Before.total lt x.1 y.1 (hd y List.mem_cons_self) with h | h
        · exact absurd ((lcomp_iff_before lt _ _).mpr h) hxy
        · exact (lcomp_iff_before lt _ _).mpr h
      refine List.pairwise_cons.mpr ⟨?_, insertBy_sorted hlt x ys hy.2 (fun z hz => hd z (List.mem_cons_of_mem _ hz))⟩
      intro z hz
      rcases List.mem_cons.mp ((insertBy_perm _ x ys).subset hz) with hz | hz
      · subst hz; exact hyx
      · exact hy.1 z hz

/-- **std::sort on (value, sequence) pairs is determined**: the model's insertion sort returns a sorted
permutation, and any sorted permutation equals it (distinct sequence numbers). -/
theorem sortBy_lcomp_spec {lt : Int → Int → Bool} (hlt : StrictWeak lt) :
    ∀ (l : List Sample), (l.map (·.2)).Nodup →
      (sortBy (lcomp lt) l).Perm l ∧ (sortBy (lcomp lt) l).Pairwise (fun p q => lcomp lt p q = true) ∧
      ∀ l' : List Sample, l'.Perm l → l'.Pairwise (fun p q => lcomp lt p q = true) → l' = sortBy (lcomp lt) l := by
  intro l hnd
  have hsorted : ∀ (l : List Sample), (l.map (·.2)).Nodup →
      (sortBy (lcomp lt) l).Pairwise (fun p q => lcomp lt p q = true) := by
    intro l
    induction l with
    | nil => intro _; exact List.Pairwise.nil
    | cons x l ih =>
      intro hnd
      have hnd' : x.2 ∉ l.map (·.2) ∧ (l.map (·.2)).Nodup := by
        rw [List.map_cons] at hnd; exact List.nodup_cons.mp hnd
      show (insertBy (lcomp lt) x (sortBy (lcomp lt) l)).Pairwise _
      refine insertBy_sorted hlt x _ (ih hnd'.2) ?_
      intro y hy heq
      have hyl : y ∈ l := (sortBy_perm _ l).subset hy
      exact hnd'.1 (List.mem_map.mpr ⟨y, hyl, heq.symm⟩)
  refine ⟨sortBy_perm _ l, hsorted l hnd, ?_⟩
  intro l' hp hs'
  refine List.Perm.eq_of_pairwise ?_ hs' (hsorted l hnd) (hp.trans (sortBy_perm _ l).symm)
  intro a b _ _ hab hba
  exact (Before.asymm hlt ((lcomp_iff_before lt _ _).mp hab) ((lcomp_iff_before lt _ _).mp hba)).elim

end TlxVerif.C08
