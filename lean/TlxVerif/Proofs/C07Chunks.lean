/-
C07/C06 — chunks: splitting every run at an offset vector, nested offset vectors, and the theorem that
the concatenation of the merges of consecutive chunk rows is the merge of the prefix (`concat_chunks`).
-/
import TlxVerif.Proofs.C07Merge
namespace TlxVerif.C07
open TlxVerif.C08 (StrictWeak)

/-- left parts `run_i[0, o_i)` -/
def takes (runs : List (List Elem)) (offs : List Nat) : List (List Elem) :=
  List.zipWith (fun r o => r.take o) runs offs

/-- right parts `run_i[o_i, len_i)` -/
def drops (runs : List (List Elem)) (offs : List Nat) : List (List Elem) :=
  List.zipWith (fun r o => r.drop o) runs offs

theorem takes_length {runs : List (List Elem)} {offs : List Nat} (h : offs.length = runs.length) :
    (takes runs offs).length = runs.length := by simp [takes, h]

theorem takes_drops_perm : ∀ (runs : List (List Elem)) (offs : List Nat), offs.length = runs.length →
    ((takes runs offs).flatten ++ (drops runs offs).flatten).Perm runs.flatten
  | [], [], _ => by simp [takes, drops]
  | [], _ :: _, h => by simp at h
  | _ :: _, [], h => by simp at h
  | r :: rs, o :: os, h => by
    have ih := takes_drops_perm rs os (by simpa using h)
    simp only [takes, drops, List.zipWith_cons_cons, List.flatten_cons] at ih ⊢
    -- (A ++ T) ++ (B ++ D) ~ (A ++ B) ++ (T ++ D)
    have h1 : (List.take o r ++ (List.zipWith (fun r o => List.take o r) rs os).flatten ++
        (List.drop o r ++ (List.zipWith (fun r o => List.drop o r) rs os).flatten)).Perm
        (List.take o r ++ List.drop o r ++ ((List.zipWith (fun r o => List.take o r) rs os).flatten ++
          (List.zipWith (fun r o => List.drop o r) rs os).flatten)) := by
      simp only [List.append_assoc]
      apply List.Perm.append_left
      rw [← List.append_assoc, ← List.append_assoc]
      exact List.Perm.append_right _ List.perm_append_comm
    refine h1.trans ?_
    rw [List.take_append_drop]
    exact List.Perm.append_left _ ih

theorem takes_flatten_sublist : ∀ (runs : List (List Elem)) (offs : List Nat),
    (takes runs offs).flatten.Sublist runs.flatten
  | [], _ => by simp [takes]
  | _ :: _, [] => by simp [takes]
  | r :: rs, o :: os => by
    simp only [takes, List.zipWith_cons_cons, List.flatten_cons]
    exact List.Sublist.append (List.take_sublist _ _) (takes_flatten_sublist rs os)

theorem drops_flatten_sublist : ∀ (runs : List (List Elem)) (offs : List Nat),
    (drops runs offs).flatten.Sublist runs.flatten
  | [], _ => by simp [drops]
  | _ :: _, [] => by simp [drops]
  | r :: rs, o :: os => by
    simp only [drops, List.zipWith_cons_cons, List.flatten_cons]
    exact List.Sublist.append (List.drop_sublist _ _) (drops_flatten_sublist rs os)

/-- pointwise `≤` of two offset vectors of equal length -/
def LeAll : List Nat → List Nat → Prop
  | [], [] => True
  | a :: as, b :: bs => a ≤ b ∧ LeAll as bs
  | _, _ => False

theorem LeAll.length_eq : ∀ {a b : List Nat}, LeAll a b → a.length = b.length
  | [], [], _ => rfl
  | _ :: _, _ :: _, h => by simp [LeAll.length_eq h.2]
  | [], _ :: _, h => h.elim
  | _ :: _, [], h => h.elim

theorem leAll_of_index : ∀ {a b : List Nat}, a.length = b.length →
    (∀ (i x y : Nat), a[i]? = some x → b[i]? = some y → x ≤ y) → LeAll a b
  | [], [], _, _ => trivial
  | [], _ :: _, h, _ => by simp at h
  | _ :: _, [], h, _ => by simp at h
  | x :: a, y :: b, hl, h =>
    ⟨h 0 x y rfl rfl, leAll_of_index (by simpa using hl)
      (fun i u v hu hv => h (i + 1) u v (by simpa using hu) (by simpa using hv))⟩

theorem takes_takes : ∀ (runs : List (List Elem)) (prev o : List Nat), LeAll prev o →
    takes (takes runs o) prev = takes runs prev
  | [], _, _, _ => by simp [takes]
  | _ :: _, [], [], _ => by simp [takes]
  | _ :: _, [], _ :: _, h => h.elim
  | _ :: _, _ :: _, [], h => h.elim
  | r :: rs, a :: prev, b :: o, h => by
    have ih := takes_takes rs prev o h.2
    simp only [takes, List.zipWith_cons_cons] at ih ⊢
    rw [ih, List.take_take, Nat.min_eq_left h.1]

/-- every left element is before every right element in (key, tag) order -/
def CrossOrdered (lt : Int → Int → Bool) (tl : Elem → Elem → Prop) (runs : List (List Elem)) (o : List Nat) : Prop :=
  ∀ x ∈ (takes runs o).flatten, ∀ y ∈ (drops runs o).flatten, Tlt lt tl x y

/-- the rows of chunks between consecutive offset vectors: `row_t[i] = run_i[o_t[i], o_{t+1}[i])` -/
def chunkRows (runs : List (List Elem)) : List Nat → List (List Nat) → List (List (List Elem))
  | _, [] => []
  | prev, o :: os => drops (takes runs o) prev :: chunkRows runs o os

/-- consecutive offset vectors are nested -/
def Chain : List Nat → List (List Nat) → Prop
  | _, [] => True
  | prev, o :: os => LeAll prev o ∧ Chain o os

/-- the last offset vector (or `prev` if there is none) -/
def lastOffs : List Nat → List (List Nat) → List Nat
  | prev, [] => prev
  | _, o :: os => lastOffs o os

/-- one step: the merge of the prefix at `o` is the merge of the prefix at `prev` followed by the merge
of the chunk row between them -/
theorem merge_step {lt : Int → Int → Bool} {tl : Elem → Elem → Prop} (hlt : StrictWeak lt) (htl : TagOrder tl)
    {runs : List (List Elem)} (hc : runs.flatten.Pairwise (Cond lt tl)) {prev o : List Nat}
    (hle : LeAll prev o) (hlen : o.length = runs.length) (hx : CrossOrdered lt tl runs prev) :
    sortStable lt (takes runs o).flatten =
      sortStable lt (takes runs prev).flatten ++ sortStable lt (drops (takes runs o) prev).flatten := by
  have hsub : (takes runs o).flatten.Pairwise (Cond lt tl) :=
    List.Pairwise.sublist (takes_flatten_sublist runs o) hc
  have hplen : prev.length = (takes runs o).length := by rw [takes_length hlen, hle.length_eq, hlen]
  have hperm := takes_drops_perm (takes runs o) prev hplen
  rw [takes_takes runs prev o hle] at hperm
  refine sortStable_split hlt htl hsub
    (List.Pairwise.sublist (takes_flatten_sublist runs prev) hc)
    (List.Pairwise.sublist (drops_flatten_sublist _ prev) hsub) hperm ?_
  intro x hxm y hym
  refine hx x hxm y ?_
  -- a chunk element is a right element at `prev`
  clear hperm hsub hx hxm hplen hc
  induction runs generalizing prev o with
  | nil => simp [takes, drops] at hym
  | cons r rs ih =>
    cases prev with
    | nil => simp [drops] at hym
    | cons a prev =>
      cases o with
      | nil => simp [takes, drops] at hym
      | cons b o =>
        simp only [takes, drops, List.zipWith_cons_cons, List.flatten_cons, List.mem_append] at hym ⊢
        rcases hym with hym | hym
        · left
          rw [List.mem_drop_iff_getElem] at hym ⊢
          obtain ⟨i, hi, rfl⟩ := hym
          simp only [List.length_take] at hi
          exact ⟨i, by omega, by simp [List.getElem_take]⟩
        · right
          exact ih hle.2 (by simpa using hlen) hym

/-- **Concatenation theorem** (abstract form): for nested offset vectors that are all cross-ordered, the
merge of the prefix at the last vector is the merge of the prefix at the first one followed by the merges
of the chunk rows, in order. -/
theorem concat_chunks {lt : Int → Int → Bool} {tl : Elem → Elem → Prop} (hlt : StrictWeak lt) (htl : TagOrder tl)
    {runs : List (List Elem)} (hc : runs.flatten.Pairwise (Cond lt tl)) :
    ∀ (os : List (List Nat)) (prev : List Nat), Chain prev os → CrossOrdered lt tl runs prev →
      (∀ o ∈ os, o.length = runs.length ∧ CrossOrdered lt tl runs o) →
      sortStable lt (takes runs (lastOffs prev os)).flatten =
        sortStable lt (takes runs prev).flatten ++
          ((chunkRows runs prev os).map (fun row => sortStable lt row.flatten)).flatten
  | [], prev, _, _, _ => by simp [lastOffs, chunkRows]
  | o :: os, prev, hch, hx, hall => by
    have ho := hall o (List.mem_cons_self)
    have ih := concat_chunks hlt htl hc os o hch.2 ho.2 (fun o' ho' => hall o' (List.mem_cons_of_mem _ ho'))
    simp only [lastOffs, chunkRows, List.map_cons, List.flatten_cons]
    rw [ih, merge_step hlt htl hc hch.1 ho.1 hx, List.append_assoc]

end TlxVerif.C07
