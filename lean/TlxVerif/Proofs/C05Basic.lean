/-
Glue between the model's `Seq` and the list-of-lists runs of `C05Spec.lean`.
-/
import TlxVerif.Model.C05Merge
import TlxVerif.Proofs.C05Spec
namespace TlxVerif.C05
open TlxVerif.C09 (SWO)

variable {α : Type}

/-- the remaining real elements of every sequence -/
def xsOf (seqs : List (Seq α)) : List (List α) := seqs.map (·.xs)
/-- what is stored behind every sequence -/
def guardsOf (seqs : List (Seq α)) : List (Option α) := seqs.map (·.guard)

/-- a stable run for `stable = true`, a minimal-head run otherwise -/
def Run (stable : Bool) (lt : α → α → Bool) (a : List (List α)) (n : Nat) (o : List α) (b : List (List α)) : Prop :=
  if stable then StableRun lt a n o b else MinRun lt a n o b

def IsMinS (stable : Bool) (lt : α → α → Bool) (seqs : List (List α)) (i : Nat) (x : α) (q : List α) : Prop :=
  IsMin lt seqs i x q ∧ (stable = true →
    ∀ (j : Nat) (y : α) (q' : List α), j < i → seqs[j]? = some (y :: q') → lt x y = true)

theorem Run.done (stable : Bool) (lt : α → α → Bool) (s : List (List α)) : Run stable lt s 0 [] s := by
  unfold Run; split
  · exact StableRun.done s
  · exact MinRun.done s

theorem Run.emit {stable : Bool} {lt : α → α → Bool} {seqs fin : List (List α)} {i n : Nat} {x : α} {q out : List α}
    (hm : IsMinS stable lt seqs i x q) (hr : Run stable lt (seqs.set i q) n out fin) :
    Run stable lt seqs (n + 1) (x :: out) fin := by
  unfold Run at hr ⊢
  cases stable with
  | true => exact StableRun.emit ⟨hm.1, hm.2 rfl⟩ hr
  | false => exact MinRun.emit hm.1 hr

theorem Run.minRun {stable : Bool} {lt : α → α → Bool} {a b : List (List α)} {n : Nat} {o : List α}
    (h : Run stable lt a n o b) : MinRun lt a n o b := by
  unfold Run at h
  cases stable with
  | true => exact StableRun.minRun h
  | false => exact h

theorem Run.append {stable : Bool} {lt : α → α → Bool} {s1 s2 s3 : List (List α)} {n m : Nat} {o1 o2 : List α}
    (h1 : Run stable lt s1 n o1 s2) (h2 : Run stable lt s2 m o2 s3) : Run stable lt s1 (n + m) (o1 ++ o2) s3 := by
  unfold Run at *
  cases stable with
  | true => exact StableRun.append h1 h2
  | false => exact MinRun.append h1 h2

theorem totalSize_eq (seqs : List (Seq α)) : totalSize seqs = (xsOf seqs).flatten.length := by
  simp [totalSize, xsOf, List.length_flatten, List.map_map, Function.comp_def]

theorem takeFrom_spec {seqs : List (Seq α)} {w : Nat} {x : α} {q : List α}
    (h : (xsOf seqs)[w]? = some (x :: q)) :
    ∃ seqs', takeFrom seqs w = some (x, seqs') ∧ xsOf seqs' = (xsOf seqs).set w q ∧
      guardsOf seqs' = guardsOf seqs := by
  simp only [xsOf, List.getElem?_map] at h
  cases hs : seqs[w]? with
  | none => rw [hs] at h; cases h
  | some s =>
    rw [hs] at h
    simp only [Option.map_some, Option.some.injEq] at h
    refine ⟨seqs.set w { s with xs := q }, by simp [takeFrom, hs, h], ?_, ?_⟩
    · simp [xsOf, List.map_set]
    · have hwl : w < seqs.length := by
        by_cases c : w < seqs.length
        · exact c
        · rw [List.getElem?_eq_none (by omega)] at hs; cases hs
      have : seqs[w] = s := by rw [List.getElem?_eq_getElem hwl] at hs; exact Option.some.inj hs
      simp only [guardsOf, List.map_set]
      apply List.ext_getElem?
      intro j
      by_cases c : w = j
      · subst c; simp [hwl, this]
      · simp [List.getElem?_set_ne c]

end TlxVerif.C05
