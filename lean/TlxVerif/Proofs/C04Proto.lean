/-
C04 — helper definitions and lemmas for the protocol invariants (Props/C04.lean).
Counting functions over all pending instructions, the per-task `covered` predicate, the
inductive invariant `Inv` of the fixed configuration and its preservation.
-/
import TlxVerif.Model.C04Proto
namespace TlxVerif.C04.Proto

/-! ### counting pending instructions -/

def allInstrs (s : State) : List Instr := s.tasks.flatten

def isRef (id : Nat) (i : Instr) : Bool := i.subj == id
def isTok (id : Nat) : Instr → Bool
  | .notify j => j == id
  | .newChild j _ _ => j == id
  | _ => false
def isPend (id : Nat) : Instr → Bool
  | .enq j _ => j == id
  | .decPwork j _ => j == id
  | _ => false
def isStart (id : Nat) : Instr → Bool
  | .startLoop j _ => j == id
  | _ => false
def isIncrH (id : Nat) : Instr → Bool
  | .incrH j _ => j == id
  | _ => false
/-- the spawn loop of the owner and its pending increments -/
def isOwn (id : Nat) : Instr → Bool
  | .loop j => j == id
  | .incrC j _ _ => j == id
  | _ => false
def isDel (id : Nat) : Instr → Bool
  | .del j => j == id
  | _ => false
def isRpn (id : Nat) : Instr → Bool
  | .rpn j => j == id
  | _ => false
/-- instructions that only occur once the anonymous handle exists -/
def isPostI (id : Nat) : Instr → Bool
  | .incrC j _ _ | .loop j | .notify j | .newChild j _ _ | .rpn j | .del j => j == id
  | _ => false

/-- instructions after which the object is still referenced by somebody else or that end its life -/
def keepAlive : Instr → Bool
  | .enq _ _ | .decPwork _ _ | .startLoop _ _ | .incrH _ _ | .notify _ | .newChild _ _ _ | .del _ => true
  | _ => false

/-- every instruction that is not a `keepAlive` one is followed, in its task, by a later
instruction on the same object -/
def covered : List Instr → Bool
  | [] => true
  | i :: rest => (keepAlive i || rest.any (fun j => j.subj == i.subj)) && covered rest

/-- number of pending instructions with property `q` -/
def NT (q : Instr → Bool) (tasks : List (List Instr)) : Nat := tasks.flatten.countP q
def N (q : Instr → Bool) (s : State) : Nat := NT q s.tasks
def owedTo (id : Nat) (s : State) : Nat := s.owed.countP (fun p => p.2 == id)

/-- popping the executed instruction, pushing a block, adding tasks -/
theorem NT_pop (q : Instr → Bool) (pre post : List (List Instr)) (i : Instr) (rest : List Instr) :
    NT q (pre ++ (i :: rest) :: post) = NT q (pre ++ rest :: post) + (if q i then 1 else 0) := by
  simp only [NT, List.flatten_append, List.flatten_cons, List.countP_append, List.countP_cons]
  omega

theorem NT_push (q : Instr → Bool) (pre post nt : List (List Instr)) (blk rest : List Instr) :
    NT q (pre ++ (blk ++ rest) :: post ++ nt) = NT q (pre ++ rest :: post) + blk.countP q + nt.flatten.countP q := by
  simp only [NT, List.flatten_append, List.flatten_cons, List.countP_append]
  omega

theorem NT_append (q : Instr → Bool) (a b : List (List Instr)) : NT q (a ++ b) = NT q a + NT q b := by
  simp [NT, List.flatten_append, List.countP_append]

theorem NT_cons (q : Instr → Bool) (t : List Instr) (ts : List (List Instr)) :
    NT q (t :: ts) = t.countP q + NT q ts := by
  simp [NT, List.countP_append]

theorem NT_nil (q : Instr → Bool) : NT q [] = 0 := rfl

theorem NT_pos_iff (q : Instr → Bool) (tasks : List (List Instr)) :
    0 < NT q tasks ↔ ∃ t ∈ tasks, ∃ i ∈ t, q i = true := by
  unfold NT
  rw [List.countP_pos_iff]
  constructor
  · rintro ⟨i, hi, hq⟩
    obtain ⟨t, ht, hit⟩ := List.mem_flatten.1 hi
    exact ⟨t, ht, i, hit, hq⟩
  · rintro ⟨t, ht, i, hi, hq⟩
    exact ⟨i, List.mem_flatten.2 ⟨t, ht, hi⟩, hq⟩

theorem covered_tail {i : Instr} {rest : List Instr} (h : covered (i :: rest) = true) : covered rest = true := by
  simp [covered] at h; exact h.2

/-- a covered task that mentions an object also holds a keep-alive instruction for it -/
theorem covered_keepAlive {t : List Instr} (h : covered t = true) {id : Nat}
    (hr : ∃ i ∈ t, i.subj = id) : ∃ j ∈ t, j.subj = id ∧ keepAlive j = true := by
  induction t with
  | nil => simp at hr
  | cons a rest ih =>
    simp only [covered, Bool.and_eq_true, Bool.or_eq_true, List.any_eq_true, beq_iff_eq] at h
    obtain ⟨i, hi, hs⟩ := hr
    by_cases hrest : ∃ i ∈ rest, i.subj = id
    · obtain ⟨j, hj, h1, h2⟩ := ih h.2 hrest
      exact ⟨j, List.mem_cons_of_mem _ hj, h1, h2⟩
    · -- `a` is the last instruction on `id`
      have ha : a.subj = id := by
        rcases List.mem_cons.1 hi with rfl | hi'
        · exact hs
        · exact absurd ⟨i, hi', hs⟩ hrest
      rcases h.1 with hk | ⟨j, hj, hjs⟩
      · exact ⟨a, List.mem_cons_self, ha, hk⟩
      · exact absurd ⟨j, hj, hjs.trans ha⟩ hrest

theorem covered_append {b rest : List Instr} (hr : covered rest = true)
    (hb : ∀ (pre : List Instr) (i : Instr) (suf : List Instr), b = pre ++ i :: suf →
      keepAlive i = true ∨ (∃ j ∈ suf, j.subj = i.subj) ∨ (∃ j ∈ rest, j.subj = i.subj)) :
    covered (b ++ rest) = true := by
  induction b with
  | nil => simpa using hr
  | cons a b ih =>
    simp only [List.cons_append, covered, Bool.and_eq_true, Bool.or_eq_true, List.any_eq_true, beq_iff_eq,
      List.mem_append]
    refine ⟨?_, ih ?_⟩
    · rcases hb [] a b rfl with h | ⟨j, hj, h⟩ | ⟨j, hj, h⟩
      · exact Or.inl h
      · exact Or.inr ⟨j, Or.inl hj, h⟩
      · exact Or.inr ⟨j, Or.inr hj, h⟩
    · intro pre i suf h
      exact hb (a :: pre) i suf (by simp [h])

/-! ### object table -/

theorem aliveAt_iff {objs : List Obj} {id : Nat} :
    aliveAt objs id = true ↔ ∃ o, objs[id]? = some o ∧ o.alive = true := by
  unfold aliveAt; cases h : objs[id]? <;> simp

theorem modObj_length (objs : List Obj) (id : Nat) (f : Obj → Obj) : (modObj objs id f).length = objs.length := by
  unfold modObj; cases objs[id]? <;> simp

theorem modObj_get (objs : List Obj) (id j : Nat) (f : Obj → Obj) :
    (modObj objs id f)[j]? = if j = id then (objs[id]?).map f else objs[j]? := by
  unfold modObj
  cases h : objs[id]? with
  | none => by_cases hj : j = id <;> simp [hj, h]
  | some o =>
    by_cases hj : j = id
    · subst hj
      have : j < objs.length := by
        rcases Nat.lt_or_ge j objs.length with h' | h'
        · exact h'
        · simp [List.getElem?_eq_none h'] at h
      simp [List.getElem?_set, this, h]
    · simp [List.getElem?_set, hj, Ne.symm hj]

/-! ### the invariant of the fixed configuration -/

/-- numbers of pending instructions on one object, by kind -/
structure Counts where
  tok : Nat      -- notify / newChild
  pend : Nat     -- enq / decPwork
  start : Nat    -- startLoop
  incrH : Nat
  own : Nat      -- loop / incrC
  del : Nat
  rpn : Nat
  ref : Nat      -- any instruction on the object
  postI : Nat    -- instructions that only exist once the handle was taken

def countsOf (tasks : List (List Instr)) (j : Nat) : Counts :=
  { tok := NT (isTok j) tasks, pend := NT (isPend j) tasks, start := NT (isStart j) tasks,
    incrH := NT (isIncrH j) tasks, own := NT (isOwn j) tasks, del := NT (isDel j) tasks,
    rpn := NT (isRpn j) tasks, ref := NT (isRef j) tasks, postI := NT (isPostI j) tasks }

/-- the part of the invariant that speaks about one live object: its fields `o`, the
pending instructions `c` on it, the number `w` of children that still owe it a notification,
and whether its own notification to its parent is still owed (`inOwed`) -/
def LocalP (o : Obj) (c : Counts) (w : Nat) (inOwed : Prop) : Prop :=
  o.cnt = c.tok + w ∧
  ((0 < c.postI ∨ 0 < w) → o.post = true) ∧
  (c.start ≤ 1 ∧ (c.start = 1 → o.pwork = 0 ∧ c.pend = 0) ∧ (c.start = 0 → o.pwork = c.pend)) ∧
  (c.incrH ≤ 1 ∧ (0 < c.incrH → c.pend = 0 ∧ c.start = 0 ∧ o.post = false)) ∧
  (o.post = true → c.pend = 0 ∧ c.start = 0) ∧
  (o.post = true → o.cnt = 0 → c.own = 0 ∧ c.del = 1) ∧
  (0 < c.del → o.post = true ∧ o.cnt = 0) ∧
  ((c.del = 0 ∨ 0 < c.rpn) → inOwed) ∧
  c.rpn ≤ c.del ∧
  (0 < c.ref ∨ 0 < w) ∧
  1 ≤ o.parts

def owesParent (owed : List (Nat × Nat)) (j : Nat) (o : Obj) : Prop :=
  ∀ p, o.parent = some p → (j, p) ∈ owed

structure Inv (s : State) : Prop where
  err : s.err = none
  refsAlive : ∀ t ∈ s.tasks, ∀ i ∈ t, aliveAt s.objs i.subj = true
  owedOk : ∀ c p, (c, p) ∈ s.owed → aliveAt s.objs c = true ∧ aliveAt s.objs p = true ∧ p < c ∧
    ∃ o, s.objs[c]? = some o ∧ o.parent = some p
  owedNodup : s.owed.Nodup
  cov : ∀ t ∈ s.tasks, covered t = true
  owedRpn : ∀ c p, (c, p) ∈ s.owed → 0 < N (isDel c) s → 0 < N (isRpn c) s
  loc : ∀ (j : Nat) (o : Obj), s.objs[j]? = some o → o.alive = true →
    LocalP o (countsOf s.tasks j) (owedTo j s) (owesParent s.owed j o)

/-- if no pending instruction keeps `id` alive, then (all tasks being covered) nothing refers to it -/
theorem noRefs_of_noKeep {tasks : List (List Instr)} (hc : ∀ t ∈ tasks, covered t = true) {id : Nat}
    (h : NT (fun i => isRef id i && keepAlive i) tasks = 0) : NT (isRef id) tasks = 0 := by
  rcases Nat.eq_zero_or_pos (NT (isRef id) tasks) with h0 | hpos
  · exact h0
  · obtain ⟨t, ht, i, hi, hq⟩ := (NT_pos_iff _ _).1 hpos
    obtain ⟨j, hj, hjs, hjk⟩ := covered_keepAlive (hc t ht) ⟨i, hi, by simpa [isRef] using hq⟩
    have : 0 < NT (fun i => isRef id i && keepAlive i) tasks :=
      (NT_pos_iff _ _).2 ⟨t, ht, j, hj, by simp [isRef, hjs, hjk]⟩
    omega

/-- the keep-alive instructions on `id` are exactly the pending part jobs and loops, the
handle increment, the tokens and `delete` -/
theorem noKeep_of_counts {tasks : List (List Instr)} {id : Nat}
    (h1 : NT (isPend id) tasks = 0) (h2 : NT (isStart id) tasks = 0) (h3 : NT (isIncrH id) tasks = 0)
    (h4 : NT (isTok id) tasks = 0) (h5 : NT (isDel id) tasks = 0) :
    NT (fun i => isRef id i && keepAlive i) tasks = 0 := by
  rcases Nat.eq_zero_or_pos (NT (fun i => isRef id i && keepAlive i) tasks) with h0 | hpos
  · exact h0
  · obtain ⟨t, ht, i, hi, hq⟩ := (NT_pos_iff _ _).1 hpos
    have pos : ∀ q : Instr → Bool, q i = true → 0 < NT q tasks := fun q hqi => (NT_pos_iff _ _).2 ⟨t, ht, i, hi, hqi⟩
    cases i <;> simp [isRef, keepAlive, Instr.subj] at hq
    · have := pos (isStart id) (by simp [isStart, hq]); omega
    · have := pos (isPend id) (by simp [isPend, hq]); omega
    · have := pos (isPend id) (by simp [isPend, hq]); omega
    · have := pos (isIncrH id) (by simp [isIncrH, hq]); omega
    · have := pos (isTok id) (by simp [isTok, hq]); omega
    · have := pos (isTok id) (by simp [isTok, hq]); omega
    · have := pos (isDel id) (by simp [isDel, hq]); omega

theorem NT_mono {p q : Instr → Bool} (h : ∀ i, p i = true → q i = true) (tasks : List (List Instr)) :
    NT p tasks ≤ NT q tasks := by
  unfold NT
  exact List.countP_mono_left (fun i _ => h i)

theorem pend_ref (id : Nat) (i : Instr) : isPend id i = true → isRef id i = true := by
  cases i <;> simp [isPend, isRef, Instr.subj]
theorem tok_ref (id : Nat) (i : Instr) : isTok id i = true → isRef id i = true := by
  cases i <;> simp [isTok, isRef, Instr.subj]

theorem own_ref (id : Nat) (i : Instr) : isOwn id i = true → isRef id i = true := by
  cases i <;> simp [isOwn, isRef, Instr.subj]
theorem rpn_ref (id : Nat) (i : Instr) : isRpn id i = true → isRef id i = true := by
  cases i <;> simp [isRpn, isRef, Instr.subj]
theorem postI_ref (id : Nat) (i : Instr) : isPostI id i = true → isRef id i = true := by
  cases i <;> simp [isPostI, isRef, Instr.subj]

theorem start_ref (id : Nat) (i : Instr) : isStart id i = true → isRef id i = true := by
  cases i <;> simp [isStart, isRef, Instr.subj]
theorem incrH_ref (id : Nat) (i : Instr) : isIncrH id i = true → isRef id i = true := by
  cases i <;> simp [isIncrH, isRef, Instr.subj]
theorem del_ref (id : Nat) (i : Instr) : isDel id i = true → isRef id i = true := by
  cases i <;> simp [isDel, isRef, Instr.subj]
theorem ref_subj (id : Nat) (i : Instr) : isRef id i = true → i.subj = id := by
  simp [isRef]

/-- a predicate that only holds for references to `id` counts nothing when nothing refers to `id` -/
theorem NT_zero_of_noRefs {tasks : List (List Instr)} {id : Nat} (h : NT (isRef id) tasks = 0)
    (q : Instr → Bool) (hq : ∀ i, q i = true → isRef id i = true) : NT q tasks = 0 := by
  rcases Nat.eq_zero_or_pos (NT q tasks) with h0 | hpos
  · exact h0
  · obtain ⟨t, ht, i, hi, hqi⟩ := (NT_pos_iff _ _).1 hpos
    have : 0 < NT (isRef id) tasks := (NT_pos_iff _ _).2 ⟨t, ht, i, hi, hq i hqi⟩
    omega

end TlxVerif.C04.Proto
