/-
C07 — from the C08 specification (`IsPartition` of the key runs) to cross-ordered, nested chunk rows,
and the exact-splitting theorem: the concatenation of the per-thread merges is the prefix of the k-merge.
-/
import TlxVerif.Proofs.C07Chunks
namespace TlxVerif.C07
open TlxVerif.C08 (StrictWeak IsPartition Before partition_mono)

/-- tag order of the merge: (sequence, position) -/
def tagLt (a b : Elem) : Prop := a.seq < b.seq ∨ (a.seq = b.seq ∧ a.pos < b.pos)

theorem tagOrder_tagLt : TagOrder tagLt :=
  ⟨by intro a b c h1 h2; unfold tagLt at *; omega, by intro a b h1 h2; unfold tagLt at *; omega⟩

/-- the runs are given in sequence order and every run in position order -/
def WellTagged (runs : List (List Elem)) : Prop := runs.flatten.Pairwise tagLt

/-- every run is sorted by key -/
def KeySorted (lt : Int → Int → Bool) (runs : List (List Elem)) : Prop :=
  ∀ r ∈ runs, r.Pairwise (fun a b => lt b.key a.key = false)

def keyRuns (runs : List (List Elem)) : List (List Int) := runs.map (fun r => r.map (·.key))

theorem cond_of_wellTagged {lt : Int → Int → Bool} {runs : List (List Elem)} (h : WellTagged runs) :
    runs.flatten.Pairwise (Cond lt tagLt) :=
  List.Pairwise.imp (fun hab _ _ => hab) h

/-- what the concatenation theorems need of the runs, for an arbitrary tag order `tl`:
inside a run keys never decrease and equivalent keys stand in tag order; across runs the tags increase -/
structure GoodRuns (lt : Int → Int → Bool) (tl : Elem → Elem → Prop) (runs : List (List Elem)) : Prop where
  inner : ∀ r ∈ runs, r.Pairwise (fun a b => lt b.key a.key = false ∧ Cond lt tl a b)
  cross : runs.Pairwise (fun r₁ r₂ => ∀ x ∈ r₁, ∀ y ∈ r₂, tl x y)

theorem GoodRuns.cond {lt : Int → Int → Bool} {tl : Elem → Elem → Prop} {runs : List (List Elem)}
    (h : GoodRuns lt tl runs) : runs.flatten.Pairwise (Cond lt tl) := by
  rw [List.pairwise_flatten]
  refine ⟨fun r hr => List.Pairwise.imp (fun hab => hab.2) (h.inner r hr), ?_⟩
  exact List.Pairwise.imp (fun hab x hx y hy _ _ => hab x hx y hy) h.cross

theorem goodRuns_of_wellTagged {lt : Int → Int → Bool} {runs : List (List Elem)} (hw : WellTagged runs)
    (hk : KeySorted lt runs) : GoodRuns lt tagLt runs := by
  have hw' := List.pairwise_flatten.mp hw
  refine ⟨?_, hw'.2⟩
  intro r hr
  have h1 := hk r hr
  have h2 := hw'.1 r hr
  exact List.Pairwise.and h1 (List.Pairwise.imp (fun hab _ _ => hab) h2)

theorem mem_takes_flatten : ∀ {runs : List (List Elem)} {offs : List Nat} {x : Elem},
    x ∈ (takes runs offs).flatten → ∃ (i : Nat) (r : List Elem) (o : Nat), runs[i]? = some r ∧ offs[i]? = some o ∧ x ∈ r.take o
  | [], _, _, h => by simp [takes] at h
  | _ :: _, [], _, h => by simp [takes] at h
  | r :: rs, o :: os, x, h => by
    simp only [takes, List.zipWith_cons_cons, List.flatten_cons, List.mem_append] at h
    rcases h with h | h
    · exact ⟨0, r, o, rfl, rfl, h⟩
    · obtain ⟨i, r', o', h1, h2, h3⟩ := mem_takes_flatten (runs := rs) (offs := os) h
      exact ⟨i + 1, r', o', by simpa using h1, by simpa using h2, h3⟩

theorem mem_drops_flatten : ∀ {runs : List (List Elem)} {offs : List Nat} {x : Elem},
    x ∈ (drops runs offs).flatten → ∃ (i : Nat) (r : List Elem) (o : Nat), runs[i]? = some r ∧ offs[i]? = some o ∧ x ∈ r.drop o
  | [], _, _, h => by simp [drops] at h
  | _ :: _, [], _, h => by simp [drops] at h
  | r :: rs, o :: os, x, h => by
    simp only [drops, List.zipWith_cons_cons, List.flatten_cons, List.mem_append] at h
    rcases h with h | h
    · exact ⟨0, r, o, rfl, rfl, h⟩
    · obtain ⟨i, r', o', h1, h2, h3⟩ := mem_drops_flatten (runs := rs) (offs := os) h
      exact ⟨i + 1, r', o', by simpa using h1, by simpa using h2, h3⟩

theorem takes_flatten_length : ∀ (runs : List (List Elem)) (offs : List Nat),
    (∀ (i : Nat) (r : List Elem) (o : Nat), runs[i]? = some r → offs[i]? = some o → o ≤ r.length) →
    offs.length = runs.length → (takes runs offs).flatten.length = offs.sum
  | [], [], _, _ => by simp [takes]
  | [], _ :: _, _, h => by simp at h
  | _ :: _, [], _, h => by simp at h
  | r :: rs, o :: os, hb, hl => by
    have h0 := hb 0 r o rfl rfl
    have ih := takes_flatten_length rs os
      (fun i r' o' h1 h2 => hb (i + 1) r' o' (by simpa using h1) (by simpa using h2)) (by simpa using hl)
    simp only [takes, List.zipWith_cons_cons, List.flatten_cons, List.length_append, List.length_take,
      List.sum_cons] at ih ⊢
    rw [ih]; omega

/-- elements of different runs: the one from the earlier run has the smaller tag -/
theorem tl_of_index_lt {lt : Int → Int → Bool} {tl : Elem → Elem → Prop} {runs : List (List Elem)}
    (hg : GoodRuns lt tl runs) {i j : Nat} {ri rj : List Elem}
    (hi : runs[i]? = some ri) (hj : runs[j]? = some rj) (hij : i < j) {x y : Elem} (hx : x ∈ ri) (hy : y ∈ rj) :
    tl x y := by
  have hp := hg.cross
  rw [List.pairwise_iff_getElem] at hp
  have hil := (List.getElem?_eq_some_iff.mp hi)
  have hjl := (List.getElem?_eq_some_iff.mp hj)
  exact hp i j hil.1 hjl.1 hij x (by rw [hil.2]; exact hx) y (by rw [hjl.2]; exact hy)

/-- **The C08 specification makes the split cross-ordered.** -/
theorem crossOrdered_of_partition {lt : Int → Int → Bool} {tl : Elem → Elem → Prop} {runs : List (List Elem)}
    (hg : GoodRuns lt tl runs) {rank : Nat} {offs : List Nat} (hp : IsPartition lt (keyRuns runs) rank offs) :
    CrossOrdered lt tl runs offs := by
  intro x hx y hy
  obtain ⟨i, ri, oi, hri, hoi, hxi⟩ := mem_takes_flatten hx
  obtain ⟨j, rj, oj, hrj, hoj, hyj⟩ := mem_drops_flatten hy
  by_cases hij : i = j
  · subst hij
    rw [hri] at hrj; cases hrj
    rw [hoi] at hoj; cases hoj
    -- same run: x stands before y
    have hmem : ri ∈ runs := List.mem_of_getElem? hri
    have hin := hg.inner ri hmem
    rw [← List.take_append_drop oi ri] at hin
    have h1 := (List.pairwise_append.mp hin).2.2 x hxi y hyj
    cases hxy : lt x.key y.key with
    | true => exact Or.inl hxy
    | false => exact Or.inr ⟨h1.1, h1.2 hxy h1.1⟩
  · have hki : (keyRuns runs)[i]? = some (ri.map (·.key)) := by simp [keyRuns, hri]
    have hkj : (keyRuns runs)[j]? = some (rj.map (·.key)) := by simp [keyRuns, hrj]
    have hb := hp.ordered i j _ _ oi oj hij hki hkj hoi hoj x.key
      (by rw [← List.map_take]; exact List.mem_map_of_mem hxi) y.key
      (by rw [← List.map_drop]; exact List.mem_map_of_mem hyj)
    rcases hb with hb | ⟨hb, hlt⟩
    · exact Or.inl hb
    · exact Or.inr ⟨hb, tl_of_index_lt hg hri hrj hlt ((List.take_sublist _ _).subset hxi)
        ((List.drop_sublist _ _).subset hyj)⟩

/-- partitions at non-decreasing ranks form a chain of nested offset vectors -/
theorem chain_of_partitions {lt : Int → Int → Bool} (hlt : StrictWeak lt) {kr : List (List Int)} :
    ∀ (ps : List (Nat × List Nat)) (r0 : Nat) (prev : List Nat), IsPartition lt kr r0 prev →
      (r0 :: ps.map (·.1)).Pairwise (· ≤ ·) → (∀ p ∈ ps, IsPartition lt kr p.1 p.2) →
      Chain prev (ps.map (·.2))
  | [], _, _, _, _, _ => trivial
  | p :: ps, r0, prev, h0, hm, hall => by
    have hp := hall p (List.mem_cons_self)
    have hm' := List.pairwise_cons.mp hm
    refine ⟨leAll_of_index (by rw [h0.len, hp.len]) (partition_mono hlt h0 hp (hm'.1 p.1 (by simp))), ?_⟩
    exact chain_of_partitions hlt ps p.1 p.2 hp (by simpa using hm'.2)
      (fun q hq => hall q (List.mem_cons_of_mem _ hq))

theorem isPartition_zero (lt : Int → Int → Bool) (kr : List (List Int)) :
    IsPartition lt kr 0 (List.replicate kr.length 0) := by
  refine ⟨by simp, ?_, by simp, ?_⟩
  · intro i r o _ ho
    have := (List.getElem?_eq_some_iff.mp ho).2
    simp at this; omega
  · intro i j ri rj oi oj _ _ _ hoi _ x hx
    have := (List.getElem?_eq_some_iff.mp hoi).2
    simp at this; subst this; simp at hx

theorem takes_zero_flatten : ∀ (runs : List (List Elem)) (n : Nat), (takes runs (List.replicate n 0)).flatten = []
  | [], _ => by simp [takes]
  | _ :: _, 0 => by simp [takes]
  | r :: rs, n + 1 => by
    have ih := takes_zero_flatten rs n
    simp only [takes, List.replicate_succ, List.zipWith_cons_cons, List.flatten_cons, List.take_zero,
      List.nil_append] at ih ⊢
    exact ih

def lastRank : Nat → List (Nat × List Nat) → Nat
  | r0, [] => r0
  | _, p :: ps => lastRank p.1 ps

theorem lastOffs_isPartition {lt : Int → Int → Bool} {kr : List (List Int)} :
    ∀ (ps : List (Nat × List Nat)) (r0 : Nat) (prev : List Nat), IsPartition lt kr r0 prev →
      (∀ p ∈ ps, IsPartition lt kr p.1 p.2) → IsPartition lt kr (lastRank r0 ps) (lastOffs prev (ps.map (·.2)))
  | [], _, _, h0, _ => h0
  | p :: ps, _, _, _, hall =>
    lastOffs_isPartition ps p.1 p.2 (hall p List.mem_cons_self) (fun q hq => hall q (List.mem_cons_of_mem _ hq))

/-- **Exact splitting theorem.**  `ps` lists, per thread, the rank and the offset vector that ends the
thread's chunks (thread t merges `run_i[o_{t-1}[i], o_t[i])`, `o_{-1} = 0`).  If every offset vector
satisfies the C08 specification at its rank and the ranks are non-decreasing, then the concatenation of
the per-thread stable merges, in thread order, is exactly the first `rank_last` elements of the stable
k-merge of the whole input. -/
theorem exact_concat_eq_take_kMerge {lt : Int → Int → Bool} {tl : Elem → Elem → Prop} (hlt : StrictWeak lt)
    (htl : TagOrder tl) {runs : List (List Elem)} (hg : GoodRuns lt tl runs) (ps : List (Nat × List Nat))
    (hm : (0 :: ps.map (·.1)).Pairwise (· ≤ ·)) (hall : ∀ p ∈ ps, IsPartition lt (keyRuns runs) p.1 p.2) :
    ((chunkRows runs (List.replicate runs.length 0) (ps.map (·.2))).map (fun row => kMerge lt row)).flatten =
      (kMerge lt runs).take (lastRank 0 ps) := by
  have hc : runs.flatten.Pairwise (Cond lt tl) := hg.cond
  have hkl : (keyRuns runs).length = runs.length := by simp [keyRuns]
  have hz : IsPartition lt (keyRuns runs) 0 (List.replicate runs.length 0) := by
    have := isPartition_zero lt (keyRuns runs); rwa [hkl] at this
  have hchain := chain_of_partitions hlt ps 0 _ hz hm hall
  have hcc := concat_chunks hlt htl hc (ps.map (·.2)) (List.replicate runs.length 0) hchain
    (crossOrdered_of_partition hg hz)
    (by
      intro o ho
      obtain ⟨p, hp, rfl⟩ := List.mem_map.mp ho
      exact ⟨by rw [(hall p hp).len, hkl], crossOrdered_of_partition hg (hall p hp)⟩)
  rw [takes_zero_flatten] at hcc
  simp only [sortStable, List.foldr_nil, List.nil_append] at hcc
  -- the whole merge splits at the last offset vector
  have hlast := lastOffs_isPartition ps 0 _ hz hall
  have hlen : (lastOffs (List.replicate runs.length 0) (ps.map (·.2))).length = runs.length := by
    rw [hlast.len, hkl]
  have hsplit := sortStable_split hlt htl hc
    (List.Pairwise.sublist (takes_flatten_sublist runs _) hc)
    (List.Pairwise.sublist (drops_flatten_sublist runs _) hc)
    (takes_drops_perm runs _ hlen) (crossOrdered_of_partition hg hlast)
  have hcount : (takes runs (lastOffs (List.replicate runs.length 0) (ps.map (·.2)))).flatten.length = lastRank 0 ps := by
    rw [takes_flatten_length runs _ ?_ hlen, hlast.sum]
    intro i r o hr ho
    have := hlast.bound i (r.map (·.key)) o (by simp [keyRuns, hr]) ho
    simpa using this
  show ((chunkRows runs _ _).map (fun row => sortStable lt row.flatten)).flatten = (sortStable lt runs.flatten).take _
  rw [hsplit, ← hcount, ← sortStable_length lt, List.take_left']
  · exact hcc.symm
  · rfl

end TlxVerif.C07
