/-
C01/C02 — clear, copy construction, assignment: on the model these are identities / constants on the
entry sequence; they preserve the invariant and their ledgers are the node counts.
-/
import TlxVerif.Model.C01Tree
import TlxVerif.Proofs.C01Main
namespace TlxVerif.C01

variable {K V : Type}

theorem flatten_ne_nil_top (p : Params K) (pv : p.Valid) (h : Nat) (n : BNode K V) (hs : ShapeTop p 1 1 h n) :
    flatten h n ≠ [] := by
  cases h with
  | zero =>
    cases n with
    | leaf es =>
      simp only [ShapeTop] at hs
      simp only [flatten]
      intro he; subst he; simp at hs
    | inner l ks kids => simp [ShapeTop] at hs
  | succ h =>
    cases n with
    | leaf es => simp [ShapeTop] at hs
    | inner l ks kids =>
      simp only [ShapeTop] at hs
      obtain ⟨_, hk, _, _, hkids⟩ := hs
      simp only [flatten]
      cases kids with
      | nil => simp at hk
      | cons c cs =>
        have := flatten_ne_nil p pv h c (hkids c List.mem_cons_self)
        simp only [List.flatMap_cons]
        intro he
        exact this (List.append_eq_nil_iff.mp he).1

/-- under the invariant the tree has a root iff it is non-empty -/
theorem size_pos_iff_root (p : Params K) (pv : p.Valid) (t : Tree K V) (ht : TreeInv p t) :
    (t.stats.size > 0 ↔ t.root ≠ none) ∧ (t.root = none → t.stats.size = 0) := by
  obtain ⟨hs, _, _⟩ := ht
  unfold TreeShape at hs
  cases hroot : t.root with
  | none => rw [hroot] at hs; simp [hs]
  | some r =>
    rw [hroot] at hs
    have := flatten_ne_nil_top p pv r.level r hs.1
    have hl : (flatten r.level r).length > 0 := List.length_pos_iff.mpr this
    simp only [ne_eq, reduceCtorEq, not_false_eq_true, iff_true, false_implies, and_true]
    omega

/-- copy construction: same entry sequence, invariant kept, allocates exactly the nodes of the source -/
theorem copyCtor_spec (p : Params K) (pv : p.Valid) (o : Tree K V) (ho : TreeInv p o) :
    TreeInv p (copyCtor o).1 ∧ (copyCtor o).1.toList = o.toList ∧
    (copyCtor o).2.leafAlloc = o.nLeaves ∧ (copyCtor o).2.innerAlloc = o.nInner ∧
    (copyCtor o).2.leafFree = 0 ∧ (copyCtor o).2.innerFree = 0 := by
  have hsz := size_pos_iff_root p pv o ho
  obtain ⟨hs, hsort, hsep⟩ := ho
  unfold copyCtor
  cases hroot : o.root with
  | none =>
    have h0 : o.stats.size = 0 := hsz.2 hroot
    have hst : o.stats = {} := by unfold TreeShape at hs; rw [hroot] at hs; exact hs
    simp only [h0, Nat.lt_irrefl, if_false]
    refine ⟨⟨?_, ?_, ?_⟩, ?_, ?_, ?_, ?_, ?_⟩ <;> simp [TreeShape, Tree.toList, Tree.nLeaves, Tree.nInner, hroot, hst, SortedE]
  | some r =>
    have hp : o.stats.size > 0 := hsz.1.mpr (by rw [hroot]; simp)
    simp only [hp, if_true]
    unfold TreeShape at hs
    rw [hroot] at hs hsep
    refine ⟨⟨?_, ?_, ?_⟩, ?_, ?_, ?_, ?_, ?_⟩
    · simp only [TreeShape, Tree.nLeaves, Tree.nInner, hroot]
      exact ⟨hs.1, trivial, trivial, hs.2.2.2⟩
    · simpa [Tree.toList, hroot] using hsort
    · exact hsep
    · simp [Tree.toList, hroot]
    all_goals first | rfl | trivial

/-- `operator=` (for `this != &other`): the target gets the source's entry sequence; everything the
target held is freed, the nodes of the source are allocated -/
theorem assign_spec (p : Params K) (pv : p.Valid) (t o : Tree K V) (ht : TreeInv p t) (ho : TreeInv p o) :
    TreeInv p (assign t o).1 ∧ (assign t o).1.toList = o.toList ∧
    (assign t o).2.leafFree = t.nLeaves ∧ (assign t o).2.innerFree = t.nInner ∧
    (assign t o).2.leafAlloc = o.nLeaves ∧ (assign t o).2.innerAlloc = o.nInner := by
  have hsz := size_pos_iff_root p pv o ho
  obtain ⟨hs, hsort, hsep⟩ := ho
  have hclear : (clear t).2.leafFree = t.nLeaves ∧ (clear t).2.innerFree = t.nInner ∧
      (clear t).2.leafAlloc = 0 ∧ (clear t).2.innerAlloc = 0 ∧ (clear t).1.root = none ∧ (clear t).1.stats = {} := by
    unfold clear
    cases hroot : t.root with
    | none =>
      have hst : t.stats = {} := by have := ht.1; unfold TreeShape at this; rw [hroot] at this; exact this
      simp [Tree.nLeaves, Tree.nInner, hroot, hst]
    | some r => simp
  unfold assign
  obtain ⟨c1, c2, c3, c4, c5, c6⟩ := hclear
  generalize hcl : clear t = ct at c1 c2 c3 c4 c5 c6
  obtain ⟨t1, l1⟩ := ct
  simp only at c1 c2 c3 c4 c5 c6 ⊢
  cases hroot : o.root with
  | none =>
    have h0 : o.stats.size = 0 := hsz.2 hroot
    have hst : o.stats = {} := by unfold TreeShape at hs; rw [hroot] at hs; exact hs
    simp only [h0, ne_eq, not_true_eq_false, if_false]
    refine ⟨⟨?_, ?_, ?_⟩, ?_, c1, c2, ?_, ?_⟩
    · simp [TreeShape, c5, c6]
    · simp [Tree.toList, c5, SortedE]
    · simp [c5]
    · simp [Tree.toList, c5, hroot]
    · simp [c3, Tree.nLeaves, hroot]
    · simp [c4, Tree.nInner, hroot]
  | some r =>
    have hp : o.stats.size ≠ 0 := by have := hsz.1.mpr (by rw [hroot]; simp); omega
    simp only [hp, ne_eq, not_false_eq_true, if_true]
    unfold TreeShape at hs
    rw [hroot] at hs hsep
    refine ⟨⟨?_, ?_, ?_⟩, ?_, ?_, ?_, ?_, ?_⟩
    · simp only [TreeShape]; exact hs
    · simpa [Tree.toList, hroot] using hsort
    · exact hsep
    · simp [Tree.toList, hroot]
    · simp [Ledger.add, c1]
    · simp [Ledger.add, c2]
    · simp [Ledger.add, c3]
    · simp [Ledger.add, c4]

end TlxVerif.C01
