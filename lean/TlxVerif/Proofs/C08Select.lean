/-
C08 — specification of multisequence_selection and its derivation from any (weak) partition:
the minimum of the right heads is an element at the requested rank of the merged order, and
Σ (o_i − lower_bound_i) is its offset among the equivalent elements — independent of the tie-breaking.
-/
import TlxVerif.Proofs.C08Exists
namespace TlxVerif.C08

variable {α : Type}

/-- number of elements strictly less than `v` -/
def countLess (lt : α → α → Bool) (runs : List (List α)) (v : α) : Nat :=
  (runs.map (fun r => r.countP (fun x => lt x v))).sum

/-- number of elements not greater than `v` -/
def countLeq (lt : α → α → Bool) (runs : List (List α)) (v : α) : Nat :=
  (runs.map (fun r => r.countP (fun x => !lt v x))).sum

/-- `v` is (equivalent to) the element at 0-based rank `rank` of the merged order, and `off` is the rank
of that position inside the block of elements equivalent to `v` -/
structure IsSelection (lt : α → α → Bool) (runs : List (List α)) (rank : Nat) (v : α) (off : Nat) : Prop where
  lo : countLess lt runs v ≤ rank
  hi : rank < countLeq lt runs v
  off_eq : off = rank - countLess lt runs v

/-- a split with Σ = rank where no left element is greater than a right element (no rule for ties) -/
structure WeakPartition (lt : α → α → Bool) (runs : List (List α)) (rank : Nat) (offs : List Nat) : Prop where
  len : offs.length = runs.length
  bound : ∀ (i : Nat) (r : List α) (o : Nat), runs[i]? = some r → offs[i]? = some o → o ≤ r.length
  sum : offs.sum = rank
  ordered : ∀ (i j : Nat) (ri rj : List α) (oi oj : Nat), i ≠ j → runs[i]? = some ri → runs[j]? = some rj →
      offs[i]? = some oi → offs[j]? = some oj → ∀ x ∈ ri.take oi, ∀ y ∈ rj.drop oj, lt y x = false

theorem IsPartition.weak {lt : α → α → Bool} (hlt : StrictWeak lt) {runs : List (List α)} {rank : Nat}
    {offs : List Nat} (h : IsPartition lt runs rank offs) : WeakPartition lt runs rank offs :=
  ⟨h.len, h.bound, h.sum, fun i j ri rj oi oj hij hri hrj hoi hoj x hx y hy => by
    rcases h.ordered i j ri rj oi oj hij hri hrj hoi hoj x hx y hy with hb | ⟨hb, _⟩
    · exact hlt.asymm _ _ hb
    · exact hb⟩

/-- on a sorted run the elements less than `v` form a prefix: `lower_bound` counts them -/
theorem countP_lt_eq_takeWhile {lt : α → α → Bool} (hlt : StrictWeak lt) (v : α) :
    ∀ {r : List α}, SortedRun lt r → r.countP (fun x => lt x v) = (r.takeWhile (fun x => lt x v)).length
  | [], _ => rfl
  | a :: r, hs => by
    have hs' := List.pairwise_cons.mp hs
    cases hav : lt a v with
    | true =>
      simp only [List.countP_cons, hav, if_true, List.takeWhile_cons, List.length_cons]
      rw [countP_lt_eq_takeWhile hlt v hs'.2]
    | false =>
      simp only [List.countP_cons, hav, Bool.false_eq_true, if_false, List.takeWhile_cons, List.length_nil,
        Nat.add_zero]
      rw [List.countP_eq_zero]
      intro y hy
      have : lt y v = false := hlt.le_trans hav (hs'.1 y hy)
      simp [this]

/-- per-run bookkeeping of the selection argument, summed over all runs by induction -/
theorem selection_sums {lt : α → α → Bool} (v : α) :
    ∀ (runs : List (List α)) (offs : List Nat), offs.length = runs.length →
      (∀ (i : Nat) (r : List α) (o : Nat), runs[i]? = some r → offs[i]? = some o →
        o ≤ r.length ∧ (∀ y ∈ r.drop o, lt y v = false) ∧ (∀ x ∈ r.take o, lt v x = false)) →
      countLess lt runs v ≤ offs.sum ∧ offs.sum ≤ countLeq lt runs v ∧
      (List.zipWith (fun r o => o - r.countP (fun x => lt x v)) runs offs).sum = offs.sum - countLess lt runs v ∧
      (∀ (j : Nat) (r : List α) (o : Nat), runs[j]? = some r → offs[j]? = some o → v ∈ r.drop o →
        lt v v = false → offs.sum < countLeq lt runs v)
  | [], [], _, _ => by simp [countLess, countLeq]
  | [], _ :: _, h, _ => by simp at h
  | _ :: _, [], h, _ => by simp at h
  | r :: rs, o :: os, hl, hall => by
    obtain ⟨ho, hdrop, htake⟩ := hall 0 r o rfl rfl
    obtain ⟨ih1, ih2, ih3, ih4⟩ := selection_sums v rs os (by simpa using hl)
      (fun i r' o' h1 h2 => hall (i + 1) r' o' (by simpa using h1) (by simpa using h2))
    -- this run: countP(<v) = countP(<v) on the left part ≤ o ; countP(≤v) ≥ o
    have hsplit1 : r.countP (fun x => lt x v) = (r.take o).countP (fun x => lt x v) := by
      have e : r.countP (fun x => lt x v) = (r.take o ++ r.drop o).countP (fun x => lt x v) := by
        rw [List.take_append_drop]
      have hz : (r.drop o).countP (fun x => lt x v) = 0 :=
        List.countP_eq_zero.mpr (fun y hy => by simp [hdrop y hy])
      rw [e, List.countP_append, hz]; simp
    have hle1 : r.countP (fun x => lt x v) ≤ o := by
      rw [hsplit1]
      exact Nat.le_trans List.countP_le_length (by simp [List.length_take]; omega)
    have hsplit2 : r.countP (fun x => !lt v x) = o + (r.drop o).countP (fun x => !lt v x) := by
      have e : r.countP (fun x => !lt v x) = (r.take o ++ r.drop o).countP (fun x => !lt v x) := by
        rw [List.take_append_drop]
      have hz : (r.take o).countP (fun x => !lt v x) = (r.take o).length :=
        List.countP_eq_length.mpr (fun x hx => by simp [htake x hx])
      rw [e, List.countP_append, hz]
      simp [List.length_take]; omega
    simp only [countLess, countLeq, List.map_cons, List.sum_cons, List.zipWith_cons_cons] at ih1 ih2 ih3 ih4 ⊢
    refine ⟨by omega, by omega, by omega, ?_⟩
    intro j r' o' hr' ho' hv hirr
    cases j with
    | zero =>
      simp at hr' ho'; subst hr'; subst ho'
      have : 0 < (r.drop o).countP (fun x => !lt v x) := by
        rw [List.countP_pos_iff]
        exact ⟨v, hv, by simp [hirr]⟩
      omega
    | succ j =>
      have := ih4 j r' o' (by simpa using hr') (by simpa using ho') hv hirr
      omega

/-- **Selection from a partition.**  Let `offs` be any weak partition of sorted runs at `rank < N`, and `mr`
a right head that no other right head is less than.  Then `mr` is the element at `rank` (up to equivalence)
and `Σ_i (o_i − lower_bound_i(mr))` is its offset among the equivalent elements. -/
theorem selection_from_partition {lt : α → α → Bool} (hlt : StrictWeak lt) {runs : List (List α)}
    (hs : ∀ r ∈ runs, SortedRun lt r) {rank : Nat} {offs : List Nat} (hw : WeakPartition lt runs rank offs)
    {j0 : Nat} {r0 : List α} {o0 : Nat} {mr : α} (hr0 : runs[j0]? = some r0) (ho0 : offs[j0]? = some o0)
    (hmr : r0[o0]? = some mr)
    (hmin : ∀ (j : Nat) (rj : List α) (oj : Nat) (w : α), runs[j]? = some rj → offs[j]? = some oj →
      rj[oj]? = some w → lt w mr = false) :
    IsSelection lt runs rank mr
      (List.zipWith (fun r o => o - (r.takeWhile (fun x => lt x mr)).length) runs offs).sum := by
  have hmem0 : mr ∈ r0.drop o0 := by
    have := List.getElem?_eq_some_iff.mp hmr
    have hlt0 := this.1
    rw [List.mem_drop_iff_getElem]
    exact ⟨0, by omega, by simpa using this.2⟩
  have hall : ∀ (i : Nat) (r : List α) (o : Nat), runs[i]? = some r → offs[i]? = some o →
      o ≤ r.length ∧ (∀ y ∈ r.drop o, lt y mr = false) ∧ (∀ x ∈ r.take o, lt mr x = false) := by
    intro i r o hr ho
    have hsr : SortedRun lt r := hs r (List.mem_of_getElem? hr)
    refine ⟨hw.bound i r o hr ho, ?_, ?_⟩
    · intro y hy
      -- y ≥ head of the right part ≥ mr
      cases hh : (r.drop o).head? with
      | none => rw [List.head?_eq_none_iff] at hh; rw [hh] at hy; cases hy
      | some w =>
        have hw' : r[o]? = some w := by rw [List.head?_drop] at hh; exact hh
        have h1 := hmin i r o w hr ho hw'
        have h2 := sorted_head_le hlt (List.Pairwise.sublist (List.drop_sublist _ _) hsr) hy hh
        exact hlt.le_trans h1 h2
    · intro x hx
      by_cases hij : i = j0
      · subst hij
        rw [hr0] at hr; cases hr
        rw [ho0] at ho; cases ho
        have hp := hs r0 (List.mem_of_getElem? hr0)
        rw [← List.take_append_drop o0 r0] at hp
        exact (List.pairwise_append.mp hp).2.2 x hx mr hmem0
      · exact hw.ordered i j0 r r0 o o0 hij hr hr0 ho ho0 x hx mr hmem0
  obtain ⟨h1, h2, h3, h4⟩ := selection_sums (lt := lt) mr runs offs hw.len hall
  have hi := h4 j0 r0 o0 hr0 ho0 hmem0 (hlt.irrefl mr)
  rw [hw.sum] at h1 h3 hi
  refine ⟨h1, hi, ?_⟩
  rw [← h3]
  -- lower_bound = count of smaller elements on sorted runs
  congr 1
  clear h1 h2 h3 h4 hi hall hmin hmr ho0 hr0 hmem0 hw
  induction runs generalizing offs with
  | nil => simp
  | cons r rs ih =>
    cases offs with
    | nil => simp
    | cons o os =>
      simp only [List.zipWith_cons_cons]
      rw [countP_lt_eq_takeWhile hlt mr (hs r List.mem_cons_self),
        ih (fun r' hr' => hs r' (List.mem_cons_of_mem _ hr'))]

end TlxVerif.C08
