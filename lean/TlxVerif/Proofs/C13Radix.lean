import TlxVerif.Model.C13Radix
/-! Lemmas about the radix heap's helpers: IntegerRank, BitArray. -/
namespace TlxVerif.C13

/-- flipping bit `n` of a number below `2^(n+1)` -/
theorem xor_two_pow (a n : Nat) (h : a < 2 ^ (n + 1)) :
    a ^^^ 2 ^ n = if a < 2 ^ n then a + 2 ^ n else a - 2 ^ n := by
  have hq : a / 2 ^ n < 2 := by
    rw [Nat.div_lt_iff_lt_mul (Nat.two_pow_pos n)]
    rw [Nat.pow_succ] at h; omega
  have hd : (a ^^^ 2 ^ n) / 2 ^ n = a / 2 ^ n ^^^ 1 := by
    rw [Nat.xor_div_two_pow, Nat.div_self (Nat.two_pow_pos n)]
  have hm : (a ^^^ 2 ^ n) % 2 ^ n = a % 2 ^ n := by
    rw [Nat.xor_mod_two_pow, Nat.mod_self, Nat.xor_zero]
  have h1 := Nat.div_add_mod (a ^^^ 2 ^ n) (2 ^ n)
  have h2 := Nat.div_add_mod a (2 ^ n)
  rw [hd, hm] at h1
  have hp := Nat.two_pow_pos n
  by_cases hlt : a < 2 ^ n
  · have : a / 2 ^ n = 0 := Nat.div_eq_of_lt hlt
    rw [this] at h1 h2
    simp only [hlt, if_true]
    simp at h1 h2
    omega
  · have : a / 2 ^ n = 1 := by
      have : 0 < a / 2 ^ n := Nat.div_pos (by omega) hp
      omega
    rw [this] at h1 h2
    simp only [hlt, if_false]
    simp at h1 h2
    omega

theorem signBit_toNat (w : Nat) (hw : 0 < w) : (signBit w).toNat = 2 ^ (w - 1) := by
  unfold signBit
  rw [← BitVec.twoPow_eq, BitVec.toNat_twoPow_of_lt (by omega)]

/-- the rank of a signed key is its value shifted by `2^(w-1)` -/
theorem rank_signed (c : RCfg) (hw : 0 < c.w) (hs : c.signed = true) (k : BitVec c.w) :
    ((rankOfInt c k).toNat : Int) = k.toInt + 2 ^ (c.w - 1) := by
  simp only [rankOfInt, hs, if_true, BitVec.toNat_xor, signBit_toNat c.w hw]
  have hk : k.toNat < 2 ^ (c.w - 1 + 1) := by
    have : c.w - 1 + 1 = c.w := by omega
    rw [this]; exact k.isLt
  rw [xor_two_pow k.toNat (c.w - 1) hk, BitVec.toInt_eq_toNat_cond]
  have hpow : 2 ^ c.w = 2 * 2 ^ (c.w - 1) := by
    have : c.w = (c.w - 1) + 1 := by omega
    conv => lhs; rw [this, Nat.pow_succ]
    omega
  by_cases hlt : k.toNat < 2 ^ (c.w - 1)
  · have : 2 * k.toNat < 2 ^ c.w := by omega
    simp only [hlt, this, if_true]
    push_cast; rfl
  · have : ¬ 2 * k.toNat < 2 ^ c.w := by omega
    simp only [hlt, this, if_false]
    have hge : 2 ^ (c.w - 1) ≤ k.toNat := by omega
    rw [Int.ofNat_sub hge]
    push_cast
    have hpowI : (2 : Int) ^ c.w = 2 * 2 ^ (c.w - 1) := by exact_mod_cast hpow
    omega

/-- **IntegerRank is order preserving**: the (unsigned) order of the ranks is the order of the keys
as the C++ key type sees them, for signed and unsigned key types of every width -/
theorem rank_lt_iff (c : RCfg) (hw : 0 < c.w) (a b : BitVec c.w) :
    (rankOfInt c a).toNat < (rankOfInt c b).toNat ↔ keyVal c a < keyVal c b := by
  cases hs : c.signed with
  | true =>
    have h1 := rank_signed c hw hs a
    have h2 := rank_signed c hw hs b
    simp only [keyVal, hs, if_true]
    omega
  | false =>
    simp only [rankOfInt, keyVal, hs, Bool.false_eq_true, if_false]
    omega

/-- `int_at_rank` is the inverse of `rank_of_int` -/
theorem intAtRank_rankOfInt (c : RCfg) (k : BitVec c.w) : intAtRank c (rankOfInt c k) = k := by
  unfold intAtRank rankOfInt
  split
  · rw [BitVec.xor_assoc, BitVec.xor_self, BitVec.xor_zero]
  · rfl

theorem rankOfInt_intAtRank (c : RCfg) (r : BitVec c.w) : rankOfInt c (intAtRank c r) = r := by
  unfold intAtRank rankOfInt
  split
  · rw [BitVec.xor_assoc, BitVec.xor_self, BitVec.xor_zero]
  · rfl


/-! ### BucketComputation -/

/-- the bucket index on natural numbers: `t` = highest bit in which key and limit differ -/
def bucketNat (rb X L : Nat) : Nat :=
  if X = L then 0 else
  let t := Nat.log2 (X ^^^ L)
  (t / rb) * 2 ^ rb + (X >>> (rb * (t / rb))) % 2 ^ rb - t / rb

theorem promotedWidth_ge (w : Nat) : w ≤ promotedWidth w := by
  unfold promotedWidth; split <;> omega

/-- `bucketOf` in closed form: `(pw - 1) - clz(diff)` is the index of the highest set bit of `diff` -/
theorem bucketOf_eq (c : RCfg) (x lim : BitVec c.w) :
    bucketOf c x lim = bucketNat c.rb x.toNat lim.toNat := by
  unfold bucketOf bucketNat
  by_cases h : x = lim
  · subst h; simp
  · have hne : x.toNat ≠ lim.toNat := fun e => h (BitVec.eq_of_toNat_eq e)
    have hd : x ^^^ lim ≠ 0 := by
      intro e
      apply h
      have := congrArg (· ^^^ lim) e
      simpa [BitVec.xor_assoc] using this
    have hdn : (x ^^^ lim).toNat ≠ 0 := fun e => hd (BitVec.eq_of_toNat_eq (by simpa using e))
    simp only [hd, if_false, hne]
    have hlt : (x ^^^ lim).toNat < 2 ^ promotedWidth c.w :=
      Nat.lt_of_lt_of_le (x ^^^ lim).isLt (Nat.pow_le_pow_right (by decide) (promotedWidth_ge c.w))
    have hlog : Nat.log2 (x ^^^ lim).toNat < promotedWidth c.w := (Nat.log2_lt hdn).mpr hlt
    have hclz : promotedWidth c.w - 1 - clz (promotedWidth c.w) (x ^^^ lim).toNat = Nat.log2 (x ^^^ lim).toNat := by
      simp only [clz, hdn, if_false]; omega
    simp only [BitVec.toNat_xor] at hclz
    simp only [BitVec.toNat_xor, Nat.and_two_pow_sub_one_eq_mod, hclz]

/-- facts about the highest differing bit `t` of `L < X` -/
theorem diff_facts (X L : Nat) (h : L < X) :
    let t := Nat.log2 (X ^^^ L)
    X / 2 ^ (t + 1) = L / 2 ^ (t + 1) ∧ X.testBit t = true ∧ L.testBit t = false := by
  intro t
  have hd : X ^^^ L ≠ 0 := by
    intro e
    have : X = L := by
      apply Nat.eq_of_testBit_eq; intro i
      have := congrArg (fun n => Nat.testBit n i) e
      simp only [Nat.testBit_xor, Nat.zero_testBit] at this
      cases hx : X.testBit i <;> cases hl : L.testBit i <;> simp_all
    omega
  have hlt : X ^^^ L < 2 ^ (t + 1) := Nat.lt_log2_self
  have htb : (X ^^^ L).testBit t = true := Nat.testBit_log2 hd
  have hhi : ∀ j, t < j → X.testBit j = L.testBit j := by
    intro j hj
    have : (X ^^^ L).testBit j = false :=
      Nat.testBit_lt_two_pow (Nat.lt_of_lt_of_le hlt (Nat.pow_le_pow_right (by decide) hj))
    simp only [Nat.testBit_xor] at this
    cases hx : X.testBit j <;> cases hl : L.testBit j <;> simp_all
  have hxor : X.testBit t ≠ L.testBit t := by
    simp only [Nat.testBit_xor] at htb
    cases hx : X.testBit t <;> cases hl : L.testBit t <;> simp_all
  refine ⟨?_, ?_⟩
  · apply Nat.eq_of_testBit_eq; intro i
    rw [Nat.testBit_div_two_pow, Nat.testBit_div_two_pow]
    exact hhi _ (by omega)
  · cases hx : X.testBit t with
    | true =>
      refine ⟨rfl, ?_⟩
      cases hl : L.testBit t with
      | false => rfl
      | true => rw [hx, hl] at hxor; exact absurd rfl hxor
    | false =>
      exfalso
      have hl : L.testBit t = true := by
        cases hl : L.testBit t with
        | true => rfl
        | false => rw [hx, hl] at hxor; exact absurd rfl hxor
      -- equal above bit t, X has 0 and L has 1 at bit t: then X < L
      have hhigh : X / 2 ^ (t + 1) = L / 2 ^ (t + 1) := by
        apply Nat.eq_of_testBit_eq; intro i
        rw [Nat.testBit_div_two_pow, Nat.testBit_div_two_pow]
        exact hhi _ (by omega)
      have hX := Nat.div_add_mod X (2 ^ (t + 1))
      have hL := Nat.div_add_mod L (2 ^ (t + 1))
      have mX := Nat.mod_pow_succ (x := X) (b := 2) (k := t)
      have mL := Nat.mod_pow_succ (x := L) (b := 2) (k := t)
      rw [Nat.testBit_eq_decide_div_mod_eq] at hx hl
      have bx : X / 2 ^ t % 2 = 0 := by
        have : ¬ (X / 2 ^ t % 2 = 1) := by simpa using hx
        omega
      have bl : L / 2 ^ t % 2 = 1 := by simpa using hl
      rw [bx] at mX
      rw [bl] at mL
      have r1 := Nat.mod_lt X (Nat.two_pow_pos t)
      rw [hhigh] at hX
      generalize 2 ^ (t + 1) * (L / 2 ^ (t + 1)) = q at hX hL
      omega

/-- the digit of the key in the row of the highest differing bit is at least one -/
theorem digit_pos (rb X L : Nat) (hrb : 0 < rb) (h : L < X) :
    let t := Nat.log2 (X ^^^ L)
    1 ≤ (X >>> (rb * (t / rb))) % 2 ^ rb := by
  intro t
  obtain ⟨_, hx, _⟩ := diff_facts X L h
  have hs : rb * (t / rb) ≤ t := Nat.mul_div_le t rb
  have hlt : t < rb * (t / rb) + rb := by
    have := Nat.lt_mul_div_succ t hrb
    rw [Nat.mul_add] at this; omega
  have hb : ((X >>> (rb * (t / rb))) % 2 ^ rb).testBit (t - rb * (t / rb)) = true := by
    rw [Nat.testBit_mod_two_pow, Nat.testBit_shiftRight]
    have : rb * (t / rb) + (t - rb * (t / rb)) = t := by omega
    rw [this]
    have hlt2 : t - rb * (t / rb) < rb := by omega
    have hx' : X.testBit t = true := hx
    simp [hx', hlt2]
  have := Nat.ge_two_pow_of_testBit hb
  have := Nat.two_pow_pos (t - rb * (t / rb))
  omega

/-- **bucket 0 holds exactly the keys equal to the insertion limit** -/
theorem bucketNat_eq_zero_iff (rb X L : Nat) (hrb : 0 < rb) (h : L ≤ X) : bucketNat rb X L = 0 ↔ X = L := by
  constructor
  · intro hb
    by_cases e : X = L
    · exact e
    · exfalso
      have hd := digit_pos rb X L hrb (by omega)
      simp only [bucketNat, e, if_false] at hb
      have hr : Nat.log2 (X ^^^ L) / rb ≤ Nat.log2 (X ^^^ L) / rb * 2 ^ rb :=
        Nat.le_mul_of_pos_right _ (Nat.two_pow_pos rb)
      omega
  · intro e; simp [bucketNat, e]

theorem bucketOf_eq_zero_iff (c : RCfg) (hrb : 0 < c.rb) (x lim : BitVec c.w) (h : lim.toNat ≤ x.toNat) :
    bucketOf c x lim = 0 ↔ x = lim := by
  rw [bucketOf_eq, bucketNat_eq_zero_iff c.rb _ _ hrb h]
  exact ⟨fun e => BitVec.eq_of_toNat_eq e, fun e => by rw [e]⟩


/-! #### keys as digit strings in base `2^rb` -/

/-- digit `r` of `n` in base `2^rb` -/
def dig (rb n r : Nat) : Nat := (n >>> (rb * r)) % 2 ^ rb
/-- the digits above row `r` (rows `≥ r`) -/
def above (rb n r : Nat) : Nat := n / 2 ^ (rb * r)
/-- the row of the highest differing bit -/
def rowOf (rb X L : Nat) : Nat := Nat.log2 (X ^^^ L) / rb

theorem above_succ (rb n r : Nat) : above rb n (r + 1) = above rb n r / 2 ^ rb := by
  unfold above
  rw [Nat.div_div_eq_div_mul, ← Nat.pow_add, Nat.mul_add, Nat.mul_one]

theorem above_decomp (rb n r : Nat) : above rb n r = above rb n (r + 1) * 2 ^ rb + dig rb n r := by
  rw [above_succ]
  unfold dig above
  rw [Nat.shiftRight_eq_div_pow]
  have := Nat.div_add_mod (n / 2 ^ (rb * r)) (2 ^ rb)
  rw [Nat.mul_comm] at this
  omega

theorem dig_lt (rb n r : Nat) : dig rb n r < 2 ^ rb := Nat.mod_lt _ (Nat.two_pow_pos rb)

theorem above_mono (rb r : Nat) {a b : Nat} (h : a ≤ b) : above rb a r ≤ above rb b r :=
  Nat.div_le_div_right h

/-- agreeing above row `k` implies agreeing above every higher row, with equal digits there -/
theorem above_eq_of_le (rb X L k r : Nat) (h : above rb X k = above rb L k) (hkr : k ≤ r) :
    above rb X r = above rb L r := by
  induction r with
  | zero => have : k = 0 := by omega
            subst this; exact h
  | succ r ih =>
    by_cases e : k = r + 1
    · subst e; exact h
    · rw [above_succ, above_succ, ih (by omega)]

theorem dig_eq_of_above (rb X L k r : Nat) (h : above rb X k = above rb L k) (hkr : k ≤ r) :
    dig rb X r = dig rb L r := by
  have h1 := above_eq_of_le rb X L k r h hkr
  have h2 := above_eq_of_le rb X L k (r + 1) h (by omega)
  have d1 := above_decomp rb X r
  have d2 := above_decomp rb L r
  rw [h1, h2] at d1
  omega

/-- the row of the highest differing bit: the keys agree above it and the key's digit there is larger -/
theorem row_spec (rb X L : Nat) (hrb : 0 < rb) (h : L < X) :
    above rb X (rowOf rb X L + 1) = above rb L (rowOf rb X L + 1) ∧
    dig rb L (rowOf rb X L) < dig rb X (rowOf rb X L) := by
  obtain ⟨hhi, hx, hl⟩ := diff_facts X L h
  unfold rowOf
  generalize ht : Nat.log2 (X ^^^ L) = t at hhi hx hl
  have hs : rb * (t / rb) ≤ t := Nat.mul_div_le t rb
  have hlt : t < rb * (t / rb) + rb := by
    have := Nat.lt_mul_div_succ t hrb
    rw [Nat.mul_add] at this; omega
  have habove : above rb X (t / rb + 1) = above rb L (t / rb + 1) := by
    unfold above
    have e : rb * (t / rb + 1) = (t + 1) + (rb * (t / rb) + rb - (t + 1)) := by
      rw [Nat.mul_add]; omega
    rw [e, Nat.pow_add, ← Nat.div_div_eq_div_mul, ← Nat.div_div_eq_div_mul, hhi]
  refine ⟨habove, ?_⟩
  have d1 := above_decomp rb X (t / rb)
  have d2 := above_decomp rb L (t / rb)
  rw [habove] at d1
  have hmono := above_mono rb (t / rb) (Nat.le_of_lt h)
  -- the two differ at bit t - s
  have hne : above rb X (t / rb) ≠ above rb L (t / rb) := by
    intro e
    have b1 : (above rb X (t / rb)).testBit (t - rb * (t / rb)) = true := by
      unfold above; rw [Nat.testBit_div_two_pow]
      have : t - rb * (t / rb) + rb * (t / rb) = t := by omega
      rw [this]; exact hx
    have b2 : (above rb L (t / rb)).testBit (t - rb * (t / rb)) = false := by
      unfold above; rw [Nat.testBit_div_two_pow]
      have : t - rb * (t / rb) + rb * (t / rb) = t := by omega
      rw [this]; exact hl
    rw [e, b2] at b1; cases b1
  omega

/-- the row is the unique row above which the keys agree and in which they differ -/
theorem row_unique (rb X L : Nat) (hrb : 0 < rb) (h : L < X) (r : Nat)
    (h1 : above rb X (r + 1) = above rb L (r + 1)) (h2 : dig rb X r ≠ dig rb L r) : rowOf rb X L = r := by
  obtain ⟨s1, s2⟩ := row_spec rb X L hrb h
  by_cases hlt : r < rowOf rb X L
  · have := dig_eq_of_above rb X L (r + 1) (rowOf rb X L) h1 (by omega)
    omega
  · by_cases hgt : rowOf rb X L < r
    · have := dig_eq_of_above rb X L (rowOf rb X L + 1) r s1 (by omega)
      exact absurd this h2
    · omega

/-- the bucket index in terms of the row and the digit -/
theorem bucketNat_row (rb X L : Nat) (hrb : 0 < rb) (h : L < X) :
    bucketNat rb X L = rowOf rb X L * (2 ^ rb - 1) + dig rb X (rowOf rb X L) ∧
    1 ≤ dig rb X (rowOf rb X L) := by
  have hd := digit_pos rb X L hrb h
  have hne : X ≠ L := by omega
  simp only [bucketNat, hne, if_false]
  unfold rowOf dig
  refine ⟨?_, hd⟩
  generalize Nat.log2 (X ^^^ L) / rb = r
  have hp := Nat.two_pow_pos rb
  have : r * 2 ^ rb = r * (2 ^ rb - 1) + r := by
    rw [Nat.mul_sub_one]
    have : r ≤ r * 2 ^ rb := Nat.le_mul_of_pos_right r hp
    omega
  omega


/-- a row/digit pair is determined by the bucket index -/
theorem row_digit_unique {R r d r' d' : Nat} (hd : 1 ≤ d) (hd' : 1 ≤ d') (hR : d ≤ R) (hR' : d' ≤ R)
    (h : r * R + d = r' * R + d') : r = r' ∧ d = d' := by
  have h1 : (r * R + d - 1) / R = r := by
    have : r * R + d - 1 = (d - 1) + r * R := by omega
    rw [this, Nat.add_mul_div_right _ _ (by omega), Nat.div_eq_of_lt (by omega)]; omega
  have h2 : (r' * R + d' - 1) / R = r' := by
    have : r' * R + d' - 1 = (d' - 1) + r' * R := by omega
    rw [this, Nat.add_mul_div_right _ _ (by omega), Nat.div_eq_of_lt (by omega)]; omega
  rw [h] at h1
  have hr : r = r' := by omega
  subst hr
  exact ⟨rfl, by omega⟩

theorem dig_le (rb n r : Nat) : dig rb n r ≤ 2 ^ rb - 1 := by have := dig_lt rb n r; omega

/-- **the bucket index is monotone in the key** (for a fixed insertion limit) -/
theorem bucketNat_mono (rb L X Y : Nat) (hrb : 0 < rb) (h1 : L ≤ X) (h2 : X ≤ Y) :
    bucketNat rb X L ≤ bucketNat rb Y L := by
  by_cases hxl : X = L
  · subst hxl; simp [bucketNat]
  · have hlx : L < X := by omega
    have hly : L < Y := by omega
    obtain ⟨bx, dx⟩ := bucketNat_row rb X L hrb hlx
    obtain ⟨bY, dy⟩ := bucketNat_row rb Y L hrb hly
    obtain ⟨ax, gx⟩ := row_spec rb X L hrb hlx
    obtain ⟨ay, gy⟩ := row_spec rb Y L hrb hly
    rw [bx, bY]
    generalize hrx : rowOf rb X L = rx at *
    generalize hry : rowOf rb Y L = ry at *
    have hR := dig_le rb X rx
    have hRy := dig_le rb Y ry
    by_cases hlt : ry < rx
    · -- impossible: Y agrees with L at row rx where X is larger, and above: Y < X
      exfalso
      have e1 := above_eq_of_le rb Y L (ry + 1) (rx + 1) ay (by omega)
      have e2 := dig_eq_of_above rb Y L (ry + 1) rx ay (by omega)
      have d1 := above_decomp rb X rx
      have d2 := above_decomp rb Y rx
      have hm := above_mono rb rx h2
      rw [ax] at d1; rw [e1] at d2
      omega
    · by_cases heq : ry = rx
      · subst heq
        have d1 := above_decomp rb X ry
        have d2 := above_decomp rb Y ry
        have hm := above_mono rb ry h2
        rw [ax] at d1; rw [ay] at d2
        have : dig rb X ry ≤ dig rb Y ry := by omega
        omega
      · have hgt : rx < ry := by omega
        have : (rx + 1) * (2 ^ rb - 1) ≤ ry * (2 ^ rb - 1) := Nat.mul_le_mul_right _ (by omega)
        rw [Nat.add_mul] at this
        omega

/-- **a bucket of the first row holds a single key** -/
theorem bucketNat_row0_inj (rb L X Y : Nat) (hrb : 0 < rb) (h1 : L ≤ X) (h2 : L ≤ Y)
    (hb : bucketNat rb X L = bucketNat rb Y L) (h0 : bucketNat rb X L < 2 ^ rb) : X = Y := by
  by_cases hxl : X = L
  · subst hxl
    have : bucketNat rb X X = 0 := by simp [bucketNat]
    rw [this] at hb
    exact ((bucketNat_eq_zero_iff rb Y X hrb h2).mp hb.symm).symm
  · by_cases hyl : Y = L
    · subst hyl
      have : bucketNat rb Y Y = 0 := by simp [bucketNat]
      rw [this] at hb
      exact (bucketNat_eq_zero_iff rb X Y hrb h1).mp hb
    · have hlx : L < X := by omega
      have hly : L < Y := by omega
      obtain ⟨bx, dx⟩ := bucketNat_row rb X L hrb hlx
      obtain ⟨bY, dy⟩ := bucketNat_row rb Y L hrb hly
      obtain ⟨ax, gx⟩ := row_spec rb X L hrb hlx
      obtain ⟨ay, gy⟩ := row_spec rb Y L hrb hly
      rw [bx, bY] at hb
      obtain ⟨hr, hdg⟩ := row_digit_unique dx dy (dig_le _ _ _) (dig_le _ _ _) hb
      rw [bx] at h0
      -- row 0
      have hrow0 : rowOf rb X L = 0 := by
        by_cases e : rowOf rb X L = 0
        · exact e
        · exfalso
          have : 1 * (2 ^ rb - 1) ≤ rowOf rb X L * (2 ^ rb - 1) := Nat.mul_le_mul_right _ (by omega)
          omega
      have hrow0y : rowOf rb Y L = 0 := by rw [← hr]; exact hrow0
      rw [hrow0] at ax hdg
      rw [hrow0y] at ay hdg
      have d1 := above_decomp rb X 0
      have d2 := above_decomp rb Y 0
      rw [ax, hdg] at d1
      rw [ay] at d2
      have e0 : ∀ n, above rb n 0 = n := by intro n; simp [above]
      rw [e0] at d1 d2
      omega

/-- **keys in later buckets keep their bucket when the limit moves up to a key of an earlier bucket** -/
theorem bucketNat_stable (rb L M X : Nat) (hrb : 0 < rb) (h1 : L ≤ M) (h2 : M ≤ X)
    (hb : bucketNat rb M L < bucketNat rb X L) : bucketNat rb X M = bucketNat rb X L := by
  have hlx : L < X := by
    by_cases e : X = L
    · subst e; simp [bucketNat] at hb
    · omega
  have hmx : M < X := by
    by_cases e : M = X
    · subst e; omega
    · omega
  obtain ⟨bx, dx⟩ := bucketNat_row rb X L hrb hlx
  obtain ⟨ax, gx⟩ := row_spec rb X L hrb hlx
  obtain ⟨bxm, dxm⟩ := bucketNat_row rb X M hrb hmx
  suffices hrow : rowOf rb X M = rowOf rb X L by rw [bxm, bx, hrow]
  by_cases hml : M = L
  · subst hml; rfl
  · have hlm : L < M := by omega
    obtain ⟨bm, dm⟩ := bucketNat_row rb M L hrb hlm
    obtain ⟨am, gm⟩ := row_spec rb M L hrb hlm
    rw [bm, bx] at hb
    generalize hrx : rowOf rb X L = rx at *
    generalize hrm : rowOf rb M L = rm at *
    have hRm := dig_le rb M rm
    have hRx := dig_le rb X rx
    apply row_unique rb X M hrb hmx rx
    · -- X and M agree above row rx (both agree with L there)
      by_cases hlt : rm ≤ rx
      · rw [ax]; exact (above_eq_of_le rb M L (rm + 1) (rx + 1) am (by omega)).symm
      · exfalso
        have : (rx + 1) * (2 ^ rb - 1) ≤ rm * (2 ^ rb - 1) := Nat.mul_le_mul_right _ (by omega)
        rw [Nat.add_mul] at this
        omega
    · by_cases hlt : rm < rx
      · have := dig_eq_of_above rb M L (rm + 1) rx am (by omega)
        omega
      · by_cases heq : rm = rx
        · subst heq; omega
        · exfalso
          have : (rx + 1) * (2 ^ rb - 1) ≤ rm * (2 ^ rb - 1) := Nat.mul_le_mul_right _ (by omega)
          rw [Nat.add_mul] at this
          omega

/-- **redistribution**: when the limit becomes a key `M` of bucket `b` beyond the first row, every key
of that bucket falls into a strictly earlier bucket -/
theorem bucketNat_redistribute (rb L M X : Nat) (hrb : 0 < rb) (h1 : L ≤ M) (h2 : M ≤ X)
    (hb : bucketNat rb X L = bucketNat rb M L) (hrow : 2 ^ rb ≤ bucketNat rb M L) :
    bucketNat rb X M < bucketNat rb M L := by
  have hp := Nat.two_pow_pos rb
  have hlm : L < M := by
    by_cases e : M = L
    · subst e; simp [bucketNat] at hrow
    · omega
  have hlx : L < X := by omega
  by_cases hmx : X = M
  · subst hmx
    have : bucketNat rb X X = 0 := by simp [bucketNat]
    omega
  · have hmx' : M < X := by omega
    obtain ⟨bx, dx⟩ := bucketNat_row rb X L hrb hlx
    obtain ⟨ax, gx⟩ := row_spec rb X L hrb hlx
    obtain ⟨bm, dm⟩ := bucketNat_row rb M L hrb hlm
    obtain ⟨am, gm⟩ := row_spec rb M L hrb hlm
    obtain ⟨bxm, dxm⟩ := bucketNat_row rb X M hrb hmx'
    obtain ⟨axm, gxm⟩ := row_spec rb X M hrb hmx'
    rw [bx, bm] at hb
    obtain ⟨hr, hdg⟩ := row_digit_unique dx dm (dig_le _ _ _) (dig_le _ _ _) hb
    rw [bxm, bm]
    generalize hrl : rowOf rb M L = r at *
    generalize hrxm : rowOf rb X M = q at *
    have hq := dig_le rb X q
    -- X and M agree from row r on, so they differ below row r
    have hagree : above rb X r = above rb M r := by
      have d1 := above_decomp rb X r
      have d2 := above_decomp rb M r
      rw [hr] at hdg ax
      rw [ax, hdg] at d1; rw [am] at d2
      omega
    have hqr : q < r := by
      by_cases hge : r ≤ q
      · exfalso
        have := dig_eq_of_above rb X M r q hagree hge
        omega
      · omega
    have : (q + 1) * (2 ^ rb - 1) ≤ r * (2 ^ rb - 1) := Nat.mul_le_mul_right _ (by omega)
    rw [Nat.add_mul] at this
    omega


/-! #### the number of buckets -/

theorem numBucketsAux_eq (rb : Nat) (hrb : 0 < rb) (bits : Nat) :
    numBucketsAux rb bits = (bits / rb) * (2 ^ rb - 1) + (2 ^ (bits % rb) - 1) := by
  induction bits using Nat.strongRecOn with
  | _ bits ih =>
    rw [numBucketsAux]
    have hne : ¬ rb = 0 := by omega
    simp only [hne, dite_false]
    by_cases hge : bits ≥ rb
    · simp only [hge, if_true]
      rw [ih (bits - rb) (by omega)]
      have h1 : bits / rb = (bits - rb) / rb + 1 := by
        have := Nat.sub_add_cancel hge
        conv => lhs; rw [← this]
        rw [Nat.add_div_right _ hrb]
      have h2 : bits % rb = (bits - rb) % rb := by
        have := Nat.sub_add_cancel hge
        conv => lhs; rw [← this]
        rw [Nat.add_mod_right]
      rw [h1, h2, Nat.add_mul]
      omega
    · simp only [hge, if_false]
      have : bits / rb = 0 := Nat.div_eq_of_lt (by omega)
      have h2 : bits % rb = bits := Nat.mod_eq_of_lt (by omega)
      rw [this, h2]; simp

/-- **every bucket index is within `num_buckets`** -/
theorem bucketNat_lt (rb w X L : Nat) (hrb : 0 < rb) (hX : X < 2 ^ w) (hL : L ≤ X) :
    bucketNat rb X L < numBucketsAux rb w + 1 := by
  by_cases hxl : X = L
  · subst hxl; simp [bucketNat]
  · have hlx : L < X := by omega
    obtain ⟨bx, dx⟩ := bucketNat_row rb X L hrb hlx
    rw [bx, numBucketsAux_eq rb hrb w]
    have hR := dig_le rb X (rowOf rb X L)
    -- the highest differing bit is below w
    have hd : X ^^^ L ≠ 0 := by
      intro e
      have : X = L := by
        apply Nat.eq_of_testBit_eq; intro i
        have := congrArg (fun n => Nat.testBit n i) e
        simp only [Nat.testBit_xor, Nat.zero_testBit] at this
        cases hx : X.testBit i <;> cases hl : L.testBit i <;> simp_all
      omega
    have ht : Nat.log2 (X ^^^ L) < w := (Nat.log2_lt hd).mpr (Nat.xor_lt_two_pow hX (by omega))
    have hrow : rb * rowOf rb X L ≤ Nat.log2 (X ^^^ L) := Nat.mul_div_le _ _
    have hw := Nat.div_add_mod w rb
    generalize hq : w / rb = q at *
    generalize hm : w % rb = m at *
    have hmlt : m < rb := by rw [← hm]; exact Nat.mod_lt _ hrb
    generalize hr : rowOf rb X L = r at *
    by_cases hlt : r < q
    · have : (r + 1) * (2 ^ rb - 1) ≤ q * (2 ^ rb - 1) := Nat.mul_le_mul_right _ (by omega)
      rw [Nat.add_mul] at this
      omega
    · have hrq : r = q := by
        by_cases hgt : q < r
        · exfalso
          have : rb * (q + 1) ≤ rb * r := Nat.mul_le_mul_left _ (by omega)
          rw [Nat.mul_add] at this
          omega
        · omega
      subst hrq
      -- the top (partial) row: the digit is below 2^m
      have hdig : dig rb X r < 2 ^ m := by
        unfold dig
        rw [Nat.shiftRight_eq_div_pow]
        have : X / 2 ^ (rb * r) < 2 ^ m := by
          rw [Nat.div_lt_iff_lt_mul (Nat.two_pow_pos _), ← Nat.pow_add]
          have : m + rb * r = w := by omega
          rw [this]; exact hX
        exact Nat.lt_of_le_of_lt (Nat.mod_le _ _) this
      omega

theorem bucketOf_lt (c : RCfg) (hrb : 0 < c.rb) (x lim : BitVec c.w) (h : lim.toNat ≤ x.toNat) :
    bucketOf c x lim < numBuckets c := by
  rw [bucketOf_eq]
  exact bucketNat_lt c.rb c.w _ _ hrb x.isLt h

theorem numBuckets_le (c : RCfg) (hrb : 0 < c.rb) (hrb6 : c.rb ≤ 6) (hw : c.w ≤ 64) : numBuckets c ≤ 4096 := by
  unfold numBuckets
  rw [numBucketsAux_eq c.rb hrb]
  have h1 : c.w / c.rb ≤ 64 := Nat.le_trans (Nat.div_le_self _ _) hw
  have h2 : 2 ^ c.rb ≤ 2 ^ 6 := Nat.pow_le_pow_right (by decide) hrb6
  have h3 : c.w % c.rb < c.rb := Nat.mod_lt _ hrb
  have h4 : 2 ^ (c.w % c.rb) ≤ 2 ^ 6 := Nat.pow_le_pow_right (by decide) (by omega)
  have h5 : c.w / c.rb * (2 ^ c.rb - 1) ≤ 64 * 63 := Nat.mul_le_mul h1 (by omega)
  omega


/-! #### the bucket lemmas on `BitVec` ranks -/

theorem bucketOf_mono (c : RCfg) (hrb : 0 < c.rb) (lim x y : BitVec c.w)
    (h1 : lim.toNat ≤ x.toNat) (h2 : x.toNat ≤ y.toNat) : bucketOf c x lim ≤ bucketOf c y lim := by
  rw [bucketOf_eq, bucketOf_eq]; exact bucketNat_mono c.rb _ _ _ hrb h1 h2

theorem bucketOf_row0 (c : RCfg) (hrb : 0 < c.rb) (lim x y : BitVec c.w)
    (h1 : lim.toNat ≤ x.toNat) (h2 : lim.toNat ≤ y.toNat)
    (hb : bucketOf c x lim = bucketOf c y lim) (h0 : bucketOf c x lim < c.radix) : x = y := by
  rw [bucketOf_eq, bucketOf_eq] at hb
  rw [bucketOf_eq] at h0
  exact BitVec.eq_of_toNat_eq (bucketNat_row0_inj c.rb _ _ _ hrb h1 h2 hb h0)

theorem bucketOf_stable (c : RCfg) (hrb : 0 < c.rb) (lim m x : BitVec c.w)
    (h1 : lim.toNat ≤ m.toNat) (h2 : m.toNat ≤ x.toNat) (hb : bucketOf c m lim < bucketOf c x lim) :
    bucketOf c x m = bucketOf c x lim := by
  rw [bucketOf_eq, bucketOf_eq] at hb
  rw [bucketOf_eq, bucketOf_eq]
  exact bucketNat_stable c.rb _ _ _ hrb h1 h2 hb

theorem bucketOf_redistribute (c : RCfg) (hrb : 0 < c.rb) (lim m x : BitVec c.w)
    (h1 : lim.toNat ≤ m.toNat) (h2 : m.toNat ≤ x.toNat)
    (hb : bucketOf c x lim = bucketOf c m lim) (hrow : c.radix ≤ bucketOf c m lim) :
    bucketOf c x m < bucketOf c m lim := by
  rw [bucketOf_eq, bucketOf_eq] at hb
  rw [bucketOf_eq] at hrow
  rw [bucketOf_eq, bucketOf_eq]
  exact bucketNat_redistribute c.rb _ _ _ hrb h1 h2 hb hrow

theorem bucketOf_self (c : RCfg) (x : BitVec c.w) : bucketOf c x x = 0 := by
  rw [bucketOf_eq]; simp [bucketNat]

end TlxVerif.C13
