/-
C07 — `equally_split` (transliteration `equallySplit`): for n ≥ 1 and p ≥ 1 the result is a
non-decreasing sequence of p+1 splitters from 0 to n, all inside [0, n]; for n = 0 it contains -1 (D3).
-/
import TlxVerif.Model.C07Pmm
namespace TlxVerif.C07

theorem equallySplit_go_spec (n chunk split : Int) (hn : 1 ≤ n) (hc : 0 ≤ chunk) :
    ∀ (fuel i : Nat) (start : Int) (acc : List Int), 0 ≤ start → start ≤ n - 1 →
      ∃ l : List Int, equallySplit.go n chunk split fuel i start acc = acc ++ l ++ [n] ∧ l.length = fuel ∧
        (∀ x ∈ l, start ≤ x ∧ x ≤ n - 1) ∧ l.Pairwise (· ≤ ·) ∧ (0 < fuel → l.head? = some start)
  | 0, i, start, acc, _, _ => ⟨[], by simp [equallySplit.go], rfl, by simp, List.Pairwise.nil, by simp⟩
  | fuel + 1, i, start, acc, h0, h1 => by
    -- next start
    let s1 : Int := start + (if (i : Int) < split then chunk + 1 else chunk)
    let s2 : Int := if s1 ≥ n then n - 1 else s1
    have hs1 : start ≤ s1 := by
      show start ≤ start + (if (i : Int) < split then chunk + 1 else chunk)
      split <;> omega
    have hs2a : start ≤ s2 := by
      show start ≤ (if s1 ≥ n then n - 1 else s1)
      split <;> omega
    have hs2b : s2 ≤ n - 1 := by
      show (if s1 ≥ n then n - 1 else s1) ≤ n - 1
      split <;> omega
    obtain ⟨l, hl, hlen, hmem, hpw, _⟩ := equallySplit_go_spec n chunk split hn hc fuel (i + 1) s2 (acc ++ [start])
      (by omega) hs2b
    refine ⟨start :: l, ?_, by simp [hlen], ?_, ?_, by simp⟩
    · have : equallySplit.go n chunk split (fuel + 1) i start acc =
          equallySplit.go n chunk split fuel (i + 1) s2 (acc ++ [start]) := rfl
      rw [this, hl]; simp
    · intro x hx
      rcases List.mem_cons.mp hx with hx | hx
      · subst hx; omega
      · have := hmem x hx; omega
    · refine List.pairwise_cons.mpr ⟨?_, hpw⟩
      intro x hx
      have := hmem x hx; omega

/-- **equally_split, n ≥ 1**: `p+1` splitters, first 0, last n, non-decreasing, all in [0, n]. -/
theorem equallySplit_spec (n p : Nat) (hn : 1 ≤ n) (hp : 1 ≤ p) :
    (equallySplit n p).length = p + 1 ∧ (equallySplit n p).head? = some 0 ∧
    (equallySplit n p).getLast? = some (n : Int) ∧ (equallySplit n p).Pairwise (· ≤ ·) ∧
    ∀ x ∈ equallySplit n p, 0 ≤ x ∧ x ≤ n := by
  have hc : (0 : Int) ≤ (n : Int).tdiv p := Int.tdiv_nonneg (by omega) (by omega)
  obtain ⟨l, hl, hlen, hmem, hpw, hhead⟩ :=
    equallySplit_go_spec (n : Int) ((n : Int).tdiv p) ((n : Int).tmod p) (by omega) hc p 0 0 [] (by omega) (by omega)
  have he : equallySplit n p = l ++ [(n : Int)] := by
    unfold equallySplit; simpa using hl
  rw [he]
  refine ⟨by simp [hlen], ?_, by simp, ?_, ?_⟩
  · have := hhead (by omega)
    cases l with
    | nil => simp at hlen; omega
    | cons a l => simpa using this
  · rw [List.pairwise_append]
    refine ⟨hpw, List.pairwise_singleton _ _, ?_⟩
    intro x hx y hy
    have := hmem x hx
    simp at hy; omega
  · intro x hx
    rcases List.mem_append.mp hx with hx | hx
    · have := hmem x hx; omega
    · simp at hx; omega

/-- the first `p` splitters (all but the final `n`) are valid indices of a range of length `n` -/
theorem equallySplit_inner_lt (n p : Nat) (hn : 1 ≤ n) (hp : 1 ≤ p) :
    ∀ i, i < p → ∃ x : Int, (equallySplit n p)[i]? = some x ∧ 0 ≤ x ∧ x ≤ (n : Int) - 1 := by
  have hc : (0 : Int) ≤ (n : Int).tdiv p := Int.tdiv_nonneg (by omega) (by omega)
  obtain ⟨l, hl, hlen, hmem, _, _⟩ :=
    equallySplit_go_spec (n : Int) ((n : Int).tdiv p) ((n : Int).tmod p) (by omega) hc p 0 0 [] (by omega) (by omega)
  have he : equallySplit n p = l ++ [(n : Int)] := by
    unfold equallySplit; simpa using hl
  intro i hi
  have hil : i < l.length := by omega
  refine ⟨l[i], ?_, ?_⟩
  · rw [he, List.getElem?_append_left hil, List.getElem?_eq_getElem hil]
  · have := hmem l[i] (List.getElem_mem _); omega

/-- DESIGN §5 D3: for `n = 0` the clamping `start = n - 1` yields the rank -1 -/
theorem equallySplit_zero_witness : equallySplit 0 2 = [0, -1, 0] := by decide

end TlxVerif.C07
