/-
C03 — the bucket step with a border LCP that depends on the two bucket indices (16-bit radix
steps: `depth + 1` when the first key byte of the neighbouring non-empty buckets agrees).
Blocks carry their bucket index.
-/
import TlxVerif.Proofs.C03Radix
namespace TlxVerif.C03

variable {α : Type} (str : α → Str)

/-- the LCP view of every non-empty block behind a non-empty block `i` starts with `D i k` -/
def HeadsMarkedF (D : Nat → Nat → Nat) : Option Nat → List (Nat × Blk α) → Prop
  | _, [] => True
  | prev, (k, t) :: rest =>
    (t.b.length ≠ 0 → ∀ i, prev = some i → t.v.head? = some (D i k)) ∧
    HeadsMarkedF D (if t.b.length ≠ 0 then some k else prev) rest

theorem borders_fun (D : Nat → Nat → Nat) (prev : Option (Nat × Str)) (tl : List (Nat × Blk α))
    (hprev : ∀ i p, prev = some (i, p) → ∀ kt ∈ tl, ∀ a ∈ kt.2.r.1, lcp p (str a) = D i kt.1)
    (hcross : tl.Pairwise fun t1 t2 => ∀ x ∈ t1.2.r.1, ∀ y ∈ t2.2.r.1, lcp (str x) (str y) = D t1.1 t2.1)
    (hm : HeadsMarkedF D (prev.map Prod.fst) tl)
    (hlen : ∀ kt ∈ tl, kt.2.r.1.length = kt.2.b.length) :
    Borders (prev.map Prod.snd) (tl.map fun kt => (kt.2.r.1.map str, kt.2.v)) := by
  induction tl generalizing prev with
  | nil => simp [Borders]
  | cons kt rest ih =>
    obtain ⟨k, t⟩ := kt
    rw [List.pairwise_cons] at hcross
    simp only [HeadsMarkedF] at hm
    simp only [List.map_cons, Borders]
    have hl := hlen (k, t) (by simp)
    simp only at hl
    constructor
    · intro p a hp ha
      obtain ⟨⟨i, p'⟩, hpe, hpp⟩ : ∃ ip : Nat × Str, prev = some ip ∧ ip.2 = p := by
        cases prev with
        | none => simp at hp
        | some ip => exact ⟨ip, rfl, by simpa using hp⟩
      simp only at hpp
      subst hpp
      have hne : t.b.length ≠ 0 := by
        intro e
        rw [e] at hl
        have : t.r.1 = [] := List.eq_nil_of_length_eq_zero hl
        simp [this] at ha
      rw [hm.1 hne i (by simp [hpe])]
      have hmem : ∃ x ∈ t.r.1, str x = a := by
        cases hr : t.r.1 with
        | nil => simp [hr] at ha
        | cons x xs =>
          simp [hr] at ha
          exact ⟨x, by simp, ha⟩
      obtain ⟨x, hx, hxa⟩ := hmem
      rw [← hxa, hprev i p' hpe (k, t) (by simp) x hx]
    · cases hgl : t.r.1.getLast? with
      | none =>
        have hnil : t.r.1 = [] := by simpa using hgl
        have hb0 : t.b.length = 0 := by rw [← hl, hnil]; rfl
        have := ih prev (fun i p hp kt hkt => hprev i p hp kt (by simp [hkt])) hcross.2
          (by simpa [hb0] using hm.2) (fun kt hkt => hlen kt (by simp [hkt]))
        simpa [hnil] using this
      | some x =>
        have hne : t.r.1 ≠ [] := by intro e; simp [e] at hgl
        have hb0 : t.b.length ≠ 0 := by
          rw [← hl]; intro e; exact hne (List.eq_nil_of_length_eq_zero e)
        have hxm : x ∈ t.r.1 := List.mem_of_getLast? hgl
        have := ih (some (k, str x))
          (by
            intro i p hp kt hkt a ha
            simp only [Option.some.injEq, Prod.mk.injEq] at hp
            obtain ⟨rfl, rfl⟩ := hp
            exact hcross.1 kt hkt x hxm a ha)
          hcross.2 (by simpa [hb0] using hm.2) (fun kt hkt => hlen kt (by simp [hkt]))
        have hlast : (t.r.1.map str).getLast? = some (str x) := by
          rw [List.getLast?_map, hgl]; rfl
        simpa [hlast] using this

/-- **bucket step, index-dependent border LCP** -/
theorem blocks_specF (wl : Bool) (D : Nat → Nat → Nat) (tl : List (Nat × Blk α))
    (hok : ∀ kt ∈ tl, BlkOk str wl kt.2)
    (hcross : tl.Pairwise fun t1 t2 =>
      ∀ x ∈ t1.2.b, ∀ y ∈ t2.2.b, str x ≤ str y ∧ lcp (str x) (str y) = D t1.1 t2.1)
    (hm : wl = true → HeadsMarkedF D none tl) :
    SortSpec str wl ((tl.map Prod.snd).flatMap fun t => t.b) ((tl.map Prod.snd).flatMap fun t => t.v)
      ((tl.map Prod.snd).flatMap (fun t => t.r.1), (tl.map Prod.snd).flatMap (fun t => t.r.2)) := by
  have hok' : ∀ t ∈ tl.map Prod.snd, BlkOk str wl t := by
    intro t ht
    rw [List.mem_map] at ht
    obtain ⟨kt, hkt, e⟩ := ht
    subst e; exact hok kt hkt
  have hperm : ∀ t ∈ tl.map Prod.snd, t.r.1.Perm t.b := fun t ht => (hok' t ht).1.1
  refine ⟨blocks_perm _ hperm, ?_, ?_⟩
  · apply blocks_sorted str _ (fun t ht => ⟨hperm t ht, (hok' t ht).1.2.1⟩)
    rw [List.pairwise_map]
    exact hcross.imp fun h x hx y hy => (h x hx y hy).1
  · intro hwl
    subst hwl
    have hr2 : ∀ kt ∈ tl, kt.2.r.2 = kt.2.v.take 1 ++ adjLcps (kt.2.r.1.map str) := fun kt hkt =>
      (hok kt hkt).1.2.2 rfl
    have hlen : ∀ kt ∈ tl, kt.2.r.1.length = kt.2.b.length := fun kt hkt => (hok kt hkt).1.1.length_eq
    have hcross' : tl.Pairwise fun t1 t2 => ∀ x ∈ t1.2.r.1, ∀ y ∈ t2.2.r.1, lcp (str x) (str y) = D t1.1 t2.1 := by
      have : ∀ t1 ∈ tl, ∀ t2 ∈ tl,
          (∀ x ∈ t1.2.b, ∀ y ∈ t2.2.b, str x ≤ str y ∧ lcp (str x) (str y) = D t1.1 t2.1) →
          (∀ x ∈ t1.2.r.1, ∀ y ∈ t2.2.r.1, lcp (str x) (str y) = D t1.1 t2.1) :=
        fun t1 h1 t2 h2 h x hx y hy =>
          (h x ((hok t1 h1).1.1.mem_iff.mp hx) y ((hok t2 h2).1.1.mem_iff.mp hy)).2
      exact hcross.imp_of_mem fun {a b} ha hb h => this a ha b hb h
    have hb := borders_fun str D none tl (by simp) hcross' (by simpa using hm rfl) hlen
    simp only [Option.map_none] at hb
    have hlen2 : ∀ b ∈ (tl.map fun kt => (kt.2.r.1.map str, kt.2.v)), b.2.length = b.1.length := by
      intro b hb
      rw [List.mem_map] at hb
      obtain ⟨kt, hkt, e⟩ := hb
      subst e
      simp only [List.length_map]
      rw [hlen kt hkt, (hok kt hkt).2 rfl]
    have has := assemble none _ hlen2 hb
    simp only [assembled] at has
    have e1 : ((tl.map Prod.snd).flatMap fun t => t.r.2)
        = (tl.map fun kt => (kt.2.r.1.map str, kt.2.v)).flatMap (fun b => b.2.take 1 ++ adjLcps b.1) := by
      clear has hlen2 hb hcross' hlen hok hcross hm hperm hok'
      induction tl with
      | nil => simp
      | cons kt rest ih =>
        simp only [List.flatMap_cons, List.map_cons]
        rw [hr2 kt (by simp), ih (fun t ht => hr2 t (by simp [ht]))]
    rw [e1, has]
    simp [List.flatMap_map, List.map_flatMap]

end TlxVerif.C03
