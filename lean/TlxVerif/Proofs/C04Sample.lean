/-
C04 — one sample sort step (`PS5BigSortStep` / `SeqSampleSortStep`) is correct, given correct
recursive calls: sampling, splitter tree, classification, distribution, per-bucket recursion
with the right depths, LCP pass.
-/
import TlxVerif.Proofs.C04Sample0
namespace TlxVerif.C04
variable {af : Bool}

/-- what the step knows about its classifier -/
structure ClsOk (env : Env) (p : Str) (strs : List Str) (c : Classifier) : Prop where
  tbEq : c.treebits = env.p.treebits
  bst : IsBST c.tree c.treebits 1 c.splitters
  sorted : c.splitters.Pairwise (fun a b => a ≤ b)
  len : c.splitters.length = numSplitters env.p.treebits
  spl : ∀ i, i < numSplitters c.treebits → splOf c env.p.useCalc i = c.splitters[i]?
  slcp : (∀ j, j < numSplitters env.p.treebits → ∃ v sj, c.slcp[j]? = some v ∧ c.splitters[j]? = some sj ∧
        (v ≥ 128 ↔ lowByte sj = 0) ∧ (j = 0 → v % 128 = 0) ∧
        (0 < j → ∃ sp, c.splitters[j - 1]? = some sp ∧ v % 128 = lcpKeyType sp sj)) ∧
    c.slcp[numSplitters env.p.treebits]? = some 0
  splKey : ∀ s ∈ c.splitters, ∃ u ∈ strs, getKey? u p.length = some s

/-- the strings of bucket `i` -/
def InBucket (env : Env) (p : Str) (strs : List Str) (c : Classifier) (i : Nat) (bk : List Str) : Prop :=
  ∀ s ∈ bk, s ∈ strs ∧ ∃ k, getKey? s p.length = some k ∧ c.findBkt env.p.useCalc k = some i

theorem take_of_lcp_ge {u s : Str} {d : Nat} (h : d ≤ lcp u s) : s = u.take d ++ s.drop d ∧ (u.take d).length = d := by
  have h1 : u.take (lcp u s) = s.take (lcp u s) := by
    rw [lcp_eq_c03]; exact C03.take_lcp u s
  have h2 : u.take d = s.take d := by
    have := congrArg (List.take d) h1
    rwa [List.take_take, List.take_take, Nat.min_eq_left h] at this
  have hl : lcp u s ≤ u.length := by rw [lcp_eq_c03]; exact C03.lcp_le_left u s
  refine ⟨by rw [h2, List.take_append_drop], ?_⟩
  rw [List.length_take]; omega

/-- the common prefix of a `<` bucket: `depth + (splitter_lcp[i/2] & 0x7F)` characters -/
theorem even_bucket_range {env : Env} {p : Str} {strs : List Str} {c : Classifier} (hr : RangeOk p strs)
    (hc : ClsOk env p strs c) {j : Nat} {bk : List Str} (hin : InBucket env p strs c (2 * j) bk) (hne : bk ≠ []) :
    ∃ p', p'.length = p.length + ((c.slcp[j]?).getD 0) % 128 ∧ RangeOk p' bk := by
  have hbk : RangeOk p bk := hr.sub (fun s hs => (hin s hs).1)
  -- position of the bucket among the splitters
  have hpos : ∀ s ∈ bk, ∀ k, getKey? s p.length = some k → lowerBound c.splitters k = j ∧ c.splitters[j]? ≠ some k := by
    intro s hs k hk
    obtain ⟨_, k', hk', hf⟩ := hin s hs
    rw [hk] at hk'; cases hk'
    rw [findBkt_bst hc.bst hc.spl k] at hf
    simp only [Option.some.injEq] at hf
    split at hf
    · omega
    · rename_i hne'; exact ⟨by omega, by rw [show lowerBound c.splitters k = j by omega] at hne'; exact hne'⟩
  obtain ⟨s0, rest, rfl⟩ := List.exists_cons_of_ne_nil hne
  obtain ⟨k0, hk0⟩ := getKey_of_inRange (hbk s0 (by simp))
  have hj := (hpos s0 (by simp) k0 hk0).1
  have hjle : j ≤ numSplitters env.p.treebits := by
    rw [← hj, ← hc.len]; exact lowerBound_le _ _
  rcases Nat.lt_or_ge j (numSplitters env.p.treebits) with hjlt | hjge
  · obtain ⟨v, sj, hv, hsj, _, hv0, hvpos⟩ := hc.slcp.1 j hjlt
    rw [hv]; simp only [Option.getD_some]
    rcases Nat.eq_zero_or_pos j with h0 | hjpos
    · rw [hv0 h0]; exact ⟨p, by simp, hbk⟩
    · obtain ⟨sp, hsp, hvm⟩ := hvpos hjpos
      rw [hvm]
      obtain ⟨u, hu, huk⟩ := hc.splKey sp (List.mem_of_getElem? hsp)
      -- every key of the bucket lies strictly between the two splitters
      have hbetween : ∀ s ∈ s0 :: rest, ∀ k, getKey? s p.length = some k → sp < k ∧ k < sj := by
        intro s hs k hk
        obtain ⟨hlb, hnek⟩ := hpos s hs k hk
        obtain ⟨x, hx, hxk⟩ := lowerBound_gt c.splitters hc.sorted (j - 1) k (by omega)
        rw [hsp] at hx; cases hx
        refine ⟨hxk, ?_⟩
        rcases Nat.lt_or_ge k.toNat sj.toNat with h | h
        · exact BitVec.lt_def.2 h
        · exfalso
          rcases Nat.lt_or_ge sj.toNat k.toNat with h' | h'
          · have := lt_lowerBound_of_sorted c.splitters hc.sorted j sj k hsj (BitVec.lt_def.2 h')
            omega
          · exact hnek (by rw [hsj, BitVec.eq_of_toNat_eq (Nat.le_antisymm h' h)])
      refine ⟨u.take (p.length + lcpKeyType sp sj), ?_, ?_⟩
      · obtain ⟨hlt0, hlt1⟩ := hbetween s0 (by simp) k0 hk0
        have hl := keyLt_lcp (hr u hu) (hbk s0 (by simp)) huk hk0 hlt0
        have hb := lcpKeyType_between (a := sp) (k := k0) (b := sj) (by rw [BitVec.le_def]; rw [BitVec.lt_def] at hlt0; omega)
          (by rw [BitVec.le_def]; rw [BitVec.lt_def] at hlt1; omega)
        exact (take_of_lcp_ge (u := u) (s := s0) (d := p.length + lcpKeyType sp sj) (by omega)).2
      · intro s hs
        obtain ⟨k, hk⟩ := getKey_of_inRange (hbk s hs)
        obtain ⟨hlt0, hlt1⟩ := hbetween s hs k hk
        have hl := keyLt_lcp (hr u hu) (hbk s hs) huk hk hlt0
        have hb := lcpKeyType_between (a := sp) (k := k) (b := sj) (by rw [BitVec.le_def]; rw [BitVec.lt_def] at hlt0; omega)
          (by rw [BitVec.le_def]; rw [BitVec.lt_def] at hlt1; omega)
        exact ⟨(hbk s hs).1, s.drop (p.length + lcpKeyType sp sj),
          (take_of_lcp_ge (u := u) (s := s) (d := p.length + lcpKeyType sp sj) (by omega)).1⟩
  · have : j = numSplitters env.p.treebits := by omega
    subst this
    rw [hc.slcp.2]; exact ⟨p, by simp, hbk⟩

/-- all strings of an `=` bucket have the splitter as key -/
theorem odd_bucket_key {env : Env} {p : Str} {strs : List Str} {c : Classifier}
    (hc : ClsOk env p strs c) {j : Nat} {bk : List Str} (hin : InBucket env p strs c (2 * j + 1) bk) (hne : bk ≠ []) :
    ∃ sj, j < numSplitters env.p.treebits ∧ c.splitters[j]? = some sj ∧ splOf c env.p.useCalc j = some sj ∧
      ∀ s ∈ bk, getKey? s p.length = some sj := by
  obtain ⟨s0, rest, rfl⟩ := List.exists_cons_of_ne_nil hne
  obtain ⟨_, k0, hk0, hf0⟩ := hin s0 (by simp)
  have h0 := findBkt_odd hf0 (by omega)
  have hdiv : (2 * j + 1) / 2 = j := by omega
  rw [hdiv] at h0
  -- the bucket number is in range
  have hjlt : j < numSplitters env.p.treebits := by
    have := hf0
    rw [findBkt_bst hc.bst hc.spl k0] at this
    simp only [Option.some.injEq] at this
    split at this
    · rename_i hsome
      have : lowerBound c.splitters k0 = j := by omega
      rw [this] at hsome
      have := List.getElem?_eq_some_iff.1 hsome
      obtain ⟨hlt, _⟩ := this
      rw [hc.len] at hlt; exact hlt
    · omega
  have hspl := hc.spl j (by rw [hc.tbEq]; exact hjlt)
  refine ⟨k0, hjlt, by rw [← hspl]; exact h0, h0, ?_⟩
  intro s hs
  obtain ⟨_, k, hk, hf⟩ := hin s hs
  have h := findBkt_odd hf (by omega)
  rw [hdiv, h0] at h; cases h; exact hk

/-- in a sorted list a member sits at its own lower bound (the first of its equals) -/
theorem lowerBound_self (S : List Key) (hs : S.Pairwise (fun a b => a ≤ b)) {s : Key} (h : s ∈ S) :
    S[lowerBound S s]? = some s := by
  obtain ⟨j, hj, hsj⟩ := List.getElem_of_mem h
  have hlbj : lowerBound S s ≤ j := by
    rcases Nat.lt_or_ge j (lowerBound S s) with hlt | hge
    · obtain ⟨x, hx, hxk⟩ := lowerBound_gt S hs j s hlt
      rw [List.getElem?_eq_getElem hj, hsj] at hx; cases hx
      rw [BitVec.lt_def] at hxk; omega
    · exact hge
  obtain ⟨lb, hlb⟩ : ∃ lb, lowerBound S s = lb := ⟨_, rfl⟩
  rw [hlb] at hlbj ⊢
  have hlt : lb < S.length := by omega
  rw [List.getElem?_eq_getElem hlt]
  congr 1
  have h1 : ¬ S[lb] < s := by
    intro hx
    have := lt_lowerBound_of_sorted S hs lb S[lb] s (List.getElem?_eq_getElem hlt) hx
    omega
  have h2 : S[lb] ≤ s := by
    rcases Nat.lt_or_ge lb j with h | h
    · rw [← hsj]; exact List.pairwise_iff_getElem.1 hs lb j hlt hj h
    · have : lb = j := by omega
      subst this; rw [hsj]; exact BitVec.le_refl _
  apply BitVec.eq_of_toNat_eq
  rw [BitVec.lt_def] at h1; rw [BitVec.le_def] at h2; omega

/-- **One bucket of a sample sort step** is handled correctly (given correct recursive calls) -/
theorem bucketBody_safe {env : Env} (henv : EnvOk env) {rec : Rec} {mode : Mode}
    (hmode : mode = .big ∨ mode = .seqss) {p : Str} {strs : List Str} (hrec : RecOk af (mu mode strs p.length) rec)
    {c : Classifier} (hr : RangeOk p strs)
    (hc : ClsOk env p strs c) {i : Nat} {bk : List Str} (hi : i < 2 * numSplitters env.p.treebits + 1)
    (hin : InBucket env p strs c i bk) (hsub : bk.Sublist strs) (hmiss : i % 2 = 0 → ∃ u ∈ strs, u ∉ bk) :
    Safe af (bucketBody env rec mode c p.length (2 * numSplitters env.p.treebits + 1) (bk, i)) (SortedLcp bk) := by
  unfold bucketBody
  simp only
  have hbk : RangeOk p bk := hr.sub (fun s hs => (hin s hs).1)
  by_cases hsz : bk.length = 0
  · have : bk = [] := List.length_eq_zero_iff.1 hsz
    subst this
    simp only [List.length_nil, if_true]
    exact empty_good
  · have hne : bk ≠ [] := fun e => hsz (by rw [e]; rfl)
    simp only [hsz, if_false]
    by_cases hev : i % 2 = 0
    · -- `<` bucket
      simp only [hev, if_true]
      obtain ⟨j, rfl⟩ : ∃ j, i = 2 * j := ⟨i / 2, by omega⟩
      have hdiv : 2 * j / 2 = j := by omega
      rw [hdiv]
      obtain ⟨p', hp'l, hp'r⟩ := even_bucket_range hr hc hin hne
      -- the depth handed to the sub-sorter is the length of a common prefix
      have hd : ∃ q, q.length = (if 2 * j = 2 * numSplitters env.p.treebits + 1 - 1 ∧ mode = .big then p.length
          else p.length + ((c.slcp[j]?).getD 0) % 128) ∧ RangeOk q bk := by
        split
        · exact ⟨p, rfl, hbk⟩
        · exact ⟨p', hp'l, hp'r⟩
      obtain ⟨q, hql, hqr⟩ := hd
      obtain ⟨u, hu, hun⟩ := hmiss hev
      have hm := msize_miss (d := q.length) hr hsub hu hun (by rw [hql]; split <;> omega)
      rw [← hql]
      rcases hmode with rfl | rfl
      · simp only [if_true]
        by_cases h1 : bk.length = 1
        · simp only [h1, if_true]
          match bk, h1 with
          | [s], _ => exact single_good s
        · simp only [h1, if_false]
          exact hrec .enq bk q hqr trivial (fun _ => by simp only [mu, Mode.rank]; omega)
      · have : ¬ (Mode.seqss = Mode.big) := by decide
        simp only [this, if_false]
        split
        · exact hrec .mkqsTop bk q hqr trivial (fun _ => by simp only [mu, Mode.rank]; omega)
        · exact hrec .seqss bk q hqr hne (fun _ => by simp only [mu, Mode.rank]; omega)
    · -- `=` bucket
      simp only [hev, if_false]
      obtain ⟨j, rfl⟩ : ∃ j, i = 2 * j + 1 := ⟨i / 2, by omega⟩
      have hdiv : (2 * j + 1) / 2 = j := by omega
      rw [hdiv]
      obtain ⟨sj, hjlt, hsj, hspl, hkeys⟩ := odd_bucket_key hc hin hne
      have hspl' : (if env.p.useCalc = true then c.getSplitterCalc j else c.getSplitterArr j) = some sj := hspl
      rw [hspl']
      refine Safe.bind (P := fun x => x = sj) (Safe.liftO ⟨sj, rfl, rfl⟩) (fun spl hs => ?_)
      subst hs
      by_cases h1 : mode = .big ∧ bk.length = 1
      · simp only [h1, and_self, if_true]
        match bk, h1.2 with
        | [s], _ => exact single_good s
      · simp only [h1, if_false]
        obtain ⟨v, sj', hv, hsj', hflag, _, _⟩ := hc.slcp.1 j hjlt
        rw [hsj] at hsj'; cases hsj'
        rw [hv]; simp only [Option.getD_some]
        by_cases hfl : v ≥ 128
        · simp only [hfl, if_true]
          apply Safe.pure
          have hlow := hflag.1 hfl
          have hall : ∀ a ∈ bk, ∀ b ∈ bk, a = b ∧ a.length = p.length + lcpKeyDepth spl := by
            intro a ha b hb
            obtain ⟨na, a', rfl⟩ := hbk a ha
            obtain ⟨nb, b', rfl⟩ := hbk b hb
            have h1 := key_eq_done na nb (hkeys _ ha) (hkeys _ hb) hlow
            have e1 := getKey_toNat (hkeys _ ha)
            simp only [List.drop_left] at e1
            have := lcpKeyDepth_eq e1 (nulFree_append_right na) h1.2
            exact ⟨h1.1, by simp [this]⟩
          exact doneRes_good (fun a ha b hb => (hall a ha b hb).1) (fun a ha => (hall a ha a ha).2)
        · simp only [hfl, if_false]
          have hlow : lowByte spl ≠ 0 := fun e => hfl (hflag.2 e)
          obtain ⟨q, hql, hqr⟩ := deeper_range hbk hkeys hlow hne
          have hm1 := msize_deeper (l := bk) (d := p.length) (k := 8) (fun s hs => by rw [← hql]; exact hqr.len s hs) hne
          have hm2 := msize_sublist hsub p.length
          rw [← hql]
          rcases hmode with rfl | rfl
          · simp only [if_true]
            exact hrec .enq bk q hqr trivial (fun _ => by simp only [mu, Mode.rank, hql]; omega)
          · have : ¬ (Mode.seqss = Mode.big) := by decide
            simp only [this, if_false]
            split
            · exact hrec .mkqsTop bk q hqr trivial (fun _ => by simp only [mu, Mode.rank, hql]; omega)
            · exact hrec .seqss bk q hqr hne (fun _ => by simp only [mu, Mode.rank, hql]; omega)

/-! ### assembling the step -/

theorem All2.mem_right {α β} {P : α → β → Prop} {l : List α} {bs : List β} (h : All2 P l bs) :
    ∀ b ∈ bs, ∃ a ∈ l, P a b := by
  induction h with
  | nil => intro b hb; simp at hb
  | cons hp _ ih =>
    intro b hb
    rcases List.mem_cons.1 hb with rfl | hb
    · exact ⟨_, by simp, hp⟩
    · obtain ⟨a, ha, hpa⟩ := ih b hb
      exact ⟨a, List.mem_cons_of_mem _ ha, hpa⟩

theorem All2.comp {α β γ} {P : α → β → Prop} {Q : β → γ → Prop} {l : List α} {m : List β} {r : List γ}
    (h1 : All2 P l m) (h2 : All2 Q m r) : All2 (fun a c => ∃ b, P a b ∧ Q b c) l r := by
  induction h1 generalizing r with
  | nil => cases h2; exact All2.nil
  | cons hp _ ih =>
    cases h2 with
    | cons hq h2' => exact All2.cons ⟨_, hp, hq⟩ (ih h2')

theorem bucketsOk_build (spl : Nat → Option Key) (p : Str) : ∀ (rs : List Res) (b : Nat),
    (∀ (i : Nat) (r : Res), rs[i]? = some r → (∀ s ∈ r.out, InRange p s) ∧
      ((b + i) % 2 = 1 → ∃ k, spl ((b + i) / 2) = some k ∧ ∀ s ∈ r.out, getKey? s p.length = some k) ∧
      lcpOk r.out r.lcp ∧ r.out.Pairwise (fun a b => strLe a b = true)) →
    (∀ (i j : Nat) (ri rj : Res), i < j → rs[i]? = some ri → rs[j]? = some rj →
      ∀ s ∈ ri.out, ∀ t ∈ rj.out, KeyLt p.length s t) →
    BucketsOk spl p b rs
  | [], _, _, _ => trivial
  | r :: rs, b, h1, h2 => by
    obtain ⟨a1, a2, a3, a4⟩ := h1 0 r rfl
    refine ⟨a1, by simpa using a2, a3, a4, ?_, ?_⟩
    · intro s hs r' hr' t ht
      obtain ⟨j, hj, rfl⟩ := List.getElem_of_mem hr'
      exact h2 0 (j + 1) r rs[j] (by omega) rfl (by simp [List.getElem?_eq_getElem hj]) s hs t ht
    · refine bucketsOk_build spl p rs (b + 1) ?_ ?_
      · intro i r' hr'
        have := h1 (i + 1) r' (by simpa using hr')
        have e : b + (i + 1) = b + 1 + i := by omega
        rw [e] at this; exact this
      · intro i j ri rj hij hi hj
        exact h2 (i + 1) (j + 1) ri rj (by omega) (by simpa using hi) (by simpa using hj)

theorem bucketsOf_length (strs : List Str) (ids : List Nat) (n : Nat) : (bucketsOf strs ids n).length = n := by
  simp [bucketsOf]

/-- **One sample sort step is correct** (given correct recursive calls): for every sample drawn. -/
theorem sampleBody_safe {env : Env} (henv : EnvOk env) {rec : Rec} {mode : Mode}
    (hmode : mode = .big ∨ mode = .seqss) {p : Str} {strs : List Str} (hrec : RecOk af (mu mode strs p.length) rec)
    (hr : RangeOk p strs) (hne : strs ≠ []) :
    Safe af (sampleBody env rec mode strs p.length) (SortedLcp strs) := by
  unfold sampleBody
  simp only
  have hnpos : 0 < strs.length := List.length_pos_iff.2 hne
  have hnspos : 1 ≤ numSplitters env.p.treebits := by
    unfold numSplitters
    have : 2 ^ 1 ≤ 2 ^ env.p.treebits := Nat.pow_le_pow_right (by omega) henv.tb1
    omega
  refine Safe.bind (keysOf_safe hr) (fun keys hk => ?_)
  have hlen : strs.length = keys.length := hk.length_eq
  -- the sample
  refine Safe.bind (Safe.mapM (P := fun i k => keys[i]? = some k) _ (fun i hi => ?_)) (fun smp hsmp => ?_)
  · have := henv.samplerLt strs.length (2 * numSplitters env.p.treebits) hnpos i hi
    exact Safe.liftO ⟨keys[i]'(by omega), List.getElem?_eq_getElem (by omega), List.getElem?_eq_getElem (by omega)⟩
  have hsmplen : smp.length = 2 * numSplitters env.p.treebits := by
    rw [← hsmp.length_eq, henv.samplerLen]
  have hsmpkeys : ∀ k ∈ smp, k ∈ keys := by
    intro k hk'
    obtain ⟨i, _, hi⟩ := hsmp.mem_right k hk'
    exact List.mem_of_getElem? hi
  -- the sorted sample array
  have hperm := List.mergeSort_perm smp (fun a b => decide (a ≤ b))
  have hpw : (smp.mergeSort (fun a b => decide (a ≤ b))).Pairwise (fun a b => a ≤ b) := by
    have := List.pairwise_mergeSort (le := fun (a b : Key) => decide (a ≤ b))
      (by intro a b c h1 h2; simp only [decide_eq_true_eq, BitVec.le_def] at *; omega)
      (by intro a b; simp only [Bool.or_eq_true, decide_eq_true_eq, BitVec.le_def]; omega) smp
    exact this.imp (fun h => by simpa using h)
  have hsortedIdx : ∀ (i j : Nat) (x y : Key), i ≤ j →
      (smp.mergeSort (fun a b => decide (a ≤ b))).toArray[i]? = some x →
      (smp.mergeSort (fun a b => decide (a ≤ b))).toArray[j]? = some y → x ≤ y := by
    intro i j x y hij hx hy
    rw [List.getElem?_toArray] at hx hy
    rcases Nat.lt_or_ge i j with hlt | hge
    · obtain ⟨hi', rfl⟩ := List.getElem?_eq_some_iff.1 hx
      obtain ⟨hj', rfl⟩ := List.getElem?_eq_some_iff.1 hy
      exact List.pairwise_iff_getElem.1 hpw i j hi' hj' hlt
    · have : i = j := by omega
      subst this; rw [hx] at hy; cases hy; exact BitVec.le_refl _
  have hsize : 1 ≤ (smp.mergeSort (fun a b => decide (a ≤ b))).toArray.size := by
    rw [List.size_toArray, List.length_mergeSort, hsmplen]; omega
  obtain ⟨c, hbuild, htb, hbst, hsrt, hsplmem⟩ := build_ok henv.tb1 hsize hsortedIdx
  rw [hbuild]
  refine Safe.bind (P := fun x => x = c) (Safe.liftO ⟨c, rfl, rfl⟩) (fun c' hc' => ?_)
  subst hc'
  have hSlen : c'.splitters.length = numSplitters env.p.treebits := by
    have := hbst.length; rw [this]; rfl
  have hbst' : IsBST c'.tree c'.treebits 1 c'.splitters := by rw [htb]; exact hbst
  have hcls : ClsOk env p strs c' := by
    refine ⟨htb, hbst', hsrt, hSlen, ?_, slcp_get hbuild hSlen hnspos, ?_⟩
    · intro i hi
      unfold splOf
      cases huc : env.p.useCalc with
      | true =>
        simp only [if_true]
        exact getSplitterCalc_eq hbst' (by rw [htb]; exact indexOk _ (by have := henv.tb15; omega)) i hi
      | false => simp [Classifier.getSplitterArr]
    · intro s hs
      have h1 := hsplmem s hs
      rw [List.toList_toArray] at h1
      have h2 := hsmpkeys s (hperm.mem_iff.1 h1)
      obtain ⟨j, hj, rfl⟩ := List.getElem_of_mem h2
      have hjs : j < strs.length := by omega
      exact ⟨strs[j], List.getElem_mem hjs, hk.get j _ _ (List.getElem?_eq_getElem hjs) (List.getElem?_eq_getElem hj)⟩
  -- classification
  refine Safe.bind (Safe.mapM (P := fun k id => c'.findBkt env.p.useCalc k = some id ∧
      id < 2 * numSplitters env.p.treebits + 1) keys (fun k _ => ?_)) (fun ids hids => ?_)
  · have hf := findBkt_bst hbst' hcls.spl k
    rw [hf]
    have hlb := lowerBound_le c'.splitters k
    rw [hSlen] at hlb
    have hlt : 2 * lowerBound c'.splitters k + (if c'.splitters[lowerBound c'.splitters k]? = some k then 1 else 0) <
        2 * numSplitters env.p.treebits + 1 := by
      split
      · rename_i hsome
        have := (List.getElem?_eq_some_iff.1 hsome).1
        rw [hSlen] at this; omega
      · omega
    -- the bucket id fits the `std::uint16_t` bucket cache
    have h16 : 2 * numSplitters env.p.treebits + 1 ≤ 65536 := by
      unfold numSplitters
      have : 2 ^ env.p.treebits ≤ 2 ^ 15 := Nat.pow_le_pow_right (by omega) henv.tb15
      omega
    simp only [Option.map_some]
    rw [u16_of_lt (by omega)]
    exact Safe.liftO ⟨_, rfl, rfl, hlt⟩
  have hidlen : ids.length = strs.length := by rw [← hids.length_eq, hlen]
  have hzip : ∀ q ∈ strs.zip ids, q.1 ∈ strs ∧ ∃ k, getKey? q.1 p.length = some k ∧ c'.findBkt env.p.useCalc k = some q.2 := by
    intro q hq
    obtain ⟨k, h1, h2, _⟩ := (hk.comp hids).zip_mem q hq
    exact ⟨(List.of_mem_zip hq).1, k, h1, h2⟩
  have hidlt : ∀ id ∈ ids, id < 2 * numSplitters env.p.treebits + 1 := by
    intro id hid
    obtain ⟨k, _, hk'⟩ := hids.mem_right id hid
    exact hk'.2
  generalize hbk : bucketsOf strs ids (2 * numSplitters env.p.treebits + 1) = bkts
  have hbl : bkts.length = 2 * numSplitters env.p.treebits + 1 := by rw [← hbk, bucketsOf_length]
  have hbperm : bkts.flatten.Perm strs := by rw [← hbk]; exact bucketsOf_perm strs ids _ hidlen hidlt
  have hinb : ∀ (i : Nat) (bk : List Str), bkts[i]? = some bk → InBucket env p strs c' i bk := by
    intro i bk hbi s hs
    have hil : i < 2 * numSplitters env.p.treebits + 1 := by
      rw [← hbl]; exact (List.getElem?_eq_some_iff.1 hbi).1
    have := mem_bucketsOf (strs := strs) (ids := ids) hil (s := s) (by rw [hbk, hbi]; exact hs)
    exact hzip (s, i) this
  -- the buckets are sub-lists of the range; the string a splitter was taken from is in no `<` bucket
  have hsubl : ∀ (i : Nat) (bk : List Str), bkts[i]? = some bk → bk.Sublist strs := by
    intro i bk hb
    have hil : i < 2 * numSplitters env.p.treebits + 1 := by
      rw [← hbl]; exact (List.getElem?_eq_some_iff.1 hb).1
    rw [← hbk] at hb
    unfold bucketsOf at hb
    rw [List.getElem?_map, List.getElem?_range hil] at hb
    simp only [Option.map_some, Option.some.injEq] at hb
    rw [← hb]
    exact part_sublist strs ids (by omega) _
  have hmiss : ∃ u ∈ strs, ∀ (i : Nat) (bk : List Str), i % 2 = 0 → bkts[i]? = some bk → u ∉ bk := by
    have h0 : 0 < c'.splitters.length := by omega
    obtain ⟨u, hu, huk⟩ := hcls.splKey c'.splitters[0] (List.getElem_mem h0)
    refine ⟨u, hu, fun i bk hev hb hub => ?_⟩
    obtain ⟨_, k, hk1, hk2⟩ := hinb i bk hb u hub
    rw [huk] at hk1; cases hk1
    rw [findBkt_bst hbst' hcls.spl, lowerBound_self _ hsrt (List.getElem_mem h0)] at hk2
    simp only [if_true, Option.some.injEq] at hk2
    omega
  obtain ⟨um, hum, humiss⟩ := hmiss
  -- the buckets
  refine Safe.bind (Safe.mapM (P := fun bi r => SortedLcp bi.1 r) bkts.zipIdx (fun bi hbi => ?_)) (fun rs hrs => ?_)
  · obtain ⟨bk, i⟩ := bi
    have hbi' := List.mem_zipIdx_iff_getElem?.1 hbi
    simp only at hbi'
    have hil : i < 2 * numSplitters env.p.treebits + 1 := by
      rw [← hbl]; exact (List.getElem?_eq_some_iff.1 hbi').1
    exact bucketBody_safe henv hmode hrec hr hcls hil (hinb i bk hbi') (hsubl i bk hbi')
      (fun hev => ⟨um, hum, humiss i bk hev hbi'⟩)
  -- indexed view of the results
  have hrslen : rs.length = bkts.length := by rw [← hrs.length_eq, List.length_zipIdx]
  have hrsi : ∀ (i : Nat) (bk : List Str) (r : Res), bkts[i]? = some bk → rs[i]? = some r → SortedLcp bk r := by
    intro i bk r hb hr'
    have hz : bkts.zipIdx[i]? = some (bk, i) := by rw [List.getElem?_zipIdx, hb]; simp
    exact hrs.get i (bk, i) r hz hr'
  have hrsbk : ∀ (i : Nat) (r : Res), rs[i]? = some r → ∃ bk, bkts[i]? = some bk ∧ SortedLcp bk r := by
    intro i r hr'
    have hil : i < bkts.length := by rw [← hrslen]; exact (List.getElem?_eq_some_iff.1 hr').1
    exact ⟨bkts[i], List.getElem?_eq_getElem hil, hrsi i _ r (List.getElem?_eq_getElem hil) hr'⟩
  have hlens : bkts.map List.length = rs.map (·.out.length) := by
    apply List.ext_getElem?
    intro i
    simp only [List.getElem?_map]
    cases hb : bkts[i]? with
    | none =>
      have : rs[i]? = none := by
        rw [List.getElem?_eq_none_iff] at hb ⊢; omega
      simp [this]
    | some bk =>
      have hil : i < rs.length := by rw [hrslen]; exact (List.getElem?_eq_some_iff.1 hb).1
      have hr' := List.getElem?_eq_getElem hil
      rw [hr']
      simp only [Option.map_some, Option.some.injEq]
      exact ((hrsi i bk _ hb hr').1.length_eq).symm
  rw [hlens]
  -- the buckets are well-formed for the LCP pass
  have hbok : BucketsOk (splOf c' env.p.useCalc) p 0 rs := by
    refine bucketsOk_build _ p rs 0 ?_ ?_
    · intro i r hr'
      obtain ⟨bk, hb, hg⟩ := hrsbk i r hr'
      have hin := hinb i bk hb
      refine ⟨fun s hs => hr s (hin s (hg.1.mem_iff.1 hs)).1, ?_, ⟨hg.2.2.1, hg.2.2.2⟩, hg.2.1⟩
      intro hodd
      simp only [Nat.zero_add] at hodd ⊢
      have hbne : bk ≠ [] → _ := fun hne' => odd_bucket_key (j := i / 2) hcls (by
        have : 2 * (i / 2) + 1 = i := by omega
        rw [this]; exact hin) hne'
      by_cases hbe : bk = []
      · -- empty bucket: any splitter will do
        have hil : i < 2 * numSplitters env.p.treebits + 1 := by
          rw [← hbl]; exact (List.getElem?_eq_some_iff.1 hb).1
        have hj : i / 2 < numSplitters c'.treebits := by rw [htb]; omega
        have hro : r.out = [] := by
          have := hg.1.length_eq; rw [hbe] at this; exact List.length_eq_zero_iff.1 this
        have hs := hcls.spl (i / 2) hj
        have hsome : ∃ k, c'.splitters[i / 2]? = some k := ⟨c'.splitters[i / 2]'(by rw [hSlen, ← htb]; exact hj),
          List.getElem?_eq_getElem _⟩
        obtain ⟨k, hk'⟩ := hsome
        exact ⟨k, by rw [hs, hk'], by rw [hro]; simp⟩
      · obtain ⟨sj, _, _, hspl, hkeys⟩ := hbne hbe
        exact ⟨sj, hspl, fun s hs => hkeys s (hg.1.mem_iff.1 hs)⟩
    · intro i j ri rj hij hi hj s hs t ht
      obtain ⟨bi, hbi, hgi⟩ := hrsbk i ri hi
      obtain ⟨bj, hbj, hgj⟩ := hrsbk j rj hj
      obtain ⟨_, ks, hks, hfs⟩ := hinb i bi hbi s (hgi.1.mem_iff.1 hs)
      obtain ⟨_, kt, hkt, hft⟩ := hinb j bj hbj t (hgj.1.mem_iff.1 ht)
      exact ⟨ks, kt, hks, hkt, findBkt_lt hbst' hsrt hcls.spl hfs hft hij⟩
  refine Safe.bind (lcpPass_safe c' env.p.useCalc p rs hbok) (fun l hl => ?_)
  apply Safe.pure
  refine ⟨?_, hl.2, hl.1⟩
  -- the results together are a permutation of the range
  refine List.Perm.trans ?_ hbperm
  have : ∀ (bs : List (List Str)) (rs' : List Res), rs'.length = bs.length →
      (∀ (i : Nat) (bk : List Str) (r : Res), bs[i]? = some bk → rs'[i]? = some r → r.out.Perm bk) → (rs'.map (·.out)).flatten.Perm bs.flatten := by
    intro bs
    induction bs with
    | nil => intro rs' hl _; have : rs' = [] := List.length_eq_zero_iff.1 hl; subst this; simp
    | cons b bs ih =>
      intro rs' hl h
      cases rs' with
      | nil => simp at hl
      | cons r rs' =>
        simp only [List.map_cons, List.flatten_cons]
        exact (h 0 b r rfl rfl).append (ih rs' (by simpa using hl) (fun i bk r' hb hr' => h (i + 1) bk r' (by simpa using hb) (by simpa using hr')))
  exact this bkts rs hrslen (fun i bk r hb hr' => (hrsi i bk r hb hr').1)

end TlxVerif.C04
