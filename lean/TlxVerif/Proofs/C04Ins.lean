/-
C04 — `insertion_sort_cache<false>` of `PS5SmallsortJob`: sort by the cached 8-byte keys, then
handle the groups of equal keys (deeper insertion sort / finished) and the LCPs between groups.
-/
import TlxVerif.Proofs.C04Mkqs
namespace TlxVerif.C04
variable {af : Bool}

theorem lcpOk_set0 {out : List Str} {l : List Nat} (h : lcpOk out l) (v : Nat) : lcpOk out (l.set 0 v) := by
  refine ⟨by simp [h.1], ?_⟩
  intro i h0 hi
  rw [List.getElem?_set]
  have : ¬ 0 = i := by omega
  simp only [this, if_false]
  exact h.2 i h0 hi

theorem mem_takeWhile {α} {p : α → Bool} {l : List α} {x : α} (h : x ∈ l.takeWhile p) : p x = true ∧ x ∈ l := by
  induction l with
  | nil => simp at h
  | cons a l ih =>
    rw [List.takeWhile_cons] at h
    split at h
    · rcases List.mem_cons.1 h with rfl | h'
      · rename_i hp; exact ⟨hp, by simp⟩
      · exact ⟨(ih h').1, List.mem_cons_of_mem _ (ih h').2⟩
    · simp at h

/-- behind the leading run of key `k` of a list sorted by key, every key is larger -/
theorem dropWhile_gt (k : Key) : ∀ (l : List (Str × Key)), l.Pairwise (fun a b => a.2 ≤ b.2) → (∀ q ∈ l, k ≤ q.2) →
    ∀ q ∈ l.dropWhile (fun x => x.2 = k), k < q.2
  | [], _, _, q, hq => by simp at hq
  | a :: l, hs, hge, q, hq => by
    rw [List.dropWhile_cons] at hq
    rw [List.pairwise_cons] at hs
    split at hq
    · exact dropWhile_gt k l hs.2 (fun q hq => hge q (List.mem_cons_of_mem _ hq)) q hq
    · rename_i hne
      have hak : k < a.2 := by
        have h1 := hge a (by simp)
        have h2 : ¬ a.2 = k := by simpa using hne
        rw [BitVec.le_def] at h1; rw [BitVec.lt_def]
        have : a.2.toNat ≠ k.toNat := fun e => h2 (BitVec.eq_of_toNat_eq e)
        omega
      rcases List.mem_cons.1 hq with rfl | hq'
      · exact hak
      · have := hs.1 q hq'
        rw [BitVec.le_def] at this; rw [BitVec.lt_def] at hak ⊢; omega

/-- what `insGroups` returns for the pairs `sk` behind a group of key `prev` -/
def GroupsOk (p : Str) (prev : Option Key) (sk : List (Str × Key)) (r : Res) : Prop :=
  r.out.Perm (sk.map (·.1)) ∧ r.out.Pairwise (fun a b => strLe a b = true) ∧ lcpOk r.out r.lcp ∧
  (∀ q, sk.head? = some q → ∃ y, r.out.head? = some y ∧ getKey? y p.length = some q.2) ∧
  (∀ pk q, prev = some pk → sk.head? = some q → r.lcp.head? = some (lcpT (p.length + lcpKeyType pk q.2)))

theorem insGroups_safe (p : Str) :
    ∀ (g : Nat) (sk : List (Str × Key)) (prev : Option Key), sk.length < g →
      (∀ q ∈ sk, InRange p q.1 ∧ getKey? q.1 p.length = some q.2) →
      sk.Pairwise (fun a b => a.2 ≤ b.2) →
      Safe af (insGroups p.length prev g sk) (GroupsOk p prev sk) := by
  intro g
  induction g with
  | zero => intro sk prev h; omega
  | succ g ih =>
    intro sk prev hg hmem hsorted
    cases sk with
    | nil =>
      simp only [insGroups]
      exact ⟨List.Perm.refl _, List.Pairwise.nil, lcpOk_nil, by simp, by simp⟩
    | cons q0 rest =>
      obtain ⟨s, k⟩ := q0
      simp only [insGroups]
      rw [List.pairwise_cons] at hsorted
      -- the group of `k` and what follows
      have hsplit : rest.takeWhile (fun x => x.2 = k) ++ rest.dropWhile (fun x => x.2 = k) = rest :=
        List.takeWhile_append_dropWhile
      generalize htw : rest.takeWhile (fun x => decide (x.2 = k)) = tw at hsplit ⊢
      generalize hdw : rest.dropWhile (fun x => decide (x.2 = k)) = after at hsplit ⊢
      have htwk : ∀ q ∈ tw, q.2 = k ∧ q ∈ rest := by
        intro q hq; rw [← htw] at hq
        have := mem_takeWhile hq
        exact ⟨by simpa using this.1, this.2⟩
      have hafter_gt : ∀ q ∈ after, k < q.2 := by
        intro q hq; rw [← hdw] at hq
        exact dropWhile_gt k rest hsorted.2 (fun q hq => hsorted.1 q hq) q hq
      have hafter_sub : ∀ q ∈ after, q ∈ rest := by
        intro q hq; rw [← hsplit]; exact List.mem_append_right _ hq
      have hlen_after : after.length < g := by
        have : rest.length = tw.length + after.length := by rw [← hsplit]; simp
        simp only [List.length_cons] at hg; omega
      -- the strings of the group
      have hgrp : ∀ x ∈ ((s, k) :: tw).map (·.1), InRange p x ∧ getKey? x p.length = some k := by
        intro x hx
        simp only [List.map_cons, List.mem_cons, List.mem_map] at hx
        rcases hx with rfl | ⟨q, hq, rfl⟩
        · exact hmem (x, k) (by simp)
        · have := hmem q (List.mem_cons_of_mem _ (htwk q hq).2)
          rw [(htwk q hq).1] at this; exact this
      have hgr : RangeOk p (((s, k) :: tw).map (·.1)) := fun x hx => (hgrp x hx).1
      -- the sorted group
      have hinner : SortedLcp (((s, k) :: tw).map (·.1))
          (if ((s, k) :: tw).length > 1 then
            if lowByte k ≠ 0 then insSort (p.length + 8) (((s, k) :: tw).map (·.1))
            else doneRes (((s, k) :: tw).map (·.1)) (p.length + lcpKeyDepth k)
          else { out := [s], lcp := [0] }) := by
        by_cases h1 : ((s, k) :: tw).length > 1
        · simp only [h1, if_true]
          by_cases hlow : lowByte k = 0
          · simp only [hlow, ne_eq, not_true_eq_false, if_false]
            have hall : ∀ a ∈ ((s, k) :: tw).map (·.1), ∀ b ∈ ((s, k) :: tw).map (·.1),
                a = b ∧ a.length = p.length + lcpKeyDepth k := by
              intro a ha b hb
              obtain ⟨⟨na, a', rfl⟩, hka⟩ := hgrp a ha
              obtain ⟨⟨nb, b', rfl⟩, hkb⟩ := hgrp b hb
              have h1 := key_eq_done na nb hka hkb hlow
              have e1 := getKey_toNat hka
              simp only [List.drop_left] at e1
              have := lcpKeyDepth_eq e1 (nulFree_append_right na) h1.2
              exact ⟨h1.1, by simp [this]⟩
            exact doneRes_good (fun a ha b hb => (hall a ha b hb).1) (fun a ha => (hall a ha a ha).2)
          · simp only [hlow, ne_eq, not_false_eq_true, if_true]
            obtain ⟨p', hp'l, hp'r⟩ := deeper_range hgr (fun x hx => (hgrp x hx).2) hlow (by simp)
            rw [← hp'l]
            exact insSort_good hp'r
        · have htw0 : tw = [] := by
            simp only [List.length_cons, gt_iff_lt] at h1
            exact List.length_eq_zero_iff.1 (by omega)
          subst htw0
          simp only [List.length_cons, List.length_nil, gt_iff_lt, Nat.lt_irrefl, if_false, List.map_cons, List.map_nil]
          exact single_good s
      generalize hin : (if ((s, k) :: tw).length > 1 then
            if lowByte k ≠ 0 then insSort (p.length + 8) (((s, k) :: tw).map (·.1))
            else doneRes (((s, k) :: tw).map (·.1)) (p.length + lcpKeyDepth k)
          else { out := [s], lcp := [0] }) = inner at hinner ⊢
      -- the rest
      refine Safe.bind (ih after (some k) hlen_after
        (fun q hq => hmem q (List.mem_cons_of_mem _ (hafter_sub q hq)))
        (hsorted.2.sublist (by rw [← hdw]; exact List.dropWhile_sublist _))) (fun r hr => ?_)
      apply Safe.pure
      obtain ⟨hr1, hr2, hr3, hr4, hr5⟩ := hr
      obtain ⟨hi1, hi2, hi3⟩ := hinner
      have hione : inner.out ≠ [] := by
        intro e; have := hi1.length_eq; rw [e] at this; simp at this
      have hilne : inner.lcp ≠ [] := by
        intro e; have := hi3.1; rw [e] at this
        exact hione (List.length_eq_zero_iff.1 this.symm)
      -- lcp list of the group with its head slot set
      have hio0 : (withHead prev p.length k inner).out = inner.out := by unfold withHead; cases prev <;> rfl
      have hlcpI : lcpOk inner.out (withHead prev p.length k inner).lcp := by
        unfold withHead
        cases prev with
        | none => exact hi3
        | some pk => exact lcpOk_set0 hi3 _
      have hhd : ∀ pk, prev = some pk → (withHead prev p.length k inner).lcp.head? = some (lcpT (p.length + lcpKeyType pk k)) := by
        intro pk hpk; subst hpk
        simp only [withHead, setLcp]
        cases hil : inner.lcp with
        | nil => exact absurd hil hilne
        | cons a l => simp
      generalize hin' : withHead prev p.length k inner = inner' at hio0 hlcpI hhd ⊢
      have hio : inner'.out = inner.out := hio0
      have hskmap : ((s, k) :: rest).map (·.1) = ((s, k) :: tw).map (·.1) ++ after.map (·.1) := by
        rw [← hsplit]; simp
      refine ⟨?_, ?_, ?_, ?_, ?_⟩
      · simp only [Res.append, hio]
        rw [hskmap]; exact hi1.append hr1
      · simp only [Res.append, hio]
        rw [List.pairwise_append]
        refine ⟨hi2, hr2, ?_⟩
        intro a ha b hb
        have ha' := hi1.mem_iff.1 ha
        have hb' := hr1.mem_iff.1 hb
        obtain ⟨qb, hqb, rfl⟩ := List.mem_map.1 hb'
        have hb2 := hmem qb (List.mem_cons_of_mem _ (hafter_sub qb hqb))
        exact keyLt_strLe (hgrp a ha').1 hb2.1 ⟨k, qb.2, (hgrp a ha').2, hb2.2, hafter_gt qb hqb⟩
      · simp only [Res.append, hio]
        by_cases hae : after = []
        · subst hae
          have ho : r.out = [] := List.length_eq_zero_iff.1 (by simpa using hr1.length_eq)
          have hl : r.lcp = [] := List.length_eq_zero_iff.1 (by rw [hr3.1, ho]; rfl)
          rw [ho, hl]; simpa [hio] using hlcpI
        · obtain ⟨q1, rest1, hq1⟩ := List.exists_cons_of_ne_nil hae
          have hrone : r.out ≠ [] := by
            intro e; have := hr1.length_eq; rw [e, hq1] at this; simp at this
          obtain ⟨y, hy, hyk⟩ := hr4 q1 (by rw [hq1]; rfl)
          have hrl := hr5 k q1 rfl (by rw [hq1]; rfl)
          have hq1m : q1 ∈ after := by rw [hq1]; simp
          obtain ⟨z, hz⟩ : ∃ z, inner.out.getLast? = some z := ⟨inner.out.getLast hione, List.getLast?_eq_some_getLast hione⟩
          have hzg := hi1.mem_iff.1 (List.mem_of_getLast? hz)
          have hym : y ∈ after.map (·.1) := hr1.mem_iff.1 (List.mem_of_head? hy)
          obtain ⟨qy, hqy, rfl⟩ := List.mem_map.1 hym
          have hyr := (hmem qy (List.mem_cons_of_mem _ (hafter_sub qy hqy))).1
          have := lcpOk_append (A := inner.out) (B := r.out) (LA := inner'.lcp) (LB := r.lcp) (by rw [← hio]; exact hio ▸ hlcpI) hr3 hrone
            (lcpT (p.length + lcpKeyType k q1.2)) (by
              intro _
              rw [hz, hy]
              exact congrArg lcpT (keyLt_lcp (hgrp z hzg).1 hyr (hgrp z hzg).2 hyk (hafter_gt q1 hq1m)).symm)
          have hset : r.lcp.set 0 (lcpT (p.length + lcpKeyType k q1.2)) = r.lcp := by
            cases hrl' : r.lcp with
            | nil => simp
            | cons a l => rw [hrl'] at hrl; simp at hrl; subst hrl; simp
          simpa [hione, hset] using this
      · intro q hq
        simp only [List.head?_cons, Option.some.injEq] at hq
        subst hq
        obtain ⟨y, hy⟩ : ∃ y, inner.out.head? = some y := ⟨inner.out.head hione, List.head?_eq_some_head hione⟩
        refine ⟨y, ?_, (hgrp y (hi1.mem_iff.1 (List.mem_of_head? hy))).2⟩
        simp only [Res.append, hio]
        rw [List.head?_append, hy]; rfl
      · intro pk q hpk hq
        simp only [List.head?_cons, Option.some.injEq] at hq
        subst hq
        simp only [Res.append]
        rw [List.head?_append, hhd pk hpk]; rfl

/-- **`insertion_sort_cache<false>` is correct.** -/
theorem insCacheBody_safe {p : Str} {strs : List Str} (hr : RangeOk p strs) :
    Safe af (insCacheBody strs p.length) (SortedLcp strs) := by
  unfold insCacheBody
  by_cases hn : strs.length ≤ 1
  · simp only [hn, if_true]
    apply Safe.pure
    match strs, hn with
    | [], _ => exact empty_good
    | [s], _ => exact single_good s
  · simp only [hn, if_false]
    refine Safe.bind (keysOf_safe hr) (fun keys hk => ?_)
    have hlen : strs.length = keys.length := hk.length_eq
    have hperm := List.mergeSort_perm (strs.zip keys) (fun a b => decide (a.2 ≤ b.2))
    have hsorted : ((strs.zip keys).mergeSort (fun a b => decide (a.2 ≤ b.2))).Pairwise (fun a b => a.2 ≤ b.2) := by
      have := List.pairwise_mergeSort (le := fun (a b : Str × Key) => decide (a.2 ≤ b.2))
        (by intro a b c h1 h2; simp only [decide_eq_true_eq, BitVec.le_def] at *; omega)
        (by intro a b; simp only [Bool.or_eq_true, decide_eq_true_eq, BitVec.le_def]; omega) (strs.zip keys)
      exact this.imp (fun h => by simpa using h)
    have hmem : ∀ q ∈ (strs.zip keys).mergeSort (fun a b => decide (a.2 ≤ b.2)),
        InRange p q.1 ∧ getKey? q.1 p.length = some q.2 := by
      intro q hq
      have hz := hperm.mem_iff.1 hq
      exact ⟨hr q.1 (List.of_mem_zip hz).1, hk.zip_mem q hz⟩
    have hl : ((strs.zip keys).mergeSort (fun a b => decide (a.2 ≤ b.2))).length < strs.length + 1 := by
      rw [hperm.length_eq, List.length_zip]; omega
    refine Safe.mono (insGroups_safe p _ _ none hl hmem hsorted) (fun r hr' => ?_)
    obtain ⟨h1, h2, h3, _, _⟩ := hr'
    refine ⟨h1.trans ?_, h2, h3⟩
    refine (hperm.map _).trans ?_
    rw [List.map_fst_zip (by omega)]

end TlxVerif.C04
