/-
C04 — termination of the sort-step protocol (fixed configuration): a ranking function `phi`
that strictly decreases with every transition except the creation of one more sub-step (a
`spawn` choice of the bucket / work-sharing loop), and progress of every non-quiescent state.
-/
import TlxVerif.Proofs.C04ProtoInv
namespace TlxVerif.C04.Proto

/-! ### the ranking function -/

def partsOf (objs : List Obj) (id : Nat) : Nat := ((objs[id]?).map (·.parts)).getD 0

def wDec : Phase → Nat → Nat
  | .dist, _ => 6            -- itself + distribute_finished: acc, incrH (4)
  | .count, n => 3 + (1 + n * 8)   -- itself + count_finished: acc, startLoop dist
def wEnq (ph : Phase) (n : Nat) : Nat := 2 + wDec ph n      -- itself + the part job: acc, decPwork
def wStart (ph : Phase) (n : Nat) : Nat := 1 + n * wEnq ph n
def wFirst : Kind → Nat → Nat
  | .big, n => 1 + wStart .count n
  | .small, _ => 5
def normParts (parts : Nat) : Nat := if parts = 0 then 1 else parts

/-- weight of a pending instruction: itself plus everything its execution can put in front of the
task or into the job queue (the object's own `substep_all_done` block is paid by the object) -/
def W (objs : List Obj) : Instr → Nat
  | .acc _ | .loop _ | .notify _ | .del _ => 1
  | .rpn _ => 2
  | .incrH _ _ => 4
  | .newChild _ k parts => 1 + wFirst k (normParts parts) + 4
  | .incrC _ k parts => 2 + wFirst k (normParts parts) + 4
  | .startLoop id ph => wStart ph (partsOf objs id)
  | .enq id ph => wEnq ph (partsOf objs id)
  | .decPwork id ph => wDec ph (partsOf objs id)

/-- a live step that has not started `substep_all_done` still owes its four instructions -/
def pot (o : Obj) : Nat := if o.alive && !(o.post && o.cnt == 0) then 4 else 0

def wList (objs : List Obj) (l : List Instr) : Nat := (l.map (W objs)).sum
def wTasks (objs : List Obj) (tasks : List (List Instr)) : Nat := (tasks.map (wList objs)).sum
def potSum (objs : List Obj) : Nat := (objs.map pot).sum

def phi (s : State) : Nat := wTasks s.objs s.tasks + potSum s.objs

/-- the transition creates one more sub-step (the only kind of step that may raise `phi`) -/
def isSpawn (i : Instr) (ch : Choice) : Bool :=
  match i, ch with
  | .loop _, .spawn _ _ => true
  | _, _ => false

/-- labelled step relation: `spawn = true` for the steps that let the job tree grow -/
def StepL (cfg : Cfg) (spawn : Bool) (s s' : State) : Prop :=
  ∃ pre i rest post ch, s.tasks = pre ++ (i :: rest) :: post ∧ s.err = none ∧ isSpawn i ch = spawn ∧
    s' = (let e := execHead cfg s.objs s.owed ch i
          { objs := e.objs, tasks := pre ++ (e.blk ++ rest) :: post ++ e.nt, owed := e.owed, err := e.err })

theorem StepL.step {cfg : Cfg} {b : Bool} {s s' : State} (h : StepL cfg b s s') : Step cfg s s' := by
  obtain ⟨pre, i, rest, post, ch, h1, h2, _, h4⟩ := h
  exact ⟨pre, i, rest, post, ch, h1, h2, h4⟩

theorem Step.stepL {cfg : Cfg} {s s' : State} (h : Step cfg s s') : ∃ b, StepL cfg b s s' := by
  obtain ⟨pre, i, rest, post, ch, h1, h2, h4⟩ := h
  exact ⟨isSpawn i ch, pre, i, rest, post, ch, h1, h2, rfl, h4⟩

/-! ### bookkeeping -/

theorem wTasks_append (objs : List Obj) (a b : List (List Instr)) : wTasks objs (a ++ b) = wTasks objs a + wTasks objs b := by
  simp [wTasks, List.sum_append]

theorem wTasks_cons (objs : List Obj) (t : List Instr) (ts : List (List Instr)) :
    wTasks objs (t :: ts) = wList objs t + wTasks objs ts := by simp [wTasks]

theorem wList_append (objs : List Obj) (a b : List Instr) : wList objs (a ++ b) = wList objs a + wList objs b := by
  simp [wList, List.sum_append]

theorem wList_cons (objs : List Obj) (i : Instr) (l : List Instr) : wList objs (i :: l) = W objs i + wList objs l := by
  simp [wList]

theorem W_congr {objs objs' : List Obj} {i : Instr} (h : partsOf objs' i.subj = partsOf objs i.subj) :
    W objs' i = W objs i := by
  cases i <;> simp only [W, Instr.subj] at h ⊢ <;> rw [h]

theorem wList_congr {objs objs' : List Obj} {l : List Instr}
    (h : ∀ i ∈ l, partsOf objs' i.subj = partsOf objs i.subj) : wList objs' l = wList objs l := by
  induction l with
  | nil => rfl
  | cons a l ih =>
    rw [wList_cons, wList_cons, W_congr (h a (by simp)), ih (fun i hi => h i (List.mem_cons_of_mem _ hi))]

theorem wTasks_congr {objs objs' : List Obj} {ts : List (List Instr)}
    (h : ∀ t ∈ ts, ∀ i ∈ t, partsOf objs' i.subj = partsOf objs i.subj) : wTasks objs' ts = wTasks objs ts := by
  induction ts with
  | nil => rfl
  | cons t ts ih =>
    rw [wTasks_cons, wTasks_cons, wList_congr (h t (by simp)), ih (fun t' ht' => h t' (List.mem_cons_of_mem _ ht'))]

theorem partsOf_modObj {objs : List Obj} {id : Nat} {f : Obj → Obj} (hf : ∀ o, (f o).parts = o.parts) (j : Nat) :
    partsOf (modObj objs id f) j = partsOf objs j := by
  unfold partsOf
  rw [modObj_get]
  by_cases hj : j = id
  · subst hj; cases objs[j]? <;> simp [hf]
  · simp [hj]

theorem potSum_modObj {objs : List Obj} {id : Nat} {f : Obj → Obj} {o : Obj} (ho : objs[id]? = some o) :
    potSum (modObj objs id f) + pot o = potSum objs + pot (f o) := by
  unfold modObj
  rw [ho]
  simp only
  have hlt : id < objs.length := (List.getElem?_eq_some_iff.1 ho).1
  have hsplit : objs = objs.take id ++ o :: objs.drop (id + 1) := by
    have := (List.getElem?_eq_some_iff.1 ho).2
    rw [← this, List.getElem_cons_drop, List.take_append_drop]
  have hset : objs.set id (f o) = objs.take id ++ f o :: objs.drop (id + 1) := by
    conv => lhs; rw [hsplit]
    rw [List.set_append_right _ _ (by simp; omega)]
    simp [List.length_take, Nat.min_eq_left (Nat.le_of_lt hlt)]
  rw [hset]
  conv => rhs; rw [hsplit]
  simp only [potSum, List.map_append, List.map_cons, List.sum_append, List.sum_cons]
  omega

theorem partsOf_of_get {objs : List Obj} {id : Nat} {o : Obj} (h : objs[id]? = some o) : partsOf objs id = o.parts := by
  simp [partsOf, h]

/-- comparing `phi` before and after a transition -/
theorem phi_lt_of {s : State} (hinv : Inv s) {pre post nt : List (List Instr)} {i : Instr} {rest blk : List Instr}
    (ht : s.tasks = pre ++ (i :: rest) :: post) (objs' : List Obj) (owed' : List (Nat × Nat)) (err' : Option Err)
    (hparts : ∀ j, j < s.objs.length → partsOf objs' j = partsOf s.objs j)
    (hkey : wList objs' blk + wTasks objs' nt + potSum objs' < W s.objs i + potSum s.objs) :
    phi { objs := objs', tasks := pre ++ (blk ++ rest) :: post ++ nt, owed := owed', err := err' } < phi s := by
  have hold : ∀ t ∈ pre ++ rest :: post, ∀ x ∈ t, partsOf objs' x.subj = partsOf s.objs x.subj := by
    intro t htm x hx
    have := all_pop (P := fun x => aliveAt s.objs x.subj = true) (by simpa [ht] using hinv.refsAlive) t htm x hx
    exact hparts _ (aliveAt_lt this)
  have e1 : wTasks objs' (pre ++ (blk ++ rest) :: post ++ nt) =
      wTasks s.objs (pre ++ rest :: post) + wList objs' blk + wTasks objs' nt := by
    have hpre := wTasks_congr (objs := s.objs) (objs' := objs') (ts := pre) (fun t ht' => hold t (by simp [ht']))
    have hpost := wTasks_congr (objs := s.objs) (objs' := objs') (ts := post) (fun t ht' => hold t (by simp [ht']))
    have hrest := wList_congr (objs := s.objs) (objs' := objs') (l := rest) (hold rest (by simp))
    simp only [wTasks_append, wTasks_cons, wList_append, hpre, hpost, hrest]
    omega
  have e2 : wTasks s.objs (pre ++ (i :: rest) :: post) = wTasks s.objs (pre ++ rest :: post) + W s.objs i := by
    simp only [wTasks_append, wTasks_cons, wList_cons]; omega
  simp only [phi, ht, e1, e2]
  omega

theorem pot_same {o : Obj} (f : Obj → Obj) (h1 : (f o).alive = o.alive) (h2 : (f o).post = o.post) (h3 : (f o).cnt = o.cnt) :
    pot (f o) = pot o := by simp [pot, h1, h2, h3]

/-- **The ranking function decreases** with every transition of the fixed system that does not
create a further sub-step. -/
theorem phi_decreases {s s' : State} (hinv : Inv s) (h : StepL Cfg.fixed false s s') : phi s' < phi s := by
  obtain ⟨pre, i, rest, post, ch, ht, _, hsp, rfl⟩ := h
  have hia : aliveAt s.objs i.subj = true := hinv.refsAlive (i :: rest) (by simp [ht]) i (by simp)
  obtain ⟨o, ho, ha⟩ := aliveAt_iff.1 hia
  have hl := hinv.loc _ o ho ha
  rw [ht] at hl
  have hpo := partsOf_of_get ho
  have hmod : ∀ (f : Obj → Obj), (∀ o, (f o).parts = o.parts) →
      ∀ j, j < s.objs.length → partsOf (modObj s.objs i.subj f) j = partsOf s.objs j :=
    fun f hf j _ => partsOf_modObj hf j
  cases i with
  | acc id =>
    simp only [Instr.subj] at hia ho
    simp only [execHead, hia, ho, Instr.subj, not_true_eq_false, if_false]
    exact phi_lt_of hinv ht _ _ _ (fun _ _ => rfl) (by simp [wList, wTasks, W])
  | startLoop id ph =>
    simp only [Instr.subj] at hia ho hpo hmod
    simp only [execHead, hia, ho, Instr.subj, not_true_eq_false, if_false]
    refine phi_lt_of hinv ht _ _ _ (hmod _ (fun _ => rfl)) ?_
    have hp := potSum_modObj (f := fun o => { o with pwork := o.parts }) ho
    rw [pot_same (fun o => { o with pwork := o.parts }) rfl rfl rfl] at hp
    have hw : wList (modObj s.objs id fun o => { o with pwork := o.parts }) (enqLoop Cfg.fixed id ph o.parts) =
        o.parts * wEnq ph o.parts := by
      simp only [enqLoop, Cfg.fixed, Bool.false_eq_true, if_false, wList, List.map_replicate, List.sum_replicate_nat, W]
      rw [partsOf_modObj (f := fun o => { o with pwork := o.parts }) (fun _ => rfl), hpo]
    rw [hw]
    simp only [wTasks, List.map_nil, List.sum_nil, W, hpo, wStart]
    omega
  | enq id ph =>
    simp only [Instr.subj] at hia ho hpo
    simp only [execHead, hia, ho, Instr.subj, not_true_eq_false, if_false]
    refine phi_lt_of hinv ht _ _ _ (fun _ _ => rfl) ?_
    simp [wList, wTasks, W, partJob, hpo, wEnq]
  | decPwork id ph =>
    simp only [Instr.subj] at hia ho hpo hmod
    simp only [execHead, hia, ho, Instr.subj, not_true_eq_false, if_false]
    have hpw : o.pwork ≠ 0 := by
      loc_simp at hl
      grind
    simp only [hpw, if_false]
    refine phi_lt_of hinv ht _ _ _ (hmod _ (fun _ => rfl)) ?_
    have hp := potSum_modObj (f := fun o => { o with pwork := o.pwork - 1 }) ho
    rw [pot_same (fun o => { o with pwork := o.pwork - 1 }) rfl rfl rfl] at hp
    have hpp : partsOf (modObj s.objs id fun o => { o with pwork := o.pwork - 1 }) id = o.parts := by
      rw [partsOf_modObj (f := fun o => { o with pwork := o.pwork - 1 }) (fun _ => rfl), hpo]
    split
    · cases ph <;> simp [wList, wTasks, W, finishedBlk, countFinished, distFinished, hpo, hpp, wDec, wStart, wEnq] <;> omega
    · cases ph <;> simp [wList, wTasks, W, hpo, wDec] <;> omega
  | incrH id big =>
    simp only [Instr.subj] at hia ho hpo hmod
    simp only [execHead, hia, ho, Instr.subj, not_true_eq_false, if_false]
    refine phi_lt_of hinv ht _ _ _ (hmod _ (fun _ => rfl)) ?_
    have hp := potSum_modObj (f := fun o => { o with cnt := o.cnt + 1, post := true }) ho
    have hpost : o.post = false := by
      loc_simp at hl
      grind
    have h1 : pot ({ o with cnt := o.cnt + 1, post := true } : Obj) = 4 := by simp [pot, ha]
    have h2 : pot o = 4 := by simp [pot, ha, hpost]
    simp only [h1, h2] at hp
    cases big <;> simp [wList, wTasks, W, afterHandle, Cfg.fixed] <;> omega
  | incrC id k parts =>
    simp only [Instr.subj] at hia ho hpo hmod
    simp only [execHead, hia, ho, Instr.subj, not_true_eq_false, if_false]
    refine phi_lt_of hinv ht _ _ _ (hmod _ (fun _ => rfl)) ?_
    have hp := potSum_modObj (f := fun o => { o with cnt := o.cnt + 1 }) ho
    have hnd : ¬ (o.post = true ∧ o.cnt = 0) := by
      loc_simp at hl
      grind
    have h1 : pot ({ o with cnt := o.cnt + 1 } : Obj) = 4 := by simp [pot, ha]
    have h2 : pot o = 4 := by
      simp only [pot, ha, Bool.true_and]
      by_cases hpst : o.post = true
      · have : o.cnt ≠ 0 := fun e => hnd ⟨hpst, e⟩
        simp [hpst, this]
      · simp [hpst]
    simp only [h1, h2] at hp
    simp [wList, wTasks, W]
    omega
  | loop id =>
    simp only [Instr.subj] at hia ho
    cases ch with
    | spawn k parts => simp [isSpawn] at hsp
    | none =>
      simp only [execHead, hia, ho, Instr.subj, not_true_eq_false, if_false]
      exact phi_lt_of hinv ht _ _ _ (fun _ _ => rfl) (by simp [wList, wTasks, W])
    | exit =>
      simp only [execHead, hia, ho, Instr.subj, not_true_eq_false, if_false]
      exact phi_lt_of hinv ht _ _ _ (fun _ _ => rfl) (by simp [wList, wTasks, W])
  | newChild id k parts =>
    simp only [Instr.subj] at hia ho
    simp only [execHead, hia, ho, Instr.subj, not_true_eq_false, if_false]
    refine phi_lt_of hinv ht _ _ _ ?_ ?_
    · intro j hj
      simp only [partsOf]
      rw [List.getElem?_append_left hj]
    · have hpc : partsOf (s.objs ++ [childObj id parts]) s.objs.length = normParts parts := by
        simp [partsOf, childObj, normParts]
      have hps : potSum (s.objs ++ [childObj id parts]) = potSum s.objs + 4 := by
        simp [potSum, List.sum_append, pot, childObj]
      rw [hps]
      cases k <;> simp [wList, wTasks, W, firstProg, sampleProg, smallProg, hpc, wFirst] <;> omega
  | notify id =>
    simp only [Instr.subj] at hia ho hmod
    simp only [execHead, hia, ho, Instr.subj, not_true_eq_false, if_false]
    have hcnt : o.cnt ≠ 0 := by
      loc_simp at hl
      grind
    simp only [hcnt, if_false]
    refine phi_lt_of hinv ht _ _ _ (hmod _ (fun _ => rfl)) ?_
    have hp := potSum_modObj (f := fun o => { o with cnt := o.cnt - 1 }) ho
    have hpost : o.post = true := by
      loc_simp at hl
      grind
    have h2 : pot o = 4 := by simp [pot, ha, hcnt]
    split
    · rename_i hz
      have h1 : pot ({ o with cnt := o.cnt - 1 } : Obj) = 0 := by simp [pot, hpost, hz]
      simp only [h1, h2] at hp
      simp [wList, wTasks, W, allDone]
      omega
    · rename_i hz
      have h1 : pot ({ o with cnt := o.cnt - 1 } : Obj) = 4 := by simp [pot, ha, hz]
      simp only [h1, h2] at hp
      simp [wList, wTasks, W]
      omega
  | rpn id =>
    simp only [Instr.subj] at hia ho
    simp only [execHead, hia, ho, Instr.subj, not_true_eq_false, if_false]
    cases hp : o.parent with
    | none => exact phi_lt_of hinv ht _ _ _ (fun _ _ => rfl) (by simp [wList, wTasks, W])
    | some p => exact phi_lt_of hinv ht _ _ _ (fun _ _ => rfl) (by simp [wList, wTasks, W])
  | del id =>
    simp only [Instr.subj] at hia ho hmod
    simp only [execHead, hia, ho, Instr.subj, not_true_eq_false, if_false]
    have hc : o.cnt = 0 := by
      loc_simp at hl
      grind
    simp only [hc, ne_eq, not_true_eq_false, if_false]
    refine phi_lt_of hinv ht _ _ _ (hmod _ (fun _ => rfl)) ?_
    have hp := potSum_modObj (f := fun o => { o with alive := false }) ho
    have h1 : pot ({ o with alive := false } : Obj) = 0 := by simp [pot]
    rw [h1] at hp
    simp [wList, wTasks, W]
    omega

/-! ### progress and termination -/

/-- a state that is not quiescent can make a step that does not create a sub-step -/
theorem progress {s : State} (hinv : Inv s) (hq : ¬ s.quiescent) : ∃ s', StepL Cfg.fixed false s s' := by
  unfold State.quiescent at hq
  have : ∃ t ∈ s.tasks, t ≠ [] := by
    apply Classical.byContradiction
    intro hn
    apply hq
    intro t ht
    apply Classical.byContradiction
    intro hne
    exact hn ⟨t, ht, hne⟩
  obtain ⟨t, ht, hne⟩ := this
  obtain ⟨i, rest, rfl⟩ := List.exists_cons_of_ne_nil hne
  obtain ⟨pre, post, hsplit⟩ := List.append_of_mem ht
  refine ⟨_, pre, i, rest, post, .exit, hsplit, hinv.err, ?_, rfl⟩
  cases i <;> rfl

/-- `n` consecutive steps that create no sub-step -/
inductive WorkSteps : Nat → State → State → Prop
  | refl (s : State) : WorkSteps 0 s s
  | step {n : Nat} {s s' s'' : State} : StepL Cfg.fixed false s s' → WorkSteps n s' s'' → WorkSteps (n + 1) s s''

theorem WorkSteps.reachable {n : Nat} {s s' : State} (h : WorkSteps n s s') (hr : Reachable Cfg.fixed s) :
    Reachable Cfg.fixed s' := by
  induction h with
  | refl s => exact hr
  | step hs _ ih => exact ih (Reachable.step hr hs.step)

/-- at most `phi s` steps can be made from `s` without creating a sub-step -/
theorem workSteps_bounded {n : Nat} {s s' : State} (h : WorkSteps n s s') (hr : Reachable Cfg.fixed s) :
    n + phi s' ≤ phi s := by
  induction h with
  | refl s => omega
  | step hs _ ih =>
    have h1 := phi_decreases (inv_reachable hr) hs
    have h2 := ih (Reachable.step hr hs.step)
    omega

/-- from every reachable state the quiescent state is reached by finishing the pending work -/
theorem reaches_quiescent {s : State} (hr : Reachable Cfg.fixed s) : ∃ n s', WorkSteps n s s' ∧ s'.quiescent := by
  generalize hm : phi s = m
  induction m using Nat.strongRecOn generalizing s with
  | _ m ih =>
    by_cases hq : s.quiescent
    · exact ⟨0, s, WorkSteps.refl s, hq⟩
    · obtain ⟨s1, hs1⟩ := progress (inv_reachable hr) hq
      have hlt := phi_decreases (inv_reachable hr) hs1
      obtain ⟨n, s', hw, hq'⟩ := ih (phi s1) (by omega) (Reachable.step hr hs1.step) rfl
      exact ⟨n + 1, s', WorkSteps.step hs1 hw, hq'⟩

/-- an infinite run creates sub-steps again and again: with a finite job tree every run is finite -/
theorem infinite_run_spawns (f : Nat → State) (h0 : Reachable Cfg.fixed (f 0))
    (hstep : ∀ n, ∃ b, StepL Cfg.fixed b (f n) (f (n + 1))) :
    ∀ n, ∃ m, n ≤ m ∧ StepL Cfg.fixed true (f m) (f (m + 1)) := by
  have hreach : ∀ n, Reachable Cfg.fixed (f n) := by
    intro n
    induction n with
    | zero => exact h0
    | succ n ih =>
      obtain ⟨b, hb⟩ := hstep n
      exact Reachable.step ih hb.step
  intro n
  apply Classical.byContradiction
  intro hno
  have hwork : ∀ m, n ≤ m → StepL Cfg.fixed false (f m) (f (m + 1)) := by
    intro m hm
    obtain ⟨b, hb⟩ := hstep m
    cases b with
    | false => exact hb
    | true => exact absurd ⟨m, hm, hb⟩ hno
  have hdec : ∀ k, phi (f (n + k)) + k ≤ phi (f n) := by
    intro k
    induction k with
    | zero => simp
    | succ k ih =>
      have := phi_decreases (inv_reachable (hreach (n + k))) (hwork (n + k) (by omega))
      have e : n + (k + 1) = n + k + 1 := by omega
      rw [e]; omega
  have := hdec (phi (f n) + 1)
  omega

end TlxVerif.C04.Proto
