/-
C04 — `splitter_lcp`: the entries emitted by the tree builder are `lcpEntry prev s` for every
in-order splitter `s` and its in-order predecessor `prev` (the `rec_prevkey` sentinel for the
first one): `clz(prev ^ s) / 8`, with the `0x80` flag when `s` ends inside its key.
-/
import TlxVerif.Proofs.C04Build
namespace TlxVerif.C04

/-- the `splitter_lcp` entries of the splitters `S` whose in-order predecessor is `prev` -/
def slcpEntries (prev : Key) : List Key → List Nat
  | [] => []
  | s :: rest => lcpEntry prev s :: slcpEntries s rest

theorem slcpEntries_append (prev : Key) (A B : List Key) :
    slcpEntries prev (A ++ B) = slcpEntries prev A ++ slcpEntries ((A.getLast?).getD prev) B := by
  induction A generalizing prev with
  | nil => simp [slcpEntries]
  | cons a A ih =>
    simp only [List.cons_append, slcpEntries, ih, List.cons.injEq, true_and]
    congr 2
    cases A with
    | nil => simp
    | cons b A =>
      rw [List.getLast?_cons_cons]
      have : ∃ x, (b :: A).getLast? = some x := ⟨(b :: A).getLast (by simp), List.getLast?_eq_some_getLast (by simp)⟩
      obtain ⟨x, hx⟩ := this
      rw [hx]; rfl

theorem slcpEntries_length (prev : Key) (S : List Key) : (slcpEntries prev S).length = S.length := by
  induction S generalizing prev with
  | nil => rfl
  | cons s S ih => simp [slcpEntries, ih]

theorem slcpEntries_get (prev : Key) (S : List Key) (i : Nat) (hi : i < S.length) :
    (slcpEntries prev S)[i]? = some (lcpEntry (if i = 0 then prev else (S[i - 1]?).getD prev) (S[i]?.getD prev)) := by
  induction S generalizing prev i with
  | nil => simp at hi
  | cons s S ih =>
    cases i with
    | zero => simp [slcpEntries]
    | succ i =>
      simp only [List.length_cons, Nat.add_lt_add_iff_right] at hi
      simp only [slcpEntries, List.getElem?_cons_succ, ih s i hi, Nat.add_sub_cancel]
      cases i with
      | zero => simp [List.getElem?_eq_getElem hi]
      | succ i =>
        have h1 : S[i]? = some S[i] := List.getElem?_eq_getElem (by omega)
        have h2 : S[i + 1]? = some S[i + 1] := List.getElem?_eq_getElem hi
        simp [h1, h2]

theorem buildRec_lcp (samples : Array Key) (ns : Nat) :
    ∀ (L lo hi idx : Nat) (recPrev : Key) (st st' : BuildSt) (last : Key),
      buildRec samples ns L lo hi idx recPrev st = some (st', last) →
      ∃ S, st'.splRev = S.reverse ++ st.splRev ∧ st'.lcpRev = (slcpEntries recPrev S).reverse ++ st.lcpRev ∧
        S.getLast? = some last := by
  intro L
  induction L with
  | zero => intro lo hi idx recPrev st st' last h; simp [buildRec] at h
  | succ f ih =>
    intro lo hi idx recPrev st st' last hrun
    simp only [buildRec, Option.bind_eq_bind] at hrun
    cases hmk : samples[lo + (hi - lo) / 2]? with
    | none => simp [hmk] at hrun
    | some mykey =>
      simp only [hmk, Option.bind_some] at hrun
      split at hrun
      · cases hrun
      · split at hrun
        · cases hl : buildRec samples ns f lo (midLo samples lo mykey (lo + (hi - lo) / 2)) (2 * idx) recPrev
              { st with tree := st.tree.setIfInBounds idx mykey } with
          | none => simp [hl] at hrun
          | some resl =>
            obtain ⟨st2, prevkey⟩ := resl
            simp only [hl, Option.bind_some] at hrun
            obtain ⟨SL, hL1, hL2, hL3⟩ := ih _ _ _ _ _ _ _ hl
            obtain ⟨SR, hR1, hR2, hR3⟩ := ih _ _ _ _ _ _ _ hrun
            refine ⟨SL ++ mykey :: SR, ?_, ?_, ?_⟩
            · simp only [hR1, hL1, List.reverse_append, List.reverse_cons, List.append_assoc, List.cons_append,
                List.nil_append]
            · rw [slcpEntries_append]
              simp only [slcpEntries, hL3, Option.getD_some, hR2, hL2, List.reverse_append, List.reverse_cons,
                List.append_assoc, List.cons_append, List.nil_append]
            · rw [List.getLast?_append]
              cases SR with
              | nil => simp at hR3
              | cons r SR' =>
                rw [List.getLast?_cons_cons, hR3]; rfl
        · simp only [Option.pure_def, Option.some.injEq, Prod.mk.injEq] at hrun
          obtain ⟨rfl, rfl⟩ := hrun
          exact ⟨[mykey], by simp, by simp [slcpEntries], by simp⟩

/-- **`splitter_lcp` of the classifier.**  Entry `i` (`0 < i < num_splitters`) is
`lcpKeyType(splitter[i-1], splitter[i])` plus 128 iff `splitter[i]` ends inside its key; entry 0
carries the flag only; the entry behind the last splitter is 0. -/
theorem build_slcp {tb : Nat} {samples : Array Key} {c : Classifier} (h : build tb samples = some c) :
    c.slcp = (match slcpEntries 0 c.splitters with
      | [] => []
      | x :: xs => (if x ≥ 128 then 128 else 0) :: xs) ++ [0] := by
  unfold build at h
  simp only [Option.bind_eq_bind] at h
  cases hb : buildRec samples (numSplitters tb) tb 0 samples.size 1 0
      { tree := Array.replicate (numSplitters tb + 1) 0, splRev := [], lcpRev := [] } with
  | none => rw [hb] at h; simp at h
  | some res =>
    obtain ⟨st, last⟩ := res
    rw [hb] at h
    simp only [Option.bind_some, Option.pure_def, Option.some.injEq] at h
    obtain ⟨S, hS1, hS2, _⟩ := buildRec_lcp samples _ _ _ _ _ _ _ _ _ hb
    subst h
    simp only [List.append_nil] at hS1 hS2
    simp only [hS1, hS2, List.reverse_reverse]
    cases slcpEntries 0 S <;> rfl

end TlxVerif.C04
