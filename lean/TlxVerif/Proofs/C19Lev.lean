/-
C19 — the two-row dynamic programme of levenshtein.hpp computes the defining recurrence.
-/
import TlxVerif.Model.C19Helpers
import TlxVerif.Model.C19Spec
namespace TlxVerif.C19
open TlxVerif.C18 (Bytes npos)

section
variable (eq : UInt8 → UInt8 → Bool) (a b : Bytes)

/-- row `j` of the full matrix, from column `k` on, `n` entries -/
def rowFrom (j k n : Nat) : List Nat := (List.range n).map fun t => Spec.levD eq a b (k + t) j

theorem rowFrom_succ (j k n : Nat) :
    rowFrom eq a b j k (n + 1) = Spec.levD eq a b k j :: rowFrom eq a b j (k + 1) n := by
  unfold rowFrom
  rw [List.range_succ_eq_map]
  simp only [List.map_cons, List.map_map, Nat.add_zero]
  congr 1
  apply List.map_congr_left
  intro t _
  simp only [Function.comp]
  congr 1
  omega

/-- the inner loop fills the new row from the old one -/
theorem levRowLoop_eq (j : Nat) : ∀ (as : Bytes) (k : Nat), a.drop k = as →
    levRowLoop eq (b.getD j 0) as (rowFrom eq a b j k (as.length + 1)) (Spec.levD eq a b k (j + 1)) =
      rowFrom eq a b (j + 1) (k + 1) as.length
  | [], k, _ => by simp [levRowLoop, rowFrom]
  | ai :: as, k, h => by
    have hk : k < a.length := by
      apply Decidable.byContradiction
      intro hge
      have : a.drop k = [] := List.drop_eq_nil_of_le (by omega)
      rw [this] at h; simp at h
    have hai : a.getD k 0 = ai := by
      have := List.drop_eq_getElem_cons hk
      rw [this] at h
      simp only [List.cons.injEq] at h
      rw [List.getD_eq_getElem?_getD, List.getElem?_eq_getElem hk]
      exact h.1
    have has : a.drop (k + 1) = as := by
      have := List.drop_eq_getElem_cons hk
      rw [this] at h
      simp only [List.cons.injEq] at h
      exact h.2
    rw [List.length_cons, rowFrom_succ, rowFrom_succ, levRowLoop]
    have hv : min (min (Spec.levD eq a b k (j + 1) + 1) (Spec.levD eq a b (k + 1) j + 1))
        (Spec.levD eq a b k j + (if eq ai (b.getD j 0) then 0 else 1)) = Spec.levD eq a b (k + 1) (j + 1) := by
      rw [Spec.levD, hai]
    rw [hv, rowFrom_succ]
    congr 1
    have ih := levRowLoop_eq j as (k + 1) has
    rw [rowFrom_succ] at ih
    exact ih

/-- one step of the outer loop: row `j` becomes row `j + 1` -/
theorem levNextRow_eq (j : Nat) :
    levNextRow eq a (rowFrom eq a b j 0 (a.length + 1)) (b.getD j 0) (j + 1) = rowFrom eq a b (j + 1) 0 (a.length + 1) := by
  unfold levNextRow
  rw [rowFrom_succ eq a b (j + 1) 0 a.length]
  have h0 : Spec.levD eq a b 0 (j + 1) = j + 1 := by rw [Spec.levD]
  rw [h0]
  congr 1
  have := levRowLoop_eq eq a b j a 0 (by simp)
  rw [h0] at this
  simpa using this

/-- the outer loop over the rest of `b` -/
theorem levRows_eq : ∀ (bs : Bytes) (j : Nat), j ≤ b.length → b.drop j = bs →
    levRows eq a bs (rowFrom eq a b j 0 (a.length + 1)) (j + 1) = rowFrom eq a b b.length 0 (a.length + 1)
  | [], j, hj, h => by
    have : j = b.length := by
      have := congrArg List.length h
      simp only [List.length_drop, List.length_nil] at this
      omega
    simp only [levRows, this]
  | bj :: bs, j, hj, h => by
    have hlt : j < b.length := by
      have := congrArg List.length h
      simp only [List.length_drop, List.length_cons] at this
      omega
    have hd := List.drop_eq_getElem_cons hlt
    rw [hd] at h
    simp only [List.cons.injEq] at h
    have hbj : b.getD j 0 = bj := by
      rw [List.getD_eq_getElem?_getD, List.getElem?_eq_getElem hlt]; exact h.1
    rw [levRows, ← hbj, levNextRow_eq]
    exact levRows_eq bs (j + 1) (by omega) h.2

end

/-- `levD` does not look beyond the prefixes it is asked about, and swapping the arguments
transposes the matrix (for a symmetric character comparison) -/
theorem levD_swap (eq : UInt8 → UInt8 → Bool) (hsym : ∀ x y, eq x y = eq y x) (a b : Bytes) :
    ∀ i j, Spec.levD eq a b i j = Spec.levD eq b a j i
  | 0, 0 => by simp [Spec.levD]
  | 0, j + 1 => by simp [Spec.levD]
  | i + 1, 0 => by simp [Spec.levD]
  | i + 1, j + 1 => by
    rw [Spec.levD, Spec.levD, levD_swap eq hsym a b i (j + 1), levD_swap eq hsym a b (i + 1) j,
      levD_swap eq hsym a b i j, hsym (a.getD i 0) (b.getD j 0)]
    congr 1
    exact Nat.min_comm _ _

theorem levD_zero_right (eq : UInt8 → UInt8 → Bool) (a b : Bytes) : ∀ i, Spec.levD eq a b i 0 = i
  | 0 => by simp [Spec.levD]
  | i + 1 => by simp [Spec.levD]

/-- `levenshtein_algorithm` (two rows, the longer string along the rows) computes `lev_{a,b}(|a|,|b|)` -/
theorem levenshteinAlg_eq (eq : UInt8 → UInt8 → Bool) (hsym : ∀ x y, eq x y = eq y x) (a b : Bytes) :
    levenshteinAlg eq a b = Spec.lev eq a b := by
  unfold levenshteinAlg Spec.lev
  by_cases ha : a.length = 0
  · simp [ha, Spec.levD]
  · by_cases hb : b.length = 0
    · simp [ha, hb, levD_zero_right]
    · simp only [ha, hb, if_false]
      have hrow0 : ∀ x : Bytes, List.range (x.length + 1) = rowFrom eq x ([] : Bytes) 0 0 (x.length + 1) := by
        intro x
        unfold rowFrom
        simp [levD_zero_right]
      have hlast : ∀ (x y : Bytes), (rowFrom eq x y y.length 0 (x.length + 1)).getLastD 0 =
          Spec.levD eq x y x.length y.length := by
        intro x y
        unfold rowFrom
        rw [List.range_succ]
        simp
      -- row 0 does not depend on the second string
      have hrow0' : ∀ x y : Bytes, rowFrom eq x ([] : Bytes) 0 0 (x.length + 1) = rowFrom eq x y 0 0 (x.length + 1) := by
        intro x y
        unfold rowFrom
        simp [levD_zero_right]
      by_cases hlt : a.length < b.length
      · simp only [hlt, if_true]
        rw [hrow0 b, hrow0' b a, levRows_eq eq b a a 0 (by omega) (by simp), hlast]
        exact (levD_swap eq hsym a b a.length b.length).symm
      · simp only [hlt, if_false]
        rw [hrow0 a, hrow0' a b, levRows_eq eq a b b 0 (by omega) (by simp), hlast]

end TlxVerif.C19

namespace TlxVerif.C19
open TlxVerif.C18 (Bytes npos)

/-! ### the prefix recurrence and the head recursion agree -/

section
variable (eq : UInt8 → UInt8 → Bool)

theorem levFront_nil_left (b : Bytes) : Spec.levFront eq [] b = b.length := by
  rw [Spec.levFront]

theorem levFront_nil_right (a : Bytes) : Spec.levFront eq a [] = a.length := by
  cases a with
  | nil => rw [Spec.levFront]
  | cons x a => rw [Spec.levFront]; simp

theorem levFront_cons_cons (x y : UInt8) (a b : Bytes) :
    Spec.levFront eq (x :: a) (y :: b) =
      min (min (Spec.levFront eq a (y :: b) + 1) (Spec.levFront eq (x :: a) b + 1))
        (Spec.levFront eq a b + (if eq x y then 0 else 1)) := by
  rw [Spec.levFront]

/-- the head recursion also satisfies the recurrence at the *ends* of the strings -/
theorem levFront_snoc (n : Nat) : ∀ (a b : Bytes) (x y : UInt8), a.length + b.length ≤ n →
    Spec.levFront eq (a ++ [x]) (b ++ [y]) =
      min (min (Spec.levFront eq a (b ++ [y]) + 1) (Spec.levFront eq (a ++ [x]) b + 1))
        (Spec.levFront eq a b + (if eq x y then 0 else 1)) := by
  induction n with
  | zero =>
    intro a b x y h
    have ha : a = [] := List.length_eq_zero_iff.mp (by omega)
    have hb : b = [] := List.length_eq_zero_iff.mp (by omega)
    subst ha; subst hb
    simp only [List.nil_append, levFront_cons_cons, levFront_nil_left, levFront_nil_right]
  | succ n ih =>
    intro a b x y h
    cases a with
    | nil =>
      cases b with
      | nil => simp only [List.nil_append, levFront_cons_cons, levFront_nil_left, levFront_nil_right]
      | cons y0 b' =>
        have ih1 := ih [] b' x y (by simp only [List.length_cons, List.length_nil] at h ⊢; omega)
        simp only [List.nil_append] at ih1 ⊢
        rw [List.cons_append, levFront_cons_cons, levFront_cons_cons, ih1]
        simp only [levFront_nil_left, List.length_cons, List.length_append, List.length_nil]
        omega
    | cons x0 a' =>
      cases b with
      | nil =>
        have ih1 := ih a' [] x y (by simp only [List.length_cons, List.length_nil] at h ⊢; omega)
        simp only [List.nil_append] at ih1 ⊢
        rw [List.cons_append, levFront_cons_cons, levFront_cons_cons, ih1]
        simp only [levFront_nil_right, List.length_cons, List.length_append, List.length_nil]
        omega
      | cons y0 b' =>
        have hl : a'.length + b'.length + 1 ≤ n := by simp only [List.length_cons] at h; omega
        have ih1 := ih a' (y0 :: b') x y (by simp only [List.length_cons]; omega)
        have ih2 := ih (x0 :: a') b' x y (by simp only [List.length_cons]; omega)
        have ih3 := ih a' b' x y (by omega)
        simp only [List.cons_append] at ih1 ih2 ⊢
        rw [levFront_cons_cons eq x0 y0 (a' ++ [x]) (b' ++ [y]), ih1, ih2, ih3]
        rw [levFront_cons_cons eq x0 y0 a' (b' ++ [y]), levFront_cons_cons eq x0 y0 (a' ++ [x]) b',
          levFront_cons_cons eq x0 y0 a' b']
        generalize Spec.levFront eq a' (y0 :: (b' ++ [y])) = t1
        generalize Spec.levFront eq (a' ++ [x]) (y0 :: b') = t2
        generalize Spec.levFront eq a' (y0 :: b') = t3
        generalize Spec.levFront eq (x0 :: a') (b' ++ [y]) = t4
        generalize Spec.levFront eq (x0 :: (a' ++ [x])) b' = t5
        generalize Spec.levFront eq (x0 :: a') b' = t6
        generalize Spec.levFront eq a' (b' ++ [y]) = t7
        generalize Spec.levFront eq (a' ++ [x]) b' = t8
        generalize Spec.levFront eq a' b' = t9
        generalize (if eq x y = true then 0 else 1) = c
        generalize (if eq x0 y0 = true then 0 else 1) = c0
        simp only [← Nat.add_min_add_right]
        ac_rfl

/-- the matrix of the prefix recurrence holds the head-recursive distances of the prefixes -/
theorem levD_eq_levFront_take (a b : Bytes) : ∀ i j, i ≤ a.length → j ≤ b.length →
    Spec.levD eq a b i j = Spec.levFront eq (a.take i) (b.take j)
  | 0, j, _, hj => by
    rw [Spec.levD]; simp [levFront_nil_left, List.length_take, Nat.min_eq_left hj]
  | i + 1, 0, hi, _ => by
    rw [Spec.levD]; simp [levFront_nil_right, List.length_take, Nat.min_eq_left hi]
  | i + 1, j + 1, hi, hj => by
    have hia : i < a.length := by omega
    have hjb : j < b.length := by omega
    rw [Spec.levD, levD_eq_levFront_take a b i (j + 1) (by omega) hj,
      levD_eq_levFront_take a b (i + 1) j hi (by omega), levD_eq_levFront_take a b i j (by omega) (by omega)]
    have ha : a.take (i + 1) = a.take i ++ [a.getD i 0] := by
      rw [List.take_add_one, List.getD_eq_getElem?_getD, List.getElem?_eq_getElem hia]; rfl
    have hb : b.take (j + 1) = b.take j ++ [b.getD j 0] := by
      rw [List.take_add_one, List.getD_eq_getElem?_getD, List.getElem?_eq_getElem hjb]; rfl
    rw [ha, hb, levFront_snoc eq _ (a.take i) (b.take j) _ _ (Nat.le_refl _)]

theorem lev_eq_levFront (a b : Bytes) : Spec.lev eq a b = Spec.levFront eq a b := by
  unfold Spec.lev
  rw [levD_eq_levFront_take eq a b a.length b.length (Nat.le_refl _) (Nat.le_refl _)]
  simp

end
end TlxVerif.C19
