/-
C19 — split_quoted reads back what join_quoted writes.
-/
import TlxVerif.Model.C19Split
namespace TlxVerif.C19
open TlxVerif.C18 (Bytes npos)

/-- the hypotheses on the three special characters: pairwise different, and neither the
quote nor the escape character is one of the letters `n r t` used by the escape sequences -/
structure QuoteChars (sep quote esc : UInt8) : Prop where
  sq : sep ≠ quote
  se : sep ≠ esc
  qe : quote ≠ esc
  qn : quote ≠ 110
  qr : quote ≠ 114
  qt : quote ≠ 116
  en : esc ≠ 110
  er : esc ≠ 114
  et : esc ≠ 116

section
variable {sep quote esc : UInt8}

/-! single steps of the reader -/

theorem st_q_quote (entry t : Bytes) :
    splitQuotedLoop sep quote esc .q entry (quote :: t) = splitQuotedLoop sep quote esc .qQuote entry t := by
  simp [splitQuotedLoop]

theorem st_q_esc (h : esc ≠ quote) (entry t : Bytes) :
    splitQuotedLoop sep quote esc .q entry (esc :: t) = splitQuotedLoop sep quote esc .qEsc entry t := by
  have : (esc == quote) = false := by simp [h]
  simp [splitQuotedLoop, this]

theorem st_q_other (c : UInt8) (h1 : c ≠ quote) (h2 : c ≠ esc) (entry t : Bytes) :
    splitQuotedLoop sep quote esc .q entry (c :: t) = splitQuotedLoop sep quote esc .q (entry ++ [c]) t := by
  have e1 : (c == quote) = false := by simp [h1]
  have e2 : (c == esc) = false := by simp [h2]
  simp [splitQuotedLoop, e1, e2]

theorem st_e_quote (entry t : Bytes) :
    splitQuotedLoop sep quote esc .qEsc entry (quote :: t) = splitQuotedLoop sep quote esc .q (entry ++ [quote]) t := by
  simp [splitQuotedLoop]

theorem st_e_esc (entry t : Bytes) :
    splitQuotedLoop sep quote esc .qEsc entry (esc :: t) = splitQuotedLoop sep quote esc .q (entry ++ [esc]) t := by
  by_cases h : esc = quote
  · simp [splitQuotedLoop, h]
  · have : (esc == quote) = false := by simp [h]
    simp [splitQuotedLoop, this]

theorem st_e_letter (l r : UInt8) (hl : l = 110 ∧ r = 10 ∨ l = 114 ∧ r = 13 ∨ l = 116 ∧ r = 9)
    (h1 : l ≠ quote) (h2 : l ≠ esc) (entry t : Bytes) :
    splitQuotedLoop sep quote esc .qEsc entry (l :: t) = splitQuotedLoop sep quote esc .q (entry ++ [r]) t := by
  have e1 : (l == quote) = false := by simp [h1]
  have e2 : (l == esc) = false := by simp [h2]
  rcases hl with ⟨a, b⟩ | ⟨a, b⟩ | ⟨a, b⟩ <;> subst a <;> subst b <;> simp [splitQuotedLoop, e1, e2]

/-- (Q1) inside quotes: the escaped body of a field is read back as the field -/
theorem sq_body (H : QuoteChars sep quote esc) : ∀ (s entry tail : Bytes),
    splitQuotedLoop sep quote esc .q entry (quoteBody quote esc s ++ tail) =
      splitQuotedLoop sep quote esc .q (entry ++ s) tail
  | [], entry, tail => by simp [quoteBody]
  | c :: t, entry, tail => by
    have ih := fun x => sq_body H t (entry ++ [x]) tail
    have hfin : ∀ x : UInt8, entry ++ [x] ++ t = entry ++ x :: t := by intro x; simp
    simp only [quoteBody]
    by_cases hq : c = quote
    · have : (c == quote || c == esc) = true := by simp [hq]
      rw [if_pos this, hq]
      simp only [List.cons_append, List.nil_append]
      rw [st_q_esc H.qe.symm, st_e_quote, ih, hfin]
    · by_cases he : c = esc
      · have : (c == quote || c == esc) = true := by simp [he]
        rw [if_pos this, he]
        simp only [List.cons_append, List.nil_append]
        rw [st_q_esc H.qe.symm, st_e_esc, ih, hfin]
      · have : ¬ (c == quote || c == esc) = true := by simp [hq, he]
        rw [if_neg this]
        by_cases h10 : c = 10
        · have : (c == 10) = true := by simp [h10]
          rw [if_pos this]
          simp only [List.cons_append, List.nil_append]
          rw [st_q_esc H.qe.symm, st_e_letter 110 10 (Or.inl ⟨rfl, rfl⟩) H.qn.symm H.en.symm, ih, hfin, h10]
        · have : ¬ (c == 10) = true := by simp [h10]
          rw [if_neg this]
          by_cases h13 : c = 13
          · have : (c == 13) = true := by simp [h13]
            rw [if_pos this]
            simp only [List.cons_append, List.nil_append]
            rw [st_q_esc H.qe.symm, st_e_letter 114 13 (Or.inr (Or.inl ⟨rfl, rfl⟩)) H.qr.symm H.er.symm, ih, hfin, h13]
          · have : ¬ (c == 13) = true := by simp [h13]
            rw [if_neg this]
            by_cases h9 : c = 9
            · have : (c == 9) = true := by simp [h9]
              rw [if_pos this]
              simp only [List.cons_append, List.nil_append]
              rw [st_q_esc H.qe.symm, st_e_letter 116 9 (Or.inr (Or.inr ⟨rfl, rfl⟩)) H.qt.symm H.et.symm, ih, hfin, h9]
            · have : ¬ (c == 9) = true := by simp [h9]
              rw [if_neg this]
              simp only [List.cons_append, List.nil_append]
              rw [st_q_other c hq he, ih, hfin]

/-- (Q2) outside quotes: a stretch without separator is appended to the entry -/
theorem sq_unq : ∀ (s entry tail : Bytes), sep ∉ s →
    splitQuotedLoop sep quote esc .unq entry (s ++ tail) = splitQuotedLoop sep quote esc .unq (entry ++ s) tail
  | [], entry, tail, _ => by simp
  | c :: t, entry, tail, h => by
    have hc : (c == sep) = false := by
      have : c ≠ sep := fun e => h (by simp [e])
      simp [this]
    have ht : sep ∉ t := fun e => h (by simp [e])
    simp only [List.cons_append, splitQuotedLoop, hc, Bool.false_eq_true, if_false, sq_unq t (entry ++ [c]) tail ht]
    simp [List.append_assoc]

/-- what follows a field in the output of join_quoted: nothing, or a separator and more -/
def afterField (sep quote esc : UInt8) (s : Bytes) : Bytes → Option (List Bytes)
  | [] => some [s]
  | c :: more => if c == sep then (splitQuotedLoop sep quote esc .outer [] more).map (s :: ·) else none

/-- (Q3) one written field followed by the end or by a separator -/
theorem sq_field (H : QuoteChars sep quote esc) (s tail : Bytes) (ht : tail = [] ∨ ∃ more, tail = sep :: more) :
    splitQuotedLoop sep quote esc .outer [] (quoteField sep quote esc s ++ tail) = afterField sep quote esc s tail := by
  unfold quoteField
  have hqs : (quote == sep) = false := by simp [H.sq.symm]
  by_cases hn : needsQuote sep quote s = true
  · rw [if_pos hn]
    have hshape : (quote :: (quoteBody quote esc s ++ [quote])) ++ tail =
        quote :: (quoteBody quote esc s ++ (quote :: tail)) := by simp
    rw [hshape]
    have hstep : splitQuotedLoop sep quote esc .outer [] (quote :: (quoteBody quote esc s ++ (quote :: tail))) =
        splitQuotedLoop sep quote esc .q [] (quoteBody quote esc s ++ (quote :: tail)) := by
      simp [splitQuotedLoop, hqs]
    rw [hstep, sq_body H, st_q_quote, List.nil_append]
    cases ht with
    | inl h => subst h; simp [splitQuotedLoop, afterField]
    | inr h =>
      obtain ⟨more, hm⟩ := h
      subst hm
      simp [splitQuotedLoop, afterField]
  · have hn' : needsQuote sep quote s = false := by simpa using hn
    simp only [hn', Bool.false_eq_true, if_false]
    unfold needsQuote at hn'
    simp only [Bool.or_eq_false_iff] at hn'
    obtain ⟨⟨h1, h2⟩, h3⟩ := hn'
    cases s with
    | nil => simp at h2
    | cons c t =>
      have hsep : sep ∉ c :: t := by
        intro hm
        have : (c :: t).contains sep = true := by simpa using hm
        rw [this] at h1; exact absurd h1 (by simp)
      have hc1 : (c == sep) = false := by
        have : c ≠ sep := fun e => hsep (by simp [e])
        simp [this]
      have hc2 : (c == quote) = false := by
        have : c ≠ quote := fun e => by simp [e] at h3
        simp [this]
      have htl : sep ∉ t := fun e => hsep (by simp [e])
      simp only [List.cons_append, splitQuotedLoop, hc1, hc2, Bool.false_eq_true, if_false, List.nil_append,
        sq_unq t [c] tail htl]
      cases ht with
      | inl h => subst h; simp [splitQuotedLoop, afterField]
      | inr h =>
        obtain ⟨more, hm⟩ := h
        subst hm
        simp [splitQuotedLoop, afterField]

theorem joinQuoted_cons_cons (s x : Bytes) (xs : List Bytes) :
    joinQuoted (s :: x :: xs) sep quote esc = quoteField sep quote esc s ++ sep :: joinQuoted (x :: xs) sep quote esc := by
  simp [joinQuoted, List.flatMap_cons]

/-- (Q4) the whole vector -/
theorem sq_join (H : QuoteChars sep quote esc) : ∀ (v : List Bytes),
    splitQuotedLoop sep quote esc .outer [] (joinQuoted v sep quote esc) = some v
  | [] => by simp [joinQuoted, splitQuotedLoop]
  | [s] => by
    have := sq_field H s [] (Or.inl rfl)
    simpa [joinQuoted, afterField] using this
  | s :: x :: xs => by
    rw [joinQuoted_cons_cons, sq_field H s _ (Or.inr ⟨_, rfl⟩)]
    simp [afterField, sq_join H (x :: xs)]

end
end TlxVerif.C19
