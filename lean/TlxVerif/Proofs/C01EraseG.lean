/-
C01/C02 — erase, part G: separators after an erase.  Every frame returns a node whose separators fit,
and reports a changed last key exactly when the last entry of its subtree changed
(`parent->slotkey[parentslot] = …` / `btree_update_lastkey`); with part F this gives: erase preserves
the whole invariant `TreeInv`.
-/
import TlxVerif.Model.C01Erase
import TlxVerif.Proofs.C01EraseE
namespace TlxVerif.C01

variable {K V : Type}

theorem getLast?_eraseIdx_lt {α : Type} (l : List α) (i : Nat) (h : i + 1 < l.length) :
    (l.eraseIdx i).getLast? = l.getLast? := by
  rw [List.getLast?_eq_getElem?, List.getLast?_eq_getElem?, List.length_eraseIdx_of_lt (by omega),
    List.getElem?_eraseIdx]
  rw [if_neg (by omega)]
  congr 1
  omega

theorem flatten_ne_nil_under (p : Params K) (pv : p.Valid) (h : Nat) (n : BNode K V)
    (hs : ShapeTop p (p.leafMin - 1) (p.innerMin - 1) h n) : flatten h n ≠ [] := by
  have hl4 := pv.leaf4
  have hmin : 2 ≤ p.leafMin := by simp [Params.leafMin, Gen.leafSlotmin]; omega
  cases h with
  | zero =>
    obtain ⟨es, rfl, h1, _⟩ := shapeTop0_leaf hs
    simp only [flatten]
    intro he; subst he; simp at h1; omega
  | succ h =>
    obtain ⟨l, ks, kids, rfl, _, hk, _, _, hkids⟩ := shapeTopS_inner hs
    simp only [flatten]
    exact flatMap_flatten_ne_nil p pv h kids hkids (by intro hh; subst hh; simp at hk)

/-- the separator layer of a frame's contract -/
structure EraseSep (p : Params K) (h : Nat) (n : BNode K V) (ctx : Ctx K V) (out : EraseOut K V) : Prop where
  sepok : SepOk p h out.node
  rep_sep : ctx.sepAbove = true → out.lastUp = none ∧
    (∀ k, out.setSep = some k → SepFits p h k out.node) ∧
    (out.setSep = none → (flatten h out.node).getLast? = (flatten h n).getLast?)
  rep_up : ctx.sepAbove = false → out.setSep = none ∧
    (∀ k, out.lastUp = some k → SepFits p h k out.node) ∧
    (out.lastUp = none → (flatten h out.node).getLast? = (flatten h n).getLast?)

/-- what the leaf's report says about its new last entry -/
theorem leafReport_spec (p : Params K) (sw : StrictWeak p.lt) (es : List (K × V)) (slot : Nat) (sepAbove : Bool)
    (hslot : slot < es.length) (u1 u2 : Option K)
    (hu : leafReport sepAbove (slot == (es.eraseIdx slot).length) ((es.eraseIdx slot).getLast?.map Prod.fst) = some (u1, u2)) :
    (sepAbove = true → u2 = none ∧
      (∀ k, u1 = some k → SepFits p 0 k (.leaf (es.eraseIdx slot) : BNode K V)) ∧
      (u1 = none → (es.eraseIdx slot).getLast? = es.getLast?)) ∧
    (sepAbove = false → u1 = none ∧
      (∀ k, u2 = some k → SepFits p 0 k (.leaf (es.eraseIdx slot) : BNode K V)) ∧
      (u2 = none → (es.eraseIdx slot).length = 0 ∨ (es.eraseIdx slot).getLast? = es.getLast?)) := by
  have hlen : (es.eraseIdx slot).length = es.length - 1 := List.length_eraseIdx_of_lt hslot
  unfold leafReport at hu
  by_cases hlast : slot = (es.eraseIdx slot).length
  · have hb : (slot == (es.eraseIdx slot).length) = true := by simpa using hlast
    rw [hb] at hu
    simp only [if_true] at hu
    cases hsa : sepAbove with
    | true =>
      rw [hsa] at hu
      simp only [if_true] at hu
      cases hl : (es.eraseIdx slot).getLast? with
      | none => rw [hl] at hu; simp at hu
      | some e =>
        rw [hl] at hu
        simp only [Option.map_some, Option.some.injEq, Prod.mk.injEq] at hu
        obtain ⟨h1, h2⟩ := hu
        refine ⟨fun _ => ⟨h2.symm, ?_, ?_⟩, fun h' => by cases h'⟩
        · intro k hk; rw [← h1] at hk; cases hk
          exact ⟨e, by simpa [flatten] using hl, eqv_refl sw _⟩
        · intro hn; rw [← h1] at hn; cases hn
    | false =>
      rw [hsa] at hu
      simp only [Bool.false_eq_true, if_false, Option.some.injEq, Prod.mk.injEq] at hu
      obtain ⟨h1, h2⟩ := hu
      refine ⟨(fun h' => by cases h'), fun _ => ⟨h1.symm, ?_, ?_⟩⟩
      · intro k hk
        rw [← h2] at hk
        cases hl : (es.eraseIdx slot).getLast? with
        | none => rw [hl] at hk; simp at hk
        | some e =>
          rw [hl] at hk
          simp only [Option.map_some, Option.some.injEq] at hk
          subst hk
          exact ⟨e, by simpa [flatten] using hl, eqv_refl sw _⟩
      · intro hn
        rw [← h2] at hn
        cases hl : (es.eraseIdx slot).getLast? with
        | some e => rw [hl] at hn; simp at hn
        | none =>
          left
          have : (es.eraseIdx slot) = [] := List.getLast?_eq_none_iff.mp hl
          rw [this]; rfl
  · have hb : (slot == (es.eraseIdx slot).length) = false := by simpa using hlast
    rw [hb] at hu
    simp only [Bool.false_eq_true, if_false, Option.some.injEq, Prod.mk.injEq] at hu
    obtain ⟨h1, h2⟩ := hu
    have hl := getLast?_eraseIdx_lt es slot (by omega)
    exact ⟨fun _ => ⟨h2.symm, (by intro k hk; rw [← h1] at hk; cases hk), fun _ => hl⟩,
      fun _ => ⟨h1.symm, (by intro k hk; rw [← h2] at hk; cases hk), fun _ => Or.inr hl⟩⟩

theorem eraseInLeaf_sep (p : Params K) (pv : p.Valid) (sw : StrictWeak p.lt) (es : List (K × V)) (slot : Nat)
    (ctx : Ctx K V) (hs : Shape p 0 (BNode.leaf es)) (hc : CtxOk p 0 ctx)
    (hslot : slot < es.length) (out : EraseOut K V) (ho : eraseInLeaf p es slot ctx = some out) :
    EraseSep p 0 (.leaf es) ctx out := by
  have hl4 := pv.leaf4
  have hmin : 2 ≤ p.leafMin := by simp [Params.leafMin, Gen.leafSlotmin]; omega
  simp only [Shape] at hs
  have hlen : (es.eraseIdx slot).length = es.length - 1 := List.length_eraseIdx_of_lt hslot
  unfold eraseInLeaf at ho
  simp only at ho
  cases hu : leafReport ctx.sepAbove (slot == (es.eraseIdx slot).length) ((es.eraseIdx slot).getLast?.map Prod.fst) with
  | none => rw [hu] at ho; cases ho
  | some u =>
    obtain ⟨u1, u2⟩ := u
    rw [hu] at ho
    simp only at ho
    obtain ⟨out', ho', _, h2, h3, h4, _⟩ := finishLeaf_nonroot p (es.eraseIdx slot) ctx hc u1 u2
    rw [ho'] at ho
    cases ho
    obtain ⟨r1, r2⟩ := leafReport_spec p sw es slot ctx.sepAbove hslot u1 u2 hu
    refine ⟨by rw [h2]; simp [SepOk], ?_, ?_⟩
    · intro hsa
      obtain ⟨a, b, c⟩ := r1 hsa
      rw [h2, h3, h4]
      exact ⟨a, b, by simpa [flatten] using c⟩
    · intro hsa
      obtain ⟨a, b, c⟩ := r2 hsa
      rw [h2, h3, h4]
      refine ⟨a, b, ?_⟩
      intro hn
      rcases c hn with c | c
      · omega
      · simpa [flatten] using c

theorem getElem?_setSepKey_ne (keys : List K) (slot i : Nat) (o : Option K) (h : i ≠ slot) :
    (setSepKey keys slot o)[i]? = keys[i]? := by
  cases o with
  | none => rfl
  | some k => simp only [setSepKey]; rw [List.getElem?_set_ne (by omega)]

/-- the separators of the node right after the child's own effects (`setSep`) -/
theorem sepSeq_after_child (p : Params K) (h : Nat) (keys : List K) (kids : List (BNode K V)) (slot : Nat)
    (child : BNode K V) (hchild : kids[slot]? = some child) (cctx : Ctx K V) (r : EraseOut K V)
    (hsa : cctx.sepAbove = decide (slot < keys.length))
    (hseq : SepSeq p h keys kids) (hrs : EraseSep p h child cctx r) :
    SepSeq p h (setSepKey keys slot r.setSep) (kids.set slot r.node) := by
  obtain ⟨hlt, hget⟩ := List.getElem?_eq_some_iff.mp hchild
  intro i k c hk hc
  by_cases his : i = slot
  · subst his
    rw [List.getElem?_set_self hlt] at hc
    cases hc
    cases hss : r.setSep with
    | some k' =>
      rw [hss] at hk
      simp only [setSepKey] at hk
      have hik : i < keys.length := by
        have := (List.getElem?_eq_some_iff.mp hk).1
        simpa using this
      rw [List.getElem?_set_self hik] at hk
      cases hk
      have hsa' : cctx.sepAbove = true := by rw [hsa]; simpa using hik
      exact (hrs.rep_sep hsa').2.1 k hss
    | none =>
      rw [hss] at hk
      simp only [setSepKey] at hk
      have hik : i < keys.length := (List.getElem?_eq_some_iff.mp hk).1
      have hsa' : cctx.sepAbove = true := by rw [hsa]; simpa using hik
      obtain ⟨e, he, hq⟩ := hseq i k child hk hchild
      exact ⟨e, by rw [(hrs.rep_sep hsa').2.2 hss]; exact he, hq⟩
  · rw [getElem?_setSepKey_ne _ _ _ _ his] at hk
    rw [List.getElem?_set_ne (by omega)] at hc
    exact hseq i k c hk hc

/-- last entry of a node in terms of the child that was erased from -/
theorem last_of_kids_set (p : Params K) (pv : p.Valid) (h : Nat) (kids : List (BNode K V)) (slot : Nat) (x : BNode K V)
    (hlt : slot < kids.length) (hkids : ∀ c ∈ kids, Shape p h c) (hx : flatten h x ≠ []) :
    ((kids.set slot x).flatMap (flatten h)).getLast? =
      if slot + 1 < kids.length then (kids.flatMap (flatten h)).getLast? else (flatten h x).getLast? := by
  rw [flatMap_set (flatten h) kids slot x hlt]
  by_cases hl : slot + 1 < kids.length
  · rw [if_pos hl]
    have hne : (kids.drop (slot + 1)).flatMap (flatten h) ≠ [] :=
      flatMap_flatten_ne_nil p pv h _ (fun c hc => hkids c (List.mem_of_mem_drop hc)) (by
        intro he
        have := congrArg List.length he
        simp only [List.length_drop, List.length_nil] at this
        omega)
    rw [flatMap_split (flatten h) kids slot hlt, ← List.append_assoc, ← List.append_assoc,
      getLast?_append_of_ne_nil _ _ hne, getLast?_append_of_ne_nil _ _ hne]
  · rw [if_neg hl]
    have : List.drop (slot + 1) kids = [] := List.drop_eq_nil_of_le (by omega)
    rw [this]
    simp only [List.flatMap_nil, List.append_nil]
    exact getLast?_append_of_ne_nil _ _ hx

theorem reportSep_none (b : Bool) : reportSep b (none : Option K) = none := rfl
theorem reportUp_none (b : Bool) : reportUp b (none : Option K) = none := rfl

/-- the separator layer of the inner frame -/
theorem afterChild_sep (p : Params K) (pv : p.Valid) (sw : StrictWeak p.lt) (tg : Target K) (h l : Nat)
    (keys : List K) (kids : List (BNode K V)) (ctx cctx : Ctx K V) (slot : Nat) (r : EraseOut K V)
    (hs : Shape p (h + 1) (.inner l keys kids)) (hc : CtxOk p (h + 1) ctx) (hso : SepOk p (h + 1) (.inner l keys kids))
    (hslot : slot ≤ keys.length) (child : BNode K V) (hchild : kids[slot]? = some child)
    (hc1 : cctx.lp = cctx.par ↔ 0 < slot) (hc2 : cctx.rp = cctx.par ↔ slot < keys.length)
    (hc3 : 0 < slot → cctx.left = kids[slot - 1]?) (hc4 : slot < keys.length → cctx.right = kids[slot + 1]?)
    (hcs : cctx.sepAbove = decide (cctx.rp = cctx.par))
    (hr : EraseOK p tg h child cctx r) (hrs : EraseSep p h child cctx r)
    (out : EraseOut K V) (ho : afterChild p l keys kids ctx slot r = some out) :
    EraseSep p (h + 1) (.inner l keys kids) ctx out := by
  simp only [Shape] at hs
  obtain ⟨hl, hk, hmin, hmax, hkids⟩ := hs
  simp only [SepOk] at hso
  obtain ⟨hseq, hsepk⟩ := hso
  obtain ⟨hlt, hget⟩ := List.getElem?_eq_some_iff.mp hchild
  have hsa : cctx.sepAbove = decide (slot < keys.length) := by
    rw [hcs]
    by_cases hx : slot < keys.length
    · simp [hx, hc2.mpr hx]
    · have : ¬ cctx.rp = cctx.par := fun h' => hx (hc2.mp h')
      simp [hx, this]
  obtain ⟨keys3, kids3, lf, inf, hac, hro, hsp⟩ := afterChild_pre p pv tg h l keys kids ctx cctx slot r hl hk
    hslot hkids child hchild hc1 hc2 hc3 hc4 hr
  obtain ⟨out', hfo, _, ho2, _, _, ho5, ho6, _, _⟩ := finishInner_nonroot p h l keys3 kids3 ctx hc
    (reportSep ctx.sepAbove r.lastUp) (reportUp ctx.sepAbove r.lastUp) (r.leafFree + lf) (r.innerFree + inf)
  rw [hac, hfo] at ho
  cases ho
  -- separators
  have hseq1 := sepSeq_after_child p h keys kids slot child hchild cctx r hsa hseq hrs
  have hsok1 : ∀ c ∈ kids.set slot r.node, SepOk p h c := by
    intro c hc'
    rcases List.mem_or_eq_of_mem_set hc' with hc' | hc'
    · exact hsepk c hc'
    · subst hc'; exact hrs.sepok
  obtain ⟨hseq3, hsok3⟩ := hsp sw hseq1 hsok1
  -- last entries
  have hrne := flatten_ne_nil_under p pv h r.node hr.shape
  have hcne := flatten_ne_nil p pv h child (hkids child (List.mem_of_getElem? hchild))
  have hL1 := last_of_kids_set p pv h kids slot r.node hlt hkids hrne
  have hL0 := last_of_kids_set p pv h kids slot child hlt hkids hcne
  have hset0 : kids.set slot child = kids := by rw [← hget]; exact List.set_getElem_self hlt
  rw [hset0] at hL0
  have hLout : (flatten (h + 1) (BNode.inner l keys3 kids3)).getLast? =
      if slot + 1 < kids.length then (flatten (h + 1) (BNode.inner l keys kids)).getLast?
      else (flatten h r.node).getLast? := by
    simp only [flatten]
    rw [hro.flat]; exact hL1
  refine ⟨by rw [ho2]; simp only [SepOk]; exact ⟨hseq3, hsok3⟩, ?_, ?_⟩
  all_goals
    intro hctx
    rw [ho2, ho5, ho6]
    by_cases hx : slot < keys.length
    · -- the child has a separator in this node: nothing is reported upwards
      have hsa' : cctx.sepAbove = true := by rw [hsa]; simpa using hx
      have hnone := (hrs.rep_sep hsa').1
      rw [hnone, reportSep_none, reportUp_none]
      refine ⟨rfl, (by intro k hk'; cases hk'), ?_⟩
      intro _
      rw [hLout, if_pos (by omega)]
    · -- the child is the last one: its report is handed on
      have hsa' : cctx.sepAbove = false := by rw [hsa]; simpa using hx
      obtain ⟨_, hfit, hsame⟩ := hrs.rep_up hsa'
      have hLo : (flatten (h + 1) (BNode.inner l keys3 kids3)).getLast? = (flatten h r.node).getLast? := by
        rw [hLout, if_neg (by omega)]
      have hLn : (flatten (h + 1) (BNode.inner l keys kids)).getLast? = (flatten h child).getLast? := by
        simp only [flatten]
        rw [hL0, if_neg (by omega)]
      cases hlu : r.lastUp with
      | none =>
        rw [reportSep_none, reportUp_none]
        refine ⟨rfl, (by intro k hk'; cases hk'), ?_⟩
        intro _
        rw [hLo, hLn]; exact hsame hlu
      | some k =>
        obtain ⟨e, he, hq⟩ := hfit k hlu
        simp only [reportSep, reportUp, hctx]
        first
          | refine ⟨rfl, ?_, (by intro hh; cases hh)⟩
            intro k' hk'
            simp only [if_true, Bool.false_eq_true, if_false, Option.some.injEq] at hk'
            subst hk'
            exact ⟨e, by rw [hLo]; exact he, hq⟩
          | refine ⟨rfl, ?_, (by intro hh; simp at hh)⟩
            intro k' hk'
            simp only [if_true, Bool.false_eq_true, if_false, Option.some.injEq] at hk'
            subst hk'
            exact ⟨e, by rw [hLo]; exact he, hq⟩

/-- **separators in every frame** (non-root): by induction over the tree -/
theorem eraseDescend_sep (p : Params K) (pv : p.Valid) (sw : StrictWeak p.lt) (tg : Target K) :
    ∀ (h : Nat) (n : BNode K V) (ctx : Ctx K V), Shape p h n → CtxOk p h ctx → SepOk p h n →
      ∀ out, eraseDescend p tg h n ctx = some (some out) → EraseSep p h n ctx out := by
  intro h
  induction h with
  | zero =>
    intro n ctx hs hc _ out ho
    cases n with
    | inner l ks kids => simp [Shape] at hs
    | leaf es =>
      unfold eraseDescend at ho
      cases tg with
      | key k =>
        simp only at ho
        cases he : es[findLower p (keysOf es) k]? with
        | none => rw [he] at ho; cases ho
        | some e =>
          rw [he] at ho
          simp only at ho
          split at ho
          · cases ho
          · have hslot : findLower p (keysOf es) k < es.length := (List.getElem?_eq_some_iff.mp he).1
            cases hx : eraseInLeaf p es (findLower p (keysOf es) k) ctx with
            | none => rw [hx] at ho; cases ho
            | some o =>
              rw [hx] at ho
              simp only [Option.map_some, Option.some.injEq] at ho
              subst ho
              exact eraseInLeaf_sep p pv sw es _ ctx hs hc hslot o hx
      | iter li sl kk =>
        simp only at ho
        split at ho
        · cases ho
        · split at ho
          · cases ho
          · rename_i h2
            cases hx : eraseInLeaf p es sl ctx with
            | none => rw [hx] at ho; cases ho
            | some o =>
              rw [hx] at ho
              simp only [Option.map_some, Option.some.injEq] at ho
              subst ho
              exact eraseInLeaf_sep p pv sw es sl ctx hs hc (by omega) o hx
  | succ h ih =>
    intro n ctx hs hc hso out ho
    cases n with
    | leaf es => simp [Shape] at hs
    | inner l keys kids =>
      have hs0 := hs
      simp only [Shape] at hs
      obtain ⟨hl, hk, hmin, hmax, hkids⟩ := hs
      have hso0 := hso
      simp only [SepOk] at hso
      have hi4 := pv.inner4
      have hkeys : 1 ≤ keys.length := by simp [Params.innerMin, Gen.innerSlotmin] at hmin; omega
      unfold eraseDescend at ho
      simp only at ho
      have hs0le := findLower_le p keys tg.tkey
      generalize findLower p keys tg.tkey = slot0 at ho hs0le
      cases hsc : scanLoop (visitChild (eraseDescend p tg h) h keys kids ctx) (scanStop p tg keys)
          (scanTries tg keys.length slot0) slot0 with
      | none => rw [hsc] at ho; cases ho
      | some res =>
        rw [hsc] at ho
        cases res with
        | none => cases ho
        | some sr =>
          obtain ⟨s, r⟩ := sr
          simp only at ho
          -- where the loop stopped
          have hvisit : ∀ s', slot0 ≤ s' → s' < slot0 + scanTries tg keys.length slot0 →
              ∃ r', visitChild (eraseDescend p tg h) h keys kids ctx s' = some r' := by
            intro s' h1 h2
            obtain ⟨hsl, _⟩ := scan_range tg keys.length slot0 s' hs0le h1 h2
            have hlt : s' < kids.length := by omega
            obtain ⟨cctx, hcc, hcok, _⟩ := childCtx_ok p pv h keys kids ctx hk hkeys hkids hc.toCtxBase s' hsl
            obtain ⟨res', hres', _⟩ := eraseDescend_ok p pv tg h kids[s'] cctx (hkids _ (List.getElem_mem hlt)) hcok
            exact ⟨res', by simp only [visitChild, List.getElem?_eq_getElem hlt, hcc, hres']⟩
          obtain ⟨res2, hres2, hspec⟩ := scanLoop_spec (visitChild (eraseDescend p tg h) h keys kids ctx)
            (scanStop p tg keys) (scanTries tg keys.length slot0) slot0 hvisit
          rw [hsc] at hres2
          cases hres2
          obtain ⟨h1, h2, h3⟩ := hspec s r rfl
          obtain ⟨hsl, _⟩ := scan_range tg keys.length slot0 s hs0le h1 h2
          have hlt : s < kids.length := by omega
          obtain ⟨cctx, hcc, hcok, hc1, hc2, hc3, hc4, _⟩ :=
            childCtx_ok p pv h keys kids ctx hk hkeys hkids hc.toCtxBase s hsl
          simp only [visitChild, List.getElem?_eq_getElem hlt, hcc] at h3
          have hcm : kids[s] ∈ kids := List.getElem_mem hlt
          obtain ⟨res', hres', hok'⟩ := eraseDescend_ok p pv tg h kids[s] cctx (hkids _ hcm) hcok
          rw [hres'] at h3
          cases h3
          have hrok := hok' r rfl
          have hrs := ih kids[s] cctx (hkids _ hcm) hcok (hso.2 _ hcm) r hres'
          cases hx : afterChild p l keys kids ctx s r with
          | none => rw [hx] at ho; cases ho
          | some o =>
            rw [hx] at ho
            simp only [Option.map_some, Option.some.injEq] at ho
            subst ho
            exact afterChild_sep p pv sw tg h l keys kids ctx cctx s r hs0 hc hso0 hsl kids[s]
              (List.getElem?_eq_getElem hlt) hc1 hc2 hc3 hc4 hcok.sep hrok hrs o hx

/-- the separators of the tree returned by `erase_one` / `erase(iterator)` fit again -/
theorem eraseTop_sepOk (p : Params K) (pv : p.Valid) (sw : StrictWeak p.lt) (tg : Target K) (t : Tree K V)
    (ht : TreeInv p t) (res : EraseResult K V) (hres : eraseTop p t tg = some res) :
    match res.tree.root with
    | none => True
    | some r' => SepOk p r'.level r' := by
  have hi4 := pv.inner4
  obtain ⟨hshape, _, hsep⟩ := ht
  unfold eraseTop at hres
  cases hroot : t.root with
  | none =>
    rw [hroot] at hres
    cases hres
    simp [hroot]
  | some r0 =>
    rw [hroot] at hres hsep
    simp only at hres hsep
    unfold TreeShape at hshape
    rw [hroot] at hshape
    obtain ⟨hs, _, _, _⟩ := hshape
    cases hd : eraseDescend p tg r0.level r0 {} with
    | none => rw [hd] at hres; cases hres
    | some o =>
      rw [hd] at hres
      cases o with
      | none =>
        cases hres
        simp only [hroot]
        exact hsep
      | some out =>
        simp only at hres
        split at hres
        · cases hres
        · cases hres
          simp only
          generalize hh0 : r0.level = h0 at *
          cases h0 with
          | zero =>
            -- root leaf: the new root is a leaf or gone
            obtain ⟨es, rfl, _, _⟩ := shapeTop0_leaf hs
            have hnode : ∀ o : EraseOut K V, (∃ sl, eraseInLeaf p es sl {} = some o) →
                (o.rootDrop = false → o.node.level = 0 ∧ SepOk p 0 o.node) := by
              intro o ⟨sl, ho⟩ hnd
              unfold eraseInLeaf at ho
              simp only at ho
              cases hu : leafReport (K := K) false (sl == (es.eraseIdx sl).length) ((es.eraseIdx sl).getLast?.map Prod.fst) with
              | none => simp only [hu] at ho; cases ho
              | some u =>
                obtain ⟨u1, u2⟩ := u
                simp only [hu] at ho
                unfold finishLeaf at ho
                simp only [Option.isNone_none, Bool.true_and, Bool.and_self, if_true] at ho
                split at ho
                · cases ho; simp at hnd
                · cases ho; simp [BNode.level, SepOk]
            have hfrom : ∃ sl, eraseInLeaf p es sl {} = some out := by
              unfold eraseDescend at hd
              cases tg with
              | key k =>
                simp only at hd
                cases he : es[findLower p (keysOf es) k]? with
                | none => rw [he] at hd; cases hd
                | some e =>
                  rw [he] at hd
                  simp only at hd
                  split at hd
                  · cases hd
                  · cases hx : eraseInLeaf p es (findLower p (keysOf es) k) {} with
                    | none => rw [hx] at hd; cases hd
                    | some o' =>
                      rw [hx] at hd
                      simp only [Option.map_some, Option.some.injEq] at hd
                      subst hd
                      exact ⟨_, hx⟩
              | iter li sl kk =>
                simp only at hd
                split at hd
                · cases hd
                · split at hd
                  · cases hd
                  · cases hx : eraseInLeaf p es sl {} with
                    | none => rw [hx] at hd; cases hd
                    | some o' =>
                      rw [hx] at hd
                      simp only [Option.map_some, Option.some.injEq] at hd
                      subst hd
                      exact ⟨_, hx⟩
            cases hrd : out.rootDrop with
            | true => simp [BNode.isLeaf]
            | false =>
              simp only [Bool.false_eq_true, if_false]
              obtain ⟨h1, h2⟩ := hnode out hfrom hrd
              rw [h1]; exact h2
          | succ h =>
            obtain ⟨l, keys, kids, rfl, hl, hk, hkeys, hmax, hkids⟩ := shapeTopS_inner hs
            subst hl
            simp only [SepOk] at hsep
            obtain ⟨hseq, hsepk⟩ := hsep
            unfold eraseDescend at hd
            simp only at hd
            have hs0le := findLower_le p keys tg.tkey
            generalize findLower p keys tg.tkey = slot0 at hd hs0le
            have hbase := ctxBase_root p (h + 1) (K := K) (V := V)
            have hvisit : ∀ s, slot0 ≤ s → s < slot0 + scanTries tg keys.length slot0 →
                ∃ r, visitChild (eraseDescend p tg h) h keys kids ({} : Ctx K V) s = some r := by
              intro s h1 h2
              obtain ⟨hsl, _⟩ := scan_range tg keys.length slot0 s hs0le h1 h2
              have hlt : s < kids.length := by omega
              obtain ⟨cctx, hcc, hcok, _⟩ := childCtx_ok p pv h keys kids {} hk hkeys hkids hbase s hsl
              obtain ⟨res', hres', _⟩ := eraseDescend_ok p pv tg h kids[s] cctx (hkids _ (List.getElem_mem hlt)) hcok
              exact ⟨res', by simp only [visitChild, List.getElem?_eq_getElem hlt, hcc, hres']⟩
            obtain ⟨res2, hres2, hspec⟩ := scanLoop_spec (visitChild (eraseDescend p tg h) h keys kids ({} : Ctx K V))
              (scanStop p tg keys) (scanTries tg keys.length slot0) slot0 hvisit
            rw [hres2] at hd
            cases res2 with
            | none => cases hd
            | some sr =>
              obtain ⟨s, r⟩ := sr
              simp only at hd
              obtain ⟨h1, h2, h3⟩ := hspec s r rfl
              obtain ⟨hsl, _⟩ := scan_range tg keys.length slot0 s hs0le h1 h2
              have hlt : s < kids.length := by omega
              obtain ⟨cctx, hcc, hcok, hc1, hc2, hc3, hc4, _⟩ := childCtx_ok p pv h keys kids {} hk hkeys hkids hbase s hsl
              simp only [visitChild, List.getElem?_eq_getElem hlt, hcc] at h3
              have hcm : kids[s] ∈ kids := List.getElem_mem hlt
              obtain ⟨res', hres', hok'⟩ := eraseDescend_ok p pv tg h kids[s] cctx (hkids _ hcm) hcok
              rw [hres'] at h3
              cases h3
              have hrok := hok' r rfl
              have hrs := eraseDescend_sep p pv sw tg h kids[s] cctx (hkids _ hcm) hcok (hsepk _ hcm) r hres'
              have hsa : cctx.sepAbove = decide (s < keys.length) := by
                rw [hcok.sep]
                by_cases hx : s < keys.length
                · simp [hx, hc2.mpr hx]
                · have : ¬ cctx.rp = cctx.par := fun h' => hx (hc2.mp h')
                  simp [hx, this]
              obtain ⟨keys3, kids3, lf, inf, hac, hro, hsp⟩ := afterChild_pre p pv tg h (h + 1) keys kids {} cctx s r rfl hk
                hsl hkids kids[s] (List.getElem?_eq_getElem hlt) hc1 hc2 hc3 hc4 hrok
              have hseq1 := sepSeq_after_child p h keys kids s kids[s] (List.getElem?_eq_getElem hlt) cctx r hsa hseq hrs
              have hsok1 : ∀ c ∈ kids.set s r.node, SepOk p h c := by
                intro c hc'
                rcases List.mem_or_eq_of_mem_set hc' with hc' | hc'
                · exact hsepk c hc'
                · subst hc'; exact hrs.sepok
              obtain ⟨hseq3, hsok3⟩ := hsp sw hseq1 hsok1
              rw [hac] at hd
              unfold finishInner at hd
              simp only [Option.isNone_none, Bool.true_and, Bool.and_self, if_true] at hd
              split at hd
              · -- the root collapses to its only child
                cases hk0 : kids3[0]? with
                | none => rw [hk0] at hd; cases hd
                | some c0 =>
                  rw [hk0] at hd
                  simp only [Option.map_some, Option.some.injEq] at hd
                  subst hd
                  simp only [if_true, BNode.isLeaf, Bool.false_eq_true, if_false]
                  have hc0m : c0 ∈ kids3 := List.mem_of_getElem? hk0
                  have hlev : c0.level = h := (hro.shape c0 hc0m).top.level
                  rw [hlev]
                  exact hsok3 c0 hc0m
              · simp only [Option.map_some, Option.some.injEq] at hd
                subst hd
                simp only [Bool.false_eq_true, if_false, BNode.level, SepOk]
                exact ⟨hseq3, hsok3⟩

/-- **erase preserves the whole invariant** -/
theorem eraseTop_treeInv (p : Params K) (pv : p.Valid) (sw : StrictWeak p.lt) (tg : Target K) (t : Tree K V)
    (ht : TreeInv p t) :
    ∃ res, eraseTop p t tg = some res ∧ TreeInv p res.tree := by
  obtain ⟨res, hres, hno, hyes⟩ := eraseTop_ok p pv tg t ht.1
  refine ⟨res, hres, ?_⟩
  cases he : res.erased with
  | false => rw [(hno he).1]; exact ht
  | true =>
    have hok := hyes he
    obtain ⟨r, i, _, _, hfl, _⟩ := hok.flat
    refine ⟨hok.shape, ?_, eraseTop_sepOk p pv sw tg t ht res hres⟩
    rw [hfl]
    exact sortedE_eraseIdx ht.2.1 _

end TlxVerif.C01
