import TlxVerif.Model.C11BarM
/-!
Invariants of the ThreadBarrierMutex transition system over all interleavings,
for every thread count `n ≥ 1` and every number of generations.
-/
namespace TlxVerif.C11.BarM
set_option linter.unusedSimpArgs false

/-- states reachable under every schedule and every spurious wake-up -/
inductive Reachable (n gens : Nat) : State → Prop
  | init (ay : Nat) : Reachable n gens (BarM.init n gens ay)
  | step {s t c o} : Reachable n gens s → step s t c = some o → Reachable n gens o.st

/-! ### generic list lemmas -/

theorem countP_modify {α : Type} (p : α → Bool) (f : α → α) :
    ∀ (l : List α) (t : Nat) (h : t < l.length),
      List.countP p (l.modify t f) + (if p l[t] then 1 else 0) = List.countP p l + (if p (f l[t]) then 1 else 0)
  | [], t, h => by simp at h
  | a :: l, 0, _ => by
    simp only [List.modify_zero_cons, List.countP_cons, List.getElem_cons_zero]
    omega
  | a :: l, t + 1, h => by
    have ih := countP_modify p f l t (by simpa using h)
    simp only [List.modify_succ_cons, List.countP_cons, List.getElem_cons_succ]
    omega

/-! ### thread table accessors -/

def dflt : Thread := { pc := .finished }
def getT (thr : List Thread) (t : Nat) : Thread := thr.getD t dflt

theorem getT_modify (thr : List Thread) (t u : Nat) (f : Thread → Thread) :
    getT (thr.modify t f) u = if t = u ∧ u < thr.length then f (getT thr u) else getT thr u := by
  unfold getT
  simp only [List.getD_eq_getElem?_getD, List.getElem?_modify]
  by_cases h : t = u
  · subst h
    by_cases hl : t < thr.length
    · simp [hl]
    · simp [hl]
  · simp [h]

theorem getT_of_getElem? {thr : List Thread} {t : Nat} {th : Thread} (h : thr[t]? = some th) : getT thr t = th := by
  simp [getT, List.getD_eq_getElem?_getD, h]

theorem lt_of_getElem? {thr : List Thread} {t : Nat} {th : Thread} (h : thr[t]? = some th) : t < thr.length :=
  (List.getElem?_eq_some_iff.mp h).1

theorem getElem_eq_getT {thr : List Thread} {t : Nat} (h : t < thr.length) : thr[t] = getT thr t := by
  simp [getT, List.getD_eq_getElem?_getD, List.getElem?_eq_getElem h]

theorem pcOf_eq (s : State) (t : Nat) : pcOf s t = (getT s.thr t).pc := by
  unfold pcOf getT
  simp only [List.getD_eq_getElem?_getD]
  cases s.thr[t]? <;> simp [dflt]

@[simp] theorem upd_thr (s : State) (t : Nat) (f : Thread → Thread) : (upd s t f).thr = s.thr.modify t f := rfl
@[simp] theorem upd_n (s : State) (t : Nat) (f : Thread → Thread) : (upd s t f).n = s.n := rfl
@[simp] theorem upd_gens (s : State) (t : Nat) (f : Thread → Thread) : (upd s t f).gens = s.gens := rfl
@[simp] theorem upd_c0 (s : State) (t : Nat) (f : Thread → Thread) : (upd s t f).c0 = s.c0 := rfl
@[simp] theorem upd_c1 (s : State) (t : Nat) (f : Thread → Thread) : (upd s t f).c1 = s.c1 := rfl
@[simp] theorem upd_step (s : State) (t : Nat) (f : Thread → Thread) : (upd s t f).step = s.step := rfl
@[simp] theorem upd_owner (s : State) (t : Nat) (f : Thread → Thread) : (upd s t f).owner = s.owner := rfl
@[simp] theorem upd_ws (s : State) (t : Nat) (f : Thread → Thread) : (upd s t f).ws = s.ws := rfl
@[simp] theorem upd_spawned (s : State) (t : Nat) (f : Thread → Thread) : (upd s t f).spawned = s.spawned := rfl
@[simp] theorem upd_begun (s : State) (t : Nat) (f : Thread → Thread) : (upd s t f).begun = s.begun := rfl
@[simp] theorem upd_actions (s : State) (t : Nat) (f : Thread → Thread) : (upd s t f).actions = s.actions := rfl
@[simp] theorem upd_actYields (s : State) (t : Nat) (f : Thread → Thread) : (upd s t f).actYields = s.actYields := rfl
@[simp] theorem upd_count (s : State) (t : Nat) (f : Thread → Thread) (i : Nat) : count (upd s t f) i = count s i := rfl

@[simp] theorem setCount_thr (s : State) (i v : Nat) : (setCount s i v).thr = s.thr := rfl
@[simp] theorem setCount_n (s : State) (i v : Nat) : (setCount s i v).n = s.n := rfl
@[simp] theorem setCount_gens (s : State) (i v : Nat) : (setCount s i v).gens = s.gens := rfl
@[simp] theorem setCount_step (s : State) (i v : Nat) : (setCount s i v).step = s.step := rfl
@[simp] theorem setCount_owner (s : State) (i v : Nat) : (setCount s i v).owner = s.owner := rfl
@[simp] theorem setCount_ws (s : State) (i v : Nat) : (setCount s i v).ws = s.ws := rfl
@[simp] theorem setCount_spawned (s : State) (i v : Nat) : (setCount s i v).spawned = s.spawned := rfl
@[simp] theorem setCount_begun (s : State) (i v : Nat) : (setCount s i v).begun = s.begun := rfl
@[simp] theorem setCount_actions (s : State) (i v : Nat) : (setCount s i v).actions = s.actions := rfl
@[simp] theorem setCount_actYields (s : State) (i v : Nat) : (setCount s i v).actYields = s.actYields := rfl

theorem count_setCount (s : State) (i v j : Nat) (hi : i ≤ 1) (hj : j ≤ 1) :
    count (setCount s i v) j = if i = j then v else count s j := by
  unfold count setCount
  by_cases h0 : i = 0 <;> by_cases h1 : j = 0 <;> simp [h0, h1] <;> omega

/-- program counters at which the thread owns the mutex -/
def holds : Pc → Bool
  | .cvwait _ | .act _ | .notify | .unlock => true
  | _ => false

@[simp] theorem holds_cvwait (c : Nat) : holds (.cvwait c) = true := rfl
@[simp] theorem holds_notify : holds .notify = true := rfl
@[simp] theorem holds_act (j : Nat) : holds (.act j) = true := rfl
@[simp] theorem holds_unlock : holds .unlock = true := rfl
@[simp] theorem holds_start : holds .start = false := rfl
@[simp] theorem holds_finished : holds .finished = false := rfl
@[simp] theorem holds_mSpawn (i : Nat) : holds (.mSpawn i) = false := rfl
@[simp] theorem holds_mJoin (i : Nat) : holds (.mJoin i) = false := rfl
@[simp] theorem holds_lock : holds .lock = false := rfl
@[simp] theorem holds_waiting (c : Nat) : holds (.waiting c) = false := rfl

/-- unfold `step`, split all its branches, normalise the result state -/
syntax "barm_step_cases " ident : tactic
macro_rules
  | `(tactic| barm_step_cases $h) => `(tactic|
      (unfold step at $h:ident
       repeat' split at $h:ident
       all_goals (first | (simp [out, setPc] at $h:ident) | skip)
       all_goals (try (repeat' split at $h:ident))
       all_goals (try (simp only [Option.some.injEq] at $h:ident))
       all_goals (try subst $h:ident)))

/-! ### the invariant -/

/-- `u` is one of the n barrier threads -/
def isBar (s : State) (u : Nat) : Prop := 1 ≤ u ∧ u ≤ s.n

/-- what the program counter of a barrier thread says about its ghost counters -/
def pcOk (s : State) (th : Thread) : Prop :=
  match th.pc with
  | .start => th.arrived = 0 ∧ th.left = 0
  | .lock => th.arrived = th.left ∧ th.left < s.gens
  | .cvwait cur => th.arrived = th.left + 1 ∧ cur = th.left % 2 ∧ th.left < s.gens ∧ th.left = s.begun ∧ s.begun = s.actions
  | .waiting cur => th.arrived = th.left + 1 ∧ cur = th.left % 2 ∧ th.left < s.gens
  | .act _ => th.arrived = th.left + 1 ∧ th.left + 1 = s.begun ∧ th.left < s.gens ∧ s.begun = s.actions + 1
  | .notify => th.arrived = th.left + 1 ∧ th.left + 1 ≤ s.begun ∧ th.left < s.gens ∧ s.begun = s.actions
  | .unlock => th.arrived = th.left + 1 ∧ th.left + 1 ≤ s.begun ∧ th.left < s.gens ∧ s.begun = s.actions
  | .finished => th.arrived = th.left ∧ th.left = s.gens
  | .mSpawn _ | .mJoin _ => False

/-- the main thread -/
def mainOk (s : State) (th : Thread) : Prop :=
  th.arrived = 0 ∧ th.left = 0 ∧
  match th.pc with
  | .start => s.spawned = 0
  | .mSpawn i => s.spawned = i ∧ i < s.n
  | .mJoin i => s.spawned = s.n ∧ i < s.n
  | .finished => s.spawned = s.n
  | _ => False

/-- the last arriver before it has called `notify_all`: inside the action, or about to notify -/
def nfy : Pc → Bool
  | .act _ | .notify => true
  | _ => false

@[simp] theorem nfy_act (j : Nat) : nfy (.act j) = true := rfl
@[simp] theorem nfy_notify : nfy .notify = true := rfl
@[simp] theorem nfy_cvwait (c : Nat) : nfy (.cvwait c) = false := rfl
@[simp] theorem nfy_unlock : nfy .unlock = false := rfl
@[simp] theorem nfy_start : nfy .start = false := rfl
@[simp] theorem nfy_finished : nfy .finished = false := rfl
@[simp] theorem nfy_mSpawn (i : Nat) : nfy (.mSpawn i) = false := rfl
@[simp] theorem nfy_mJoin (i : Nat) : nfy (.mJoin i) = false := rfl
@[simp] theorem nfy_lock : nfy .lock = false := rfl
@[simp] theorem nfy_waiting (c : Nat) : nfy (.waiting c) = false := rfl

@[simp] theorem holds_beginPc (s : State) : holds (beginPc s) = true := by unfold beginPc; split <;> rfl
@[simp] theorem nfy_beginPc (s : State) : nfy (beginPc s) = true := by unfold beginPc; split <;> rfl

structure Inv (s : State) : Prop where
  npos : 1 ≤ s.n
  len : s.thr.length = s.n + 1
  main : mainOk s (getT s.thr 0)
  stepPar : s.step = s.begun % 2
  mutex : ∀ t, (holds (getT s.thr t).pc = true ↔ s.owner = some t)
  bnd : ∀ u, isBar s u → s.begun ≤ (getT s.thr u).arrived ∧ (getT s.thr u).arrived ≤ s.begun + 1 ∧
          (getT s.thr u).left ≤ s.begun
  pcs : ∀ u, isBar s u → pcOk s (getT s.thr u)
  cnt : count s s.step = s.thr.countP fun th => decide (th.arrived = s.begun + 1)
  cntLt : count s s.step < s.n
  old : 1 ≤ s.begun → count s (1 - s.step) = s.n
  wsNodup : s.ws.Nodup
  wsPc : ∀ u, u ∈ s.ws → isBar s u ∧ ∃ cur, (getT s.thr u).pc = .waiting cur
  wsGen : (∃ t, isBar s t ∧ nfy (getT s.thr t).pc = true) ∨ ∀ u, u ∈ s.ws → (getT s.thr u).left = s.begun
  /-- actions ended ≤ actions begun ≤ actions ended + 1 -/
  ae : s.actions ≤ s.begun ∧ s.begun ≤ s.actions + 1
  /-- an action is in progress only while its thread holds the mutex -/
  aeNone : s.owner = none → s.begun = s.actions
  /-- nobody has left a generation whose action has not ended -/
  leftEnd : ∀ u, isBar s u → (getT s.thr u).left ≤ s.actions

theorem getT_init (n gens ay u : Nat) :
    getT (BarM.init n gens ay).thr u = if u ≤ n then { pc := .start } else dflt := by
  unfold getT BarM.init
  simp only [List.getD_eq_getElem?_getD]
  cases u with
  | zero => simp
  | succ k =>
    simp only [List.getElem?_cons_succ, List.getElem?_replicate]
    by_cases h : k < n
    · simp [h]; omega
    · simp [h]; omega

theorem inv_init (n gens ay : Nat) (hn : 1 ≤ n) : Inv (BarM.init n gens ay) := by
  refine ⟨hn, by simp [BarM.init], ?_, rfl, ?_, ?_, ?_, ?_, ?_, ?_, ?_, ?_, ?_, by simp [BarM.init], by simp [BarM.init], ?_⟩
  · rw [getT_init]; simp [mainOk, BarM.init]
  · intro t; rw [getT_init]; by_cases h : t ≤ n <;> simp [h, dflt, BarM.init]
  · intro u hu; rw [getT_init]; simp [BarM.init, isBar] at hu ⊢; simp [hu.2]
  · intro u hu; rw [getT_init]; simp [BarM.init, isBar] at hu ⊢; simp [hu.2, pcOk]
  · simp [BarM.init, count, List.countP_replicate]
  · simp [BarM.init, count]; omega
  · simp [BarM.init]
  · simp [BarM.init]
  · simp [BarM.init]
  · right; simp [BarM.init]
  · intro u hu; rw [getT_init]; simp [BarM.init, isBar] at hu ⊢; simp [hu.2]

theorem step_le_one {s : State} (hi : Inv s) : s.step ≤ 1 := by rw [hi.stepPar]; omega

theorem frame_step {s : State} {t c : Nat} {o} (h : step s t c = some o) :
    o.st.n = s.n ∧ o.st.gens = s.gens ∧ o.st.thr.length = s.thr.length := by
  barm_step_cases h
  all_goals (first | (simp; done) | (simp; omega) | omega)

theorem main_step {s : State} {t c : Nat} {o} (h : step s t c = some o) (hi : Inv s) :
    mainOk o.st (getT o.st.thr 0) := by
  have hm := hi.main
  have hp := hi.pcs
  have hlen := hi.len
  have hn := hi.npos
  barm_step_cases h
  all_goals (
    have hlt := lt_of_getElem? ‹s.thr[t]? = some _›
    have hth := getT_of_getElem? ‹s.thr[t]? = some _›
    simp only [upd_thr, setCount_thr, getT_modify]
    by_cases ht0 : t = 0
    · subst ht0; simp_all [mainOk]; all_goals omega
    · have hb : isBar s t := ⟨by omega, by omega⟩
      have hpt := hp t hb
      simp_all [mainOk, pcOk])

theorem mutex_step {s : State} {t c : Nat} {o} (h : step s t c = some o) (hi : Inv s) :
    ∀ u, (holds (getT o.st.thr u).pc = true ↔ o.st.owner = some u) := by
  have hm := hi.mutex
  barm_step_cases h
  all_goals (
    have hlt := lt_of_getElem? ‹s.thr[t]? = some _›
    have hth := getT_of_getElem? ‹s.thr[t]? = some _›
    intro u
    have hu := hm u
    have ht := hm t
    simp only [upd_thr, setCount_thr, getT_modify]
    by_cases hut : t = u <;> simp_all)

theorem other_par {a : Nat} : other (a % 2) = (a + 1) % 2 := by
  unfold other; split <;> omega

theorem stepPar_step {s : State} {t c : Nat} {o} (h : step s t c = some o) (hi : Inv s) :
    o.st.step = o.st.begun % 2 := by
  have hp := hi.stepPar
  barm_step_cases h
  all_goals (first | (simp; exact hp) | (simp; rw [hp]; exact other_par))

/-- a barrier thread about to arrive (`lock`) is in the current generation -/
theorem lock_cur {s : State} (hi : Inv s) {u : Nat} (hb : isBar s u) (hpc : (getT s.thr u).pc = .lock) :
    (getT s.thr u).arrived = s.begun ∧ (getT s.thr u).left = s.begun := by
  have h1 := hi.bnd u hb
  have h2 := hi.pcs u hb
  simp [pcOk, hpc] at h2
  omega

/-- the stepping thread is a barrier thread unless it is at a main-thread pc -/
theorem isBar_of_pc {s : State} (hi : Inv s) {t : Nat} (hlt : t < s.thr.length)
    (hpc : match (getT s.thr t).pc with | .lock | .cvwait _ | .waiting _ | .act _ | .notify | .unlock => True | _ => False) :
    isBar s t := by
  have hlen := hi.len
  by_cases h0 : t = 0
  · subst h0
    have hm := hi.main
    unfold mainOk at hm
    cases hp : (getT s.thr 0).pc <;> simp [hp] at hpc hm
  · exact ⟨by omega, by omega⟩

theorem cntLt_step {s : State} {t c : Nat} {o} (h : step s t c = some o) (hi : Inv s) :
    count o.st o.st.step < o.st.n := by
  have hp := hi.cntLt
  have hn := hi.npos
  have hs := step_le_one hi
  barm_step_cases h
  all_goals (first | (simp; exact hp) | skip)
  all_goals (
    have hs' : s.step = 0 ∨ s.step = 1 := by omega
    rcases hs' with h0 | h1 <;> simp_all [count, setCount, other] <;> omega)

theorem old_step {s : State} {t c : Nat} {o} (h : step s t c = some o) (hi : Inv s) :
    1 ≤ o.st.begun → count o.st (1 - o.st.step) = o.st.n := by
  have hp := hi.old
  have hc := hi.cntLt
  have hn := hi.npos
  have hs := step_le_one hi
  barm_step_cases h
  all_goals (first | (simp; exact hp) | skip)
  all_goals (
    have hs' : s.step = 0 ∨ s.step = 1 := by omega
    rcases hs' with h0 | h1 <;> simp_all [count, setCount, other] <;> omega)

theorem countP_modify_same {α : Type} (p : α → Bool) (f : α → α) (hpf : ∀ x, p (f x) = p x) :
    ∀ (l : List α) (t : Nat), List.countP p (l.modify t f) = List.countP p l
  | [], t => by simp
  | a :: l, 0 => by simp [List.countP_cons, hpf]
  | a :: l, t + 1 => by
    simp only [List.modify_succ_cons, List.countP_cons]
    rw [countP_modify_same p f hpf l t]

theorem countP_eq_zero_of_getT {thr : List Thread} {p : Thread → Bool}
    (h : ∀ u, u < thr.length → p (getT thr u) = false) : thr.countP p = 0 := by
  rw [List.countP_eq_zero]
  intro a ha
  obtain ⟨i, hi, rfl⟩ := List.mem_iff_getElem.mp ha
  rw [getElem_eq_getT hi, h i hi]
  simp

/-- if at least `n` of the `n+1` threads satisfy `p` and the main thread does not, all barrier threads do -/
theorem all_of_countP {thr : List Thread} {n : Nat} {p : Thread → Bool} (hlen : thr.length = n + 1)
    (hmain : p (getT thr 0) = false) (hc : n ≤ thr.countP p) : ∀ u, 1 ≤ u → u ≤ n → p (getT thr u) = true := by
  match thr, hlen with
  | x :: tail, hlen =>
    have hx : getT (x :: tail) 0 = x := by simp [getT]
    rw [hx] at hmain
    have htl : tail.length = n := by simpa using hlen
    rw [List.countP_cons, hmain] at hc
    simp at hc
    have hle := List.countP_le_length (p := p) (l := tail)
    have heq : List.countP p tail = tail.length := by omega
    have hall := List.countP_eq_length.mp heq
    intro u h1 h2
    have hu : getT (x :: tail) u = tail[u - 1]'(by omega) := by
      unfold getT
      obtain ⟨k, rfl⟩ : ∃ k, u = k + 1 := ⟨u - 1, by omega⟩
      simp [List.getD_eq_getElem?_getD, List.getElem?_eq_getElem (show k < tail.length by omega)]
    rw [hu]
    exact hall _ (List.getElem_mem _)


theorem cnt_step {s : State} {t c : Nat} {o} (h : step s t c = some o) (hi : Inv s) :
    count o.st o.st.step = o.st.thr.countP fun th => decide (th.arrived = o.st.begun + 1) := by
  have hp := hi.cnt
  have hs := step_le_one hi
  have hlen := hi.len
  barm_step_cases h
  all_goals (
    have hlt := lt_of_getElem? ‹s.thr[t]? = some _›
    have hth := getT_of_getElem? ‹s.thr[t]? = some _›)
  all_goals (first
    | (simp only [upd_thr, upd_count, upd_step, upd_begun]
       rw [countP_modify_same _ _ (by intro x; rfl)]; exact hp)
    | skip)
  · -- arrival that does not complete the generation
    have hb : isBar s t := isBar_of_pc hi hlt (by simp [*])
    have hcur := lock_cur hi hb (by simp [*])
    have hcm := countP_modify (fun th : Thread => decide (th.arrived = s.begun + 1))
      (fun th => { th with pc := Pc.cvwait s.step, arrived := th.arrived + 1 }) s.thr t hlt
    rw [getElem_eq_getT hlt] at hcm
    simp only [upd_thr, upd_count, upd_step, upd_begun, setCount_thr, setCount_step, setCount_begun]
    rw [count_setCount _ _ _ _ hs hs]
    simp [hcur.1] at hcm
    simp
    rw [hp]
    exact hcm.symm
  · -- last arrival: flip
    simp only [upd_thr, upd_count, upd_step, upd_begun, setCount_thr, setCount_step, setCount_begun]
    have ho : other s.step ≤ 1 := by unfold other; split <;> omega
    rw [count_setCount _ _ _ _ ho ho]
    simp only [if_true]
    symm
    apply countP_eq_zero_of_getT
    intro u hu
    rw [getT_modify]
    have hlen' : (s.thr.modify t fun th => { th with pc := beginPc s, arrived := th.arrived + 1 }).length = s.thr.length := by simp
    rw [hlen'] at hu
    have hb : isBar s t := isBar_of_pc hi hlt (by simp [*])
    have hcur := lock_cur hi hb (by simp [*])
    by_cases hut : t = u
    · subst hut; simp [hu, hcur.1]
    · simp only [hut, false_and, if_false]
      by_cases hu0 : u = 0
      · subst hu0; have := hi.main; simp [mainOk] at this; simp [this.1]
      · have := hi.bnd u ⟨by omega, by omega⟩
        simp; omega


theorem bnd_step {s : State} {t c : Nat} {o} (h : step s t c = some o) (hi : Inv s) :
    ∀ u, isBar o.st u → o.st.begun ≤ (getT o.st.thr u).arrived ∧ (getT o.st.thr u).arrived ≤ o.st.begun + 1 ∧
          (getT o.st.thr u).left ≤ o.st.begun := by
  have hp := hi.bnd
  have hpc := hi.pcs
  have hs := step_le_one hi
  have hlen := hi.len
  barm_step_cases h
  all_goals (
    have hlt := lt_of_getElem? ‹s.thr[t]? = some _›
    have hth := getT_of_getElem? ‹s.thr[t]? = some _›)
  all_goals (first
    | (intro u hu
       have hu' : isBar s u := hu
       have h1 := hp u hu'
       have h2 := hpc u hu'
       simp only [upd_thr, setCount_thr, getT_modify, upd_begun, setCount_begun]
       by_cases hut : t = u
       · subst hut; simp_all [pcOk] <;> omega
       · simp_all; done)
    | skip)
  · -- arrival that does not complete the generation
    have hb : isBar s t := isBar_of_pc hi hlt (by simp [*])
    have hcur := lock_cur hi hb (by simp [*])
    intro u hu
    have h1 := hp u hu
    simp only [upd_thr, setCount_thr, getT_modify, upd_begun, setCount_begun]
    by_cases hut : t = u
    · subst hut; simp [hlt]; omega
    · simp [hut]; exact h1
  · -- last arrival: everybody has arrived in this generation
    have hb : isBar s t := isBar_of_pc hi hlt (by simp [*])
    have hcur := lock_cur hi hb (by simp [*])
    have hcm := countP_modify (fun th : Thread => decide (th.arrived = s.begun + 1))
      (fun th => { th with pc := beginPc s, arrived := th.arrived + 1 }) s.thr t hlt
    rw [getElem_eq_getT hlt] at hcm
    simp [hcur.1] at hcm
    have hcnt := hi.cnt
    have hall := all_of_countP (p := fun th : Thread => decide (th.arrived = s.begun + 1))
      (thr := s.thr.modify t fun th => { th with pc := beginPc s, arrived := th.arrived + 1 }) (n := s.n)
      (by simp [hlen])
      (by
        rw [getT_modify]
        have ht0 : t ≠ 0 := by have := hb.1; omega
        have := hi.main
        simp [mainOk] at this
        simp [ht0, this.1])
      (by rw [hcm, ← hcnt]; omega)
    intro u hu
    have h1 := hp u hu
    have h3 := hall u hu.1 hu.2
    simp only [upd_thr, setCount_thr, upd_begun, setCount_begun]
    simp at h3
    rw [h3]
    refine ⟨by omega, by omega, ?_⟩
    rw [getT_modify]
    by_cases hut : t = u
    · subst hut; simp [hlt]; omega
    · simp [hut]; omega


/-- a waiter sees `counts_[cur] < n` exactly while its generation is still the current one -/
theorem waiting_gen {s : State} (hi : Inv s) {u cur : Nat} (hb : isBar s u)
    (hpc : (getT s.thr u).pc = .waiting cur) :
    (count s cur < s.n → (getT s.thr u).left = s.begun) ∧
    (¬ count s cur < s.n → (getT s.thr u).left + 1 = s.begun) := by
  have h1 := hi.bnd u hb
  have h2 := hi.pcs u hb
  simp [pcOk, hpc] at h2
  have hsp := hi.stepPar
  have hlt := hi.cntLt
  have hold := hi.old
  have hcase : (getT s.thr u).left = s.begun ∨ (getT s.thr u).left + 1 = s.begun := by omega
  rcases hcase with hc | hc
  · have : cur = s.step := by rw [hsp, h2.2.1, hc]
    subst this
    exact ⟨fun _ => hc, fun h => absurd hlt h⟩
  · have h1a : 1 ≤ s.begun := by omega
    have : cur = 1 - s.step := by rw [hsp, h2.2.1]; omega
    subst this
    have := hold h1a
    exact ⟨fun h => by omega, fun _ => hc⟩

theorem pcs_step {s : State} {t c : Nat} {o} (h : step s t c = some o) (hi : Inv s) :
    ∀ u, isBar o.st u → pcOk o.st (getT o.st.thr u) := by
  have hp := hi.bnd
  have hpc := hi.pcs
  have hs := step_le_one hi
  have hlen := hi.len
  have hmain := hi.main
  have hae := hi.ae
  have haeN := hi.aeNone
  barm_step_cases h
  all_goals (
    have hlt := lt_of_getElem? ‹s.thr[t]? = some _›
    have hth := getT_of_getElem? ‹s.thr[t]? = some _›)
  all_goals (first
    | (intro u hu
       have hu' : isBar s u := hu
       have h1 := hp u hu'
       have h2 := hpc u hu'
       simp only [upd_thr, setCount_thr, getT_modify, upd_begun, setCount_begun]
       by_cases hut : t = u
       · subst hut; simp_all [pcOk, mainOk, isBar]; done
       · simp only [hut, false_and, if_false]; exact h2)
    | (intro u hu
       have hu' : isBar s u := hu
       have h1 := hp u hu'
       have h2 := hpc u hu'
       simp only [upd_thr, setCount_thr, getT_modify, upd_begun, setCount_begun]
       by_cases hut : t = u
       · subst hut; simp_all [pcOk, mainOk, isBar]; omega
       · simp only [hut, false_and, if_false]; exact h2)
    | skip)
  · -- arrival that does not complete the generation
    have hb : isBar s t := isBar_of_pc hi hlt (by simp [*])
    have hcur := lock_cur hi hb (by simp [*])
    have hpt := hpc t hb
    have hsp := hi.stepPar
    intro u hu
    have h2 := hpc u hu
    simp only [upd_thr, setCount_thr, getT_modify]
    by_cases hut : t = u
    · subst hut; simp_all [pcOk]
    · simp only [hut, false_and, if_false]; exact h2
  · -- last arrival: flip; nobody else is inside the critical section
    have hb : isBar s t := isBar_of_pc hi hlt (by simp [*])
    have hcur := lock_cur hi hb (by simp [*])
    have hpt := hpc t hb
    have hown : s.owner = none := by simpa using ‹s.owner.isNone = true›
    intro u hu
    have h2 := hpc u hu
    have hmu := hi.mutex u
    simp only [upd_thr, setCount_thr, getT_modify]
    by_cases hut : t = u
    · subst hut
      have hba := haeN hown
      unfold beginPc beginEnded
      split <;> simp_all [pcOk] <;> omega
    · simp only [hut, false_and, if_false]
      rw [hown] at hmu
      unfold pcOk at h2 ⊢
      cases hpu : (getT s.thr u).pc <;> simp [hpu] at h2 hmu ⊢ <;> omega
  all_goals first
  | (have hb : isBar s t := isBar_of_pc hi hlt (by simp [*])
     have hw := waiting_gen hi hb (by rw [hth]; assumption)
     intro u hu
     have hu' : isBar s u := hu
     have h1 := hp u hu'
     have h2 := hpc u hu'
     simp only [upd_thr, setCount_thr, getT_modify, upd_begun, setCount_begun]
     by_cases hut : t = u
     · subst hut; simp_all [pcOk, mainOk, isBar]; all_goals omega
     · simp only [hut, false_and, if_false]; exact h2)
  | -- the action ends: its thread holds the mutex, the other threads are outside the critical section
    (have hb : isBar s t := isBar_of_pc hi hlt (by simp [*])
     have hpt := hpc t hb
     have hmt := (hi.mutex t).mp (by rw [hth]; simp [*])
     intro u hu
     have hu' : isBar s u := hu
     have h2 := hpc u hu'
     have hmu := hi.mutex u
     simp only [upd_thr, setCount_thr, getT_modify]
     by_cases hut : t = u
     · subst hut; simp_all [pcOk]
     · simp only [hut, false_and, if_false]
       rw [hmt] at hmu
       unfold pcOk at h2 ⊢
       cases hpu : (getT s.thr u).pc <;> simp [hpu, hut] at h2 hmu ⊢ <;> omega)

theorem wsNodup_step {s : State} {t c : Nat} {o} (h : step s t c = some o) (hi : Inv s) : o.st.ws.Nodup := by
  have hp := hi.wsNodup
  have hw := hi.wsPc
  barm_step_cases h
  all_goals (first | (simp; exact hp) | skip)
  all_goals (
    have hlt := lt_of_getElem? ‹s.thr[t]? = some _›
    have hth := getT_of_getElem? ‹s.thr[t]? = some _›)
  · -- cvwait: t is not yet in the wait set
    simp
    rw [List.nodup_append]
    refine ⟨hp, by simp, ?_⟩
    intro a ha b hb
    simp at hb; subst hb
    intro hab; subst hab
    obtain ⟨_, cur, hc⟩ := hw a ha
    rw [hth] at hc
    simp_all
  all_goals (first | (simp; exact hp.erase t) | simp)

theorem wsPc_step {s : State} {t c : Nat} {o} (h : step s t c = some o) (hi : Inv s) :
    ∀ u, u ∈ o.st.ws → isBar o.st u ∧ ∃ cur, (getT o.st.thr u).pc = .waiting cur := by
  have hp := hi.wsNodup
  have hw := hi.wsPc
  barm_step_cases h
  all_goals (
    have hlt := lt_of_getElem? ‹s.thr[t]? = some _›
    have hth := getT_of_getElem? ‹s.thr[t]? = some _›)
  all_goals (first
    | (intro u hu
       have hu' : u ∈ s.ws := hu
       obtain ⟨hb, cur, hc⟩ := hw u hu'
       refine ⟨hb, ?_⟩
       simp only [upd_thr, setCount_thr, getT_modify]
       by_cases hut : t = u
       · subst hut; rw [hth] at hc; simp_all; done
       · simp only [hut, false_and, if_false]; exact ⟨cur, hc⟩)
    | skip)
  · -- cvwait: t joins the wait set
    have hb : isBar s t := isBar_of_pc hi hlt (by simp [*])
    intro u hu
    simp at hu
    simp only [upd_thr, getT_modify]
    rcases hu with hu | hu
    · obtain ⟨hbu, cur, hc⟩ := hw u hu
      refine ⟨hbu, ?_⟩
      by_cases hut : t = u
      · subst hut; simp [hlt]
      · simp only [hut, false_and, if_false]; exact ⟨cur, hc⟩
    · subst hu; exact ⟨hb, by simp [hlt]⟩
  -- waiting: t leaves the wait set (4 cases), notify: the wait set is emptied
  all_goals (
    intro u hu
    first
    | (simp at hu; done)
    | (have hu2 := (hp.mem_erase_iff.mp hu)
       obtain ⟨hbu, cur, hc⟩ := hw u hu2.2
       refine ⟨hbu, ?_⟩
       simp only [upd_thr, getT_modify]
       have hut : ¬ t = u := fun h => hu2.1 h.symm
       simp only [hut, false_and, if_false]; exact ⟨cur, hc⟩))

theorem wsGen_step {s : State} {t c : Nat} {o} (h : step s t c = some o) (hi : Inv s) :
    (∃ x, isBar o.st x ∧ nfy (getT o.st.thr x).pc = true) ∨ ∀ u, u ∈ o.st.ws → (getT o.st.thr u).left = o.st.begun := by
  have hnd := hi.wsNodup
  have hw := hi.wsPc
  have hg := hi.wsGen
  have hpc := hi.pcs
  barm_step_cases h
  all_goals (
    have hlt := lt_of_getElem? ‹s.thr[t]? = some _›
    have hth := getT_of_getElem? ‹s.thr[t]? = some _›)
  all_goals (first
    | -- the acting thread becomes the notifier
      (left; refine ⟨t, ?_, ?_⟩
       · apply isBar_of_pc hi hlt; simp [*]; done
       · simp [getT_modify, hlt]; done)
    | -- the wait set is emptied
      (right; intro u hu; simp at hu; done)
    | (rcases hg with ⟨x, hbx, hx⟩ | hg
       · -- a notifier other than t stays where it is
         left
         refine ⟨x, hbx, ?_⟩
         simp only [upd_thr, setCount_thr, getT_modify]
         by_cases hut : t = x
         · subst hut; rw [hth] at hx; simp_all; done
         · simp only [hut, false_and, if_false]; exact hx
       · right
         intro u hu
         simp only [upd_thr, setCount_thr, getT_modify, upd_begun, setCount_begun]
         first
         | (have hu' : u ∈ s.ws := hu
            obtain ⟨_, cur, hc⟩ := hw u hu'
            by_cases hut : t = u
            · subst hut; rw [hth] at hc; simp_all; done
            · simp only [hut, false_and, if_false]; exact hg u hu')
         | skip)
    | skip)
  · -- cvwait: t joins the wait set; it is in the current generation
    have hb : isBar s t := isBar_of_pc hi hlt (by simp [*])
    have hpt := hpc t hb
    rcases hg with ⟨x, hbx, hx⟩ | hg
    · left
      refine ⟨x, hbx, ?_⟩
      simp only [upd_thr, getT_modify]
      by_cases hut : t = x
      · subst hut; rw [hth] at hx; simp_all
      · simp only [hut, false_and, if_false]; exact hx
    · right
      intro u hu
      simp at hu
      simp only [upd_thr, getT_modify, upd_begun]
      by_cases hut : t = u
      · subst hut; simp [hlt]; rw [hth] at hpt; simp_all [pcOk]
      · simp only [hut, false_and, if_false]
        rcases hu with hu | hu
        · exact hg u hu
        · exact absurd hu.symm hut
  -- waiting: t leaves the wait set
  all_goals (
    rcases hg with ⟨x, hbx, hx⟩ | hg
    · left
      refine ⟨x, hbx, ?_⟩
      simp only [upd_thr, getT_modify]
      by_cases hut : t = x
      · subst hut; rw [hth] at hx; simp_all
      · simp only [hut, false_and, if_false]; exact hx
    · right
      intro u hu
      have hu2 := (hnd.mem_erase_iff.mp hu)
      have hut : ¬ t = u := fun h => hu2.1 h.symm
      simp only [upd_thr, getT_modify, upd_begun]
      simp only [hut, false_and, if_false]
      exact hg u hu2.2)


theorem le_beginEnded (s : State) : s.actions ≤ beginEnded s := by unfold beginEnded; split <;> omega

theorem ae_step {s : State} {t c : Nat} {o} (h : step s t c = some o) (hi : Inv s) :
    o.st.actions ≤ o.st.begun ∧ o.st.begun ≤ o.st.actions + 1 := by
  have hae := hi.ae
  have haeN := hi.aeNone
  have hpc := hi.pcs
  barm_step_cases h
  all_goals (first | (simp; exact hae) | skip)
  all_goals (
    have hlt := lt_of_getElem? ‹s.thr[t]? = some _›
    have hth := getT_of_getElem? ‹s.thr[t]? = some _›
    have hb : isBar s t := isBar_of_pc hi hlt (by simp [*])
    have hpt := hpc t hb)
  · -- the action begins: the mutex was free, so no action was in progress
    have hown : s.owner = none := by simpa using ‹s.owner.isNone = true›
    have := haeN hown
    simp [beginEnded]
    split <;> omega
  · -- the action ends
    rw [hth] at hpt
    simp_all [pcOk]

theorem aeNone_step {s : State} {t c : Nat} {o} (h : step s t c = some o) (hi : Inv s) :
    o.st.owner = none → o.st.begun = o.st.actions := by
  have haeN := hi.aeNone
  have hpc := hi.pcs
  have hmut := hi.mutex
  barm_step_cases h
  all_goals (first | (simp; exact haeN) | (intro ho; simp at ho; done) | skip)
  all_goals (
    have hlt := lt_of_getElem? ‹s.thr[t]? = some _›
    have hth := getT_of_getElem? ‹s.thr[t]? = some _›
    have hb : isBar s t := isBar_of_pc hi hlt (by simp [*])
    have hpt := hpc t hb
    have hmt := (hmut t).mp (by rw [hth]; simp [*])
    rw [hth] at hpt
    simp_all [pcOk])

theorem leftEnd_step {s : State} {t c : Nat} {o} (h : step s t c = some o) (hi : Inv s) :
    ∀ u, isBar o.st u → (getT o.st.thr u).left ≤ o.st.actions := by
  have hl := hi.leftEnd
  have hpc := hi.pcs
  barm_step_cases h
  all_goals (
    have hlt := lt_of_getElem? ‹s.thr[t]? = some _›
    have hth := getT_of_getElem? ‹s.thr[t]? = some _›
    intro u hu
    have hu' : isBar s u := hu
    have h1 := hl u hu'
    have h2 := hpc u hu'
    have h3 := le_beginEnded s
    simp only [upd_thr, setCount_thr, getT_modify, upd_actions, setCount_actions]
    by_cases hut : t = u
    · subst hut; simp_all [pcOk] <;> omega
    · simp only [hut, false_and, if_false]; first | exact h1 | omega)

theorem inv_step {s : State} {t c : Nat} {o} (h : step s t c = some o) (hi : Inv s) : Inv o.st := by
  have hf := frame_step h
  exact {
    npos := by rw [hf.1]; exact hi.npos
    len := by rw [hf.2.2, hf.1]; exact hi.len
    main := main_step h hi
    stepPar := stepPar_step h hi
    mutex := mutex_step h hi
    bnd := bnd_step h hi
    pcs := pcs_step h hi
    cnt := cnt_step h hi
    cntLt := cntLt_step h hi
    old := old_step h hi
    wsNodup := wsNodup_step h hi
    wsPc := wsPc_step h hi
    wsGen := wsGen_step h hi
    ae := ae_step h hi
    aeNone := aeNone_step h hi
    leftEnd := leftEnd_step h hi }

theorem reachable_inv {n gens : Nat} (hn : 1 ≤ n) {s : State} (h : Reachable n gens s) : Inv s := by
  induction h with
  | init ay => exact inv_init n gens ay hn
  | step _ hs ih => exact inv_step hs ih

theorem reachable_params {n gens : Nat} {s : State} (h : Reachable n gens s) : s.n = n ∧ s.gens = gens := by
  induction h with
  | init ay => exact ⟨rfl, rfl⟩
  | step _ hs ih => have := frame_step hs; exact ⟨this.1.trans ih.1, this.2.1.trans ih.2⟩

/-- run a list of (thread, draw) choices; `none` if some chosen thread cannot step -/
def runChoices (s : State) : List (Nat × Nat) → Option State
  | [] => some s
  | (t, c) :: rest =>
    match step s t c with
    | some o => runChoices o.st rest
    | none => none

theorem reachable_runChoices {n gens : Nat} {s s' : State} (l : List (Nat × Nat))
    (h : Reachable n gens s) (hr : runChoices s l = some s') : Reachable n gens s' := by
  induction l generalizing s with
  | nil => simp [runChoices] at hr; subst hr; exact h
  | cons p rest ih =>
    obtain ⟨t, c⟩ := p
    simp only [runChoices] at hr
    split at hr
    · rename_i o ho
      exact ih (Reachable.step h ho) hr
    · simp at hr

theorem countP_ge_of_all {thr : List Thread} {n : Nat} {p : Thread → Bool} (hlen : thr.length = n + 1)
    (hall : ∀ u, 1 ≤ u → u ≤ n → p (getT thr u) = true) : n ≤ thr.countP p := by
  match thr, hlen with
  | x :: tail, hlen =>
    have htl : tail.length = n := by simpa using hlen
    have : List.countP p tail = tail.length := by
      rw [List.countP_eq_length]
      intro a ha
      obtain ⟨i, hi, rfl⟩ := List.mem_iff_getElem.mp ha
      have := hall (i + 1) (by omega) (by omega)
      simpa [getT, List.getD_eq_getElem?_getD, List.getElem?_eq_getElem hi] using this
    rw [List.countP_cons]
    omega

/-- an enabled thread has a transition -/
theorem enabled_step {s : State} {t : Nat} (c : Nat) (he : enabled s t = true) :
    ∃ o, step s t c = some o := by
  unfold enabled pcOf at he
  unfold step
  cases hth : s.thr[t]? with
  | none => simp [hth] at he
  | some th =>
    simp only [hth, Option.map_some, Option.getD_some] at he ⊢
    cases hp : th.pc <;> simp [hp, out, pcOf] at he ⊢
    all_goals (try (simp_all; done))
    all_goals (try (repeat' split) <;> simp_all <;> done)


end TlxVerif.C11.BarM
