/-
C04 — the induction over the recursion of pS5: every call of the model returns a sorted
permutation with exact LCPs (or runs out of fuel), for every parameter set and every chooser.
-/
import TlxVerif.Proofs.C04Sample
namespace TlxVerif.C04
variable {af : Bool}

/-- every call of the model is correct; with `af = false`: and does not run out of fuel when the
fuel is at least the measure `mu` of the call -/
theorem sortM_recOk {env : Env} (henv : EnvOk env) : ∀ fuel, RecOk af (fuel + 1) (sortM env fuel) := by
  intro fuel
  induction fuel with
  | zero =>
    intro mode strs p _ _ hmu
    refine ⟨?_, rfl⟩
    cases af with
    | true => rfl
    | false => have := hmu rfl; have := mu_pos mode strs p.length; omega
  | succ fuel ih =>
    intro mode strs p hr hpre hmu
    have ih' : RecOk af (mu mode strs p.length) (sortM env fuel) := ih.mono (fun e => by have := hmu e; omega)
    cases mode with
    | enq =>
      simp only [sortM]
      by_cases hb : env.isBig strs.length = true
      · simp only [hb, if_true]
        have : 1 ≤ strs.length := henv.big _ hb
        exact ih' .big strs p hr (List.length_pos_iff.1 (by omega)) (fun _ => by simp only [mu, Mode.rank]; omega)
      · simp only [hb, if_false]
        by_cases hs : strs.length ≥ env.p.smallsort
        · simp only [hs, if_true]
          have := henv.small
          exact ih' .seqss strs p hr (List.length_pos_iff.1 (by omega)) (fun _ => by simp only [mu, Mode.rank]; omega)
        · simp only [hs, if_false]
          exact ih' .mkqsTop strs p hr trivial (fun _ => by simp only [mu, Mode.rank]; omega)
    | big => exact sampleBody_safe henv (Or.inl rfl) ih' hr hpre
    | seqss => exact sampleBody_safe henv (Or.inr rfl) ih' hr hpre
    | mkqsTop =>
      simp only [sortM]
      by_cases hi : strs.length < env.p.inssort
      · simp only [hi, if_true]
        exact Safe.pure (insSort_good hr)
      · simp only [hi, if_false]
        have := henv.ins
        exact ih' .mkqs strs p hr (List.length_pos_iff.1 (by omega)) (fun _ => by simp only [mu, Mode.rank]; omega)
    | mkqs => exact mkqsBody_safe henv ih' hr hpre
    | inscache => exact insCacheBody_safe hr

/-- **End-to-end correctness of the functional model of pS5.**  For NUL-free strings, every
threshold tuning, every big/small decision, every sample and every pivot choice (`EnvOk` only
asks for positive thresholds, a tree depth the classifiers support, and sample indices inside the
range), `sortAll` returns a permutation of the input that is sorted in unsigned-byte order
together with the exact LCP array — or runs out of fuel; it never reads out of bounds. -/
theorem sortAll_safe {env : Env} (henv : EnvOk env) (fuel : Nat) (strs : List Str) (hnf : ∀ s ∈ strs, nulFree s) :
    Safe true (sortAll env fuel strs) (SortedLcp strs) := by
  have hr : RangeOk [] strs := fun s hs => ⟨hnf s hs, s, rfl⟩
  exact sortM_recOk henv fuel .enq strs [] hr trivial (fun e => by cases e)

/-- **The recursion of pS5 terminates**: with fuel `fuelFor strs` (or more) the model does not run
out of fuel, for every parameter set and every chooser.  The measure: every recursive call either
misses a string of its caller's range (the one a splitter / the pivot was read from) or lies 8
characters deeper in all its strings. -/
theorem sortAll_total {env : Env} (henv : EnvOk env) {fuel : Nat} (strs : List Str) (hnf : ∀ s ∈ strs, nulFree s)
    (hfuel : fuelFor strs ≤ fuel) : ∃ r, sortAll env fuel strs = .ok r ∧ SortedLcp strs r := by
  have hr : RangeOk [] strs := fun s hs => ⟨hnf s hs, s, rfl⟩
  refine Safe.total (sortM_recOk (af := false) henv fuel .enq strs [] hr trivial (fun _ => ?_))
  simp only [mu, Mode.rank, List.length_nil]
  unfold fuelFor at hfuel; omega

/-- two sorted permutations of the same strings are the same list -/
theorem sorted_perm_unique : ∀ (a b : List Str), a.Perm b → a.Pairwise (fun x y => strLe x y = true) →
    b.Pairwise (fun x y => strLe x y = true) → a = b
  | [], b, hp, _, _ => by rw [List.nil_perm] at hp; exact hp.symm
  | x :: xs, [], hp, _, _ => by have := hp.length_eq; simp at this
  | x :: xs, y :: ys, hp, ha, hb => by
    rw [List.pairwise_cons] at ha hb
    have hxy : x = y := by
      have hx : x ∈ y :: ys := hp.mem_iff.1 (by simp)
      have hy : y ∈ x :: xs := hp.mem_iff.2 (by simp)
      rcases List.mem_cons.1 hx with h | h
      · exact h
      · rcases List.mem_cons.1 hy with h' | h'
        · exact h'.symm
        · exact strLe_antisymm _ _ (ha.1 y h') (hb.1 x h)
    subst hxy
    rw [sorted_perm_unique xs ys (List.Perm.cons_inv hp) ha.2 hb.2]

/-- **The answer does not depend on the parameter set, the sample, the pivots or the big/small
decisions**: any two successful runs of the model on the same input return the same strings and
the same LCP values. -/
theorem sortAll_unique {env1 env2 : Env} (h1 : EnvOk env1) (h2 : EnvOk env2) {f1 f2 : Nat} {strs : List Str}
    (hnf : ∀ s ∈ strs, nulFree s) {r1 r2 : Res} (e1 : sortAll env1 f1 strs = .ok r1) (e2 : sortAll env2 f2 strs = .ok r2) :
    r1.out = r2.out ∧ r1.lcp.drop 1 = r2.lcp.drop 1 := by
  have g1 := (sortAll_safe h1 f1 strs hnf).of_ok e1
  have g2 := (sortAll_safe h2 f2 strs hnf).of_ok e2
  have hout := sorted_perm_unique r1.out r2.out (g1.1.trans g2.1.symm) g1.2.1 g2.2.1
  refine ⟨hout, ?_⟩
  apply List.ext_getElem?
  intro i
  simp only [List.getElem?_drop]
  have hl : r1.lcp.length = r2.lcp.length := by rw [g1.2.2.1, g2.2.2.1, hout]
  by_cases hi : 1 + i < r1.out.length
  · rw [g1.2.2.2 (1 + i) (by omega) hi, g2.2.2.2 (1 + i) (by omega) (by rw [← hout]; exact hi), hout]
  · rw [List.getElem?_eq_none (by rw [g1.2.2.1]; omega), List.getElem?_eq_none (by rw [← hl, g1.2.2.1]; omega)]

end TlxVerif.C04
